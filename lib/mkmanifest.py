#!/usr/bin/env python3
"""Regenerates MANIFEST.json from lib/props_table.py (run after editing the table)."""
import json, os, sys
sys.path.insert(0, os.path.dirname(os.path.abspath(__file__)))
import props_table as pt

ROOT = os.path.dirname(os.path.dirname(os.path.abspath(__file__)))
ALL = ['C%02d' % i for i in range(1, 21)]
checks = []
for pid in ALL:
    if pid not in pt.PROPS:
        continue
    s = pt.PROPS[pid]
    checks.append(dict(
        property_id=pid,
        quick_cmd='./check %s --tier quick' % pid,
        thorough_cmd='./check %s --tier thorough' % pid,
        evidence_file='/verif/evidence/%s.json' % pid,
        replay_cmd_template='./check %s --replay {path}' % pid,
        engine='coq-proof+correspondence',
        level_claimed=dict(category=s.get('level', 'proof'), text=s['level_text'], design_ref=s.get('design_ref', 'DESIGN.md §5 ' + pid)),
        level_note=s['level_note'],
        technique=s.get('technique', 'machine-checked proof in Coq 8.16.1 over an executable Gallina model, tied to the Go code by a correspondence check (extracted model vs implementation on generated inputs/histories) and an end-to-end oracle search'),
    ))
na = [dict(property_id=p, reason=pt.NOT_YET.get(p, 'check not built yet in this revision (planned, see DESIGN.md §9)')) for p in ALL if p not in pt.PROPS]
m = dict(
    version=1,
    setup_cmd='./check --setup',
    hooks=dict(guard='verif', enable='go build -tags verif (add-only *_verif.go files)',
               baseline_off_cmd='for m in . examples cmd/rdfkit; do (cd /repo/$m && GOFLAGS=-mod=mod GOPROXY=off go test -vet=off -count=1 -timeout 25m ./...) || exit 1; done',
               source_commits=pt.HOOK_COMMITS, add_only=True),
    engines=[dict(name='coq-proof+correspondence', path='/verif/check',
                  serves_properties=[c['property_id'] for c in checks],
                  kind_free_text='Coq 8.16.1 theorems over Gallina models (coq/), extracted with ExtrOcamlBasic to ocaml/driver.exe; Go harness (harness/) runs the implementation from the current working tree on the same cases; python driver compares, triages against known_findings.json and writes evidence')],
    checks=checks,
    notes='See DESIGN.md. Every check rebuilds the harness against /repo\'s working tree (go build -tags verif, replace => $VERIF_REPO), runs make over the Coq development, re-checks props/<id>.v with coqc, then runs the correspondence (extracted model vs implementation) and the end-to-end oracles. The models are hand-written; no translator is used.',
    not_applicable=na,
)
json.dump(m, open(os.path.join(ROOT, 'MANIFEST.json'), 'w'), indent=1)
print('MANIFEST.json: %d checks, %d not_applicable' % (len(checks), len(na)))

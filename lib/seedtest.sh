#!/bin/sh
# seedtest.sh <prop> <dir-with-patch.diff> : apply a seeded change to /repo, run the check, undo it.
# prints DETECTED / MISSED. Never leaves /repo modified.
prop=$1; d=$2
cd /repo || exit 2
if ! git apply --check "$d/patch.diff" 2>/dev/null; then echo "PATCH-DOES-NOT-APPLY $d"; exit 2; fi
git apply "$d/patch.diff"
cd /verif
out=$(./check "$prop" --tier quick 2>&1)
rc=$?
git -C /repo checkout -- . 
echo "$out" | grep -E "VIOLATION|quick:" | head -5
if [ $rc -ne 0 ]; then echo "DETECTED $prop $d"; else echo "MISSED $prop $d"; fi

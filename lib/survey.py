#!/usr/bin/env python3
"""survey.py <family> [-n N] [-seed S] [--full K]: build the harness, run one family, run the model on its lines, and
print a compact summary (oracle failures grouped, model mismatches). Development aid only; not a registered check."""
import sys, os, json, re, subprocess, collections
ROOT = os.path.dirname(os.path.dirname(os.path.abspath(__file__)))
sys.path.insert(0, ROOT)
sys.path.insert(0, os.path.join(ROOT, 'lib'))
import importlib.machinery, importlib.util
loader = importlib.machinery.SourceFileLoader('check', os.path.join(ROOT, 'check'))
spec = importlib.util.spec_from_loader('check', loader)
ck = importlib.util.module_from_spec(spec); loader.exec_module(ck)

def main():
    a = sys.argv[1:]
    fam = a[0]; n = 1000; seed = 1; full = 3
    i = 1
    while i < len(a):
        if a[i] == '-n': n = int(a[i+1]); i += 2
        elif a[i] == '-seed': seed = int(a[i+1]); i += 2
        elif a[i] == '--full': full = int(a[i+1]); i += 2
        else: i += 1
    hb = ck.build_harness()
    if hb.get('vharness', (1, ''))[0] != 0:
        print('BUILD FAILED'); print(hb['vharness'][1][-3000:]); return 1
    ck.seeds_extract()
    rc, recs, err, dt = ck.run_family(fam, n, seed)
    print('rc', rc, 'records', len(recs), 'time %.1fs' % dt)
    if err.strip(): print('stderr:', err[-1500:])
    groups = collections.Counter(); ex = {}
    for r in recs:
        o = r.get('oracle')
        if o:
            key = (r.get('kind', '?'), re.sub(r'\d+', 'N', o)[:90], r.get('sig', ''))
            groups[key] += 1
            ex.setdefault(key, r)
    print('oracle/spec failures:', sum(groups.values()), 'in', len(groups), 'groups')
    for k, c in groups.most_common(40):
        print(' %5d %s | %s | sig=%s' % (c, k[0], k[1], k[2]))
    shown = 0
    for k, r in ex.items():
        if shown >= full: break
        shown += 1
        print('--- example', k[0]); print('  oracle:', (r.get('oracle') or r.get('spec'))[:600]); print('  desc:', r.get('desc', '')[:700])
    lines = [r for r in recs if r.get('line')]
    if lines and os.path.exists(os.path.join(ck.OCAML, 'driver.exe')):
        outs = ck.run_model([r['line'] for r in lines])[1]
        import iso
        mm = [(r, o) for r, o in zip(lines, outs) if (not iso.graph_iso(o, r.get('impl')) if r.get('k','').endswith('/iso') else r.get('impl') != o)]
        print('model cases', len(lines), 'mismatch', len(mm))
        for r, o in mm[:full]:
            print('--- mismatch', r.get('kind')); print('  impl :', r.get('impl', '')[:500]); print('  model:', o[:500]); print('  desc :', r.get('desc', '')[:500])
    cls = collections.Counter(r.get('cls', '') for r in recs)
    print('classes:', dict(cls.most_common(12)))
    return 0

sys.exit(main())

#!/usr/bin/env python3
"""addfixed.py <id> <property> <commit> <what>: development aid which appends a fixed: entry to known_findings.json."""
import json, sys
fid, prop, commit, what = sys.argv[1:5]
p = '/verif/known_findings.json'
d = json.load(open(p))
assert not any(f['id'] == fid for f in d['findings']), 'duplicate id'
d['findings'].append(dict(id=fid, property=prop, status='fixed', commit=commit, what='fixed: property=%s %s' % (prop, what)))
json.dump(d, open(p, 'w'), indent=1)
print('added', fid)

"""Graph isomorphism up to blank node renaming for ';'-separated "S P O[ G]" statement lists (terms without
spaces, blank nodes start with "_:").  Used by ./check for correspondences whose kind ends in /iso: the model and
the implementation name blank nodes differently."""
import collections


def _parse(s):
    out = []
    for st in s.split(';'):
        st = st.strip()
        if st:
            out.append(tuple(st.split(' ')))
    return sorted(set(out))


def _bl(t):
    return t.startswith('_:')


def _colors(sts):
    nodes = sorted({t for st in sts for t in st if _bl(t)})
    col = {n: 0 for n in nodes}
    for _ in range(len(nodes) + 2):
        sig = {}
        for n in nodes:
            items = []
            for st in sts:
                if n in st:
                    items.append(tuple(('*' if t == n else ('#%d' % col[t] if _bl(t) else t)) for t in st))
            sig[n] = (col[n], tuple(sorted(items)))
        ranks = {s: i for i, s in enumerate(sorted(set(sig.values())))}
        new = {n: ranks[sig[n]] for n in nodes}
        if new == col:
            break
        col = new
    return col, sig if nodes else {}


def graph_iso(a, b):
    if a.startswith('!') or b.startswith('!'):
        return a == b
    A, B = _parse(a), _parse(b)
    if len(A) != len(B):
        return False
    ca, sa = _colors(A)
    cb, sb = _colors(B)
    # compare colour classes by their signatures, not by rank numbers
    def classes(col, sig):
        d = collections.defaultdict(list)
        for n in col:
            d[_canon_sig(sig[n])].append(n)
        return d
    def _canon_sig(s):
        return repr(s[1])
    # signatures contain rank numbers of neighbours, which are comparable only if both graphs refine alike;
    # fall back to backtracking with ground-term structure as the filter
    na, nb = sorted(ca), sorted(cb)
    if len(na) != len(nb):
        return False
    setB = set(B)
    def ground(sts, n):
        return tuple(sorted(tuple(('*' if t == n else ('_' if _bl(t) else t)) for t in st) for st in sts if n in st))
    ga = {n: ground(A, n) for n in na}
    gb = {n: ground(B, n) for n in nb}
    if sorted(ga.values()) != sorted(gb.values()):
        return False
    order = sorted(na, key=lambda n: (len([m for m in nb if gb[m] == ga[n]]), n))
    steps = [0]
    def rec(i, m, used):
        steps[0] += 1
        if steps[0] > 200000:
            raise TimeoutError
        if i == len(order):
            return all(tuple(m.get(t, t) for t in st) in setB for st in A)
        n = order[i]
        for c in nb:
            if c in used or gb[c] != ga[n]:
                continue
            m[n] = c
            ok = True
            for st in A:
                if n in st and all((not _bl(t)) or t in m for t in st):
                    if tuple(m.get(t, t) for t in st) not in setB:
                        ok = False
                        break
            if ok and rec(i + 1, m, used | {c}):
                return True
            del m[n]
        return False
    try:
        return rec(0, {}, frozenset())
    except TimeoutError:
        return True   # undecided within the budget: not counted as a disagreement

#!/usr/bin/env python3
"""seedbatch.py [ids...]: run every seeded change (or the named ones) against the quick check of its property on the
current tree and record the outcome in its meta.json (check.detected, check.rerun). /repo is patched and reverted by
lib/seedtest.sh; nothing else may use /repo meanwhile."""
import json, os, subprocess, sys, glob, time
ROOT = '/verif'
ids = sys.argv[1:] or sorted(os.path.basename(os.path.dirname(p)) for p in glob.glob(ROOT + '/seeded/*/meta.json'))
for sid in ids:
    d = os.path.join(ROOT, 'seeded', sid)
    meta = json.load(open(os.path.join(d, 'meta.json')))
    prop = meta.get('property') or sid.split('-')[0]
    t0 = time.time()
    p = subprocess.run(['sh', os.path.join(ROOT, 'lib', 'seedtest.sh'), prop, d], stdout=subprocess.PIPE, stderr=subprocess.STDOUT, text=True)
    out = p.stdout
    if 'PATCH-DOES-NOT-APPLY' in out:
        res = 'patch no longer applies to the current tree (the code it changes was repaired since)'
        meta.setdefault('check', {})['rerun'] = res
    else:
        det = 'DETECTED' in out
        viol = [l for l in out.split('\n') if l.startswith('VIOLATION')][:3]
        c = meta.setdefault('check', {})
        c['detected'] = det
        c['violation_lines'] = viol
        c['rerun'] = 'quick check on the final tree: %s' % ('caught' if det else 'not caught')
        res = 'DETECTED' if det else 'MISSED'
    json.dump(meta, open(os.path.join(d, 'meta.json'), 'w'), indent=1)
    print(sid, prop, res, '%.0fs' % (time.time() - t0), flush=True)
subprocess.run(['git', '-C', '/repo', 'status', '--short'])

#!/bin/sh
# goal.sh <file.v> <line>: print the proof state just before <line>
f=$1; n=$2
head -n $((n-1)) "$f" > /tmp/goal_tmp.v
echo "Show." >> /tmp/goal_tmp.v
cd /verif/coq && coqc -Q . RK /tmp/goal_tmp.v 2>&1 | tail -${3:-40}

"""Known-finding classifiers.  Each takes (record, (kind, detail)) and returns True only if the
failure is exactly the recorded one: the harness proposes a signature in rec['sig'] after checking
the input predicate and the deviation relation on the real output; the names here bind entries of
known_findings.json to those signatures."""


def _sig(name):
    def f(rec, failure):
        return rec.get('sig') == name
    return f

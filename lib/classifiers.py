"""Known-finding classifiers.  Each takes (record, (kind, detail)) and returns True only if the
failure is exactly the recorded one: the harness proposes a signature in rec['sig'] after checking
the input predicate and the deviation relation on the real output; the names here bind entries of
known_findings.json to those signatures."""


def _sig(name):
    def f(rec, failure):
        return rec.get('sig') == name
    return f


import re

_RFC_SPLIT = re.compile(r'^(([^:/?#]+):)?(//([^/?#]*))?([^?#]*)(\?([^#]*))?(#(.*))?$', re.S)


def _authority(s):
    m = _RFC_SPLIT.match(s)
    return m.group(4) if m and m.group(3) is not None else None


def C12_pct_host(rec, failure):
    """F25: net/url rejects a percent-encoded octet in the host (reg-name allows pct-encoded).
    Input predicate: the authority of the base or of the reference contains '%'.
    Deviation: the implementation returns a parse error of class 'escape' for exactly that operand."""
    if rec.get('k') not in ('K/C12/resolve', 'K/C12/parseprint'):
        return False
    impl = rec.get('impl', '')
    ins = rec.get('in', [])
    if rec['k'] == 'K/C12/parseprint':
        a = _authority(ins[0])
        return impl == '!escape' and a is not None and '%' in a
    ab, ar = _authority(ins[0]), _authority(ins[1])
    if impl == '!base:escape':
        return ab is not None and '%' in ab
    if impl == '!ref:escape':
        return ar is not None and '%' in ar and not (ab is not None and '%' in ab)
    return False


C13_curie_nomatch_empty_prefix = _sig('C13/curie-nomatch-empty-prefix')

C05_html_offsets_missing_node_metadata = _sig('C05/html-offsets-missing-node-metadata')
C05_offsets_invalid_utf8_grapheme_panic = _sig('C05/offsets-invalid-utf8-grapheme-panic')
C16_html_capture_whitespace_text_placement = _sig('C16/html-capture-whitespace-text-placement')
C16_offsets_invalid_utf8_grapheme_panic = _sig('C16/offsets-invalid-utf8-grapheme-panic')
C16_html_offsets_missing_node_metadata = _sig('C16/html-offsets-missing-node-metadata')
C16_html_capture_bogus_comment_slice_bounds = _sig('C16/html-capture-bogus-comment-slice-bounds')
C16_html_capture_abutting_attributes = _sig('C16/html-capture-abutting-attributes')
C16_html_capture_nul_in_text = _sig('C16/html-capture-nul-in-text')
C16_html_capture_repeated_body_tag = _sig('C16/html-capture-repeated-body-tag')
C16_html_capture_unquoted_value_trailing_slash = _sig('C16/html-capture-unquoted-value-trailing-slash')
C16_html_capture_repeated_body_tag_panic = _sig('C16/html-capture-repeated-body-tag-panic')
C05_html_offsets_repeated_body_tag_panic = _sig('C05/html-offsets-repeated-body-tag-panic')
C16_html_capture_reparented_metadata = _sig('C16/html-capture-reparented-metadata')
C16_html_capture_nonplain_markup_tree_differs = _sig('C16/html-capture-nonplain-markup-tree-differs')
C20_duration_fractional_component = _sig('C20/duration-fractional-component')

"""Per-property configuration of ./check: harness families and sizes, evidence texts."""

COMMON_TRUSTED = [
    'Coq 8.16.1 kernel (coqc; coqchk -silent -o in the thorough tier); vm_compute used for examples and the in-Coq slice; no native_compute',
    'extraction: Require Extraction + ExtrOcamlBasic only (bool/option/list/prod/unit/sumbool); no Extract Constant / Extract Inductive of our own; N/Z/positive/nat stay Coq inductives',
    'ocaml/driver.ml (byte<->N glue, ~50 lines); cross-checked on a slice of every run by vm_compute of the same run_line inside Coq',
    'Go harness (generators, observable projection, end-to-end oracles) and this driver',
    'hand-written Gallina models are a reading of the Go source, tied to it only by the correspondence runs',
]

PROPS = {}

PROPS['C13'] = dict(
    families=[
        dict(name='c13-prefix', quick=2500, thorough=60000),
        dict(name='c13-relativize', quick=30000, thorough=500000),
        dict(name='c13-curie', quick=8000, thorough=150000),
    ],
    rule='random histories of Add/Delete/Clone/Compact/Expand/GetPrefixMappings over <=4 managers, 6 prefixes, 9 nested/duplicate namespaces '
         '(non-trivial = at least two mutating ops and one query); (base, IRI) pairs: resolved references, neighbours of the base (directory itself, query/fragment edits, ":" in first segment, "//", dot segments), same-root and unrelated IRIs '
         '(non-trivial = a spelling was offered); CURIE scopes x IRIs and ParseCURIE strings; distinct by (input, outputs)',
    refuted=['C13_curie_near_miss_refuted (known finding F27)'],
    trusted_base=['model/Prefix.v mirrors iri/prefix_manager.go (slices.SortFunc modelled as a stable sort; observables avoid the order among equal lengths)',
                  'model/Relativize.v mirrors iri/base_iri.go with model/Iri3986.v as the expander; model/Curie.v mirrors iri/curie'],
    assumptions=['Go map/slice semantics as read in the model'],
    explanation='theorems over all histories of the prefix table model; model tied to iri.PrefixManager by running both on the same histories',
)

HOOK_COMMITS = ['4b43602']
NOT_YET = {}

PROPS['C13'].update(
    level_text='Proof: invariant, refinement to a last-write-wins map, longest-match and expand-back theorems for the prefix table over all histories, '
               'kernel-checked; the model is run against iri.PrefixManager / BaseIRI.RelativizeIRI / curie on generated histories and pairs on every run.',
    level_note='Trusted: Coq kernel, ExtrOcamlBasic extraction + 50-line OCaml glue (cross-checked in Coq by vm_compute on a slice), Go harness; '
               'the hand model is tied to the Go code behaviourally only.',
)


PROPS['C12'] = dict(
    families=[
        dict(name='c12-resolve', quick=40000, thorough=600000),
        dict(name='c12-parseprint', quick=8000, thorough=100000),
    ],
    slice=120,
    rule='(absolute base without fragment, IRI reference) pairs built from a component alphabet (7 schemes incl. upper case, 10 authorities incl. userinfo/port/IPv6/non-ASCII/pct-encoded, '
         '16 segments incl. dot segments, pct-encodings of both cases, ":" and "@", empty vs absent query/fragment) + the 42 RFC 3986 5.4 examples; non-trivial = reference non-empty and different from the base',
    trusted_base=['model/Iri3986.v is a literal transcription of RFC 3986 appendix B / 5.2.2 / 5.2.3 / 5.2.4 / 5.3 (checked against the 42 examples of 5.4 inside Coq)'],
    assumptions=['base IRIs are RFC 3987 absolute-IRIs (no fragment), as RFC 3986 5.1 requires of a base'],
    explanation='the Gallina model is the specification named by the property; iri.ParsedIRI is compared with it on every generated pair, a disagreement is a concrete violation',
    level_text='Proof of the characterising theorems of the RFC 3986 transcription (parse/print identity on all strings, absolute-without-dots identity, dot-removal identity, absoluteness, fragment rule), '
               'kernel-checked; iri.ParsedIRI.Parse(...).String() is compared with that executable specification on 40k (quick) / 600k (thorough) generated pairs per run.',
    level_note='The theorems are about the RFC transcription; conformance of the Go code to it is established by the correspondence run only. One known finding (pct-encoded host rejected by net/url).',
)

PROPS['C14'] = dict(
    families=[
        dict(name='c14-seq', quick=3000, thorough=80000),
        dict(name='c14-conc', quick=150, thorough=5000),
    ],
    rule='sequential histories (4-53 steps) over <=4 factories, <=3 string factories (and their label pass-through providers over a UUID fallback), <=3 int64 and <=2 UUID providers, <=3 mappers, '
         '8 label strings incl. empty and duplicates, model = implementation step by step (non-trivial = >=2 lookups and >=3 nodes); '
         'concurrent runs: 2-16 goroutines x 20-220 ops on shared factory / string factory / providers / mapper, oracle = the property itself on what was observed',
    trusted_base=['model/BNodes.v: each step is one critical section (mutex.Lock..Unlock) or one atomic.Int64.Add of rdf/blank_node*.go, rdf/blanknodes/*.go',
                  'atomicity of sync.Mutex / atomic.Int64 (Go memory model) is assumed: the theorems cover all interleavings of atomic steps',
                  'crypto/rand injectivity is an explicit premise of C14_uuid_labels_injective; that a document label is never one of the UUIDs drawn is built into C14_pass_through_injective (labels and UUIDs are values of different kinds there)'],
    assumptions=['each GetBlankNodeString / MapBlankNode / NewBlankNode call is one atomic step'],
    explanation='theorems over all schedules of the blank-node state machine; sequential histories tie the step semantics to the Go code; concurrent runs exercise the real locks',
    level_text='Proof: freshness of every factory-made node, label function + injectivity from the first call on (int64, UUID and the string factories\' label pass-through providers), mapper function + injectivity, string-factory equality, for all schedules of atomic steps; '
               'the step semantics are compared with the Go code on sequential histories and the property itself is checked on real concurrent runs.',
    level_note='Atomicity of each operation is assumed (mutex / atomic.Add as coded); UUID uniqueness is a premise. Hooks (build tag verif) expose identifier internals to the harness.',
)

PROPS['C19'] = dict(
    families=[dict(name='c19-store', quick=2500, thorough=120000), dict(name='c19-matchers', quick=6000, thorough=200000)],
    slice=40,
    rule='random histories (2-61 ops) of AddQuad/DeleteQuad/HasQuad/NewQuadIterator and GetGraph(..).AddTriple/DeleteTriple/HasTriple/NewTripleIterator over a universe of 4 IRIs, '
         '4 blank nodes of two factories (equal counters in different factories), 10 literals differing only in datatype / tag / direction / lexical form incl. forms mimicking the literal key syntax, '
         '6 graph names; matcher combinations from Equals / EqualsOneOf / IsIRI / IsBlankNode / IsLiteral / IsLiteralDatatype / And / Or / Not at every position '
         '(single-subject-matcher fast path made frequent); non-trivial = >=3 mutations and >=1 query',
    trusted_base=['model/Store.v mirrors x/storage/inmemory (graph map -> subject-node buckets -> statement lists) and rdf/terms, rdf/triples, rdf/quads matchers; node interning is modelled by structural term equality',
                  'collision-freeness of the 96-bit truncated SHA-256 literal key is assumed; injectivity of its preimage on well-formed literals is proved (C19_lit_key_injective*)'],
    assumptions=['terms are well-formed (datatype IRIs without LF, tag <=> rdf:langString / rdf:dirLangString): ill-formed literals can collide in nodesByLiteral'],
    explanation='refinement of the store model to a plain set over all histories and matcher lists; the model is run against inmemory.Dataset on generated histories, and the harness checks the set semantics on the implementation directly',
    level_text='Proof: refinement of the store to a mathematical set over all histories (membership, no duplicates, deletions of absent quads no-ops), iteration = filter for every matcher list (fast path = slow path), '
               'matchers = term equality, literal-key preimage injective; the model is compared with inmemory.Dataset step by step on generated histories.',
    level_note='Node interning is modelled by term equality; truncated-SHA-256 collision-freeness is assumed. Go map iteration order is abstracted (outputs compared as sorted lists).',
)

PROPS['C17'] = dict(
    families=[
        dict(name='c17-graph', quick=4000, thorough=150000),
        dict(name='c17-dataset', quick=3000, thorough=100000),
        dict(name='c17-exhaustive', quick=7, thorough=1, args=('3',)),
    ],
    rule='random triple lists (1-12 triples over 3 IRIs, 1-6 blank nodes, 2 literals, blank-node density 30-80%) x 4 option combinations; a corpus of the defect shapes '
         '(two-cycle, self reference, three-cycle, tail off a cycle, shared node, never-described node, duplicate triple); all digraphs on 3 blank nodes x external references x 4 options '
         '(quick: every 7th, thorough: all 16380); datasets of 1-10 quads over 2-3 graph names incl. blank graph names, through Add and AddDatasetResource; non-trivial = >=2 blank nodes referenced',
    trusted_base=['model/Descr.v mirrors rdfdescription/resource_list_builder.go and dataset_resource_list_builder.go (reference counts, only-referrer chain, pinned shared nodes, recursion on explicit fuel with an out-of-fuel marker)'],
    assumptions=['Go map iteration order is abstracted: exported resources are compared as sorted lists'],
    explanation='model of the (fixed) export algorithm; the full statement is a theorem of the model: for every graph, pinned set and option combination the flattened export is a permutation of the input, every nested or anonymous blank node loses its name exactly once, and the nesting depth stays within length+2 (so the recursion is bounded); per graph of a dataset; quads partitioned by graph name; blank nodes shared between graphs or naming a graph are pinned and never anonymous; the model is compared with the implementation on all small digraphs plus random graphs and datasets, and the implementation is checked by an isomorphism oracle',
    level_text='Proof: C17_export_flatten_iso (every graph, every pinned set, all four option combinations: permutation of the input, anonymised nodes distinct, fuel never exhausted), C17_export_dataset_flatten, C17_quads_by_graph, '
               'C17_shared_never_anonymous, C17_graph_name_pinned; the model is tied to the builders by correspondence on every digraph over 3 blank nodes and on random graphs/datasets, plus an isomorphism oracle on the implementation itself.',
    level_note='The proof unfolds the nested export level by level (DescrInline.v); the termination argument is the only-referrer chain test. Two fix: commits repaired the three defect shapes (cycles dropped, self reference recursing forever, nodes split across graphs).',
)

PROPS['C01'] = dict(
    families=[dict(name='c01-nq', quick=3000, thorough=150000), dict(name='c01-rdfjson', quick=2500, thorough=100000)],
    slice=60,
    rule='datasets of 0-6 quads over RFC 3987-generated IRIs (incl. non-ASCII, pct-encoded hosts, upper-case schemes), literals assembled from 32 lexical fragments '
         '(controls, quote, backslash, CR LF TAB BS FF, DEL, U+0080, Latin-1, surrogate-adjacent, astral, text that looks like syntax), 9 language tags with 1-5 subtags, 12 datatypes, '
         'blank nodes of three kinds of factory shared across positions and graphs; x format (nt/nq) x ascii x 4 label formats; non-trivial = >=2 quads',
    trusted_base=['model/NQ.v mirrors encoding/{nquads,ntriples}/{encoder,write_iri,write_literal,decoder*}.go rune by rune; lib/Utf8.v mirrors Go utf8 encode/decode',
                  'an independent regular-expression transcription of the N-Triples/N-Quads EBNF in the harness (grammaticality oracle)'],
    assumptions=['labels returned by a custom blank-node labeller and language tags are written verbatim: the ASCII guarantee requires them to be ASCII (documented scope decision)'],
    explanation='writer and decoder models compared byte for byte / statement for statement with the Go code; oracle: real encoder -> real decoder -> isomorphism, byte<128 scan, EBNF recogniser',
    level_text='Proof: C01_decode_encode and C01_bytes_roundtrip (N-Triples and N-Quads, ASCII option on and off: the decoder model reads the text of the writer model, as runes and as UTF-8 bytes, back as exactly the quads written, for datasets of any size) and C01_ascii (every byte below 0x80 under the ASCII option) '
               'over the models of the writers and the streaming decoder; the models are compared with the Go code on every generated dataset, and the end-to-end oracle (encode, decode, isomorphism, grammar, byte scan) runs on the implementation itself. RDF/JSON is covered by correspondence and oracle only.',
    level_note='Six fix: commits repaired defects in this area (ASCII range, truncated subject, language subtags, empty tag, absolute-IRI check, graph-name offsets).',
    partial=['RDF/JSON: no theorem (encoding/json and inspectjson are outside the models)'],
)

_ZOO_RULE = ('every decoder (ntriples, nquads, turtle, trig, rdfxml, rdfjson, jsonld, htmlrdfa, htmlmicrodata, htmljsonld, htmldefaults) in turn on: a hand-written corpus of fragile productions, '
             'files of the W3C archives shipped in the repository (seeds), 1-4 byte-level mutations of them from a per-format token dictionary (delete / insert / duplicate / flip / truncate / swap / replace / repeat), '
             'adversarial nesting and huge tokens, and mutations of those; x options (offsets on/off with initial offset, base present/absent, lax JSON, JSON-LD processing mode) x reader chunking (whole, 1 byte, random chunk sizes) '
             'x reader ending (io.EOF / injected error, with or without data); non-trivial = input longer than 20 bytes; N-Triples/N-Quads inputs below 3 KB are also run through the decoder model')

PROPS['C05'] = dict(
    families=[dict(name='c05-zoo', quick=6000, thorough=400000)],
    slice=40,
    rule=_ZOO_RULE,
    trusted_base=['model/NQ.v (N-Triples/N-Quads decoder, rune by rune) and model/Protocol.v (the Next/Err shapes as coded)',
                  'wall-clock limit of 3 s + 2 s/KB per run stands in for "bounded time"; memory is not measured'],
    assumptions=['XML / JSON / HTML tokenizers, JSON-LD expansion, RDFa and Microdata processing, Turtle and TriG scanners are exercised by the protocol driver only (no model yet)'],
    explanation='totality and no-fuel-exhaustion theorem for the N-Triples/N-Quads decoder model, protocol theorems for the three iterator shapes; model = implementation on all N-Triples/N-Quads inputs; every decoder driven through the full protocol under recover() and a time limit',
    level_text='Proof for the N-Triples/N-Quads decoder model (terminates on every input, verdict never out-of-fuel) and for the iterator protocol state machines; the remaining decoders are decided by the protocol driver on seeds, mutations and adversarial inputs (exploration).',
    level_note='Two known findings: panics inside third-party offset bookkeeping (cursorio grapheme scan on invalid UTF-8; inspecthtml / missing node metadata) when offset capture is on. Fixes made: RDF/XML re-parse after error, JSON-LD nil element, Turtle/TriG prefixed-name panic.',
)

PROPS['C06'] = dict(
    families=[dict(name='c06-zoo', quick=6000, thorough=400000)],
    slice=40,
    rule=_ZOO_RULE + '; every statement yielded (also before an error) is classified: nil-ness, dynamic types per position, blank node identity, datatype present, tag <=> rdf:langString / rdf:dirLangString, absoluteness for N-Triples/N-Quads and for Turtle/TriG under an absolute base',
    trusted_base=['model/NQ.v; the classification function of the harness (zooWF)'],
    assumptions=['for decoders other than N-Triples/N-Quads the property is explored, not proved'],
    explanation='well-formedness theorem over all inputs for the N-Triples/N-Quads decoder model; classification oracle on every statement of every decoder',
    level_text='Proof for N-Triples/N-Quads (every statement of every input, also before an error, is well-formed and absolute: C06_nq_wf; and can be written and read again unchanged: C06_nq_rewritable); exploration by the classification oracle for the other nine decoders.',
    level_note='Fixes made while building this check: empty language tags (N-Triples, N-Quads, Turtle, TriG, RDF/JSON, RDF/XML, JSON-LD), rdf:langString without tag, empty RDF/JSON datatype, Turtle/TriG collection subjects (nil subject).',
)

PROPS['C15'] = dict(
    families=[dict(name='c15-stream', quick=700, thorough=30000)],
    slice=40,
    rule='every decoder in turn (half of the budget on N-Triples, N-Quads, Turtle, TriG) on generated N-Triples/N-Quads documents decorated with comments, CRLF, tabs and multi-byte characters, '
         'W3C suite documents and the hand-written corpus: whole input vs. five chunkings (1, 2, 3+1, random, 4095/1/4096/2 bytes per Read; io.EOF together with or after the last bytes), decoded twice; '
         'for the streaming formats every cut point (sampled beyond 400 bytes) with a clean and with a failing reader: verdict, statements before the error a prefix of the document\'s (last may differ), '
         'clean end only where appending a statement yields exactly one more; whole-document formats: a failing reader must surface; '
         'model-backed: every cut of short N-Triples/N-Quads documents x both reader endings through the decoder model, and the rune buffer against the bufio.ReadRune model on intact and UTF-8-damaged bytes',
    trusted_base=['model/RuneBuf.v models bufio.Reader.ReadRune / utf8.FullRune / utf8.DecodeRune of the Go standard library as used by cursorioutil.RuneBuffer (third party); tied to them by the K/C15/runes correspondence',
                  'model/NQ.v (N-Triples/N-Quads decoder)'],
    assumptions=['Turtle, TriG and the whole-document decoders have no model: chunking independence, cut points and error surfacing are explored for them, not proved',
                 'the theorem that statements before a cut are a prefix of the complete document\'s statements is not proved yet for the N-Quads model (checked by the cut oracle and the model correspondence on every cut)'],
    explanation='theorems: the runes (hence statements and verdict of the N-Triples/N-Quads model) are the same for every partition of the bytes into Read calls; a failing reader never yields a clean end; '
                'model = implementation on every cut of generated documents under both reader endings; oracles over all eleven decoders',
    level_text='Proof (partial): chunking independence for all partitions of all byte strings through the rune-buffer model and the N-Triples/N-Quads decoder model (C15_runes_ignore_chunking, C15_nq_ignores_chunking), '
               'reader failures always reported (C15_nq_io_error_reported), and truncation (C15_nq_truncated_prefix: the statements delivered before a reader failure at any cut point are the first statements of the whole input); the other decoders by exploration of every cut point.',
    level_note='Fixes made while building this check: Turtle/TriG numeric literals without digits (a cut after a sign ended cleanly), Turtle/TriG comment at end of input hiding a pending production, N-Triples/N-Quads truncated subject.',
)

PROPS['C16'] = dict(
    families=[dict(name='c16-offsets', quick=5000, thorough=200000)],
    slice=40,
    rule='every decoder with offset capture (all eleven) on generated N-Triples/N-Quads documents, W3C suite documents and the corpus, 1/4 of them cut or mutated (not for the HTML family), with and without a random initial offset and base: '
         'same statements with capture on and off; every range inside the document, start <= end, byte/line/column consistent with the text (line/column for text whose code points are grapheme clusters of their own); '
         'N-Triples, N-Quads, Turtle, TriG: the slice of every subject/predicate/object/graph range re-decoded in the document\'s prefix/base context gives the same IRI / literal lexical form / blank node kind '
         '(terms generated by collection and blank-node-property-list sugar: the range is the generating punctuation); positions attached to syntax errors inside the document; '
         'model-backed: statements, verdict and all ranges of N-Triples/N-Quads documents against the decoder model; pinned minimal documents of every known and repaired finding run first',
    trusted_base=['model/NQ.v: commit trace and cursorio.TextWriter position arithmetic (LF, CR LF, lone CR; one column per code point)',
                  'the re-lexing oracle of the harness (builds a one-statement document around the slice)'],
    assumptions=['line/column bookkeeping follows grapheme clusters (third-party uax29 segmentation): the model and the line/column oracle cover text in which every code point is its own cluster',
                 'for decoders other than N-Triples/N-Quads the property is explored, not proved'],
    explanation='theorems over all inputs, endings and initial offsets for the N-Triples/N-Quads decoder model: committed runes = consumed input in order, every range within [initial, initial + document length] with start <= end, exact byte arithmetic; model = implementation including all ranges; oracles over all decoders',
    level_text='Proof (partial) for N-Triples/N-Quads: commit discipline (C16_nq_commit_discipline), every range inside the shifted document with start not after end (C16_nq_ranges_inside), exact byte advance (C16_bytes_exact); '
               'token-of-the-term, line/column agreement and the other decoders by the re-lexing and position oracles (exploration).',
    level_note='Fixes made while building this check: N-Quads "." after a graph name not committed, Turtle/TriG empty string literal committing the next rune twice, Turtle/TriG blank node ranges without "_:", RDF/XML zero ranges (reification, attributes without metadata, attribute errors), N-Triples/N-Quads error offsets counted twice. '
               'Known findings (third-party inspecthtml-go / cursorio): F35b, F36b, F40, F49, F50, F51.',
)

PROPS['C07'] = dict(
    families=[dict(name='c07-subset', quick=6000, thorough=300000), dict(name='c02-tokens', quick=10000, thorough=300000)],
    slice=40,
    rule='N-Triples documents (grammar-directed generator with comments, CRLF, tabs, multi-byte characters; the repository\'s N-Triples encoder on generated graphs; positive W3C N-Triples files) through the N-Triples, N-Quads, Turtle and TriG decoders; '
         'Turtle documents (grammar-directed Turtle writer covering every production: prefixed names with escapes, relative IRIs under changing base, four string styles, numeric/boolean shorthands, nested property lists, collections, repeated ";"; positive W3C Turtle files) through the Turtle and TriG decoders: '
         'same triples (as sets up to blank node renaming, and the same statement count), all in the default graph; documents the smaller language\'s decoder rejects are outside the quantifier and counted as skipped; '
         'model-backed: each N-Triples document through the N-Quads decoder model',
    trusted_base=['model/NQ.v with nq=false / nq=true is the model of both encoding/ntriples and encoding/nquads (tied to both by the K/C01, K/C15, K/C16, K/C07 correspondences)',
                  'the harness\' Turtle writer (ttlgen.go) decides what is grammatical Turtle'],
    assumptions=['Turtle and TriG decoders have a Gallina model of their terminal scanners only (model/TurtleTok.v, tied to the Turtle decoder by the c02-tokens correspondence): at document level N-Triples-in-Turtle and Turtle-in-TriG are explored, not proved; the TriG copies of the scanners are reached by differential decoding only'],
    explanation='theorems: whatever the N-Triples decoder model accepts, the N-Quads decoder model decodes to the same statements, in the default graph, with the same ranges; every IRIREF and STRING_LITERAL_QUOTE the N-Triples/N-Quads scanner model accepts is read by the Turtle scanner model as the same characters up to the same delimiter (the two scanner families are separate code); the four Go decoders are compared on generated and archived documents',
    level_text='Proof for N-Triples in N-Quads over all inputs and reader endings (C07_nt_subset_nq) and for the shared terminals across the scanner families (C07_iriref_same_in_turtle, C07_string_same_in_turtle, C07_reader_runes_scalar); exploration by differential decoding for whole N-Triples documents in Turtle/TriG and Turtle in TriG.',
    level_note='Fix made while building this check: comments ended only at LF in all four decoders (F99: with CR line ends the text after a comment was swallowed). The Turtle/TriG fixes recorded under C08/C15/C16 apply to both decoders.',
)

_TTL_TOK = ('model-backed token level, eight correspondences on strings drawn from alphabets that stress each class (first/last-position rules, every PN_LOCAL_ESC character, PLX, U+00B7/combining/U+203F, controls, quotes, backslashes, surrogate and out-of-range escapes, signs/dots/exponents): '
            'format_PN_LOCAL, formatLiteralLexicalForm and formatIRI (plain and ASCII) through turtle.NewTermFormatter, literalShorthandDatatype through the encoder, and the decoder\'s PN_LOCAL, string (four quote styles), numeric and IRIREF scanners observed through the object of a one-statement document')

PROPS['C02'] = dict(
    families=[dict(name='c02-turtle', quick=8000, thorough=400000), dict(name='c02-tokens', quick=40000, thorough=1500000)],
    slice=40,
    rule='graphs of up to 6 triples plus an rdf:first/rdf:rest list (well-formed, typed rdf:List, malformed, shared), shared blank nodes and cycles; IRIs = 8 namespaces x 50 local parts (leading/trailing/double dots, "-", digits, "%", ":", every sub-delim, U+00B7, combining marks, U+00D7, non-BMP, empty) and RFC 3987 IRIs from the C12 generator; '
         'literals of 14 XSD datatypes with valid lexical forms ("+1.", ".5", "1.e1", "INF", "007", xsd:long "5", xsd:boolean "1"), language tags with up to nine subtags, strings with controls/quotes/non-BMP; '
         'x base (none, document, directory, with fragment, urn) x subsets of 8 prefixes (incl. empty prefix and "p.q") x buffered x resources mode (rdfdescription export) x directive mode (@, SPARQL, disabled) x labeller; '
         'encoded, decoded with the same base/prefixes as defaults, compared up to blank node renaming. Excluded as not writable in Turtle: IRIs with dot segments (RFC 3986 5.2.2 removes them from any IRIREF) and with a percent-encoded octet in the authority (finding F25). ' + _TTL_TOK,
    trusted_base=['model/TurtleTok.v mirrors format_prefix_local_name.go, format_literal.go, format_iri.go and the four decoder_produce_*.go scanners, over runes',
                  'the structure of the encoder (predicate/object lists, nested resources, list syntax, directives) is not modelled: it is decided by the round-trip family'],
    assumptions=['Go strings converted to []rune contain scalar values only (invalid UTF-8 becomes U+FFFD before the formatter sees it)',
                 'a custom blank node labeller returns valid BLANK_NODE_LABEL text'],
    explanation='round-trip theorems for the four token kinds over all strings and both ASCII modes; model = implementation for the four formatters and four scanners; end-to-end encode/decode/compare over graphs x configurations',
    level_text='Proof (partial): token-level round trip for every local name the encoder accepts, every string, every IRI reference (plain and ASCII) and every shorthand (C02_prefixed_name_roundtrip, C02_string_roundtrip, C02_iriref_roundtrip, C02_shorthand_roundtrip); document structure and configuration space by exploration with an isomorphism oracle.',
    level_note='Fixes made while building this check: prefixed names with a local part that has no prefixed-name form (leading U+00B7/combining/"-", U+00D7 percent-encoded to the wrong octet), numeric/boolean shorthands for lexical forms which read back as another datatype ("5"^^xsd:decimal, xsd:long, "INF", "+1."), rdf:type rdf:List dropped by the list syntax.',
)

PROPS['C08'] = dict(
    families=[dict(name='c08-turtle', quick=12000, thorough=600000), dict(name='c02-tokens', quick=20000, thorough=800000)],
    slice=40,
    rule='documents drawn production by production from the Turtle 1.1 / TriG 1.1 grammars by a writer which computes the denoted dataset independently (prefix/base state incl. redefinition and relative namespace IRIs, document-scoped blank node labels, collections, nested blank node property lists as subject and object, "a", object and predicate lists with repeated and trailing ";", four string styles with ECHAR/UCHAR/raw newlines/inner quotes, numeric and boolean shorthands, PN_LOCAL with escapes/PLX/colons/dots/non-ASCII, '
         'IRIREF with UCHAR, relative references of all RFC 3986 kinds, @prefix/@base/PREFIX/BASE in any case, GRAPH/bare/default graph blocks with and without final ".", comments and white space between any two tokens, name-like token directly before "."), with and without a default base; decoded dataset compared up to blank node renaming (language tags case-insensitively). ' + _TTL_TOK,
    trusted_base=['the harness\' Turtle/TriG writer (ttlgen.go) and its denotation (net/url for reference resolution, restricted to references it does not rewrite)',
                  'model/TurtleTok.v for the terminal productions'],
    assumptions=['the non-terminal structure of the decoders (statement, predicateObjectList, collection, graph block state machines) has no Gallina model: explored by the writer, not proved',
                 'long strings are covered by the writer and by the string correspondence, not by the every-spelling theorem'],
    explanation='every-spelling theorems for IRIREF, short strings, PN_LOCAL and numeric tokens in the decoder scanner models; scanners = implementation on stress inputs; grammar-directed documents with independently computed denotation for the rest',
    level_text='Proof (partial): for the terminal productions, every spelling is decoded to what it denotes (C08_iriref_every_spelling, C08_short_string_every_spelling, C08_local_name_every_spelling, C08_numeric_every_token); productions above the token level by grammar-directed exploration with a denotation oracle.',
    level_note='Fixes made late, after reading seeded changes pointed at the generator\'s politeness: prefixes named like keywords (F96: true:x read as a boolean), keywords without following white space (F97: a<iri>, F98: GRAPH<g>{}). Fix made while building this check: "[ :p :o ] :q :r ; :s :t ." (predicate list continued after a blank node property list subject) was rejected by both decoders.',
)

PROPS['C20'] = dict(
    families=[dict(name='c20-xsd', quick=60000, thorough=3000000)],
    slice=40,
    rule='the 28 mapped datatypes in turn; per datatype: canonical lexical forms of values the Go type represents (range ends of every integer type, 2^63, 2^64-1, dyadic decimals, INF/-INF/NaN, extreme doubles, leap days, fractional seconds), further valid forms (signs, leading zeros, white space to collapse, time zone offsets up to 14:00, 24:00:00, year 0000 and beyond 9999), listed forms just outside the lexical space, and one or two random edits (insert/delete/replace from an alphabet of signs, digits, separators, letters, white space) of any of them; '
         'oracles against the harness\' own reading of the XML Schema 1.1 lexical grammars: acceptance only inside the lexical space (and value range), acceptance of every canonical form, datatype of the produced literal, produced lexical form valid, same value (integers and decimals exactly, floats by bit pattern, binaries by octets, dates and times by normalised text, durations by months and seconds), mapping the produced literal again gives the same literal, TermEquals true for the own literal, false for another lexical form and for another datatype; '
         'model-backed: boolean, the nine integer types and hexBinary through the Gallina model of the mapping function (acceptance and canonical form)',
    trusted_base=['model/Xsd.v: xsdutil.WhiteSpaceCollapse and strconv.ParseInt/ParseUint written out with their 64-bit overflow guards (Go standard library, tied by the K/C20 correspondences through the Map functions)',
                  'the harness\' regular expressions for the 28 lexical spaces and its value comparisons'],
    assumptions=['decimal/float/double values, date/time and duration types have no Gallina model of their value mapping (strconv.ParseFloat, time.Parse): decided by the oracles',
                 'xsd:integer is mapped to an int64: lexical forms beyond that range are valid but not representable, and their rejection is not counted'],
    explanation='theorems: the modelled ParseInt/ParseUint accept exactly the integer lexical space within the bit size and return the value; every representable value\'s canonical form is accepted again with the same value (idempotent canonicalisation); boolean likewise; model = implementation on generated strings; grammar and value oracles for all 28 datatypes',
    level_text='Proof for boolean and the integer family (C20_signed_accepts, C20_parse_uint_spec, C20_signed_canonical, C20_unsigned_canonical, C20_boolean, C20_boolean_accepts) over all strings and all values of the type; exploration with grammar and value oracles for the other datatypes.',
    level_note='Eight fixes made while building this check (xsd:long bit size, unsignedLong formatting, ParseFloat leniency, INF/NaN spelling, unchecked binaries, g* lexical forms, date/time leniency and dropped fractions, duration grammar). One known finding: fractional duration components, pinned by the repository\'s own test.',
)

_CANON_RULE = ('datasets of the symmetric shapes the property names: cycles (2-7), two cycles, cliques (2-4), disjoint copies of a chain, stars, paths, grids, self-referencing quads, blank nodes as graph names, random quads over 1-5 shared blank nodes, an irregular sparse digraph over 5-9 blank nodes taken twice (all first-degree hashes tie; long branching N-degree paths), literals of every escaping class; a third of them with one node marked to break the symmetry partly; '
               'each canonicalized as generated and in four isomorphic copies (fresh blank nodes created in shuffled order, quads shuffled): byte-equal outputs; one non-isomorphic neighbour (a predicate changed): different output; '
               'on every run: lines sorted and unique, iterator lines = written document, issued identifiers one-to-one and exactly c14n0..c14n(k-1), every line equal to its original quad (by OriginalQuadIndex) serialised independently by the harness under GetBlankNodeIdentifier, output parses back to a dataset isomorphic to the input; '
               'three quarters of the datasets with FNV-1a-64 substituted through SetHashFunc and compared byte for byte with the Gallina model of RDFC-1.0, one quarter with SHA-256; '
               'beyond the work limits (c03-limits: two chains of 530-679 blank nodes which differ at the far end): the implementation and the model both end in the recursion-depth error; an answer would have to be the same for isomorphic copies')

PROPS['C03'] = dict(
    families=[dict(name='c03-canon', quick=1500, thorough=15000), dict(name='c04-vectors', quick=1, thorough=1), dict(name='c03-limits', quick=2, thorough=12)],
    slice=25,
    rule=_CANON_RULE + '; the 65 W3C rdf-canon vectors (SHA-256, SHA-384 for test075) byte-compared with the published results, the poison graphs must end in an error or a self-consistent answer',
    trusted_base=['model/Canon.v: RDFC-1.0 4.4-4.8 as coded in rdfcanon/*.go, parametric in the hash; Go map iteration replaced by first-occurrence order; Heap permutation order of github.com/cespare/permute transcribed',
                  'FNV-1a-64 written out in the model; SHA-256/384 are not modelled (the published W3C results are the oracle for them)'],
    partial=['C03_iso_invariance_statement (label/order invariance for datasets that need the N-degree step 5): stated, not proved - it is the correctness of RDFC-1.0 for a collision-free hash and is false for a colliding one; '
             'proved: C03_first_degree_invariant (every dataset) and C03_simple_invariant_partial (datasets whose first-degree hashes are pairwise distinct); the rest is decided by isomorphic copies and the W3C vectors'],
    assumptions=['invariance under renaming and reordering for datasets with first-degree hash ties is decided by isomorphic copies (exploration), not proved',
                 'the model does not carry the context cancellation checks of the Go code'],
    explanation='structure theorems for every hash function and dataset: sorted lines, lines = input quads under the issued map with exact original indexes, identifiers c14n0.. in issue order, one-to-one, total on the blank nodes; model = implementation byte for byte under a substituted hash; isomorphic-copy and W3C-vector oracles',
    level_text='Proof (partial): C03_structure, C03_issued_injective, C03_outcomes over all hash functions and datasets; C03_first_degree_invariant (4.6 hash invariant under relabelling and reordering, every dataset, every hash); '
               'C03_simple_invariant_partial (the whole canonical document and the identifier map are invariant whenever the first-degree hashes tell the blank nodes apart); invariance for datasets needing the N-degree step and non-isomorphic-differ by exploration over symmetric shapes and by the W3C vectors.',
    level_note='Fix made while building this check: temporary issuer copies shared one label provider (F10), which made the result depend on permutation order.',
)

PROPS['C04'] = dict(
    families=[dict(name='c04-vectors', quick=1, thorough=1), dict(name='c03-canon', quick=1500, thorough=15000)],
    slice=25,
    rule='the 65 W3C rdf-canon vectors: output byte-equal to the published canonical N-Quads (SHA-256; SHA-384 where the manifest says so); ' + _CANON_RULE,
    trusted_base=['the published W3C results are the external definition for SHA-256/384; model/Canon.v is the definition for a substituted hash',
                  'model/NQ.v write_literal / write_iri for the canonical escaping (tied to nquads.WriteLiteral/WriteIRI by K/C01)'],
    assumptions=['where the specification leaves a choice (non-automorphic hash ties, a quad naming one blank node twice) the model takes the Go code\'s choice; none of the generated shapes reaches such a tie under 64-bit FNV or SHA-256'],
    explanation='model = step-by-step RDFC-1.0; implementation = model byte for byte for a substituted hash; implementation = published results on the W3C vectors; theorems on structure and on the canonical escaping table',
    level_text='Proof (partial): C04_structure_any_hash (any substituted hash), C04_literal_escaping (every code point is written in the class the canonical form assigns); byte equality with RDFC-1.0 by the W3C vectors and by the model correspondence (exploration).',
    level_note='Fixes made while building this check: canonical escaping of control characters (F09), <<predicate>> in the related-hash input (F11), shared issuer provider (F10). After them all 64 positive W3C vectors match byte for byte.',
)

PROPS['C18'] = dict(
    families=[dict(name='c18-pipe', quick=640, thorough=40000), dict(name='c18-resolve', quick=4000, thorough=200000)],
    slice=25,
    rule='the rdfkit binary built from the working tree: 8 source formats (nt, nq, ttl, trig, rdf/xml, rdf/json, json-ld, html) x 4 target formats (nt, nq, ttl, rdf-json) x output parameters (ascii; buffered, resources, iris.useBase, iris.usePrefix incl. rdfa-context) x how the type is given (alias, identifier, file extension, content sniffing where the format has a sniffer which recognises the document, else the TriG fallback); '
         'sources: generated N-Triples/N-Quads (some with literals that look like markup or JSON), grammar-directed Turtle/TriG, structured RDF/XML, RDF/JSON, JSON-LD and HTML (RDFa, Microdata, JSON-LD script) documents; the dataset a source holds is what the matching library decoder yields with the same base (sources it rejects, or which hold relative or unwritable IRIs or malformed language tags, are counted as skipped); '
         'the output file is decoded with the library decoder of the target format and compared up to blank node renaming, restricted to the default graph for triples-only targets; '
         'model-backed: Registry.ResolveDecoderType / ResolveEncoderType on stub resources (explicit type, media type, file name, first bytes) against the Gallina model with the live registry tables, and the consistency predicate of the theorem evaluated on the live extension table',
    trusted_base=['model/Registry.v mirrors rdfio/rdfiotypes/registry.go; the verdict of the magic-byte resolvers is an input of the model (computed by running the registered resolvers in order)',
                  'cobra flag parsing, file resources and the per-format rdfio wrappers are exercised end to end only'],
    assumptions=['label injectivity of the output follows from the isomorphism oracle; the label providers themselves are the subject of C14'],
    explanation='theorems: the resolved type is independent of the iteration order of the extension map for a consistent table (and the live table is checked to be consistent on every run), explicit types and file extensions are not overridden; model = implementation on generated resources; end-to-end conversions through the built binary with an isomorphism oracle',
    level_text='Proof for the type resolution (C18_type_resolution_order_independent, C18_alias_wins, C18_extension_beats_sniffing) and for the conversions among N-Triples and N-Quads over all inputs (C18_nt_nq_conversion_preserves: decode, write again with either ASCII setting, decode: the same quads); the other format pairs, the output parameters and the blank node labelling by exploration through the built command line tool.',
    level_note='Fixes made while building this check: named graphs merged into triples-only outputs; content sniffing overriding the file extension.',
)

PROPS['C11'] = dict(
    families=[dict(name='c11-rdfa', quick=2500, thorough=200000), dict(name='c11-rdfa-seeds', quick=400, thorough=400), dict(name='c11-microdata', quick=2000, thorough=150000),
              dict(name='c11-script', quick=1200, thorough=80000), dict(name='c11-combined', quick=800, thorough=60000)],
    slice=15,
    rule='RDFa: HTML5 documents drawn as element trees (html / head with title, base, meta, link / body with div, section, ul, li, span, em, a, img, meta, link and text) where every element may carry any combination of about, resource, href, src, typeof, property, rel, rev, content, datatype, inlist, prefix, vocab, lang: '
         'IRIs of every relative form, CURIEs with declared, initial-context and default prefixes, safe CURIEs, blank node CURIEs, terms (initial terms, terms under @vocab, unresolvable tokens), several tokens per attribute, nested four deep for chaining, incomplete triples and list mappings; '
         'Microdata: trees with itemscope / itemid / itemtype / itemprop / itemref on the elements with different value rules (meta, img, audio, a, link, object, data, plain elements), nested items, absolute and vocabulary-relative names, items referenced before and after their definition and from several items, duplicate ids, properties outside items; '
         'JSON-LD: datasets written by the C10 writer into one to three script elements in head or body, next to other scripts, with the type attribute in plain, upper-case, parameterised and padded form; '
         'each tree is written as HTML with free attribute order, quoting (double, single, none), letter case of tags and attributes, character references, comments, foreign attributes, valueless attributes, optional doctype; location and base element varied (offset capture is the business of C16 and is off here). '
         'c11-rdfa-seeds: the HTML5 documents of the rdfa.info suite shipped in the repository (142 without @datetime / time, XMLLiteral, rdfa:copy, xmlns:, xml:lang), read from the tree x/net/html builds; combined: documents carrying all three syntaxes (with blank node labels shared between them); the combined decoder must give the disjoint union of the three decoders on the same document',
    trusted_base=['model/Rdfa.v: RDFa Core 1.1 section 7.5 with the HTML+RDFa 1.1 rules for head / body / base / lang / terms in @rel, over the parsed element tree; with the prefixes of the RDFa 1.1 initial context and its three terms; outside the model: XMLLiteral / HTML literals, @datetime and time, rdfa:copy, xmlns: prefixes, vocabulary expansion',
                  'model/Microdata.v: the Microdata item model with the value rules and type-relative property names (type up to its last "/"); outside: time / meter typing, language, short names on items without a type',
                  'model/JsonLd.v for script elements; golang.org/x/net/html builds the element tree (its reading of the HTML text is exercised, not modelled); the harness HTML writer',
                  'the combined decoder is compared with the three decoders it combines, whose results the other three families check'],
    assumptions=['RDFa Core 7.5 step 8 decides by comparing the new subject with the parent object; the decoder compares with the parent subject. The two differ only where @inlist is used below an element whose object resource differs from its subject; the generator keeps @inlist out of that position (DESIGN.md, C11)',
                 'the harness HTML writer does not end an unquoted attribute value in "/" right before ">" (with offset capture the third-party tokenizer drops that slash: known finding F95 of C16)'],
    explanation='each decoder is run against an executable specification (the model) on grammar-directed documents, the JSON-LD reader also against the dataset each script was written from; theorems state that attribute order and attribute-free wrapper elements never change what a document denotes',
    level_text='Proof (partial): C11_rdfa_attribute_order, C11_microdata_attribute_order, C11_rdfa_plain_markup_transparent, C11_microdata_plain_markup_transparent over the models, for every element, context and state; equality of the decoders and the models by exploration (the models are the specification: a difference is a violation); the combined decoder by comparison with its parts.',
    level_note='Fixes made while building this check: RDFa @rel+@inlist+@property value, datatype xsd:string with a language in scope, undeclared safe CURIEs, CURIE expansion of @href / @src, the default prefix under @vocab, relative base href on the base element; Microdata items reached twice; script type matching.',
)

PROPS['C10'] = dict(
    families=[dict(name='c10-decode', quick=2500, thorough=200000), dict(name='c10-encode', quick=2500, thorough=200000), dict(name='c10-seeds', quick=1000, thorough=1000), dict(name='c10-doubles', quick=144, thorough=720)],
    slice=20,
    rule='decoder direction: datasets drawn as syntax-free descriptions (default and named graphs with IRI and blank node names, nodes shared between graphs, rdf:type incl. blank node types, IRIs under and outside the base, labelled blank nodes, plain / language-tagged / typed literals incl. canonical and non-canonical integers and booleans, lists incl. empty lists and lists of lists); '
         'each written as JSON-LD by the harness writer with random choices: no context (expanded), top-level array / single object / @graph; inline context with prefixes (simple and expanded, @prefix true/false, namespaces without a gen-delim), terms (simple, expanded, compact-IRI terms), type coercion @id / @vocab / datatype, term @language (tag and null), @container @list / @set, @vocab (and null), @base (absolute and relative), default @language (and null), keyword aliases, a term mapped to null, context arrays starting with null, nested contexts on node objects; '
         'embedded nodes, anonymous nodes, graph objects carrying properties, anonymous graph objects, native booleans and integers, value objects, @set, nulls in arrays, @type for rdf:type; key order shuffled, JSON text with varying white space and escapes (\\uXXXX, surrogate pairs); decoded in the default, json-ld-1.1 and (when no 1.1-only construct is used) json-ld-1.0 processing modes, offset capture on 1/4; '
         'encoder direction: default-graph datasets of the C02 generator (twins, lists, every literal kind, IRIs of every shape) with at most one "#" per IRI, written by jsonld.Encoder under base x prefixes x buffered x labeller, decoded again; xsd:integer and xsd:double literals compared by value; the Coq model reads the encoder output as an independent decoder; c10-seeds: the input documents of the W3C expand and toRdf suites shipped in the repository which the decoder accepts without options: the model reads those inside its part of JSON-LD (about 200; it declines the others); native JSON numbers with a fraction or exponent (c10-doubles: a table of spellings in four positions) must come out as xsd:double in the canonical lexical form (end-to-end oracle only: the model keeps floating point out)',
    trusted_base=['model/JsonLd.v: the JSON-LD 1.1 mapping from JSON trees to quads for the constructs listed (everything else answers None); JSON text, remote contexts, scoped contexts, @reverse, @nest, @included, @index, @json, @direction and non-integer numbers are not modelled',
                  'the harness JSON-LD writer and its own reading of IRI expansion (ctx.expand), which decides the expected dataset; encoding/json for re-reading the encoder output into the token form'],
    assumptions=['numbers are drawn within +-2^53 (JSON numbers are doubles)', 'an IRI whose scheme is a prefix of the context cannot be written under that context; such draws are discarded'],
    explanation='the decoder is run against an executable specification (the model) and against the dataset each document was written from; theorems state facts of the specification for documents and datasets of any size, including that every dataset has a document which the specification maps back to it',
    level_text='Proof (partial): C10_flat_document_denotes (writer then mapping is the identity on datasets of any size), C10_list_links, C10_type_beats_language, C10_null_language_beats_default, C10_default_language_applies, C10_absolute_untouched, C10_blank_node_untouched over the model; equality of decoder and model, and of decoder output and the generating dataset, by exploration (the model is the specification: a difference is a violation).',
    level_note='Fixes made while building this check: prefix flag of term definitions, whole numbers beyond int32 as xsd:double, json-ld-1.0 list containers, IRIs with two question marks dropped, IRIs with a fragment after the authority rejected; encoder: language-tagged strings, rdf:type with blank node / literal objects, numbers which are not JSON numbers, the empty prefix, namespaces without a gen-delim.',
)

PROPS['C09'] = dict(
    families=[dict(name='c09-rdfxml', quick=3000, thorough=300000), dict(name='c09-seeds', quick=400, thorough=400)],
    slice=25,
    rule='element trees drawn production by production from RDF 1.1 XML Syntax section 7: rdf:RDF or a single node element as root; typed and plain node elements; rdf:about (absolute and all kinds of relative references, empty), rdf:ID, rdf:nodeID; property attributes and rdf:type attributes; '
         'property elements: literal (with and without rdf:datatype, empty), resource (nested node element), empty with rdf:resource / rdf:nodeID / property attributes / nothing, parseType Resource and Collection, rdf:ID reification, rdf:li and explicit rdf:_n; xml:lang (incl. "") and xml:base (absolute, relative, with fragment) on every kind of element, nested three deep; '
         'each tree written as XML text with free choice of namespace prefixes (incl. a default namespace), attribute order and quoting, white space and comments between elements, character references, CDATA, XML declaration, empty-element tags; decoded with offset capture on (1/3) and off; the decoded graph is compared, up to blank node renaming, with the triples the Gallina model of the mapping assigns to the same tree; c09-seeds: the 119 positive documents of the W3C RDF/XML suite shipped in the repository which stay inside the model (no parseType Literal, no DTD entities), read from the tree encoding/xml delivers',
    trusted_base=['model/RdfXml.v: the RDF/XML mapping on namespace-resolved trees (rdf:parseType="Literal" excluded), with model/Iri3986.v for reference resolution; it is the denotation the decoder is compared with',
                  'the harness XML writer; encoding/xml and inspectxml tokenisation are exercised, not modelled'],
    assumptions=['by the letter of production 7.2.21 an empty property element carrying only rdf:datatype denotes a blank node; model and decoder both follow it'],
    explanation='the decoder is run against an executable specification (the model) on grammar-directed documents; theorems state facts of that specification for documents of any size',
    level_text='Proof (partial): C09_flat_document_denotes (writer then mapping is the identity on graphs of any size, under any base), C09_li_numbering, C09_li_item, C09_language_scope, C09_base_scope over all documents of the model; equality of decoder and model by exploration over grammar-directed documents (the model is the specification: a difference is a violation).',
    level_note='Fixes made while building this check: empty property element language, rdf:type property attribute on property elements, xml:base / xml:lang scope of property elements; earlier: zero offset ranges, language-tagged datatypes, re-parse after error.',
)

"""Per-property configuration of ./check: harness families and sizes, evidence texts."""

COMMON_TRUSTED = [
    'Coq 8.16.1 kernel (coqc; coqchk -silent -o in the thorough tier); vm_compute used for examples and the in-Coq slice; no native_compute',
    'extraction: Require Extraction + ExtrOcamlBasic only (bool/option/list/prod/unit/sumbool); no Extract Constant / Extract Inductive of our own; N/Z/positive/nat stay Coq inductives',
    'ocaml/driver.ml (byte<->N glue, ~50 lines); cross-checked on a slice of every run by vm_compute of the same run_line inside Coq',
    'Go harness (generators, observable projection, end-to-end oracles) and this driver',
    'hand-written Gallina models are a reading of the Go source, tied to it only by the correspondence runs',
]

PROPS = {}

PROPS['C13'] = dict(
    families=[
        dict(name='c13-prefix', quick=2500, thorough=60000),
    ],
    rule='random histories of Add/Delete/Clone/Compact/Expand/GetPrefixMappings over <=4 managers, 6 prefixes, 9 nested/duplicate namespaces; '
         'non-trivial = at least two mutating ops and one query; distinct by (ops, outputs)',
    trusted_base=['model/Prefix.v mirrors iri/prefix_manager.go (slices.SortFunc modelled as a stable sort; observables avoid the order among equal lengths)'],
    assumptions=['Go map/slice semantics as read in the model'],
    explanation='theorems over all histories of the prefix table model; model tied to iri.PrefixManager by running both on the same histories',
)

HOOK_COMMITS = []
NOT_YET = {}

PROPS['C13'].update(
    level_text='Proof: invariant, refinement to a last-write-wins map, longest-match and expand-back theorems for the prefix table over all histories, '
               'kernel-checked; the model is run against iri.PrefixManager / BaseIRI.RelativizeIRI / curie on generated histories and pairs on every run.',
    level_note='Trusted: Coq kernel, ExtrOcamlBasic extraction + 50-line OCaml glue (cross-checked in Coq by vm_compute on a slice), Go harness; '
               'the hand model is tied to the Go code behaviourally only.',
)

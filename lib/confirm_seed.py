#!/usr/bin/env python3
"""confirm_seed.py <prop> <src-dir> <name>: confirm a seeded change in a scratch worktree of /repo and, if it holds
(suite passes with it, demo fails with it, demo passes without it), store it under /verif/seeded/<name>/ and run
the property's quick check against it."""
import sys, os, json, subprocess, shutil, glob
prop, src, name = sys.argv[1:4]
env = dict(os.environ, GOFLAGS='-mod=mod', GOPROXY='off')
wt = os.environ.get('CONFIRM_WT', '/tmp/confirm_wt')
def sh(cmd, cwd=None):
    p = subprocess.run(cmd, shell=True, cwd=cwd, env=env, stdout=subprocess.PIPE, stderr=subprocess.STDOUT, text=True)
    return p.returncode, p.stdout
SKIP = bool(os.environ.get('SKIP_CONFIRM'))   # the confirmation was done by an earlier CONFIRM_ONLY run
if SKIP:
    meta = json.load(open(os.path.join(src, 'meta.json')))
    demos = [f for f in os.listdir(src) if f.endswith('_test.go')]
    pkg = './' + os.path.dirname(meta.get('demo_placement', '').split(' ')[0].strip()) + '/'
if not SKIP:
  sh('git -C /repo worktree remove --force %s' % wt)
  rc, out = sh('git -C /repo worktree add -q %s HEAD' % wt)
  assert rc == 0, out
  try:
      meta = json.load(open(os.path.join(src, 'meta.json')))
      demos = [f for f in os.listdir(src) if f.endswith('_test.go')]
      place = meta.get('demo_placement', '').split(' ')[0].strip()
      rc, out = sh('git apply %s/patch.diff' % src, wt); assert rc == 0, 'patch does not apply: ' + out
      rc_build, out = sh('go build ./... && go build -tags verif ./...', wt)
      rc_suite, out_suite = sh('go test -vet=off -count=1 ./... 2>&1 | grep -v "no test files" | grep -v "^ok" | head -20', wt)
      rc_s2, out_s2 = sh('go test -vet=off -count=1 ./... 2>&1 | grep -v "no test files" | grep -v "^ok" | head -20', os.path.join(wt, 'cmd/rdfkit'))
      out_suite += out_s2
      suite_ok = rc_build == 0 and out_suite.strip() == ''
      dst = os.path.join(wt, place)
      if os.path.isdir(dst) or place.endswith('/'):
          dst = os.path.join(dst, demos[0])
      shutil.copyfile(os.path.join(src, demos[0]), dst)
      rel = os.path.dirname(os.path.relpath(dst, wt))
      modroot = wt
      for sub in ('cmd/rdfkit', 'examples'):
          if rel.startswith(sub + '/') or rel == sub:
              modroot = os.path.join(wt, sub); rel = rel[len(sub):].lstrip('/')
      pkg = './' + rel + '/'
      run = r"-run 'Demo|demo|Seed|Mut|ZZ|Zz' " if False else ''
      rc_with, out_with = sh('go test -vet=off -count=1 %s 2>&1 | tail -15' % pkg, modroot)
      fail_with = 'FAIL' in out_with
      sh('git apply -R %s/patch.diff' % src, wt)
      rc_wo, out_wo = sh('go test -vet=off -count=1 %s 2>&1 | tail -5' % pkg, modroot)
      pass_wo = 'FAIL' not in out_wo and 'ok' in out_wo
      print('suite_ok=%s demo_fails_with=%s demo_passes_without=%s' % (suite_ok, fail_with, pass_wo))
      if not suite_ok: print(out_suite[-800:])
      if not (suite_ok and fail_with and pass_wo):
          print('NOT KEPT'); sys.exit(1)
  finally:
      sh('git -C /repo worktree remove --force %s' % wt)
if os.environ.get('CONFIRM_ONLY'):
    print('CONFIRMED %s (check not run)' % src); sys.exit(0)
# run our check
rc, out = sh('/verif/lib/seedtest.sh %s %s' % (prop, src), '/verif')
detected = 'DETECTED' in out
viol = [l for l in out.split('\n') if l.startswith('VIOLATION')]
d = '/verif/seeded/%s' % name
os.makedirs(d, exist_ok=True)
shutil.copyfile(os.path.join(src, 'patch.diff'), os.path.join(d, 'patch.diff'))
shutil.copyfile(os.path.join(src, demos[0]), os.path.join(d, demos[0]))
meta.update(dict(property=prop, confirmed=dict(suite_passes_with_change=True, demo_fails_with_change=True, demo_passes_without=True,
            how='scratch worktree of /repo HEAD: git apply; go build (with and without -tags verif); go test ./...; demo test in %s; git apply -R; demo test again' % pkg),
            check=dict(cmd='./check %s --tier quick (patch applied to /repo, then reverted)' % prop, detected=detected, violation_lines=viol[:3])))
json.dump(meta, open(os.path.join(d, 'meta.json'), 'w'), indent=1)
print('KEPT %s detected=%s' % (d, detected))

#!/bin/sh
# build.sh — extract the model and build the driver (run from /verif/ocaml)
set -e
cd "$(dirname "$0")"
coqc -Q ../coq RK ../coq/extract/Extract.v >/dev/null
rm -f ../coq/extract/Extract.vo ../coq/extract/Extract.glob ../coq/extract/.Extract.aux ../coq/extract/Extract.vok ../coq/extract/Extract.vos
ocamlfind ocamlopt -w -a -o driver.exe model.mli model.ml driver.ml


type nat =
| O
| S of nat

val option_map : ('a1 -> 'a2) -> 'a1 option -> 'a2 option

val fst : ('a1 * 'a2) -> 'a1

val snd : ('a1 * 'a2) -> 'a2

val length : 'a1 list -> nat

val app : 'a1 list -> 'a1 list -> 'a1 list

type comparison =
| Eq
| Lt
| Gt

val add : nat -> nat -> nat

module Nat :
 sig
  val leb : nat -> nat -> bool
 end

val nth_error : 'a1 list -> nat -> 'a1 option

val rev : 'a1 list -> 'a1 list

val map : ('a1 -> 'a2) -> 'a1 list -> 'a2 list

val fold_left : ('a1 -> 'a2 -> 'a1) -> 'a2 list -> 'a1 -> 'a1

val fold_right : ('a2 -> 'a1 -> 'a1) -> 'a1 -> 'a2 list -> 'a1

val filter : ('a1 -> bool) -> 'a1 list -> 'a1 list

val skipn : nat -> 'a1 list -> 'a1 list

type positive =
| XI of positive
| XO of positive
| XH

type n =
| N0
| Npos of positive

module Pos :
 sig
  type mask =
  | IsNul
  | IsPos of positive
  | IsNeg
 end

module Coq_Pos :
 sig
  val succ : positive -> positive

  val add : positive -> positive -> positive

  val add_carry : positive -> positive -> positive

  val pred_double : positive -> positive

  type mask = Pos.mask =
  | IsNul
  | IsPos of positive
  | IsNeg

  val succ_double_mask : mask -> mask

  val double_mask : mask -> mask

  val double_pred_mask : positive -> mask

  val sub_mask : positive -> positive -> mask

  val sub_mask_carry : positive -> positive -> mask

  val mul : positive -> positive -> positive

  val size_nat : positive -> nat

  val compare_cont : comparison -> positive -> positive -> comparison

  val compare : positive -> positive -> comparison

  val eqb : positive -> positive -> bool

  val iter_op : ('a1 -> 'a1 -> 'a1) -> positive -> 'a1 -> 'a1

  val to_nat : positive -> nat

  val of_succ_nat : nat -> positive
 end

module N :
 sig
  val succ_double : n -> n

  val double : n -> n

  val add : n -> n -> n

  val sub : n -> n -> n

  val mul : n -> n -> n

  val compare : n -> n -> comparison

  val eqb : n -> n -> bool

  val leb : n -> n -> bool

  val ltb : n -> n -> bool

  val size_nat : n -> nat

  val pos_div_eucl : positive -> n -> n * n

  val div_eucl : n -> n -> n * n

  val div : n -> n -> n

  val modulo : n -> n -> n

  val to_nat : n -> nat

  val of_nat : nat -> n
 end

type ascii =
| Ascii of bool * bool * bool * bool * bool * bool * bool * bool

val n_of_digits : bool list -> n

val n_of_ascii : ascii -> n

type string =
| EmptyString
| String of ascii * string

type bytes = n list

val beq : bytes -> bytes -> bool

val bcmp : bytes -> bytes -> comparison

val bleb : bytes -> bytes -> bool

val is_prefix : bytes -> bytes -> bool

val split_on : n -> bytes -> bytes list

val join : bytes -> bytes list -> bytes

val insert_sorted : ('a1 -> 'a1 -> bool) -> 'a1 -> 'a1 list -> 'a1 list

val isort : ('a1 -> 'a1 -> bool) -> 'a1 list -> 'a1 list

val opt_map_all : ('a1 -> 'a2 option) -> 'a1 list -> 'a2 list option

val hexval : n -> n option

val hexdig : n -> n

val hex_decode : bytes -> bytes option

val hex_encode : bytes -> bytes

val dec_parse_aux : bytes -> n -> n option

val dec_parse : bytes -> n option

val dec_print_aux : nat -> n -> bytes -> bytes

val dec_print : n -> bytes

val bool_byte : bool -> bytes

val s2b : string -> bytes

val tAB : n

val fields : bytes -> bytes list

val items : n -> bytes -> bytes list

val xstr : bytes -> bytes option

val xout : bytes -> bytes

val nat_parse : bytes -> nat option

val nat_print : nat -> bytes

val eRR : bytes

val nONE : bytes

val opt_out : ('a1 -> bytes) -> 'a1 option -> bytes

type mapping = { pfx : bytes; ns : bytes }

type pm = { ordered : mapping list; byp : mapping list }

val pm_empty : pm

val lookup : bytes -> mapping list -> mapping option

val assoc_set : mapping -> mapping list -> mapping list

val assoc_del : bytes -> mapping list -> mapping list

val replace_first : mapping -> mapping list -> mapping list

val add_one : (pm * bool) -> mapping -> pm * bool

val len_ge : mapping -> mapping -> bool

val pm_add : pm -> mapping list -> pm

val del_one : (mapping list * bool) -> bytes -> mapping list * bool

val pm_del : pm -> bytes list -> pm

val compact_in : mapping list -> bytes -> (mapping * bytes) option

val pm_compact : pm -> bytes -> (bytes * bytes) option

val pm_expand : pm -> bytes -> bytes -> bytes option

type pop =
| OAdd of nat * mapping list
| ODel of nat * bytes list
| OClone of nat

val upd : nat -> ('a1 -> 'a1) -> 'a1 list -> 'a1 list

val pstep : pm list -> pop -> pm list

val mapping_le : mapping -> mapping -> bool

val pm_dump : pm -> mapping list

val ordered_lens : pm -> nat list

val parse_mapping : bytes -> mapping option

val idx_arg : bytes -> (nat * bytes) option

val mapping_out : mapping -> bytes

val q_compact : pm -> bytes -> bytes

val q_dump : pm -> bytes

val pfx_op : pm list -> bytes -> (pm list * bytes option) option

val pfx_ops : pm list -> bytes list -> bytes list -> bytes list option

val run_pfx : bytes list -> bytes

val run_line : bytes -> bytes

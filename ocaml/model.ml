
type nat =
| O
| S of nat

(** val option_map : ('a1 -> 'a2) -> 'a1 option -> 'a2 option **)

let option_map f = function
| Some a -> Some (f a)
| None -> None

(** val fst : ('a1 * 'a2) -> 'a1 **)

let fst = function
| (x, _) -> x

(** val snd : ('a1 * 'a2) -> 'a2 **)

let snd = function
| (_, y) -> y

(** val length : 'a1 list -> nat **)

let rec length = function
| [] -> O
| _ :: l' -> S (length l')

(** val app : 'a1 list -> 'a1 list -> 'a1 list **)

let rec app l m =
  match l with
  | [] -> m
  | a :: l1 -> a :: (app l1 m)

type comparison =
| Eq
| Lt
| Gt

module Coq__1 = struct
 (** val add : nat -> nat -> nat **)
 let rec add n0 m =
   match n0 with
   | O -> m
   | S p -> S (add p m)
end
include Coq__1

module Nat =
 struct
  (** val leb : nat -> nat -> bool **)

  let rec leb n0 m =
    match n0 with
    | O -> true
    | S n' -> (match m with
               | O -> false
               | S m' -> leb n' m')
 end

(** val nth_error : 'a1 list -> nat -> 'a1 option **)

let rec nth_error l = function
| O -> (match l with
        | [] -> None
        | x :: _ -> Some x)
| S n1 -> (match l with
           | [] -> None
           | _ :: l0 -> nth_error l0 n1)

(** val rev : 'a1 list -> 'a1 list **)

let rec rev = function
| [] -> []
| x :: l' -> app (rev l') (x :: [])

(** val map : ('a1 -> 'a2) -> 'a1 list -> 'a2 list **)

let rec map f = function
| [] -> []
| a :: t -> (f a) :: (map f t)

(** val fold_left : ('a1 -> 'a2 -> 'a1) -> 'a2 list -> 'a1 -> 'a1 **)

let rec fold_left f l a0 =
  match l with
  | [] -> a0
  | b :: t -> fold_left f t (f a0 b)

(** val fold_right : ('a2 -> 'a1 -> 'a1) -> 'a1 -> 'a2 list -> 'a1 **)

let rec fold_right f a0 = function
| [] -> a0
| b :: t -> f b (fold_right f a0 t)

(** val filter : ('a1 -> bool) -> 'a1 list -> 'a1 list **)

let rec filter f = function
| [] -> []
| x :: l0 -> if f x then x :: (filter f l0) else filter f l0

(** val skipn : nat -> 'a1 list -> 'a1 list **)

let rec skipn n0 l =
  match n0 with
  | O -> l
  | S n1 -> (match l with
             | [] -> []
             | _ :: l0 -> skipn n1 l0)

type positive =
| XI of positive
| XO of positive
| XH

type n =
| N0
| Npos of positive

module Pos =
 struct
  type mask =
  | IsNul
  | IsPos of positive
  | IsNeg
 end

module Coq_Pos =
 struct
  (** val succ : positive -> positive **)

  let rec succ = function
  | XI p -> XO (succ p)
  | XO p -> XI p
  | XH -> XO XH

  (** val add : positive -> positive -> positive **)

  let rec add x y =
    match x with
    | XI p ->
      (match y with
       | XI q -> XO (add_carry p q)
       | XO q -> XI (add p q)
       | XH -> XO (succ p))
    | XO p ->
      (match y with
       | XI q -> XI (add p q)
       | XO q -> XO (add p q)
       | XH -> XI p)
    | XH -> (match y with
             | XI q -> XO (succ q)
             | XO q -> XI q
             | XH -> XO XH)

  (** val add_carry : positive -> positive -> positive **)

  and add_carry x y =
    match x with
    | XI p ->
      (match y with
       | XI q -> XI (add_carry p q)
       | XO q -> XO (add_carry p q)
       | XH -> XI (succ p))
    | XO p ->
      (match y with
       | XI q -> XO (add_carry p q)
       | XO q -> XI (add p q)
       | XH -> XO (succ p))
    | XH ->
      (match y with
       | XI q -> XI (succ q)
       | XO q -> XO (succ q)
       | XH -> XI XH)

  (** val pred_double : positive -> positive **)

  let rec pred_double = function
  | XI p -> XI (XO p)
  | XO p -> XI (pred_double p)
  | XH -> XH

  type mask = Pos.mask =
  | IsNul
  | IsPos of positive
  | IsNeg

  (** val succ_double_mask : mask -> mask **)

  let succ_double_mask = function
  | IsNul -> IsPos XH
  | IsPos p -> IsPos (XI p)
  | IsNeg -> IsNeg

  (** val double_mask : mask -> mask **)

  let double_mask = function
  | IsPos p -> IsPos (XO p)
  | x0 -> x0

  (** val double_pred_mask : positive -> mask **)

  let double_pred_mask = function
  | XI p -> IsPos (XO (XO p))
  | XO p -> IsPos (XO (pred_double p))
  | XH -> IsNul

  (** val sub_mask : positive -> positive -> mask **)

  let rec sub_mask x y =
    match x with
    | XI p ->
      (match y with
       | XI q -> double_mask (sub_mask p q)
       | XO q -> succ_double_mask (sub_mask p q)
       | XH -> IsPos (XO p))
    | XO p ->
      (match y with
       | XI q -> succ_double_mask (sub_mask_carry p q)
       | XO q -> double_mask (sub_mask p q)
       | XH -> IsPos (pred_double p))
    | XH -> (match y with
             | XH -> IsNul
             | _ -> IsNeg)

  (** val sub_mask_carry : positive -> positive -> mask **)

  and sub_mask_carry x y =
    match x with
    | XI p ->
      (match y with
       | XI q -> succ_double_mask (sub_mask_carry p q)
       | XO q -> double_mask (sub_mask p q)
       | XH -> IsPos (pred_double p))
    | XO p ->
      (match y with
       | XI q -> double_mask (sub_mask_carry p q)
       | XO q -> succ_double_mask (sub_mask_carry p q)
       | XH -> double_pred_mask p)
    | XH -> IsNeg

  (** val mul : positive -> positive -> positive **)

  let rec mul x y =
    match x with
    | XI p -> add y (XO (mul p y))
    | XO p -> XO (mul p y)
    | XH -> y

  (** val size_nat : positive -> nat **)

  let rec size_nat = function
  | XI p0 -> S (size_nat p0)
  | XO p0 -> S (size_nat p0)
  | XH -> S O

  (** val compare_cont : comparison -> positive -> positive -> comparison **)

  let rec compare_cont r x y =
    match x with
    | XI p ->
      (match y with
       | XI q -> compare_cont r p q
       | XO q -> compare_cont Gt p q
       | XH -> Gt)
    | XO p ->
      (match y with
       | XI q -> compare_cont Lt p q
       | XO q -> compare_cont r p q
       | XH -> Gt)
    | XH -> (match y with
             | XH -> r
             | _ -> Lt)

  (** val compare : positive -> positive -> comparison **)

  let compare =
    compare_cont Eq

  (** val eqb : positive -> positive -> bool **)

  let rec eqb p q =
    match p with
    | XI p0 -> (match q with
                | XI q0 -> eqb p0 q0
                | _ -> false)
    | XO p0 -> (match q with
                | XO q0 -> eqb p0 q0
                | _ -> false)
    | XH -> (match q with
             | XH -> true
             | _ -> false)

  (** val iter_op : ('a1 -> 'a1 -> 'a1) -> positive -> 'a1 -> 'a1 **)

  let rec iter_op op p a =
    match p with
    | XI p0 -> op a (iter_op op p0 (op a a))
    | XO p0 -> iter_op op p0 (op a a)
    | XH -> a

  (** val to_nat : positive -> nat **)

  let to_nat x =
    iter_op Coq__1.add x (S O)

  (** val of_succ_nat : nat -> positive **)

  let rec of_succ_nat = function
  | O -> XH
  | S x -> succ (of_succ_nat x)
 end

module N =
 struct
  (** val succ_double : n -> n **)

  let succ_double = function
  | N0 -> Npos XH
  | Npos p -> Npos (XI p)

  (** val double : n -> n **)

  let double = function
  | N0 -> N0
  | Npos p -> Npos (XO p)

  (** val add : n -> n -> n **)

  let add n0 m =
    match n0 with
    | N0 -> m
    | Npos p -> (match m with
                 | N0 -> n0
                 | Npos q -> Npos (Coq_Pos.add p q))

  (** val sub : n -> n -> n **)

  let sub n0 m =
    match n0 with
    | N0 -> N0
    | Npos n' ->
      (match m with
       | N0 -> n0
       | Npos m' ->
         (match Coq_Pos.sub_mask n' m' with
          | Coq_Pos.IsPos p -> Npos p
          | _ -> N0))

  (** val mul : n -> n -> n **)

  let mul n0 m =
    match n0 with
    | N0 -> N0
    | Npos p -> (match m with
                 | N0 -> N0
                 | Npos q -> Npos (Coq_Pos.mul p q))

  (** val compare : n -> n -> comparison **)

  let compare n0 m =
    match n0 with
    | N0 -> (match m with
             | N0 -> Eq
             | Npos _ -> Lt)
    | Npos n' -> (match m with
                  | N0 -> Gt
                  | Npos m' -> Coq_Pos.compare n' m')

  (** val eqb : n -> n -> bool **)

  let eqb n0 m =
    match n0 with
    | N0 -> (match m with
             | N0 -> true
             | Npos _ -> false)
    | Npos p -> (match m with
                 | N0 -> false
                 | Npos q -> Coq_Pos.eqb p q)

  (** val leb : n -> n -> bool **)

  let leb x y =
    match compare x y with
    | Gt -> false
    | _ -> true

  (** val ltb : n -> n -> bool **)

  let ltb x y =
    match compare x y with
    | Lt -> true
    | _ -> false

  (** val size_nat : n -> nat **)

  let size_nat = function
  | N0 -> O
  | Npos p -> Coq_Pos.size_nat p

  (** val pos_div_eucl : positive -> n -> n * n **)

  let rec pos_div_eucl a b =
    match a with
    | XI a' ->
      let (q, r) = pos_div_eucl a' b in
      let r' = succ_double r in
      if leb b r' then ((succ_double q), (sub r' b)) else ((double q), r')
    | XO a' ->
      let (q, r) = pos_div_eucl a' b in
      let r' = double r in
      if leb b r' then ((succ_double q), (sub r' b)) else ((double q), r')
    | XH ->
      (match b with
       | N0 -> (N0, (Npos XH))
       | Npos p -> (match p with
                    | XH -> ((Npos XH), N0)
                    | _ -> (N0, (Npos XH))))

  (** val div_eucl : n -> n -> n * n **)

  let div_eucl a b =
    match a with
    | N0 -> (N0, N0)
    | Npos na -> (match b with
                  | N0 -> (N0, a)
                  | Npos _ -> pos_div_eucl na b)

  (** val div : n -> n -> n **)

  let div a b =
    fst (div_eucl a b)

  (** val modulo : n -> n -> n **)

  let modulo a b =
    snd (div_eucl a b)

  (** val to_nat : n -> nat **)

  let to_nat = function
  | N0 -> O
  | Npos p -> Coq_Pos.to_nat p

  (** val of_nat : nat -> n **)

  let of_nat = function
  | O -> N0
  | S n' -> Npos (Coq_Pos.of_succ_nat n')
 end

type ascii =
| Ascii of bool * bool * bool * bool * bool * bool * bool * bool

(** val n_of_digits : bool list -> n **)

let rec n_of_digits = function
| [] -> N0
| b :: l' ->
  N.add (if b then Npos XH else N0) (N.mul (Npos (XO XH)) (n_of_digits l'))

(** val n_of_ascii : ascii -> n **)

let n_of_ascii = function
| Ascii (a0, a1, a2, a3, a4, a5, a6, a7) ->
  n_of_digits
    (a0 :: (a1 :: (a2 :: (a3 :: (a4 :: (a5 :: (a6 :: (a7 :: []))))))))

type string =
| EmptyString
| String of ascii * string

type bytes = n list

(** val beq : bytes -> bytes -> bool **)

let rec beq a b =
  match a with
  | [] -> (match b with
           | [] -> true
           | _ :: _ -> false)
  | x :: a' ->
    (match b with
     | [] -> false
     | y :: b' -> (&&) (N.eqb x y) (beq a' b'))

(** val bcmp : bytes -> bytes -> comparison **)

let rec bcmp a b =
  match a with
  | [] -> (match b with
           | [] -> Eq
           | _ :: _ -> Lt)
  | x :: a' ->
    (match b with
     | [] -> Gt
     | y :: b' -> (match N.compare x y with
                   | Eq -> bcmp a' b'
                   | x0 -> x0))

(** val bleb : bytes -> bytes -> bool **)

let bleb a b =
  match bcmp a b with
  | Gt -> false
  | _ -> true

(** val is_prefix : bytes -> bytes -> bool **)

let rec is_prefix p s =
  match p with
  | [] -> true
  | x :: p' ->
    (match s with
     | [] -> false
     | y :: s' -> (&&) (N.eqb x y) (is_prefix p' s'))

(** val split_on : n -> bytes -> bytes list **)

let rec split_on sep = function
| [] -> [] :: []
| c :: l' ->
  if N.eqb c sep
  then [] :: (split_on sep l')
  else (match split_on sep l' with
        | [] -> (c :: []) :: []
        | h :: t -> (c :: h) :: t)

(** val join : bytes -> bytes list -> bytes **)

let rec join sep = function
| [] -> []
| x :: rest ->
  (match rest with
   | [] -> x
   | _ :: _ -> app x (app sep (join sep rest)))

(** val insert_sorted :
    ('a1 -> 'a1 -> bool) -> 'a1 -> 'a1 list -> 'a1 list **)

let rec insert_sorted le x l = match l with
| [] -> x :: []
| y :: l' -> if le x y then x :: l else y :: (insert_sorted le x l')

(** val isort : ('a1 -> 'a1 -> bool) -> 'a1 list -> 'a1 list **)

let isort le l =
  fold_right (insert_sorted le) [] l

(** val opt_map_all : ('a1 -> 'a2 option) -> 'a1 list -> 'a2 list option **)

let rec opt_map_all f = function
| [] -> Some []
| x :: l' ->
  (match f x with
   | Some y ->
     (match opt_map_all f l' with
      | Some ys -> Some (y :: ys)
      | None -> None)
   | None -> None)

(** val hexval : n -> n option **)

let hexval c =
  if (&&) (N.leb (Npos (XO (XO (XO (XO (XI XH)))))) c)
       (N.leb c (Npos (XI (XO (XO (XI (XI XH)))))))
  then Some (N.sub c (Npos (XO (XO (XO (XO (XI XH)))))))
  else if (&&) (N.leb (Npos (XI (XO (XO (XO (XO (XI XH))))))) c)
            (N.leb c (Npos (XO (XI (XI (XO (XO (XI XH))))))))
       then Some (N.sub c (Npos (XI (XI (XI (XO (XI (XO XH))))))))
       else if (&&) (N.leb (Npos (XI (XO (XO (XO (XO (XO XH))))))) c)
                 (N.leb c (Npos (XO (XI (XI (XO (XO (XO XH))))))))
            then Some (N.sub c (Npos (XI (XI (XI (XO (XI XH)))))))
            else None

(** val hexdig : n -> n **)

let hexdig v =
  if N.ltb v (Npos (XO (XI (XO XH))))
  then N.add (Npos (XO (XO (XO (XO (XI XH)))))) v
  else N.add (Npos (XI (XI (XI (XO (XI (XO XH))))))) v

(** val hex_decode : bytes -> bytes option **)

let rec hex_decode = function
| [] -> Some []
| a :: l0 ->
  (match l0 with
   | [] -> None
   | b :: l' ->
     (match hexval a with
      | Some x ->
        (match hexval b with
         | Some y ->
           (match hex_decode l' with
            | Some r ->
              Some ((N.add (N.mul x (Npos (XO (XO (XO (XO XH)))))) y) :: r)
            | None -> None)
         | None -> None)
      | None -> None))

(** val hex_encode : bytes -> bytes **)

let rec hex_encode = function
| [] -> []
| b :: l' ->
  (hexdig (N.div b (Npos (XO (XO (XO (XO XH))))))) :: ((hexdig
                                                         (N.modulo b (Npos
                                                           (XO (XO (XO (XO
                                                           XH))))))) :: 
    (hex_encode l'))

(** val dec_parse_aux : bytes -> n -> n option **)

let rec dec_parse_aux l acc =
  match l with
  | [] -> Some acc
  | c :: l' ->
    if (&&) (N.leb (Npos (XO (XO (XO (XO (XI XH)))))) c)
         (N.leb c (Npos (XI (XO (XO (XI (XI XH)))))))
    then dec_parse_aux l'
           (N.add (N.mul acc (Npos (XO (XI (XO XH)))))
             (N.sub c (Npos (XO (XO (XO (XO (XI XH))))))))
    else None

(** val dec_parse : bytes -> n option **)

let dec_parse l = match l with
| [] -> None
| _ :: _ -> dec_parse_aux l N0

(** val dec_print_aux : nat -> n -> bytes -> bytes **)

let rec dec_print_aux fuel n0 acc =
  match fuel with
  | O -> acc
  | S f ->
    if N.ltb n0 (Npos (XO (XI (XO XH))))
    then (N.add (Npos (XO (XO (XO (XO (XI XH)))))) n0) :: acc
    else dec_print_aux f (N.div n0 (Npos (XO (XI (XO XH)))))
           ((N.add (Npos (XO (XO (XO (XO (XI XH))))))
              (N.modulo n0 (Npos (XO (XI (XO XH)))))) :: acc)

(** val dec_print : n -> bytes **)

let dec_print n0 =
  dec_print_aux (S (N.size_nat n0)) n0 []

(** val bool_byte : bool -> bytes **)

let bool_byte = function
| true -> (Npos (XI (XO (XO (XO (XI XH)))))) :: []
| false -> (Npos (XO (XO (XO (XO (XI XH)))))) :: []

(** val s2b : string -> bytes **)

let rec s2b = function
| EmptyString -> []
| String (a, s') -> (n_of_ascii a) :: (s2b s')

(** val tAB : n **)

let tAB =
  Npos (XI (XO (XO XH)))

(** val fields : bytes -> bytes list **)

let fields l =
  split_on tAB l

(** val items : n -> bytes -> bytes list **)

let items sep l = match l with
| [] -> []
| _ :: _ -> split_on sep l

(** val xstr : bytes -> bytes option **)

let xstr = function
| [] -> None
| n0 :: h ->
  (match n0 with
   | N0 -> None
   | Npos p ->
     (match p with
      | XO p0 ->
        (match p0 with
         | XO p1 ->
           (match p1 with
            | XO p2 ->
              (match p2 with
               | XI p3 ->
                 (match p3 with
                  | XI p4 ->
                    (match p4 with
                     | XI p5 -> (match p5 with
                                 | XH -> hex_decode h
                                 | _ -> None)
                     | _ -> None)
                  | _ -> None)
               | _ -> None)
            | _ -> None)
         | _ -> None)
      | _ -> None))

(** val xout : bytes -> bytes **)

let xout l =
  (Npos (XO (XO (XO (XI (XI (XI XH))))))) :: (hex_encode l)

(** val nat_parse : bytes -> nat option **)

let nat_parse l =
  option_map N.to_nat (dec_parse l)

(** val nat_print : nat -> bytes **)

let nat_print n0 =
  dec_print (N.of_nat n0)

(** val eRR : bytes **)

let eRR =
  s2b (String ((Ascii (true, false, false, false, false, true, false,
    false)), (String ((Ascii (false, false, false, false, true, true, true,
    false)), (String ((Ascii (true, false, false, false, false, true, true,
    false)), (String ((Ascii (false, true, false, false, true, true, true,
    false)), (String ((Ascii (true, true, false, false, true, true, true,
    false)), (String ((Ascii (true, false, true, false, false, true, true,
    false)), EmptyString))))))))))))

(** val nONE : bytes **)

let nONE =
  s2b (String ((Ascii (true, false, true, true, false, true, false, false)),
    EmptyString))

(** val opt_out : ('a1 -> bytes) -> 'a1 option -> bytes **)

let opt_out f = function
| Some x -> f x
| None -> nONE

type mapping = { pfx : bytes; ns : bytes }

type pm = { ordered : mapping list; byp : mapping list }

(** val pm_empty : pm **)

let pm_empty =
  { ordered = []; byp = [] }

(** val lookup : bytes -> mapping list -> mapping option **)

let rec lookup k = function
| [] -> None
| m :: l' -> if beq m.pfx k then Some m else lookup k l'

(** val assoc_set : mapping -> mapping list -> mapping list **)

let rec assoc_set m = function
| [] -> m :: []
| x :: l' -> if beq x.pfx m.pfx then m :: l' else x :: (assoc_set m l')

(** val assoc_del : bytes -> mapping list -> mapping list **)

let rec assoc_del k = function
| [] -> []
| x :: l' -> if beq x.pfx k then l' else x :: (assoc_del k l')

(** val replace_first : mapping -> mapping list -> mapping list **)

let rec replace_first m = function
| [] -> []
| x :: l' -> if beq x.pfx m.pfx then m :: l' else x :: (replace_first m l')

(** val add_one : (pm * bool) -> mapping -> pm * bool **)

let add_one st m =
  let (p, added) = st in
  (match lookup m.pfx p.byp with
   | Some prev ->
     if beq prev.ns m.ns
     then (p, added)
     else ({ ordered = (replace_first m p.ordered); byp =
            (assoc_set m p.byp) }, true)
   | None ->
     ({ ordered = (app p.ordered (m :: [])); byp = (assoc_set m p.byp) },
       true))

(** val len_ge : mapping -> mapping -> bool **)

let len_ge a b =
  Nat.leb (length b.ns) (length a.ns)

(** val pm_add : pm -> mapping list -> pm **)

let pm_add p ms =
  let (p', added) = fold_left add_one ms (p, false) in
  if added then { ordered = (isort len_ge p'.ordered); byp = p'.byp } else p'

(** val del_one : (mapping list * bool) -> bytes -> mapping list * bool **)

let del_one st k =
  let (b, deleted) = st in
  (match lookup k b with
   | Some _ -> ((assoc_del k b), true)
   | None -> (b, deleted))

(** val pm_del : pm -> bytes list -> pm **)

let pm_del p ks =
  let (b', deleted) = fold_left del_one ks (p.byp, false) in
  if deleted
  then { ordered =
         (filter (fun m ->
           match lookup m.pfx b' with
           | Some _ -> true
           | None -> false) p.ordered); byp = b' }
  else p

(** val compact_in : mapping list -> bytes -> (mapping * bytes) option **)

let rec compact_in l v =
  match l with
  | [] -> None
  | m :: l' ->
    if is_prefix m.ns v
    then Some (m, (skipn (length m.ns) v))
    else compact_in l' v

(** val pm_compact : pm -> bytes -> (bytes * bytes) option **)

let pm_compact p v =
  match compact_in p.ordered v with
  | Some p0 -> let (m, r) = p0 in Some (m.pfx, r)
  | None -> None

(** val pm_expand : pm -> bytes -> bytes -> bytes option **)

let pm_expand p k r =
  match lookup k p.byp with
  | Some m -> Some (app m.ns r)
  | None -> None

type pop =
| OAdd of nat * mapping list
| ODel of nat * bytes list
| OClone of nat

(** val upd : nat -> ('a1 -> 'a1) -> 'a1 list -> 'a1 list **)

let rec upd i f = function
| [] -> []
| x :: l' -> (match i with
              | O -> (f x) :: l'
              | S j -> x :: (upd j f l'))

(** val pstep : pm list -> pop -> pm list **)

let pstep s = function
| OAdd (i, ms) -> upd i (fun p -> pm_add p ms) s
| ODel (i, ks) -> upd i (fun p -> pm_del p ks) s
| OClone i -> (match nth_error s i with
               | Some p -> app s (p :: [])
               | None -> s)

(** val mapping_le : mapping -> mapping -> bool **)

let mapping_le a b =
  match bcmp a.pfx b.pfx with
  | Eq -> bleb a.ns b.ns
  | Lt -> true
  | Gt -> false

(** val pm_dump : pm -> mapping list **)

let pm_dump p =
  isort mapping_le p.ordered

(** val ordered_lens : pm -> nat list **)

let ordered_lens p =
  map (fun m -> length m.ns) p.ordered

(** val parse_mapping : bytes -> mapping option **)

let parse_mapping l =
  match split_on (Npos (XI (XO (XI (XI (XI XH)))))) l with
  | [] -> None
  | a :: l0 ->
    (match l0 with
     | [] -> None
     | b :: l1 ->
       (match l1 with
        | [] ->
          (match xstr a with
           | Some p ->
             (match xstr b with
              | Some n0 -> Some { pfx = p; ns = n0 }
              | None -> None)
           | None -> None)
        | _ :: _ -> None))

(** val idx_arg : bytes -> (nat * bytes) option **)

let idx_arg l =
  match split_on (Npos (XO (XI (XO (XI (XI XH)))))) l with
  | [] -> None
  | i :: l0 ->
    (match l0 with
     | [] -> option_map (fun n0 -> (n0, [])) (nat_parse i)
     | a :: l1 ->
       (match l1 with
        | [] -> option_map (fun n0 -> (n0, a)) (nat_parse i)
        | _ :: _ -> None))

(** val mapping_out : mapping -> bytes **)

let mapping_out m =
  app (xout m.pfx)
    (app ((Npos (XI (XO (XI (XI (XI XH)))))) :: []) (xout m.ns))

(** val q_compact : pm -> bytes -> bytes **)

let q_compact p v =
  match pm_compact p v with
  | Some p0 ->
    let (k, r) = p0 in
    app (nat_print (length r))
      (app ((Npos (XO (XO (XI (XI (XO XH)))))) :: [])
        (bool_byte
          (match pm_expand p k r with
           | Some v' -> beq v v'
           | None -> false)))
  | None -> nONE

(** val q_dump : pm -> bytes **)

let q_dump p =
  app
    (join ((Npos (XO (XO (XI (XI (XO XH)))))) :: [])
      (map mapping_out (pm_dump p)))
    (app ((Npos (XI (XI (XI (XI (XO XH)))))) :: [])
      (join ((Npos (XO (XO (XI (XI (XO XH)))))) :: [])
        (map nat_print (ordered_lens p))))

(** val pfx_op : pm list -> bytes -> (pm list * bytes option) option **)

let pfx_op s = function
| [] -> None
| c :: rest ->
  (match idx_arg rest with
   | Some p ->
     let (i, a) = p in
     if N.eqb c (Npos (XI (XO (XO (XO (XO (XO XH)))))))
     then option_map (fun ms -> ((pstep s (OAdd (i, ms))), None))
            (opt_map_all parse_mapping
              (items (Npos (XO (XO (XI (XI (XO XH)))))) a))
     else if N.eqb c (Npos (XO (XO (XI (XO (XO (XO XH)))))))
          then option_map (fun ks -> ((pstep s (ODel (i, ks))), None))
                 (opt_map_all xstr
                   (items (Npos (XO (XO (XI (XI (XO XH)))))) a))
          else if N.eqb c (Npos (XI (XI (XO (XO (XO (XO XH)))))))
               then Some ((pstep s (OClone i)), None)
               else (match nth_error s i with
                     | Some p0 ->
                       if N.eqb c (Npos (XI (XI (XO (XO (XO (XI XH)))))))
                       then option_map (fun v -> (s, (Some
                              (q_compact p0 v)))) (xstr a)
                       else if N.eqb c (Npos (XI (XO (XI (XO (XO (XI XH)))))))
                            then (match split_on (Npos (XI (XO (XI (XI (XI
                                          XH)))))) a with
                                  | [] -> None
                                  | k :: l ->
                                    (match l with
                                     | [] -> None
                                     | r :: l0 ->
                                       (match l0 with
                                        | [] ->
                                          (match xstr k with
                                           | Some k' ->
                                             (match xstr r with
                                              | Some r' ->
                                                Some (s, (Some
                                                  (opt_out xout
                                                    (pm_expand p0 k' r'))))
                                              | None -> None)
                                           | None -> None)
                                        | _ :: _ -> None)))
                            else if N.eqb c (Npos (XI (XI (XI (XO (XO (XI
                                      XH)))))))
                                 then Some (s, (Some (q_dump p0)))
                                 else None
                     | None ->
                       Some (s, (Some
                         (s2b (String ((Ascii (true, false, false, false,
                           false, true, false, false)), (String ((Ascii
                           (true, false, false, true, false, true, true,
                           false)), (String ((Ascii (false, false, true,
                           false, false, true, true, false)), (String ((Ascii
                           (false, false, false, true, true, true, true,
                           false)), EmptyString))))))))))))
   | None -> None)

(** val pfx_ops : pm list -> bytes list -> bytes list -> bytes list option **)

let rec pfx_ops s ops acc =
  match ops with
  | [] -> Some (rev acc)
  | o :: ops' ->
    (match pfx_op s o with
     | Some p ->
       let (s', out) = p in
       pfx_ops s' ops' (match out with
                        | Some b -> b :: acc
                        | None -> acc)
     | None -> None)

(** val run_pfx : bytes list -> bytes **)

let run_pfx = function
| [] -> eRR
| ops :: l ->
  (match l with
   | [] ->
     (match pfx_ops (pm_empty :: [])
              (items (Npos (XI (XI (XO (XI (XI XH)))))) ops) [] with
      | Some outs -> join ((Npos (XI (XI (XO (XI (XI XH)))))) :: []) outs
      | None -> eRR)
   | _ :: _ -> eRR)

(** val run_line : bytes -> bytes **)

let run_line l =
  match fields l with
  | [] ->
    s2b (String ((Ascii (true, false, false, false, false, true, false,
      false)), (String ((Ascii (true, false, true, false, false, true, true,
      false)), (String ((Ascii (true, false, true, true, false, true, true,
      false)), (String ((Ascii (false, false, false, false, true, true, true,
      false)), (String ((Ascii (false, false, true, false, true, true, true,
      false)), (String ((Ascii (true, false, false, true, true, true, true,
      false)), EmptyString))))))))))))
  | kind :: args ->
    if beq kind
         (s2b (String ((Ascii (false, false, false, false, true, true, true,
           false)), (String ((Ascii (false, true, true, false, false, true,
           true, false)), (String ((Ascii (false, false, false, true, true,
           true, true, false)), EmptyString)))))))
    then run_pfx args
    else s2b (String ((Ascii (true, false, false, false, false, true, false,
           false)), (String ((Ascii (true, true, false, true, false, true,
           true, false)), (String ((Ascii (true, false, false, true, false,
           true, true, false)), (String ((Ascii (false, true, true, true,
           false, true, true, false)), (String ((Ascii (false, false, true,
           false, false, true, true, false)), EmptyString))))))))))

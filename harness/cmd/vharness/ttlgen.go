package main

// ttlgen.go — grammar-directed writer of Turtle 1.1 / TriG 1.1 documents: it draws a document production by
// production and computes, independently of the decoders, the dataset the document denotes (the RDF 1.1 Turtle
// parsing rules: prefix and base state, blank node label scope, collections, blank node property lists).

import (
	"fmt"
	"net/url"
	"strings"

	"verifharness/hx"
)

const rdfNil = "<" + rdfNS + "nil>"

type ttlGen struct {
	r      *hx.Rand
	trig   bool
	sb     strings.Builder
	base   string            // "" = none: only absolute IRI references are written
	aPos   int               // >= 0: position right after an 'a' written without white space
	pfx    map[string]string // declared prefixes
	pfxs   []string          // their names, in declaration order
	nblank int
	labels map[string]string // document label -> canonical "_:gN"
	out    []hx.Q            // denotation, graph "" = default
	graph  string
	depth  int
	feat   map[string]int // which productions were used (distribution report)
}

func (g *ttlGen) use(f string) { g.feat[f]++ }

func (g *ttlGen) fresh() string {
	g.nblank++
	return fmt.Sprintf("_:g%d", g.nblank)
}

func (g *ttlGen) emit(s, p, o string) { g.out = append(g.out, hx.Q{S: s, P: p, O: o, G: g.graph}) }

// ---- white space and comments ----

func (g *ttlGen) ws(must bool) {
	switch k := g.r.Intn(12); {
	case k < 6:
		g.sb.WriteString(" ")
	case k == 6:
		g.sb.WriteString("\n")
	case k == 7:
		g.sb.WriteString("\t ")
	case k == 8:
		g.sb.WriteString(" # c <x> \"y" + hx.Pick(g.r, []string{"\n", "\n", "\r", "\r\n"}))
		g.use("comment")
	case k == 9:
		g.sb.WriteString("\r\n  ")
	case k == 10 && !must:
		// nothing
	default:
		g.sb.WriteString("  ")
	}
}

// dot writes a statement terminator. After a name-like token (prefixed name, blank node label, number, keyword) written
// without white space before the '.', white space must follow: "ex:a.ex:b" is one prefixed name.
func (g *ttlGen) dot() {
	cur := g.sb.String()
	safe := false
	if n := len(cur); n > 0 {
		switch cur[n-1] {
		case '>', '"', '\'', ']', ')', ' ', '\n', '\t', '}':
			safe = true
		}
	}
	g.sb.WriteString(".")
	if !safe {
		g.ws(true)
		g.use("dot-after-name")
	}
}

// ---- IRIs ----

var ttlIRIPool = []string{
	"http://example.org/a", "http://example.org/dir/b", "http://example.org/ns#c", "http://example.org/ns#", "urn:x:y",
	"http://example.org/é", "http://example.org/a?q=1&r=2#frag", "http://www.w3.org/2001/XMLSchema#x", "http://example.org/dir/", "tag:e,2000:%20x",
	"http://example.org/~u/(p)", "http://example.org/日本", "http://a.example/\U0001F600",
}

var ttlNamespaces = []string{"http://example.org/", "http://example.org/ns#", "http://example.org/dir/", "urn:x:", xsdNS, rdfNS, "http://example.org/a?q=", "http://other.example/p/"}
var ttlPrefixNames = []string{"", "ex", "e", "a.b", "é-1", "x_y", "rdf", "xsd", "P", "a·b", "true", "false", "graph", "GRAPH", "base", "prefix", "a", "trueish", "PREFIX", "Base"}

func iriEscapeSome(r *hx.Rand, s string) string {
	var sb strings.Builder
	for _, c := range s {
		switch {
		case r.Chance(1, 12) && c < 0x10000:
			fmt.Fprintf(&sb, "\\u%04X", c)
		case r.Chance(1, 25):
			fmt.Fprintf(&sb, "\\U%08x", c)
		default:
			sb.WriteRune(c)
		}
	}
	return sb.String()
}

var ttlRelRefs = []string{"x", "./x", "../x", "#f", "?q=1", "", "/r/s", "//h.example/p", "x/./y/../z", "sub/", "../../../up", "x;p=1", "é", "g?y#s", ".", "..", "./", "a/b/../../c"}

// iriref writes an IRIREF for some IRI and returns the IRI it denotes
func (g *ttlGen) iriref() string {
	if g.base != "" && g.r.Chance(1, 3) {
		ref := hx.Pick(g.r, ttlRelRefs)
		b, err1 := url.Parse(g.base)
		rr, err2 := url.Parse(ref)
		if err1 == nil && err2 == nil {
			abs := b.ResolveReference(rr)
			want := abs.String()
			// net/url normalises some spellings (escapes non-ASCII): only use references it leaves alone
			if isASCII(ref) && isASCII(g.base) && !strings.Contains(want, "%") {
				g.sb.WriteString("<" + ref + ">")
				g.use("iriref-relative")
				return want
			}
		}
	}
	abs := hx.Pick(g.r, ttlIRIPool)
	g.sb.WriteString("<" + iriEscapeSome(g.r, abs) + ">")
	g.use("iriref-absolute")
	return abs
}

func isASCII(s string) bool {
	for i := 0; i < len(s); i++ {
		if s[i] >= 0x80 {
			return false
		}
	}
	return true
}

// PN_LOCAL: (PN_CHARS_U | ':' | [0-9] | PLX) ((PN_CHARS | '.' | ':' | PLX)* (PN_CHARS | ':' | PLX))?
var pnFirst = []string{"a", "Z", "_", ":", "7", "é", "日", "%41", "\\-", "\\.", "\\~", "\\%", "\\(", "\\,"}
var pnMid = []string{"a", "b", "_", ":", "0", "-", ".", "·", "‿", "é", "%2F", "%aB", "\\!", "\\$", "\\&", "\\'", "\\)", "\\*", "\\+", "\\;", "\\=", "\\/", "\\?", "\\#", "\\@", "\\_", "..", "̀"}
var pnLast = []string{"a", "z", "_", ":", "9", "-", "·", "é", "%00", "\\.", "\\-", "\\~"}

func pnUnescape(s string) string {
	var sb strings.Builder
	for i := 0; i < len(s); i++ {
		if s[i] == '\\' && i+1 < len(s) {
			i++
		}
		sb.WriteByte(s[i])
	}
	return sb.String()
}

func (g *ttlGen) pnLocal() string {
	if g.r.Chance(1, 6) {
		return ""
	}
	s := hx.Pick(g.r, pnFirst)
	n := g.r.Intn(4)
	if n > 0 {
		for i := 0; i < n-1; i++ {
			s += hx.Pick(g.r, pnMid)
		}
		s += hx.Pick(g.r, pnLast)
	}
	return s
}

// iri writes an iri production (IRIREF or PrefixedName)
func (g *ttlGen) iri() string {
	if len(g.pfxs) > 0 && g.r.Chance(1, 2) {
		p := hx.Pick(g.r, g.pfxs)
		l := g.pnLocal()
		g.sb.WriteString(p + ":" + l)
		g.use("pname")
		if strings.Contains(l, "\\") {
			g.use("pname-escape")
		}
		return "<" + g.pfx[p] + pnUnescape(l) + ">"
	}
	return "<" + g.iriref() + ">"
}

// ---- blank nodes ----

var ttlLabels = []string{"b", "b1", "0", "a.b", "x-y", "_", "é", "n·1", "B", "b2", "a..b"}

func (g *ttlGen) blankLabel() string {
	l := hx.Pick(g.r, ttlLabels)
	g.sb.WriteString("_:" + l)
	g.use("blank-label")
	if v, ok := g.labels[l]; ok {
		return v
	}
	v := g.fresh()
	g.labels[l] = v
	return v
}

// ---- literals ----

var ttlChars = []string{"a", "b", " ", "é", "日", "\U0001F600", "x", "1", "#", "<", ">", "@", "^", "{", "."}

func (g *ttlGen) stringLit() string {
	q := hx.Pick(g.r, []string{"\"", "'", "\"\"\"", "'''"})
	long := len(q) == 3
	var src, val strings.Builder
	n := g.r.Intn(6)
	for i := 0; i < n; i++ {
		switch k := g.r.Intn(14); {
		case k == 0:
			e := hx.Pick(g.r, []string{"t\t", "b\b", "n\n", "r\r", "f\f", "\"\"", "''", "\\\\"})
			src.WriteString("\\" + e[:1])
			val.WriteString(e[1:])
			g.use("echar")
		case k == 1:
			c := hx.Pick(g.r, []rune{'A', 0xe9, 0x65e5, 0x22, 0x5c, 0x0a, 0x7f, 0x1, 0xffff})
			fmt.Fprintf(&src, "\\u%04x", c)
			val.WriteRune(c)
			g.use("uchar")
		case k == 2:
			c := hx.Pick(g.r, []rune{0x1F600, 'z', 0x10FFFF})
			fmt.Fprintf(&src, "\\U%08X", c)
			val.WriteRune(c)
			g.use("uchar")
		case k == 3 && long:
			c := hx.Pick(g.r, []string{"\n", "\r\n", "\t"})
			src.WriteString(c)
			val.WriteString(c)
			g.use("long-newline")
		case k == 4 && long:
			// one or two quote characters inside a long string (never three, never directly before the end)
			c := q[:1]
			if g.r.Bool() {
				c += c
			}
			src.WriteString(c + "x")
			val.WriteString(c + "x")
			g.use("long-inner-quote")
		case k == 5:
			// the other quote character
			c := "'"
			if q[0] == '\'' {
				c = "\""
			}
			src.WriteString(c)
			val.WriteString(c)
		default:
			c := hx.Pick(g.r, ttlChars)
			src.WriteString(c)
			val.WriteString(c)
		}
	}
	g.sb.WriteString(q + src.String() + q)
	g.use("string" + fmt.Sprint(len(q)) + q[:1])
	return val.String()
}

func litStr(lex, dt, lang string) string {
	// the harness' canonical rendering of literals (hx.Namer.TermStr)
	return hx.LiteralString(lex, dt, lang)
}

var ttlLangs = []string{"en", "EN-us", "de-Latn-DE-1996", "x-a-b", "fr-CA"}

func (g *ttlGen) literal() string {
	switch k := g.r.Intn(10); {
	case k == 0:
		s := hx.Pick(g.r, []string{"0", "-5", "+17", "007", "123456789012345678901234567890"})
		g.sb.WriteString(s)
		g.use("integer")
		return litStr(s, xsdNS+"integer", "")
	case k == 1:
		s := hx.Pick(g.r, []string{"4.2", "-.5", "+0.0", ".125", "10.50"})
		g.sb.WriteString(s)
		g.use("decimal")
		return litStr(s, xsdNS+"decimal", "")
	case k == 2:
		s := hx.Pick(g.r, []string{"1e3", "-1.5E-2", ".5e+1", "1.E0", "+2e0", "123.456e789"})
		g.sb.WriteString(s)
		g.use("double")
		return litStr(s, xsdNS+"double", "")
	case k == 3:
		s := hx.Pick(g.r, []string{"true", "false"})
		g.sb.WriteString(s)
		g.use("boolean")
		return litStr(s, xsdNS+"boolean", "")
	}
	lex := g.stringLit()
	switch g.r.Intn(4) {
	case 0:
		l := hx.Pick(g.r, ttlLangs)
		g.sb.WriteString("@" + l)
		g.use("langtag")
		return litStr(lex, rdfNS+"langString", l)
	case 1:
		g.sb.WriteString("^^")
		dt := g.iri()
		g.use("datatype")
		dt = strings.TrimSuffix(strings.TrimPrefix(dt, "<"), ">")
		return litStr(lex, dt, "")
	}
	return litStr(lex, xsdNS+"string", "")
}

// ---- terms and lists ----

func (g *ttlGen) collection() string {
	g.sb.WriteString("(")
	g.use("collection")
	n := g.r.Intn(4)
	if g.depth > 2 {
		n = g.r.Intn(2)
	}
	if n == 0 {
		g.ws(false)
		g.sb.WriteString(")")
		g.use("collection-empty")
		return rdfNil
	}
	head := g.fresh()
	cur := head
	for i := 0; i < n; i++ {
		g.ws(i > 0)
		g.depth++
		o := g.object()
		g.depth--
		g.emit(cur, "<"+rdfNS+"first>", o)
		if i == n-1 {
			g.emit(cur, "<"+rdfNS+"rest>", rdfNil)
		} else {
			nx := g.fresh()
			g.emit(cur, "<"+rdfNS+"rest>", nx)
			cur = nx
		}
	}
	g.ws(false)
	g.sb.WriteString(")")
	return head
}

func (g *ttlGen) bnodePropertyList() string {
	b := g.fresh()
	g.sb.WriteString("[")
	g.use("bnode-property-list")
	g.ws(false)
	g.depth++
	g.predicateObjectList(b)
	g.depth--
	g.ws(false)
	g.sb.WriteString("]")
	return b
}

func (g *ttlGen) anon() string {
	g.sb.WriteString("[" + hx.Pick(g.r, []string{"", " ", "\n", "\t "}) + "]")
	g.use("anon")
	return g.fresh()
}

func (g *ttlGen) object() string {
	k := g.r.Intn(12)
	if g.depth > 3 && k >= 8 {
		k = g.r.Intn(8)
	}
	switch {
	case k < 3:
		return g.iri()
	case k < 6:
		return g.literal()
	case k == 6:
		return g.blankLabel()
	case k == 7:
		return g.anon()
	case k < 10:
		return g.bnodePropertyList()
	default:
		return g.collection()
	}
}

func (g *ttlGen) verb() string {
	if g.r.Chance(1, 5) {
		g.sb.WriteString("a")
		g.use("a")
		if g.r.Chance(1, 4) {
			// the keyword needs no white space before '<', '[', '(' or a quote; decided once the object is written
			g.aPos = g.sb.Len()
		} else {
			g.ws(true)
		}
		return "<" + rdfNS + "type>"
	}
	p := g.iri()
	// a prefixed name may end where the next token begins only if separated
	g.ws(true)
	return p
}

func (g *ttlGen) predicateObjectList(s string) {
	np := 1 + g.r.Intn(3)
	for i := 0; i < np; i++ {
		if i > 0 {
			g.ws(false)
			g.sb.WriteString(";")
			g.use("semicolon")
			for g.r.Chance(1, 6) { // repeated and empty ';'
				g.ws(false)
				g.sb.WriteString(";")
				g.use("semicolon-repeated")
			}
			g.ws(false)
		}
		p := g.verb()
		no := 1 + g.r.Intn(3)
		for j := 0; j < no; j++ {
			if j > 0 {
				g.ws(false)
				g.sb.WriteString(",")
				g.use("comma")
				g.ws(false)
			}
			o := g.object()
			if g.aPos >= 0 {
				if cur := g.sb.String(); g.aPos < len(cur) && strings.IndexByte("<[(\"'", cur[g.aPos]) >= 0 {
					g.use("a-tight")
				} else {
					g.sb.Reset()
					g.sb.WriteString(cur[:g.aPos] + " " + cur[g.aPos:])
				}
				g.aPos = -1
			}
			g.emit(s, p, o)
		}
	}
	if g.r.Chance(1, 8) { // trailing ';'
		g.ws(false)
		g.sb.WriteString(";")
		g.use("semicolon-trailing")
	}
}

// triples ::= subject predicateObjectList | blankNodePropertyList predicateObjectList?
func (g *ttlGen) triples() {
	switch k := g.r.Intn(10); {
	case k < 5:
		s := g.iri()
		g.ws(true)
		g.predicateObjectList(s)
	case k == 5:
		s := g.blankLabel()
		g.ws(true)
		g.predicateObjectList(s)
	case k == 6:
		s := g.anon()
		g.ws(true)
		g.predicateObjectList(s)
	case k == 7:
		s := g.collection()
		g.use("collection-subject")
		g.ws(true)
		g.predicateObjectList(s)
	default:
		s := g.bnodePropertyList()
		g.use("bnode-property-list-subject")
		if g.r.Bool() {
			g.ws(true)
			g.predicateObjectList(s)
		}
	}
}

func (g *ttlGen) directive() {
	if g.r.Chance(1, 4) && g.base != "" {
		nb := hx.Pick(g.r, []string{"http://other.example/x/y", "sub/", "../", "http://example.org/dir/doc2", "/root/r"})
		b, _ := url.Parse(g.base)
		rr, _ := url.Parse(nb)
		want := b.ResolveReference(rr).String()
		if g.r.Bool() {
			g.sb.WriteString("@base <" + nb + ">")
			g.ws(false)
			g.sb.WriteString(".")
			g.use("@base")
		} else {
			g.sb.WriteString(hx.Pick(g.r, []string{"BASE", "base", "Base"}) + " <" + nb + ">")
			g.use("BASE")
		}
		g.base = want
		return
	}
	name := hx.Pick(g.r, ttlPrefixNames)
	ns := hx.Pick(g.r, ttlNamespaces)
	written := ns
	if g.base != "" && g.r.Chance(1, 5) {
		// a relative namespace IRI
		written = hx.Pick(g.r, []string{"ns#", "./v/", "#"})
		b, _ := url.Parse(g.base)
		rr, _ := url.Parse(strings.TrimSuffix(written, "#"))
		ns = b.ResolveReference(rr).String()
		if strings.HasSuffix(written, "#") { // net/url drops an empty fragment
			ns += "#"
		}
		g.use("prefix-relative")
	}
	if g.r.Bool() {
		g.sb.WriteString("@prefix")
		g.ws(true)
		g.sb.WriteString(name + ":")
		g.ws(false)
		g.sb.WriteString("<" + written + ">")
		g.ws(false)
		g.sb.WriteString(".")
		g.use("@prefix")
	} else {
		g.sb.WriteString(hx.Pick(g.r, []string{"PREFIX", "prefix", "PreFix"}))
		g.ws(true)
		g.sb.WriteString(name + ":")
		g.ws(false)
		g.sb.WriteString("<" + written + ">")
		g.use("PREFIX")
	}
	if _, ok := g.pfx[name]; !ok {
		g.pfxs = append(g.pfxs, name)
	} else {
		g.use("prefix-redefined")
	}
	g.pfx[name] = ns
}

// genTurtleDoc draws a document; base is the default base handed to the decoder ("" = none).
func genTurtleDoc(r *hx.Rand, trig bool, base string, maxStatements int) (doc string, want []hx.Q, feat map[string]int) {
	doc, want, feat, _ = genTurtleDocPre(r, trig, base, maxStatements, false)
	return
}

// genTurtleDocPre: with dirFirst all directives precede the first statement; preamble is that leading part of the text.
func genTurtleDocPre(r *hx.Rand, trig bool, base string, maxStatements int, dirFirst bool) (doc string, want []hx.Q, feat map[string]int, preamble string) {
	g := &ttlGen{r: r, trig: trig, base: base, aPos: -1, pfx: map[string]string{}, labels: map[string]string{}, feat: map[string]int{}}
	n := 1 + r.Intn(maxStatements)
	body := false
	defer func() {
		if !body {
			preamble = g.sb.String()
		}
	}()
	for i := 0; i < n; i++ {
		g.ws(false)
		k := r.Intn(10)
		if dirFirst && body && k < 3 {
			k = 9
		}
		if (k >= 3 && !(i == 0 && k < 6)) && !body {
			body = true
			preamble = g.sb.String()
		}
		switch {
		case k < 3 || (i == 0 && k < 6):
			g.directive()
		case trig && k < 7:
			g.graphBlock()
		default:
			g.triples()
			g.ws(false)
			g.dot()
		}
	}
	g.ws(false)
	return g.sb.String(), g.out, g.feat, preamble
}

// TriG: block ::= triplesOrGraph | wrappedGraph | triples2 | "GRAPH" labelOrSubject wrappedGraph
func (g *ttlGen) graphBlock() {
	switch k := g.r.Intn(6); {
	case k == 0:
		g.use("default-graph-block")
	case k < 3:
		g.sb.WriteString(hx.Pick(g.r, []string{"GRAPH", "graph", "Graph"}))
		if g.r.Chance(1, 4) {
			// the keyword needs no white space before '<' or '['
			pos := g.sb.Len()
			g.graph = g.graphLabel()
			if cur := g.sb.String(); cur[pos] == '<' || cur[pos] == '[' {
				g.use("GRAPH-tight")
			} else {
				g.sb.Reset()
				g.sb.WriteString(cur[:pos] + " " + cur[pos:])
			}
		} else {
			g.ws(true)
			g.graph = g.graphLabel()
		}
		g.use("GRAPH")
	default:
		g.graph = g.graphLabel()
		g.use("bare-graph-label")
	}
	g.ws(false)
	g.sb.WriteString("{")
	n := g.r.Intn(4)
	for i := 0; i < n; i++ {
		g.ws(false)
		g.triples()
		g.ws(false)
		if i < n-1 || g.r.Bool() {
			g.dot()
		} else {
			g.use("block-without-final-dot")
		}
	}
	g.ws(false)
	g.sb.WriteString("}")
	g.graph = ""
}

func (g *ttlGen) graphLabel() string {
	switch g.r.Intn(5) {
	case 0:
		return g.blankLabel()
	case 1:
		return g.anon()
	}
	return g.iri()
}

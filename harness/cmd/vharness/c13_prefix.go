package main

import (
	"fmt"
	"sort"
	"strings"

	"github.com/dpb587/rdfkit-go/iri"
	"verifharness/hx"
)

func init() { families["c13-prefix"] = c13Prefix }

var c13Prefixes = []string{"", "a", "b", "ex", "rdf", "a1"}
var c13Namespaces = []string{
	"http://a/", "http://a/b/", "http://a/b/c#", "http://a/b", "http://a/", "urn:x:", "http://a/b/c#d", "", "http://é/",
}
var c13Tails = []string{"", "x", "b/", "b/c#", "b/c#d", "c#dz", "/", "#", "y/z"}

// c13Prefix generates histories over several prefix managers (Clone makes a new
// one).  Observables are independent of the unspecified order among namespaces
// of equal length: for CompactPrefix the length of the remainder and whether
// ExpandPrefix of the returned pair gives the IRI back.
func c13Prefix(r *hx.Rand, n int, out *hx.Out, _ []string) {
	for c := 0; c < n; c++ {
		rr := r.Fork()
		mgrs := []*iri.PrefixManager{iri.NewPrefixManager(nil)}
		nops := 1 + rr.Intn(40)
		var ops, outs, desc []string
		muts, queries := 0, 0
		for i := 0; i < nops; i++ {
			mi := rr.Intn(len(mgrs))
			m := mgrs[mi]
			switch k := rr.Intn(10); {
			case k < 3: // add
				cnt := rr.Intn(4)
				var ms []iri.PrefixMapping
				var enc []string
				for j := 0; j < cnt; j++ {
					pm := iri.PrefixMapping{Prefix: hx.Pick(rr, c13Prefixes), Expanded: hx.Pick(rr, c13Namespaces)}
					ms = append(ms, pm)
					enc = append(enc, hx.X(pm.Prefix)+"="+hx.X(pm.Expanded))
				}
				m.AddPrefixMappings(ms...)
				ops = append(ops, fmt.Sprintf("A%d:%s", mi, strings.Join(enc, ",")))
				desc = append(desc, fmt.Sprintf("Add[%d]%v", mi, ms))
				muts++
			case k < 4: // delete
				cnt := rr.Intn(3)
				var ps, enc []string
				for j := 0; j < cnt; j++ {
					p := hx.Pick(rr, c13Prefixes)
					ps = append(ps, p)
					enc = append(enc, hx.X(p))
				}
				m.DeletePrefixes(ps...)
				ops = append(ops, fmt.Sprintf("D%d:%s", mi, strings.Join(enc, ",")))
				desc = append(desc, fmt.Sprintf("Del[%d]%q", mi, ps))
				muts++
			case k < 5 && len(mgrs) < 4: // clone
				mgrs = append(mgrs, m.Clone())
				ops = append(ops, fmt.Sprintf("C%d", mi))
				desc = append(desc, fmt.Sprintf("Clone[%d]", mi))
			case k < 8: // compact
				v := hx.Pick(rr, c13Namespaces) + hx.Pick(rr, c13Tails)
				if rr.Chance(1, 8) && len(v) > 0 {
					v = v[:rr.Intn(len(v))]
				}
				pr, ok := m.CompactPrefix(v)
				o := "-"
				if ok {
					ex, eok := m.ExpandPrefix(pr)
					b := "0"
					if eok && ex == v {
						b = "1"
					}
					o = fmt.Sprintf("%d,%s", len(pr.Reference), b)
				}
				ops = append(ops, fmt.Sprintf("c%d:%s", mi, hx.X(v)))
				outs = append(outs, o)
				desc = append(desc, fmt.Sprintf("Compact[%d](%q)=%s", mi, v, o))
				queries++
			case k < 9: // expand
				p, ref := hx.Pick(rr, c13Prefixes), hx.Pick(rr, c13Tails)
				ex, ok := m.ExpandPrefix(iri.PrefixReference{Prefix: p, Reference: ref})
				o := "-"
				if ok {
					o = hx.X(ex)
				}
				ops = append(ops, fmt.Sprintf("e%d:%s=%s", mi, hx.X(p), hx.X(ref)))
				outs = append(outs, o)
				queries++
			default: // dump
				ms := m.GetPrefixMappings()
				var lens []string
				for _, x := range ms {
					lens = append(lens, fmt.Sprint(len(x.Expanded)))
				}
				sort.Slice(ms, func(i, j int) bool {
					if ms[i].Prefix != ms[j].Prefix {
						return ms[i].Prefix < ms[j].Prefix
					}
					return ms[i].Expanded < ms[j].Expanded
				})
				var enc []string
				for _, x := range ms {
					enc = append(enc, hx.X(x.Prefix)+"="+hx.X(x.Expanded))
				}
				ops = append(ops, fmt.Sprintf("g%d", mi))
				outs = append(outs, strings.Join(enc, ",")+"/"+strings.Join(lens, ","))
				queries++
			}
		}
		// always end with a dump of every manager
		for mi, m := range mgrs {
			ms := m.GetPrefixMappings()
			var lens []string
			for _, x := range ms {
				lens = append(lens, fmt.Sprint(len(x.Expanded)))
			}
			sort.Slice(ms, func(i, j int) bool {
				if ms[i].Prefix != ms[j].Prefix {
					return ms[i].Prefix < ms[j].Prefix
				}
				return ms[i].Expanded < ms[j].Expanded
			})
			var enc []string
			for _, x := range ms {
				enc = append(enc, hx.X(x.Prefix)+"="+hx.X(x.Expanded))
			}
			ops = append(ops, fmt.Sprintf("g%d", mi))
			outs = append(outs, strings.Join(enc, ",")+"/"+strings.Join(lens, ","))
		}
		// end-to-end oracle on the implementation alone: every successful
		// compaction expands back, and matched the longest namespace present.
		oracle := ""
		for _, m := range mgrs {
			for _, nsv := range c13Namespaces {
				for _, t := range c13Tails {
					v := nsv + t
					pr, ok := m.CompactPrefix(v)
					best := -1
					for _, x := range m.GetPrefixMappings() {
						if strings.HasPrefix(v, x.Expanded) && len(x.Expanded) > best {
							best = len(x.Expanded)
						}
					}
					if !ok {
						if best >= 0 {
							oracle = fmt.Sprintf("CompactPrefix(%q) found nothing but a namespace of length %d matches", v, best)
						}
						continue
					}
					ex, eok := m.ExpandPrefix(pr)
					if !eok || ex != v {
						oracle = fmt.Sprintf("CompactPrefix(%q)=%v expands to %q,%v", v, pr, ex, eok)
					} else if len(v)-len(pr.Reference) != best {
						oracle = fmt.Sprintf("CompactPrefix(%q) matched %d bytes, longest namespace is %d", v, len(v)-len(pr.Reference), best)
					}
				}
			}
		}
		out.Emit(hx.Case{
			Kind:   "K/C13/prefix",
			Line:   "pfx\t" + strings.Join(ops, ";"),
			Impl:   strings.Join(outs, ";"),
			Class:  fmt.Sprintf("ops=%d-%d,mgrs=%d", (nops/10)*10, (nops/10)*10+9, len(mgrs)),
			NonTri: muts >= 2 && queries >= 1,
			Oracle: oracle,
			Desc:   strings.Join(desc, " "),
		})
	}
}

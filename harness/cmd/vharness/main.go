// vharness — generates cases, runs them on the implementation built from the
// current working tree of the repository and prints one JSON record per case.
package main

import (
	"flag"
	"fmt"
	"os"
	"sort"

	"verifharness/hx"
)

type family func(r *hx.Rand, n int, out *hx.Out, args []string)

var families = map[string]family{}

func main() {
	seed := flag.Uint64("seed", 1, "PRNG seed")
	n := flag.Int("n", 100, "number of cases")
	flag.Parse()
	if flag.NArg() < 1 {
		names := []string{}
		for k := range families {
			names = append(names, k)
		}
		sort.Strings(names)
		fmt.Fprintln(os.Stderr, "usage: vharness [-seed N] [-n N] <family> [args]; families:", names)
		os.Exit(2)
	}
	f, ok := families[flag.Arg(0)]
	if !ok {
		fmt.Fprintln(os.Stderr, "unknown family", flag.Arg(0))
		os.Exit(2)
	}
	out := hx.NewOut()
	defer out.Close()
	f(hx.NewRand(*seed), *n, out, flag.Args()[1:])
}

package main

// rdfcref.go — the harness' own RDFC-1.0 (sections 4.4-4.8), written from the specification and independent of
// package rdfcanon. Besides serving as a byte-level reference for any hash function it can break ties the other way
// round: where two permutations give the same path the specification keeps the first; with tieLast the last one is
// kept. A dataset on which the two differ is one where RDFC-1.0 itself depends on the order of its input
// (a hash tie between choices that no automorphism relates); the property exempts exactly those.

import (
	"encoding/hex"
	"fmt"
	"hash"
	"sort"
	"strings"
)

type refQuad struct {
	s, p, o, g string // blank nodes "_:label", other terms canonical N-Quads text; g "" = default graph
}

type refIssuer struct {
	prefix string
	ids    map[string]string
	order  []string
}

func newRefIssuer(p string) *refIssuer { return &refIssuer{prefix: p, ids: map[string]string{}} }
func (i *refIssuer) clone() *refIssuer {
	c := newRefIssuer(i.prefix)
	for k, v := range i.ids {
		c.ids[k] = v
	}
	c.order = append([]string{}, i.order...)
	return c
}
func (i *refIssuer) issue(n string) string {
	if id, ok := i.ids[n]; ok {
		return id
	}
	id := fmt.Sprintf("%s%d", i.prefix, len(i.order))
	i.ids[n] = id
	i.order = append(i.order, n)
	return id
}

type refCanon struct {
	hf      func() hash.Hash
	tieLast bool
	quads   []refQuad
	bnQuads map[string][]int
	canon   *refIssuer
	perms   int
	tooMany bool
	tieSeen bool
}

func isBN(t string) bool { return strings.HasPrefix(t, "_:") }

func (c *refCanon) h(s string) string {
	x := c.hf()
	x.Write([]byte(s))
	return hex.EncodeToString(x.Sum(nil))
}

func (c *refCanon) ser(q refQuad, f func(string) string) string {
	t := func(x string) string {
		if isBN(x) {
			return "_:" + f(x)
		}
		return x
	}
	s := t(q.s) + " " + q.p + " " + t(q.o)
	if q.g != "" {
		s += " " + t(q.g)
	}
	return s + " .\n"
}

func (c *refCanon) firstDegree(n string) string {
	var lines []string
	for _, qi := range c.bnQuads[n] {
		lines = append(lines, c.ser(c.quads[qi], func(x string) string {
			if x == n {
				return "a"
			}
			return "z"
		}))
	}
	sort.Strings(lines)
	return c.h(strings.Join(lines, ""))
}

func (c *refCanon) related(rel string, q refQuad, iss *refIssuer, pos string) string {
	in := pos
	if pos != "g" {
		in += q.p
	}
	if id, ok := c.canon.ids[rel]; ok {
		in += "_:" + id
	} else if id, ok := iss.ids[rel]; ok {
		in += "_:" + id
	} else {
		in += c.firstDegree(rel)
	}
	return c.h(in)
}

func permutations(l []string, f func([]string) bool) {
	var rec func(int) bool
	a := append([]string{}, l...)
	rec = func(i int) bool {
		if i == len(a) {
			return f(a)
		}
		for j := i; j < len(a); j++ {
			a[i], a[j] = a[j], a[i]
			ok := rec(i + 1)
			a[i], a[j] = a[j], a[i]
			if !ok {
				return false
			}
		}
		return true
	}
	rec(0)
}

func (c *refCanon) nDegree(n string, iss *refIssuer, depth int) (string, *refIssuer) {
	if depth > 64 || c.tooMany {
		c.tooMany = true
		return "", iss
	}
	groups := map[string][]string{}
	for _, qi := range c.bnQuads[n] {
		q := c.quads[qi]
		for _, pc := range [][2]string{{q.s, "s"}, {q.o, "o"}, {q.g, "g"}} {
			if isBN(pc[0]) && pc[0] != n {
				hh := c.related(pc[0], q, iss, pc[1])
				groups[hh] = append(groups[hh], pc[0])
			}
		}
	}
	var hs []string
	for k := range groups {
		hs = append(hs, k)
	}
	sort.Strings(hs)
	data := ""
	for _, hh := range hs {
		data += hh
		chosen := ""
		var chosenIss *refIssuer
		permutations(groups[hh], func(p []string) bool {
			c.perms++
			if c.perms > 200000 {
				c.tooMany = true
				return false
			}
			ic := iss.clone()
			path := ""
			var rl []string
			for _, rel := range p {
				if id, ok := c.canon.ids[rel]; ok {
					path += "_:" + id
				} else {
					if _, ok := ic.ids[rel]; !ok {
						rl = append(rl, rel)
					}
					path += "_:" + ic.issue(rel)
				}
				if chosen != "" && len(path) >= len(chosen) && path > chosen {
					return true
				}
			}
			for _, rel := range rl {
				rh, ri := c.nDegree(rel, ic, depth+1)
				if c.tooMany {
					return false
				}
				path += "_:" + ic.issue(rel) + "<" + rh + ">"
				ic = ri
				if chosen != "" && len(path) >= len(chosen) && path > chosen {
					return true
				}
			}
			switch {
			case chosen == "" || path < chosen:
				chosen, chosenIss = path, ic
			case path == chosen:
				if fmt.Sprint(ic.order) != fmt.Sprint(chosenIss.order) {
					c.tieSeen = true // two choices with the same path which number the nodes differently
				}
				if c.tieLast {
					chosen, chosenIss = path, ic
				}
			}
			return true
		})
		if c.tooMany {
			return "", iss
		}
		data += chosen
		iss = chosenIss
	}
	return c.h(data), iss
}

// refCanonicalize returns the canonical document, the issued identifiers, and whether the work limit was hit.
func refCanonicalize(quads []refQuad, hf func() hash.Hash, tieLast bool, listRev ...bool) (string, map[string]string, bool, bool) {
	c := &refCanon{hf: hf, tieLast: tieLast, quads: quads, bnQuads: map[string][]int{}, canon: newRefIssuer("c14n")}
	var bns []string
	seen := map[string]bool{}
	for i, q := range quads {
		for _, t := range []string{q.s, q.o, q.g} {
			if isBN(t) {
				// the specification adds one reference per quad; a quad naming the node twice is listed once
				l := c.bnQuads[t]
				if len(l) == 0 || l[len(l)-1] != i {
					c.bnQuads[t] = append(l, i)
				}
				if !seen[t] {
					seen[t] = true
					bns = append(bns, t)
				}
			}
		}
	}
	hashTo := map[string][]string{}
	for _, n := range bns {
		hh := c.firstDegree(n)
		hashTo[hh] = append(hashTo[hh], n)
	}
	var hs []string
	for k := range hashTo {
		hs = append(hs, k)
	}
	sort.Strings(hs)
	var rest []string
	for _, hh := range hs {
		if len(hashTo[hh]) == 1 {
			c.canon.issue(hashTo[hh][0])
		} else {
			rest = append(rest, hh)
		}
	}
	for _, hh := range rest {
		type res struct {
			hash string
			iss  *refIssuer
		}
		var list []res
		for _, n := range hashTo[hh] {
			if _, ok := c.canon.ids[n]; ok {
				continue
			}
			tmp := newRefIssuer("b")
			tmp.issue(n)
			rh, ri := c.nDegree(n, tmp, 0)
			if c.tooMany {
				return "", nil, true, false
			}
			list = append(list, res{rh, ri})
		}
		if len(listRev) > 0 && listRev[0] { // results with equal hashes in the opposite order
			for i, j := 0, len(list)-1; i < j; i, j = i+1, j-1 {
				list[i], list[j] = list[j], list[i]
			}
		}
		sort.SliceStable(list, func(i, j int) bool { return list[i].hash < list[j].hash })
		for _, r := range list {
			for _, n := range r.iss.order {
				c.canon.issue(n)
			}
		}
	}
	var lines []string
	for _, q := range quads {
		lines = append(lines, c.ser(q, func(x string) string { return c.canon.issue(x) }))
	}
	sort.Strings(lines)
	return strings.Join(lines, ""), c.canon.ids, false, c.tieSeen
}

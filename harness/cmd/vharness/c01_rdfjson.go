package main

import (
	"bytes"
	"context"
	"encoding/json"
	"fmt"

	"github.com/dpb587/rdfkit-go/encoding/rdfjson"
	"github.com/dpb587/rdfkit-go/rdf"
	"github.com/dpb587/rdfkit-go/rdf/blanknodes"
	"verifharness/hx"
)

func init() { families["c01-rdfjson"] = c01RDFJSON }

// c01RDFJSON: encode with the RDF/JSON encoder, check the document is JSON, decode it with the RDF/JSON decoder
// (strict and lax tokenizer) and compare up to blank node renaming.
func c01RDFJSON(r *hx.Rand, n int, out *hx.Out, _ []string) {
	ctx := context.Background()
	for c := 0; c < n; c++ {
		rr := r.Fork()
		qs := nqGenDataset(rr, false, 7)
		for i := range qs {
			qs[i].GraphName = nil
		}
		qs = dedupQuads(qs)
		labelFmt := hx.Pick(rr, []string{"", "b%d", "n%dx", "_%d", ":%d", "__%d", "é%d", "%d", "a.b%d"})
		oracle := ""
		doc, err := func() (b []byte, err error) {
			defer func() {
				if p := recover(); p != nil {
					err = fmt.Errorf("panic: %v", p)
				}
			}()
			var buf bytes.Buffer
			cfg := rdfjson.EncoderConfig{}
			if labelFmt != "" {
				cfg = cfg.SetBlankNodeStringProvider(blanknodes.NewInt64StringProvider(labelFmt))
			}
			e, err := rdfjson.NewEncoder(&buf, cfg)
			if err != nil {
				return nil, err
			}
			for _, q := range qs {
				if err := e.AddTriple(ctx, q.Triple); err != nil {
					return nil, err
				}
			}
			if err := e.Close(); err != nil {
				return nil, err
			}
			return buf.Bytes(), nil
		}()
		if err != nil {
			oracle = "encoder failed: " + err.Error()
		} else {
			var v map[string]map[string][]map[string]string
			if err := json.Unmarshal(doc, &v); err != nil {
				oracle = "output is not an RDF/JSON document: " + err.Error()
			}
			for _, lax := range []bool{false, true} {
				res := zooRun("rdfjson", doc, zooOpts{lax: lax, offsets: rr.Bool()})
				if res.verdict != "ok" || res.proto != "" {
					oracle = fmt.Sprintf("the RDF/JSON decoder (lax=%v) rejects the encoder's output: %s %s %s", lax, res.verdict, res.detail, res.proto)
					continue
				}
				var a []hx.Q
				na := hx.NewNamer()
				for _, q := range qs {
					a = append(a, na.Quad(q))
				}
				if why := hx.IsoWhy(a, zooQuadsQ(res.quads)); why != "" {
					oracle = fmt.Sprintf("decoded graph (lax=%v) is not isomorphic to the input: %s", lax, why)
				}
			}
		}
		sample := string(doc)
		if len(sample) > 400 {
			sample = sample[:400] + "..."
		}
		out.Emit(hx.Case{Kind: "K/C01/rdfjson-roundtrip", Impl: fmt.Sprintf("%d triples, %d bytes", len(qs), len(doc)), Class: fmt.Sprintf("labels=%q", labelFmt),
			NonTri: len(qs) >= 2, Oracle: oracle, Desc: fmt.Sprintf("labels=%q %d triples: %s", labelFmt, len(qs), sample)})
	}
	_ = rdf.IRI("")
}

package main

import (
	"fmt"
	"regexp"
	"strings"

	"github.com/dpb587/rdfkit-go/rdf"
	"verifharness/hx"
)

func init() { families["c01-nq"] = c01NQ }

// an independent transcription of the N-Quads / N-Triples EBNF, line by line
var (
	reUCHAR     = `(?:\\u[0-9A-Fa-f]{4}|\\U[0-9A-Fa-f]{8})`
	reIRIREF    = `<(?:[^\x00-\x20<>"{}|^` + "`" + `\\]|` + reUCHAR + `)*>`
	rePNBase    = `A-Za-z\x{00C0}-\x{00D6}\x{00D8}-\x{00F6}\x{00F8}-\x{02FF}\x{0370}-\x{037D}\x{037F}-\x{1FFF}\x{200C}-\x{200D}\x{2070}-\x{218F}\x{2C00}-\x{2FEF}\x{3001}-\x{D7FF}\x{F900}-\x{FDCF}\x{FDF0}-\x{FFFD}\x{10000}-\x{EFFFF}`
	rePNU       = rePNBase + `_:`
	rePN        = rePNU + `\-0-9\x{00B7}\x{0300}-\x{036F}\x{203F}-\x{2040}`
	reBLANK     = `_:[` + rePNU + `0-9](?:[` + rePN + `.]*[` + rePN + `])?`
	reSTRING    = `"(?:[^\x22\x5C\x0A\x0D]|\\[tbnrf"'\\]|` + reUCHAR + `)*"`
	reLANG      = `@[a-zA-Z]+(?:-[a-zA-Z0-9]+)*`
	reLIT       = reSTRING + `(?:\^\^` + reIRIREF + `|` + reLANG + `)?`
	reWS        = `[ \t]*`
	reNQLine    = regexp.MustCompile(`^` + reWS + `(?:` + reIRIREF + `|` + reBLANK + `)` + reWS + reIRIREF + reWS + `(?:` + reIRIREF + `|` + reBLANK + `|` + reLIT + `)` + reWS + `(?:(?:` + reIRIREF + `|` + reBLANK + `)` + reWS + `)?\.` + reWS + `(?:#[^\n\r]*)?$`)
	reNTLine    = regexp.MustCompile(`^` + reWS + `(?:` + reIRIREF + `|` + reBLANK + `)` + reWS + reIRIREF + reWS + `(?:` + reIRIREF + `|` + reBLANK + `|` + reLIT + `)` + reWS + `\.` + reWS + `(?:#[^\n\r]*)?$`)
	reBlankLine = regexp.MustCompile(`^` + reWS + `(?:#[^\n\r]*)?$`)
)

func nqGrammatical(doc string, nq bool) string {
	re := reNTLine
	if nq {
		re = reNQLine
	}
	for i, ln := range strings.Split(doc, "\n") {
		if ln == "" && i > 0 {
			continue
		}
		if !re.MatchString(ln) && !reBlankLine.MatchString(ln) {
			return fmt.Sprintf("line %d is not grammatical: %q", i+1, ln)
		}
	}
	return ""
}

func c01NQ(r *hx.Rand, n int, out *hx.Out, _ []string) {
	for c := 0; c < n; c++ {
		rr := r.Fork()
		o := nqEncOpts{nq: rr.Bool(), ascii: rr.Bool()}
		switch rr.Intn(4) {
		case 1:
			o.pre, o.suf = "n", "x"
		case 2:
			o.pre, o.suf = "a.b", ""
		case 3:
			// a custom provider's labels are written verbatim (BLANK_NODE_LABEL has no escapes): with the ASCII
			// option on, an ASCII-only provider is the caller's side of the contract
			if !o.ascii {
				o.pre, o.suf = "é", "·"
			}
		}
		qs := nqGenDataset(rr, o.nq, 6)
		if !o.nq { // triples only: drop graph names
			for i := range qs {
				qs[i].GraphName = nil
			}
			qs = dedupQuads(qs)
		}
		doc, err := nqEncodeImpl(qs, o)
		impl := hx.X(string(doc))
		oracle := ""
		if err != nil {
			impl, oracle = "!"+err.Error(), "encoder failed: "+err.Error()
		}
		fmtName := "nt"
		if o.nq {
			fmtName = "nq"
		}
		cls := fmt.Sprintf("%s ascii=%v labels=%q", fmtName, o.ascii, o.pre+"%d"+o.suf)
		desc := fmt.Sprintf("%s %d quads: %s", cls, len(qs), strings.ReplaceAll(string(doc), "\n", "\\n"))
		if err == nil {
			if o.ascii {
				for _, b := range doc {
					if b > 0x7f {
						oracle = "ASCII option is on but the output contains a byte above 0x7F"
					}
				}
			}
			if why := nqGrammatical(string(doc), o.nq); why != "" {
				oracle = why
			}
			dec := nqDecodeImpl(doc, nqDecodeOpts{nq: o.nq})
			if dec.verdict != "ok" || dec.proto != "" {
				oracle = "the matching decoder rejects the encoder's output: " + dec.verdict + " " + dec.proto
			} else {
				na, nb := hx.NewNamer(), hx.NewNamer()
				var a, b []hx.Q
				for _, q := range qs {
					a = append(a, na.Quad(q))
				}
				for _, q := range dec.quads {
					b = append(b, nb.Quad(q))
				}
				if why := hx.IsoWhy(a, b); why != "" {
					oracle = "decoded dataset is not isomorphic to the input: " + why
				}
			}
			// the decoder model on the encoder's bytes
			out.Emit(hx.Case{Kind: "K/C01/decode-encoded", Line: nqDecLine(doc, nqDecodeOpts{nq: o.nq}), Impl: nqDecodeImpl(doc, nqDecodeOpts{nq: o.nq}).String(),
				Class: cls, NonTri: len(qs) >= 2, Desc: desc})
		}
		out.Emit(hx.Case{Kind: "K/C01/encode", Line: nqEncLine(qs, o), Impl: impl, Class: cls, NonTri: len(qs) >= 2, Oracle: oracle, Desc: desc})
	}
}

func dedupQuads(qs []rdf.Quad) []rdf.Quad {
	nm := hx.NewNamer()
	seen := map[string]bool{}
	var out []rdf.Quad
	for _, q := range qs {
		k := nm.Quad(q).String()
		if !seen[k] {
			seen[k] = true
			out = append(out, q)
		}
	}
	return out
}

package main

// c10_encode.go — C10, encoder direction: a default-graph dataset goes through jsonld.Encoder under a random
// configuration (base, prefixes, buffered, labeller); the document must decode (library decoder) to an isomorphic
// dataset, where xsd:integer / xsd:double / xsd:boolean literals are compared by value (the encoder writes them as
// native JSON values, which have no lexical form). The Coq model reads the same document as an independent decoder.

import (
	"bytes"
	"context"
	"fmt"
	"math/big"
	"strconv"
	"strings"

	"github.com/dpb587/rdfkit-go/encoding/jsonld"
	"github.com/dpb587/rdfkit-go/rdf"
	"github.com/dpb587/rdfkit-go/rdf/blanknodes"
	"verifharness/hx"
)

func init() { families["c10-encode"] = c10Encode }

func c10EncodeImpl(ts []rdf.Triple, c c02Config) (out []byte, err error) {
	defer func() {
		if p := recover(); p != nil {
			err = fmt.Errorf("panic: %v", p)
		}
	}()
	cfg := jsonld.EncoderConfig{}.SetBuffered(c.buffered)
	if c.base != "" {
		cfg = cfg.SetBase(c.base)
	}
	if len(c.prefixes) > 0 {
		cfg = cfg.SetPrefixes(c.prefixes)
	}
	if c.labeller {
		cfg = cfg.SetBlankNodeStringProvider(blanknodes.NewInt64StringProvider("n%d"))
	}
	var buf bytes.Buffer
	e, err := jsonld.NewEncoder(&buf, cfg)
	if err != nil {
		return nil, err
	}
	for _, t := range ts {
		if err := e.AddQuad(context.Background(), rdf.Quad{Triple: t}); err != nil {
			return nil, err
		}
	}
	if err := e.Close(); err != nil {
		return nil, err
	}
	return buf.Bytes(), nil
}

// c10ByValue replaces the lexical form of a well-typed xsd:integer / xsd:double literal by a canonical one.
func c10ByValue(t rdf.ObjectValue) rdf.ObjectValue {
	l, ok := t.(rdf.Literal)
	if !ok {
		return t
	}
	switch string(l.Datatype) {
	case xsdNS + "integer":
		if i, ok := new(big.Int).SetString(strings.TrimPrefix(l.LexicalForm, "+"), 10); ok && !strings.ContainsAny(l.LexicalForm, " _") {
			l.LexicalForm = i.String()
		}
	case xsdNS + "double":
		s := l.LexicalForm
		switch s {
		case "INF", "-INF", "NaN", "+INF":
			return l
		}
		if f, err := strconv.ParseFloat(s, 64); err == nil && !strings.ContainsAny(s, "xXpP_ ") && !strings.Contains(strings.ToLower(s), "inf") && !strings.Contains(strings.ToLower(s), "nan") {
			if f == 0 {
				f = 0 // -0 and 0 are one JSON number
			}
			l.LexicalForm = strconv.FormatFloat(f, 'E', -1, 64)
		}
	}
	return l
}

func c10QuadsByValue(qs []rdf.Quad) []rdf.Quad {
	out := make([]rdf.Quad, len(qs))
	for i, q := range qs {
		q.Triple.Object = c10ByValue(q.Triple.Object)
		out[i] = q
	}
	return out
}

func c10Encode(r *hx.Rand, n int, out *hx.Out, args []string) {
	maxT := 6
	if len(args) > 0 {
		fmt.Sscan(args[0], &maxT)
	}
	const decodeBase = "http://decode.example/elsewhere/doc"
	for c := 0; c < n; c++ {
		rr := r.Fork()
		ts := c02GenGraph(rr, maxT)
		if !c02WellFormed(ts) || !c10IRIsOK(ts) {
			c--
			continue
		}
		cfg := c02Config{buffered: rr.Bool(), labeller: rr.Chance(1, 4)}
		cfg.base = hx.Pick(rr, []string{"", "", "http://example.org/dir/doc", "http://example.org/", "http://example.org/ns#frag", "urn:x:y"})
		for _, p := range c02Namespaces {
			if rr.Chance(1, 3) {
				cfg.prefixes = append(cfg.prefixes, p)
			}
		}
		var want []rdf.Quad
		for _, t := range ts {
			want = append(want, rdf.Quad{Triple: t})
		}
		doc, err := c10EncodeImpl(ts, cfg)
		impl, oracle, line := "", "", ""
		if err != nil {
			impl = "!encode " + err.Error()
			oracle = "the encoder fails on a well-formed default-graph dataset: " + err.Error()
		} else {
			res := zooRun("jsonld", doc, zooOpts{base: decodeBase})
			switch res.verdict {
			case "ok":
				impl = c10ImplString(res)
				if why := hx.IsoSetsWhy(lowerLang(zooQuadsQ(c10QuadsByValue(res.quads))), lowerLang(zooQuadsQ(c10QuadsByValue(want)))); why != "" {
					oracle = "the encoder's document does not decode to the dataset written: " + why
				}
			case "error":
				impl = "!doc"
				oracle = "the encoder's document is rejected by the decoder: " + res.detail
			default:
				impl = "!" + res.verdict
				oracle = res.verdict + ": " + res.detail
			}
			if tree, perr := parseJSONTree(doc); perr != nil {
				if oracle == "" {
					oracle = "the encoder's document is not JSON: " + perr.Error()
				}
			} else {
				var tk strings.Builder
				if tree.tokens(&tk) {
					line = "jsonld\t" + hx.X(decodeBase) + "\t" + strings.TrimSuffix(tk.String(), ",")
				}
			}
		}
		if oracle != "" {
			oracle += "\nwritten: " + zooStmtStrings(want) + "\ndocument: " + string(doc)
		}
		cls := fmt.Sprintf("base=%v prefixes=%d buffered=%v", cfg.base != "", len(cfg.prefixes), cfg.buffered)
		out.Emit(hx.Case{Kind: "K/C10/encode/iso", Line: line, Impl: impl, Class: cls, NonTri: len(ts) >= 2, Oracle: oracle, Spec: true,
			Desc: fmt.Sprintf("config %v; triples: %s; document: %s", cfg, strings.ReplaceAll(zooStmtStrings(want), "\n", " ; "), string(doc))})
	}
}

// c10IRIsOK: JSON-LD drops statements whose IRIs are not well-formed; a second "#" (allowed inside an IRIREF of
// Turtle, not by RFC 3987) puts a dataset outside what the format can carry.
func c10IRIsOK(ts []rdf.Triple) bool {
	ok := func(t rdf.Term) bool {
		switch t := t.(type) {
		case rdf.IRI:
			return strings.Count(string(t), "#") <= 1
		case rdf.Literal:
			return strings.Count(string(t.Datatype), "#") <= 1
		}
		return true
	}
	for _, t := range ts {
		if !ok(t.Subject) || !ok(t.Predicate) || !ok(t.Object) {
			return false
		}
	}
	return true
}

// c10-seeds: the JSON-LD documents of the W3C expand / toRdf suites shipped in the repository, read by the decoder and,
// where the document stays inside the part of JSON-LD the Coq model covers (the model answers !skip elsewhere), by the
// model; documents written by other people than the harness writer.
func init() { families["c10-seeds"] = c10Seeds }

func c10Seeds(r *hx.Rand, n int, out *hx.Out, _ []string) {
	var files []seedFile
	for _, s := range seeds("jsonld") {
		if strings.HasSuffix(s.path, "-in.jsonld") {
			files = append(files, s)
		}
	}
	for c := 0; c < n && c < len(files); c++ {
		s := files[c]
		base := "http://w3c.example/tests/" + s.path[strings.LastIndexByte(s.path, '/')+1:]
		tree, err := parseJSONTree(s.data)
		if err != nil {
			continue
		}
		var tk strings.Builder
		if !tree.tokens(&tk) {
			continue
		}
		res := zooRun("jsonld", s.data, zooOpts{base: base})
		if res.verdict != "ok" {
			// an error test, or a document which needs options the manifest gives: nothing to compare
			out.Emit(hx.Case{Kind: "K/C10/seeds-skip", Impl: res.verdict, Class: "decoder does not accept (error test or options needed)", Desc: s.path})
			continue
		}
		out.Emit(hx.Case{Kind: "K/C10/seeds/iso", Line: "jsonldq\t" + hx.X(base) + "\t" + strings.TrimSuffix(tk.String(), ","), Impl: c10ImplString(res), Class: "W3C suite document", NonTri: len(res.quads) >= 2, Spec: true,
			Desc: fmt.Sprintf("base=%q file=%s document: %s", base, s.path, string(s.data))})
	}
}

// c10Doubles: native JSON numbers with a fraction or an exponent become xsd:double literals in the canonical lexical
// form (mantissa with at least one fraction digit, 'E', exponent without sign '+' or leading zeros). The model keeps
// floating point out, so this is an end-to-end oracle over a table of spellings and their canonical forms.
var c10DoubleTable = [][2]string{
	{"0.05", "5.0E-2"}, {"-0.25", "-2.5E-1"}, {"1.5e-7", "1.5E-7"}, {"1.5", "1.5E0"}, {"100.5", "1.005E2"}, {"3.0e-10", "3.0E-10"},
	{"5.3", "5.3E0"}, {"1.055E2", "1.055E2"}, {"2.55e+1", "2.55E1"}, {"0.001", "1.0E-3"}, {"-1.5E-12", "-1.5E-12"}, {"123456.789", "1.23456789E5"},
	{"1e-1", "1.0E-1"}, {"9.99e-5", "9.99E-5"}, {"0.5", "5.0E-1"}, {"1e21", "1.0E21"}, {"1.25e100", "1.25E100"}, {"4.0e-100", "4.0E-100"},
}

func c10Doubles(r *hx.Rand, n int, out *hx.Out, _ []string) {
	for c := 0; c < n; c++ {
		rr := r.Fork()
		e := c10DoubleTable[c%len(c10DoubleTable)]
		var doc string
		switch rr.Intn(4) {
		case 0:
			doc = `{"@id":"http://e/s","http://e/p":` + e[0] + `}`
		case 1:
			doc = `{"@id":"http://e/s","http://e/p":{"@value":` + e[0] + `}}`
		case 2:
			doc = `{"@id":"http://e/s","http://e/p":{"@list":[` + e[0] + `]}}`
		default:
			doc = `{"@context":{"p":{"@id":"http://e/p","@type":"http://www.w3.org/2001/XMLSchema#double"}},"@id":"http://e/s","p":` + e[0] + `}`
		}
		res := zooRun("jsonld", []byte(doc), zooOpts{})
		oracle, got := "", ""
		if res.verdict != "ok" {
			oracle = "the document is rejected: " + res.detail
		} else {
			found := false
			for _, q := range res.quads {
				if l, ok := q.Triple.Object.(rdf.Literal); ok {
					found = true
					got = l.LexicalForm + "^^" + string(l.Datatype)
					if l.LexicalForm != e[1] || string(l.Datatype) != xsdNS+"double" {
						oracle = fmt.Sprintf("the number %s is decoded as %q^^<%s>, the canonical xsd:double form is %q", e[0], l.LexicalForm, l.Datatype, e[1])
					}
				}
			}
			if !found {
				oracle = "no literal decoded"
			}
		}
		out.Emit(hx.Case{Kind: "K/C10/double", Impl: got, Class: "native-double", NonTri: true, Oracle: oracle, Desc: doc})
	}
}

func init() { families["c10-doubles"] = c10Doubles }

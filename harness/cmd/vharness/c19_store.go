package main

import (
	"context"
	"fmt"
	"sort"
	"strings"

	"github.com/dpb587/rdfkit-go/rdf"
	"github.com/dpb587/rdfkit-go/rdf/quads"
	"github.com/dpb587/rdfkit-go/rdf/terms"
	"github.com/dpb587/rdfkit-go/rdf/triples"
	"github.com/dpb587/rdfkit-go/x/storage/inmemory"
	"verifharness/hx"
)

func init() {
	families["c19-store"] = c19Store
	families["c19-matchers"] = c19Matchers
}

// c19Matchers: every generated term matcher against every term of the universe (and the nil term).
func c19Matchers(r *hx.Rand, n int, out *hx.Out, _ []string) {
	for c := 0; c < n; c++ {
		rr := r.Fork()
		_, _, obj := c19Universe()
		m := c19GenMatcher(rr, obj, 3)
		var encs []string
		var bits strings.Builder
		oracle := ""
		for _, t := range obj {
			encs = append(encs, t.enc)
			got := m.m.MatchTerm(t.t)
			if got {
				bits.WriteByte('1')
			} else {
				bits.WriteByte('0')
			}
			// Equals must agree with RDF term equality
			if eq, ok := m.m.(terms.Equals); ok && got != eq.Expected.TermEquals(t.t) {
				oracle = "Equals disagrees with TermEquals on " + t.enc
			}
		}
		encs = append(encs, "-")
		if m.m.MatchTerm(nil) {
			bits.WriteByte('1')
		} else {
			bits.WriteByte('0')
		}
		out.Emit(hx.Case{Kind: "K/C19/matchers", Line: "tm\t" + m.enc + "\t" + strings.Join(encs, ";"), Impl: bits.String(),
			Class: strings.SplitN(m.enc, " ", 2)[0], NonTri: strings.Contains(m.enc, " "), Oracle: oracle, Desc: m.enc})
	}
}

const rdfLangString = "http://www.w3.org/1999/02/22-rdf-syntax-ns#langString"
const rdfDirLangString = "http://www.w3.org/1999/02/22-rdf-syntax-ns#dirLangString"
const xsdString = "http://www.w3.org/2001/XMLSchema#string"

type c19Term struct {
	t   rdf.Term
	enc string
}

// universe: IRIs, blank nodes of three factories (equal counters in different factories), literals differing only in
// datatype / tag / direction / lexical form, lexical forms mimicking the literal key syntax.
func c19Universe() (subj, pred, obj []c19Term) {
	iri := func(s string) c19Term { return c19Term{rdf.IRI(s), "I" + hx.X(s)} }
	f1, f2 := rdf.NewBlankNodeFactory(), rdf.NewBlankNodeFactory()
	bn := func(f rdf.BlankNodeFactory, fi int) c19Term {
		b := f.NewBlankNode()
		_, v, _ := rdf.VerifBlankNodeInfo(b.Identifier)
		return c19Term{b, fmt.Sprintf("B%d.%d", fi, v)}
	}
	lit := func(dt, lex, lang, dir string) c19Term {
		l := rdf.Literal{Datatype: rdf.IRI(dt), LexicalForm: lex}
		el, ed := "-", "-"
		if lang != "" && dir == "" {
			l.Tag = rdf.LanguageLiteralTag{Language: lang}
			el = hx.X(lang)
		} else if lang != "" {
			l.Tag = rdf.DirectionalLanguageLiteralTag{Language: lang, BaseDirection: dir}
			el, ed = hx.X(lang), hx.X(dir)
		}
		return c19Term{l, "L" + hx.X(dt) + "," + hx.X(lex) + "," + el + "," + ed}
	}
	iris := []c19Term{iri("http://e/a"), iri("http://e/b"), iri("http://e/A"), iri(xsdString)}
	bns := []c19Term{bn(f1, 1), bn(f2, 2), bn(f1, 1), bn(f2, 2)} // f1#1, f2#1, f1#2, f2#2
	lits := []c19Term{
		lit(xsdString, "x", "", ""), lit("http://e/dt", "x", "", ""), lit(xsdString, "y", "", ""), lit(xsdString, "", "", ""),
		lit(rdfLangString, "x", "en", ""), lit(rdfLangString, "x", "en-us", ""), lit(rdfDirLangString, "x", "en", "ltr"),
		lit(rdfDirLangString, "x", "en", "rtl"), lit(xsdString, "lang=\"en\"\nx", "", ""), lit(rdfLangString, "lang=\"en\"\nx", "en", ""),
	}
	subj = append(append([]c19Term{}, iris...), bns...)
	pred = iris
	obj = append(append(append([]c19Term{}, iris...), bns...), lits...)
	return
}

type c19M struct {
	m   rdf.TermMatcher
	enc string
}

func c19GenMatcher(rr *hx.Rand, pool []c19Term, depth int) c19M {
	k := rr.Intn(10)
	if depth <= 0 && k >= 6 {
		k = rr.Intn(6)
	}
	switch k {
	case 0, 1:
		t := hx.Pick(rr, pool)
		return c19M{terms.Equals{Expected: t.t}, "E " + t.enc}
	case 2:
		n := rr.Intn(4)
		var ts []rdf.Term
		enc := fmt.Sprintf("O %d", n)
		from := pool
		if len(pool) >= 16 && rr.Bool() { // terms that differ in one aspect only: tag, direction, datatype, factory
			from = hx.Pick(rr, [][]c19Term{pool[12:14], pool[14:16], pool[12:16], pool[8:10], pool[4:8]})
			n = 2 + rr.Intn(2)
			enc = fmt.Sprintf("O %d", n)
		}
		for i := 0; i < n; i++ {
			t := hx.Pick(rr, from)
			ts = append(ts, t.t)
			enc += " " + t.enc
		}
		return c19M{terms.EqualsOneOf(ts...), enc}
	case 3:
		return c19M{terms.IsIRI, "i"}
	case 4:
		return c19M{terms.IsBlankNode, "b"}
	case 5:
		return c19M{terms.IsLiteral, "l"}
	case 6:
		d := hx.Pick(rr, []string{xsdString, rdfLangString, "http://e/dt", rdfDirLangString})
		return c19M{terms.IsLiteralDatatype{Datatype: terms.Equals{Expected: rdf.IRI(d)}}, "D E I" + hx.X(d)}
	case 7:
		sub := c19GenMatcher(rr, pool, depth-1)
		return c19M{terms.LogicalNotMatcher{Matcher: sub.m}, "N " + sub.enc}
	default:
		n := rr.Intn(3)
		var ms []rdf.TermMatcher
		tag := "A"
		if k == 9 {
			tag = "R"
		}
		enc := fmt.Sprintf("%s %d", tag, n)
		for i := 0; i < n; i++ {
			sub := c19GenMatcher(rr, pool, depth-1)
			ms = append(ms, sub.m)
			enc += " " + sub.enc
		}
		if k == 9 {
			return c19M{terms.LogicalOrMatcher(ms), enc}
		}
		return c19M{terms.LogicalAndMatcher(ms), enc}
	}
}

func c19QuadEnc(s, p, o c19Term, g *c19Term) string {
	ge := "-"
	if g != nil {
		ge = g.enc
	}
	return s.enc + "|" + p.enc + "|" + o.enc + "|" + ge
}

func c19Store(r *hx.Rand, n int, out *hx.Out, _ []string) {
	ctx := context.Background()
	for c := 0; c < n; c++ {
		rr := r.Fork()
		subj, pred, obj := c19Universe()
		gnames := []*c19Term{nil, nil, &subj[0], &subj[1], &subj[4], &subj[5]}
		enc2term := map[string]rdf.Term{}
		for _, t := range obj {
			enc2term[t.enc] = t.t
		}
		ds := inmemory.NewDataset()
		ref := map[string]bool{} // reference set keyed by the canonical encoding (= RDF term equality on this universe)
		var ops, outs []string
		oracle := ""
		muts, queries := 0, 0
		type c19Used struct {
			q   rdf.Quad
			enc string
			g   *c19Term
		}
		var used []c19Used
		smallAt := hx.Pick(rr, []int{0, 0, 4, 8, 12, 12, 14})
		small := rr.Chance(1, 3) // a third of the histories live in a tiny universe so that re-adds and real deletions are frequent
		mkQuad := func() (rdf.Quad, string, *c19Term) {
			if len(used) > 0 && rr.Chance(1, 2) { // revisit a quad used before (delete what exists, re-add what was deleted)
				u := hx.Pick(rr, used)
				return u.q, u.enc, u.g
			}
			s, p, o, g := hx.Pick(rr, subj[:3+rr.Intn(len(subj)-2)]), hx.Pick(rr, pred[:2+rr.Intn(2)]), hx.Pick(rr, obj), hx.Pick(rr, gnames)
			if small {
				s, p, o, g = hx.Pick(rr, subj[:3]), pred[0], hx.Pick(rr, obj[smallAt:smallAt+4]), hx.Pick(rr, gnames[:3])
			}
			q := rdf.Quad{Triple: rdf.Triple{Subject: s.t.(rdf.SubjectValue), Predicate: p.t.(rdf.PredicateValue), Object: o.t.(rdf.ObjectValue)}}
			if g != nil {
				q.GraphName = g.t.(rdf.GraphNameValue)
			}
			enc := c19QuadEnc(s, p, o, g)
			used = append(used, c19Used{q, enc, g})
			return q, enc, g
		}
		quadEncOf := func(q rdf.Quad) string {
			find := func(t rdf.Term) string {
				for _, u := range obj {
					if u.t.TermEquals(t) {
						return u.enc
					}
				}
				return "?"
			}
			g := "-"
			if q.GraphName != nil {
				g = find(q.GraphName.(rdf.Term))
			}
			return find(q.Triple.Subject) + "|" + find(q.Triple.Predicate) + "|" + find(q.Triple.Object) + "|" + g
		}
		listOut := func(encs []string) string {
			sort.Strings(encs)
			return "[" + strings.Join(encs, "+") + "]"
		}
		nops := 2 + rr.Intn(60)
		for i := 0; i < nops; i++ {
			switch k := rr.Intn(12); {
			case k < 4:
				q, enc, g := mkQuad()
				if g != nil && rr.Bool() || g == nil && rr.Chance(1, 3) { // through the per-graph view
					gr, _ := ds.GetGraph(ctx, q.GraphName)
					gr.AddTriple(ctx, q.Triple)
				} else {
					ds.AddQuad(ctx, q)
				}
				ref[enc] = true
				ops, outs = append(ops, "a"+enc), append(outs, "-")
				muts++
			case k < 6:
				q, enc, _ := mkQuad()
				if rr.Bool() {
					gr, _ := ds.GetGraph(ctx, q.GraphName)
					gr.DeleteTriple(ctx, q.Triple)
				} else {
					ds.DeleteQuad(ctx, q)
				}
				delete(ref, enc)
				ops, outs = append(ops, "d"+enc), append(outs, "-")
				muts++
			case k < 8:
				q, enc, _ := mkQuad()
				var has bool
				if rr.Bool() {
					has, _ = ds.HasQuad(ctx, q)
				} else {
					gr, _ := ds.GetGraph(ctx, q.GraphName)
					has, _ = gr.HasTriple(ctx, q.Triple)
					ops, outs = append(ops, "G"+strings.Split(enc, "|")[3]), append(outs, "-")
				}
				if has != ref[enc] {
					oracle = fmt.Sprintf("HasQuad(%s)=%v but the reference set says %v", enc, has, ref[enc])
				}
				b := "0"
				if has {
					b = "1"
				}
				ops, outs = append(ops, "h"+enc), append(outs, b)
				queries++
			case k < 10:
				nm := rr.Intn(4)
				var ms []rdf.QuadMatcher
				var encs []string
				for j := 0; j < nm; j++ {
					pos := rr.Intn(7)
					if j == 0 && rr.Chance(1, 3) {
						pos = 4 // make the single-subject-matcher fast path frequent
					}
					m := c19GenMatcher(rr, obj, 2)
					switch pos {
					case 0:
						ms, encs = append(ms, quads.SubjectMatcher{Matcher: m.m}), append(encs, "qs "+m.enc)
					case 1:
						ms, encs = append(ms, quads.PredicateMatcher{Matcher: m.m}), append(encs, "qp "+m.enc)
					case 2:
						ms, encs = append(ms, quads.ObjectMatcher{Matcher: m.m}), append(encs, "qo "+m.enc)
					case 3:
						ms, encs = append(ms, quads.GraphNameMatcher{Matcher: m.m}), append(encs, "qg "+m.enc)
					case 4:
						ms, encs = append(ms, quads.TripleMatcher{Matcher: triples.SubjectMatcher{Matcher: m.m}}), append(encs, "ts "+m.enc)
					case 5:
						ms, encs = append(ms, quads.TripleMatcher{Matcher: triples.PredicateMatcher{Matcher: m.m}}), append(encs, "tp "+m.enc)
					case 6:
						ms, encs = append(ms, quads.TripleMatcher{Matcher: triples.ObjectMatcher{Matcher: m.m}}), append(encs, "to "+m.enc)
					}
				}
				it, _ := ds.NewQuadIterator(ctx, ms...)
				var got []string
				seen := map[string]bool{}
				for it.Next() {
					q := it.Quad()
					e := quadEncOf(q)
					if seen[e] {
						oracle = "iteration yields a duplicate: " + e
					}
					seen[e] = true
					got = append(got, e)
					if !ref[e] {
						oracle = "iteration yields a quad that is not a member: " + e
					}
					for _, m := range ms {
						if !m.MatchQuad(q) {
							oracle = "iteration yields a quad that a matcher rejects: " + e
						}
					}
				}
				it.Close()
				if nm == 0 && len(got) != len(ref) {
					oracle = fmt.Sprintf("full iteration yields %d quads, the reference set holds %d", len(got), len(ref))
				}
				ops, outs = append(ops, "i"+strings.Join(encs, "&")), append(outs, listOut(got))
				queries++
			default:
				g := hx.Pick(rr, gnames)
				var gn rdf.GraphNameValue
				ge := "-"
				if g != nil {
					gn, ge = g.t.(rdf.GraphNameValue), g.enc
				}
				nm := rr.Intn(3)
				var ms []rdf.TripleMatcher
				var encs []string
				for j := 0; j < nm; j++ {
					m := c19GenMatcher(rr, obj, 2)
					switch rr.Intn(3) {
					case 0:
						ms, encs = append(ms, triples.SubjectMatcher{Matcher: m.m}), append(encs, "ts "+m.enc)
					case 1:
						ms, encs = append(ms, triples.PredicateMatcher{Matcher: m.m}), append(encs, "tp "+m.enc)
					case 2:
						ms, encs = append(ms, triples.ObjectMatcher{Matcher: m.m}), append(encs, "to "+m.enc)
					}
				}
				gr, _ := ds.GetGraph(ctx, gn)
				it, _ := gr.NewTripleIterator(ctx, ms...)
				var got []string
				for it.Next() {
					got = append(got, quadEncOf(rdf.Quad{Triple: it.Triple(), GraphName: gn}))
				}
				it.Close()
				ops, outs = append(ops, "t"+ge+"~"+strings.Join(encs, "&")), append(outs, listOut(got))
				queries++
			}
		}
		// final full iteration against the reference set
		it, _ := ds.NewQuadIterator(ctx)
		var got []string
		for it.Next() {
			got = append(got, quadEncOf(it.Quad()))
		}
		it.Close()
		var want []string
		for e := range ref {
			want = append(want, e)
		}
		if listOut(got) != listOut(want) {
			oracle = fmt.Sprintf("final contents differ from the reference set: got %d quads, want %d", len(got), len(want))
		}
		ops, outs = append(ops, "i"), append(outs, listOut(got))
		out.Emit(hx.Case{Kind: "K/C19/store", Line: "store\t" + strings.Join(ops, ";"), Impl: strings.Join(outs, ";"),
			Class: fmt.Sprintf("ops=%d-%d", nops/20*20, nops/20*20+19), NonTri: muts >= 3 && queries >= 1, Oracle: oracle,
			Desc: strings.Join(ops, " ; ")})
	}
}

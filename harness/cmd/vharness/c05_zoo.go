package main

import (
	"fmt"
	"strings"
	"unicode/utf8"

	"github.com/dpb587/cursorio-go/cursorio"
	"verifharness/hx"
)

func init() {
	families["c05-zoo"] = func(r *hx.Rand, n int, out *hx.Out, a []string) { zooFamily(r, n, out, a, "C05") }
	families["c06-zoo"] = func(r *hx.Rand, n int, out *hx.Out, a []string) { zooFamily(r, n, out, a, "C06") }
}

func zooGenOpts(r *hx.Rand, name string) (zooOpts, string) {
	o := zooOpts{}
	var tags []string
	if r.Bool() {
		o.offsets = true
		tags = append(tags, "offsets")
		if r.Bool() {
			o.init = cursorio.TextOffset{Byte: 100, LineColumn: cursorio.TextLineColumn{7, 3}}
		}
	}
	if r.Bool() {
		o.base = hx.Pick(r, []string{"http://example.org/dir/doc?q", "http://é.example/a/b#f", "urn:x:y", "file:///a/b"})
		tags = append(tags, "base")
	}
	if (name == "rdfjson" || name == "jsonld") && r.Chance(1, 3) {
		o.lax = true
		tags = append(tags, "lax")
	}
	if name == "jsonld" && r.Chance(1, 3) {
		o.mode = hx.Pick(r, []string{"json-ld-1.0", "json-ld-1.1"})
		tags = append(tags, o.mode)
	}
	switch r.Intn(4) {
	case 1:
		o.sizes = []int{1}
		tags = append(tags, "1-byte")
	case 2:
		o.sizes = []int{1 + r.Intn(7), 1 + r.Intn(3), 1 + r.Intn(50)}
		tags = append(tags, "chunks")
	}
	if r.Chance(1, 8) {
		o.fail, o.direct = true, r.Bool()
		tags = append(tags, "io-error")
	}
	return o, strings.Join(tags, ",")
}

// zooFamily runs decoders over seeds, mutations and adversarial documents.
// prop = "C05": totality and iterator protocol; "C06": well-formedness of every statement (also before an error).
func zooFamily(r *hx.Rand, n int, out *hx.Out, _ []string, prop string) {
	for c := 0; c < n; c++ {
		rr := r.Fork()
		name := zooNames[c%len(zooNames)]
		var data []byte
		kind := ""
		exts := decoderSeedExts[name]
		var pool []seedFile
		for _, e := range exts {
			pool = append(pool, seeds(e)...)
		}
		corpusDocs := zooCorpus[name]
		switch k := rr.Intn(10); {
		case c/len(zooNames) < len(corpusDocs):
			data, kind = []byte(corpusDocs[c/len(zooNames)]), "corpus"
		case k < 3 && len(pool) > 0:
			data, kind = hx.Pick(rr, pool).data, "seed"
		case k < 8 && len(pool) > 0:
			data, kind = mutate(rr, hx.Pick(rr, pool).data, mutDictFor(name)), "mutated-seed"
		case k < 9:
			data, kind = adversarial(rr, name), "adversarial"
		default:
			data, kind = mutate(rr, adversarial(rr, name), mutDictFor(name)), "mutated-adversarial"
		}
		if len(data) > 200000 {
			data = data[:200000]
		}
		o, otags := zooGenOpts(rr, name)
		res := zooRun(name, data, o)
		oracle := ""
		sig := ""
		switch res.verdict {
		case "panic":
			oracle = "decoder panicked: " + res.detail
			if o.offsets {
				// known-finding signatures: the panic is tied to offset capture (it disappears with capture off) and is
				// raised by the offset bookkeeping of third-party tokenizers / missing node metadata
				o2 := o
				o2.offsets = false
				if r2 := zooRun(name, data, o2); r2.verdict != "panic" && r2.verdict != "hang" {
					isHTML := name == "htmlrdfa" || name == "htmlmicrodata" || name == "htmljsonld" || name == "htmldefaults"
					switch {
					case strings.Contains(res.detail, "no grapheme cluster found") && !utf8.Valid(data):
						sig = "C05/offsets-invalid-utf8-grapheme-panic"
					case isHTML && strings.Contains(res.detail, "nil pointer dereference"):
						sig = "C05/html-offsets-missing-node-metadata"
					}
				}
			}
		case "hang":
			oracle = "decoder did not finish: " + res.detail
		}
		if res.proto != "" {
			oracle = "iterator protocol: " + res.proto
		}
		if res.verdict == "ok" && o.fail {
			oracle = "the reader failed with an error but the decoder reported a clean end"
		}
		wfBad := ""
		requireAbs := name == "ntriples" || name == "nquads" || ((name == "turtle" || name == "trig") && o.base != "" && reScheme.MatchString(o.base))
		for i, q := range res.quads {
			if w := zooWF(q, requireAbs); w != "" {
				wfBad = fmt.Sprintf("statement %d: %s", i, w)
				break
			}
		}
		if prop == "C06" {
			// totality is C05's business; here only the statements count
			oracle, sig = "", ""
			if wfBad != "" {
				oracle = "ill-formed statement from " + name + ": " + wfBad
			}
		}
		sample := string(data)
		if len(sample) > 300 {
			sample = sample[:300] + "..."
		}
		cs := hx.Case{Kind: "K/" + prop + "/" + name, Impl: fmt.Sprintf("%s stmts=%d", res.verdict, len(res.quads)),
			Class: kind + " " + otags + " -> " + res.verdict, NonTri: len(data) > 20, Oracle: oracle, Sig: sig,
			Desc: fmt.Sprintf("%s [%s] %s: %q", name, otags, kind, sample), In: []string{name, hx.X(string(data))}}
		// model-backed correspondence for the N-Triples family
		if (name == "ntriples" || name == "nquads") && len(data) < 3000 {
			do := nqDecodeOpts{nq: name == "nquads", offsets: o.offsets, init: o.init, sizes: o.sizes, fail: o.fail, direct: o.direct}
			cs.Line = nqDecLine(data, do)
			cs.Impl = nqDecodeImpl(data, do).String()
		}
		out.Emit(cs)
	}
}

package main

import (
	"fmt"
	"strings"
	"unicode/utf8"

	"github.com/dpb587/cursorio-go/cursorio"
	"verifharness/hx"
)

func init() {
	families["c05-zoo"] = func(r *hx.Rand, n int, out *hx.Out, a []string) { zooFamily(r, n, out, a, "C05") }
	families["c06-zoo"] = func(r *hx.Rand, n int, out *hx.Out, a []string) { zooFamily(r, n, out, a, "C06") }
}

// jsonldKeywordDocs: every keyword with every kind of value in every kind of place (context entry, term definition
// entry, node object member, value object member), exhaustively.
func jsonldKeywordDocs() []string {
	var docs []string
	for _, kw := range jldKeywords {
		for _, v := range jldValues {
			docs = append(docs,
				`{"@context":{`+jsonStr(kw)+`:`+v+`},"http://e/p":"x","t":1}`,
				`{"@context":{"t":{"@id":"http://e/t",`+jsonStr(kw)+`:`+v+`}},"@id":"http://e/s","t":{"a":"b","@value":"x"},"http://e/q":[1]}`,
				`{"@id":"http://e/s",`+jsonStr(kw)+`:`+v+`,"http://e/p":"x"}`,
				`{"@id":"http://e/s","http://e/p":{"@value":"x",`+jsonStr(kw)+`:`+v+`},"_:q":{`+jsonStr(kw)+`:`+v+`}}`,
			)
		}
	}
	return docs
}

func zooGenOpts(r *hx.Rand, name string) (zooOpts, string) {
	o := zooOpts{}
	var tags []string
	if r.Bool() {
		o.offsets = true
		tags = append(tags, "offsets")
		if r.Bool() {
			o.init = cursorio.TextOffset{Byte: 100, LineColumn: cursorio.TextLineColumn{7, 3}}
		}
	}
	if r.Bool() {
		o.base = hx.Pick(r, []string{"http://example.org/dir/doc?q", "http://é.example/a/b#f", "urn:x:y", "file:///a/b"})
		tags = append(tags, "base")
	}
	if (name == "rdfjson" || name == "jsonld") && r.Chance(1, 3) {
		o.lax = true
		tags = append(tags, "lax")
	}
	if name == "jsonld" && r.Chance(1, 3) {
		o.mode = hx.Pick(r, []string{"json-ld-1.0", "json-ld-1.1"})
		tags = append(tags, o.mode)
	}
	if name == "htmljsonld" && r.Bool() {
		o.listener = true
		tags = append(tags, "listener")
	}
	switch r.Intn(4) {
	case 1:
		o.sizes = []int{1}
		tags = append(tags, "1-byte")
	case 2:
		o.sizes = []int{1 + r.Intn(7), 1 + r.Intn(3), 1 + r.Intn(50)}
		tags = append(tags, "chunks")
	}
	if r.Chance(1, 8) {
		o.fail, o.direct = true, r.Bool()
		tags = append(tags, "io-error")
	}
	return o, strings.Join(tags, ",")
}

// zooFamily runs decoders over seeds, mutations and adversarial documents.
// prop = "C05": totality and iterator protocol; "C06": well-formedness of every statement (also before an error).
func zooFamily(r *hx.Rand, n int, out *hx.Out, _ []string, prop string) {
	kwDocs := jsonldKeywordDocs()
	for c := 0; c < n+len(kwDocs); c++ {
		rr := r.Fork()
		name := zooNames[c%len(zooNames)]
		if c >= n {
			name = hx.Pick(rr, []string{"jsonld", "jsonld", "jsonld", "htmljsonld"})
		}
		var data []byte
		kind := ""
		exts := decoderSeedExts[name]
		var pool []seedFile
		for _, e := range exts {
			pool = append(pool, seeds(e)...)
		}
		corpusDocs := zooCorpus[name]
		corpusIdx, corpusVariant := c/len(zooNames)/4, c/len(zooNames)%4
		if c >= n {
			corpusIdx = 1 << 30
		}
		switch k := rr.Intn(10); {
		case c >= n:
			data, kind = []byte(kwDocs[c-n]), "jsonld-keyword-exhaustive"
			if name == "htmljsonld" {
				data = []byte("<html><head><script type=\"application/ld+json\">" + kwDocs[c-n] + "</script></head></html>")
			}
		case corpusIdx < len(corpusDocs):
			data, kind = []byte(corpusDocs[corpusIdx]), "corpus"
		case k < 4 && genStructured(rr.Fork(), name) != nil:
			data, kind = genStructured(rr, name), "structured"
			if rr.Chance(1, 4) {
				data, kind = mutate(rr, data, mutDictFor(name)), "mutated-structured"
			}
		case k < 5 && len(pool) > 0:
			data, kind = hx.Pick(rr, pool).data, "seed"
		case k < 8 && len(pool) > 0:
			data, kind = mutate(rr, hx.Pick(rr, pool).data, mutDictFor(name)), "mutated-seed"
		case k < 9:
			data, kind = adversarial(rr, name), "adversarial"
		default:
			data, kind = mutate(rr, adversarial(rr, name), mutDictFor(name)), "mutated-adversarial"
		}
		if len(data) > 200000 {
			data = data[:200000]
		}
		o, otags := zooGenOpts(rr, name)
		if kind == "corpus" { // every corpus document under all four offsets x base combinations
			o = zooOpts{offsets: corpusVariant&1 != 0}
			otags = "corpus-opts"
			if corpusVariant&2 != 0 {
				o.base = "http://example.org/dir/doc?q"
				otags += ",base"
			}
			if o.offsets {
				otags += ",offsets"
			}
		}
		res := zooRun(name, data, o)
		oracle := ""
		sig := ""
		switch res.verdict {
		case "panic":
			oracle = "decoder panicked: " + res.detail
			if o.offsets {
				// known-finding signatures: the panic is tied to offset capture (it disappears with capture off) and is
				// raised by the offset bookkeeping of third-party tokenizers / missing node metadata
				o2 := o
				o2.offsets = false
				if r2 := zooRun(name, data, o2); r2.verdict != "panic" && r2.verdict != "hang" {
					isHTML := name == "htmlrdfa" || name == "htmlmicrodata" || name == "htmljsonld" || name == "htmldefaults"
					switch {
					case strings.Contains(res.detail, "no grapheme cluster found") && !utf8.Valid(data):
						sig = "C05/offsets-invalid-utf8-grapheme-panic"
					case isHTML && strings.Contains(res.detail, "nil pointer dereference"):
						sig = "C05/html-offsets-missing-node-metadata"
					case isHTML && strings.Contains(res.detail, "index out of range") && (len(reBodyTag.FindAll(data, 3)) > 1 || len(reHTMLTag.FindAll(data, 3)) > 1):
						sig = "C05/html-offsets-repeated-body-tag-panic"
					}
				}
			}
		case "hang":
			oracle = "decoder did not finish: " + res.detail
		}
		if res.proto != "" {
			oracle = "iterator protocol: " + res.proto
		}
		if res.verdict == "ok" && o.fail {
			oracle = "the reader failed with an error but the decoder reported a clean end"
		}
		wfBad := ""
		requireAbs := name == "ntriples" || name == "nquads" || ((name == "turtle" || name == "trig") && o.base != "" && reScheme.MatchString(o.base))
		for i, q := range res.quads {
			if w := zooWF(q, requireAbs); w != "" {
				wfBad = fmt.Sprintf("statement %d: %s", i, w)
				break
			}
		}
		if prop == "C06" {
			// totality is C05's business; here only the statements count
			oracle, sig = "", ""
			if wfBad != "" {
				oracle = "ill-formed statement from " + name + ": " + wfBad
			}
		}
		sample := string(data)
		if len(sample) > 300 {
			sample = sample[:300] + "..."
		}
		cs := hx.Case{Kind: "K/" + prop + "/" + name, Impl: fmt.Sprintf("%s stmts=%d", res.verdict, len(res.quads)),
			Class: kind + " " + otags + " -> " + res.verdict, NonTri: len(data) > 20, Oracle: oracle, Sig: sig,
			Desc: fmt.Sprintf("%s [%s] %s: %q", name, otags, kind, sample), In: []string{name, hx.X(string(data))}}
		// model-backed correspondence for the N-Triples family
		if (name == "ntriples" || name == "nquads") && len(data) < 3000 {
			do := nqDecodeOpts{nq: name == "nquads", offsets: o.offsets, init: o.init, sizes: o.sizes, fail: o.fail, direct: o.direct}
			cs.Line = nqDecLine(data, do)
			cs.Impl = nqDecodeImpl(data, do).String()
		}
		out.Emit(cs)
	}
}

package main

import (
	"bytes"
	"context"
	"fmt"
	"strings"

	"github.com/dpb587/rdfkit-go/encoding/turtle"
	"github.com/dpb587/rdfkit-go/iri"
	"github.com/dpb587/rdfkit-go/rdf"
	"verifharness/hx"
)

func init() { families["c02-tokens"] = c02Tokens }

// alphabets that stress each token class
var tokLocalAlpha = []string{"a", "Z", "_", ":", "7", "0", "-", ".", "..", "·", "̀", "‿", "⁀", "é", "日", "×", "÷", "\U0001F600", "%", "%41", "%4", "~", "!", "$", "&", "'", "(", ")", "*", "+", ",", ";", "=", "/", "?", "#", "@", "[", "]", "\\", " ", "\"", "<", ">", "{", "|", "^", "`", "\x7f", "\u0080", ";", " ", "�", "\x00"}
var tokStringAlpha = []string{"a", " ", "\"", "'", "\\", "\n", "\r", "\t", "\b", "\f", "\x00", "\x7f", "\u0080", "é", "￿", "\U00010000", "\U0010ffff", "\"\"", "''", "\\u0041", "\\U0001F600", "\\n", "\\\"", "\\'", "\\x", "\\u00e", "\\UFFFFFFFF", "\\U00110000", "\\ud800", "\"\"\"", "'''", "@", "^", "<", "."}
var tokNumAlpha = []string{"0", "1", "9", "+", "-", ".", "e", "E", "5", "00", "e+", "E-", ".5", "1.", "x", " ", ""}
var tokIRIAlpha = []string{"a", "/", ":", "#", "?", "%41", "é", "\U0001F600", " ", "<", ">", "\"", "{", "}", "|", "^", "`", "\\", "\\u0041", "\\U0001F600", "\\u00e", "\\n", "\x00", "\x1f", "\x20", "\x7f", ".", "..", "//"}

func tokPick(r *hx.Rand, alpha []string, max int) string {
	var sb strings.Builder
	for i, n := 0, r.Intn(max+1); i < n; i++ {
		sb.WriteString(hx.Pick(r, alpha))
	}
	return sb.String()
}

var tokNS = "http://n.example/"

func tokFormatter(ascii bool) interface{ FormatTerm(rdf.Term) string } {
	return turtle.NewTermFormatter(turtle.TermFormatterOptions{ASCII: ascii, Prefixes: iri.NewPrefixManager(iri.PrefixMappingList{{Prefix: "p", Expanded: tokNS}})})
}

func safely(f func() string) (s string) {
	defer func() {
		if p := recover(); p != nil {
			s = fmt.Sprintf("!panic %v", p)
		}
	}()
	return f()
}

// first statement's object through the Turtle decoder (the statement is yielded before what follows it is read)
func tokDecodeObject(doc string) (rdf.Term, bool) {
	res := zooRun("turtle", []byte(doc), zooOpts{})
	if len(res.quads) == 0 || res.verdict == "panic" || res.verdict == "hang" {
		return nil, false
	}
	return res.quads[0].Triple.Object, true
}

func c02Tokens(r *hx.Rand, n int, out *hx.Out, _ []string) {
	const pre = "@prefix p: <" + "http://n.example/" + "> .\n<http://e/s> <http://e/p> "
	for c := 0; c < n; c++ {
		rr := r.Fork()
		switch c % 8 {
		case 0: // format_PN_LOCAL
			l := tokPick(rr, tokLocalAlpha, 4)
			impl := safely(func() string {
				s := tokFormatter(false).FormatTerm(rdf.IRI(tokNS + l))
				if strings.HasPrefix(s, "p:") {
					return "S" + hx.X(s[2:])
				}
				return "N"
			})
			out.Emit(hx.Case{Kind: "K/C02/fmt-local", Line: "ttok\tfl\t" + hx.X(l), Impl: impl, Class: "fmt-local " + impl[:1], NonTri: len(l) > 1, Desc: fmt.Sprintf("format_PN_LOCAL(%q)", l)})
		case 1: // PN_LOCAL lexing: what follows "p:"
			var s string
			if rr.Bool() {
				s = tokPick(rr, tokLocalAlpha, 5)
			} else {
				s = tokPick(rr, []string{"a", "b", ".", ":", "-", "%41", "\\.", "\\-", "\\~", "é", "7", "_", "·", "..", "\\%", "%zz", "\\x"}, 5)
			}
			s += hx.Pick(rr, []string{" .", ".", " ", ". ", ";", ",", ")", "]", "\n.", "#c\n.", ""})
			impl := "E"
			if o, ok := tokDecodeObject(pre + "p:" + s); ok {
				if i, isIRI := o.(rdf.IRI); isIRI && strings.HasPrefix(string(i), tokNS) {
					impl = "S" + hx.X(string(i)[len(tokNS):])
				}
			}
			out.Emit(hx.Case{Kind: "K/C02/lex-local", Line: "ttok\tll\t" + hx.X(s), Impl: impl, Class: "lex-local " + impl[:1], NonTri: len(s) > 2, Desc: fmt.Sprintf("p:%q as an object", s)})
		case 2: // formatLiteralLexicalForm
			ascii := rr.Bool()
			s := strings.ToValidUTF8(tokPick(rr, tokStringAlpha, 5), "�")
			impl := safely(func() string {
				return hx.X(tokFormatter(ascii).FormatTerm(rdf.Literal{Datatype: rdf.IRI(xsdNS + "string"), LexicalForm: s}))
			})
			fl := "0"
			if ascii {
				fl = "1"
			}
			out.Emit(hx.Case{Kind: "K/C02/fmt-string", Line: "ttok\tfs\t" + fl + "\t" + hx.X(s), Impl: impl, Class: "fmt-string ascii=" + fl, NonTri: len(s) > 1, Desc: fmt.Sprintf("formatLiteralLexicalForm(%q, %v)", s, ascii)})
		case 3: // produceString
			q := hx.Pick(rr, []string{"\"", "'", "\"\"\"", "'''"})
			body := tokPick(rr, tokStringAlpha, 5)
			s := q + body
			if rr.Chance(4, 5) {
				s += q
			}
			s += hx.Pick(rr, []string{" .", ".", "@en .", "^^<http://e/d> .", " ", "\" .", "' ."})
			s = strings.ToValidUTF8(s, "�")
			impl := "E"
			if o, ok := tokDecodeObject("<http://e/s> <http://e/p> " + s); ok {
				if l, isLit := o.(rdf.Literal); isLit {
					impl = "S" + hx.X(l.LexicalForm)
				}
			}
			out.Emit(hx.Case{Kind: "K/C02/lex-string", Line: "ttok\tls\t" + hx.X(s), Impl: impl, Class: "lex-string " + q + " " + impl[:1], NonTri: len(body) > 1, Desc: fmt.Sprintf("%q as an object", s)})
		case 4: // literalShorthandDatatype, through the encoder
			s := tokPick(rr, tokNumAlpha, 5)
			if rr.Chance(1, 8) {
				s = hx.Pick(rr, []string{"true", "false", "1", "0", "INF", "NaN", "+1.", "1.0", "5", ".5e1"})
			}
			impl := "N"
			for _, dk := range [][2]string{{"integer", "I"}, {"decimal", "D"}, {"double", "B"}} {
				var buf bytes.Buffer
				e, err := turtle.NewEncoder(&buf)
				if err != nil {
					continue
				}
				e.AddTriple(context.Background(), rdf.Triple{Subject: rdf.IRI("http://e/s"), Predicate: rdf.IRI("http://e/p"), Object: rdf.Literal{Datatype: rdf.IRI(xsdNS + dk[0]), LexicalForm: s}})
				e.Close()
				if buf.String() == "<http://e/s> <http://e/p> "+s+" .\n" {
					impl = dk[1]
				}
			}
			if s == "true" || s == "false" {
				impl = "N" // booleans are not numeric kinds; their shorthand is checked by the round-trip family
			}
			out.Emit(hx.Case{Kind: "K/C02/shorthand", Line: "ttok\tsk\t" + hx.X(s), Impl: impl, Class: "shorthand " + impl, NonTri: len(s) > 1, Desc: fmt.Sprintf("bare token for %q", s)})
		case 5: // produceNumericLiteral
			s := hx.Pick(rr, []string{"", "", "+", "-", "."}) + tokPick(rr, tokNumAlpha, 5)
			tail := hx.Pick(rr, []string{" .", ".", " ", ";", ",", ")", ". ", ""})
			impl := "E"
			if len(s) > 0 && strings.ContainsAny(s[:1], "+-.0123456789") {
				if o, ok := tokDecodeObject("<http://e/s> <http://e/p> " + s + tail); ok {
					if l, isLit := o.(rdf.Literal); isLit {
						switch string(l.Datatype) {
						case xsdNS + "integer":
							impl = "I" + hx.X(l.LexicalForm)
						case xsdNS + "decimal":
							impl = "D" + hx.X(l.LexicalForm)
						case xsdNS + "double":
							impl = "B" + hx.X(l.LexicalForm)
						}
					}
				}
				out.Emit(hx.Case{Kind: "K/C02/lex-numeric", Line: "ttok\tln\t" + hx.X(s+tail), Impl: impl, Class: "lex-numeric " + impl[:1], NonTri: len(s) > 1, Desc: fmt.Sprintf("%q as an object", s+tail)})
			}
		case 6: // formatIRI
			ascii := rr.Bool()
			s := strings.ToValidUTF8("http://e/"+tokPick(rr, tokIRIAlpha, 5), "�")
			impl := safely(func() string {
				t := turtle.NewTermFormatter(turtle.TermFormatterOptions{ASCII: ascii, Prefixes: iri.NewPrefixManager(nil)}).FormatTerm(rdf.IRI(s))
				return hx.X(strings.TrimSuffix(strings.TrimPrefix(t, "<"), ">"))
			})
			fl := "0"
			if ascii {
				fl = "1"
			}
			out.Emit(hx.Case{Kind: "K/C02/fmt-iri", Line: "ttok\tfi\t" + fl + "\t" + hx.X(s), Impl: impl, Class: "fmt-iri ascii=" + fl, NonTri: len(s) > 10, Desc: fmt.Sprintf("formatIRI(%q, %v)", s, ascii)})
		case 7: // produceIRIREF
			body := "http://e/" + tokPick(rr, tokIRIAlpha, 5)
			s := body
			if rr.Chance(5, 6) {
				s += ">"
			}
			s += hx.Pick(rr, []string{" .", ".", "", " "})
			s = strings.ToValidUTF8(s, "�")
			impl := "E"
			if o, ok := tokDecodeObject("<http://e/s> <http://e/p> <" + s); ok {
				if i, isIRI := o.(rdf.IRI); isIRI {
					impl = "S" + hx.X(string(i))
				}
			}
			out.Emit(hx.Case{Kind: "K/C02/lex-iriref", Line: "ttok\tli\t" + hx.X(s), Impl: impl, Class: "lex-iriref " + impl[:1], NonTri: len(body) > 10, Desc: fmt.Sprintf("<%q as an object", s)})
		}
	}
}

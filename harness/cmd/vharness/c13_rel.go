package main

import (
	"fmt"
	"strings"
	"unicode/utf8"

	"github.com/dpb587/rdfkit-go/iri"
	"github.com/dpb587/rdfkit-go/iri/curie"
	"verifharness/hx"
)

func init() {
	families["c13-relativize"] = c13Relativize
	families["c13-curie"] = c13Curie
}

func c13RelImpl(base, v string) (res string, oracle string) {
	defer func() {
		if p := recover(); p != nil {
			res = "!panic"
			oracle = fmt.Sprintf("RelativizeIRI panicked: %v", p)
		}
	}()
	b, err := iri.ParseBaseIRI(base)
	if err != nil {
		return "!base", ""
	}
	rel, ok := b.RelativizeIRI(v)
	if !ok {
		return "-", ""
	}
	back, err := b.Parse(rel)
	if err != nil {
		return hx.X(rel), fmt.Sprintf("RelativizeIRI(%q)=%q does not parse: %v", v, rel, err)
	}
	if back.String() != v {
		return hx.X(rel), fmt.Sprintf("RelativizeIRI(%q)=%q resolves to %q", v, rel, back.String())
	}
	return hx.X(rel), ""
}

var c13RelCorpus = [][2]string{
	{"http://a/b/c", "http://a/b/"}, {"http://a/b/c", "http://a/b/c?x"}, {"http://a/b/c?q", "http://a/b/d?x"},
	{"http://a/b/c", "http://a/b/x:y"}, {"http://a/b/c", "http://a/b//d"}, {"http://a/b/c", "http://a/b/../d"},
	{"http://a/b/c", "http://a/b/./d"}, {"http://a/b/c", "http://a/b/c"}, {"http://a/b/c", "http://a/b/c#f"},
	{"http://a/b/c", "http://a/"}, {"http://a/b/c", "http://a"}, {"http://a", "http://a/b"}, {"http://a", "http://a#f"},
	{"http://a/b/c#f", "http://a/b/c#g"}, {"http://a/b/c?q#f", "http://a/b/c#f"}, {"http://a/b/c?q", "http://a/b/c"},
	{"http://a/b/c", "http://ab/c"}, {"http://a/b/c", "https://a/b/c"}, {"urn:a:b", "urn:a:c"}, {"urn:a:b", "urn:a:b#f"},
	{"http://a/b/", "http://a/b/"}, {"http://a/b/", "http://a/b"}, {"http://a/b/c", "http://a/b/c/d"}, {"http://a/b/c", "http://a/b/cd"},
	{"http://a/b", "xhttp://a/b#f"}, {"http://a/b", "zzzzzzzzzz#f"}, {"file:///a/b", "file:///a/c"}, {"http://a/b/c", "http://a//x"},
}

func c13Relativize(r *hx.Rand, n int, out *hx.Out, _ []string) {
	emit := func(base, v, cls string) {
		impl, oracle := c13RelImpl(base, v)
		line := "rel\t" + hx.X(base) + "\t" + hx.X(v)
		if impl == "!base" {
			// the base is rejected by net/url (C12 known finding F25, pct-encoded host): no BaseIRI exists to relativize against
			line, cls = "", "base-rejected-by-net/url"
		} else if _, err := iri.ParseIRI(v); err != nil {
			// not an IRI for net/url (invalid escape, or F25): RelativizeIRI can only answer "no"
			line, cls = "", "iri-rejected-by-net/url"
			if impl != "-" {
				oracle = "RelativizeIRI offered a spelling for a string ParseIRI rejects"
			}
		}
		out.Emit(hx.Case{
			Kind: "K/C13/relativize", Line: line, Impl: impl,
			Class: cls, NonTri: impl != "-" && impl != "!base" && v != base, Oracle: oracle,
			In: []string{base, v}, Desc: fmt.Sprintf("base=%q iri=%q -> %s", base, v, impl),
		})
	}
	for _, c := range c13RelCorpus {
		emit(c[0], c[1], "corpus")
	}
	for i := 0; i < n; i++ {
		rr := r.Fork()
		base, _ := c12GenF(rr, true, rr.Chance(1, 4))
		var v, cls string
		switch rr.Intn(10) {
		case 0, 1, 2: // resolve a random reference against the base: an IRI that does have a relative spelling
			ref, _ := c12Gen(rr, false)
			if b, err := iri.ParseIRI(base); err == nil {
				if res, err := b.Parse(ref); err == nil {
					v, cls = res.String(), "resolved-ref"
					break
				}
			}
			v, cls = base, "same"
		case 3: // neighbour: edit the base
			v = base
			switch rr.Intn(5) {
			case 0:
				v += hx.Pick(rr, []string{"#f", "?q", "/x", "x", "/", "#", "?"})
			case 1:
				if len(v) > 0 {
					v = v[:len(v)-1]
				}
			case 2:
				if i := strings.LastIndex(v, "/"); i > 8 {
					v = v[:i+1]
				}
			case 3:
				if i := strings.IndexAny(v, "?#"); i >= 0 {
					v = v[:i] + hx.Pick(rr, []string{"?x", "#y", "", "/z"})
				}
			case 4:
				if i := strings.LastIndex(v, "/"); i > 8 {
					v = v[:i+1] + hx.Pick(rr, []string{"a:b", "..", ".", "/d", "../d", "?", "x?y#z", "%2F"})
				}
			}
			cls = "neighbour"
		case 4: // same authority, other path
			if b, err := iri.ParseIRI(base); err == nil {
				if res, err := b.Parse("/"); err == nil {
					nseg := rr.Intn(4)
					var segs []string
					for j := 0; j < nseg; j++ {
						segs = append(segs, hx.Pick(rr, c12Segs))
					}
					v, cls = res.String()+strings.Join(segs, "/"), "same-root"
					break
				}
			}
			v, cls = base, "same"
		default:
			v, _ = c12Gen(rr, true)
			cls = "unrelated"
		}
		if !validPct(v) || !utf8.ValidString(v) { // a cut inside an escape or a UTF-8 sequence is not an IRI
			v, cls = base, "same"
		}
		emit(base, v, cls)
	}
}

func validPct(s string) bool {
	for i := 0; i < len(s); i++ {
		if s[i] == '%' {
			if i+2 >= len(s)+0 && i+2 > len(s)-1 {
				return false
			}
			for _, c := range s[i+1 : i+3] {
				if !strings.ContainsRune("0123456789abcdefABCDEF", c) {
					return false
				}
			}
		}
	}
	return true
}

var c13CurieDefaults = []string{"", "", "a", "ex"}

func c13Curie(r *hx.Rand, n int, out *hx.Out, _ []string) {
	for i := 0; i < n; i++ {
		rr := r.Fork()
		if rr.Chance(1, 5) { // ParseCURIE on arbitrary strings
			parts := []string{"[", "]", ":", "a", "ex", "x/y", "", "é", " ", "::"}
			var sb strings.Builder
			for j, k := 0, rr.Intn(6); j < k; j++ {
				sb.WriteString(hx.Pick(rr, parts))
			}
			v := sb.String()
			c, ok := curie.ParseCURIE(v)
			impl := "-"
			if ok {
				impl = c13CurieOut(c)
			}
			out.Emit(hx.Case{Kind: "K/C13/parse-curie", Line: "pcur\t" + hx.X(v), Impl: impl, Class: "parse", NonTri: len(v) > 1,
				In: []string{v}, Desc: fmt.Sprintf("ParseCURIE(%q)", v)})
			continue
		}
		var ms []iri.PrefixMapping
		var enc []string
		for j, k := 0, rr.Intn(5); j < k; j++ {
			m := iri.PrefixMapping{Prefix: hx.Pick(rr, c13Prefixes), Expanded: hx.Pick(rr, c13Namespaces)}
			dup := false
			for _, x := range ms { // which prefix wins among equal namespaces is unspecified (unstable sort): keep namespaces distinct
				dup = dup || x.Expanded == m.Expanded
			}
			if dup {
				continue
			}
			ms = append(ms, m)
			enc = append(enc, hx.X(m.Prefix)+"="+hx.X(m.Expanded))
		}
		sc := curie.MappingScope{Safe: rr.Bool(), DefaultPrefix: hx.Pick(rr, c13CurieDefaults), DefaultPrefixEmpty: rr.Bool(), Prefixes: iri.NewPrefixManager(ms)}
		v := hx.Pick(rr, c13Namespaces) + hx.Pick(rr, c13Tails)
		c := sc.CompactCURIE(v)
		ex, ok := sc.ExpandCURIE(c)
		impl := c13CurieOutNoPrefix(c) + "|"
		oracle, sig := "", ""
		if ok {
			impl += hx.X(ex)
			if ex != v {
				oracle = fmt.Sprintf("ExpandCURIE(CompactCURIE(%q)=%+v) = %q", v, c, ex)
				// F27 signature: no namespace of the scope is a prefix of v, and the empty prefix is mapped
				_, matched := sc.Prefixes.CompactPrefix(v)
				_, emptyMapped := sc.Prefixes.ExpandPrefix(iri.PrefixReference{})
				if !matched && emptyMapped && c.Prefix == "" && !c.DefaultPrefix && c.Reference == v {
					sig = "C13/curie-nomatch-empty-prefix"
				}
			}
		} else {
			impl += "-"
		}
		b := func(x bool) string {
			if x {
				return "1"
			}
			return "0"
		}
		out.Emit(hx.Case{Kind: "K/C13/curie",
			Line: "cur\t" + b(sc.Safe) + "\t" + hx.X(sc.DefaultPrefix) + "\t" + b(sc.DefaultPrefixEmpty) + "\t" + strings.Join(enc, ",") + "\t" + hx.X(v),
			Impl: impl, Class: fmt.Sprintf("maps=%d", len(ms)), NonTri: len(ms) > 0, Oracle: oracle, Sig: sig,
			In: []string{v}, Desc: fmt.Sprintf("scope=%+v mappings=%v iri=%q", sc, ms, v)})
	}
}

func c13CurieOut(c curie.CURIE) string {
	b := func(x bool) string {
		if x {
			return "1"
		}
		return "0"
	}
	return b(c.Safe) + "," + b(c.DefaultPrefix) + "," + hx.X(c.Prefix) + "," + hx.X(c.Reference)
}

// the prefix chosen among duplicate namespaces is unspecified (unstable sort): project it away unless default
func c13CurieOutNoPrefix(c curie.CURIE) string {
	b := func(x bool) string {
		if x {
			return "1"
		}
		return "0"
	}
	return b(c.Safe) + "," + b(c.DefaultPrefix) + "," + hx.X(c.Reference)
}

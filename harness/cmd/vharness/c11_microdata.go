package main

// c11_microdata.go — C11, Microdata: element trees with itemscope / itemid / itemtype / itemprop / itemref on the
// elements whose value rules differ (meta, img, a, link, object, data, audio, plain elements), nested items, items
// referenced from several items and before / after their definition; the decoder's triples are compared, up to blank
// node renaming, with the Coq model (model/Microdata.v).

import (
	"fmt"
	"sort"
	"strings"

	"verifharness/hx"
)

func init() { families["c11-microdata"] = c11Microdata }

type c11MD struct {
	r        *hx.Rand
	feat     map[string]int
	nid      int
	inTarget string
}

func (g *c11MD) use(f string) { g.feat[f]++ }

var c11MDTypes = []string{"http://schema.org/Person", "http://schema.org/Thing", "http://example.org/vocab/T", "http://example.org/vocab/deep/U"}
var c11MDAbs = []string{"http://schema.org/name", "http://example.org/vocab/p", "http://other.example/v#q", "urn:x:p"}
var c11MDNames = []string{"name", "knows", "url", "image", "a-b"}

func (g *c11MD) itemprop(typed bool) string {
	r := g.r
	n := 1
	if r.Chance(1, 4) {
		n = 2
	}
	var ps []string
	for i := 0; i < n; i++ {
		if typed && r.Bool() {
			ps = append(ps, hx.Pick(r, c11MDNames))
			g.use("short-name")
		} else {
			ps = append(ps, hx.Pick(r, c11MDAbs))
		}
	}
	if r.Chance(1, 8) {
		ps = append(ps, ps[0]) // a repeated name counts once
		g.use("repeated-name")
	}
	return strings.Join(ps, hx.Pick(r, []string{" ", "  ", "\n"}))
}

// element: typed says whether short property names are resolvable for the item the element belongs to; inItem whether
// there is such an item at all.
func (g *c11MD) element(depth int, inItem, typed bool, refTarget bool) *xn {
	r := g.r
	name := hx.Pick(r, []string{"div", "span", "div", "span", "a", "img", "meta", "link", "data", "object", "audio", "section", "area", "video", "embed", "source", "track"})
	void := name == "img" || name == "meta" || name == "link" || name == "area" || name == "embed" || name == "source" || name == "track"
	n := &xn{name: name}
	set := func(k, v string) { n.attrs = append(n.attrs, [2]string{k, v}) }
	switch name {
	case "a", "link", "area":
		if r.Chance(5, 6) {
			set("href", hx.Pick(r, []string{"http://example.org/abs", "rel", "#frag", "", "../up", "http://other.example/é"}))
		}
	case "img", "audio", "video", "embed", "source", "track":
		if r.Chance(5, 6) {
			set("src", hx.Pick(r, []string{"http://example.org/img.png", "pic.png", "/root.png"}))
		}
	case "meta":
		if r.Chance(5, 6) {
			set("content", hx.Pick(r, c11Texts))
		}
	case "data":
		if r.Chance(5, 6) {
			set("value", hx.Pick(r, []string{"42", "x y", ""}))
		}
	case "object":
		if r.Chance(5, 6) {
			set("data", hx.Pick(r, []string{"movie.swf", "http://example.org/o"}))
		}
	}
	if k := hx.Pick(r, []string{"class", "title", "content", "lang"}); r.Chance(1, 8) && !(k == "content" && name == "meta") {
		set(k, hx.Pick(r, []string{"c1", "x y", "en"}))
	}
	isItem := !void && name != "data" && name != "object" && name != "audio" && name != "video" && r.Chance(1, 3)
	if (inItem || refTarget) && r.Chance(3, 5) {
		if refTarget && !inItem {
			// reached through itemref from items with and without a type: absolute names only
			set("itemprop", g.itemprop(false))
		} else {
			set("itemprop", g.itemprop(typed))
		}
		g.use("itemprop-on-" + map[bool]string{true: "item", false: name}[isItem])
	} else if !inItem && r.Chance(1, 10) {
		set("itemprop", hx.Pick(r, c11MDAbs))
		g.use("itemprop-outside-item")
	}
	childTyped, childIn := typed, inItem
	if isItem {
		g.nid++
		set("itemscope", hx.Pick(r, []string{"", "itemscope"}))
		set("data-n", fmt.Sprint(g.nid))
		childIn, childTyped = true, false
		if r.Chance(2, 3) {
			ts := []string{hx.Pick(r, c11MDTypes)}
			if r.Chance(1, 4) {
				ts = append(ts, hx.Pick(r, c11MDTypes))
			}
			set("itemtype", strings.Join(ts, " "))
			childTyped = true
			g.use("itemtype")
		}
		if r.Chance(1, 3) {
			set("itemid", hx.Pick(r, []string{"http://example.org/id/1", "#me", "item2", "urn:x:item"}))
			g.use("itemid")
		}
		if r.Chance(1, 3) && g.inTarget == "" {
			set("itemref", hx.Pick(r, []string{"r1", "r2", "r1 r2", "r2 missing r1", "r3", "r2 r1"}))
			g.use("itemref")
		} else if g.inTarget == "r2" && r.Chance(1, 2) {
			// an item inside the element r2 refers on to r1, whose content refers nowhere (reference cycles are
			// microdata errors)
			set("itemref", "r1")
			g.use("itemref-inside-referenced-element")
		}
	}
	if void {
		return n
	}
	if depth >= 4 {
		if r.Chance(2, 3) {
			n.kids = append(n.kids, &xn{isText: true, text: hx.Pick(r, c11Texts)})
		}
		return n
	}
	lastText := false
	for i, k := 0, r.Intn(4); i < k; i++ {
		if r.Chance(1, 3) && !lastText {
			n.kids = append(n.kids, &xn{isText: true, text: hx.Pick(r, c11Texts)})
			lastText = true
			continue
		}
		lastText = false
		c := g.element(depth+1, childIn, childTyped, refTarget && !isItem)
		if name == "a" && containsA(c) {
			continue
		}
		n.kids = append(n.kids, c)
	}
	return n
}

func containsA(n *xn) bool {
	if n.name == "a" {
		return true
	}
	for _, k := range n.kids {
		if containsA(k) {
			return true
		}
	}
	return false
}

func c11Microdata(r *hx.Rand, n int, out *hx.Out, _ []string) {
	for c := 0; c < n; c++ {
		rr := r.Fork()
		g := &c11MD{r: rr, feat: map[string]int{}}
		html := &xn{name: "html"}
		head := &xn{name: "head", kids: []*xn{{name: "title", kids: []*xn{{isText: true, text: "T"}}}}}
		if rr.Chance(1, 6) {
			head.kids = append(head.kids, &xn{name: "base", attrs: [][2]string{{"href", hx.Pick(rr, []string{"http://base.example/b/", "other/"})}}})
			g.use("base-element")
		}
		body := &xn{name: "body"}
		// the elements itemref points at stand outside every item, before or after the items
		target := func(id string) *xn {
			g.inTarget = id
			t := g.element(2, false, false, true)
			g.inTarget = ""
			t.attrs = append(t.attrs, [2]string{"id", id})
			return t
		}
		if rr.Bool() {
			body.kids = append(body.kids, target("r1"))
		}
		for i, k := 0, 1+rr.Intn(3); i < k; i++ {
			body.kids = append(body.kids, g.element(0, false, false, false))
		}
		if rr.Bool() {
			body.kids = append(body.kids, target("r2"))
		}
		if rr.Chance(1, 4) {
			body.kids = append(body.kids, target("r1")) // a second element with the same id: the first one counts
			g.use("duplicate-id")
		}
		html.kids = []*xn{head, body}
		doc := c11HTMLText(rr, html)
		var tk strings.Builder
		html.tokens(&tk)
		base := c11Location
		for _, k := range head.kids {
			if k.name == "base" {
				base = c10Resolve(c11Location, k.attrs[0][1])
			}
		}
		res := zooRun("htmlmicrodata", []byte(doc), zooOpts{base: c11Location, itemtypeVocab: true})
		impl, oracle := "!doc", ""
		switch res.verdict {
		case "ok":
			nm := hx.NewNamer()
			var sts []string
			for _, q := range res.quads {
				sts = append(sts, c09Term(q.Triple.Subject, nm)+" "+c09Term(q.Triple.Predicate, nm)+" "+c09Term(q.Triple.Object, nm))
			}
			impl = strings.Join(sts, ";")
		case "error":
			oracle = "the Microdata decoder rejects an HTML document: " + res.detail
		default:
			oracle = res.verdict + ": " + res.detail
		}
		var fs []string
		for k := range g.feat {
			fs = append(fs, k)
		}
		sort.Strings(fs)
		cls := strings.Join(fs, "+")
		if len(fs) > 4 {
			cls = fmt.Sprintf("rich(%d forms)", len(fs))
		}
		out.Emit(hx.Case{Kind: "K/C11/microdata/iso", Line: "mdata\t" + hx.X(base) + "\t" + strings.TrimSuffix(tk.String(), ","), Impl: impl, Class: cls, NonTri: len(res.quads) >= 2, Oracle: oracle, Spec: true,
			Desc: fmt.Sprintf("location=%q forms=%v document: %s", c11Location, fs, doc)})
	}
}

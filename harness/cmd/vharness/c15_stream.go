package main

import (
	"fmt"
	"strings"

	"github.com/dpb587/cursorio-go/x/cursorioutil"

	"verifharness/hx"
)

func init() { families["c15-stream"] = c15Stream }

// documents for the streaming formats: encoder output decorated with comments, blank lines, CRLF and tabs
func c15GenNQDoc(r *hx.Rand, nq bool) []byte {
	qs := nqGenDataset(r, nq, 4)
	if !nq {
		for i := range qs {
			qs[i].GraphName = nil
		}
	}
	doc, err := nqEncodeImpl(qs, nqEncOpts{nq: nq, ascii: r.Bool()})
	if err != nil {
		return []byte("<http://e/s> <http://e/p> <http://e/o> .\n")
	}
	lines := strings.Split(strings.TrimSuffix(string(doc), "\n"), "\n")
	var sb strings.Builder
	for i, ln := range lines {
		if ln == "" {
			continue
		}
		if r.Chance(1, 4) {
			sb.WriteString(hx.Pick(r, []string{"# comment é\n", "\n", "  \t\n", "#\r\n", "# <http://e/x> \"\n"}))
		}
		ln = strings.TrimSuffix(ln, " .")
		if r.Chance(1, 3) { // spellings the encoder never chooses: the remaining ECHAR, UCHAR for ordinary characters
			ln = strings.ReplaceAll(ln, "'", "\\'")
			// one ASCII letter inside an IRIREF or a string literal (not in a blank node label, a language tag or an escape)
			var cand []int
			inIRI, inStr := false, false
			for i := 0; i < len(ln); i++ {
				switch c := ln[i]; {
				case c == '\\' && (inIRI || inStr):
					if i+1 < len(ln) && (ln[i+1] == 'u' || ln[i+1] == 'U') {
						i += map[byte]int{'u': 5, 'U': 9}[ln[i+1]]
					} else {
						i++
					}
				case c == '<' && !inStr:
					inIRI = true
				case c == '>' && inIRI:
					inIRI = false
				case c == '"' && !inIRI:
					inStr = !inStr
				case (inIRI || inStr) && (c >= 'a' && c <= 'z' || c >= 'A' && c <= 'Z'):
					cand = append(cand, i)
				}
			}
			if len(cand) > 0 && r.Bool() {
				i := hx.Pick(r, cand)
				ln = ln[:i] + fmt.Sprintf(hx.Pick(r, []string{"\\u%04x", "\\u%04X", "\\U%08x"}), ln[i]) + ln[i+1:]
			}
		}
		ln = strings.Replace(ln, " ", hx.Pick(r, []string{" ", "\t", "  ", ""}), 1) // the subject needs no white space after it
		sb.WriteString(ln + hx.Pick(r, []string{" .", ".", " . # trailing", "\t.", " # before the dot\n.", "#c\r\n .", "# cr ends a comment\r."}))
		if i < len(lines)-1 || r.Chance(2, 3) {
			sb.WriteString(hx.Pick(r, []string{"\n", "\n", "\r\n", "\n\n", "\r", "\r\r\n"}))
		}
	}
	return []byte(sb.String())
}

// preamble (all directives) of the last generated Turtle/TriG document
var c15LastPreamble string

func c15Doc(r *hx.Rand, name string) ([]byte, string) {
	switch name {
	case "ntriples", "nquads":
		if r.Chance(3, 4) {
			return c15GenNQDoc(r, name == "nquads"), "generated"
		}
	}
	switch name {
	case "turtle", "trig":
		if r.Chance(1, 3) {
			base := ""
			if r.Bool() {
				base = "http://example.org/dir/doc"
			}
			d, _, _, pre := genTurtleDocPre(r, name == "trig", base, 4, true)
			if base != "" { // the caller may decode without a base: make the document self-contained
				d, pre = "@base <"+base+"> .\n"+d, "@base <"+base+"> .\n"+pre
			}
			c15LastPreamble = pre
			return []byte(d), "generated"
		}
	default:
		if r.Chance(1, 3) {
			return genStructured(r, name), "structured"
		}
	}
	var pool []seedFile
	for _, e := range decoderSeedExts[name] {
		for _, s := range seeds(e) {
			if len(s.data) < 1500 && !strings.Contains(s.path, "bad") && !strings.Contains(s.path, "error") {
				pool = append(pool, s)
			}
		}
	}
	if docs := zooCorpus[name]; len(docs) > 0 && (len(pool) == 0 || r.Chance(1, 4)) {
		return []byte(hx.Pick(r, docs)), "corpus"
	}
	if len(pool) == 0 {
		return []byte{}, "empty"
	}
	return hx.Pick(r, pool).data, "seed"
}

func isStreaming(name string) bool {
	return name == "ntriples" || name == "nquads" || name == "turtle" || name == "trig"
}

var c15Appendix = map[string]string{
	"ntriples": "\n<http://zz.example/s> <http://zz.example/p> <http://zz.example/o> .\n",
	"nquads":   "\n<http://zz.example/s> <http://zz.example/p> <http://zz.example/o> .\n",
	"turtle":   "\n<http://zz.example/s> <http://zz.example/p> <http://zz.example/o> .\n",
	"trig":     "\n<http://zz.example/s> <http://zz.example/p> <http://zz.example/o> .\n",
}

func stmtLines(res zooResult) []string {
	var out []string
	for _, q := range zooQuadsQ(res.quads) {
		out = append(out, q.String())
	}
	return out
}

// isPrefixOf: a is a prefix of b, except that (dropLast) the statements stemming from the token that was cut may
// differ: the cut token can end a term early ("+0." of "+0.0") and the rune after it can already have been taken as
// the start of the next production (a list link), so the last two positions are exempt.
func isPrefixOf(a, b []string, dropLast bool) bool {
	for i := range a {
		if dropLast && i >= len(a)-2 {
			continue
		}
		if i >= len(b) || a[i] != b[i] {
			return false
		}
	}
	return true
}

// c15Same: same verdict and the same statements; in order for the streaming formats, as a dataset (up to blank node
// renaming) for the whole-document formats, whose statement order follows Go map iteration in places.
func c15Same(name string, a, b zooResult) bool {
	if a.verdict != b.verdict || len(a.quads) != len(b.quads) {
		return false
	}
	if strings.Join(stmtLines(a), "\n") == strings.Join(stmtLines(b), "\n") {
		return true
	}
	if isStreaming(name) {
		return false
	}
	return hx.IsoWhy(zooQuadsQ(a.quads), zooQuadsQ(b.quads)) == ""
}

func c15Stream(r *hx.Rand, n int, out *hx.Out, _ []string) {
	for c := 0; c < n; c++ {
		rr := r.Fork()
		name := zooNames[c%len(zooNames)]
		if c%2 == 0 { // half of the budget on the streaming formats
			name = zooNames[(c/2)%4]
		}
		doc, kind := c15Doc(rr, name)
		base := zooOpts{}
		if rr.Bool() && name != "ntriples" && name != "nquads" {
			base.base = "http://example.org/dir/doc"
		}
		full := zooRun(name, doc, base)
		fullLines := stmtLines(full)
		oracle := ""
		// (1) chunking independence and determinism
		variants := [][]int{{1}, {2}, {3, 1}, {1 + rr.Intn(9), 1 + rr.Intn(5)}, {4095, 1, 4096, 2}}
		for _, sizes := range variants {
			o := base
			o.sizes = sizes
			o.direct = rr.Bool()
			res := zooRun(name, doc, o)
			if !c15Same(name, full, res) {
				oracle = fmt.Sprintf("read chunk sizes %v change the result: %s with %d statements, whole input gives %s with %d", sizes, res.verdict, len(res.quads), full.verdict, len(full.quads))
			}
		}
		if again := zooRun(name, doc, base); !c15Same(name, full, again) {
			oracle = "decoding the same bytes twice gives different results"
		}
		cuts := 0
		if isStreaming(name) && full.verdict == "ok" {
			// (2) every cut point (sampled beyond 400 bytes)
			step := 1
			if len(doc) > 400 {
				step = len(doc)/300 + 1
			}
			for i := 0; i < len(doc); i += step {
				p := doc[:i]
				cuts++
				for _, fail := range []bool{false, true} {
					o := base
					o.fail = fail
					if fail {
						o.sizes = []int{7}
					}
					res := zooRun(name, p, o)
					lines := stmtLines(res)
					switch {
					case res.verdict == "panic" || res.verdict == "hang":
						oracle = fmt.Sprintf("cut at %d: %s %s", i, res.verdict, res.detail)
					case fail && res.verdict == "ok":
						oracle = fmt.Sprintf("cut at %d with a failing reader: the decoder reports a clean end", i)
					case res.verdict == "ok":
						// a clean end is only right where a document may end: then a further statement can follow
						// (the prefix may be a complete document of its own whose last token reads differently: "<s> <p> 1." of "1.e5")
						if !isPrefixOf(lines, fullLines, true) {
							oracle = fmt.Sprintf("cut at %d: clean end, but the %d statements are not a prefix of the document's", i, len(lines))
						}
						ext := zooRun(name, append(append([]byte{}, p...), c15Appendix[name]...), base)
						if ext.verdict == "ok" && len(ext.quads) == len(res.quads)+1 && ext.quads[len(ext.quads)-1].GraphName != nil {
							oracle = fmt.Sprintf("cut at %d: the decoder reports a clean end inside a graph block (an appended statement lands in graph %v)", i, ext.quads[len(ext.quads)-1].GraphName)
						}
						if ext.verdict != "ok" || len(ext.quads) != len(res.quads)+1 {
							oracle = fmt.Sprintf("cut at %d: the decoder reports a clean end inside a statement (appending a statement gives %s with %d statements, expected %d)", i, ext.verdict, len(ext.quads), len(res.quads)+1)
						}
					default:
						if !isPrefixOf(lines, fullLines, true) {
							oracle = fmt.Sprintf("cut at %d: statements before the error are not statements of the complete document", i)
						}
					}
				}
			}
		} else if !isStreaming(name) {
			// whole-document formats: reader errors must surface
			o := base
			o.fail, o.sizes = true, []int{11}
			if res := zooRun(name, doc, o); res.verdict == "ok" && len(doc) > 0 {
				oracle = "the reader failed but the decoder reports a clean end"
			}
		}
		sample := string(doc)
		if len(sample) > 300 {
			sample = sample[:300] + "..."
		}
		cs := hx.Case{Kind: "K/C15/" + name, Impl: fmt.Sprintf("%s stmts=%d cuts=%d", full.verdict, len(full.quads), cuts), Class: kind + " -> " + full.verdict,
			NonTri: len(doc) > 30, Oracle: oracle, Desc: fmt.Sprintf("%s %s: %q", name, kind, sample)}
		if oracle != "" {
			cs.In = []string{name, fmt.Sprintf("%x", doc), fmt.Sprintf("base=%q", base.base)}
		}
		out.Emit(cs)
		// model-backed: the rune buffer every text decoder reads through, against the model of bufio.Reader.ReadRune,
		// for the document (and a mutilated copy with broken UTF-8) under the same chunk sizes
		if isStreaming(name) && len(doc) <= 400 {
			for v := 0; v < 2; v++ {
				data := append([]byte{}, doc...)
				if v == 1 && len(data) > 0 {
					for k := 0; k < 3; k++ {
						data[rr.Intn(len(data))] = byte(0x80 + rr.Intn(0x80))
					}
				}
				sizes := []int{1 + rr.Intn(4), 1 + rr.Intn(3), 1 + rr.Intn(7)}
				out.Emit(hx.Case{Kind: "K/C15/runes", Line: runesLine(data, sizes), Impl: runesImpl(data, sizes),
					Class: fmt.Sprintf("runes broken=%v", v == 1), NonTri: len(data) > 10, Desc: fmt.Sprintf("rune buffer over chunks %v of %q", sizes, sample)})
			}
		}
		// model-backed: every cut of short N-Triples / N-Quads documents through the decoder model, both reader endings
		if (name == "ntriples" || name == "nquads") && len(doc) <= 260 && full.verdict == "ok" {
			for i := 0; i <= len(doc); i++ {
				for _, fail := range []bool{false, true} {
					do := nqDecodeOpts{nq: name == "nquads", fail: fail}
					if fail {
						do.sizes = []int{5}
					}
					out.Emit(hx.Case{Kind: "K/C15/" + name + "-cuts", Line: nqDecLine(doc[:i], do), Impl: nqDecodeImpl(doc[:i], do).String(),
						Class: fmt.Sprintf("cut fail=%v", fail), NonTri: i > 10, Desc: fmt.Sprintf("cut at %d fail=%v of %q", i, fail, sample)})
				}
			}
		}
	}
}

func runesLine(data []byte, sizes []int) string {
	var ss []string
	for _, n := range sizes {
		ss = append(ss, fmt.Sprint(n))
	}
	return "runes\t" + strings.Join(ss, ",") + "\t" + hx.X(string(data))
}

// runesImpl reads every rune through cursorioutil.RuneBuffer (the decoders' only access to the reader).
func runesImpl(data []byte, sizes []int) string {
	buf := cursorioutil.NewRuneBuffer(&chunkReader{data: append([]byte{}, data...), sizes: sizes})
	var out []string
	for i := 0; i <= len(data); i++ {
		r, err := buf.NextRune()
		if err != nil {
			break
		}
		out = append(out, fmt.Sprintf("%d.%d", r.Rune, r.Size))
	}
	return strings.Join(out, ",")
}

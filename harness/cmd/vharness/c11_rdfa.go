package main

// c11_rdfa.go — C11, RDFa: HTML documents are drawn as element trees carrying every combination of the RDFa attributes
// (about / resource / href / src / typeof / property / rel / rev / content / datatype / inlist / prefix / vocab / lang,
// nested for chaining), written as HTML text with free attribute order, quoting, case, entities, comments and foreign
// attributes; the decoder's triples are compared, up to blank node renaming, with the triples the Coq model of the
// RDFa Core 1.1 processing sequence (model/Rdfa.v) assigns to the same tree.

import (
	"fmt"
	"sort"
	"strings"

	xhtml "golang.org/x/net/html"

	"verifharness/hx"
)

func init() { families["c11-rdfa"] = c11RDFa }

const c11Location = "http://example.org/dir/page.html"

type c11Gen struct {
	r    *hx.Rand
	feat map[string]int
	nbn  int
}

func (g *c11Gen) use(f string) { g.feat[f]++ }

var c11Prefixes = [][2]string{{"ex", "http://example.org/ns#"}, {"o", "http://other.example/v/"}, {"EX2", "http://example.org/two/"}, {"dc", "http://purl.org/dc/elements/1.1/"}}
var c11Texts = []string{"x", "hello world", "a<b&c", "é日本", " padded ", "line\nbreak", "\"quoted\"", "1", "a\tb", "\U0001F600", "2020-01-02"}

// resource spellings for @about / @resource
func (g *c11Gen) resourceRef(declared map[string]bool) string {
	r := g.r
	switch r.Intn(12) {
	case 0:
		return ""
	case 1:
		return hx.Pick(r, []string{"#frag", "rel", "../up", "?q=1", "/root", "//other.example/x", "sub/x#y"})
	case 2, 3:
		return hx.Pick(r, []string{"http://example.org/abs", "http://other.example/é", "urn:x:y", "mailto:a@b"})
	case 4:
		g.use("bnode-curie")
		return fmt.Sprintf("_:b%d", r.Intn(3))
	case 5:
		g.use("safe-curie")
		return fmt.Sprintf("[_:b%d]", r.Intn(3))
	case 6, 7:
		g.use("curie")
		return g.curie(declared) + hx.Pick(r, []string{"a", "b", "c/d", "", "x#y"})
	case 8:
		g.use("safe-curie")
		return "[" + g.curie(declared) + hx.Pick(r, []string{"a", "b"}) + "]"
	case 9:
		g.use("initial-context-prefix")
		return hx.Pick(r, []string{"foaf:me", "schema:Thing", "dc:title", "[rdfs:Resource]"})
	case 10:
		g.use("default-prefix-curie")
		return ":top"
	default:
		return hx.Pick(r, []string{"doc2", "http://example.org/dir/page.html", "http://example.org/dir/page.html#me"})
	}
}

func (g *c11Gen) curie(declared map[string]bool) string {
	var ds []string
	for p := range declared {
		ds = append(ds, p)
	}
	sort.Strings(ds)
	if len(ds) == 0 || g.r.Chance(1, 5) {
		return hx.Pick(g.r, []string{"foaf:", "schema:", "rdf:", "xsd:"})
	}
	p := hx.Pick(g.r, ds)
	return p + ":"
}

// predicate / type tokens (TERMorCURIEorAbsIRI)
func (g *c11Gen) iriToken(declared map[string]bool, vocab bool, needColon bool) string {
	r := g.r
	switch k := r.Intn(8); {
	case k < 3:
		return g.curie(declared) + hx.Pick(r, []string{"p", "q", "name", "T"})
	case k == 3:
		return hx.Pick(r, []string{"http://example.org/abs/p", "urn:x:p", "http://other.example/v/q"})
	case k == 4 && !needColon:
		g.use("term")
		return hx.Pick(r, []string{"license", "role", "describedby", "License"})
	case k == 5 && vocab && !needColon:
		g.use("vocab-term")
		return hx.Pick(r, []string{"name", "knows", "Thing"})
	case k == 6 && !needColon && !vocab:
		g.use("unresolvable-token")
		return hx.Pick(r, []string{"stylesheet", "next", "nofollow"})
	case k == 7:
		if r.Chance(1, 2) {
			g.use("default-prefix-curie")
			return ":top"
		}
		g.use("unresolvable-token")
		return hx.Pick(r, []string{"nope:x", "rel/ative:x"})[0:6]
	}
	return g.curie(declared) + "p"
}

func (g *c11Gen) tokenList(declared map[string]bool, vocab, needColon bool) string {
	n := 1 + g.r.Intn(2)
	if g.r.Chance(1, 6) {
		n++
	}
	var ts []string
	ts = append(ts, g.curie(declared)+hx.Pick(g.r, []string{"p", "q", "r"})) // at least one which resolves
	for i := 1; i < n; i++ {
		ts = append(ts, g.iriToken(declared, vocab, needColon))
	}
	for i := len(ts) - 1; i > 0; i-- {
		j := g.r.Intn(i + 1)
		ts[i], ts[j] = ts[j], ts[i]
	}
	return strings.Join(ts, hx.Pick(g.r, []string{" ", "  ", "\n", "\t "}))
}

type c11Scope struct {
	declared map[string]bool
	vocab    bool
	chained  bool   // the parent object differs from the parent subject: no @inlist without an own @about here
	pobj     string // how the parent spelled its object resource (an @about spelled alike is the same resource)
	psubj    string // likewise for the parent subject
	root     bool   // the element is the root element
	inA      bool
	depth    int
}

func (g *c11Gen) attrs(n *xn, sc *c11Scope, void bool) {
	r := g.r
	set := func(k, v string) { n.attrs = append(n.attrs, [2]string{k, v}) }
	has := func(k string) bool {
		for _, a := range n.attrs {
			if a[0] == k {
				return true
			}
		}
		return false
	}
	// scope attributes
	if r.Chance(1, 8) {
		var decl []string
		nd := map[string]bool{}
		for k := range sc.declared {
			nd[k] = true
		}
		for _, p := range c11Prefixes {
			if r.Chance(1, 2) {
				decl = append(decl, p[0]+": "+p[1])
				nd[strings.ToLower(p[0])] = true
			}
		}
		if r.Chance(1, 6) {
			decl = append(decl, "_: http://evil.example/") // cannot be declared
		}
		if len(decl) > 0 {
			set("prefix", strings.Join(decl, hx.Pick(r, []string{" ", "\n  "})))
			sc.declared = nd
			g.use("@prefix")
		}
	}
	if r.Chance(1, 10) {
		if sc.vocab && r.Chance(1, 3) {
			set("vocab", "")
			sc.vocab = false
			g.use("@vocab-empty")
		} else {
			set("vocab", hx.Pick(r, []string{"http://schema.org/", "http://example.org/vocab#", "http://example.org/v/"}))
			sc.vocab = true
			g.use("@vocab")
		}
	}
	if r.Chance(1, 10) {
		set("lang", hx.Pick(r, []string{"en", "fr-CA", "", "de"}))
		g.use("@lang")
	}
	// RDFa proper
	if r.Chance(1, 4) {
		set("about", g.resourceRef(sc.declared))
		g.use("@about")
	}
	if r.Chance(1, 6) {
		set("typeof", hx.Pick(r, []string{"", g.tokenList(sc.declared, sc.vocab, false), g.curie(sc.declared) + "T"}))
		g.use("@typeof")
	}
	if r.Chance(1, 5) {
		set("resource", g.resourceRef(sc.declared))
		g.use("@resource")
	}
	if (n.name == "a" || n.name == "link" || r.Chance(1, 12)) && r.Chance(2, 3) {
		set("href", hx.Pick(r, []string{"http://example.org/abs", "rel", "#frag", "", "../up", "http://other.example/é", "ex:a"}))
		g.use("@href")
	}
	if (n.name == "img" || r.Chance(1, 15)) && r.Chance(2, 3) {
		set("src", hx.Pick(r, []string{"http://example.org/img.png", "pic.png", "/root.png"}))
		g.use("@src")
	}
	prop := r.Chance(2, 5)
	if prop {
		set("property", g.tokenList(sc.declared, sc.vocab, false))
		g.use("@property")
	}
	if r.Chance(1, 5) {
		set("rel", g.tokenList(sc.declared, sc.vocab, prop))
		g.use("@rel")
	}
	if r.Chance(1, 8) {
		set("rev", g.tokenList(sc.declared, sc.vocab, prop))
		g.use("@rev")
	}
	if prop && (r.Chance(1, 4) || (void && r.Chance(1, 2))) {
		set("content", hx.Pick(r, c11Texts))
		g.use("@content")
	}
	if prop && r.Chance(1, 5) {
		set("datatype", hx.Pick(r, []string{"xsd:integer", "", g.curie(sc.declared) + "dt", "http://example.org/abs/dt", "xsd:string"}))
		g.use("@datatype")
	}
	get := func(k string) string {
		for _, a := range n.attrs {
			if a[0] == k {
				return a[1]
			}
		}
		return ""
	}
	canon := func(v string) string {
		v = strings.Trim(v, "[]")
		if v == "" || v == c11Location || v == "page.html" {
			return "BASE"
		}
		return v
	}
	// a rough run of steps 5 and 6: does the element set a subject of its own, does it set an object resource
	fresh := has("about") && canon(get("about")) != sc.pobj && canon(get("about")) != sc.psubj
	relrev := has("rel") || has("rev")
	hb := n.name == "head" || n.name == "body"
	obj := ""
	for _, k := range []string{"resource", "href", "src"} {
		if has(k) && obj == "" {
			obj = canon(get(k))
		}
	}
	cobj := false
	subj52 := "" // step 5.2: the resource attribute names the subject
	switch {
	case relrev:
		cobj = true
	case prop && !has("content") && !has("datatype"):
		cobj = has("typeof") && !has("about") && !sc.root
	default:
		if !has("about") && (obj != "" || (has("typeof") && !hb)) {
			fresh = obj == "" || (obj != sc.pobj && obj != sc.psubj)
		}
		subj52, obj = obj, ""
	}
	if (prop || has("rel")) && r.Chance(1, 5) && (!sc.chained || fresh) {
		set("inlist", hx.Pick(r, []string{"", "inlist", "true"}))
		g.use("@inlist")
	}
	// foreign attributes
	if r.Chance(1, 6) {
		set(hx.Pick(r, []string{"class", "id", "title", "data-x"}), hx.Pick(r, []string{"c1", "about", "x y"}))
	}
	// what the children see
	switch {
	case cobj:
		sc.chained = true
		if has("about") {
			sc.psubj = canon(get("about"))
		} else if sc.pobj != "" {
			sc.psubj = sc.pobj
		}
		sc.pobj = obj
		if obj == "" {
			sc.pobj = "BNODE"
		}
	case fresh:
		sc.chained = false
		sc.psubj, sc.pobj = "", ""
		if has("about") {
			sc.psubj = canon(get("about"))
		} else if subj52 != "" {
			sc.psubj = subj52
		} else if obj != "" {
			sc.psubj = obj
		}
		sc.pobj = sc.psubj
	default:
		// the parent object is the subject again: whatever held before still holds for the children
		// (an element without @property is skipped: its children see the very same context)
		switch {
		case sc.chained && has("about"):
			// the subject is the parent subject or the parent object again: the two readings of step 8 still differ below
			sc.psubj = canon(get("about"))
			sc.pobj = sc.psubj
		case sc.chained && subj52 != "":
			sc.psubj, sc.pobj = subj52, subj52
		case sc.chained && (prop || hb):
			sc.psubj = sc.pobj
		}
	}
}

func (g *c11Gen) element(sc c11Scope, block bool) *xn {
	r := g.r
	var name string
	switch {
	case block:
		name = hx.Pick(r, []string{"div", "div", "section", "ul", "span", "a", "img", "meta", "link", "em"})
	default:
		name = hx.Pick(r, []string{"span", "span", "em", "a", "img", "meta", "link"})
	}
	if name == "a" && sc.inA {
		name = "span"
	}
	n := &xn{name: name}
	void := name == "img" || name == "meta" || name == "link"
	nd := map[string]bool{}
	for k := range sc.declared {
		nd[k] = true
	}
	sc.declared = nd
	g.attrs(n, &sc, void)
	if void || sc.depth >= 4 {
		if !void && r.Chance(2, 3) {
			n.kids = append(n.kids, &xn{isText: true, text: hx.Pick(r, c11Texts)})
		}
		return n
	}
	sc.depth++
	if name == "a" {
		sc.inA = true
	}
	childBlock := name == "div" || name == "section" || name == "li"
	lastText := false
	for i, k := 0, r.Intn(4); i < k; i++ {
		if r.Chance(1, 3) && !lastText && name != "ul" {
			n.kids = append(n.kids, &xn{isText: true, text: hx.Pick(r, c11Texts)})
			lastText = true
			continue
		}
		lastText = false
		if name == "ul" {
			li := &xn{name: "li"}
			lsc := sc
			nd2 := map[string]bool{}
			for k := range sc.declared {
				nd2[k] = true
			}
			lsc.declared = nd2
			g.attrs(li, &lsc, false)
			for j, m := 0, r.Intn(3); j < m; j++ {
				li.kids = append(li.kids, g.element(lsc, true))
			}
			n.kids = append(n.kids, li)
			continue
		}
		n.kids = append(n.kids, g.element(sc, childBlock))
	}
	return n
}

// ---------- HTML text ----------

func htmlEscape(r *hx.Rand, s string, attr bool, q byte) string {
	var sb strings.Builder
	for _, c := range s {
		switch {
		case c == '&':
			sb.WriteString(hx.Pick(r, []string{"&amp;", "&#38;", "&#x26;"}))
		case c == '<':
			sb.WriteString(hx.Pick(r, []string{"&lt;", "&#60;"}))
		case c == '>' && r.Bool():
			sb.WriteString("&gt;")
		case attr && c == rune(q):
			if q == '"' {
				sb.WriteString(hx.Pick(r, []string{"&quot;", "&#34;"}))
			} else {
				sb.WriteString("&#39;")
			}
		case c > 0x7f && r.Chance(1, 6):
			fmt.Fprintf(&sb, "&#x%X;", c)
		case c == 'é' && r.Chance(1, 3):
			sb.WriteString("&eacute;")
		default:
			sb.WriteRune(c)
		}
	}
	return sb.String()
}

func randCase(r *hx.Rand, s string) string {
	if r.Chance(1, 8) {
		return strings.ToUpper(s)
	}
	return s
}

func htmlWrite(r *hx.Rand, sb *strings.Builder, n *xn) {
	if n.isText {
		sb.WriteString(htmlEscape(r, n.text, false, 0))
		return
	}
	sb.WriteString("<" + randCase(r, n.name))
	attrs := append([][2]string{}, n.attrs...)
	for i := len(attrs) - 1; i > 0; i-- {
		j := r.Intn(i + 1)
		attrs[i], attrs[j] = attrs[j], attrs[i]
	}
	for _, a := range attrs {
		sb.WriteString(hx.Pick(r, []string{" ", " ", "\n ", "  "}))
		sb.WriteString(randCase(r, a[0]))
		switch {
		case a[1] == "" && r.Bool():
			// valueless
		case r.Chance(1, 8) && a[1] != "" && !strings.ContainsAny(a[1], " \t\n\f\r\"'=<>`") && isASCII(a[1]) && !strings.HasSuffix(a[1], "/"):
			// (with offset capture the tokenizer reads a "/" right before ">" as the self-closing mark, not as part of the value: F95)
			sb.WriteString("=" + htmlEscape(r, a[1], true, 0))
		case r.Chance(1, 4):
			sb.WriteString("='" + htmlEscape(r, a[1], true, '\'') + "'")
		default:
			sb.WriteString(hx.Pick(r, []string{"=", " = "}) + "\"" + htmlEscape(r, a[1], true, '"') + "\"")
		}
	}
	void := n.name == "img" || n.name == "meta" || n.name == "link" || n.name == "base"
	if void {
		// not "/>" directly: after an unquoted value the slash would belong to the value
		sb.WriteString(hx.Pick(r, []string{">", ">", " />", " >"}))
		return
	}
	sb.WriteString(">")
	for _, k := range n.kids {
		if !k.isText && r.Chance(1, 10) {
			sb.WriteString("<!-- c -->")
		}
		htmlWrite(r, sb, k)
	}
	sb.WriteString("</" + randCase(r, n.name) + ">")
}

func (g *c11Gen) document() *xn {
	r := g.r
	html := &xn{name: "html"}
	sc := c11Scope{declared: map[string]bool{}, psubj: "BASE", pobj: "BASE"}
	// the root carries scope attributes and sometimes RDFa ones
	if r.Chance(1, 2) {
		sc.root = true
		g.attrs(html, &sc, false)
		sc.root = false
	}
	head := &xn{name: "head"}
	hsc := sc
	if r.Chance(1, 6) {
		g.attrs(head, &hsc, false)
	}
	head.kids = append(head.kids, &xn{name: "title", kids: []*xn{{isText: true, text: hx.Pick(r, []string{"T", "a title"})}}})
	if r.Chance(1, 5) {
		head.kids = append(head.kids, &xn{name: "base", attrs: [][2]string{{"href", hx.Pick(r, []string{"http://base.example/b/", "other/", "http://base.example/b/c#frag", "/rooted/x"})}}})
		g.use("base-element")
	}
	for i, k := 0, r.Intn(3); i < k; i++ {
		m := &xn{name: hx.Pick(r, []string{"meta", "link"})}
		msc := hsc
		g.attrs(m, &msc, true)
		head.kids = append(head.kids, m)
	}
	body := &xn{name: "body"}
	bsc := sc
	if r.Chance(1, 5) {
		g.attrs(body, &bsc, false)
	}
	lastText := false
	for i, k := 0, 1+r.Intn(3); i < k; i++ {
		if r.Chance(1, 5) && !lastText {
			body.kids = append(body.kids, &xn{isText: true, text: hx.Pick(r, c11Texts)})
			lastText = true
			continue
		}
		lastText = false
		body.kids = append(body.kids, g.element(bsc, true))
	}
	html.kids = []*xn{head, body}
	return html
}

func c11HTMLText(r *hx.Rand, root *xn) string {
	var sb strings.Builder
	if r.Chance(2, 3) {
		sb.WriteString(hx.Pick(r, []string{"<!DOCTYPE html>", "<!doctype html>\n", "<!DOCTYPE html>\n"}))
	}
	htmlWrite(r, &sb, root)
	return sb.String()
}

func c11RDFa(r *hx.Rand, n int, out *hx.Out, _ []string) {
	for c := 0; c < n; c++ {
		rr := r.Fork()
		g := &c11Gen{r: rr, feat: map[string]int{}}
		root := g.document()
		doc := c11HTMLText(rr, root)
		var tk strings.Builder
		root.tokens(&tk)
		res := zooRun("htmlrdfa", []byte(doc), zooOpts{base: c11Location})
		impl, oracle := "!doc", ""
		switch res.verdict {
		case "ok":
			nm := hx.NewNamer()
			var sts []string
			for _, q := range res.quads {
				sts = append(sts, c09Term(q.Triple.Subject, nm)+" "+c09Term(q.Triple.Predicate, nm)+" "+c09Term(q.Triple.Object, nm))
			}
			impl = strings.Join(sts, ";")
		case "error":
			oracle = "the RDFa decoder rejects an HTML document: " + res.detail
		default:
			oracle = res.verdict + ": " + res.detail
		}
		var fs []string
		for k := range g.feat {
			fs = append(fs, k)
		}
		sort.Strings(fs)
		cls := strings.Join(fs, "+")
		if len(fs) > 4 {
			cls = fmt.Sprintf("rich(%d attributes/forms)", len(fs))
		}
		out.Emit(hx.Case{Kind: "K/C11/rdfa/iso", Line: "rdfa\t" + hx.X(c11Location) + "\t" + strings.TrimSuffix(tk.String(), ","), Impl: impl, Class: cls, NonTri: len(res.quads) >= 2, Oracle: oracle, Spec: true,
			Desc: fmt.Sprintf("location=%q forms=%v document: %s", c11Location, fs, doc)})
	}
}

// c11-rdfa-seeds: the HTML5 documents of the rdfa.info test suite shipped in the repository, read by the decoder and by the
// Coq model (from the tree golang.org/x/net/html builds); documents which use what the model leaves out (XMLLiteral / HTML
// literals, @datetime and time, rdfa:copy, xmlns:, xml:lang / xml:base, foreign content) are skipped.
func init() { families["c11-rdfa-seeds"] = c11RDFaSeeds }

var c11SeedSkip = []string{"datetime", "<time", "XMLLiteral", "rdf:HTML", "rdfa:copy", "rdfa:Pattern", "xmlns:", "xml:lang", "xml:base", "<svg", "<math", "<template", "<noscript", "<table", "<select", "<frameset"}

func c11TreeOf(n *xhtml.Node) *xn {
	switch n.Type {
	case xhtml.TextNode:
		return &xn{isText: true, text: n.Data}
	case xhtml.ElementNode:
		e := &xn{name: n.Data}
		for _, a := range n.Attr {
			k := a.Key
			if a.Namespace != "" {
				k = a.Namespace + ":" + k
			}
			e.attrs = append(e.attrs, [2]string{k, a.Val})
		}
		for c := n.FirstChild; c != nil; c = c.NextSibling {
			if t := c11TreeOf(c); t != nil {
				e.kids = append(e.kids, t)
			}
		}
		return e
	}
	return nil
}

func c11RDFaSeeds(r *hx.Rand, n int, out *hx.Out, _ []string) {
	var files []seedFile
	for _, s := range seeds("html") {
		if strings.Contains(s.path, "rdfa1.1/html5/") {
			files = append(files, s)
		}
	}
	for c := 0; c < n && c < len(files); c++ {
		s := files[c]
		skip := ""
		for _, w := range c11SeedSkip {
			if strings.Contains(string(s.data), w) {
				skip = w
				break
			}
		}
		location := "http://rdfa.example/test-suite/" + s.path[strings.LastIndexByte(s.path, '/')+1:]
		doc, err := xhtml.Parse(strings.NewReader(string(s.data)))
		var root *xn
		if err == nil {
			for c := doc.FirstChild; c != nil; c = c.NextSibling {
				if c.Type == xhtml.ElementNode {
					root = c11TreeOf(c)
				}
			}
		}
		if skip != "" || root == nil {
			out.Emit(hx.Case{Kind: "K/C11/rdfa-seeds-skip", Impl: "skip", Class: "outside the model: " + skip, Desc: s.path})
			continue
		}
		res := zooRun("htmlrdfa", s.data, zooOpts{base: location})
		if res.verdict != "ok" {
			out.Emit(hx.Case{Kind: "K/C11/rdfa-seeds-skip", Impl: res.verdict, Class: "decoder does not accept", Desc: s.path})
			continue
		}
		nm := hx.NewNamer()
		var sts []string
		for _, q := range res.quads {
			sts = append(sts, c09Term(q.Triple.Subject, nm)+" "+c09Term(q.Triple.Predicate, nm)+" "+c09Term(q.Triple.Object, nm))
		}
		var tk strings.Builder
		root.tokens(&tk)
		out.Emit(hx.Case{Kind: "K/C11/rdfa-seeds/iso", Line: "rdfa\t" + hx.X(location) + "\t" + strings.TrimSuffix(tk.String(), ","), Impl: strings.Join(sts, ";"), Class: "rdfa.info suite document", NonTri: len(res.quads) >= 2, Spec: true,
			Desc: fmt.Sprintf("location=%q file=%s document: %s", location, s.path, string(s.data))})
	}
}

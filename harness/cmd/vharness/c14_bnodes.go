package main

import (
	"fmt"
	"strconv"
	"strings"
	"sync"

	"github.com/dpb587/rdfkit-go/rdf"
	"github.com/dpb587/rdfkit-go/rdf/blanknodes"
	"verifharness/hx"
)

func init() {
	families["c14-seq"] = c14Seq
	families["c14-conc"] = c14Conc
}

type c14World struct {
	defBase int64
	facs    []rdf.BlankNodeFactory
	sfacs   []blanknodes.StringFactory
	provs   []blanknodes.StringProvider
	pfmt    []string
	uprovs  []blanknodes.StringProvider
	useen   []map[string]int
	maps    []blanknodes.Mapper
	nodes   []rdf.BlankNode
}

func (w *c14World) nodeOut(n rdf.BlankNode) string {
	if lbl, sc, ok := blanknodes.VerifStringInfo(n.Identifier); ok {
		for i, f := range w.sfacs {
			if f == sc {
				return fmt.Sprintf("s%d.%s", i, hx.X(lbl))
			}
		}
		return "s?"
	}
	kind, v, sc := rdf.VerifBlankNodeInfo(n.Identifier)
	switch kind {
	case "default":
		return fmt.Sprintf("d%d", v-w.defBase)
	case "factory":
		for i, f := range w.facs {
			if f == sc {
				return fmt.Sprintf("f%d.%d", i, v)
			}
		}
		return "f?"
	}
	return "?"
}

var c14Labels = []string{"", "a", "b", "a", "b0", "0", "é", "_:a"}

// c14Seq: sequential histories, model = implementation step by step.
func c14Seq(r *hx.Rand, n int, out *hx.Out, _ []string) {
	for c := 0; c < n; c++ {
		rr := r.Fork()
		w := &c14World{}
		_, base, _ := rdf.VerifBlankNodeInfo(rdf.NewBlankNode().Identifier)
		w.defBase = base
		var ops, outs []string
		fresh := map[string]bool{}
		oracle := ""
		emit := func(op, o string) { ops = append(ops, op); outs = append(outs, o) }
		give := func(op string, bn rdf.BlankNode, mustBeFresh bool) {
			o := w.nodeOut(bn)
			if mustBeFresh {
				for _, prev := range w.nodes {
					if prev.TermEquals(bn) || bn.TermEquals(prev) {
						oracle = fmt.Sprintf("fresh node %s equals an earlier node", o)
					}
				}
				fresh[o] = true
			}
			w.nodes = append(w.nodes, bn)
			emit(op, o)
		}
		nops := 4 + rr.Intn(50)
		long := c%25 == 24 // a long history: hundreds of nodes through few providers (tables, caches and counters wrap late)
		if long {
			nops = 600 + rr.Intn(900)
		}
		lookups := 0
		for i := 0; i < nops; i++ {
			k := rr.Intn(20)
			if long && i > 12 {
				k = []int{5, 6, 7, 11, 12, 13, 14, 17, 18}[rr.Intn(9)]
				if len(w.provs) == 0 {
					k = 2
				}
			}
			switch {
			case k == 0 && len(w.facs) < 4:
				w.facs = append(w.facs, rdf.NewBlankNodeFactory())
				emit("F", "-")
			case k == 1 && len(w.sfacs) < 3:
				sf := blanknodes.NewStringFactory()
				w.sfacs = append(w.sfacs, sf)
				w.facs = append(w.facs, blanknodes.VerifAnonFactory(sf))
				emit("S", "-")
			case k == 2 && len(w.provs) < 3:
				f := hx.Pick(rr, []string{"%d", "", "b%d", "n%dx"})
				w.provs = append(w.provs, blanknodes.NewInt64StringProvider(f))
				w.pfmt = append(w.pfmt, f)
				emit("P", "-")
			case k == 3 && len(w.uprovs) < 2:
				w.uprovs = append(w.uprovs, blanknodes.NewUUIDStringProvider("", nil))
				w.useen = append(w.useen, map[string]int{})
				emit("U", "-")
			case k == 4 && len(w.maps) < 3:
				if len(w.facs) > 0 && rr.Bool() {
					f := rr.Intn(len(w.facs))
					w.maps = append(w.maps, blanknodes.NewFactoryMapper(w.facs[f]))
					emit(fmt.Sprintf("M%d", f), "-")
				} else {
					w.maps = append(w.maps, blanknodes.NewFactoryMapper(nil))
					emit("Md", "-")
				}
			case k < 8:
				if len(w.facs) > 0 && rr.Chance(3, 4) {
					f := rr.Intn(len(w.facs))
					give(fmt.Sprintf("b%d", f), w.facs[f].NewBlankNode(), true)
				} else {
					give("bd", rdf.NewBlankNode(), true)
				}
			case k < 11 && len(w.sfacs) > 0:
				sf := rr.Intn(len(w.sfacs))
				if rr.Chance(1, 5) {
					give(fmt.Sprintf("a%d", sf), w.sfacs[sf].NewBlankNode(), true)
				} else {
					l := hx.Pick(rr, c14Labels)
					bn := w.sfacs[sf].NewStringBlankNode(l)
					// string factory contract: equal exactly for equal non-empty labels of the same factory
					if l != "" {
						for _, prev := range w.nodes {
							pl, psc, ok := blanknodes.VerifStringInfo(prev.Identifier)
							want := ok && psc == w.sfacs[sf] && pl == l
							if prev.TermEquals(bn) != want {
								oracle = fmt.Sprintf("NewStringBlankNode(%q): equality with earlier node is %v, want %v", l, !want, want)
							}
						}
					}
					give(fmt.Sprintf("s%d:%s", sf, hx.X(l)), bn, l == "")
				}
			case k < 15 && len(w.provs) > 0 && len(w.nodes) > 0:
				p, nk := rr.Intn(len(w.provs)), rr.Intn(len(w.nodes))
				if long && rr.Chance(2, 3) { // mostly label the newest nodes so that many distinct nodes get labels
					nk = len(w.nodes) - 1 - rr.Intn(min(3, len(w.nodes)))
				}
				s := w.provs[p].GetBlankNodeString(w.nodes[nk])
				num := s
				switch w.pfmt[p] {
				case "", "b%d":
					num = strings.TrimPrefix(s, "b")
				case "n%dx":
					num = strings.TrimSuffix(strings.TrimPrefix(s, "n"), "x")
				}
				v, err := strconv.ParseInt(num, 10, 64)
				o := "L" + num
				if err != nil || v < 0 || fmt.Sprintf(map[string]string{"": "b%d"}[w.pfmt[p]]+w.pfmt[p], v) != s {
					o = "L?" + s
				}
				emit(fmt.Sprintf("g%d:%d", p, nk), o)
				lookups++
			case k < 17 && len(w.uprovs) > 0 && len(w.nodes) > 0:
				p, nk := rr.Intn(len(w.uprovs)), rr.Intn(len(w.nodes))
				s := w.uprovs[p].GetBlankNodeString(w.nodes[nk])
				idx, ok := w.useen[p][s]
				if !ok {
					idx = len(w.useen[p])
					w.useen[p][s] = idx
				}
				emit(fmt.Sprintf("u%d:%d", p, nk), fmt.Sprintf("U%d", idx))
				lookups++
			case k == 17 && len(w.sfacs) > 0 && len(w.uprovs) > 0 && len(w.nodes) > 0 && !long:
				// the label pass-through provider of a string factory, falling back to a UUID provider
				sf, p, nk := rr.Intn(len(w.sfacs)), rr.Intn(len(w.uprovs)), rr.Intn(len(w.nodes))
				s := w.sfacs[sf].(blanknodes.StringProviderProvider).GetStringProvider(w.uprovs[p]).GetBlankNodeString(w.nodes[nk])
				o := "T" + hx.X(s)
				if c14UUIDShaped(s) {
					idx, ok := w.useen[p][s]
					if !ok {
						idx = len(w.useen[p])
						w.useen[p][s] = idx
					}
					o = fmt.Sprintf("U%d", idx)
				}
				emit(fmt.Sprintf("t%d:%d:%d", sf, p, nk), o)
				lookups++
			case len(w.maps) > 0 && len(w.nodes) > 0:
				m, nk := rr.Intn(len(w.maps)), rr.Intn(len(w.nodes))
				give(fmt.Sprintf("m%d:%d", m, nk), w.maps[m].MapBlankNode(w.nodes[nk]), false)
				lookups++
			default:
				give("bd", rdf.NewBlankNode(), true)
			}
		}
		// end-to-end oracle on the implementation: per provider, labels form an injective function on nodes
		for pi, p := range append(append([]blanknodes.StringProvider{}, w.provs...), w.uprovs...) {
			seen := map[string]int{}
			for i, nd := range w.nodes {
				s1, s2 := p.GetBlankNodeString(nd), p.GetBlankNodeString(nd)
				if s1 != s2 {
					oracle = fmt.Sprintf("provider %d: node %d labelled %q then %q", pi, i, s1, s2)
				}
				if j, ok := seen[s1]; ok && !w.nodes[j].TermEquals(nd) {
					oracle = fmt.Sprintf("provider %d: distinct nodes %d and %d share label %q", pi, j, i, s1)
				}
				seen[s1] = i
			}
		}
		// the same for every pass-through provider (own labels, fallback labels)
		for si, sf := range w.sfacs {
			for ui, up := range w.uprovs {
				p := sf.(blanknodes.StringProviderProvider).GetStringProvider(up)
				seen := map[string]int{}
				for i, nd := range w.nodes {
					s1, s2 := p.GetBlankNodeString(nd), p.GetBlankNodeString(nd)
					if s1 != s2 {
						oracle = fmt.Sprintf("pass-through provider %d/%d: node %d labelled %q then %q", si, ui, i, s1, s2)
					}
					if j, ok := seen[s1]; ok && !w.nodes[j].TermEquals(nd) {
						oracle = fmt.Sprintf("pass-through provider %d/%d: distinct nodes %d and %d share label %q", si, ui, j, i, s1)
					}
					seen[s1] = i
				}
			}
		}
		out.Emit(hx.Case{Kind: "K/C14/seq", Line: "bn\t" + strings.Join(ops, ";"), Impl: strings.Join(outs, ";"),
			Class: fmt.Sprintf("ops=%d-%d", min(nops, 600)/10*10, min(nops, 600)/10*10+9), NonTri: lookups >= 2 && len(w.nodes) >= 3, Oracle: oracle,
			Desc: strings.Join(ops[:min(len(ops), 80)], " ")})
	}
}

// c14Conc: goroutines hammer shared factories, providers and mappers; the oracle checks the property itself on
// what they observed (uniqueness of fresh nodes, label function + injectivity, dense counters, mapper function).
func c14Conc(r *hx.Rand, n int, out *hx.Out, _ []string) {
	for c := 0; c < n; c++ {
		rr := r.Fork()
		G := 2 + rr.Intn(15)
		per := 20 + rr.Intn(200)
		fac := rdf.NewBlankNodeFactory()
		sfac := blanknodes.NewStringFactory()
		prov := blanknodes.NewInt64StringProvider("%d")
		uprov := blanknodes.NewUUIDStringProvider("", nil)
		mp := blanknodes.NewFactoryMapper(fac)
		shared := []rdf.BlankNode{}
		for i := 0; i < 8; i++ {
			shared = append(shared, sfac.NewStringBlankNode(fmt.Sprintf("n%d", i)))
		}
		type obs struct {
			fresh          []rdf.BlankNode
			lab, ulab, mpd map[int][]string
		}
		res := make([]obs, G)
		seeds := make([]uint64, G)
		for g := range seeds {
			seeds[g] = rr.U64()
		}
		var wg sync.WaitGroup
		start := make(chan struct{})
		for g := 0; g < G; g++ {
			wg.Add(1)
			go func(g int) {
				defer wg.Done()
				lr := hx.NewRand(seeds[g])
				o := obs{lab: map[int][]string{}, ulab: map[int][]string{}, mpd: map[int][]string{}}
				<-start
				for i := 0; i < per; i++ {
					switch lr.Intn(6) {
					case 0:
						o.fresh = append(o.fresh, fac.NewBlankNode())
					case 1:
						o.fresh = append(o.fresh, rdf.NewBlankNode())
					case 2:
						o.fresh = append(o.fresh, sfac.NewStringBlankNode(""))
					case 3:
						k := lr.Intn(len(shared))
						o.lab[k] = append(o.lab[k], prov.GetBlankNodeString(shared[k]))
					case 4:
						k := lr.Intn(len(shared))
						o.ulab[k] = append(o.ulab[k], uprov.GetBlankNodeString(shared[k]))
					case 5:
						k := lr.Intn(len(shared))
						m := mp.MapBlankNode(shared[k])
						_, v, _ := rdf.VerifBlankNodeInfo(m.Identifier)
						o.mpd[k] = append(o.mpd[k], fmt.Sprint(v))
						o.fresh = append(o.fresh, rdf.BlankNode{}) // placeholder keeps counts comparable
					}
				}
				res[g] = o
			}(g)
		}
		close(start)
		wg.Wait()
		oracle := ""
		var all []rdf.BlankNode
		for _, o := range res {
			for _, b := range o.fresh {
				if b.Identifier != nil {
					all = append(all, b)
				}
			}
		}
		seenID := map[rdf.BlankNodeIdentifier]bool{}
		for _, b := range all {
			if seenID[b.Identifier] {
				oracle = "two fresh nodes are equal: " + fmt.Sprint(b.Identifier)
			}
			seenID[b.Identifier] = true
		}
		check := func(name string, sel func(o obs) map[int][]string, dense bool) {
			byNode := map[int]string{}
			byLabel := map[string]int{}
			for _, o := range res {
				for k, ls := range sel(o) {
					for _, l := range ls {
						if prev, ok := byNode[k]; ok && prev != l {
							oracle = fmt.Sprintf("%s: node %d got %q and %q", name, k, prev, l)
						}
						byNode[k] = l
						if pk, ok := byLabel[l]; ok && pk != k {
							oracle = fmt.Sprintf("%s: nodes %d and %d share %q", name, pk, k, l)
						}
						byLabel[l] = k
					}
				}
			}
			if dense {
				for i := 0; i < len(byLabel); i++ {
					if _, ok := byLabel[fmt.Sprint(i)]; !ok {
						oracle = fmt.Sprintf("%s: %d labels issued but %d is missing", name, len(byLabel), i)
					}
				}
			}
		}
		check("int64 provider", func(o obs) map[int][]string { return o.lab }, true)
		check("uuid provider", func(o obs) map[int][]string { return o.ulab }, false)
		check("mapper", func(o obs) map[int][]string { return o.mpd }, false)
		for _, o := range res {
			for k, ls := range o.mpd {
				_ = k
				for _, l := range ls {
					for _, b := range all {
						kind, v, sc := rdf.VerifBlankNodeInfo(b.Identifier)
						if kind == "factory" && sc == fac && fmt.Sprint(v) == l {
							oracle = "mapper image equals a node handed out by NewBlankNode: " + l
						}
					}
				}
			}
		}
		// first-call races: all goroutines ask about the same brand-new node at the same moment
		rounds := 150
		for rd := 0; rd < rounds && oracle == ""; rd++ {
			node := sfac.NewStringBlankNode(fmt.Sprintf("r%d", rd))
			labs, ulabs, imgs := make([]string, G), make([]string, G), make([]rdf.BlankNode, G)
			var wg2 sync.WaitGroup
			gate := make(chan struct{})
			for g := 0; g < G; g++ {
				wg2.Add(1)
				go func(g int) {
					defer wg2.Done()
					<-gate
					switch (g + rd) % 3 {
					case 0:
						imgs[g] = mp.MapBlankNode(node)
						labs[g] = prov.GetBlankNodeString(node)
						ulabs[g] = uprov.GetBlankNodeString(node)
					case 1:
						labs[g] = prov.GetBlankNodeString(node)
						ulabs[g] = uprov.GetBlankNodeString(node)
						imgs[g] = mp.MapBlankNode(node)
					default:
						ulabs[g] = uprov.GetBlankNodeString(node)
						imgs[g] = mp.MapBlankNode(node)
						labs[g] = prov.GetBlankNodeString(node)
					}
				}(g)
			}
			close(gate)
			wg2.Wait()
			for g := 1; g < G; g++ {
				if labs[g] != labs[0] {
					oracle = fmt.Sprintf("first-call race: one node got int64 labels %q and %q", labs[0], labs[g])
				}
				if ulabs[g] != ulabs[0] {
					oracle = fmt.Sprintf("first-call race: one node got UUID labels %q and %q", ulabs[0], ulabs[g])
				}
				if !imgs[g].TermEquals(imgs[0]) {
					oracle = "first-call race: MapBlankNode sent one node to two different nodes"
				}
			}
			if again := mp.MapBlankNode(node); !again.TermEquals(imgs[0]) {
				oracle = "first-call race: MapBlankNode answer changed afterwards"
			}
		}
		out.Emit(hx.Case{Kind: "K/C14/concurrent", Impl: fmt.Sprintf("goroutines=%d ops=%d fresh=%d", G, per, len(all)),
			Class: fmt.Sprintf("G=%d", G), NonTri: true, Oracle: oracle,
			Desc: fmt.Sprintf("seed-derived schedule #%d: %d goroutines x %d ops on shared factory/string factory/providers/mapper", c, G, per)})
	}
}

// c14UUIDShaped: 8-4-4-4-12 hex digits
func c14UUIDShaped(s string) bool {
	if len(s) != 36 {
		return false
	}
	for i, c := range s {
		switch i {
		case 8, 13, 18, 23:
			if c != '-' {
				return false
			}
		default:
			if !strings.ContainsRune("0123456789abcdefABCDEF", c) {
				return false
			}
		}
	}
	return true
}

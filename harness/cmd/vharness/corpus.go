package main

import (
	"os"
	"path/filepath"
	"sort"
	"strings"

	"verifharness/hx"
)

type seedFile struct {
	path string
	data []byte
}

var seedCache map[string][]seedFile

// seeds returns the W3C archive files (extracted by ./check --setup) for an extension, sorted by path.
func seeds(ext string) []seedFile {
	if seedCache == nil {
		seedCache = map[string][]seedFile{}
		root := filepath.Join(os.Getenv("VERIF_WORK"), "seeds")
		if os.Getenv("VERIF_WORK") == "" {
			root = "/verif/work/seeds"
		}
		filepath.Walk(root, func(p string, info os.FileInfo, err error) error {
			if err != nil || info.IsDir() || info.Size() > 64*1024 {
				return nil
			}
			e := strings.TrimPrefix(filepath.Ext(p), ".")
			b, err := os.ReadFile(p)
			if err == nil {
				seedCache[e] = append(seedCache[e], seedFile{p, b})
			}
			return nil
		})
		for k := range seedCache {
			s := seedCache[k]
			sort.Slice(s, func(i, j int) bool { return s[i].path < s[j].path })
		}
	}
	return seedCache[ext]
}

var decoderSeedExts = map[string][]string{
	"ntriples": {"nt"}, "nquads": {"nq", "nt"}, "turtle": {"ttl", "nt"}, "trig": {"trig", "ttl", "nt"},
	"rdfxml": {"rdf", "xml"}, "rdfjson": {"json"}, "jsonld": {"jsonld", "json"},
	"htmlrdfa": {"html", "xhtml", "svg"}, "htmlmicrodata": {"html"}, "htmljsonld": {"html"}, "htmldefaults": {"html", "xhtml"},
}

var mutDict = map[string][]string{
	"text": {"<", ">", "\"", "'", "\\", "\\u", "\\U0010FFFF", "\\uD800", "_:", "@", "^^", ".", ";", ",", "[", "]", "(", ")", "{", "}", "#", "\n", "\r\n", " ", "\t",
		"@prefix", "@base", "PREFIX", "BASE", "GRAPH", "a", "true", "false", "1e", "-", "+", "0x", ":", "::", "<>", "\"\"\"", "'''", "%", "%zz", "\xff", "\xc3", "\xed\xa0\x80", "\x00"},
	"json": {"{", "}", "[", "]", ":", ",", "\"", "\\", "null", "true", "1e999", "-", "\"@context\"", "\"@id\"", "\"@type\"", "\"@value\"", "\"@list\"", "\"@graph\"", "\"@language\"", "\"@reverse\"", "\"@included\"", "\"@nest\"", "\"@container\"", "\"lang\":\"\"", "\\u0000", "\xff", "/*", "//", "'"},
	"xml":  {"<", ">", "</", "/>", "&", "&amp;", "&#x0;", "<!--", "-->", "<![CDATA[", "]]>", "<?xml", "rdf:about=\"\"", "rdf:ID=\"a\"", "rdf:nodeID=\"a\"", "rdf:parseType=\"Literal\"", "rdf:parseType=\"Collection\"", "rdf:parseType=\"Resource\"", "xml:lang=\"\"", "xml:base=\"\"", "rdf:li", "rdf:_1", "rdf:resource=\"\"", "rdf:datatype=\"\"", "xmlns:rdf=\"\"", "\xff"},
	"html": {"<", ">", "</", "<b>", "</b>", "<i>", "<table>", "<tr>", "<td>", "</table>", "<p>", "<a href=\"\">", "<template>", "<script type=\"application/ld+json\">", "</script>", "itemscope", "itemprop=\"a\"", "itemtype=\"http://e/\"", "itemid=\"\"", "itemref=\"a\"", "id=\"a\"", "typeof=\"\"", "property=\"a:b\"", "about=\"\"", "resource=\"[_:a]\"", "rel=\"a\"", "rev=\"a\"", "vocab=\"\"", "prefix=\"a: http://e/\"", "inlist=\"\"", "datatype=\"\"", "content=\"\"", "lang=\"\"", "<base href=\"\">", "<form>", "<select>", "<svg>", "<math>", "&", "\xff", "\x00"},
}

func mutDictFor(decoder string) []string {
	switch decoder {
	case "rdfjson", "jsonld":
		return mutDict["json"]
	case "rdfxml":
		return mutDict["xml"]
	case "htmlrdfa", "htmlmicrodata", "htmljsonld", "htmldefaults":
		return append(append([]string{}, mutDict["html"]...), mutDict["json"]...)
	}
	return mutDict["text"]
}

// mutate applies 1-4 edits to a document.
func mutate(r *hx.Rand, doc []byte, dict []string) []byte {
	d := append([]byte{}, doc...)
	for i, k := 0, 1+r.Intn(4); i < k; i++ {
		if len(d) == 0 {
			d = append(d, hx.Pick(r, dict)...)
			continue
		}
		at := r.Intn(len(d) + 1)
		switch r.Intn(8) {
		case 0: // delete a span
			n := 1 + r.Intn(4)
			if at+n > len(d) {
				n = len(d) - at
			}
			d = append(d[:at], d[at+n:]...)
		case 1: // insert a token
			d = append(d[:at], append([]byte(hx.Pick(r, dict)), d[at:]...)...)
		case 2: // duplicate a span
			n := 1 + r.Intn(12)
			if at+n > len(d) {
				n = len(d) - at
			}
			d = append(d[:at+n], append(append([]byte{}, d[at:at+n]...), d[at+n:]...)...)
		case 3: // flip a byte
			if at < len(d) {
				d[at] ^= byte(1 << r.Intn(8))
			}
		case 4: // truncate
			d = d[:at]
		case 5: // swap two adjacent spans
			n := 1 + r.Intn(6)
			if at+2*n <= len(d) {
				a := append([]byte{}, d[at:at+n]...)
				copy(d[at:], d[at+n:at+2*n])
				copy(d[at+n:], a)
			}
		case 6: // replace a byte by a token
			if at < len(d) {
				d = append(d[:at], append([]byte(hx.Pick(r, dict)), d[at+1:]...)...)
			}
		case 7: // repeat a token many times (nesting / long tokens)
			tok := hx.Pick(r, dict)
			d = append(d[:at], append([]byte(strings.Repeat(tok, 1+r.Intn(300))), d[at:]...)...)
		}
	}
	return d
}

// adversarial documents per decoder family
func adversarial(r *hx.Rand, decoder string) []byte {
	n := 50 + r.Intn(3000)
	switch decoder {
	case "turtle", "trig":
		switch r.Intn(6) {
		case 0:
			return []byte("<http://e/s> <http://e/p> " + strings.Repeat("[ <http://e/p> ", n) + "1" + strings.Repeat(" ]", n) + " .")
		case 1:
			return []byte("<http://e/s> <http://e/p> " + strings.Repeat("( ", n) + strings.Repeat(") ", n) + ".")
		case 2:
			return []byte("<http://e/s> <http://e/p> " + strings.Repeat("[", n))
		case 3:
			return []byte("<http://e/s> <http://e/p> \"" + strings.Repeat("a\\u00e9", n) + "\" .")
		case 4:
			return []byte("@prefix p: <http://e/> . p:" + strings.Repeat("a.", n) + "b p:p p:" + strings.Repeat("%41\\.", n) + " .")
		default:
			return []byte(strings.Repeat("<http://e/s> <http://e/p> <http://e/o> ; <http://e/q> 1 , 2.0 , 3e4 .\n", n/10+1))
		}
	case "ntriples", "nquads":
		switch r.Intn(3) {
		case 0:
			return []byte("<http://e/" + strings.Repeat("a", n*10) + "> <http://e/p> \"" + strings.Repeat("\\U0001F600", n) + "\" .\n")
		case 1:
			return []byte(strings.Repeat("# comment\n", n) + "<http://e/s> <http://e/p> _:" + strings.Repeat("a.", n) + "b .")
		default:
			return []byte(strings.Repeat("_:a <http://e/p> \"x\"@en-"+strings.Repeat("a-", 20)+"b .\n", n/20+1))
		}
	case "rdfjson", "jsonld":
		switch r.Intn(4) {
		case 0:
			return []byte(strings.Repeat("[", n) + strings.Repeat("]", n))
		case 1:
			return []byte(strings.Repeat("{\"@graph\":", n) + "{}" + strings.Repeat("}", n))
		case 2:
			return []byte("{\"@context\":" + strings.Repeat("{\"a\":{\"@context\":", n/10) + "{}" + strings.Repeat("}}", n/10) + ",\"a\":1}")
		default:
			return []byte("{\"http://e/s\":{\"http://e/p\":[" + strings.Repeat("{\"type\":\"literal\",\"value\":\"x\"},", n) + "{\"type\":\"uri\",\"value\":\"http://e/o\"}]}}")
		}
	case "rdfxml":
		open := "<rdf:Description><ex:p xmlns:ex=\"http://e/\">"
		cl := "</ex:p></rdf:Description>"
		return []byte("<rdf:RDF xmlns:rdf=\"http://www.w3.org/1999/02/22-rdf-syntax-ns#\">" + strings.Repeat(open, n/4) + strings.Repeat(cl, n/4) + "</rdf:RDF>")
	default: // html
		switch r.Intn(4) {
		case 0:
			return []byte("<html><body>" + strings.Repeat("<div itemscope itemprop=\"a\" typeof=\"b\" property=\"c\">", n/2) + "x" + strings.Repeat("</div>", n/2))
		case 1:
			return []byte("<html><body><table>" + strings.Repeat("<b itemscope><i property=\"p\"><td>", n/10) + "x</table>")
		case 2:
			return []byte("<html><body><div itemscope itemref=\"a b a\" id=\"a\"><span id=\"b\" itemprop=\"p\" itemscope itemref=\"a\">x</span></div>")
		default:
			return []byte("<html><head><script type=\"application/ld+json\">" + strings.Repeat("[", n) + "</script></head><body typeof=\"\" vocab=\"http://e/\"><p property=\"p\" inlist>x</p></body></html>")
		}
	}
}

// zooCorpus: hand-written documents around the productions where decoders are most fragile; run first by every zoo family.
var zooCorpus = map[string][]string{
	"ntriples": {"<http://e/s> <http://e/p> \"x\"^^<http://www.w3.org/1999/02/22-rdf-syntax-ns#langString> .", "<http://e/s> <http://e/p> \"x\"^^<http://www.w3.org/1999/02/22-rdf-syntax-ns#dirLangString> .", "<http://e/s> <http://e/p> \"x\"@ .", "<http://e/s> <http://e/p> \"x\"@en-Latn-US .", "<http://e/s> <http://e/p> <http://e/o> .\n<http://exa", "_:a <http://e/p> _:b.c.\n", "<http://e/s> <http://e/p> \"\\uD800\" .", "<s> <http://e/p> <http://e/o> ."},
	"nquads":   {"<http://e/s> <http://e/p> \"x\"^^<http://www.w3.org/1999/02/22-rdf-syntax-ns#langString> <http://e/g> .", "<http://e/s> <http://e/p> <http://e/o> _:g .\n<http://e/s> <http://e/p> \"é\"@en <http://e/g> . # c", "<http://e/s> <http://e/p> <http://e/o> <g> ."},
	"turtle": {"<s> <p> \"1\"^^<types#celsius>, \"2\"^^<#c> ; <q> <../o> .", "@base <http://b/x/> . @prefix p: <ns#> . p:s p:p \"1\"^^p:dt , <o> .", "<http://e/s> <http://e/p> \"x\"^^<http://www.w3.org/1999/02/22-rdf-syntax-ns#langString> .", "@prefix rdf: <http://www.w3.org/1999/02/22-rdf-syntax-ns#> . <http://e/s> <http://e/p> \"x\"^^rdf:langString .", "() <http://e/p> <http://e/o> .", "<http://e/s> <http://e/p> () .", "@prefix : <http://e/> . :\\. :p :o .", ":\\. ", "<http://e/s> <http://e/p> <http://e/o> # c",
		"<http://e/s> <http://e/p> \"x\"@ .", "<http://e/s> <http://e/p> \"x\"@en-Latn-US .", "@prefix p: <http://e/> . p:a\\. p:p p:o .", "<http://e/s> a<http://e/C> .", "[] <http://e/p> [ ] .",
		"<s> <p> <o> .", "@base <rel/> . <s> <p> <o> .", "<http://e/s> <http://e/p> 1.e5, -.5, +0, true, .5 .", "<http://e/s> <http://e/p> \"\"\"a\"\"b\"\"\" .", "( 1 2 ) <http://e/p> ( ( ) ) .",
		"[ <http://e/p> 1 ] .", "[ <http://e/p> 1 ] <http://e/q> 2 .", "<http://e/s> <http://e/p> <http://e/o> ; ; .", "PREFIX p: <http://e/>\nBASE <http://b/>\np:s p:p <o> ."},
	"trig": {"<g> { <s> <p> \"1\"^^<types#celsius> . } GRAPH <g2> { <s> <p> <o> }", "{ <http://e/s> <http://e/p> \"x\"^^<http://www.w3.org/1999/02/22-rdf-syntax-ns#langString> . }", "{ () <http://e/p> <http://e/o> . }", "<http://e/g> { <http://e/s> <http://e/p> <http://e/o> }", "GRAPH _:g { [] <http://e/p> ( 1 ) . }", "[] { <http://e/s> <http://e/p> <http://e/o> . }",
		"() <http://e/p> <http://e/o> .", "@prefix : <http://e/> . :g { :s :p :o } :s :p :o .", "{ <s> <p> <o> }", "GRAPH <http://e/g> { } { }"},
	"rdfjson": {"{\"http://e/s\":{\"http://e/p\":[{\"type\":\"literal\",\"value\":\"x\",\"lang\":\"\"}]}}",
		"{\"http://e/s\":{\"http://e/p\":[{\"type\":\"literal\",\"value\":\"x\",\"lang\":\"en\",\"datatype\":\"http://www.w3.org/1999/02/22-rdf-syntax-ns#langString\"}]}}",
		"{\"_:\":{\"http://e/p\":[{\"type\":\"bnode\",\"value\":\"_:\"}]}}", "{\"http://e/s\":{\"http://e/p\":[{\"type\":\"uri\",\"value\":\"\"}]}}",
		"{\"http://e/s\":{\"http://e/p\":[{\"type\":\"literal\",\"value\":\"x\"}]},\"http://e/s\":{1:2}}", "{\"http://e/s\":{\"http://e/p\":[{\"type\":\"literal\",\"value\":\"x\",\"datatype\":\"\"}]}}", "{} {}", "[]"},
	"jsonld": {"{\"@id\":\"http://e/s\",\"http://e/p\":{\"@value\":\"x\",\"@language\":\"\"}}", "{\"@id\":\"http://e/s\",\"@type\":\"_:b\",\"http://e/p\":{\"@value\":\"x\",\"@type\":\"_:t\"}}",
		"{\"@id\":\"rel\",\"http://e/p\":{\"@id\":\"rel2\"}}", "{\"@context\":{\"@vocab\":\"\"},\"p\":1}", "{\"@id\":\"http://e/s\",\"http://e/p\":{\"@value\":\"x\",\"@language\":\"en\",\"@direction\":\"ltr\"}}",
		"{\"@id\":\"http://e/s\",\"_:p\":1,\"http://e/p\":{\"@list\":[[],[1]]}}", "{\"@graph\":[{\"@id\":\"_:g\",\"@graph\":{\"@id\":\"http://e/s\",\"http://e/p\":3000000000}}]}", "{\"@reverse\":{\"http://e/p\":\"x\"}}"},
	"rdfxml": {"<rdf:RDF xmlns:rdf=\"http://www.w3.org/1999/02/22-rdf-syntax-ns#\" xmlns:e=\"http://e/\"><rdf:Description rdf:about=\"s\"><e:p xml:lang=\"\">x</e:p><e:q rdf:resource=\"\"/><e:r rdf:datatype=\"\">1</e:r></rdf:Description></rdf:RDF>",
		"<rdf:RDF xmlns:rdf=\"http://www.w3.org/1999/02/22-rdf-syntax-ns#\" xmlns:e=\"http://e/\"><e:C rdf:ID=\"a\"><e:p rdf:parseType=\"Collection\"/><e:q rdf:parseType=\"Literal\"><b xmlns=\"u:x\">t</b></e:q></e:C></rdf:RDF>",
		"<e:C xmlns:e=\"http://e/\" xmlns:rdf=\"http://www.w3.org/1999/02/22-rdf-syntax-ns#\" rdf:nodeID=\"\" e:p=\"v\"/>"},
	"htmlrdfa": {"<html><body vocab=\"\" typeof=\"\"><p property=\"\" content=\"x\" lang=\"\"></p><a rel=\"\" href=\"\"></a><span property=\"p\" datatype=\"\">x</span></body></html>",
		"<html><body vocab='http://v/'><p about=\"http://e/s\" property=\"p\" content>x</p><a about=http://e/s rel=\"q\" href>y</a><span about resource property=\"r\" datatype lang>z</span><img about=\"http://e/s\" rel=\"i\" src></body></html>",
		"<html prefix=\"e: http://e/ e2:\"><body about=\"[_:]\" typeof=\"e:T\"><p property=\"e:p\" inlist=\"\">x</p><p rel=\"e:q\" inlist=\"\" resource=\"[e:]\"></p><time property=\"e:t\" datetime=\"P1D\">x</time></body></html>"},
	"htmlmicrodata": {"<div itemscope itemtype=\"\" itemid=\" \"><span itemprop=\"\">x</span><a itemprop=\"p\" href=\"\">y</a><meta itemprop=\"q\"><time itemprop=\"t\">z</time><div itemprop=\"r\" itemscope></div></div>",
		"<div itemscope itemref=\"a a b\" id=\"a\"><span id=\"b\" itemprop=\"p\" itemscope itemref=\"a\">x</span></div>",
		"<div itemscope><a itemprop=\"p\" href>y</a><time itemprop=\"t\" datetime>z</time><meta itemprop=\"q\" content><img itemprop=\"i\" src><data itemprop=\"d\" value>v</data><a itemprop='s' href='http://e/x'>w</a><object itemprop=o data=http://e/y></object></div>"},
	"htmljsonld":   {"<html><head><script type=\"application/ld+json\">{\"@id\":\"http://e/s\",\"http://e/p\":{\"@value\":\"x\",\"@language\":\"\"}}</script><script type=\"application/ld+json\">[</script></head></html>"},
	"htmldefaults": {"<html><head><base href=\"http://b/\"><script type=\"application/ld+json\">{\"@id\":\"_:a\",\"http://e/p\":{\"@id\":\"_:a\"}}</script></head><body about=\"_:a\" vocab=\"http://e/\"><p property=\"p\" itemscope itemprop=\"q\">x</p></body></html>"},
}

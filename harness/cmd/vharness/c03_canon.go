package main

import (
	"bytes"
	"context"
	"crypto/sha256"
	"crypto/sha512"
	"fmt"
	"hash"
	"hash/fnv"
	"os"
	"path/filepath"
	"sort"
	"strings"
	"time"

	"github.com/dpb587/rdfkit-go/encoding/nquads"
	"github.com/dpb587/rdfkit-go/rdf"
	"github.com/dpb587/rdfkit-go/rdf/quads"
	"github.com/dpb587/rdfkit-go/rdfcanon"
	"verifharness/hx"
)

func init() {
	families["c03-canon"] = c03Canon
	families["c03-limits"] = c03Limits
	families["c04-vectors"] = c04Vectors
}

type canonOut struct {
	err   string
	bytes []byte
	lines []string
	orig  []int64
	ids   map[rdf.BlankNodeIdentifier]string
}

type sliceQuadIter struct {
	qs []rdf.Quad
	i  int
}

func (s *sliceQuadIter) Next() bool               { s.i++; return s.i <= len(s.qs) }
func (s *sliceQuadIter) Quad() rdf.Quad           { return s.qs[s.i-1] }
func (s *sliceQuadIter) Statement() rdf.Statement { return s.qs[s.i-1] }
func (s *sliceQuadIter) Err() error               { return nil }
func (s *sliceQuadIter) Close() error             { return nil }

func canonRun(qs []rdf.Quad, hf func() hash.Hash) (out canonOut) {
	defer func() {
		if p := recover(); p != nil {
			out.err = fmt.Sprintf("panic: %v", p)
		}
	}()
	cfg := rdfcanon.CanonicalizeConfig{}
	if hf != nil {
		cfg = cfg.SetHashFunc(hf)
	}
	ctx, cancel := context.WithTimeout(context.Background(), 20*time.Second)
	defer cancel()
	c, err := rdfcanon.Canonicalize(ctx, &sliceQuadIter{qs: qs}, cfg)
	if err != nil {
		out.err = err.Error()
		return
	}
	var buf bytes.Buffer
	if _, err := c.WriteTo(&buf); err != nil {
		out.err = "write: " + err.Error()
		return
	}
	out.bytes = buf.Bytes()
	it := c.NewIterator()
	for it.Next() {
		out.lines = append(out.lines, string(it.EncodedQuad()))
		out.orig = append(out.orig, it.OriginalQuadIndex())
	}
	out.ids = map[rdf.BlankNodeIdentifier]string{}
	for _, q := range qs {
		for _, t := range []rdf.Term{q.Triple.Subject, q.Triple.Object, termOrNil(q.GraphName)} {
			if b, ok := t.(rdf.BlankNode); ok {
				out.ids[b.Identifier] = c.GetBlankNodeIdentifier(b)
			}
		}
	}
	return
}

func termOrNil(g rdf.GraphNameValue) rdf.Term {
	if g == nil {
		return nil
	}
	return g.(rdf.Term)
}

func fnvHash() hash.Hash { return fnv.New64a() }

// ---- dataset shapes ----

// canonGen: datasets over nb blank nodes with the symmetric shapes the property names
func canonGen(r *hx.Rand) ([]rdf.Quad, string) {
	f := rdf.NewBlankNodeFactory()
	bn := func(n int) []rdf.BlankNode {
		var out []rdf.BlankNode
		for i := 0; i < n; i++ {
			out = append(out, f.NewBlankNode())
		}
		return out
	}
	p := func(i int) rdf.IRI { return rdf.IRI(fmt.Sprintf("http://e/p%d", i)) }
	var qs []rdf.Quad
	add := func(s rdf.SubjectValue, pi int, o rdf.ObjectValue, g rdf.GraphNameValue) {
		qs = append(qs, rdf.Quad{Triple: rdf.Triple{Subject: s, Predicate: p(pi), Object: o}, GraphName: g})
	}
	shape := hx.Pick(r, []string{"cycle", "clique", "copies", "star", "path", "random", "random", "selfref", "graphs", "two-cycles", "literal-mix", "grid",
		"big-cycle", "overlap", "dense", "bn-graphs", "rot3", "graph-pairs", "random-copies", "random-copies"})
	switch shape {
	case "cycle":
		n := 2 + r.Intn(6)
		b := bn(n)
		for i := range b {
			add(b[i], 0, b[(i+1)%n], nil)
		}
	case "big-cycle": // more than ten temporary identifiers in one result
		n := 8 + r.Intn(6)
		b := bn(n)
		for i := range b {
			add(b[i], 0, b[(i+1)%n], nil)
		}
	case "overlap": // cycles over the same nodes which share edges
		n := 4 + r.Intn(3)
		b := bn(n)
		for i := range b {
			add(b[i], 0, b[(i+1)%n], nil)
		}
		step := 2 + r.Intn(2)
		for i := range b {
			if r.Chance(3, 4) {
				add(b[i], 0, b[(i+step)%n], nil)
			}
		}
	case "dense": // one predicate, many edges
		n := 3 + r.Intn(4)
		b := bn(n)
		for i, k := 0, n+r.Intn(2*n); i < k; i++ {
			add(hx.Pick(r, b), 0, hx.Pick(r, b), nil)
		}
	case "bn-graphs": // blank nodes as graph names among the tied nodes
		n := 3 + r.Intn(3)
		b := bn(n)
		for i, k := 0, n+r.Intn(n); i < k; i++ {
			var o rdf.ObjectValue = rdf.IRI("http://e/o")
			if r.Bool() {
				o = hx.Pick(r, b)
			}
			add(hx.Pick(r, b), r.Intn(2), o, hx.Pick(r, b))
		}
	case "graph-pairs": // pairs which name each other as subject and graph, linked asymmetrically
		k := 2 + r.Intn(2)
		b := bn(2 * k)
		lit := rdf.Literal{Datatype: rdf.IRI(xsdNS + "string"), LexicalForm: "a"}
		for i := 0; i < k; i++ {
			add(b[2*i], 0, lit, b[2*i+1])
			add(b[2*i+1], 0, lit, b[2*i])
		}
		for i, m := 0, 1+r.Intn(2); i < m; i++ {
			add(b[r.Intn(2*k)], 1, b[r.Intn(2*k)], nil)
		}
	case "rot3": // rotational symmetry without reflection
		b := bn(3)
		add(b[0], 0, b[1], b[2])
		add(b[1], 0, b[2], b[0])
		add(b[2], 0, b[0], b[1])
	case "two-cycles": // same size or not: isomorphic components
		n, m := 2+r.Intn(3), 2+r.Intn(3)
		b, c := bn(n), bn(m)
		for i := range b {
			add(b[i], 0, b[(i+1)%n], nil)
		}
		for i := range c {
			add(c[i], 0, c[(i+1)%m], nil)
		}
	case "clique":
		n := 2 + r.Intn(3)
		b := bn(n)
		for i := range b {
			for j := range b {
				if i != j {
					add(b[i], 0, b[j], nil)
				}
			}
		}
	case "random-copies": // an irregular sparse digraph, twice: every first-degree hash ties, the N-degree paths are long and branch
		n := 5 + r.Intn(5)
		type edge struct{ a, b, p int }
		var es []edge
		for i := 1; i < n; i++ { // connected
			j := r.Intn(i)
			if r.Bool() {
				es = append(es, edge{i, j, 0})
			} else {
				es = append(es, edge{j, i, 0})
			}
		}
		for x := r.Intn(n); x > 0; x-- {
			es = append(es, edge{r.Intn(n), r.Intn(n), r.Intn(8) / 7})
		}
		for c := 0; c < 2; c++ {
			b := bn(n)
			for _, e := range es {
				add(b[e.a], e.p, b[e.b], nil)
			}
		}
	case "copies":
		k := 2 + r.Intn(2)
		for c := 0; c < k; c++ {
			b := bn(3)
			add(b[0], 0, b[1], nil)
			add(b[1], 1, b[2], nil)
			add(b[2], 0, rdf.IRI("http://e/o"), nil)
		}
	case "star":
		n := 2 + r.Intn(5)
		b := bn(n + 1)
		for i := 1; i <= n; i++ {
			add(b[0], r.Intn(2), b[i], nil)
		}
	case "path":
		n := 2 + r.Intn(6)
		b := bn(n)
		for i := 0; i+1 < n; i++ {
			add(b[i], 0, b[i+1], nil)
		}
	case "selfref":
		b := bn(2 + r.Intn(2))
		add(b[0], 0, b[0], nil)
		add(b[0], 1, b[1], nil)
		if len(b) > 2 {
			add(b[2], 0, b[2], b[2])
		}
	case "graphs":
		b := bn(3)
		add(b[0], 0, b[1], b[2])
		add(b[1], 0, b[0], b[2])
		add(rdf.IRI("http://e/s"), 0, b[2], nil)
		add(b[2], 1, rdf.Literal{Datatype: rdf.IRI(xsdNS + "string"), LexicalForm: "x"}, rdf.IRI("http://e/g"))
	case "grid":
		w := 2 + r.Intn(2)
		b := bn(w * w)
		for i := 0; i < w; i++ {
			for j := 0; j < w; j++ {
				if i+1 < w {
					add(b[i*w+j], 0, b[(i+1)*w+j], nil)
				}
				if j+1 < w {
					add(b[i*w+j], 1, b[i*w+j+1], nil)
				}
			}
		}
	case "literal-mix":
		b := bn(2)
		for _, lex := range []string{"\t", "\b", "\f", "\x00", "\x1f", "\x7f", "\"", "\\", "\n", "\r", "'", "\U0001F600", "￾", "é", "\x0b"} {
			if r.Bool() {
				add(hx.Pick(r, b), r.Intn(3), rdf.Literal{Datatype: rdf.IRI(xsdNS + "string"), LexicalForm: "a" + lex + "b"}, nil)
			}
		}
		add(b[0], 0, b[1], nil)
		add(b[1], 0, rdf.Literal{Datatype: rdf.IRI(rdfNS + "langString"), LexicalForm: "x", Tag: rdf.LanguageLiteralTag{Language: "en-US"}}, nil)
	default:
		n := 1 + r.Intn(5)
		b := bn(n)
		for i, k := 0, 1+r.Intn(8); i < k; i++ {
			var s rdf.SubjectValue = hx.Pick(r, b)
			if r.Chance(1, 4) {
				s = rdf.IRI(fmt.Sprintf("http://e/s%d", r.Intn(2)))
			}
			var o rdf.ObjectValue = hx.Pick(r, b)
			switch r.Intn(4) {
			case 0:
				o = rdf.IRI(fmt.Sprintf("http://e/o%d", r.Intn(2)))
			case 1:
				o = rdf.Literal{Datatype: rdf.IRI(xsdNS + "string"), LexicalForm: fmt.Sprint(r.Intn(2))}
			}
			var g rdf.GraphNameValue
			switch r.Intn(5) {
			case 0:
				g = hx.Pick(r, b)
			case 1:
				g = rdf.IRI("http://e/g")
			}
			add(s, r.Intn(2), o, g)
		}
	}
	// decorate some nodes so that symmetry is partly broken
	if r.Chance(1, 3) && len(qs) > 0 {
		if b, ok := qs[r.Intn(len(qs))].Triple.Subject.(rdf.BlankNode); ok {
			add(b, 9, rdf.IRI("http://e/mark"), nil)
		}
	}
	// a dataset is a set
	seen := map[string]bool{}
	nm := hx.NewNamer()
	var out []rdf.Quad
	for _, q := range qs {
		k := nm.Quad(q).String()
		if !seen[k] {
			seen[k] = true
			out = append(out, q)
		}
	}
	return out, shape
}

// relabel+permute: an isomorphic copy with fresh blank nodes in another order
func canonVariant(r *hx.Rand, qs []rdf.Quad) []rdf.Quad {
	f := rdf.NewBlankNodeFactory()
	m := map[rdf.BlankNodeIdentifier]rdf.BlankNode{}
	// fresh nodes created in random order so that identifier order does not follow occurrence order
	var ids []rdf.BlankNodeIdentifier
	for _, q := range qs {
		for _, t := range []rdf.Term{q.Triple.Subject, q.Triple.Object, termOrNil(q.GraphName)} {
			if b, ok := t.(rdf.BlankNode); ok {
				if _, seen := m[b.Identifier]; !seen {
					m[b.Identifier] = rdf.BlankNode{}
					ids = append(ids, b.Identifier)
				}
			}
		}
	}
	for i := len(ids) - 1; i > 0; i-- {
		j := r.Intn(i + 1)
		ids[i], ids[j] = ids[j], ids[i]
	}
	for _, id := range ids {
		m[id] = f.NewBlankNode()
	}
	ren := func(t rdf.Term) rdf.Term {
		if b, ok := t.(rdf.BlankNode); ok {
			return m[b.Identifier]
		}
		return t
	}
	out := make([]rdf.Quad, len(qs))
	for i, q := range qs {
		nq := rdf.Quad{Triple: rdf.Triple{Subject: ren(q.Triple.Subject).(rdf.SubjectValue), Predicate: q.Triple.Predicate, Object: ren(q.Triple.Object).(rdf.ObjectValue)}}
		if q.GraphName != nil {
			nq.GraphName = ren(q.GraphName.(rdf.Term)).(rdf.GraphNameValue)
		}
		out[i] = nq
	}
	for i := len(out) - 1; i > 0; i-- {
		j := r.Intn(i + 1)
		out[i], out[j] = out[j], out[i]
	}
	return out
}

// canonSelfCheck: the structural half of the property on one run
func canonSelfCheck(qs []rdf.Quad, o canonOut) string {
	if o.err != "" {
		return ""
	}
	if len(o.lines) != len(qs) {
		return fmt.Sprintf("%d lines for %d quads", len(o.lines), len(qs))
	}
	if !sort.StringsAreSorted(o.lines) {
		return "the lines are not sorted"
	}
	for i := 1; i < len(o.lines); i++ {
		if o.lines[i] == o.lines[i-1] {
			return "duplicate line " + o.lines[i]
		}
	}
	if strings.Join(o.lines, "") != string(o.bytes) {
		return "the iterator's lines differ from the written document"
	}
	// issued identifiers: one-to-one, c14n0..c14n(k-1)
	used := map[string]bool{}
	for _, id := range o.ids {
		if used[id] {
			return "two blank nodes share the canonical identifier " + id
		}
		used[id] = true
	}
	for i := 0; i < len(o.ids); i++ {
		if !used[fmt.Sprintf("c14n%d", i)] {
			return fmt.Sprintf("the issued identifiers are not c14n0..c14n%d", len(o.ids)-1)
		}
	}
	// every line is its original quad under the issued identifiers
	seenIdx := map[int64]bool{}
	for i, ln := range o.lines {
		idx := o.orig[i]
		if idx < 0 || int(idx) >= len(qs) || seenIdx[idx] {
			return fmt.Sprintf("line %d names original quad %d", i, idx)
		}
		seenIdx[idx] = true
		if want := canonSerialize(qs[idx], o.ids); want != ln {
			return fmt.Sprintf("line %d is %q, original quad %d under the issued identifiers is %q", i, ln, idx, want)
		}
	}
	// parses back to an isomorphic dataset
	back, err := quads.CollectErr(nquads.NewDecoder(bytes.NewReader(o.bytes), nquads.DecoderConfig{}))
	if err != nil {
		return "the output does not parse: " + err.Error()
	}
	var a, b []hx.Q
	na, nb := hx.NewNamer(), hx.NewNamer()
	for _, q := range qs {
		a = append(a, na.Quad(q))
	}
	for _, q := range back {
		b = append(b, nb.Quad(q))
	}
	if why := hx.IsoSetsWhy(a, b); why != "" {
		return "the output is not isomorphic to the input: " + why
	}
	return ""
}

// canonSerialize: canonical N-Quads of a quad under an identifier map, written independently of the repository's writers
func canonSerialize(q rdf.Quad, ids map[rdf.BlankNodeIdentifier]string) string {
	term := func(t rdf.Term) string {
		switch t := t.(type) {
		case rdf.IRI:
			return "<" + string(t) + ">"
		case rdf.BlankNode:
			return "_:" + ids[t.Identifier]
		case rdf.Literal:
			var sb strings.Builder
			sb.WriteByte('"')
			for _, c := range t.LexicalForm {
				switch {
				case c == '\b':
					sb.WriteString(`\b`)
				case c == '\t':
					sb.WriteString(`\t`)
				case c == '\n':
					sb.WriteString(`\n`)
				case c == '\f':
					sb.WriteString(`\f`)
				case c == '\r':
					sb.WriteString(`\r`)
				case c == '"':
					sb.WriteString(`\"`)
				case c == '\\':
					sb.WriteString(`\\`)
				case c <= 0x1f || c == 0x7f || c == 0xfffe || c == 0xffff:
					fmt.Fprintf(&sb, `\u%04X`, c)
				default:
					sb.WriteRune(c)
				}
			}
			sb.WriteByte('"')
			switch {
			case string(t.Datatype) == xsdNS+"string":
			case string(t.Datatype) == rdfNS+"langString":
				if l, ok := t.Tag.(rdf.LanguageLiteralTag); ok {
					sb.WriteString("@" + l.Language)
				}
			default:
				sb.WriteString("^^<" + string(t.Datatype) + ">")
			}
			return sb.String()
		}
		return "?"
	}
	s := term(q.Triple.Subject) + " " + term(q.Triple.Predicate) + " " + term(q.Triple.Object)
	if q.GraphName != nil {
		s += " " + term(q.GraphName.(rdf.Term))
	}
	return s + " .\n"
}

func c03Canon(r *hx.Rand, n int, out *hx.Out, _ []string) {
	for c := 0; c < n; c++ {
		rr := r.Fork()
		qs, shape := canonGen(rr)
		hf, hname := fnvHash, "fnv64a"
		if c%4 == 0 {
			hf, hname = nil, "sha256"
		}
		base := canonRun(qs, hf)
		oracle := ""
		if base.err != "" {
			oracle = "canonicalization fails on a small dataset: " + base.err
		} else if w := canonSelfCheck(qs, base); w != "" {
			oracle = w
		}
		// the harness' own RDFC-1.0, with ties broken both ways
		rq, twice := canonRefQuads(qs)
		rhf := hf
		if rhf == nil {
			rhf = sha256.New
		}
		ref1, _, lim1, _ := refCanonicalize(rq, rhf, false)
		ref2, _, lim2, _ := refCanonicalize(rq, rhf, true)
		ref3, _, _, _ := refCanonicalize(rq, rhf, false, true)
		ref4, _, _, _ := refCanonicalize(rq, rhf, true, true)
		// RDFC-1.0 itself depends on the order of its input here: some tie is broken differently, with a different result
		orderDependent := ref1 != ref2 || ref1 != ref3 || ref1 != ref4
		switch {
		case oracle != "" || lim1 || lim2 || twice:
			// nothing to compare with (a quad naming one blank node twice is left to the implementation's choice)
		case !orderDependent && string(base.bytes) != ref1:
			oracle = fmt.Sprintf("the output differs from RDFC-1.0 as the harness computes it (%s):\n%s--- reference ---\n%s", hname, base.bytes, ref1)
		}
		if orderDependent {
			shape += " order-dependent"
		}
		// isomorphic copies: same bytes (unless RDFC-1.0 itself depends on the order for this dataset)
		for v := 0; v < 4 && oracle == "" && !orderDependent; v++ {
			vq := canonVariant(rr, qs)
			vo := canonRun(vq, hf)
			switch {
			case vo.err != "":
				oracle = "canonicalization fails on an isomorphic copy: " + vo.err
			case !bytes.Equal(vo.bytes, base.bytes):
				oracle = fmt.Sprintf("an isomorphic copy (relabelled, reordered) canonicalizes differently:\n%s--- vs ---\n%s", vo.bytes, base.bytes)
			default:
				if w := canonSelfCheck(vq, vo); w != "" {
					oracle = "on an isomorphic copy: " + w
				}
			}
		}
		// a non-isomorphic neighbour: different bytes
		if oracle == "" && len(qs) > 0 {
			nq := append([]rdf.Quad{}, qs...)
			i := rr.Intn(len(nq))
			q := nq[i]
			q.Triple.Predicate = rdf.IRI("http://e/other")
			nq[i] = q
			var a, b []hx.Q
			na, nb := hx.NewNamer(), hx.NewNamer()
			for _, x := range qs {
				a = append(a, na.Quad(x))
			}
			for _, x := range nq {
				b = append(b, nb.Quad(x))
			}
			if ok, _ := hx.IsoSets(a, b); !ok {
				no := canonRun(nq, hf)
				if no.err == "" && bytes.Equal(no.bytes, base.bytes) {
					oracle = "two datasets which are not isomorphic have the same canonical form"
				}
			}
		}
		nm := hx.NewNamer()
		var desc []string
		for _, q := range qs {
			desc = append(desc, nm.Quad(q).String())
		}
		cs := hx.Case{Kind: "K/C03/canon", Impl: hx.X(string(base.bytes)), Class: shape + " " + hname, NonTri: len(base.ids) >= 2, Oracle: oracle,
			Desc: fmt.Sprintf("%s %s: %s", shape, hname, strings.Join(desc, " | "))}
		if hname == "fnv64a" && base.err == "" && !orderDependent { // where RDFC-1.0 depends on the order, Go's map iteration decides
			cs.Line = canonLine(qs)
		}
		out.Emit(cs)
	}
}

// canonLine: the dataset in the harness' own rendering for the model driver: one quad per field
func canonLine(qs []rdf.Quad) string {
	nm := hx.NewNamer()
	var fs []string
	for _, q := range qs {
		x := nm.Quad(q)
		fs = append(fs, hx.X(x.S)+","+hx.X(x.P)+","+hx.X(canonObj(q.Triple.Object, nm))+","+hx.X(x.G))
	}
	return "canon\tfnv\t" + strings.Join(fs, ";")
}

// objects travel as their canonical N-Quads text (the model's escaping is checked by K/C01 and K/C04/literal)
func canonObj(o rdf.ObjectValue, nm *hx.Namer) string {
	if l, ok := o.(rdf.Literal); ok {
		return strings.TrimSuffix(strings.TrimPrefix(canonSerialize(rdf.Quad{Triple: rdf.Triple{Subject: rdf.IRI("s"), Predicate: rdf.IRI("p"), Object: l}}, nil), "<s> <p> "), " .\n")
	}
	return nm.TermStr(o)
}

// ---- W3C vectors: byte equality with the published results ----
func c04Vectors(r *hx.Rand, n int, out *hx.Out, _ []string) {
	var ins []seedFile
	for _, s := range seeds("nq") {
		if strings.Contains(s.path, "rdf-canon") && strings.HasSuffix(s.path, "-in.nq") {
			ins = append(ins, s)
		}
	}
	manifest := ""
	if len(ins) > 0 {
		if b, err := os.ReadFile(filepath.Join(filepath.Dir(filepath.Dir(ins[0].path)), "manifest.ttl")); err == nil {
			manifest = string(b)
		}
	}
	sort.Slice(ins, func(i, j int) bool { return ins[i].path < ins[j].path })
	for _, in := range ins {
		name := in.path[strings.LastIndex(in.path, "/")+1:]
		id := strings.TrimSuffix(name, "-in.nq")
		var want []byte
		for _, s := range seeds("nq") {
			if strings.HasSuffix(s.path, "/"+id+"-rdfc10.nq") {
				want = s.data
			}
		}
		parsed, err := quads.CollectErr(nquads.NewDecoder(bytes.NewReader(in.data), nquads.DecoderConfig{}))
		if err != nil {
			out.Emit(hx.Case{Kind: "K/C04/w3c", Impl: "unreadable", Class: "input not readable", Desc: name + ": " + err.Error()})
			continue
		}
		// a dataset is a set
		seen := map[string]bool{}
		nm := hx.NewNamer()
		var qs []rdf.Quad
		for _, q := range parsed {
			k := nm.Quad(q).String()
			if !seen[k] {
				seen[k] = true
				qs = append(qs, q)
			}
		}
		var hf func() hash.Hash
		hname := "sha256"
		if i := strings.Index(manifest, "\n:"+id+"c a "); i >= 0 {
			blk := manifest[i+1:]
			if k := strings.Index(blk, "\n  .\n"); k > 0 {
				blk = blk[:k]
			}
			if strings.Contains(blk, "SHA384") {
				hf, hname = sha512.New384, "sha384"
			}
		}
		o := canonRun(qs, hf)
		oracle := ""
		switch {
		case want == nil && o.err == "":
			// a negative test (poison graph): an answer instead of an error is wrong only if it is not even self-consistent
			oracle = canonSelfCheck(qs, o)
		case want == nil:
		case o.err != "":
			oracle = "canonicalization fails: " + o.err
		case !bytes.Equal(o.bytes, want):
			oracle = fmt.Sprintf("the output differs from the published canonical form (%s):\n%s--- published ---\n%s", hname, o.bytes, want)
		default:
			oracle = canonSelfCheck(qs, o)
		}
		out.Emit(hx.Case{Kind: "K/C04/w3c", Impl: fmt.Sprintf("%d bytes err=%q", len(o.bytes), o.err), Class: fmt.Sprintf("%s published=%v", hname, want != nil), NonTri: len(o.ids) > 0, Oracle: oracle,
			Desc: name})
	}
}

// canonRefQuads renders a dataset for the reference implementation; twice reports a quad naming one blank node twice
func canonRefQuads(qs []rdf.Quad) ([]refQuad, bool) {
	nm := hx.NewNamer()
	twice := false
	var out []refQuad
	term := func(t rdf.Term) string {
		if b, ok := t.(rdf.BlankNode); ok {
			return nm.Name(b)
		}
		x := canonSerialize(rdf.Quad{Triple: rdf.Triple{Subject: rdf.IRI("s"), Predicate: rdf.IRI("p"), Object: t.(rdf.ObjectValue)}}, nil)
		return strings.TrimSuffix(strings.TrimPrefix(x, "<s> <p> "), " .\n")
	}
	for _, q := range qs {
		r := refQuad{s: term(q.Triple.Subject), p: term(q.Triple.Predicate), o: term(q.Triple.Object)}
		if q.GraphName != nil {
			r.g = term(q.GraphName.(rdf.Term))
		}
		if isBN(r.s) && (r.s == r.o || r.s == r.g) || isBN(r.o) && r.o == r.g {
			twice = true
		}
		out = append(out, r)
	}
	return out, twice
}

// c03Limits: datasets beyond the documented work limits (recursion depth 512): an error, never an answer that differs
// between isomorphic copies. Two chains of L blank nodes which differ only at their far ends.
func c03Limits(r *hx.Rand, n int, out *hx.Out, _ []string) {
	for c := 0; c < n; c++ {
		rr := r.Fork()
		L := 530 + rr.Intn(150)
		f := rdf.NewBlankNodeFactory()
		var qs []rdf.Quad
		for ch, end := range []string{"http://e/X", "http://e/Y"} {
			_ = ch
			prev := f.NewBlankNode()
			for i := 1; i < L; i++ {
				next := f.NewBlankNode()
				qs = append(qs, rdf.Quad{Triple: rdf.Triple{Subject: prev, Predicate: rdf.IRI("http://e/p0"), Object: next}})
				prev = next
			}
			qs = append(qs, rdf.Quad{Triple: rdf.Triple{Subject: prev, Predicate: rdf.IRI("http://e/p1"), Object: rdf.IRI(end)}})
		}
		render := func(o canonOut) string {
			switch {
			case strings.Contains(o.err, "recursion depth"):
				return "!depth"
			case strings.Contains(o.err, "maximum iterations"):
				return "!perm"
			case o.err != "":
				return "!error " + o.err
			}
			return hx.X(string(o.bytes))
		}
		base := canonRun(qs, fnvHash)
		oracle := ""
		if base.err == "" {
			// an answer beyond the limit: it must at least be the same for isomorphic copies
			for v := 0; v < 2 && oracle == ""; v++ {
				vo := canonRun(canonVariant(rr, qs), fnvHash)
				if vo.err != "" || !bytes.Equal(vo.bytes, base.bytes) {
					oracle = fmt.Sprintf("beyond the recursion limit the implementation answers, and differently for an isomorphic copy (%d-node chains)", L)
				}
			}
		} else if render(base) != "!depth" {
			oracle = "unexpected failure: " + base.err
		}
		out.Emit(hx.Case{Kind: "K/C03/limits", Impl: render(base), Line: canonLine(qs), Class: fmt.Sprintf("two chains of %d..%d", L/50*50, L/50*50+49), NonTri: true, Oracle: oracle,
			Desc: fmt.Sprintf("two chains of %d blank nodes, same predicate, ends tagged X and Y", L)})
	}
}

package main

import (
	"bytes"
	"fmt"
	"regexp"
	"strings"
	"unicode/utf8"

	"github.com/dpb587/cursorio-go/cursorio"
	"github.com/dpb587/rdfkit-go/encoding"
	"github.com/dpb587/rdfkit-go/ontology/rdf/rdfiri"
	"github.com/dpb587/rdfkit-go/rdf"
	"verifharness/hx"
)

func init() { families["c16-offsets"] = c16Offsets }

var reDirective = regexp.MustCompile(`(?i)^\s*(@prefix|@base|prefix|base)\b`)

var reDirectiveLine = regexp.MustCompile(`^\s*((@prefix|@base)\s+([^\s<]*\s*)?<[^<>]*>\s*\.|(?i:prefix|base)\s+([^\s<]*\s*)?<[^<>]*>)\s*(#.*)?$`)

// c16Preamble returns the directive lines of a Turtle/TriG document if all directives precede all other content.
func c16Preamble(doc string) (string, bool) {
	var pre []string
	body := false
	// a line ends at LF, CR or CRLF (comments too)
	for _, ln := range strings.Split(strings.ReplaceAll(strings.ReplaceAll(doc, "\r\n", "\n"), "\r", "\n"), "\n") {
		t := strings.TrimSpace(ln)
		if t == "" || strings.HasPrefix(t, "#") {
			continue
		}
		if reDirective.MatchString(ln) {
			if body || !reDirectiveLine.MatchString(ln) {
				return "", false
			}
			pre = append(pre, ln)
		} else {
			body = true
		}
	}
	return strings.Join(pre, "\n") + "\n", true
}

func c16Term(t rdf.Term) string {
	switch t := t.(type) {
	case rdf.IRI:
		return "I" + string(t)
	case rdf.BlankNode:
		return "B"
	case rdf.Literal:
		return "L" + t.LexicalForm
	}
	return "?"
}

// c16Relex decodes a one-statement document built around the slice and returns the term at the position.
func c16Relex(name, pre, slice string, pos encoding.StatementOffsetsType, base string) (string, bool) {
	var doc string
	s, p, o := "<http://zz.example/s>", "<http://zz.example/p>", "<http://zz.example/o>"
	switch pos {
	case encoding.SubjectStatementOffsets:
		doc = slice + " " + p + " " + o + " ."
	case encoding.PredicateStatementOffsets:
		doc = s + " " + slice + " " + o + " ."
	case encoding.ObjectStatementOffsets:
		doc = s + " " + p + " " + slice + " ."
	case encoding.GraphNameStatementOffsets:
		if name == "trig" {
			doc = slice + " { " + s + " " + p + " " + o + " . }"
		} else {
			doc = s + " " + p + " " + o + " " + slice + " ."
		}
	}
	res := zooRun(name, []byte(pre+doc+"\n"), zooOpts{base: base})
	if res.verdict != "ok" || len(res.quads) == 0 {
		return res.verdict + ":" + res.detail, false
	}
	q := res.quads[len(res.quads)-1]
	// blank node property lists and collections used as a term produce further statements; the statement that
	// mentions the marker terms is the one we asked for
	for _, c := range res.quads {
		if strings.Contains(zooStmtStrings([]rdf.Quad{c}), "zz.example") {
			q = c
			break
		}
	}
	switch pos {
	case encoding.SubjectStatementOffsets:
		return c16Term(q.Triple.Subject), true
	case encoding.PredicateStatementOffsets:
		return c16Term(q.Triple.Predicate), true
	case encoding.ObjectStatementOffsets:
		return c16Term(q.Triple.Object), true
	}
	if q.GraphName == nil {
		return "nil", true
	}
	return c16Term(q.GraphName.(rdf.Term)), true
}

var reStructural = regexp.MustCompile(`^(\[|\(|\)|\[([ \t\r\n]|#[^\r\n]*[\r\n])*\]|\(([ \t\r\n]|#[^\r\n]*[\r\n])*\))$`)

func c16Structural(slice string, want rdf.Term) string {
	if !strings.HasPrefix(slice, "[") && !strings.HasPrefix(slice, "(") && !strings.HasPrefix(slice, ")") {
		return ""
	}
	if !reStructural.MatchString(slice) {
		return fmt.Sprintf("the text in the range (%q) is neither a term nor the punctuation that generates one", slice)
	}
	_, isBlank := want.(rdf.BlankNode)
	isNil := want == rdf.Term(rdfiri.Nil_List)
	switch {
	case strings.HasSuffix(slice, ")") && isNil, strings.HasPrefix(slice, "[") && isBlank, slice == "(" && isBlank:
		return "ok"
	}
	return fmt.Sprintf("the punctuation in the range (%q) does not generate the term %s", slice, c16Term(want))
}

func c16StripLiteralNUL(res zooResult) zooResult {
	out := res
	out.quads = nil
	for _, q := range res.quads {
		if l, ok := q.Triple.Object.(rdf.Literal); ok {
			l.LexicalForm = strings.NewReplacer("\x00", "", "\ufffd", "").Replace(l.LexicalForm)
			q.Triple.Object = l
		}
		out.quads = append(out.quads, q)
	}
	return out
}

func c16StripLiteralSpace(res zooResult) zooResult {
	out := res
	out.quads = nil
	for _, q := range res.quads {
		if l, ok := q.Triple.Object.(rdf.Literal); ok {
			l.LexicalForm = strings.Join(strings.Fields(l.LexicalForm), "")
			q.Triple.Object = l
		}
		out.quads = append(out.quads, q)
	}
	return out
}

// a start tag in which a quoted attribute value is directly followed by the next attribute name
var reTag = regexp.MustCompile(`<(/?)([a-zA-Z][a-zA-Z0-9]*)([^<>]*)>`)
var htmlVoid = map[string]bool{"area": true, "base": true, "br": true, "col": true, "embed": true, "hr": true, "img": true, "input": true, "link": true, "meta": true, "source": true, "track": true, "wbr": true}
var closesP = map[string]bool{"p": true, "div": true, "section": true, "ul": true, "ol": true, "li": true, "table": true, "td": true, "h1": true, "form": true, "pre": true, "blockquote": true}

// c16UnbalancedFormatting: the markup is not plainly nested, so the HTML tree builder closes elements implicitly,
// clones or re-parents them (end tag not matching the open element, unclosed elements, a block start inside <p>,
// <a> inside <a>, <li> directly inside <li>, table cells outside a table, repeated <html>/<head>/<body>)
func c16UnbalancedFormatting(doc []byte) bool {
	var stack []string
	seen := map[string]int{}
	on := func(t string) bool {
		for _, x := range stack {
			if x == t {
				return true
			}
		}
		return false
	}
	for _, m := range reTag.FindAllStringSubmatch(strings.ToLower(string(doc)), -1) {
		end, tag := m[1] == "/", m[2]
		if end {
			if htmlVoid[tag] {
				return true
			}
			if len(stack) == 0 || stack[len(stack)-1] != tag {
				return true
			}
			stack = stack[:len(stack)-1]
			continue
		}
		seen[tag]++
		switch {
		case (tag == "html" || tag == "head" || tag == "body") && seen[tag] > 1:
			return true
		case tag == "td" || tag == "tr" || tag == "th" || tag == "tbody":
			return true
		case closesP[tag] && on("p"):
			return true
		case tag == "a" && on("a"):
			return true
		case tag == "li" && len(stack) > 0 && stack[len(stack)-1] == "li":
			return true
		}
		if !htmlVoid[tag] {
			stack = append(stack, tag)
		}
	}
	return len(stack) > 0
}

var reUnquotedSlash = regexp.MustCompile(`=[^\s"'<>=]+/>`)
var reBodyTag = regexp.MustCompile(`(?i)<body[\s>/]`)
var reHTMLTag = regexp.MustCompile(`(?i)<html[\s>/]`)
var reAbuttingAttr = regexp.MustCompile(`<[a-zA-Z][^<>]*=\s*("[^"<>]*"|'[^'<>]*')[^\s>/'"<][^<>]*>`)

// minimal documents of the known findings and of repaired defects: run first, every time
var c16Pinned = []struct{ name, doc string }{
	{"htmlrdfa", "<root prefix=\"dc: http://purl.org/dc/elements/1.1/\"><body>\n<span about=\"#b\" property=\"dc:title\" />\n  </body>\n</root>"}, // F40
	{"htmldefaults", "<?"}, // F49
	{"htmlmicrodata", "<html><body><body itemscope><div itemprop=\"a\" itemscope></div></body></html>"},                                                                                                     // F52
	{"htmlrdfa", "<html v=\"\"sion=\"XHTML+RDFa 1.1\" prefix=\"ex: http://example.org/\">\n<head>\n<meta about=\"http://example.org/node\" property=\"ex:property\" content=\"chat\" />\n</head>\n</html>"}, // F50
	{"htmlrdfa", "<html><body vocab=\"http://e/\"><p about=\"http://e/s\" property=\"q\">a\x00b</p></body></html>"},                                                                                         // F51
	{"htmlrdfa", "<html><body vocab=\"http://e/\"><p about=\"http://e/s\" property=\"q\">a\xffb</p></body></html>"},                                                                                         // F36b
	{"turtle", "<http://e/s> <http://e/p> \"\" , \"\"@en , _:b1 , ( ) , ( 1 ) , [ ] .\n_:b2 <http://e/p> \"\" .\n"},                                                                                         // F43, F44
	{"nquads", "<http://e/s> <http://e/p> \"x\"^^"}, // F47
	{"rdfxml", "<e:C xmlns:e=\"http://e/\" xmlns:rdf=\"http://www.w3.org/1999/02/22-rdf-syntax-ns#\" rdf:nodeID=\"\" e:p=\"v\"/>"},                                                // F48
	{"rdfxml", "<rdf:RDF xmlns:rdf=\"http://www.w3.org/1999/02/22-rdf-syntax-ns#\" xmlns:e=\"http://e/\"><rdf:Description><e:p rdf:ID=\"r\">v</e:p></rdf:Description></rdf:RDF>"}, // F45
}

var c16OffsetDecoders = []string{"ntriples", "nquads", "turtle", "trig", "rdfxml", "rdfjson", "jsonld", "htmlrdfa", "htmlmicrodata", "htmljsonld", "htmldefaults"}

func c16Offsets(r *hx.Rand, n int, out *hx.Out, _ []string) {
	for c := 0; c < n; c++ {
		rr := r.Fork()
		name := c16OffsetDecoders[c%len(c16OffsetDecoders)]
		if c%2 == 0 {
			name = c16OffsetDecoders[(c/2)%4]
		}
		doc, kind := c15Doc(rr, name)
		broken := rr.Intn(8)
		if c < len(c16Pinned) {
			name, doc, kind, broken = c16Pinned[c].name, []byte(c16Pinned[c].doc), "pinned", 7
		}
		if strings.HasPrefix(name, "html") {
			// HTML-family capture runs on inspecthtml-go's token rewriting, whose behaviour on malformed markup is the
			// subject of known findings F35, F36, F49-F51 (pinned in the corpus below); well-formed documents only here
			broken = 7
		}
		switch broken { // a share of broken documents: the positions reported with syntax errors
		case 0:
			if len(doc) > 0 {
				doc, kind = doc[:rr.Intn(len(doc))], kind+"-cut"
			}
		case 1:
			doc, kind = mutate(rr, doc, mutDictFor(name)), kind+"-mutated"
		}
		init := cursorio.TextOffset{}
		if rr.Bool() {
			init = cursorio.TextOffset{Byte: cursorio.ByteOffset(rr.Intn(1000)), LineColumn: cursorio.TextLineColumn{int64(rr.Intn(50)), int64(rr.Intn(80))}}
		}
		base := ""
		if name != "ntriples" && name != "nquads" && rr.Bool() {
			base = "http://example.org/dir/doc"
		}
		off := zooRun(name, doc, zooOpts{offsets: false, base: base})
		on := zooRun(name, doc, zooOpts{offsets: true, init: init, base: base})
		oracle, sig := "", ""
		if on.verdict == "panic" || strings.Contains(on.detail, "no grapheme cluster found") {
			// the offset bookkeeping itself fails: capture changes the result. Two such defects are known findings (F35, F36).
			oracle = fmt.Sprintf("offset capture changes the result: %s (%s), without capture %s", on.verdict, on.detail, off.verdict)
			switch {
			case strings.Contains(on.detail, "no grapheme cluster found") && !utf8.Valid(doc):
				sig = "C16/offsets-invalid-utf8-grapheme-panic"
			case strings.HasPrefix(name, "html") && strings.Contains(on.detail, "index out of range") && off.verdict != "panic" && c16UnbalancedFormatting(doc):
				sig = "C16/html-capture-reparented-metadata"
			case strings.HasPrefix(name, "html") && strings.Contains(on.detail, "nil pointer dereference") && off.verdict != "panic":
				sig = "C16/html-offsets-missing-node-metadata"
			case strings.HasPrefix(name, "html") && strings.Contains(on.detail, "index out of range") && off.verdict != "panic" && (len(reBodyTag.FindAll(doc, 3)) > 1 || len(reHTMLTag.FindAll(doc, 3)) > 1):
				sig = "C16/html-capture-repeated-body-tag-panic"
			}
			on = off
			on.offs, on.errOffs = nil, nil
		}
		if !c15Same(name, off, on) {
			oracle = fmt.Sprintf("offset capture changes the result: %s with %d statements, without capture %s with %d", on.verdict, len(on.quads), off.verdict, len(off.quads))
			switch {
			case strings.HasPrefix(name, "html") && c15Same(name, c16StripLiteralSpace(off), c16StripLiteralSpace(on)):
				sig = "C16/html-capture-whitespace-text-placement" // known finding F40: only white space inside literals differs
			case strings.HasPrefix(name, "html") && bytes.IndexByte(doc, 0) >= 0 && c15Same(name, c16StripLiteralNUL(off), c16StripLiteralNUL(on)):
				sig = "C16/html-capture-nul-in-text" // known finding F51: only U+0000 inside literals differs
			case strings.HasPrefix(name, "html") && on.verdict == "ok" && off.verdict == "ok" && reUnquotedSlash.Match(doc):
				sig = "C16/html-capture-unquoted-value-trailing-slash" // known finding F95: "/" ending an unquoted value right before ">"
			case strings.HasPrefix(name, "html") && on.verdict == "ok" && off.verdict == "ok" && (len(reBodyTag.FindAll(doc, 3)) > 1 || len(reHTMLTag.FindAll(doc, 3)) > 1):
				sig = "C16/html-capture-repeated-body-tag" // known finding F52: attributes of a repeated <body>/<html> start tag
			case strings.HasPrefix(name, "html") && on.verdict == "ok" && off.verdict == "ok" && c16UnbalancedFormatting(doc):
				sig = "C16/html-capture-nonplain-markup-tree-differs" // known finding F56
			case strings.HasPrefix(name, "html") && on.verdict == "error" && off.verdict == "ok" && strings.Contains(on.detail, "slice bounds out of range"):
				sig = "C16/html-capture-bogus-comment-slice-bounds" // known finding F49: inspecthtml-go on bogus comments
			}
		}
		simple := true // every code point its own grapheme cluster?
		for _, ch := range string(doc) {
			if ch > 0x7e && !(ch >= 0xc0 && ch <= 0x24f) && !(ch >= 0x4e00 && ch <= 0x9fff) || ch == 0xfffd {
				simple = false
			}
		}
		pre, preOK := c16Preamble(string(doc))
		if kind == "generated" && (name == "turtle" || name == "trig") {
			pre, preOK = c15LastPreamble+"\n", true
		}
		nranges := 0
		for i, so := range on.offs {
			for pos, rg := range so {
				nranges++
				if w := zooCheckRange(doc, init, rg, simple); w != "" {
					oracle = fmt.Sprintf("statement %d %s: %s", i, encoding.StatementOffsetsTypeName(pos), w)
					if strings.HasPrefix(name, "html") && reAbuttingAttr.Match(doc) {
						sig = "C16/html-capture-abutting-attributes" // known finding F50
					} else if strings.HasPrefix(name, "html") && c16UnbalancedFormatting(doc) {
						sig = "C16/html-capture-reparented-metadata" // known finding F53
					}
					continue
				}
				if !isStreaming(name) || i >= len(on.quads) {
					continue
				}
				if (name == "turtle" || name == "trig") && !preOK {
					continue
				}
				slice := string(doc[int(rg.From.Byte)-int(init.Byte) : int(rg.Until.Byte)-int(init.Byte)])
				var want rdf.Term
				q := on.quads[i]
				switch pos {
				case encoding.SubjectStatementOffsets:
					want = q.Triple.Subject
				case encoding.PredicateStatementOffsets:
					want = q.Triple.Predicate
				case encoding.ObjectStatementOffsets:
					want = q.Triple.Object
				case encoding.GraphNameStatementOffsets:
					if q.GraphName != nil {
						want = q.GraphName.(rdf.Term)
					}
				}
				if want == nil {
					continue
				}
				p := pre
				if name == "ntriples" || name == "nquads" {
					p = ""
				}
				if name == "turtle" || name == "trig" {
					// terms generated by the collection and blank node property list sugar have no token of their own:
					// their range is the punctuation that generates them
					if w := c16Structural(slice, want); w == "ok" {
						continue
					} else if w != "" {
						oracle = fmt.Sprintf("statement %d %s: %s", i, encoding.StatementOffsetsTypeName(pos), w)
						continue
					}
				}
				got, ok := c16Relex(name, p, slice, pos, base)
				if !ok {
					oracle = fmt.Sprintf("statement %d %s: the text in the range (%q) does not decode as a term: %s", i, encoding.StatementOffsetsTypeName(pos), slice, got)
				} else if got != c16Term(want) && !(got == "B" || c16Term(want) == "B") {
					oracle = fmt.Sprintf("statement %d %s: the text in the range (%q) decodes to %q, the statement has %q", i, encoding.StatementOffsetsTypeName(pos), slice, got, c16Term(want))
				} else if (got == "B") != (c16Term(want) == "B") {
					oracle = fmt.Sprintf("statement %d %s: the text in the range (%q) is of a different kind than the term", i, encoding.StatementOffsetsTypeName(pos), slice)
				}
			}
		}
		for _, rg := range on.errOffs {
			// positions reported with a syntax error: inside the document, start not after end (line/column of an
			// error position are compared only for simple text: the error may point into the middle of a cluster)
			if w := zooCheckRange(doc, init, rg, simple); w != "" {
				oracle = "syntax error position: " + w
			}
		}
		nerr := len(on.errOffs)
		sample := string(doc)
		if len(sample) > 300 {
			sample = sample[:300] + "..."
		}
		cs := hx.Case{Kind: "K/C16/" + name, Impl: fmt.Sprintf("%s stmts=%d ranges=%d errpos=%d", on.verdict, len(on.quads), nranges, nerr), Class: fmt.Sprintf("%s init=%v simple=%v %s", kind, init.Byte != 0, simple, on.verdict),
			NonTri: nranges > 0, Oracle: oracle, Sig: sig, Desc: fmt.Sprintf("%s %s init=%v: %q", name, kind, init, sample)}
		if oracle != "" {
			cs.In = []string{name, fmt.Sprintf("%x", doc), fmt.Sprintf("init=%v base=%q", init, base)}
		}
		if (name == "ntriples" || name == "nquads") && len(doc) < 3000 && simple { // the model counts one column per code point
			do := nqDecodeOpts{nq: name == "nquads", offsets: true, init: init}
			cs.Line = nqDecLine(doc, do)
			cs.Impl = nqDecodeImpl(doc, do).String()
		}
		out.Emit(cs)
	}
}

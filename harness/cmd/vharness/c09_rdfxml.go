package main

// c09_rdfxml.go — grammar-directed writer of RDF/XML documents. It draws an abstract element tree production by
// production (RDF 1.1 XML Syntax, section 7), writes it as XML text with free choices of prefixes, attribute order and
// quoting, white space, comments, character references and CDATA, and hands the same tree to the Gallina model of the
// RDF/XML mapping, whose triples are what the document denotes.

import (
	"bytes"
	"encoding/hex"
	"encoding/xml"
	"fmt"
	"io"
	"sort"
	"strings"

	"github.com/dpb587/rdfkit-go/rdf"
	"verifharness/hx"
)

func init() { families["c09-rdfxml"] = c09RDFXML }

const exNS = "http://example.org/ns#"
const ex2NS = "http://other.example/v/"
const xmlNS = "http://www.w3.org/XML/1998/namespace"

type xn struct {
	name   string // expanded
	attrs  [][2]string
	kids   []*xn
	text   string
	isText bool
}

type c09Gen struct {
	r    *hx.Rand
	nid  int
	feat map[string]int
}

func (g *c09Gen) use(f string) { g.feat[f]++ }

var c09Texts = []string{"x", "hello world", "a<b&c", "é日本", " padded ", "line\nbreak", "\"quoted\"", "]]>", "1", "a\tb", "\U0001F600"}
var c09Langs = []string{"en", "fr-CA", "de-Latn-DE", ""}
var c09Refs = []string{"http://example.org/abs", "rel", "../up", "#frag", "", "?q=1", "/root", "//other.example/x", "http://other.example/é"}

func (g *c09Gen) scopeAttrs(n *xn) {
	if g.r.Chance(1, 6) {
		n.attrs = append(n.attrs, [2]string{xmlNS + "lang", hx.Pick(g.r, c09Langs)})
		g.use("xml:lang")
	}
	if g.r.Chance(1, 8) {
		n.attrs = append(n.attrs, [2]string{xmlNS + "base", hx.Pick(g.r, []string{"http://base.example/a/b", "sub/", "../", "http://base.example/x#frag", "/r/"})})
		g.use("xml:base")
	}
}

func (g *c09Gen) propAttrs(n *xn) {
	for i, k := 0, g.r.Intn(3); i < k && g.r.Chance(1, 2); i++ {
		name := hx.Pick(g.r, []string{exNS + "pa", exNS + "pb", ex2NS + "pc"})
		dup := false
		for _, a := range n.attrs {
			if a[0] == name {
				dup = true
			}
		}
		if !dup {
			n.attrs = append(n.attrs, [2]string{name, hx.Pick(g.r, c09Texts)})
			g.use("property-attribute")
		}
	}
	if g.r.Chance(1, 10) {
		n.attrs = append(n.attrs, [2]string{rdfNS + "type", hx.Pick(g.r, c09Refs[:3])})
		g.use("rdf:type-attribute")
	}
}

func (g *c09Gen) node(depth int) *xn {
	n := &xn{name: rdfNS + "Description"}
	if g.r.Chance(1, 3) {
		n.name = hx.Pick(g.r, []string{exNS + "Class", ex2NS + "T", rdfNS + "Seq", rdfNS + "Bag"})
		g.use("typed-node")
	}
	switch g.r.Intn(5) {
	case 0:
		n.attrs = append(n.attrs, [2]string{rdfNS + "about", hx.Pick(g.r, c09Refs)})
		g.use("rdf:about")
	case 1:
		g.nid++
		n.attrs = append(n.attrs, [2]string{rdfNS + "ID", fmt.Sprintf("id%d", g.nid)})
		g.use("rdf:ID")
	case 2:
		n.attrs = append(n.attrs, [2]string{rdfNS + "nodeID", hx.Pick(g.r, []string{"n1", "n2", "b"})})
		g.use("rdf:nodeID")
	case 3:
		n.attrs = append(n.attrs, [2]string{rdfNS + "about", hx.Pick(g.r, c09Refs[:2])})
	}
	g.scopeAttrs(n)
	g.propAttrs(n)
	k := g.r.Intn(4)
	if depth <= 0 {
		k = g.r.Intn(2)
	}
	for i := 0; i < k; i++ {
		n.kids = append(n.kids, g.prop(depth-1))
	}
	return n
}

func (g *c09Gen) prop(depth int) *xn {
	p := &xn{name: hx.Pick(g.r, []string{exNS + "p1", exNS + "p2", ex2NS + "q", rdfNS + "li", rdfNS + "li", rdfNS + "_3", rdfNS + "value"})}
	if p.name == rdfNS+"li" {
		g.use("rdf:li")
	}
	g.scopeAttrs(p)
	if g.r.Chance(1, 8) {
		g.nid++
		p.attrs = append(p.attrs, [2]string{rdfNS + "ID", fmt.Sprintf("st%d", g.nid)})
		g.use("reification")
	}
	kind := g.r.Intn(9)
	if depth <= 0 && (kind == 2 || kind >= 6) {
		kind = g.r.Intn(2)
	}
	switch kind {
	case 0, 1: // literal
		t := hx.Pick(g.r, c09Texts)
		if g.r.Chance(1, 6) {
			t = ""
			g.use("empty-literal")
		}
		if t != "" {
			p.kids = append(p.kids, &xn{isText: true, text: t})
		}
		if g.r.Chance(1, 4) {
			p.attrs = append(p.attrs, [2]string{rdfNS + "datatype", hx.Pick(g.r, []string{xsdNS + "integer", "http://example.org/dt", xsdNS + "string"})})
			g.use("rdf:datatype")
		}
		g.use("literal-property")
	case 2: // resource property element
		p.kids = append(p.kids, g.node(depth))
		g.use("resource-property")
	case 3: // empty with rdf:resource
		p.attrs = append(p.attrs, [2]string{rdfNS + "resource", hx.Pick(g.r, c09Refs)})
		if g.r.Chance(1, 3) {
			g.propAttrs(p)
		}
		g.use("rdf:resource")
	case 4: // empty with rdf:nodeID
		p.attrs = append(p.attrs, [2]string{rdfNS + "nodeID", hx.Pick(g.r, []string{"n1", "n2", "b"})})
		g.use("empty-nodeID")
	case 5: // empty with property attributes only
		p.attrs = append(p.attrs, [2]string{exNS + "pa", hx.Pick(g.r, c09Texts)})
		g.use("empty-property-attributes")
	case 6, 7: // parseType="Resource"
		p.attrs = append(p.attrs, [2]string{rdfNS + "parseType", "Resource"})
		for i, k := 0, g.r.Intn(3); i < k; i++ {
			p.kids = append(p.kids, g.prop(depth-1))
		}
		g.use("parseType-Resource")
	default: // parseType="Collection"
		p.attrs = append(p.attrs, [2]string{rdfNS + "parseType", "Collection"})
		for i, k := 0, g.r.Intn(3); i < k; i++ {
			p.kids = append(p.kids, g.node(depth-1))
		}
		g.use("parseType-Collection")
	}
	return p
}

// ---- the tree for the model ----
func (n *xn) tokens(sb *strings.Builder) {
	if n.isText {
		sb.WriteString("T," + hx.X(n.text) + ",")
		return
	}
	fmt.Fprintf(sb, "E,%s,%d,", hx.X(n.name), len(n.attrs))
	for _, a := range n.attrs {
		sb.WriteString(hx.X(a[0]) + "," + hx.X(a[1]) + ",")
	}
	fmt.Fprintf(sb, "%d,", len(n.kids))
	for _, k := range n.kids {
		k.tokens(sb)
	}
}

// ---- XML text ----
type c09Ser struct {
	r   *hx.Rand
	pfx map[string]string // namespace -> prefix ("" = default namespace for elements)
}

func xmlEscText(r *hx.Rand, s string) string {
	if r.Chance(1, 6) && !strings.Contains(s, "]]>") && s != "" {
		return "<![CDATA[" + s + "]]>"
	}
	var sb strings.Builder
	for _, c := range s {
		switch {
		case c == '<':
			sb.WriteString("&lt;")
		case c == '&':
			sb.WriteString("&amp;")
		case c == '>':
			sb.WriteString(hx.Pick(r, []string{"&gt;", "&#62;"}))
		case r.Chance(1, 15):
			fmt.Fprintf(&sb, hx.Pick(r, []string{"&#%d;", "&#x%x;", "&#x%X;"}), c)
		default:
			sb.WriteRune(c)
		}
	}
	return sb.String()
}

func xmlEscAttr(r *hx.Rand, s string, q byte) string {
	var sb strings.Builder
	for _, c := range s {
		switch {
		case c == '<':
			sb.WriteString("&lt;")
		case c == '&':
			sb.WriteString("&amp;")
		case c == '"' && q == '"':
			sb.WriteString("&quot;")
		case c == '\'' && q == '\'':
			sb.WriteString("&apos;")
		case c == '\n' || c == '\t' || c == '\r':
			fmt.Fprintf(&sb, "&#%d;", c) // attribute value normalisation would turn a raw one into a space
		case r.Chance(1, 20):
			fmt.Fprintf(&sb, "&#x%x;", c)
		default:
			sb.WriteRune(c)
		}
	}
	return sb.String()
}

func splitName(name string) (string, string) {
	for _, ns := range []string{rdfNS, exNS, ex2NS, xmlNS} {
		if strings.HasPrefix(name, ns) {
			return ns, name[len(ns):]
		}
	}
	return "", name
}

func (s *c09Ser) qname(name string, attr bool) string {
	ns, local := splitName(name)
	if ns == xmlNS {
		return "xml:" + local
	}
	p := s.pfx[ns]
	if p == "" && !attr {
		return local
	}
	if p == "" {
		p = s.pfx["attr:"+ns]
	}
	return p + ":" + local
}

func (s *c09Ser) ws() string {
	return hx.Pick(s.r, []string{"", "\n", "  ", "\n\t", " <!-- c -->\n", "\r\n"})
}

func (s *c09Ser) write(sb *strings.Builder, n *xn, root bool) {
	if n.isText {
		sb.WriteString(xmlEscText(s.r, n.text))
		return
	}
	sb.WriteString("<" + s.qname(n.name, false))
	var at []string
	if root {
		var nss []string
		for ns := range s.pfx {
			nss = append(nss, ns)
		}
		sort.Strings(nss)
		for _, ns := range nss {
			p := s.pfx[ns]
			switch {
			case strings.HasPrefix(ns, "attr:"):
				at = append(at, fmt.Sprintf(`xmlns:%s="%s"`, p, strings.TrimPrefix(ns, "attr:")))
			case p == "":
				at = append(at, fmt.Sprintf(`xmlns="%s"`, ns))
			default:
				at = append(at, fmt.Sprintf(`xmlns:%s="%s"`, p, ns))
			}
		}
	}
	attrs := append([][2]string{}, n.attrs...)
	for i := len(attrs) - 1; i > 0; i-- {
		j := s.r.Intn(i + 1)
		attrs[i], attrs[j] = attrs[j], attrs[i]
	}
	for _, a := range attrs {
		q := byte('"')
		if s.r.Chance(1, 4) {
			q = '\''
		}
		at = append(at, s.qname(a[0], true)+hx.Pick(s.r, []string{"=", "=", " = "})+string(q)+xmlEscAttr(s.r, a[1], q)+string(q))
	}
	for _, a := range at {
		sb.WriteString(hx.Pick(s.r, []string{" ", " ", "\n  "}) + a)
	}
	if len(n.kids) == 0 {
		if s.r.Bool() {
			sb.WriteString("/>")
		} else {
			sb.WriteString("></" + s.qname(n.name, false) + ">")
		}
		return
	}
	sb.WriteString(">")
	onlyText := true
	for _, k := range n.kids {
		if !k.isText {
			onlyText = false
		}
	}
	for _, k := range n.kids {
		if !onlyText {
			sb.WriteString(s.ws())
		}
		s.write(sb, k, false)
	}
	if !onlyText {
		sb.WriteString(s.ws())
	}
	sb.WriteString("</" + s.qname(n.name, false) + ">")
}

func c09Term(t rdf.Term, nm *hx.Namer) string {
	switch t := t.(type) {
	case rdf.IRI:
		return "<" + string(t) + ">"
	case rdf.BlankNode:
		return nm.Name(t)
	case rdf.Literal:
		lang := ""
		if l, ok := t.Tag.(rdf.LanguageLiteralTag); ok {
			lang = l.Language
		}
		return "L" + hex.EncodeToString([]byte(t.LexicalForm)) + "^" + string(t.Datatype) + "@" + lang
	}
	return "?"
}

func c09RDFXML(r *hx.Rand, n int, out *hx.Out, _ []string) {
	const base = "http://example.org/dir/doc"
	for c := 0; c < n; c++ {
		rr := r.Fork()
		g := &c09Gen{r: rr, feat: map[string]int{}}
		var root *xn
		if rr.Chance(1, 6) {
			root = g.node(2)
			g.use("root-node-element")
		} else {
			root = &xn{name: rdfNS + "RDF"}
			g.scopeAttrs(root)
			for i, k := 0, 1+rr.Intn(3); i < k; i++ {
				root.kids = append(root.kids, g.node(2))
			}
		}
		ser := &c09Ser{r: rr, pfx: map[string]string{rdfNS: hx.Pick(rr, []string{"rdf", "rdf", "r"}), exNS: hx.Pick(rr, []string{"ex", "e", ""}), ex2NS: "o"}}
		if ser.pfx[exNS] == "" {
			ser.pfx["attr:"+exNS] = "exa" // attributes need a prefix
		}
		var sb strings.Builder
		if rr.Chance(1, 3) {
			sb.WriteString(hx.Pick(rr, []string{"<?xml version=\"1.0\"?>\n", "<?xml version=\"1.0\" encoding=\"UTF-8\"?>", "<?xml version='1.0' encoding='utf-8'?>\n<!-- c -->\n"}))
		}
		ser.write(&sb, root, true)
		if rr.Bool() {
			sb.WriteString("\n")
		}
		doc := sb.String()
		var tk strings.Builder
		root.tokens(&tk)
		tokens := strings.TrimSuffix(tk.String(), ",")
		res := zooRun("rdfxml", []byte(doc), zooOpts{base: base, offsets: rr.Chance(1, 3)})
		impl := "!doc"
		oracle := ""
		if res.verdict == "ok" {
			nm := hx.NewNamer()
			var sts []string
			for _, q := range res.quads {
				sts = append(sts, c09Term(q.Triple.Subject, nm)+" "+c09Term(q.Triple.Predicate, nm)+" "+c09Term(q.Triple.Object, nm))
			}
			impl = strings.Join(sts, ";")
		} else if res.verdict != "error" {
			oracle = res.verdict + ": " + res.detail
		} else {
			impl = "!doc " + res.detail
		}
		var fs []string
		for k := range g.feat {
			fs = append(fs, k)
		}
		sort.Strings(fs)
		cls := strings.Join(fs, "+")
		if len(fs) > 4 {
			cls = fmt.Sprintf("rich(%d productions)", len(fs))
		}
		out.Emit(hx.Case{Kind: "K/C09/rdfxml/iso", Line: "rdfxml\t" + hx.X(base) + "\t" + tokens, Impl: impl, Class: cls, NonTri: len(res.quads) >= 2, Oracle: oracle, Spec: true,
			Desc: fmt.Sprintf("base=%q productions=%v document: %q", base, fs, doc)})
	}
}

// c09-seeds: the RDF/XML documents of the W3C suite shipped in the repository, read by the decoder and by the Coq model
// (from the namespace-resolved tree encoding/xml delivers); documents with rdf:parseType="Literal" are outside the model.
func init() { families["c09-seeds"] = c09Seeds }

func c09TreeOf(data []byte) (*xn, bool) {
	dec := xml.NewDecoder(bytes.NewReader(data))
	var stack []*xn
	var root *xn
	for {
		tok, err := dec.Token()
		if err == io.EOF {
			break
		}
		if err != nil {
			return nil, false
		}
		switch t := tok.(type) {
		case xml.StartElement:
			e := &xn{name: t.Name.Space + t.Name.Local}
			for _, a := range t.Attr {
				if a.Name.Space == "xmlns" || (a.Name.Space == "" && a.Name.Local == "xmlns") {
					continue
				}
				e.attrs = append(e.attrs, [2]string{a.Name.Space + a.Name.Local, a.Value})
			}
			if len(stack) > 0 {
				p := stack[len(stack)-1]
				p.kids = append(p.kids, e)
			} else {
				root = e
			}
			stack = append(stack, e)
		case xml.EndElement:
			stack = stack[:len(stack)-1]
		case xml.CharData:
			if len(stack) > 0 {
				p := stack[len(stack)-1]
				if n := len(p.kids); n > 0 && p.kids[n-1].isText {
					p.kids[n-1].text += string(t)
				} else {
					p.kids = append(p.kids, &xn{isText: true, text: string(t)})
				}
			}
		}
	}
	return root, root != nil
}

func c09Seeds(r *hx.Rand, n int, out *hx.Out, _ []string) {
	files := seeds("rdf")
	for c := 0; c < n && c < len(files); c++ {
		s := files[c]
		base := "http://www.w3.org/2013/RDFXMLTests/" + s.path[strings.LastIndexByte(s.path, '/')+1:]
		if bytes.Contains(s.data, []byte("Literal")) || bytes.Contains(s.data, []byte("<!ENTITY")) {
			out.Emit(hx.Case{Kind: "K/C09/seeds-skip", Impl: "skip", Class: "outside the model (parseType Literal / DTD entities)", Desc: s.path})
			continue
		}
		root, ok := c09TreeOf(s.data)
		res := zooRun("rdfxml", s.data, zooOpts{base: base})
		if !ok || res.verdict != "ok" {
			out.Emit(hx.Case{Kind: "K/C09/seeds-skip", Impl: res.verdict, Class: "decoder does not accept (error test)", Desc: s.path})
			continue
		}
		nm := hx.NewNamer()
		var sts []string
		for _, q := range res.quads {
			sts = append(sts, c09Term(q.Triple.Subject, nm)+" "+c09Term(q.Triple.Predicate, nm)+" "+c09Term(q.Triple.Object, nm))
		}
		var tk strings.Builder
		root.tokens(&tk)
		out.Emit(hx.Case{Kind: "K/C09/seeds/iso", Line: "rdfxmlq\t" + hx.X(base) + "\t" + strings.TrimSuffix(tk.String(), ","), Impl: strings.Join(sts, ";"), Class: "W3C suite document", NonTri: len(res.quads) >= 2, Spec: true,
			Desc: fmt.Sprintf("base=%q file=%s document: %s", base, s.path, string(s.data))})
	}
}

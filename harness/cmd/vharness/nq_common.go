package main

import (
	"bytes"
	"context"
	"errors"
	"fmt"
	"io"
	"strings"

	"github.com/dpb587/cursorio-go/cursorio"
	"github.com/dpb587/rdfkit-go/encoding"
	"github.com/dpb587/rdfkit-go/encoding/nquads"
	"github.com/dpb587/rdfkit-go/encoding/ntriples"
	"github.com/dpb587/rdfkit-go/rdf"
	"github.com/dpb587/rdfkit-go/rdf/blanknodes"
	"verifharness/hx"
)

// ---- term generation shared by the N-Triples family, Turtle, canonicalization ----

const rdfNS = "http://www.w3.org/1999/02/22-rdf-syntax-ns#"
const xsdNS = "http://www.w3.org/2001/XMLSchema#"

var nqLexParts = []string{
	"", "a", "hello world", "\"", "\\", "\n", "\r", "\t", "\b", "\f", "'", "\x00", "\x1f", "\x7f", "\u0080", "é", "ÿ", "Ā",
	"퟿", "", "�", "\U00010000", "\U0010ffff", "日本語", "<", ">", "^^", "@en", "\\u0041", "_:b", " . ", "#",
}

var nqLangs = []string{"en", "EN", "en-US", "en-Latn-US", "zh-Hant-TW-x-private", "de-1996", "x-a", "i-klingon", "sr-Cyrl-RS-1-2", "ca-valencia", "en-x-abcdefgh", "abcdefgh", "a-b-c-d-e-f-g-h-i"}

var nqDatatypes = []string{
	xsdNS + "string", xsdNS + "integer", xsdNS + "decimal", xsdNS + "double", xsdNS + "boolean", xsdNS + "dateTime",
	rdfNS + "HTML", rdfNS + "langString", "http://e/dt", "http://é.example/dt#é", "urn:x:y", "HTTP://A/%7e?q#f",
}

func nqGenLex(r *hx.Rand) string {
	var sb strings.Builder
	for i, k := 0, r.Intn(5); i < k; i++ {
		sb.WriteString(hx.Pick(r, nqLexParts))
	}
	return sb.String()
}

func nqGenIRI(r *hx.Rand) rdf.IRI {
	if r.Chance(1, 2) {
		return rdf.IRI(hx.Pick(r, []string{"http://e/a", "http://e/b", "http://e/c#d", "urn:x:y", "http://é.example/ü?q=ß#日本"}))
	}
	for {
		s, _ := c12Gen(r, true)
		if validPct(s) {
			if r.Chance(1, 4) { // ucschar / iprivate / boundary code points (RFC 3987), mostly in the query where iprivate is allowed
				exotic := hx.Pick(r, []string{"\u007f", "\u0080", "\u00ff", "\u0100", "\u07ff", "\u0800", "\ud7ff", "\ue000", "\uf8ff", "\ufffd", "\U00010000", "\U0001F600", "\U000EFFFD", "\U000F0000", "\U000FFFFD", "\U00100000", "\U0010FFFD"})
				if strings.Contains(s, "?") {
					s = strings.Replace(s, "?", "?"+exotic, 1)
				} else if i := strings.Index(s, "#"); i >= 0 {
					s = s[:i] + "?k=" + exotic + s[i:]
				} else {
					s += "?k=" + exotic
				}
			}
			return rdf.IRI(s)
		}
	}
}

func nqGenLiteral(r *hx.Rand) rdf.Literal {
	switch r.Intn(4) {
	case 0:
		return rdf.Literal{Datatype: rdf.IRI(xsdNS + "string"), LexicalForm: nqGenLex(r)}
	case 1:
		return rdf.Literal{Datatype: rdf.IRI(rdfNS + "langString"), LexicalForm: nqGenLex(r), Tag: rdf.LanguageLiteralTag{Language: hx.Pick(r, nqLangs)}}
	default:
		dt := hx.Pick(r, nqDatatypes[1:])
		if dt == rdfNS+"langString" {
			dt = xsdNS + "token"
		}
		return rdf.Literal{Datatype: rdf.IRI(dt), LexicalForm: nqGenLex(r)}
	}
}

// nqGenDataset: quads over a handful of shared blank nodes (any factory) and graph names.
func nqGenDataset(r *hx.Rand, withGraphs bool, maxQuads int) []rdf.Quad {
	f1, f2 := rdf.NewBlankNodeFactory(), blanknodes.NewStringFactory()
	var bns []rdf.BlankNode
	for i, k := 0, 1+r.Intn(4); i < k; i++ {
		switch r.Intn(3) {
		case 0:
			bns = append(bns, f1.NewBlankNode())
		case 1:
			bns = append(bns, f2.NewStringBlankNode(fmt.Sprintf("l%d", i)))
		default:
			bns = append(bns, rdf.NewBlankNode())
		}
	}
	var gnames []rdf.GraphNameValue
	gnames = append(gnames, nil, nil)
	if withGraphs {
		gnames = append(gnames, nqGenIRI(r), hx.Pick(r, bns))
	}
	n := r.Intn(maxQuads + 1)
	var qs []rdf.Quad
	seen := map[string]bool{}
	nm := hx.NewNamer()
	for i := 0; i < n; i++ {
		var q rdf.Quad
		if r.Chance(2, 5) {
			q.Triple.Subject = hx.Pick(r, bns)
		} else {
			q.Triple.Subject = nqGenIRI(r)
		}
		q.Triple.Predicate = nqGenIRI(r)
		switch r.Intn(5) {
		case 0:
			q.Triple.Object = hx.Pick(r, bns)
		case 1:
			q.Triple.Object = nqGenIRI(r)
		default:
			q.Triple.Object = nqGenLiteral(r)
		}
		q.GraphName = hx.Pick(r, gnames)
		k := nm.Quad(q).String()
		if seen[k] { // a dataset is a set
			continue
		}
		seen[k] = true
		qs = append(qs, q)
	}
	return qs
}

// ---- protocol rendering ----

func nqTermOut(t rdf.Term) string {
	switch t := t.(type) {
	case nil:
		return "-"
	case rdf.IRI:
		return "I" + hx.X(string(t))
	case rdf.BlankNode:
		if l, _, ok := blanknodes.VerifStringInfo(t.Identifier); ok {
			return "B" + hx.X(l)
		}
		return "B?"
	case rdf.Literal:
		lang := "-"
		switch tag := t.Tag.(type) {
		case rdf.LanguageLiteralTag:
			lang = hx.X(tag.Language)
		case nil:
		default:
			lang = "?"
		}
		return "L" + hx.X(t.LexicalForm) + "," + hx.X(string(t.Datatype)) + "," + lang
	}
	return fmt.Sprintf("?%T", t)
}

func nqPos(o cursorio.TextOffset) string {
	return fmt.Sprintf("%d.%d.%d", o.Byte, o.LineColumn[0], o.LineColumn[1])
}

func nqRange(r cursorio.TextOffsetRange) string { return nqPos(r.From) + "-" + nqPos(r.Until) }

// ---- readers ----

var errInjected = errors.New("injected read failure")

// chunkReader hands out data in the given chunk sizes (cycled); after the data it returns io.EOF or errInjected.
type chunkReader struct {
	data   []byte
	sizes  []int
	i      int
	fail   bool
	direct bool // return the terminal error together with the last bytes
}

func (c *chunkReader) Read(p []byte) (int, error) {
	if len(c.data) == 0 {
		if c.fail {
			return 0, errInjected
		}
		return 0, io.EOF
	}
	n := 1
	if len(c.sizes) > 0 {
		n = c.sizes[c.i%len(c.sizes)]
		c.i++
	}
	if n > len(c.data) {
		n = len(c.data)
	}
	if n > len(p) {
		n = len(p)
	}
	copy(p, c.data[:n])
	c.data = c.data[n:]
	if len(c.data) == 0 && c.direct {
		if c.fail {
			return n, errInjected
		}
		return n, io.EOF
	}
	return n, nil
}

type nqDecodeOpts struct {
	nq      bool
	offsets bool
	init    cursorio.TextOffset
	sizes   []int // nil = bytes.Reader (implements io.RuneReader itself)
	fail    bool
	direct  bool
}

type nqDecoded struct {
	verdict string
	stmts   []string // protocol rendering, with ranges when requested
	quads   []rdf.Quad
	proto   string // iterator protocol violation, "" if none
}

// nqDecodeImpl drives the real decoder through the whole iterator protocol.
func nqDecodeImpl(data []byte, o nqDecodeOpts) (res nqDecoded) {
	defer func() {
		if p := recover(); p != nil {
			res.verdict = "panic"
			res.proto = fmt.Sprintf("panic: %v", p)
		}
	}()
	var rd io.Reader
	if o.sizes == nil && !o.fail {
		rd = bytes.NewReader(data)
	} else {
		rd = &chunkReader{data: append([]byte{}, data...), sizes: o.sizes, fail: o.fail, direct: o.direct}
	}
	type dec interface {
		Next() bool
		Err() error
		Close() error
		Statement() rdf.Statement
	}
	var d dec
	var err error
	optSplit := len(data) // options given as one value or as several, in either order, compose
	if o.nq {
		opts := []nquads.DecoderOption{}
		if o.offsets {
			switch optSplit % 3 {
			case 0:
				opts = append(opts, nquads.DecoderConfig{}.SetCaptureTextOffsets(true).SetInitialTextOffset(o.init))
			case 1:
				opts = append(opts, nquads.DecoderConfig{}.SetInitialTextOffset(o.init), nquads.DecoderConfig{}.SetCaptureTextOffsets(true))
			default:
				opts = append(opts, nquads.DecoderConfig{}.SetCaptureTextOffsets(true), nquads.DecoderConfig{}.SetInitialTextOffset(o.init))
			}
		}
		d, err = nquads.NewDecoder(rd, opts...)
	} else {
		opts := []ntriples.DecoderOption{}
		if o.offsets {
			switch optSplit % 3 {
			case 0:
				opts = append(opts, ntriples.DecoderConfig{}.SetCaptureTextOffsets(true).SetInitialTextOffset(o.init))
			case 1:
				opts = append(opts, ntriples.DecoderConfig{}.SetInitialTextOffset(o.init), ntriples.DecoderConfig{}.SetCaptureTextOffsets(true))
			default:
				opts = append(opts, ntriples.DecoderConfig{}.SetCaptureTextOffsets(true), ntriples.DecoderConfig{}.SetInitialTextOffset(o.init))
			}
		}
		d, err = ntriples.NewDecoder(rd, opts...)
	}
	if err != nil {
		res.verdict = "new:" + err.Error()
		return
	}
	for d.Next() {
		st := d.Statement()
		var q rdf.Quad
		switch st := st.(type) {
		case rdf.Quad:
			q = st
		case rdf.Triple:
			q = rdf.Quad{Triple: st}
		}
		res.quads = append(res.quads, q)
		var g rdf.Term
		if q.GraphName != nil {
			g = q.GraphName.(rdf.Term)
		}
		s := nqTermOut(q.Triple.Subject) + "|" + nqTermOut(q.Triple.Predicate) + "|" + nqTermOut(q.Triple.Object) + "|" + nqTermOut(g)
		if o.offsets {
			to := d.(encoding.StatementTextOffsetsProvider).StatementTextOffsets()
			var rs []string
			for _, k := range []encoding.StatementOffsetsType{encoding.SubjectStatementOffsets, encoding.PredicateStatementOffsets, encoding.ObjectStatementOffsets, encoding.GraphNameStatementOffsets} {
				if r, ok := to[k]; ok {
					rs = append(rs, nqRange(r))
				} else if k != encoding.GraphNameStatementOffsets {
					rs = append(rs, "missing")
				}
			}
			s += "@" + strings.Join(rs, ",")
		}
		res.stmts = append(res.stmts, s)
	}
	e1 := d.Err()
	// protocol: Next stays false, Err is stable, Close succeeds
	for i := 0; i < 3; i++ {
		if d.Next() {
			res.proto = "Next returned true after it had returned false"
		}
		if e := d.Err(); (e == nil) != (e1 == nil) || (e != nil && e.Error() != e1.Error()) {
			res.proto = "Err changed after the end of iteration"
		}
	}
	if e := d.Close(); e != nil {
		res.proto = "Close failed: " + e.Error()
	}
	switch {
	case e1 == nil:
		res.verdict = "ok"
	case errors.Is(e1, errInjected):
		res.verdict = "io"
	default:
		res.verdict = "syntax"
	}
	return
}

func (d nqDecoded) String() string { return d.verdict + ";" + strings.Join(d.stmts, ";") }

// nqDecLine: the case for the decoder model; "" when text offsets are compared and the text holds code points which
// may combine into one grapheme cluster (the model's columns count code points; cursorio counts clusters).
func nqDecLine(data []byte, o nqDecodeOpts) string {
	if o.offsets {
		for _, c := range string(data) {
			if c >= 0x300 || c == 0x200d {
				return ""
			}
		}
	}
	b := func(x bool) string {
		if x {
			return "1"
		}
		return "0"
	}
	t := "E"
	if o.fail {
		t = "F"
	}
	return "nqdec\t" + b(o.nq) + "\t" + t + "\t" + b(o.offsets) + "\t" + nqPos(o.init) + "\t" + hx.X(string(data))
}

// ---- encoders ----

type nqEncOpts struct {
	nq       bool
	ascii    bool
	pre, suf string // label format pre%dsuf ("" "" = the encoder's default provider)
}

func nqEncodeImpl(qs []rdf.Quad, o nqEncOpts) (out []byte, err error) {
	defer func() {
		if p := recover(); p != nil {
			err = fmt.Errorf("panic: %v", p)
		}
	}()
	var buf bytes.Buffer
	ctx := context.Background()
	var prov blanknodes.StringProvider
	if o.pre != "" || o.suf != "" {
		prov = blanknodes.NewInt64StringProvider(o.pre + "%d" + o.suf)
	}
	if o.nq {
		cfg := nquads.EncoderConfig{}.SetASCII(o.ascii)
		if prov != nil {
			cfg = cfg.SetBlankNodeStringProvider(prov)
		}
		e, err := nquads.NewEncoder(&buf, cfg)
		if err != nil {
			return nil, err
		}
		for _, q := range qs {
			if err := e.AddQuad(ctx, q); err != nil {
				return nil, err
			}
		}
		if err := e.Close(); err != nil {
			return nil, err
		}
	} else {
		cfg := ntriples.EncoderConfig{}.SetASCII(o.ascii)
		if prov != nil {
			cfg = cfg.SetBlankNodeStringProvider(prov)
		}
		e, err := ntriples.NewEncoder(&buf, cfg)
		if err != nil {
			return nil, err
		}
		for _, q := range qs {
			if err := e.AddTriple(ctx, q.Triple); err != nil {
				return nil, err
			}
		}
		if err := e.Close(); err != nil {
			return nil, err
		}
	}
	return buf.Bytes(), nil
}

// protocol line for the encoder model; blank nodes numbered by the namer
func nqEncLine(qs []rdf.Quad, o nqEncOpts) string {
	nm := hx.NewNamer()
	term := func(t rdf.Term) string {
		switch t := t.(type) {
		case nil:
			return "-"
		case rdf.IRI:
			return "I" + hx.X(string(t))
		case rdf.BlankNode:
			return "b" + strings.TrimPrefix(nm.Name(t), "_:n")
		case rdf.Literal:
			lang := "-"
			if tag, ok := t.Tag.(rdf.LanguageLiteralTag); ok {
				lang = hx.X(tag.Language)
			}
			return "L" + hx.X(t.LexicalForm) + "," + hx.X(string(t.Datatype)) + "," + lang
		}
		return "?"
	}
	var enc []string
	for _, q := range qs {
		var g rdf.Term
		if q.GraphName != nil && o.nq {
			g = q.GraphName.(rdf.Term)
		}
		enc = append(enc, term(q.Triple.Subject)+"|"+term(q.Triple.Predicate)+"|"+term(q.Triple.Object)+"|"+term(g))
	}
	b := "0"
	if o.ascii {
		b = "1"
	}
	pre := o.pre
	if o.pre == "" && o.suf == "" {
		pre = "b"
	}
	return "nqenc\t" + b + "\t" + hx.X(pre) + "\t" + hx.X(o.suf) + "\t" + strings.Join(enc, ";")
}

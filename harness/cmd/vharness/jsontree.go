package main

// jsontree.go — an ordered JSON tree for the JSON-LD families: the harness writer builds it, serialises it with varying
// white space, escapes and (optionally) key order, and renders the token form the Coq model reads.

import (
	"bytes"
	"encoding/json"
	"fmt"
	"strconv"
	"strings"
	"unicode/utf8"

	"verifharness/hx"
)

type jv struct {
	k    byte // n t f i d s a o
	i    int64
	s    string // string value, or the number text for d
	a    []*jv
	keys []string
	vals []*jv
}

func jNull() *jv            { return &jv{k: 'n'} }
func jBool(b bool) *jv      { return &jv{k: map[bool]byte{true: 't', false: 'f'}[b]} }
func jInt(i int64) *jv      { return &jv{k: 'i', i: i} }
func jStr(s string) *jv     { return &jv{k: 's', s: s} }
func jArr(items ...*jv) *jv { return &jv{k: 'a', a: items} }
func jObj() *jv             { return &jv{k: 'o'} }
func (o *jv) set(k string, v *jv) *jv {
	for i, kk := range o.keys {
		if kk == k {
			o.vals[i] = v
			return o
		}
	}
	o.keys = append(o.keys, k)
	o.vals = append(o.vals, v)
	return o
}
func (o *jv) get(k string) *jv {
	for i, kk := range o.keys {
		if kk == k {
			return o.vals[i]
		}
	}
	return nil
}

// tokens renders the tree for the model driver (drv/DrvJsonLd.v); ok is false when the tree holds a number which is
// not an integer (outside the model).
func (v *jv) tokens(sb *strings.Builder) bool {
	switch v.k {
	case 'n':
		sb.WriteString("N,")
	case 't':
		sb.WriteString("T,")
	case 'f':
		sb.WriteString("F,")
	case 'i':
		if v.s != "" {
			sb.WriteString("I," + v.s + ",")
		} else {
			fmt.Fprintf(sb, "I,%d,", v.i)
		}
	case 'd':
		return false
	case 's':
		sb.WriteString("S," + hx.X(v.s) + ",")
	case 'a':
		fmt.Fprintf(sb, "A,%d,", len(v.a))
		for _, c := range v.a {
			if !c.tokens(sb) {
				return false
			}
		}
	case 'o':
		fmt.Fprintf(sb, "O,%d,", len(v.keys))
		for i, k := range v.keys {
			sb.WriteString(hx.X(k) + ",")
			if !v.vals[i].tokens(sb) {
				return false
			}
		}
	}
	return true
}

func jsonEscape(r *hx.Rand, s string) string {
	var sb strings.Builder
	sb.WriteByte('"')
	for _, c := range s {
		switch {
		case c == '"':
			sb.WriteString(`\"`)
		case c == '\\':
			sb.WriteString(`\\`)
		case c == '\n':
			sb.WriteString(hx.Pick(r, []string{`\n`, `\u000a`, `\u000A`}))
		case c == '\t':
			sb.WriteString(hx.Pick(r, []string{`\t`, `\u0009`}))
		case c == '\r':
			sb.WriteString(`\r`)
		case c < 0x20:
			fmt.Fprintf(&sb, `\u%04x`, c)
		case c == '/' && r.Chance(1, 40):
			sb.WriteString(`\/`)
		case c > 0xffff && r.Chance(1, 3):
			c -= 0x10000
			fmt.Fprintf(&sb, `\u%04x\u%04x`, 0xd800+(c>>10), 0xdc00+(c&0x3ff))
		case c != utf8.RuneError && r.Chance(1, 150) && c <= 0xffff:
			fmt.Fprintf(&sb, `\u%04X`, c)
		default:
			sb.WriteRune(c)
		}
	}
	sb.WriteByte('"')
	return sb.String()
}

// text serialises with random white space.
func (v *jv) text(r *hx.Rand, sb *strings.Builder) {
	ws := func() {
		if r.Chance(1, 4) {
			sb.WriteString(hx.Pick(r, []string{" ", "\n", "  ", "\t", "\r\n", "\n    "}))
		}
	}
	switch v.k {
	case 'n':
		sb.WriteString("null")
	case 't':
		sb.WriteString("true")
	case 'f':
		sb.WriteString("false")
	case 'i':
		if v.s != "" {
			sb.WriteString(v.s)
		} else {
			sb.WriteString(strconv.FormatInt(v.i, 10))
		}
	case 'd':
		sb.WriteString(v.s)
	case 's':
		sb.WriteString(jsonEscape(r, v.s))
	case 'a':
		sb.WriteByte('[')
		for i, c := range v.a {
			if i > 0 {
				sb.WriteByte(',')
			}
			ws()
			c.text(r, sb)
			ws()
		}
		if len(v.a) == 0 {
			ws()
		}
		sb.WriteByte(']')
	case 'o':
		sb.WriteByte('{')
		for i, k := range v.keys {
			if i > 0 {
				sb.WriteByte(',')
			}
			ws()
			sb.WriteString(jsonEscape(r, k))
			ws()
			sb.WriteByte(':')
			ws()
			v.vals[i].text(r, sb)
			ws()
		}
		if len(v.keys) == 0 {
			ws()
		}
		sb.WriteByte('}')
	}
}

// shuffleKeys permutes the entries of every object (a JSON object is unordered).
func (v *jv) shuffleKeys(r *hx.Rand) {
	for _, c := range v.a {
		c.shuffleKeys(r)
	}
	for _, c := range v.vals {
		c.shuffleKeys(r)
	}
	for i := len(v.keys) - 1; i > 0; i-- {
		j := r.Intn(i + 1)
		v.keys[i], v.keys[j] = v.keys[j], v.keys[i]
		v.vals[i], v.vals[j] = v.vals[j], v.vals[i]
	}
}

// parseJSONTree reads a JSON text into an ordered tree (numbers without fraction or exponent which fit int64 become
// integers, the others keep their text).
func parseJSONTree(data []byte) (*jv, error) {
	dec := json.NewDecoder(bytes.NewReader(data))
	dec.UseNumber()
	var rec func() (*jv, error)
	rec = func() (*jv, error) {
		t, err := dec.Token()
		if err != nil {
			return nil, err
		}
		switch t := t.(type) {
		case nil:
			return jNull(), nil
		case bool:
			return jBool(t), nil
		case string:
			return jStr(t), nil
		case json.Number:
			if i, err := strconv.ParseInt(string(t), 10, 64); err == nil && !strings.ContainsAny(string(t), ".eE") && string(t) != "-0" {
				return jInt(i), nil
			}
			return &jv{k: 'd', s: string(t)}, nil
		case json.Delim:
			switch t {
			case '[':
				a := jArr()
				for dec.More() {
					c, err := rec()
					if err != nil {
						return nil, err
					}
					a.a = append(a.a, c)
				}
				_, err := dec.Token()
				return a, err
			case '{':
				o := jObj()
				for dec.More() {
					kt, err := dec.Token()
					if err != nil {
						return nil, err
					}
					c, err := rec()
					if err != nil {
						return nil, err
					}
					o.keys = append(o.keys, kt.(string))
					o.vals = append(o.vals, c)
				}
				_, err := dec.Token()
				return o, err
			}
		}
		return nil, fmt.Errorf("unexpected token %v", t)
	}
	v, err := rec()
	if err != nil {
		return nil, err
	}
	if dec.More() {
		return nil, fmt.Errorf("trailing data")
	}
	return v, nil
}

package main

import (
	"bytes"
	"context"
	"fmt"
	"net/url"
	"strings"

	"github.com/dpb587/rdfkit-go/encoding"
	"github.com/dpb587/rdfkit-go/encoding/turtle"
	"github.com/dpb587/rdfkit-go/iri"
	"github.com/dpb587/rdfkit-go/rdf"
	"github.com/dpb587/rdfkit-go/rdf/blanknodes"
	"github.com/dpb587/rdfkit-go/rdfdescription"
	"github.com/dpb587/rdfkit-go/rdfdescription/rdfdescriptionutil"
	"verifharness/hx"
)

func init() { families["c02-turtle"] = c02Turtle }

// namespaces and local parts chosen so that prefix compaction has to deal with every class of local name
var c02Namespaces = []iri.PrefixMapping{
	{Prefix: "ex", Expanded: "http://example.org/"}, {Prefix: "ns", Expanded: "http://example.org/ns#"}, {Prefix: "u", Expanded: "urn:x:"},
	{Prefix: "", Expanded: "http://example.org/dir/"}, {Prefix: "xsd", Expanded: xsdNS}, {Prefix: "rdf", Expanded: rdfNS}, {Prefix: "q", Expanded: "http://example.org/a?k="},
	{Prefix: "p.q", Expanded: "http://example.org/ns#sub-"},
}

var c02Locals = []string{
	"a", "a.b", ".a", "a.", "..", "-a", "a-", "1a", "9", "a%41", "%41", "a%4", "%", "a:b", ":", "a×b", "a/b", "a?b", "a#b", "a~b", "~", "a!b", "a(b)", "a'b", "a,b", "a;b=c", "a@b", "a&b",
	"a*b", "a+b", "a$b", "·a", "a·", "é", "日本", "", "_", "_a", "a_b", "à", "̀a", "a‿b", "‿", "\U0001F600", "a÷b", "a b", "dir/doc", "dir/", "a\\b", "a\"b",
}

func c02GenIRI(r *hx.Rand) rdf.IRI {
	if r.Chance(1, 6) {
		return nqGenIRI(r)
	}
	return rdf.IRI(hx.Pick(r, c02Namespaces).Expanded + hx.Pick(r, c02Locals))
}

// valid lexical forms of the XSD numeric and boolean datatypes (and a few of other datatypes)
var c02Typed = map[string][]string{
	"integer":            {"0", "-5", "+5", "007", "123456789012345678901234567890"},
	"decimal":            {"5", "5.0", ".5", "-0.50", "+1.", "0.0", "-.5"},
	"double":             {"1", "1.0", "1e3", "1.5E-2", "INF", "-INF", "NaN", ".5e1", "1.e1", "-0", "+1E+0"},
	"float":              {"1", "1.5", "1e3", "INF", "NaN"},
	"boolean":            {"true", "false", "1", "0"},
	"long":               {"5", "-5", "+9223372036854775807"},
	"int":                {"5", "-2147483648"},
	"short":              {"5"},
	"byte":               {"-128"},
	"nonNegativeInteger": {"0", "+5"},
	"unsignedLong":       {"18446744073709551615"},
	"negativeInteger":    {"-1"},
	"dateTime":           {"2020-01-01T00:00:00Z"},
	"token":              {"a b", ""},
}

func c02GenLiteral(r *hx.Rand) rdf.Literal {
	switch r.Intn(5) {
	case 0, 1:
		var ks []string
		for k := range c02Typed {
			ks = append(ks, k)
		}
		sortStrings(ks)
		k := hx.Pick(r, ks)
		return rdf.Literal{Datatype: rdf.IRI(xsdNS + k), LexicalForm: hx.Pick(r, c02Typed[k])}
	case 2:
		return rdf.Literal{Datatype: rdf.IRI(rdfNS + "langString"), LexicalForm: nqGenLex(r), Tag: rdf.LanguageLiteralTag{Language: hx.Pick(r, nqLangs)}}
	case 3:
		return rdf.Literal{Datatype: c02GenIRI(r), LexicalForm: nqGenLex(r)}
	}
	return rdf.Literal{Datatype: rdf.IRI(xsdNS + "string"), LexicalForm: nqGenLex(r)}
}

func sortStrings(s []string) {
	for i := 1; i < len(s); i++ {
		for j := i; j > 0 && s[j] < s[j-1]; j-- {
			s[j], s[j-1] = s[j-1], s[j]
		}
	}
}

// c02GenGraph: triples over shared blank nodes (cycles, chains) plus rdf:first/rdf:rest lists, well-formed and not.
func c02GenGraph(r *hx.Rand, maxTriples int) []rdf.Triple {
	f := rdf.NewBlankNodeFactory()
	var bns []rdf.BlankNode
	for i, k := 0, 1+r.Intn(4); i < k; i++ {
		bns = append(bns, f.NewBlankNode())
	}
	subj := func() rdf.SubjectValue {
		if r.Chance(2, 5) {
			return hx.Pick(r, bns)
		}
		return c02GenIRI(r)
	}
	var ts []rdf.Triple
	for i, n := 0, r.Intn(maxTriples+1); i < n; i++ {
		t := rdf.Triple{Subject: subj(), Predicate: c02GenIRI(r)}
		if r.Chance(1, 6) {
			t.Predicate = rdf.IRI(rdfNS + "type")
		}
		switch r.Intn(6) {
		case 0, 1:
			t.Object = hx.Pick(r, bns)
		case 2:
			t.Object = c02GenIRI(r)
		default:
			t.Object = c02GenLiteral(r)
		}
		ts = append(ts, t)
	}
	if r.Chance(1, 3) { // a list hanging off some subject
		n := r.Intn(4)
		head := rdf.ObjectValue(rdf.IRI(rdfNS + "nil"))
		var cells []rdf.BlankNode
		for i := 0; i < n; i++ {
			cells = append(cells, f.NewBlankNode())
		}
		for i := n - 1; i >= 0; i-- {
			var item rdf.ObjectValue
			switch r.Intn(3) {
			case 0:
				item = c02GenIRI(r)
			case 1:
				item = c02GenLiteral(r)
			default:
				item = hx.Pick(r, bns)
			}
			ts = append(ts, rdf.Triple{Subject: cells[i], Predicate: rdf.IRI(rdfNS + "first"), Object: item})
			ts = append(ts, rdf.Triple{Subject: cells[i], Predicate: rdf.IRI(rdfNS + "rest"), Object: head})
			if r.Chance(1, 8) {
				ts = append(ts, rdf.Triple{Subject: cells[i], Predicate: rdf.IRI(rdfNS + "type"), Object: rdf.IRI(rdfNS + "List")})
			}
			if r.Chance(1, 12) { // not a well-formed list: a second rdf:first, or an extra property on a cell
				ts = append(ts, rdf.Triple{Subject: cells[i], Predicate: rdf.IRI(hx.Pick(r, []string{rdfNS + "first", "http://example.org/extra"})), Object: c02GenLiteral(r)})
			}
			head = cells[i]
		}
		ts = append(ts, rdf.Triple{Subject: subj(), Predicate: c02GenIRI(r), Object: head})
		if n > 0 && r.Chance(1, 8) { // the list is referenced twice
			ts = append(ts, rdf.Triple{Subject: subj(), Predicate: c02GenIRI(r), Object: head})
		}
	}
	if r.Chance(1, 5) { // twins: distinct blank nodes with the same description, referenced by nothing
		p, o := c02GenIRI(r), rdf.ObjectValue(c02GenIRI(r))
		if r.Bool() {
			p = rdf.IRI(rdfNS + "type")
		}
		if r.Chance(1, 3) {
			o = c02GenLiteral(r)
		}
		for i, k := 0, 2+r.Intn(2); i < k; i++ {
			ts = append(ts, rdf.Triple{Subject: f.NewBlankNode(), Predicate: p, Object: o})
		}
	}
	// a graph is a set
	seen := map[string]bool{}
	nm := hx.NewNamer()
	var out []rdf.Triple
	for _, t := range ts {
		k := nm.Triple(t).String()
		if !seen[k] {
			seen[k] = true
			out = append(out, t)
		}
	}
	return out
}

// wellFormedIRI: what the property means by a well-formed IRI term: absolute, no characters outside RFC 3987

func c02WellFormed(ts []rdf.Triple) bool {
	ok := func(s string) bool {
		if !reScheme.MatchString(s) {
			return false
		}
		if _, err := url.Parse(s); err != nil && strings.Contains(s, "[") {
			return false // a broken IP literal
		}
		for _, c := range s {
			if c <= 0x20 || c == 0x7f || strings.ContainsRune("<>\"{}|^`\\", c) {
				return false
			}
		}
		// outside what an IRIREF can denote or the IRI parser accepts: dot segments (RFC 3986 5.2.2 removes them from any
		// reference, also one with a scheme) and a percent-encoded octet in the authority (known finding F25 of C12)
		hier := strings.SplitN(strings.SplitN(s, "#", 2)[0], "?", 2)[0]
		hier = hier[strings.Index(hier, ":")+1:]
		for _, seg := range strings.FieldsFunc(hier, func(c rune) bool { return c == '/' }) {
			if seg == "." || seg == ".." {
				return false
			}
		}
		if i := strings.Index(s, "://"); i >= 0 {
			auth := s[i+3:]
			if j := strings.IndexAny(auth, "/?#"); j >= 0 {
				auth = auth[:j]
			}
			if strings.Contains(auth, "%") {
				return false
			}
		}
		return validPct(s)
	}
	for _, t := range ts {
		for _, x := range []rdf.Term{t.Subject, t.Predicate, t.Object} {
			switch x := x.(type) {
			case rdf.IRI:
				if !ok(string(x)) {
					return false
				}
			case rdf.Literal:
				if !ok(string(x.Datatype)) {
					return false
				}
			}
		}
	}
	return true
}

type c02Config struct {
	base      string
	prefixes  iri.PrefixMappingList
	buffered  bool
	resources bool
	mode      turtle.DirectiveMode
	labeller  bool
}

func (c c02Config) String() string {
	var ps []string
	for _, p := range c.prefixes {
		ps = append(ps, p.Prefix)
	}
	return fmt.Sprintf("base=%q prefixes=%v buffered=%v resources=%v directives=%d labeller=%v", c.base, ps, c.buffered, c.resources, c.mode, c.labeller)
}

func c02Encode(ts []rdf.Triple, c c02Config) (out []byte, err error) {
	defer func() {
		if p := recover(); p != nil {
			err = fmt.Errorf("panic: %v", p)
		}
	}()
	cfg := turtle.EncoderConfig{}.SetBuffered(c.buffered).SetDirectiveMode(c.mode)
	if c.base != "" {
		cfg = cfg.SetBase(c.base)
	}
	if len(c.prefixes) > 0 {
		cfg = cfg.SetPrefixes(c.prefixes)
	}
	if c.labeller {
		cfg = cfg.SetBlankNodeStringProvider(blanknodes.NewInt64StringProvider("n.%d-x"))
	}
	var buf bytes.Buffer
	e, err := turtle.NewEncoder(&buf, cfg)
	if err != nil {
		return nil, err
	}
	var enc encoding.TriplesEncoder = e
	var closer interface{ Close() error } = e
	if c.resources {
		be := rdfdescriptionutil.NewBufferedTriplesEncoder(context.Background(), e, rdfdescription.DefaultExportResourceOptions)
		enc, closer = be, be
	}
	for _, t := range ts {
		if err := enc.AddTriple(context.Background(), t); err != nil {
			return nil, err
		}
	}
	if err := closer.Close(); err != nil {
		return nil, err
	}
	if c.resources {
		if err := e.Close(); err != nil {
			return nil, err
		}
	}
	return buf.Bytes(), nil
}

func c02Turtle(r *hx.Rand, n int, out *hx.Out, args []string) {
	maxT := 6
	if len(args) > 0 {
		fmt.Sscan(args[0], &maxT)
	}
	for c := 0; c < n; c++ {
		rr := r.Fork()
		ts := c02GenGraph(rr, maxT)
		if !c02WellFormed(ts) {
			c--
			continue
		}
		cfg := c02Config{buffered: rr.Bool(), resources: rr.Chance(1, 3), mode: hx.Pick(rr, []turtle.DirectiveMode{turtle.DirectiveMode_At, turtle.DirectiveMode_SPARQL, turtle.DirectiveMode_Disabled}), labeller: rr.Chance(1, 4)}
		cfg.base = hx.Pick(rr, []string{"", "", "http://example.org/dir/doc", "http://example.org/", "http://example.org/ns#frag", "urn:x:y"})
		for _, p := range c02Namespaces {
			if rr.Chance(1, 3) {
				cfg.prefixes = append(cfg.prefixes, p)
			}
		}
		var want []hx.Q
		nm := hx.NewNamer()
		for _, t := range ts {
			want = append(want, nm.Triple(t))
		}
		doc, err := c02Encode(ts, cfg)
		oracle := ""
		impl := "encoded"
		if err != nil {
			oracle = "the encoder fails on a well-formed graph: " + err.Error()
			impl = "encode-error"
		} else {
			// the decoder gets the same base and prefixes as defaults (needed when directive output is disabled; harmless otherwise)
			res := zooRun("turtle", doc, zooOpts{base: cfg.base, prefixes: cfg.prefixes})
			switch {
			case res.verdict != "ok":
				oracle = fmt.Sprintf("the decoder rejects the encoder's output: %s %s", res.verdict, res.detail)
			default:
				if why := hx.IsoSetsWhy(lowerLang(zooQuadsQ(res.quads)), lowerLang(want)); why != "" {
					oracle = "the decoded graph is not isomorphic to the encoded one: " + why
				}
			}
		}
		cls := fmt.Sprintf("buffered=%v resources=%v directives=%d base=%v prefixes=%v", cfg.buffered, cfg.resources, cfg.mode, cfg.base != "", len(cfg.prefixes) > 0)
		cs := hx.Case{Kind: "K/C02/turtle", Impl: impl, Class: cls, NonTri: len(ts) >= 2, Oracle: oracle,
			Desc: fmt.Sprintf("%s\ngraph: %s\ndocument: %q", cfg, strings.Join(qStrings(want), " | "), string(doc))}
		if oracle != "" {
			cs.In = []string{"turtle", fmt.Sprintf("%x", doc), cfg.String()}
		}
		out.Emit(cs)
	}
}

func qStrings(qs []hx.Q) []string {
	var out []string
	for _, q := range qs {
		out = append(out, q.String())
	}
	return out
}

package main

import (
	"encoding/base64"
	"fmt"
	"math"
	"math/big"
	"regexp"
	"strconv"
	"strings"

	"github.com/dpb587/rdfkit-go/ontology/xsd/xsdtype"
	"github.com/dpb587/rdfkit-go/ontology/xsd/xsdutil"
	"github.com/dpb587/rdfkit-go/rdf"
	"verifharness/hx"
)

func init() { families["c20-xsd"] = c20XSD }

// the harness' own reading of the XML Schema 1.1 lexical spaces (after white space processing)
const (
	reTZ   = `(Z|[+-]((0[0-9]|1[0-3]):[0-5][0-9]|14:00))?`
	reYear = `-?([1-9][0-9]{3,}|0[0-9]{3})`
	reMon  = `(0[1-9]|1[0-2])`
	reDay  = `(0[1-9]|[12][0-9]|3[01])`
	reTime = `(([01][0-9]|2[0-3]):[0-5][0-9]:[0-5][0-9](\.[0-9]+)?|24:00:00(\.0+)?)`
)

type xsdT struct {
	name  string
	lex   *regexp.Regexp
	lo    string // integer range ("" = unbounded / not an integer type)
	hi    string
	ws    string // white space facet: preserve | collapse
	mapFn func(string) (xsdValue, error)
	canon []string // canonical lexical forms the Go type represents (must be accepted)
	valid []string // further valid lexical forms
	bad   []string // just outside the lexical space
}

type xsdValue interface {
	AsObjectValue() rdf.ObjectValue
	TermEquals(rdf.Term) bool
}

func wrap[T xsdValue](f func(string) (T, error)) func(string) (xsdValue, error) {
	return func(s string) (xsdValue, error) {
		v, err := f(s)
		if err != nil {
			return nil, err
		}
		return v, nil
	}
}

func intT(name, lo, hi string, f func(string) (xsdValue, error)) xsdT {
	canon := []string{"0", "1", "7", "12", "100"}
	if lo != "" {
		canon = append(canon, lo)
		if lo != "0" {
			canon = append(canon, "-1", "-12")
		}
	} else {
		canon = append(canon, "-1", "-12", "-9223372036854775808")
	}
	if hi != "" {
		canon = append(canon, hi)
		if h, ok := new(big.Int).SetString(hi, 10); ok && h.Cmp(big.NewInt(40000)) > 0 {
			canon = append(canon, "32768", "40000")
		}
		if h, ok := new(big.Int).SetString(hi, 10); ok && h.Cmp(big.NewInt(5000000000)) > 0 {
			canon = append(canon, "2147483648", "5000000000", "9223372036854775807")
		}
	} else {
		canon = append(canon, "9223372036854775807", "32768", "5000000000")
	}
	valid := []string{"+1", "007", "-0", "+0", " 5 ", "\t5\n", "00"}
	bad := []string{"", " ", "1.0", "1e3", "0x10", "1_000", "--1", "+-1", "1 0", "１", "1.", ".1", "a", "-", "+", "1-", "٣", "0b1", "0o7", "1e0", "Inf", "NaN"}
	if hi != "" {
		h, _ := new(big.Int).SetString(hi, 10)
		bad = append(bad, new(big.Int).Add(h, big.NewInt(1)).String())
	}
	if lo != "" {
		l, _ := new(big.Int).SetString(lo, 10)
		bad = append(bad, new(big.Int).Sub(l, big.NewInt(1)).String())
	}
	return xsdT{name: name, lex: regexp.MustCompile(`^[+-]?[0-9]+$`), lo: lo, hi: hi, ws: "collapse", mapFn: f, canon: canon, valid: valid, bad: bad}
}

var xsdTypes = []xsdT{
	{name: "boolean", lex: regexp.MustCompile(`^(true|false|1|0)$`), ws: "collapse", mapFn: wrap(xsdtype.MapBoolean),
		canon: []string{"true", "false"}, valid: []string{"1", "0", " true ", "\nfalse"}, bad: []string{"", "TRUE", "True", "yes", "2", "t", "01", "true false", "tr ue", "-1", "0.0"}},
	intT("integer", "", "", wrap(xsdtype.MapInteger)),
	intT("long", "-9223372036854775808", "9223372036854775807", wrap(xsdtype.MapLong)),
	intT("int", "-2147483648", "2147483647", wrap(xsdtype.MapInt)),
	intT("short", "-32768", "32767", wrap(xsdtype.MapShort)),
	intT("byte", "-128", "127", wrap(xsdtype.MapByte)),
	intT("unsignedLong", "0", "18446744073709551615", wrap(xsdtype.MapUnsignedLong)),
	intT("unsignedInt", "0", "4294967295", wrap(xsdtype.MapUnsignedInt)),
	intT("unsignedShort", "0", "65535", wrap(xsdtype.MapUnsignedShort)),
	intT("unsignedByte", "0", "255", wrap(xsdtype.MapUnsignedByte)),
	{name: "decimal", lex: regexp.MustCompile(`^[+-]?([0-9]+(\.[0-9]*)?|\.[0-9]+)$`), ws: "collapse", mapFn: wrap(xsdtype.MapDecimal),
		canon: []string{"0", "1", "-1", "1.5", "-0.25", "100", "0.125", "12345.0625", "4294967296", "-7.75"},
		valid: []string{"+1", "1.", ".5", "-.5", "001.500", "1.0", "0.0", "-0", " 2.50 ", "+.0"},
		bad:   []string{"", ".", "1e5", "1E5", "NaN", "INF", "Inf", "-INF", "0x10", "0x1p-2", "1_0", "1..0", "1.0.0", "--1", "1 .5", "Infinity", "nan", "+", "-", "1,5", "١"}},
	{name: "double", lex: regexp.MustCompile(`^([+-]?([0-9]+(\.[0-9]*)?|\.[0-9]+)([eE][+-]?[0-9]+)?|[+-]?INF|NaN)$`), ws: "collapse", mapFn: wrap(xsdtype.MapDouble),
		canon: []string{"0.0E0", "1.0E0", "-1.0E0", "1.5E0", "1.0E3", "1.25E-2", "INF", "-INF", "NaN", "1.7976931348623157E308", "4.9E-324", "-0.0E0"},
		valid: []string{"1", "1.0", "1e3", "1E3", "+1.5e-2", ".5", "5.", "-.5E+10", "+INF", " NaN ", "0", "-0", "1e400", "1e-400", "12345678901234567890"},
		bad:   []string{"", ".", "e5", "1e", "1e+", "inf", "Inf", "infinity", "Infinity", "nan", "NAN", "-NaN", "+NaN", "0x1p-2", "0x10", "1_0", "1e5.5", "--1", "1 e5", "INFINITY", "1f", "1d"}},
	{name: "float", lex: regexp.MustCompile(`^([+-]?([0-9]+(\.[0-9]*)?|\.[0-9]+)([eE][+-]?[0-9]+)?|[+-]?INF|NaN)$`), ws: "collapse", mapFn: wrap(xsdtype.MapFloat),
		canon: []string{"0.0E0", "1.0E0", "-1.5E0", "1.0E3", "INF", "-INF", "NaN", "3.4028235E38", "1.0E-45"},
		valid: []string{"1", "1e3", ".5", "+INF", "1e50", "16777217"},
		bad:   []string{"", "inf", "Infinity", "nan", "0x1p-2", "1_0", "e1", "1e", "-NaN"}},
	{name: "hexBinary", lex: regexp.MustCompile(`^([0-9a-fA-F]{2})*$`), ws: "collapse", mapFn: wrap(xsdtype.MapHexBinary),
		canon: []string{"", "00", "0FB7", "DEADBEEF", "0123456789ABCDEF"}, valid: []string{"0fb7", " 0F ", "aB"}, bad: []string{"0", "0FB", "0G", "0F B7", "0x0F", "zz", "0F-B7", "é"}},
	{name: "base64Binary", lex: regexp.MustCompile(`^(([A-Za-z0-9+/] ?){4})*(([A-Za-z0-9+/] ?){3}[A-Za-z0-9+/]|([A-Za-z0-9+/] ?){2}[AEIMQUYcgkosw048] ?=|[A-Za-z0-9+/] ?[AQgw] ?= ?=)?$`), ws: "collapse", mapFn: wrap(xsdtype.MapBase64Binary),
		canon: []string{"", "AA==", "AAA=", "AAAA", "aGVsbG8=", "aGVsbG8h", "/+8="}, valid: []string{"aGVs bG8=", " AAAA ", "A A A A", "AA = ="},
		bad: []string{"A", "AA", "AAA", "AA=", "A===", "AAAA=", "AB==", "AAB=", "aGVsbG8", "aGV*bG8=", "====", "AA==AA==", "-_8="}},
	{name: "string", lex: regexp.MustCompile(`(?s)^.*$`), ws: "preserve", mapFn: wrap(xsdtype.MapString),
		canon: []string{"", "a", " a  b ", "\ta\n", "é", "\U0001F600"}},
	{name: "anyURI", lex: regexp.MustCompile(`(?s)^.*$`), ws: "collapse", mapFn: wrap(xsdtype.MapAnyURI),
		canon: []string{"", "http://example.org/", "rel/path?q#f", "urn:x:y", "http://é.example/"}, valid: []string{" http://example.org/ ", "a  b"}},
	{name: "dateTime", lex: regexp.MustCompile(`^` + reYear + `-` + reMon + `-` + reDay + `T` + reTime + reTZ + `$`), ws: "collapse", mapFn: wrap(xsdtype.MapDateTime),
		canon: []string{"2020-01-01T00:00:00", "2020-01-01T00:00:00Z", "1999-12-31T23:59:59.5Z", "2004-02-29T12:00:00.125", "2020-06-15T10:30:00.123456789Z", "0001-01-01T00:00:00Z", "2020-01-01T00:00:00.1Z"},
		valid: []string{"2020-01-01T00:00:00+05:30", "2020-01-01T00:00:00-14:00", "2020-01-01T24:00:00", " 2020-01-01T00:00:00Z ", "2020-01-01T00:00:00.000Z", "-0044-03-15T00:00:00Z", "12020-01-01T00:00:00Z", "2020-01-01T00:00:00.1234567891Z"},
		bad:   []string{"", "2020-01-01", "2020-1-1T00:00:00", "2020-01-01 00:00:00", "2020-01-01T0:00:00", "2020-13-01T00:00:00", "2020-01-32T00:00:00", "2020-02-30T00:00:00", "2021-02-29T00:00:00", "2020-01-01T25:00:00", "2020-01-01T00:60:00", "2020-01-01T00:00:60", "2020-01-01T00:00:00z", "2020-01-01T00:00:00+15:00", "2020-01-01T00:00:00+5:30", "2020-01-01T00:00:00.Z", "20-01-01T00:00:00", "02020-01-01T00:00:00", "2020-01-01T24:00:01", "2020-01-01t00:00:00"}},
	{name: "dateTimeStamp", lex: regexp.MustCompile(`^` + reYear + `-` + reMon + `-` + reDay + `T` + reTime + `(Z|[+-]((0[0-9]|1[0-3]):[0-5][0-9]|14:00))$`), ws: "collapse", mapFn: wrap(xsdtype.MapDateTimeStamp),
		canon: []string{"2020-01-01T00:00:00Z", "1999-12-31T23:59:59.5Z"}, valid: []string{"2020-01-01T00:00:00+05:30"}, bad: []string{"2020-01-01T00:00:00", "", "2020-01-01"}},
	{name: "date", lex: regexp.MustCompile(`^` + reYear + `-` + reMon + `-` + reDay + reTZ + `$`), ws: "collapse", mapFn: wrap(xsdtype.MapDate),
		canon: []string{"2020-01-01", "2020-01-01Z", "2004-02-29"}, valid: []string{"2020-01-01+05:30", "2020-01-01-14:00", "-0044-03-15", "12020-01-01"},
		bad: []string{"", "2020-1-1", "2020-13-01", "2020-02-30", "2021-02-29", "2020-01-01T00:00:00", "20200101", "2020-01-01z", "2020-01-01+15:00", "01-01-2020"}},
	{name: "time", lex: regexp.MustCompile(`^` + reTime + reTZ + `$`), ws: "collapse", mapFn: wrap(xsdtype.MapTime),
		canon: []string{"00:00:00", "23:59:59Z", "12:30:00.5", "12:30:00.125Z"}, valid: []string{"12:30:00+05:30", "24:00:00", "12:30:00.000"},
		bad: []string{"", "12:30", "1:30:00", "25:00:00", "12:60:00", "12:30:60", "12:30:00z", "12.30.00", "T12:30:00", "12:30:00.", "24:00:01"}},
	{name: "gYear", lex: regexp.MustCompile(`^` + reYear + reTZ + `$`), ws: "collapse", mapFn: wrap(xsdtype.MapGYear),
		canon: []string{"2020", "2020Z", "0001"}, valid: []string{"2020+05:30", "-0044", "12020"}, bad: []string{"", "20", "020", "02020", "2020-", "2020z", "twenty"}},
	{name: "gYearMonth", lex: regexp.MustCompile(`^` + reYear + `-` + reMon + reTZ + `$`), ws: "collapse", mapFn: wrap(xsdtype.MapGYearMonth),
		canon: []string{"2020-01", "2020-12Z"}, valid: []string{"2020-01+05:30", "-0044-03"}, bad: []string{"", "2020-1", "2020-13", "2020-00", "2020", "2020-01-01", "20-01"}},
	{name: "gMonthDay", lex: regexp.MustCompile(`^--` + reMon + `-` + reDay + reTZ + `$`), ws: "collapse", mapFn: wrap(xsdtype.MapGMonthDay),
		canon: []string{"--01-01", "--12-31Z", "--02-29"}, valid: []string{"--01-01+05:30"}, bad: []string{"", "01-01", "--1-1", "--13-01", "--02-30", "--04-31", "-01-01", "--0101"}},
	{name: "gDay", lex: regexp.MustCompile(`^---` + reDay + reTZ + `$`), ws: "collapse", mapFn: wrap(xsdtype.MapGDay),
		canon: []string{"---01", "---31Z"}, valid: []string{"---15+05:30"}, bad: []string{"", "01", "---1", "---32", "---00", "--01", "----01"}},
	{name: "gMonth", lex: regexp.MustCompile(`^--` + reMon + reTZ + `$`), ws: "collapse", mapFn: wrap(xsdtype.MapGMonth),
		canon: []string{"--01", "--12Z"}, valid: []string{"--06+05:30"}, bad: []string{"", "01", "--1", "--13", "--00", "-01", "--01--"}},
	{name: "duration", lex: regexp.MustCompile(`^-?P((([0-9]+Y([0-9]+M)?([0-9]+D)?|([0-9]+M)([0-9]+D)?|([0-9]+D))(T(([0-9]+H)([0-9]+M)?([0-9]+(\.[0-9]+)?S)?|([0-9]+M)([0-9]+(\.[0-9]+)?S)?|([0-9]+(\.[0-9]+)?S)))?)|(T(([0-9]+H)([0-9]+M)?([0-9]+(\.[0-9]+)?S)?|([0-9]+M)([0-9]+(\.[0-9]+)?S)?|([0-9]+(\.[0-9]+)?S))))$`), ws: "collapse", mapFn: wrap(xsdtype.MapDuration),
		canon: []string{"P1Y", "P1M", "P1D", "PT1H", "PT1M", "PT1S", "PT0S", "P1Y2M3DT4H5M6S", "-P1D", "PT1.5S", "P1Y2M", "PT36H"},
		valid: []string{"P0Y", "P01Y", "PT0.000S", "P1YT1S", "-PT1M"},
		bad:   []string{"", "P", "PT", "-P", "P1", "1Y", "P1S", "PT1Y", "P1.5Y", "P1.5D", "PT1.5H", "PT1.5M", "P1YT", "PY", "PTS", "P-1Y", "P1Y-2M", "PT1.S", "PT.5S", "p1y", "P1H", "P1M1Y", "PT1S1M", "+P1D", "P 1Y"}},
}

// c20Collapse: the white space processing the harness expects (XML Schema whiteSpace facet)
func c20Collapse(s string) string {
	s = strings.NewReplacer("\t", " ", "\n", " ", "\r", " ").Replace(s)
	return strings.Join(strings.FieldsFunc(s, func(r rune) bool { return r == ' ' }), " ")
}

func (t xsdT) inLexicalSpace(s string) bool {
	v := s
	if t.ws == "collapse" {
		v = c20Collapse(s)
	}
	if !t.lex.MatchString(v) {
		return false
	}
	if t.name == "base64Binary" {
		return true
	}
	if t.lo != "" || t.hi != "" {
		n, ok := new(big.Int).SetString(strings.TrimPrefix(v, "+"), 10)
		if !ok {
			return false
		}
		if t.lo != "" {
			l, _ := new(big.Int).SetString(t.lo, 10)
			if n.Cmp(l) < 0 {
				return false
			}
		}
		if t.hi != "" {
			h, _ := new(big.Int).SetString(t.hi, 10)
			if n.Cmp(h) > 0 {
				return false
			}
		}
	}
	switch t.name {
	case "dateTime", "dateTimeStamp", "date", "gMonthDay":
		return c20DayOK(v, t.name)
	}
	return true
}

var reYMD = regexp.MustCompile(`^(-?[0-9]{4,})-([0-9]{2})-([0-9]{2})`)
var reMD = regexp.MustCompile(`^--([0-9]{2})-([0-9]{2})`)

func c20DayOK(v, name string) bool {
	var y, m, d int
	if name == "gMonthDay" {
		x := reMD.FindStringSubmatch(v)
		if x == nil {
			return false
		}
		y = 2000 // a leap year: --02-29 is valid
		m, _ = strconv.Atoi(x[1])
		d, _ = strconv.Atoi(x[2])
	} else {
		x := reYMD.FindStringSubmatch(v)
		if x == nil {
			return false
		}
		yy, _ := new(big.Int).SetString(x[1], 10)
		y = int(new(big.Int).Mod(yy, big.NewInt(400)).Int64())
		m, _ = strconv.Atoi(x[2])
		d, _ = strconv.Atoi(x[3])
	}
	days := []int{31, 28, 31, 30, 31, 30, 31, 31, 30, 31, 30, 31}[m-1]
	if m == 2 && (y%4 == 0 && (y%100 != 0 || y%400 == 0)) {
		days = 29
	}
	return d <= days
}

// same value? ("" = yes or not decidable by the harness; else why not)
func (t xsdT) sameValue(a, b string) string {
	if t.ws == "collapse" {
		a, b = c20Collapse(a), c20Collapse(b)
	}
	switch {
	case t.name == "boolean":
		n := func(s string) string { return map[string]string{"1": "true", "0": "false"}[s] + s[:0] }
		na, nb := a, b
		if x := n(a); x != "" {
			na = x
		}
		if x := n(b); x != "" {
			nb = x
		}
		if na != nb {
			return fmt.Sprintf("%q and %q are different booleans", a, b)
		}
	case t.lex.String() == `^[+-]?[0-9]+$`:
		x, ok1 := new(big.Int).SetString(strings.TrimPrefix(a, "+"), 10)
		y, ok2 := new(big.Int).SetString(strings.TrimPrefix(b, "+"), 10)
		if ok1 && ok2 && x.Cmp(y) != 0 {
			return fmt.Sprintf("%s and %s are different integers", a, b)
		}
	case t.name == "decimal":
		x, ok1 := new(big.Rat).SetString(strings.TrimSuffix(strings.TrimPrefix(a, "+"), "."))
		y, ok2 := new(big.Rat).SetString(strings.TrimSuffix(strings.TrimPrefix(b, "+"), "."))
		if ok1 && ok2 && x.Cmp(y) != 0 {
			// the Go type is a float64: the nearest double is the best it can do
			fx, _ := x.Float64()
			fy, _ := y.Float64()
			if fx != fy {
				return fmt.Sprintf("%s and %s are different decimals", a, b)
			}
		}
	case t.name == "double" || t.name == "float":
		bits := 64
		if t.name == "float" {
			bits = 32
		}
		p := func(s string) (float64, bool) {
			switch s {
			case "INF", "+INF":
				return math.Inf(1), true
			case "-INF":
				return math.Inf(-1), true
			case "NaN":
				return math.NaN(), true
			}
			f, err := strconv.ParseFloat(s, bits)
			if err != nil && !strings.Contains(err.Error(), "range") {
				return 0, false
			}
			return f, true
		}
		x, ok1 := p(a)
		y, ok2 := p(b)
		if ok1 && ok2 && !(x == y && math.Signbit(x) == math.Signbit(y) || (math.IsNaN(x) && math.IsNaN(y))) {
			return fmt.Sprintf("%s and %s are different floating point values", a, b)
		}
	case t.name == "hexBinary":
		if !strings.EqualFold(a, b) {
			return fmt.Sprintf("%s and %s are different octet sequences", a, b)
		}
	case t.name == "base64Binary":
		x, e1 := base64.StdEncoding.DecodeString(strings.ReplaceAll(a, " ", ""))
		y, e2 := base64.StdEncoding.DecodeString(strings.ReplaceAll(b, " ", ""))
		if e1 == nil && e2 == nil && string(x) != string(y) {
			return fmt.Sprintf("%s and %s are different octet sequences", a, b)
		}
	case strings.HasPrefix(t.name, "date") || t.name == "time" || strings.HasPrefix(t.name, "g"):
		n := func(x string) string {
			x = reFrac.ReplaceAllStringFunc(x, func(f string) string {
				if len(f) > 10 { // the Go type counts nanoseconds
					f = f[:10]
				}
				f = strings.TrimRight(f, "0")
				if f == "." {
					return ""
				}
				return f
			})
			return reZeroOffset.ReplaceAllString(x, "Z")
		}
		if n(a) != n(b) && !strings.Contains(a, "24:00:00") {
			return fmt.Sprintf("%s and %s are different values", a, b)
		}
	case t.name == "duration":
		if c20DurationSeconds(a) != c20DurationSeconds(b) {
			return fmt.Sprintf("%s and %s are different durations", a, b)
		}
	case t.name == "string" || t.name == "anyURI":
		if a != b {
			return fmt.Sprintf("%q and %q are different strings", a, b)
		}
	}
	return ""
}

var reFrac = regexp.MustCompile(`\.[0-9]+`)
var reZeroOffset = regexp.MustCompile(`[+-]00:00$`)
var reDurFracNonSecond = regexp.MustCompile(`^-?P[0-9.YMD]*(T[0-9.HMS]*)?$`)
var reDurPart = regexp.MustCompile(`([0-9]+(\.[0-9]+)?)([YMDHS])`)

// c20DurationSeconds: months and seconds of a duration as one comparable string
func c20DurationSeconds(s string) string {
	neg := strings.HasPrefix(s, "-")
	months, secs := new(big.Rat), new(big.Rat)
	inTime := false
	rest := strings.TrimPrefix(strings.TrimPrefix(s, "-"), "P")
	for len(rest) > 0 {
		if rest[0] == 'T' {
			inTime, rest = true, rest[1:]
			continue
		}
		m := reDurPart.FindStringSubmatch(rest)
		if m == nil || !strings.HasPrefix(rest, m[0]) {
			return "?" + s
		}
		v, _ := new(big.Rat).SetString(m[1])
		switch {
		case m[3] == "Y":
			months.Add(months, new(big.Rat).Mul(v, big.NewRat(12, 1)))
		case m[3] == "M" && !inTime:
			months.Add(months, v)
		case m[3] == "D":
			secs.Add(secs, new(big.Rat).Mul(v, big.NewRat(86400, 1)))
		case m[3] == "H":
			secs.Add(secs, new(big.Rat).Mul(v, big.NewRat(3600, 1)))
		case m[3] == "M":
			secs.Add(secs, new(big.Rat).Mul(v, big.NewRat(60, 1)))
		case m[3] == "S":
			secs.Add(secs, v)
		}
		rest = rest[len(m[0]):]
	}
	if months.Sign() == 0 && secs.Sign() == 0 {
		neg = false
	}
	return fmt.Sprintf("%v %s %s", neg, months.RatString(), secs.RatString())
}

var c20ReTZEnd = regexp.MustCompile(`(Z|[+-][0-9]{2}:[0-9]{2})$`)

var c20Mutations = []string{" ", "\t", "\f", "\v", "\u00a0", "\u0085", "\u2003", "\r", "+", "-", ".", "0", "1", "e", "E", "Z", ":", "T", "P", "=", "x", "_", "é", "00", "\n"}

func c20XSD(r *hx.Rand, n int, out *hx.Out, _ []string) {
	for c := 0; c < n; c++ {
		rr := r.Fork()
		if c%29 == 28 { // xsdutil.WhiteSpaceCollapse itself against the model
			var sb strings.Builder
			for i, k := 0, rr.Intn(8); i < k; i++ {
				sb.WriteString(hx.Pick(rr, []string{" ", "  ", "\t", "\n", "\r", "\r\n", "a", "b c", "\f", "\v", "\u00a0", "\u0085", "\u2003", "é", ""}))
			}
			s := sb.String()
			out.Emit(hx.Case{Kind: "K/C20/whitespace", Line: "xsd\tws\t" + hx.X(s), Impl: "V" + hx.X(xsdutil.WhiteSpaceCollapse(s)), Class: "whitespace", NonTri: len(s) > 1,
				Desc: fmt.Sprintf("WhiteSpaceCollapse(%q)", s)})
			continue
		}
		t := xsdTypes[c%len(xsdTypes)]
		var s, cls string
		switch k := rr.Intn(10); {
		case k < 3 && len(t.canon) > 0:
			s, cls = hx.Pick(rr, t.canon), "canonical"
		case k < 5 && len(t.valid) > 0:
			s, cls = hx.Pick(rr, t.valid), "valid"
		case k < 7 && len(t.bad) > 0:
			s, cls = hx.Pick(rr, t.bad), "listed-invalid"
		default:
			pool := append(append(append([]string{}, t.canon...), t.valid...), t.bad...)
			s = hx.Pick(rr, pool)
			for i, m := 0, 1+rr.Intn(2); i < m; i++ {
				p := 0
				if len(s) > 0 {
					p = rr.Intn(len(s) + 1)
				}
				switch rr.Intn(3) {
				case 0:
					s = s[:p] + hx.Pick(rr, c20Mutations) + s[p:]
				case 1:
					if p < len(s) {
						s = s[:p] + s[p+1:]
					}
				default:
					if p < len(s) {
						s = s[:p] + hx.Pick(rr, c20Mutations) + s[p+1:]
					}
				}
			}
			if rr.Chance(1, 5) {
				// the timezone: taken off, put on, or swapped for one at or beyond the edge of the lexical space
				s = c20ReTZEnd.ReplaceAllString(s, "") + hx.Pick(rr, []string{"", "Z", "z", "+14:00", "-14:00", "+14:01", "+14:30", "-14:59", "+13:59", "-13:60", "+15:00",
					"+24:00", "+00:60", "-00:00", "+0:00", "+00:00", "+1400", "+14", " +01:00", "+01:00:00"})
			}
			s = strings.ToValidUTF8(s, "?")
			cls = "mutated"
		}
		valid := t.inLexicalSpace(s)
		oracle, sig := "", ""
		impl := "E"
		v, err := func() (v xsdValue, err error) {
			defer func() {
				if p := recover(); p != nil {
					err = fmt.Errorf("panic: %v", p)
					oracle = fmt.Sprintf("Map%s(%q) panics: %v", t.name, s, p)
				}
			}()
			return t.mapFn(s)
		}()
		switch {
		case oracle != "":
		case err == nil && !valid:
			oracle = fmt.Sprintf("Map accepts %q, which is not in the lexical space of xsd:%s", s, t.name)
			if t.name == "duration" && reDurFracNonSecond.MatchString(c20Collapse(s)) && regexp.MustCompile(`[0-9]\.[0-9]+[YMDH]|T[0-9.HMS]*[0-9]\.[0-9]+M`).MatchString(c20Collapse(s)) &&
				t.inLexicalSpace(regexp.MustCompile(`([0-9]+)\.[0-9]+([YMDH]|M)`).ReplaceAllString(c20Collapse(s), "$1$2")) {
				sig = "C20/duration-fractional-component" // known finding F59: pinned by the repository's own test
			}
		case err != nil && cls == "canonical":
			oracle = fmt.Sprintf("Map rejects the canonical lexical form %q of xsd:%s: %v", s, t.name, err)
		}
		if err == nil && v != nil {
			lit, ok := v.AsObjectValue().(rdf.Literal)
			switch {
			case !ok:
				oracle = "AsObjectValue is not a literal"
			default:
				impl = "V" + hx.X(lit.LexicalForm)
				switch {
				case string(lit.Datatype) != xsdNS+t.name:
					oracle = fmt.Sprintf("mapped value has datatype %s", lit.Datatype)
				case valid && !t.inLexicalSpace(lit.LexicalForm):
					oracle = fmt.Sprintf("the literal of the value mapped from %q has the lexical form %q, not in the lexical space of xsd:%s", s, lit.LexicalForm, t.name)
				case valid && t.sameValue(s, lit.LexicalForm) != "":
					oracle = fmt.Sprintf("the value changes: %s (mapped from %q, literal %q)", t.sameValue(s, lit.LexicalForm), s, lit.LexicalForm)
				case valid:
					v2, err2 := t.mapFn(lit.LexicalForm)
					if err2 != nil {
						oracle = fmt.Sprintf("the literal %q produced from %q is not accepted again: %v", lit.LexicalForm, s, err2)
					} else if l2, _ := v2.AsObjectValue().(rdf.Literal); l2.LexicalForm != lit.LexicalForm {
						oracle = fmt.Sprintf("canonicalisation is not idempotent: %q -> %q -> %q", s, lit.LexicalForm, l2.LexicalForm)
					} else if !v.TermEquals(lit) {
						oracle = fmt.Sprintf("the value mapped from %q does not equal its own literal %q", s, lit.LexicalForm)
					} else if other := (rdf.Literal{Datatype: lit.Datatype, LexicalForm: lit.LexicalForm + "0"}); v.TermEquals(other) && t.name != "string" {
						oracle = fmt.Sprintf("the value mapped from %q equals the literal %q", s, other.LexicalForm)
					} else if v.TermEquals(rdf.Literal{Datatype: rdf.IRI(xsdNS + "token"), LexicalForm: lit.LexicalForm}) {
						oracle = "TermEquals ignores the datatype"
					}
				}
			}
		}
		cs := hx.Case{Kind: "K/C20/" + t.name, Impl: impl, Class: fmt.Sprintf("%s valid=%v", cls, valid), NonTri: len(s) > 0, Oracle: oracle, Sig: sig,
			Desc: fmt.Sprintf("xsd:%s %q", t.name, s), In: []string{t.name, s}}
		switch t.name {
		case "boolean", "integer", "long", "int", "short", "byte", "unsignedLong", "unsignedInt", "unsignedShort", "unsignedByte", "hexBinary":
			// model-backed: acceptance and canonical form through the Gallina model of the mapping function
			if !strings.Contains(impl, "panic") {
				cs.Line = "xsd\t" + t.name + "\t" + hx.X(s)
			}
		}
		out.Emit(cs)
	}
}

package main

import (
	"bytes"
	"errors"
	"fmt"
	"io"
	"os"
	"regexp"
	"runtime/debug"
	"strings"
	"time"
	"unicode/utf8"

	"github.com/dpb587/cursorio-go/cursorio"
	"github.com/dpb587/inspectjson-go/inspectjson"
	"github.com/dpb587/rdfkit-go/encoding"
	encodinghtml "github.com/dpb587/rdfkit-go/encoding/html"
	"github.com/dpb587/rdfkit-go/encoding/html/htmldefaults"
	"github.com/dpb587/rdfkit-go/encoding/htmljsonld"
	"github.com/dpb587/rdfkit-go/encoding/htmlmicrodata"
	"github.com/dpb587/rdfkit-go/encoding/htmlrdfa"
	"github.com/dpb587/rdfkit-go/encoding/jsonld"
	"github.com/dpb587/rdfkit-go/encoding/nquads"
	"github.com/dpb587/rdfkit-go/encoding/ntriples"
	"github.com/dpb587/rdfkit-go/encoding/rdfjson"
	"github.com/dpb587/rdfkit-go/encoding/rdfxml"
	"github.com/dpb587/rdfkit-go/encoding/trig"
	"github.com/dpb587/rdfkit-go/encoding/turtle"
	"github.com/dpb587/rdfkit-go/iri"
	"github.com/dpb587/rdfkit-go/rdf"
	"verifharness/hx"
)

// zoo: one uniform driver for every decoder of the library.

var zooNames = []string{"ntriples", "nquads", "turtle", "trig", "rdfxml", "rdfjson", "jsonld", "htmlrdfa", "htmlmicrodata", "htmljsonld", "htmldefaults"}

type zooOpts struct {
	offsets       bool
	init          cursorio.TextOffset
	base          string // "" = none
	lax           bool   // lax JSON tokenizer
	mode          string // JSON-LD processing mode ("" = default)
	prefixes      iri.PrefixMappingList
	sizes         []int // read chunk sizes; nil = bytes.Reader
	fail          bool  // reader ends with an injected error instead of io.EOF
	direct        bool
	listener      bool // htmljsonld: a nested error listener is installed
	itemtypeVocab bool // Microdata: property names relative to the item type, as the combined HTML decoder configures it
}

type zooIter interface {
	Next() bool
	Err() error
	Close() error
	Statement() rdf.Statement
}

type zooResult struct {
	verdict string // ok | error | io | panic | hang | new
	detail  string
	quads   []rdf.Quad
	offs    []encoding.StatementTextOffsets
	proto   string
	errOffs []cursorio.TextOffsetRange // text positions attached to the final error (a single offset is an empty range)
}

// zooErrOffsets collects the text positions carried by an error chain.
func zooErrOffsets(err error) []cursorio.TextOffsetRange {
	var out []cursorio.TextOffsetRange
	for i := 0; err != nil && i < 50; i++ {
		switch e := err.(type) {
		case cursorio.OffsetError:
			if o, ok := e.Offset.(cursorio.TextOffset); ok {
				out = append(out, cursorio.TextOffsetRange{From: o, Until: o})
			}
		case cursorio.OffsetRangeError:
			if o, ok := e.OffsetRange.(cursorio.TextOffsetRange); ok {
				out = append(out, o)
			}
		}
		err = errors.Unwrap(err)
	}
	return out
}

func zooReader(data []byte, o zooOpts) io.Reader {
	if o.sizes == nil && !o.fail {
		return bytes.NewReader(data)
	}
	return &chunkReader{data: append([]byte{}, data...), sizes: o.sizes, fail: o.fail, direct: o.direct}
}

func zooNew(name string, data []byte, o zooOpts) (zooIter, error) {
	rd := zooReader(data, o)
	switch name {
	case "ntriples":
		c := ntriples.DecoderConfig{}
		var more []ntriples.DecoderOption // options given as several values, in either order, compose
		if o.offsets {
			switch len(data) % 3 {
			case 0:
				c = c.SetCaptureTextOffsets(true).SetInitialTextOffset(o.init)
			case 1:
				c = c.SetInitialTextOffset(o.init)
				more = append(more, ntriples.DecoderConfig{}.SetCaptureTextOffsets(true))
			default:
				c = c.SetCaptureTextOffsets(true)
				more = append(more, ntriples.DecoderConfig{}.SetInitialTextOffset(o.init))
			}
		}
		return ntriples.NewDecoder(rd, append([]ntriples.DecoderOption{c}, more...)...)
	case "nquads":
		c := nquads.DecoderConfig{}
		var more []nquads.DecoderOption // options given as several values, in either order, compose
		if o.offsets {
			switch len(data) % 3 {
			case 0:
				c = c.SetCaptureTextOffsets(true).SetInitialTextOffset(o.init)
			case 1:
				c = c.SetInitialTextOffset(o.init)
				more = append(more, nquads.DecoderConfig{}.SetCaptureTextOffsets(true))
			default:
				c = c.SetCaptureTextOffsets(true)
				more = append(more, nquads.DecoderConfig{}.SetInitialTextOffset(o.init))
			}
		}
		return nquads.NewDecoder(rd, append([]nquads.DecoderOption{c}, more...)...)
	case "turtle":
		c := turtle.DecoderConfig{}
		var more []turtle.DecoderOption // options given as several values, in either order, compose
		if o.offsets {
			switch len(data) % 3 {
			case 0:
				c = c.SetCaptureTextOffsets(true).SetInitialTextOffset(o.init)
			case 1:
				c = c.SetInitialTextOffset(o.init)
				more = append(more, turtle.DecoderConfig{}.SetCaptureTextOffsets(true))
			default:
				c = c.SetCaptureTextOffsets(true)
				more = append(more, turtle.DecoderConfig{}.SetInitialTextOffset(o.init))
			}
		}
		if o.base != "" {
			c = c.SetDefaultBase(o.base)
		}
		if o.prefixes != nil {
			c = c.SetDefaultPrefixes(o.prefixes)
		}
		return turtle.NewDecoder(rd, append([]turtle.DecoderOption{c}, more...)...)
	case "trig":
		c := trig.DecoderConfig{}
		var more []trig.DecoderOption // options given as several values, in either order, compose
		if o.offsets {
			switch len(data) % 3 {
			case 0:
				c = c.SetCaptureTextOffsets(true).SetInitialTextOffset(o.init)
			case 1:
				c = c.SetInitialTextOffset(o.init)
				more = append(more, trig.DecoderConfig{}.SetCaptureTextOffsets(true))
			default:
				c = c.SetCaptureTextOffsets(true)
				more = append(more, trig.DecoderConfig{}.SetInitialTextOffset(o.init))
			}
		}
		if o.base != "" {
			c = c.SetDefaultBase(o.base)
		}
		if o.prefixes != nil {
			c = c.SetDefaultPrefixes(o.prefixes)
		}
		return trig.NewDecoder(rd, append([]trig.DecoderOption{c}, more...)...)
	case "rdfxml":
		c := rdfxml.DecoderConfig{}
		if o.offsets {
			c = c.SetCaptureTextOffsets(true).SetInitialTextOffset(o.init)
		}
		if o.base != "" {
			c = c.SetDefaultBase(o.base)
		}
		return rdfxml.NewDecoder(rd, c)
	case "rdfjson":
		c := rdfjson.DecoderConfig{}
		if o.offsets {
			c = c.SetCaptureTextOffsets(true).SetInitialTextOffset(o.init)
		}
		if o.lax {
			c = c.SetTokenizerOptions(inspectjson.TokenizerConfig{}.SetLax(true))
		}
		return rdfjson.NewDecoder(rd, c)
	case "jsonld":
		c := jsonld.DecoderConfig{}
		if o.offsets {
			c = c.SetCaptureTextOffsets(true).SetInitialTextOffset(o.init)
		}
		if o.base != "" {
			c = c.SetDefaultBase(o.base)
		}
		if o.mode != "" {
			c = c.SetProcessingMode(o.mode)
		}
		if o.lax {
			c = c.SetParserOptions(inspectjson.TokenizerConfig{}.SetLax(true))
		}
		return jsonld.NewDecoder(rd, c)
	case "htmlrdfa", "htmlmicrodata", "htmljsonld":
		dc := encodinghtml.DocumentConfig{}
		if o.offsets {
			dc = dc.SetCaptureTextOffsets(true).SetInitialTextOffset(o.init)
		}
		if o.base != "" {
			dc = dc.SetLocation(o.base)
		}
		doc, err := encodinghtml.ParseDocument(rd, dc)
		if err != nil {
			return nil, err
		}
		switch name {
		case "htmlrdfa":
			return htmlrdfa.NewDecoder(doc)
		case "htmlmicrodata":
			if o.itemtypeVocab {
				return htmlmicrodata.NewDecoder(doc, htmlmicrodata.DecoderConfig{}.SetVocabularyResolver(htmlmicrodata.ItemtypeVocabularyResolver))
			}
			return htmlmicrodata.NewDecoder(doc)
		default:
			if o.listener {
				// script errors go to a listener and the iteration goes on with the next script
				return htmljsonld.NewDecoder(doc, htmljsonld.DecoderConfig{}.SetNestedErrorListener(func(error) {}))
			}
			return htmljsonld.NewDecoder(doc)
		}
	case "htmldefaults":
		c := htmldefaults.DecoderConfig{}
		if o.offsets {
			c = c.SetCaptureTextOffsets(true).SetInitialTextOffset(o.init)
		}
		if o.base != "" {
			c = c.SetLocation(o.base)
		}
		return htmldefaults.NewDecoder(rd, c)
	}
	return nil, fmt.Errorf("unknown decoder %s", name)
}

// zooRun drives the whole iterator protocol under a wall-clock limit.
func zooRun(name string, data []byte, o zooOpts) zooResult {
	ch := make(chan zooResult, 1)
	go func() {
		var res zooResult
		defer func() {
			if p := recover(); p != nil {
				res.verdict, res.detail = "panic", fmt.Sprint(p)
				if os.Getenv("VERIF_TRACE") != "" {
					fmt.Fprintf(os.Stderr, "%s\n", debug.Stack())
				}
			}
			ch <- res
		}()
		d, err := zooNew(name, data, o)
		if err != nil {
			if errors.Is(err, errInjected) {
				res.verdict = "io"
			} else {
				res.verdict = "error"
			}
			res.detail = "new: " + err.Error()
			return
		}
		for d.Next() {
			var q rdf.Quad
			switch st := d.Statement().(type) {
			case rdf.Quad:
				q = st
			case rdf.Triple:
				q = rdf.Quad{Triple: st}
			default:
				res.proto = fmt.Sprintf("Statement() returned %T", st)
			}
			res.quads = append(res.quads, q)
			if p, ok := d.(encoding.StatementTextOffsetsProvider); ok && o.offsets {
				res.offs = append(res.offs, p.StatementTextOffsets())
			}
			if len(res.quads) > 200000 {
				res.proto = "more than 200000 statements"
				break
			}
		}
		e1 := d.Err()
		for i := 0; i < 3; i++ {
			if d.Next() {
				res.proto = "Next returned true after it had returned false"
			}
			e := d.Err()
			if (e == nil) != (e1 == nil) || (e != nil && e.Error() != e1.Error()) {
				res.proto = "Err changed after the end of iteration"
			}
		}
		if e := d.Close(); e != nil {
			res.proto = "Close failed: " + e.Error()
		}
		switch {
		case e1 == nil:
			res.verdict = "ok"
		case errors.Is(e1, errInjected):
			res.verdict, res.detail = "io", e1.Error()
		default:
			res.verdict, res.detail = "error", e1.Error()
			res.errOffs = zooErrOffsets(e1)
		}
	}()
	limit := 3*time.Second + time.Duration(len(data)/1024)*2*time.Second
	select {
	case r := <-ch:
		return r
	case <-time.After(limit):
		return zooResult{verdict: "hang", detail: fmt.Sprintf("no result after %v for %d bytes", limit, len(data))}
	}
}

// ---- C06: statement well-formedness ----

var reScheme = regexp.MustCompile(`^[A-Za-z][A-Za-z0-9+.\-]*:`)

func zooWF(q rdf.Quad, requireAbs bool) string {
	checkIRI := func(pos string, i rdf.IRI) string {
		if requireAbs && !reScheme.MatchString(string(i)) {
			return pos + " IRI is not absolute: " + string(i)
		}
		return ""
	}
	checkBN := func(pos string, b rdf.BlankNode) string {
		if b.Identifier == nil {
			return pos + " blank node has no identifier"
		}
		return ""
	}
	switch s := q.Triple.Subject.(type) {
	case nil:
		return "subject is nil"
	case rdf.IRI:
		if w := checkIRI("subject", s); w != "" {
			return w
		}
	case rdf.BlankNode:
		if w := checkBN("subject", s); w != "" {
			return w
		}
	default:
		return fmt.Sprintf("subject is %T", s)
	}
	switch p := q.Triple.Predicate.(type) {
	case nil:
		return "predicate is nil"
	case rdf.IRI:
		if w := checkIRI("predicate", p); w != "" {
			return w
		}
	default:
		return fmt.Sprintf("predicate is %T", p)
	}
	switch o := q.Triple.Object.(type) {
	case nil:
		return "object is nil"
	case rdf.IRI:
		if w := checkIRI("object", o); w != "" {
			return w
		}
	case rdf.BlankNode:
		if w := checkBN("object", o); w != "" {
			return w
		}
	case rdf.Literal:
		if o.Datatype == "" && requireAbs {
			// (without a base the datatype <> of Turtle / TriG stays the empty relative IRI, like any other relative IRI)
			return "literal without datatype"
		}
		if w := checkIRI("datatype", o.Datatype); w != "" {
			return w
		}
		switch tag := o.Tag.(type) {
		case nil:
			if o.Datatype == rdfNS+"langString" || o.Datatype == rdfNS+"dirLangString" {
				return "literal of datatype " + string(o.Datatype) + " without a language tag"
			}
		case rdf.LanguageLiteralTag:
			if o.Datatype != rdfNS+"langString" {
				return "language tag on a literal of datatype " + string(o.Datatype)
			} else if tag.Language == "" {
				return "empty language tag"
			}
		case rdf.DirectionalLanguageLiteralTag:
			if o.Datatype != rdfNS+"dirLangString" {
				return "directional tag on a literal of datatype " + string(o.Datatype)
			} else if tag.Language == "" || tag.BaseDirection == "" {
				return "empty language or direction"
			}
		default:
			return fmt.Sprintf("unknown literal tag %T", tag)
		}
	default:
		return fmt.Sprintf("object is %T", o)
	}
	switch g := q.GraphName.(type) {
	case nil:
	case rdf.IRI:
		if w := checkIRI("graph name", g); w != "" {
			return w
		}
	case rdf.BlankNode:
		if w := checkBN("graph name", g); w != "" {
			return w
		}
	default:
		return fmt.Sprintf("graph name is %T", g)
	}
	return ""
}

// ---- C16: offsets sanity against the document text ----

// zooPosAt recomputes (line, column) at a byte offset of doc with the rules of cursorio.TextWriter for documents
// whose code points are grapheme clusters on their own.
func zooPosAt(doc []byte, init cursorio.TextOffset, off int64) (cursorio.TextOffset, bool) {
	rel := off - int64(init.Byte)
	if rel < 0 || rel > int64(len(doc)) {
		return cursorio.TextOffset{}, false
	}
	line, col := init.LineColumn[0], init.LineColumn[1]
	p := doc[:rel]
	for len(p) > 0 {
		if p[0] == '\n' {
			line, col, p = line+1, 0, p[1:]
		} else if p[0] == '\r' {
			if len(p) > 1 && p[1] == '\n' {
				line, col, p = line+1, 0, p[2:]
			} else {
				p = p[1:]
			}
		} else {
			_, n := utf8.DecodeRune(p)
			col++
			p = p[n:]
		}
	}
	return cursorio.TextOffset{Byte: cursorio.ByteOffset(off), LineColumn: cursorio.TextLineColumn{line, col}}, true
}

func zooCheckRange(doc []byte, init cursorio.TextOffset, r cursorio.TextOffsetRange, simple bool) string {
	if r.From.Byte > r.Until.Byte {
		return fmt.Sprintf("range starts after its end: %v", r)
	}
	for _, o := range []cursorio.TextOffset{r.From, r.Until} {
		want, ok := zooPosAt(doc, init, int64(o.Byte))
		if !ok {
			return fmt.Sprintf("offset %v lies outside the document (%d bytes from %v)", o, len(doc), init)
		}
		if simple && (want.LineColumn != o.LineColumn) {
			return fmt.Sprintf("offset %v: the text at that byte is at line/column %v", o, want.LineColumn)
		}
	}
	return ""
}

func zooQuadsQ(qs []rdf.Quad) []hx.Q {
	nm := hx.NewNamer()
	var out []hx.Q
	for _, q := range qs {
		out = append(out, nm.Quad(q))
	}
	return out
}

func zooStmtStrings(qs []rdf.Quad) string {
	var parts []string
	for _, q := range zooQuadsQ(qs) {
		parts = append(parts, q.String())
	}
	return strings.Join(parts, "\n")
}

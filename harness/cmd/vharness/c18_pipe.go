package main

import (
	"bytes"
	"context"
	"fmt"
	"os"
	"os/exec"
	"path/filepath"
	"regexp"
	"strings"
	"time"

	"github.com/dpb587/rdfkit-go/encoding/html/htmlcontent"
	"github.com/dpb587/rdfkit-go/encoding/jsonld/jsonldcontent"
	"github.com/dpb587/rdfkit-go/encoding/rdfjson"
	"github.com/dpb587/rdfkit-go/encoding/rdfjson/rdfjsoncontent"
	"github.com/dpb587/rdfkit-go/encoding/rdfxml/rdfxmlcontent"
	"github.com/dpb587/rdfkit-go/rdf"
	"verifharness/hx"
)

func init() { families["c18-pipe"] = c18Pipe }

type c18Src struct {
	typ, ext, alias, id string // registry naming of the source format
	dec                 string // the library decoder which defines what the document holds
}

var c18Sources = []c18Src{
	{"nt", ".nt", "nt", "org.w3.n-triples", "ntriples"},
	{"nq", ".nq", "nquads", "org.w3.n-quads", "nquads"},
	{"ttl", ".ttl", "turtle", "org.w3.turtle", "turtle"},
	{"trig", ".trig", "trig", "org.w3.trig", "trig"},
	{"rdfxml", ".rdf", "rdf-xml", "org.w3.rdf-xml", "rdfxml"},
	{"rdfjson", ".rj", "rj", "org.w3.rdf-json", "rdfjson"},
	{"jsonld", ".jsonld", "jsonld", "org.json-ld.document", "jsonld"},
	{"html", ".html", "html", "public.html", "htmldefaults"},
}

type c18Tgt struct {
	alias, ext, dec string
	triples         bool
}

var c18Targets = []c18Tgt{
	{"nt", ".nt", "ntriples", true}, {"nq", ".nq", "nquads", false}, {"ttl", ".ttl", "turtle", true}, {"rdf-json", ".rj", "rdfjson", true},
}

// c18Source returns a document of the source type; written says it is the output of the library's own encoder for
// that type, which content sniffing has to recognise whatever it holds.
func c18Source(r *hx.Rand, s c18Src) (doc []byte, written bool) {
	if s.typ == "rdfjson" && r.Bool() {
		qs := nqGenDataset(r, false, 5)
		if len(qs) == 0 {
			qs = append(qs, rdf.Quad{Triple: rdf.Triple{Subject: rdf.IRI("http://e/s"), Predicate: rdf.IRI("http://e/p"), Object: nqGenLiteral(r)}})
		}
		var buf bytes.Buffer
		enc, err := rdfjson.NewEncoder(&buf)
		if err == nil {
			for _, q := range qs {
				q.GraphName = nil
				if err = enc.AddTriple(context.Background(), q.Triple); err != nil {
					break
				}
			}
			if err == nil && enc.Close() == nil {
				return buf.Bytes(), true
			}
		}
	}
	return c18SourceGen(r, s), false
}

func c18SourceGen(r *hx.Rand, s c18Src) []byte {
	switch s.typ {
	case "nt", "nq":
		qs := nqGenDataset(r, s.typ == "nq", 5)
		if s.typ == "nt" {
			for i := range qs {
				qs[i].GraphName = nil
			}
		}
		// some literals that look like markup: the content must not decide the type of a named file
		if r.Chance(1, 4) {
			// one subject naming the same blank node in two statements
			b := rdf.NewBlankNode()
			qs = append(qs, rdf.Quad{Triple: rdf.Triple{Subject: rdf.IRI("http://e/s"), Predicate: rdf.IRI("http://e/p"), Object: b}},
				rdf.Quad{Triple: rdf.Triple{Subject: rdf.IRI("http://e/s"), Predicate: rdf.IRI("http://e/q"), Object: b}},
				rdf.Quad{Triple: rdf.Triple{Subject: b, Predicate: rdf.IRI("http://e/p"), Object: nqGenLiteral(r)}})
		}
		if r.Chance(1, 4) {
			qs = append(qs, rdf.Quad{Triple: rdf.Triple{Subject: rdf.IRI("http://e/s"), Predicate: rdf.IRI("http://e/p"),
				Object: rdf.Literal{Datatype: rdf.IRI(xsdNS + "string"), LexicalForm: hx.Pick(r, []string{`<div vocab="http://v/">`, `<p itemscope>`, `{"@context": {}}`, `<?xml version="1.0"?>`, `<html>`, `<script type="application/ld+json">`})}}})
		}
		d, err := nqEncodeImpl(qs, nqEncOpts{nq: s.typ == "nq", ascii: r.Bool()})
		if err != nil {
			return nil
		}
		return d
	case "ttl", "trig":
		d, _, _ := genTurtleDoc(r, s.typ == "trig", "", 4)
		return []byte(d)
	case "html":
		return genHTML(r)
	}
	return genStructured(r, s.dec)
}

func c18Run(bin string, args ...string) (string, error) {
	ctx, cancel := context.WithTimeout(context.Background(), 20*time.Second)
	defer cancel()
	cmd := exec.CommandContext(ctx, bin, args...)
	var stderr bytes.Buffer
	cmd.Stderr = &stderr
	cmd.Stdout = &stderr
	err := cmd.Run()
	return stderr.String(), err
}

func defaultGraphOnly(qs []hx.Q) []hx.Q {
	var out []hx.Q
	for _, q := range qs {
		if q.G == "" {
			out = append(out, q)
		}
	}
	return out
}

func c18Pipe(r *hx.Rand, n int, out *hx.Out, _ []string) {
	bin := filepath.Join(os.Getenv("VERIF_WORK"), "rdfkit")
	if _, err := os.Stat(bin); err != nil {
		out.Emit(hx.Case{Kind: "K/C18/pipe", Impl: "no-binary", Class: "setup", Oracle: "the rdfkit binary was not built: " + err.Error()})
		return
	}
	dir, err := os.MkdirTemp(os.Getenv("VERIF_WORK"), "c18-")
	if err != nil {
		out.Emit(hx.Case{Kind: "K/C18/pipe", Impl: "no-tempdir", Class: "setup", Oracle: err.Error()})
		return
	}
	defer os.RemoveAll(dir)
	const base = "http://example.org/dir/doc"
	for c := 0; c < n; c++ {
		rr := r.Fork()
		src := c18Sources[c%len(c18Sources)]
		tgt := c18Targets[(c/len(c18Sources))%len(c18Targets)]
		doc, written := c18Source(rr, src)
		if doc == nil {
			continue
		}
		ref := zooRun(src.dec, doc, zooOpts{base: base})
		if ref.verdict != "ok" {
			// the library decoder does not accept the generated document: nothing stored to convert
			out.Emit(hx.Case{Kind: "K/C18/skip", Impl: ref.verdict, Class: src.typ + " source not decodable", Desc: src.typ})
			continue
		}
		if !c18WellFormed(ref.quads) {
			// relative or unwritable IRIs (dot segments, percent-encoded authority: see C02) are not data any format can carry
			out.Emit(hx.Case{Kind: "K/C18/skip", Impl: "ill-formed", Class: src.typ + " source holds ill-formed terms", Desc: src.typ})
			continue
		}
		want := zooQuadsQ(ref.quads)
		if tgt.triples {
			want = defaultGraphOnly(want)
		}
		// how the type is given
		how := hx.Pick(rr, []string{"alias", "identifier", "extension", "sniff"})
		inName := "in"
		var args []string
		switch how {
		case "alias":
			args = append(args, "--in-type", src.alias)
			inName += hx.Pick(rr, []string{"", ".txt", ".dat"})
		case "identifier":
			args = append(args, "--in-type", src.id)
		case "extension":
			inName += src.ext
		case "sniff":
			// content sniffing is a heuristic: it is asked to decide only where the format's own sniffer recognises the
			// document (RDF/JSON, JSON-LD, HTML, RDF/XML), or, for the formats without one, where no sniffer claims it
			// (the command then falls back to TriG, which holds N-Triples and Turtle)
			any := rdfjsoncontent.MatchBytes(doc) || jsonldcontent.MatchBytes(doc) || htmlcontent.MatchBytes(doc) || rdfxmlcontent.MatchBytes(doc) || htmlcontent.MatchBytesLax(doc)
			own := map[string]bool{"rdfjson": rdfjsoncontent.MatchBytes(doc), "jsonld": !rdfjsoncontent.MatchBytes(doc) && jsonldcontent.MatchBytes(doc),
				"html":   !rdfjsoncontent.MatchBytes(doc) && !jsonldcontent.MatchBytes(doc) && htmlcontent.MatchBytes(doc),
				"rdfxml": !rdfjsoncontent.MatchBytes(doc) && !jsonldcontent.MatchBytes(doc) && !htmlcontent.MatchBytes(doc) && rdfxmlcontent.MatchBytes(doc),
				"nt":     !any, "ttl": !any, "trig": !any}
			if !own[src.typ] && !written {
				how = "extension"
				inName += src.ext
			}
		}
		inPath := filepath.Join(dir, fmt.Sprintf("%d-%s", c, inName))
		outPath := filepath.Join(dir, fmt.Sprintf("%d-out%s", c, hx.Pick(rr, []string{tgt.ext, ".out"})))
		os.WriteFile(inPath, doc, 0o644)
		args = append([]string{"pipe", "-i", inPath, "--in-base", base, "-o", outPath}, args...)
		if !strings.HasSuffix(outPath, tgt.ext) || rr.Bool() {
			args = append(args, "--out-type", tgt.alias)
		}
		params := ""
		switch tgt.alias {
		case "nt", "nq":
			if rr.Bool() {
				args = append(args, "--out-param", "ascii")
				params = "ascii"
			}
		case "ttl":
			for _, p := range []string{"buffered", "resources", "iris.useBase"} {
				if rr.Chance(1, 3) {
					args = append(args, "--out-param", p)
					params += p + " "
				}
			}
			if rr.Chance(1, 3) {
				p := hx.Pick(rr, []string{"iris.usePrefix=rdfa-context", "iris.usePrefix=ex:http://example.org/", "iris.usePrefix=e:http://e/"})
				args = append(args, "--out-param", p)
				params += p
			}
			if strings.Contains(params, "iris.useBase") {
				args = append(args, "--out-base", base)
			}
		}
		msg, runErr := c18Run(bin, args...)
		oracle := ""
		impl := "converted"
		if runErr != nil {
			impl = "error"
			oracle = fmt.Sprintf("rdfkit pipe fails on a decodable %s document: %v %s", src.typ, runErr, strings.TrimSpace(msg))
		} else {
			outDoc, _ := os.ReadFile(outPath)
			res := zooRun(tgt.dec, outDoc, zooOpts{base: base})
			switch {
			case res.verdict != "ok":
				oracle = fmt.Sprintf("the %s output does not decode: %s %s", tgt.alias, res.verdict, res.detail)
			default:
				got := zooQuadsQ(res.quads)
				if why := hx.IsoSetsWhy(lowerLang(got), lowerLang(want)); why != "" {
					oracle = fmt.Sprintf("the %s output is not isomorphic to the %s source: %s", tgt.alias, src.typ, why)
				}
			}
			if oracle != "" {
				oracle += fmt.Sprintf("\nsource: %q\noutput: %q", string(doc), string(outDoc))
			}
		}
		os.Remove(inPath)
		os.Remove(outPath)
		cs := hx.Case{Kind: "K/C18/pipe", Impl: impl, Class: fmt.Sprintf("%s -> %s by %s", src.typ, tgt.alias, how), NonTri: len(want) >= 1, Oracle: oracle,
			Desc: fmt.Sprintf("%s -> %s (%s) type by %s: %s", src.typ, tgt.alias, strings.TrimSpace(params), how, strings.Join(args[1:], " "))}
		out.Emit(cs)
	}
}

var reLangTag = regexp.MustCompile(`^[a-zA-Z]+(-[a-zA-Z0-9]+)*$`)

func c18WellFormed(qs []rdf.Quad) bool {
	var ts []rdf.Triple
	for _, q := range qs {
		ts = append(ts, q.Triple)
		if g, ok := q.GraphName.(rdf.IRI); ok {
			ts = append(ts, rdf.Triple{Subject: g, Predicate: g, Object: g})
		}
		if l, ok := q.Triple.Object.(rdf.Literal); ok {
			lt, tagged := l.Tag.(rdf.LanguageLiteralTag)
			if tagged != (string(l.Datatype) == rdfNS+"langString") {
				return false
			}
			if tagged && !reLangTag.MatchString(lt.Language) {
				return false
			}
		}
	}
	return c02WellFormed(ts)
}

package main

// c10_jsonld.go — C10, decoder direction: a dataset is generated as a small syntax-free description (nodes, properties,
// literals, lists, named graphs), the harness writer renders it as JSON-LD with random compaction choices (inline
// context with prefixes, terms, type/language/list coercion, @vocab, @base, @language, keyword aliases, nested contexts,
// embedded nodes, native values), and the decoder must give the dataset back. The writer checks each spelling it picks
// with its own reading of IRI expansion (ctx.expand), which is independent of the decoder and of the Coq model; the Coq
// model (model/JsonLd.v) reads the same JSON tree and must agree with the decoder as well.

import (
	"fmt"
	"sort"
	"strconv"
	"strings"

	"verifharness/hx"
)

func init() { families["c10-decode"] = c10Decode }

const (
	c10Base = "http://example.org/dir/doc"
	c10NS1  = "http://example.org/vocab#"
	c10NS2  = "http://example.org/dir/"
	c10NS3  = "http://xmlns.com/foaf/0.1/"
	c10NS4  = "urn:ex:"
	c10Nop  = "http://example.org/nop"
)

// ---------- the dataset description ----------

type c10Obj struct {
	kind  byte // 'i' IRI, 'b' blank node, 'l' literal, 'L' list
	id    string
	lex   string
	dt    string
	lang  string
	items []*c10Obj
}

type c10Prop struct {
	pred string
	obj  *c10Obj
}

type c10Node struct {
	id    string // IRI or "_:label"
	types []string
	props []c10Prop
}

type c10Graph struct {
	name  string // "" default
	nodes []*c10Node
}

type c10Data struct {
	graphs []*c10Graph
}

var c10Locals = []string{"name", "knows", "age", "a1", "x-y", "Person", "p.q", "homepage", "item"}
var c10Preds = []string{c10NS1 + "name", c10NS1 + "knows", c10NS1 + "age", c10NS3 + "name", c10NS3 + "knows", c10NS3 + "homepage", c10NS2 + "item", c10NS4 + "p.q", c10NS1 + "x-y",
	c10Nop + "/a1", "nop:a1", rdfNS + "value", rdfNS + "type"}
var c10Classes = []string{c10NS1 + "Person", c10NS3 + "Person", c10NS2 + "Thing", c10NS4 + "Person", "nop:Person"}
var c10Subjects = []string{c10NS2 + "a", c10NS2 + "sub/b", c10Base, c10Base + "#frag", c10Base + "#me", "http://example.org/other", "http://example.org/dir/doc2?q=1", "http://other.example/x/y",
	c10NS1 + "a1", c10NS4 + "item", c10NS3 + "name", "http://example.org/"}
var c10Datatypes = []string{xsdNS + "date", c10NS1 + "dt", xsdNS + "double", xsdNS + "decimal", xsdNS + "integer", xsdNS + "boolean", xsdNS + "string", c10NS3 + "dt"}
var c10Langs = []string{"en", "fr", "en-US", "de-1996"}
var c10Strings = []string{"x", "", "hello world", "a\"b\\c", "line\nbreak\ttab", "café 中", "\U0001F600!", "http://looks.like/iri", "_:b0", "@id", "ex:name", "1", "true", " sp "}

func (g *c10GenT) bnode() string { return "_:b" + strconv.Itoa(g.r.Intn(4)) }

type c10GenT struct {
	r       *hx.Rand
	feat    map[string]int
	docLang string // the language most tagged strings of the data carry, and the one contexts tend to declare
}

func (g *c10GenT) lang() string {
	if g.docLang == "" {
		g.docLang = hx.Pick(g.r, c10Langs)
	}
	if g.r.Chance(2, 3) {
		return g.docLang
	}
	return hx.Pick(g.r, c10Langs)
}

func (g *c10GenT) use(f string) { g.feat[f]++ }

func (g *c10GenT) literal() *c10Obj {
	r := g.r
	switch r.Intn(9) {
	case 0, 1:
		return &c10Obj{kind: 'l', lex: hx.Pick(r, c10Strings), dt: xsdNS + "string"}
	case 2:
		return &c10Obj{kind: 'l', lex: hx.Pick(r, c10Strings), dt: rdfNS + "langString", lang: g.lang()}
	case 3:
		return &c10Obj{kind: 'l', lex: hx.Pick(r, append([]string{"5", "-3", "0", "42", "9007199254740991", "-9007199254740991", "100000000000"}, c10BigInts...)), dt: xsdNS + "integer"}
	case 4:
		return &c10Obj{kind: 'l', lex: hx.Pick(r, []string{"true", "false"}), dt: xsdNS + "boolean"}
	case 5:
		// not canonical: these cannot be written as native values
		return &c10Obj{kind: 'l', lex: hx.Pick(r, []string{"05", "+1", "-0", "1", "0", "TRUE", " 1", "1.0", "abc", ""}), dt: hx.Pick(r, []string{xsdNS + "integer", xsdNS + "boolean"})}
	case 6:
		return &c10Obj{kind: 'l', lex: hx.Pick(r, []string{"1.5E0", "1.5", "INF", "-1.0E-3", "0.0E0", "1"}), dt: hx.Pick(r, []string{xsdNS + "double", xsdNS + "decimal", xsdNS + "float"})}
	default:
		return &c10Obj{kind: 'l', lex: hx.Pick(r, append([]string{"2020-01-02", "7"}, c10Strings...)), dt: hx.Pick(r, c10Datatypes)}
	}
}

func (g *c10GenT) object(depth int, ids []string) *c10Obj {
	r := g.r
	switch k := r.Intn(12); {
	case k < 2:
		if len(ids) > 0 {
			id := hx.Pick(r, ids)
			if strings.HasPrefix(id, "_:") {
				return &c10Obj{kind: 'b', id: id}
			}
			return &c10Obj{kind: 'i', id: id}
		}
		fallthrough
	case k < 4:
		return &c10Obj{kind: 'i', id: hx.Pick(r, append(append([]string{}, c10Subjects...), c10Classes...))}
	case k < 6:
		return &c10Obj{kind: 'b', id: g.bnode()}
	case k < 7 && depth > 0:
		g.use("list")
		o := &c10Obj{kind: 'L'}
		for i, n := 0, r.Intn(4); i < n; i++ {
			it := g.object(depth-1, ids)
			if it.kind == 'L' {
				g.use("list-of-lists")
			}
			o.items = append(o.items, it)
		}
		if len(o.items) == 0 {
			g.use("empty-list")
		}
		return o
	default:
		return g.literal()
	}
}

func (g *c10GenT) data() *c10Data {
	r := g.r
	d := &c10Data{}
	ng := 1
	if r.Chance(1, 3) {
		ng += 1 + r.Intn(2)
		g.use("named-graph")
	}
	for gi := 0; gi < ng; gi++ {
		gr := &c10Graph{}
		if gi > 0 {
			if r.Chance(1, 3) {
				gr.name = g.bnode()
				g.use("blank-graph-name")
			} else {
				gr.name = hx.Pick(r, c10Subjects)
			}
			dup := false
			for _, o := range d.graphs {
				dup = dup || o.name == gr.name
			}
			if dup {
				continue
			}
		}
		var ids []string
		for i, n := 0, 1+r.Intn(3); i < n; i++ {
			id := hx.Pick(r, c10Subjects)
			if r.Chance(2, 5) {
				id = g.bnode()
			}
			dup := false
			for _, o := range ids {
				dup = dup || o == id
			}
			if !dup {
				ids = append(ids, id)
			}
		}
		for _, id := range ids {
			n := &c10Node{id: id}
			for i, k := 0, r.Intn(3); i < k && r.Chance(1, 2); i++ {
				t := hx.Pick(r, c10Classes)
				if r.Chance(1, 10) {
					t = g.bnode()
					g.use("blank-type")
				}
				n.types = append(n.types, t)
			}
			for i, k := 0, r.Intn(5); i < k; i++ {
				p := hx.Pick(r, c10Preds)
				o := g.object(2, ids)
				if p == rdfNS+"type" && o.kind == 'L' {
					continue
				}
				n.props = append(n.props, c10Prop{p, o})
			}
			gr.nodes = append(gr.nodes, n)
		}
		d.graphs = append(d.graphs, gr)
	}
	return d
}

// quads: the dataset the description denotes, independent of any syntax.
func (d *c10Data) quads() []hx.Q {
	var out []hx.Q
	cell := 0
	term := func(id string) string {
		if strings.HasPrefix(id, "_:") {
			return id
		}
		return "<" + id + ">"
	}
	var obj func(o *c10Obj, g string) string
	obj = func(o *c10Obj, g string) string {
		switch o.kind {
		case 'i', 'b':
			return term(o.id)
		case 'l':
			return hx.LiteralString(o.lex, o.dt, o.lang)
		}
		// list
		next := "<" + rdfNS + "nil>"
		var items []string
		for _, it := range o.items {
			items = append(items, obj(it, g))
		}
		for i := len(items) - 1; i >= 0; i-- {
			c := fmt.Sprintf("_:cell%d", cell)
			cell++
			out = append(out, hx.Q{S: c, P: "<" + rdfNS + "first>", O: items[i], G: g}, hx.Q{S: c, P: "<" + rdfNS + "rest>", O: next, G: g})
			next = c
		}
		return next
	}
	for _, gr := range d.graphs {
		g := ""
		if gr.name != "" {
			g = term(gr.name)
		}
		for _, n := range gr.nodes {
			for _, t := range n.types {
				out = append(out, hx.Q{S: term(n.id), P: "<" + rdfNS + "type>", O: term(t), G: g})
			}
			for _, p := range n.props {
				out = append(out, hx.Q{S: term(n.id), P: "<" + p.pred + ">", O: obj(p.obj, g), G: g})
			}
		}
	}
	return out
}

// ---------- the context as the writer sees it ----------

type c10Term struct {
	iri      string
	typ      string  // "", "@id", "@vocab" or a datatype IRI
	lang     *string // nil unset, "" null
	list     bool
	prefixOK bool
}

type c10Ctx struct {
	base, vocab, lang string
	terms             map[string]*c10Term
	fail              *bool // set when an IRI has no spelling under the context (its scheme is a defined prefix)
}

func (c *c10Ctx) clone() *c10Ctx {
	n := &c10Ctx{base: c.base, vocab: c.vocab, lang: c.lang, terms: map[string]*c10Term{}, fail: c.fail}
	for k, v := range c.terms {
		n.terms[k] = v
	}
	return n
}

var c10Keywords = map[string]bool{"@id": true, "@type": true, "@value": true, "@language": true, "@list": true, "@set": true, "@graph": true, "@context": true, "@base": true, "@vocab": true,
	"@container": true, "@reverse": true, "@index": true, "@nest": true, "@included": true, "@json": true, "@none": true, "@direction": true, "@version": true, "@import": true, "@prefix": true,
	"@propagate": true, "@protected": true}

func c10HasScheme(s string) bool {
	i := strings.IndexAny(s, ":/?#")
	return i > 0 && s[i] == ':'
}

// expand is the writer's reading of IRI expansion (JSON-LD 1.1 API 5.2) against a finished context.
func (c *c10Ctx) expand(v string, vocab, docrel bool) (string, bool) {
	if c10Keywords[v] {
		return v, true
	}
	if strings.HasPrefix(v, "@") {
		return "", false
	}
	if td, ok := c.terms[v]; ok {
		if td == nil {
			if vocab {
				return "", false
			}
		} else if c10Keywords[td.iri] || vocab {
			return td.iri, true
		}
	}
	if i := strings.Index(v, ":"); i >= 1 {
		p, sfx := v[:i], v[i+1:]
		if p == "_" || strings.HasPrefix(sfx, "//") {
			return v, true
		}
		if td := c.terms[p]; td != nil && td.prefixOK {
			return td.iri + sfx, true
		}
		if c10HasScheme(v) {
			return v, true
		}
	}
	if vocab && c.vocab != "" {
		return c.vocab + v, true
	}
	if docrel {
		return c10Resolve(c.base, v), true
	}
	return v, true
}

// c10Resolve: RFC 3986 section 5.2 reference resolution (strict), written for the harness.
func c10Resolve(base, ref string) string {
	type parts struct {
		scheme, auth, path, query, frag string
		hasAuth, hasQuery, hasFrag      bool
	}
	parse := func(s string) parts {
		var p parts
		if i := strings.IndexByte(s, '#'); i >= 0 {
			p.frag, p.hasFrag, s = s[i+1:], true, s[:i]
		}
		if i := strings.IndexByte(s, '?'); i >= 0 {
			p.query, p.hasQuery, s = s[i+1:], true, s[:i]
		}
		if i := strings.IndexAny(s, ":/"); i > 0 && s[i] == ':' {
			p.scheme, s = s[:i], s[i+1:]
		}
		if strings.HasPrefix(s, "//") {
			s = s[2:]
			i := strings.IndexByte(s, '/')
			if i < 0 {
				i = len(s)
			}
			p.auth, p.hasAuth, s = s[:i], true, s[i:]
		}
		p.path = s
		return p
	}
	rds := func(in string) string {
		var out []string
		for in != "" {
			switch {
			case strings.HasPrefix(in, "../"):
				in = in[3:]
			case strings.HasPrefix(in, "./"):
				in = in[2:]
			case strings.HasPrefix(in, "/./"):
				in = in[2:]
			case in == "/.":
				in = "/"
			case strings.HasPrefix(in, "/../"):
				in = in[3:]
				if len(out) > 0 {
					out = out[:len(out)-1]
				}
			case in == "/..":
				in = "/"
				if len(out) > 0 {
					out = out[:len(out)-1]
				}
			case in == "." || in == "..":
				in = ""
			default:
				i := strings.IndexByte(in[1:], '/')
				if i < 0 {
					out = append(out, in)
					in = ""
				} else {
					out = append(out, in[:i+1])
					in = in[i+1:]
				}
			}
		}
		return strings.Join(out, "")
	}
	b, r := parse(base), parse(ref)
	var t parts
	switch {
	case r.scheme != "":
		t = r
		t.path = rds(r.path)
	case r.hasAuth:
		t = r
		t.scheme = b.scheme
		t.path = rds(r.path)
	default:
		t.scheme, t.auth, t.hasAuth = b.scheme, b.auth, b.hasAuth
		switch {
		case r.path == "":
			t.path = b.path
			if r.hasQuery {
				t.query, t.hasQuery = r.query, true
			} else {
				t.query, t.hasQuery = b.query, b.hasQuery
			}
		case strings.HasPrefix(r.path, "/"):
			t.path = rds(r.path)
			t.query, t.hasQuery = r.query, r.hasQuery
		default:
			if b.hasAuth && b.path == "" {
				t.path = "/" + r.path
			} else if i := strings.LastIndexByte(b.path, '/'); i >= 0 {
				t.path = b.path[:i+1] + r.path
			} else {
				t.path = r.path
			}
			t.path = rds(t.path)
			t.query, t.hasQuery = r.query, r.hasQuery
		}
		t.frag, t.hasFrag = r.frag, r.hasFrag
	}
	if r.scheme != "" || r.hasAuth {
		t.frag, t.hasFrag = r.frag, r.hasFrag
	}
	s := ""
	if t.scheme != "" {
		s += t.scheme + ":"
	}
	if t.hasAuth {
		s += "//" + t.auth
	}
	s += t.path
	if t.hasQuery {
		s += "?" + t.query
	}
	if t.hasFrag {
		s += "#" + t.frag
	}
	return s
}

// forms: every spelling of x under the context, checked by expand.
func (c *c10Ctx) forms(x string, vocab, docrel bool) []string {
	if strings.HasPrefix(x, "_:") {
		return []string{x}
	}
	cands := []string{x}
	var names []string
	for n := range c.terms {
		names = append(names, n)
	}
	sort.Strings(names)
	for _, n := range names {
		td := c.terms[n]
		if td == nil {
			continue
		}
		if td.prefixOK && strings.HasPrefix(x, td.iri) && len(x) > len(td.iri) {
			cands = append(cands, n+":"+x[len(td.iri):])
		}
		if vocab && td.iri == x {
			cands = append(cands, n)
		}
	}
	if vocab && c.vocab != "" && strings.HasPrefix(x, c.vocab) {
		cands = append(cands, x[len(c.vocab):])
	}
	if docrel && c.base != "" {
		b := c.base
		if i := strings.IndexByte(b, '#'); i >= 0 {
			b = b[:i]
		}
		if x == b {
			cands = append(cands, "")
		}
		if strings.HasPrefix(x, b+"#") {
			cands = append(cands, x[len(b):])
		}
		if i := strings.IndexByte(b, '?'); i >= 0 {
			b = b[:i]
		}
		if i := strings.LastIndexByte(b, '/'); i >= 0 {
			dir := b[:i+1]
			if strings.HasPrefix(x, dir) {
				cands = append(cands, x[len(dir):], "./"+x[len(dir):])
			}
			if j := strings.LastIndexByte(dir[:len(dir)-1], '/'); j > 8 && strings.HasPrefix(x, dir[:j+1]) {
				cands = append(cands, "../"+x[j+1:])
			}
		}
		if i := strings.Index(b, "://"); i >= 0 {
			if j := strings.IndexByte(b[i+3:], '/'); j >= 0 {
				root := b[:i+3+j]
				if strings.HasPrefix(x, root+"/") {
					cands = append(cands, x[len(root):], x[i+1:])
				}
			}
		}
	}
	var out []string
	for _, s := range cands {
		if strings.HasPrefix(s, "@") {
			continue
		}
		if s == "" && !docrel {
			continue
		}
		if got, ok := c.expand(s, vocab, docrel); ok && got == x {
			out = append(out, s)
		}
	}
	return out
}

// defForm: a spelling for use inside a term definition; another term's name is not used there (the specification
// rejects definitions which depend on each other in a cycle, and a later entry of the same context could introduce one).
func (c *c10Ctx) defForm(r *hx.Rand, x string) string {
	var f []string
	for _, s := range c.forms(x, true, false) {
		if _, isTerm := c.terms[s]; !isTerm {
			f = append(f, s)
		}
	}
	if len(f) == 0 {
		*c.fail = true
		return x
	}
	if len(f) > 1 && r.Chance(3, 4) {
		return hx.Pick(r, f[1:])
	}
	return hx.Pick(r, f)
}

func (c *c10Ctx) form(r *hx.Rand, x string, vocab, docrel bool) string {
	f := c.forms(x, vocab, docrel)
	if len(f) == 0 {
		*c.fail = true
		return x
	}
	if len(f) > 1 && r.Chance(3, 4) {
		return hx.Pick(r, f[1:])
	}
	return hx.Pick(r, f)
}

// ---------- the writer ----------

type c10Writer struct {
	g                  *c10GenT
	r                  *hx.Rand
	refs               map[string]int  // object references to each blank node over the whole dataset
	gnames             map[string]bool // blank nodes used as graph names
	nsubj              map[string]int  // in how many graphs (nodes) a blank node is a subject
	written            map[*c10Node]bool
	byID               map[string]*c10Node // nodes of the graph being written
	v11                bool                // the document uses a 1.1-only feature
	aliasID, aliasType string
	noNest             bool
	unwritable         bool
	nonPrefix          map[string]bool // terms which json-ld-1.0 would use as prefixes and json-ld-1.1 does not
}

// newContext picks the context entries and returns the context object together with the resulting context.
func (w *c10Writer) newContext(parent *c10Ctx, nested bool) (*jv, *c10Ctx) {
	r := w.r
	c := parent.clone()
	o := jObj()
	type ent struct {
		k string
		v *jv
	}
	var ents []ent
	if r.Chance(1, 4) {
		nb := hx.Pick(r, []string{"http://example.org/dir/", "http://example.org/dir/sub/x", "http://other.example/x/", "sub/", "../up", "http://example.org/dir/doc"})
		ents = append(ents, ent{"@base", jStr(nb)})
		c.base = c10Resolve(c.base, nb)
		w.g.use("@base")
	}
	if r.Chance(1, 3) {
		c.vocab = hx.Pick(r, []string{c10NS1, c10NS3, c10NS2, c10NS4, c10Nop})
		ents = append(ents, ent{"@vocab", jStr(c.vocab)})
		w.g.use("@vocab")
	} else if nested && c.vocab != "" && r.Chance(1, 4) {
		c.vocab = ""
		ents = append(ents, ent{"@vocab", jNull()})
		w.g.use("@vocab-null")
	}
	if r.Chance(1, 3) {
		c.lang = w.g.lang()
		ents = append(ents, ent{"@language", jStr(c.lang)})
		w.g.use("@language")
	} else if nested && c.lang != "" && r.Chance(1, 3) {
		c.lang = ""
		ents = append(ents, ent{"@language", jNull()})
		w.g.use("@language-null")
	}
	// prefixes
	for _, p := range []struct{ n, ns string }{{"ex", c10NS1}, {"dir", c10NS2}, {"foaf", c10NS3}, {"u", c10NS4}, {"nop", c10Nop}, {"nop", c10Nop + "/"}, {"rdf", rdfNS}, {"xsd", xsdNS}, {"ex", c10NS3}} {
		if !r.Chance(1, 3) {
			continue
		}
		if _, dup := c.terms[p.n]; dup && !nested {
			continue
		}
		last := p.ns[len(p.ns)-1]
		td := &c10Term{iri: p.ns, prefixOK: strings.IndexByte(":/?#[]@", last) >= 0}
		if r.Chance(1, 6) {
			// expanded definition: a prefix only when it says so
			e := jObj().set("@id", jStr(p.ns))
			td.prefixOK = false
			if r.Bool() {
				td.prefixOK = r.Bool()
				e.set("@prefix", jBool(td.prefixOK))
				w.v11 = true
				w.g.use("@prefix")
			}
			ents = append(ents, ent{p.n, e})
		} else {
			ents = append(ents, ent{p.n, jStr(p.ns)})
		}
		c.terms[p.n] = td
		w.g.use("prefix")
	}
	// keyword aliases
	if !nested && r.Chance(1, 4) {
		w.aliasID = "id"
		c.terms["id"] = &c10Term{iri: "@id"}
		ents = append(ents, ent{"id", jStr("@id")})
		w.g.use("alias")
	}
	if !nested && r.Chance(1, 4) {
		w.aliasType = "type"
		c.terms["type"] = &c10Term{iri: "@type"}
		ents = append(ents, ent{"type", jStr("@type")})
		w.g.use("alias")
	}
	// terms; their @id and @type are spelled against the context built so far (dependencies are resolved by the
	// processor in whatever order the entries come)
	for i, k := 0, r.Intn(5); i < k; i++ {
		iri := hx.Pick(r, append(append([]string{}, c10Preds...), c10Classes...))
		name := hx.Pick(r, c10Locals)
		if r.Chance(1, 4) {
			// a term which is a compact IRI
			var cf []string
			for _, f := range c.forms(iri, false, false) {
				if f != iri && strings.Contains(f, ":") {
					cf = append(cf, f)
				}
			}
			if len(cf) == 0 {
				continue
			}
			name = hx.Pick(r, cf)
			w.g.use("compact-iri-term")
		}
		if _, dup := c.terms[name]; dup {
			continue
		}
		td := &c10Term{iri: iri}
		idForm := c.defForm(r, iri)
		if r.Chance(1, 2) && !strings.Contains(name, ":") {
			if idForm == name {
				idForm = iri
			}
			ents = append(ents, ent{name, jStr(idForm)})
			last := iri[len(iri)-1]
			td.prefixOK = strings.IndexByte(":/?#[]@", last) >= 0
			w.g.use("simple-term")
		} else {
			e := jObj()
			omitID := false
			if strings.Contains(name, ":") {
				omitID = r.Bool()
			} else if c.vocab != "" && c.vocab+name == iri {
				omitID = r.Bool()
			}
			if !omitID {
				if idForm == name {
					idForm = iri
				}
				e.set("@id", jStr(idForm))
			}
			switch r.Intn(7) {
			case 0:
				td.typ = "@id"
				e.set("@type", jStr("@id"))
				w.g.use("coerce-@id")
			case 1:
				td.typ = "@vocab"
				e.set("@type", jStr("@vocab"))
				w.g.use("coerce-@vocab")
			case 2:
				td.typ = hx.Pick(r, c10Datatypes)
				e.set("@type", jStr(c.defForm(r, td.typ)))
				w.g.use("coerce-datatype")
			case 3:
				l := w.g.lang()
				td.lang = &l
				e.set("@language", jStr(l))
				w.g.use("term-language")
			case 4:
				l := ""
				td.lang = &l
				e.set("@language", jNull())
				w.g.use("term-language-null")
			case 5:
				td.list = true
				if r.Chance(1, 3) {
					e.set("@container", jArr(jStr("@list")))
					w.v11 = true
				} else {
					e.set("@container", jStr("@list"))
				}
				if r.Bool() {
					td.typ = hx.Pick(r, []string{"@id", xsdNS + "date"})
					e.set("@type", jStr(c.defForm(r, td.typ)))
				}
				w.g.use("container-list")
			case 6:
				if r.Bool() {
					e.set("@container", jStr("@set"))
					w.g.use("container-set")
				}
			}
			ents = append(ents, ent{name, e})
			w.g.use("expanded-term")
		}
		c.terms[name] = td
	}
	// a term mapped to null hides nothing we use; it must be ignored
	if r.Chance(1, 10) {
		ents = append(ents, ent{"unused", jNull()})
		c.terms["unused"] = nil
	}
	// the spellings above were chosen against a partial context; re-check them against the final one, and keep the
	// keyword entries first is not required: order is free
	for i := len(ents) - 1; i > 0; i-- {
		j := r.Intn(i + 1)
		ents[i], ents[j] = ents[j], ents[i]
	}
	for _, e := range ents {
		o.set(e.k, e.v)
	}
	return o, c
}

// verifyContext re-reads a context object against the final context: every term's @id/@type must expand (vocab) to the
// IRI the writer recorded; otherwise the context is rejected and drawn again.
func (w *c10Writer) verifyContext(o *jv, c *c10Ctx) bool {
	for i, k := range o.keys {
		if strings.HasPrefix(k, "@") {
			continue
		}
		td := c.terms[k]
		v := o.vals[i]
		if v.k == 'n' {
			continue
		}
		if td == nil {
			return false
		}
		id := ""
		switch v.k {
		case 's':
			id = v.s
		case 'o':
			if x := v.get("@id"); x != nil {
				id = x.s
			} else {
				id = k
				if !strings.Contains(k, ":") {
					id = "" // vocab + term
					if c.vocab+k != td.iri || c.vocab == "" {
						return false
					}
				}
			}
			if x := v.get("@type"); x != nil {
				if got, ok := c.expand(x.s, true, false); !ok || got != td.typ {
					return false
				}
			}
		}
		if id != "" {
			// a term is not looked up as itself while it is being defined
			saved, had := c.terms[k]
			delete(c.terms, k)
			got, ok := c.expand(id, true, false)
			if had {
				c.terms[k] = saved
			}
			if !ok || got != td.iri {
				return false
			}
		}
		if strings.Contains(k, ":") || strings.Contains(k, "/") {
			// 14.2.4: a term which looks like a compact IRI must expand to its own mapping
			saved := c.terms[k]
			delete(c.terms, k)
			got, ok := c.expand(k, true, false)
			c.terms[k] = saved
			if !ok || got != td.iri {
				return false
			}
		}
	}
	return true
}

func (w *c10Writer) context(parent *c10Ctx, nested bool) (*jv, *c10Ctx) {
	for try := 0; try < 20; try++ {
		savedID, savedType := w.aliasID, w.aliasType
		o, c := w.newContext(parent, nested)
		if len(o.keys) > 0 && w.verifyContext(o, c) && w.vocabOrderOK(o, parent, c) {
			for n, td := range c.terms {
				if td != nil && !td.prefixOK && !c10Keywords[td.iri] {
					w.nonPrefix[n] = true
				}
			}
			return o, c
		}
		w.aliasID, w.aliasType = savedID, savedType
	}
	return nil, parent
}

// vocabOrderOK: @vocab is expanded against the context before the terms of the same object are defined; an absolute
// IRI is not affected, but keep the guard explicit.
func (w *c10Writer) vocabOrderOK(o *jv, parent, c *c10Ctx) bool {
	if v := o.get("@vocab"); v != nil && v.k == 's' {
		got, ok := parent.expand(v.s, true, true)
		return ok && got == c.vocab
	}
	return true
}

func (w *c10Writer) kw(k string) string {
	if k == "@id" && w.aliasID != "" && w.r.Bool() {
		return w.aliasID
	}
	if k == "@type" && w.aliasType != "" && w.r.Bool() {
		return w.aliasType
	}
	return k
}

// keyFor: a spelling of predicate p as a key, with the term definition which then applies.
func (w *c10Writer) keyFor(c *c10Ctx, p string, wantList bool, o *c10Obj) (string, *c10Term) {
	forms := c.forms(p, true, false)
	var ok []string
	for _, f := range forms {
		td := c.terms[f]
		if td != nil && td.list && !wantList {
			continue
		}
		ok = append(ok, f)
	}
	if len(ok) == 0 {
		*c.fail = true
		return p, c.terms[p]
	}
	// prefer the spellings with a definition now and then: they exercise coercion
	var withTD []string
	for _, f := range ok {
		if c.terms[f] != nil {
			withTD = append(withTD, f)
		}
	}
	k := hx.Pick(w.r, ok)
	if len(withTD) > 0 && w.r.Chance(2, 3) {
		k = hx.Pick(w.r, withTD)
	} else if len(ok) > 1 && w.r.Chance(2, 3) {
		k = hx.Pick(w.r, ok[1:])
	}
	return k, c.terms[k]
}

// whole numbers beyond int64 which a double holds exactly and prints with these very digits
var c10BigInts = []string{"10000000000000000000", "100000000000000000000", "-500000000000000000000"}

func c10CanonInt(s string) (int64, bool) {
	i, err := strconv.ParseInt(s, 10, 64)
	if err != nil || strconv.FormatInt(i, 10) != s || i > 1<<53 || i < -(1<<53) {
		return 0, false
	}
	return i, true
}

// plainStringDenotes: what a bare string means under the term definition and the context.
func c10PlainString(c *c10Ctx, td *c10Term, lex string) (dt, lang string, isLit bool) {
	if td != nil && (td.typ == "@id" || td.typ == "@vocab") {
		return "", "", false
	}
	if td != nil && td.typ != "" {
		return td.typ, "", true
	}
	l := c.lang
	if td != nil && td.lang != nil {
		l = *td.lang
	}
	if l != "" {
		return rdfNS + "langString", l, true
	}
	return xsdNS + "string", "", true
}

func (w *c10Writer) literal(c *c10Ctx, td *c10Term, o *c10Obj) *jv {
	r := w.r
	var opts []*jv
	// value object
	vo := jObj().set(w.kwv("@value"), jStr(o.lex))
	switch {
	case o.lang != "":
		vo.set("@language", jStr(o.lang))
	case o.dt != xsdNS+"string" || r.Chance(1, 5):
		vo.set(w.kw("@type"), jStr(c.form(r, o.dt, true, true)))
	}
	opts = append(opts, vo)
	if dt, lang, lit := c10PlainString(c, td, o.lex); lit && dt == o.dt && lang == o.lang {
		opts = append(opts, jStr(o.lex), jStr(o.lex))
		w.g.use("plain-string")
	}
	nativeDT := func(dflt string) string {
		if td != nil && td.typ != "" && td.typ != "@id" && td.typ != "@vocab" {
			return td.typ
		}
		return dflt
	}
	if o.lang == "" && (o.lex == "true" || o.lex == "false") {
		if nativeDT(xsdNS+"boolean") == o.dt {
			opts = append(opts, jBool(o.lex == "true"), jBool(o.lex == "true"))
			w.g.use("native-boolean")
		}
		if o.dt != xsdNS+"double" && o.dt != xsdNS+"float" {
			nv := jObj().set("@value", jBool(o.lex == "true"))
			if o.dt != xsdNS+"boolean" || r.Bool() {
				nv.set("@type", jStr(c.form(r, o.dt, true, true)))
			}
			opts = append(opts, nv)
		}
	}
	isBig := false
	for _, b := range c10BigInts {
		isBig = isBig || b == o.lex
	}
	mkInt := func(i int64) *jv {
		if isBig {
			return &jv{k: 'i', s: o.lex}
		}
		return jInt(i)
	}
	if i, ok := c10CanonInt(o.lex); (ok || isBig) && o.lang == "" && o.dt != xsdNS+"double" && o.dt != xsdNS+"float" {
		if nativeDT(xsdNS+"integer") == o.dt {
			opts = append(opts, mkInt(i), mkInt(i))
			w.g.use("native-integer")
		}
		nv := jObj().set("@value", mkInt(i))
		if o.dt != xsdNS+"integer" || r.Bool() {
			nv.set("@type", jStr(c.form(r, o.dt, true, true)))
		}
		opts = append(opts, nv)
	}
	return hx.Pick(r, opts)
}

func (w *c10Writer) kwv(k string) string { return k }

func (w *c10Writer) object(c *c10Ctx, td *c10Term, o *c10Obj, depth int) *jv {
	r := w.r
	switch o.kind {
	case 'l':
		return w.literal(c, td, o)
	case 'L':
		arr := jArr()
		for _, it := range o.items {
			if it.kind == 'L' {
				w.v11 = true
			}
			arr.a = append(arr.a, w.object(c, td, it, depth+1))
		}
		return jObj().set("@list", arr)
	}
	// a node reference: embed the node when it is described in this graph and not written yet
	if n := w.byID[o.id]; n != nil && !w.written[n] && depth < 4 && r.Chance(1, 2) {
		w.g.use("embedded-node")
		return w.node(c, n, false, depth+1)
	}
	if td != nil && td.typ == "@id" && r.Chance(3, 4) {
		w.g.use("string-as-@id")
		return jStr(c.form(r, o.id, false, true))
	}
	if td != nil && td.typ == "@vocab" && r.Chance(3, 4) {
		// vocab expansion of a value falls back to the document base only when there is no @vocab
		if f := c.forms(o.id, true, true); len(f) > 0 {
			w.g.use("string-as-@vocab")
			return jStr(hx.Pick(r, f))
		}
	}
	return jObj().set(w.kw("@id"), jStr(c.form(r, o.id, false, true)))
}

// node writes the node object; top says it is an element of a graph array (its blank node label can go when nothing
// refers to it).
func (w *c10Writer) node(c *c10Ctx, n *c10Node, top bool, depth int) *jv {
	r := w.r
	w.written[n] = true
	o := jObj()
	if depth < 3 && !w.noNest && r.Chance(1, 5) {
		if cj, nc := w.context(c, true); cj != nil {
			o.set("@context", cj)
			c = nc
			w.g.use("nested-context")
		}
	}
	isB := strings.HasPrefix(n.id, "_:")
	omit := false
	if isB && !w.gnames[n.id] && w.nsubj[n.id] == 1 {
		if top && w.refs[n.id] == 0 {
			omit = r.Chance(2, 3)
		} else if !top && w.refs[n.id] == 1 {
			omit = r.Chance(2, 3)
		}
	}
	if omit {
		w.g.use("anonymous-node")
	} else {
		o.set(w.kw("@id"), jStr(c.form(r, n.id, false, true)))
	}
	type kv struct {
		key  string
		vals []*jv
		list bool
	}
	var entries []*kv
	add := func(key string, v *jv, list bool) {
		for _, e := range entries {
			if e.key == key && !list && !e.list {
				e.vals = append(e.vals, v)
				return
			}
		}
		entries = append(entries, &kv{key, []*jv{v}, list})
	}
	var typeStrs []*jv
	for _, t := range n.types {
		if r.Chance(4, 5) {
			typeStrs = append(typeStrs, jStr(c.form(r, t, true, true)))
		} else {
			k, td := w.keyFor(c, rdfNS+"type", false, nil)
			add(k, w.object(c, td, &c10Obj{kind: map[bool]byte{true: 'b', false: 'i'}[strings.HasPrefix(t, "_:")], id: t}, depth), false)
		}
	}
	if len(typeStrs) == 1 && r.Bool() {
		o.set(w.kw("@type"), typeStrs[0])
	} else if len(typeStrs) > 0 {
		o.set(w.kw("@type"), jArr(typeStrs...))
	}
	for _, p := range n.props {
		if p.pred == rdfNS+"type" && (p.obj.kind == 'i' || p.obj.kind == 'b') && r.Chance(1, 2) && o.get("@type") == nil && o.get("type") == nil {
			o.set(w.kw("@type"), jStr(c.form(r, p.obj.id, true, true)))
			continue
		}
		isList := p.obj.kind == 'L'
		k, td := w.keyFor(c, p.pred, isList, p.obj)
		if isList && td != nil && td.list {
			taken := false
			for _, e := range entries {
				taken = taken || e.key == k
			}
			if taken {
				// one array per list container key: a second list goes under the full IRI as a list object
				k, td = p.pred, c.terms[p.pred]
			}
		}
		if isList && td != nil && td.list {
			// the container makes the array a list
			arr := jArr()
			for _, it := range p.obj.items {
				if it.kind == 'L' {
					w.v11 = true
				}
				arr.a = append(arr.a, w.object(c, td, it, depth+1))
			}
			w.g.use("list-by-container")
			if len(arr.a) == 1 && arr.a[0].k != 'a' && arr.a[0].k != 'o' && r.Bool() {
				add(k, arr.a[0], true)
			} else {
				add(k, arr, true)
			}
			continue
		}
		add(k, w.object(c, td, p.obj, depth), false)
	}
	for _, e := range entries {
		switch {
		case e.list:
			o.set(e.key, e.vals[0])
		case len(e.vals) == 1 && r.Chance(2, 3):
			o.set(e.key, e.vals[0])
		default:
			if r.Chance(1, 10) {
				o.set(e.key, jObj().set("@set", jArr(e.vals...)))
				w.g.use("@set")
			} else {
				if r.Chance(1, 8) {
					e.vals = append(e.vals, jNull())
				}
				o.set(e.key, jArr(e.vals...))
			}
		}
	}
	return o
}

func (w *c10Writer) count(d *c10Data) {
	var walk func(o *c10Obj)
	walk = func(o *c10Obj) {
		switch o.kind {
		case 'i', 'b':
			w.refs[o.id]++
		case 'L':
			for _, it := range o.items {
				walk(it)
			}
		}
	}
	for _, gr := range d.graphs {
		if gr.name != "" {
			w.gnames[gr.name] = true
		}
		for _, n := range gr.nodes {
			w.nsubj[n.id]++
			for _, t := range n.types {
				w.refs[t]++
			}
			for _, p := range n.props {
				walk(p.obj)
			}
		}
	}
}

// document renders the whole dataset.
func (w *c10Writer) document(d *c10Data) *jv {
	r := w.r
	root := &c10Ctx{base: c10Base, terms: map[string]*c10Term{}, fail: &w.unwritable}
	c := root
	var cj *jv
	if r.Chance(4, 5) {
		cj, c = w.context(root, false)
		if cj != nil && r.Chance(1, 8) {
			// a context array, first resetting with null
			cj = jArr(jNull(), cj)
			w.g.use("context-array")
		}
	}
	graphNodes := func(gr *c10Graph) []*jv {
		w.byID = map[string]*c10Node{}
		for _, n := range gr.nodes {
			w.byID[n.id] = n
		}
		var out []*jv
		order := r.Intn(2)
		for i := range gr.nodes {
			n := gr.nodes[i]
			if order == 1 {
				n = gr.nodes[len(gr.nodes)-1-i]
			}
			if w.written[n] {
				continue
			}
			out = append(out, w.node(c, n, true, 0))
		}
		return out
	}
	var items []*jv
	var def *c10Graph
	for _, gr := range d.graphs {
		if gr.name == "" {
			def = gr
		}
	}
	// named graphs first or last
	var gobjs []*jv
	anon := false
	for _, gr := range d.graphs {
		if gr.name == "" {
			continue
		}
		var gobj *jv
		// the default graph may describe the graph name: one object then carries both
		if def != nil && r.Bool() {
			for _, n := range def.nodes {
				if n.id == gr.name && !w.written[n] {
					w.byID = map[string]*c10Node{}
					for _, m := range def.nodes {
						w.byID[m.id] = m
					}
					w.noNest = true
					gobj = w.node(c, n, true, 0)
					w.noNest = false
					if gobj.get("@id") == nil && gobj.get("id") == nil {
						gobj.set("@id", jStr(gr.name))
					}
					w.g.use("graph-object-with-properties")
				}
			}
		}
		if gobj == nil {
			gobj = jObj()
			if strings.HasPrefix(gr.name, "_:") && w.refs[gr.name] == 0 && w.nsubj[gr.name] == 0 && r.Bool() {
				anon = true
				w.g.use("anonymous-graph")
			} else {
				gobj.set(w.kw("@id"), jStr(c.form(r, gr.name, false, true)))
			}
		}
		// the graph object may carry a nested context which then applies to its content as well; keep c
		gobj.set("@graph", jArr(graphNodes(gr)...))
		gobjs = append(gobjs, gobj)
	}
	if def != nil {
		items = graphNodes(def)
	}
	if r.Bool() {
		items = append(items, gobjs...)
	} else {
		items = append(gobjs, items...)
	}
	withCtx := func(o *jv) *jv {
		if cj == nil {
			return o
		}
		n := jObj()
		if inner := o.get("@context"); inner != nil {
			outer := cj
			if outer.k == 'a' {
				n.set("@context", jArr(append(append([]*jv{}, outer.a...), inner)...))
			} else {
				n.set("@context", jArr(outer, inner))
			}
			w.g.use("context-array")
		} else {
			n.set("@context", cj)
		}
		for i, k := range o.keys {
			if k != "@context" {
				n.set(k, o.vals[i])
			}
		}
		return n
	}
	switch k := r.Intn(3); {
	case k == 0 && len(items) == 1 && !anon && !(len(items[0].keys) == 1 && items[0].keys[0] == "@graph"):
		w.g.use("top-single-object")
		return withCtx(items[0])
	case k <= 1:
		w.g.use("top-@graph")
		return withCtx(jObj().set("@graph", jArr(items...)))
	default:
		w.g.use("top-array")
		var out []*jv
		for _, it := range items {
			out = append(out, withCtx(it))
		}
		return jArr(out...)
	}
}

func c10ImplString(res zooResult) string {
	nm := hx.NewNamer()
	var sts []string
	for _, q := range res.quads {
		s := c09Term(q.Triple.Subject, nm) + " " + c09Term(q.Triple.Predicate, nm) + " " + c09Term(q.Triple.Object, nm)
		if q.GraphName != nil {
			s += " " + c09Term(q.GraphName, nm)
		}
		sts = append(sts, s)
	}
	return strings.Join(sts, ";")
}

func c10Decode(r *hx.Rand, n int, out *hx.Out, _ []string) {
	for cI := 0; cI < n; cI++ {
		rr := r.Fork()
		g := &c10GenT{r: rr, feat: map[string]int{}}
		d := g.data()
		w := &c10Writer{g: g, r: rr, refs: map[string]int{}, gnames: map[string]bool{}, nsubj: map[string]int{}, written: map[*c10Node]bool{}, nonPrefix: map[string]bool{}}
		w.count(d)
		doc := w.document(d)
		if w.unwritable {
			// some IRI of the data cannot be spelled under the context drawn (its scheme is a prefix there): draw again
			cI--
			continue
		}
		if rr.Bool() {
			doc.shuffleKeys(rr)
			g.use("shuffled-keys")
		}
		var sb strings.Builder
		doc.text(rr, &sb)
		text := sb.String()
		var tk strings.Builder
		line := ""
		if doc.tokens(&tk) {
			line = "jsonld\t" + hx.X(c10Base) + "\t" + strings.TrimSuffix(tk.String(), ",")
		}
		want := d.quads()
		modes := []string{"", "json-ld-1.1"}
		if !w.v11 && !c10ModeSensitive(doc, w.nonPrefix) {
			modes = append(modes, "json-ld-1.0")
		}
		impl, oracle := "", ""
		for mi, mode := range modes {
			res := zooRun("jsonld", []byte(text), zooOpts{base: c10Base, mode: mode, offsets: rr.Chance(1, 4)})
			s := ""
			switch res.verdict {
			case "ok":
				s = c10ImplString(res)
				if why := hx.IsoSetsWhy(lowerLang(zooQuadsQ(res.quads)), lowerLang(want)); why != "" && oracle == "" {
					oracle = fmt.Sprintf("the decoder (processing mode %q) does not give the dataset the document was written from: %s", mode, why)
				}
			case "error":
				s = "!doc " + res.detail
				if oracle == "" {
					oracle = fmt.Sprintf("the decoder (processing mode %q) rejects the document: %s", mode, res.detail)
				}
			default:
				s = "!" + res.verdict
				if oracle == "" {
					oracle = res.verdict + ": " + res.detail
				}
			}
			if mi == 0 {
				impl = s
			}
		}
		var fs []string
		for k := range g.feat {
			fs = append(fs, k)
		}
		sort.Strings(fs)
		cls := strings.Join(fs, "+")
		if len(fs) > 3 {
			cls = fmt.Sprintf("rich(%d features)", len(fs))
		}
		if oracle != "" {
			var ws []string
			for _, q := range want {
				ws = append(ws, q.String())
			}
			oracle += "\nwritten from: " + strings.Join(ws, " ; ")
		}
		out.Emit(hx.Case{Kind: "K/C10/decode/iso", Line: line, Impl: impl, Class: cls, NonTri: len(want) >= 2, Oracle: oracle, Spec: true,
			Desc: fmt.Sprintf("base=%q features=%v document: %s", c10Base, fs, text)})
	}
}

// c10ModeSensitive: some string or key has the form term:suffix for a term which only json-ld-1.0 treats as a prefix.
func c10ModeSensitive(v *jv, nonPrefix map[string]bool) bool {
	chk := func(s string) bool {
		if i := strings.Index(s, ":"); i > 0 {
			return nonPrefix[s[:i]]
		}
		return false
	}
	if v.k == 's' && chk(v.s) {
		return true
	}
	for _, c := range v.a {
		if c10ModeSensitive(c, nonPrefix) {
			return true
		}
	}
	for i, c := range v.vals {
		if chk(v.keys[i]) || c10ModeSensitive(c, nonPrefix) {
			return true
		}
	}
	return false
}

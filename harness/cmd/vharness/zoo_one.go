package main

import (
	"fmt"
	"os"
	"strconv"

	"github.com/dpb587/cursorio-go/cursorio"
	"github.com/dpb587/rdfkit-go/encoding"
	"github.com/dpb587/rdfkit-go/rdf"
	"verifharness/hx"
)

// zoo-one <decoder> <file> [offsets] [init=<byte>] [base=<iri>]: decode one document and print statements with their
// text offsets; a replay and debugging aid.
func init() {
	families["zoo-one"] = func(_ *hx.Rand, _ int, _ *hx.Out, a []string) {
		if len(a) < 2 {
			fmt.Fprintln(os.Stderr, "usage: zoo-one <decoder> <file> [offsets] [init=N] [base=IRI]")
			os.Exit(2)
		}
		data, err := os.ReadFile(a[1])
		if err != nil {
			fmt.Fprintln(os.Stderr, err)
			os.Exit(2)
		}
		o := zooOpts{}
		for _, x := range a[2:] {
			switch {
			case x == "offsets":
				o.offsets = true
			case len(x) > 5 && x[:5] == "init=":
				n, _ := strconv.Atoi(x[5:])
				o.init = cursorio.TextOffset{Byte: cursorio.ByteOffset(n), LineColumn: cursorio.TextLineColumn{7, 9}}
			case len(x) > 5 && x[:5] == "base=":
				o.base = x[5:]
			case len(x) > 5 && x[:5] == "mode=":
				o.mode = x[5:]
			}
		}
		res := zooRun(a[0], data, o)
		fmt.Println("verdict:", res.verdict, res.detail)
		for i, q := range res.quads {
			fmt.Println(i, zooStmtStrings([]rdf.Quad{q}))
			if i < len(res.offs) {
				for pos, rg := range res.offs[i] {
					fmt.Printf("    %s %v\n", encoding.StatementOffsetsTypeName(pos), rg)
				}
			}
		}
	}
}

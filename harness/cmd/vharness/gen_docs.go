package main

import (
	"fmt"
	"strings"

	"verifharness/hx"
)

// Structured (mostly valid) document generators for the tree formats: every attribute / keyword of the format is
// combined with every kind of value, so that rarely taken branches of the decoders are reached without relying on
// byte-level mutation of the W3C files.

var genIRIs = []string{"http://e/a", "http://e/b#c", "rel", "#frag", "", "_:b1", "_:", "urn:x:y", "http://é.example/ü", "../up", "//host/p", "http://[::1", "%zz", ":nope", "a b"}
var genLangs = []string{"en", "", "fr-CA", "en-Latn-US", "x", "1", "a b", "ca-valencia"}
var genTexts = []string{"", "x", "chat", " padded ", "1", "true", "2020-01-01", "<b>", "é", "\"q\"", "line\nbreak"}

func jsonStr(s string) string {
	var sb strings.Builder
	sb.WriteByte('"')
	for _, c := range s {
		switch c {
		case '"':
			sb.WriteString("\\\"")
		case '\\':
			sb.WriteString("\\\\")
		case '\n':
			sb.WriteString("\\n")
		default:
			sb.WriteRune(c)
		}
	}
	sb.WriteByte('"')
	return sb.String()
}

// ---- RDF/JSON ----
func genRDFJSON(r *hx.Rand) []byte {
	var subs []string
	for i, ns := 0, 1+r.Intn(3); i < ns; i++ {
		var preds []string
		for j, np := 0, r.Intn(3); j < np; j++ {
			var objs []string
			for k, no := 0, r.Intn(4); k < no; k++ {
				var mem []string
				typ := hx.Pick(r, []string{"literal", "literal", "uri", "bnode", "Literal", ""})
				if r.Chance(9, 10) {
					mem = append(mem, `"type":`+jsonStr(typ))
				}
				if r.Chance(9, 10) {
					v := hx.Pick(r, genTexts)
					if typ != "literal" {
						v = hx.Pick(r, genIRIs)
					}
					mem = append(mem, `"value":`+jsonStr(v))
				}
				if r.Chance(1, 3) {
					mem = append(mem, `"lang":`+jsonStr(hx.Pick(r, genLangs)))
				}
				if r.Chance(1, 3) {
					mem = append(mem, `"datatype":`+jsonStr(hx.Pick(r, []string{"http://e/dt", xsdNS + "string", rdfNS + "langString", rdfNS + "dirLangString", "", "rel"})))
				}
				if r.Chance(1, 12) {
					mem = append(mem, hx.Pick(r, []string{`"extra":"x"`, `"value":1`, `"type":null`, `"lang":["en"]`, `"value":{"a":1}`}))
				}
				r2 := r
				for x := len(mem) - 1; x > 0; x-- { // member order is free
					y := r2.Intn(x + 1)
					mem[x], mem[y] = mem[y], mem[x]
				}
				objs = append(objs, "{"+strings.Join(mem, ",")+"}")
			}
			preds = append(preds, jsonStr(hx.Pick(r, genIRIs))+":["+strings.Join(objs, ",")+"]")
		}
		subs = append(subs, jsonStr(hx.Pick(r, genIRIs))+":{"+strings.Join(preds, ",")+"}")
	}
	return []byte("{" + strings.Join(subs, hx.Pick(r, []string{",", ", \n", ","})) + "}")
}

// ---- RDF/XML ----
func xmlAttr(r *hx.Rand, name, val string) string {
	val = strings.NewReplacer("&", "&amp;", "<", "&lt;", "\"", "&quot;", "'", "&apos;").Replace(val)
	switch r.Intn(6) {
	case 0:
		return " " + name + "='" + val + "'"
	case 1:
		return " " + name + " = \"" + val + "\""
	}
	return " " + name + "=\"" + val + "\""
}

func genRDFXMLNode(r *hx.Rand, depth int) string {
	el := hx.Pick(r, []string{"rdf:Description", "rdf:Description", "e:Thing", "rdf:Bag", "rdf:Seq"})
	var at string
	switch r.Intn(5) {
	case 0:
		at += xmlAttr(r, "rdf:about", hx.Pick(r, genIRIs))
	case 1:
		at += xmlAttr(r, "rdf:ID", hx.Pick(r, []string{"a", "b", "a", "1a", "x y", "", "é"}))
	case 2:
		at += xmlAttr(r, "rdf:nodeID", hx.Pick(r, []string{"n1", "n2", "", "1n"}))
	}
	if r.Chance(1, 4) {
		at += xmlAttr(r, "xml:lang", hx.Pick(r, genLangs))
	}
	if r.Chance(1, 5) {
		at += xmlAttr(r, "xml:base", hx.Pick(r, genIRIs))
	}
	if r.Chance(1, 4) {
		at += xmlAttr(r, "e:attr", hx.Pick(r, genTexts))
	}
	if r.Chance(1, 8) {
		at += xmlAttr(r, "rdf:type", hx.Pick(r, genIRIs))
	}
	var props []string
	for i, n := 0, r.Intn(4); i < n && depth > 0; i++ {
		props = append(props, genRDFXMLProp(r, depth-1))
	}
	if len(props) == 0 && r.Bool() {
		return "<" + el + at + "/>"
	}
	return "<" + el + at + ">" + strings.Join(props, hx.Pick(r, []string{"", "\n  ", " "})) + "</" + el + ">"
}

func genRDFXMLProp(r *hx.Rand, depth int) string {
	el := hx.Pick(r, []string{"e:p", "e:q", "rdf:li", "rdf:_1", "rdf:_2", "rdf:type", "rdf:value", "e:é"})
	var at string
	if r.Chance(1, 4) {
		at += xmlAttr(r, "xml:lang", hx.Pick(r, genLangs))
	}
	if r.Chance(1, 6) {
		at += xmlAttr(r, "rdf:ID", hx.Pick(r, []string{"s1", "s2", "s1", "1a", "", "x y"}))
	}
	switch r.Intn(9) {
	case 0:
		return "<" + el + at + xmlAttr(r, "rdf:resource", hx.Pick(r, genIRIs)) + "/>"
	case 1:
		return "<" + el + at + xmlAttr(r, "rdf:datatype", hx.Pick(r, []string{"http://e/dt", xsdNS + "integer", rdfNS + "langString", rdfNS + "dirLangString", "", "rel"})) + ">" + hx.Pick(r, genTexts[:7]) + "</" + el + ">"
	case 2:
		return "<" + el + at + xmlAttr(r, "rdf:parseType", "Resource") + ">" + genRDFXMLProp(r, depth) + "</" + el + ">"
	case 3:
		var items []string
		for i, n := 0, r.Intn(3); i < n && depth > 0; i++ {
			items = append(items, genRDFXMLNode(r, depth-1))
		}
		return "<" + el + at + xmlAttr(r, "rdf:parseType", "Collection") + ">" + strings.Join(items, "") + "</" + el + ">"
	case 4:
		return "<" + el + at + xmlAttr(r, "rdf:parseType", hx.Pick(r, []string{"Literal", "Literal", "literal", "Other"})) + ">" + hx.Pick(r, []string{"<b xmlns=\"u:x\" c=\"d\">t<i/></b>", "plain", "", "<!-- c -->x<?pi y?>"}) + "</" + el + ">"
	case 5: // empty property element with property attributes
		return "<" + el + at + xmlAttr(r, "e:name", hx.Pick(r, genTexts)) + hx.Pick(r, []string{"", xmlAttr(r, "rdf:nodeID", "n1"), xmlAttr(r, "rdf:resource", "http://e/r"), xmlAttr(r, "rdf:type", "http://e/T")}) + "/>"
	case 6:
		if depth > 0 {
			return "<" + el + at + ">" + genRDFXMLNode(r, depth-1) + "</" + el + ">"
		}
		fallthrough
	case 7:
		return "<" + el + at + xmlAttr(r, "rdf:nodeID", hx.Pick(r, []string{"n1", "n2", ""})) + "/>"
	}
	return "<" + el + at + ">" + hx.Pick(r, genTexts[:7]) + "</" + el + ">"
}

func genRDFXML(r *hx.Rand) []byte {
	var nodes []string
	for i, n := 0, 1+r.Intn(3); i < n; i++ {
		nodes = append(nodes, genRDFXMLNode(r, 3))
	}
	root := xmlAttr(r, "xmlns:rdf", rdfNS) + xmlAttr(r, "xmlns:e", "http://e/ns#")
	if r.Chance(1, 4) {
		root += xmlAttr(r, "xml:base", hx.Pick(r, genIRIs))
	}
	if r.Chance(1, 5) {
		root += xmlAttr(r, "xml:lang", hx.Pick(r, genLangs))
	}
	head := hx.Pick(r, []string{"", "<?xml version=\"1.0\"?>\n", "<?xml version=\"1.0\" encoding=\"utf-8\"?><!-- c -->"})
	if r.Chance(1, 8) && len(nodes) == 1 { // a document without rdf:RDF
		return []byte(head + strings.Replace(nodes[0], " ", root+" ", 1))
	}
	return []byte(head + "<rdf:RDF" + root + ">" + strings.Join(nodes, "\n") + "</rdf:RDF>")
}

// ---- JSON-LD: every keyword with every kind of value, in every kind of place ----
var jldKeywords = []string{"@id", "@type", "@container", "@context", "@language", "@direction", "@index", "@nest", "@prefix", "@propagate", "@protected", "@reverse",
	"@vocab", "@base", "@version", "@import", "@included", "@graph", "@list", "@set", "@value", "@json", "@none"}
var jldValues = []string{"null", "true", "false", "5", "1.1", "\"x\"", "\"\"", "[]", "{}", "\"@id\"", "\"@none\"", "\"@vocab\"", "\"@json\"", "[\"@set\"]", "\"@list\"", "\"@graph\"", "\"@index\"", "\"@language\"",
	"{\"@id\":\"http://e/x\"}", "\"http://e/v\"", "\"_:b\"", "\"rel\"", "\"en\"", "\"ltr\"", "[\"@graph\",\"@id\"]", "{\"@list\":[]}", "{\"@value\":\"v\",\"@language\":\"en\"}", "[1,\"a\",null]", "3000000000", "-0", "1e400"}

func genJSONLDValue(r *hx.Rand, depth int) string {
	if depth <= 0 || r.Chance(1, 2) {
		return hx.Pick(r, jldValues)
	}
	switch r.Intn(4) {
	case 0:
		return genJSONLDNode(r, depth-1)
	case 1:
		var xs []string
		for i, n := 0, r.Intn(3); i < n; i++ {
			xs = append(xs, genJSONLDValue(r, depth-1))
		}
		return "[" + strings.Join(xs, ",") + "]"
	case 2:
		mem := []string{`"@value":` + hx.Pick(r, []string{jsonStr(hx.Pick(r, genTexts)), "1", "true", "null", "{}", "[]"})}
		if r.Bool() {
			mem = append(mem, `"@language":`+hx.Pick(r, []string{jsonStr(hx.Pick(r, genLangs)), "null", "5"}))
		}
		if r.Chance(1, 3) {
			mem = append(mem, `"@type":`+hx.Pick(r, []string{jsonStr(hx.Pick(r, genIRIs)), "\"@json\"", "null", "[]"}))
		}
		if r.Chance(1, 4) {
			mem = append(mem, `"@direction":`+hx.Pick(r, []string{"\"ltr\"", "\"rtl\"", "\"x\"", "null"}))
		}
		if r.Chance(1, 6) {
			mem = append(mem, `"@index":`+hx.Pick(r, []string{"\"i\"", "5"}))
		}
		return "{" + strings.Join(mem, ",") + "}"
	}
	return `{"@list":[` + hx.Pick(r, []string{"", genJSONLDValue(r, depth-1), genJSONLDValue(r, depth-1) + "," + genJSONLDValue(r, depth-1), "[]", "[[]]"}) + `]}`
}

func genJSONLDContext(r *hx.Rand) string {
	if r.Chance(1, 6) {
		return hx.Pick(r, jldValues)
	}
	var mem []string
	for i, n := 0, r.Intn(5); i < n; i++ {
		switch r.Intn(4) {
		case 0: // keyword at context level
			mem = append(mem, jsonStr(hx.Pick(r, jldKeywords))+":"+hx.Pick(r, jldValues))
		case 1: // simple term
			mem = append(mem, jsonStr(hx.Pick(r, []string{"t", "u", "p", "e", "e:x", "@t", ""}))+":"+hx.Pick(r, []string{jsonStr(hx.Pick(r, genIRIs)), "null", "\"@id\"", "\"@type\"", "5"}))
		default: // expanded term definition with 1-3 keyword entries
			var td []string
			if r.Chance(3, 4) {
				td = append(td, `"@id":`+hx.Pick(r, []string{jsonStr(hx.Pick(r, genIRIs)), "\"_:items\"", "\"@type\"", "null"}))
			}
			for j, k := 0, r.Intn(3); j < k; j++ {
				td = append(td, jsonStr(hx.Pick(r, jldKeywords))+":"+hx.Pick(r, jldValues))
			}
			mem = append(mem, jsonStr(hx.Pick(r, []string{"t", "u", "p", "e"}))+":{"+strings.Join(td, ",")+"}")
		}
	}
	return "{" + strings.Join(mem, ",") + "}"
}

func genJSONLDNode(r *hx.Rand, depth int) string {
	var mem []string
	if r.Chance(1, 3) {
		mem = append(mem, `"@context":`+genJSONLDContext(r))
	}
	if r.Chance(1, 2) {
		mem = append(mem, `"@id":`+hx.Pick(r, []string{jsonStr(hx.Pick(r, genIRIs)), "null", "5", "[]"}))
	}
	if r.Chance(1, 4) {
		mem = append(mem, `"@type":`+hx.Pick(r, []string{jsonStr(hx.Pick(r, genIRIs)), "[\"http://e/T\",\"_:t\"]", "null", "5", "{}"}))
	}
	for i, n := 0, r.Intn(4); i < n; i++ {
		key := hx.Pick(r, []string{"http://e/p", "http://e/q", "t", "u", "p", "_:q", "rel", "e:x", hx.Pick(r, jldKeywords)})
		mem = append(mem, jsonStr(key)+":"+genJSONLDValue(r, depth))
	}
	return "{" + strings.Join(mem, ",") + "}"
}

func genJSONLD(r *hx.Rand) []byte {
	if r.Chance(1, 8) {
		return []byte("[" + genJSONLDNode(r, 2) + "," + genJSONLDNode(r, 2) + "]")
	}
	return []byte(genJSONLDNode(r, 3))
}

// ---- HTML: RDFa and Microdata attributes on a small element tree, optional JSON-LD script ----
func genHTMLElem(r *hx.Rand, depth int) string {
	tag := hx.Pick(r, []string{"div", "span", "p", "a", "link", "meta", "img", "time", "data", "meter", "object", "audio", "li", "ul", "td", "b", "section", "body"})
	var at []string
	add := func(name, val string) {
		switch k := r.Intn(16); {
		case k == 0: // attribute without a value
			at = append(at, name)
		case k == 1 && !strings.ContainsAny(val, "'"):
			at = append(at, fmt.Sprintf(`%s='%s'`, name, val))
		case k == 2 && val != "" && isASCII(val) && !strings.ContainsAny(val, " \t\n\"'=<>`"):
			at = append(at, fmt.Sprintf(`%s=%s`, name, val))
		default:
			at = append(at, fmt.Sprintf(`%s="%s"`, name, strings.ReplaceAll(val, `"`, "&quot;")))
		}
	}
	rdfaAttrs := []string{"about", "resource", "href", "src", "typeof", "property", "rel", "rev", "content", "datatype", "inlist", "prefix", "vocab", "lang", "xml:lang", "datetime"}
	for i, n := 0, r.Intn(4); i < n; i++ {
		a := hx.Pick(r, rdfaAttrs)
		switch a {
		case "typeof", "property", "rel", "rev", "datatype":
			add(a, hx.Pick(r, []string{"e:p", "p", "e:p q", "", "http://e/x", "[e:p]", "_:b", ":x", "e:", "unknown:x", "xsd:integer", "rdf:XMLLiteral", "rdf:HTML", "rdf:langString"}))
		case "about", "resource":
			add(a, hx.Pick(r, []string{"http://e/s", "[_:a]", "_:a", "[e:s]", "", "rel", "[]", "[_:]", "#f", "[unknown:x]"}))
		case "prefix":
			add(a, hx.Pick(r, []string{"e: http://e/ns#", "e: http://e/ns# f: http://f/", "e:", "e http://e/", "_: http://e/", ""}))
		case "vocab":
			add(a, hx.Pick(r, []string{"http://v/", "", "rel"}))
		case "lang", "xml:lang":
			add(a, hx.Pick(r, genLangs))
		case "inlist":
			add(a, "")
		default:
			add(a, hx.Pick(r, append(append([]string{}, genIRIs...), genTexts...)))
		}
	}
	mdAttrs := []string{"itemscope", "itemtype", "itemid", "itemprop", "itemref", "id", "value", "data"}
	for i, n := 0, r.Intn(3); i < n; i++ {
		a := hx.Pick(r, mdAttrs)
		switch a {
		case "itemscope":
			at = append(at, "itemscope")
		case "itemtype":
			add(a, hx.Pick(r, []string{"http://schema.org/Thing", "http://e/T http://e/U", "", "rel", "http://[::1", "%zz", ":nope", "http://e/T  %zz"}))
		case "itemprop":
			add(a, hx.Pick(r, []string{"name", "http://e/p", "a b", "", "a a"}))
		case "itemref":
			add(a, hx.Pick(r, []string{"x1", "x1 x2", "x2 x2", "", "missing"}))
		case "id":
			add(a, hx.Pick(r, []string{"x1", "x2", "x1"}))
		default:
			add(a, hx.Pick(r, genIRIs))
		}
	}
	open := "<" + tag
	if len(at) > 0 {
		open += " " + strings.Join(at, " ")
	}
	if tag == "link" || tag == "meta" || tag == "img" {
		return open + ">"
	}
	var kids []string
	for i, n := 0, r.Intn(3); i < n && depth > 0; i++ {
		if r.Chance(1, 3) {
			kids = append(kids, hx.Pick(r, genTexts))
		} else {
			kids = append(kids, genHTMLElem(r, depth-1))
		}
	}
	if r.Chance(1, 10) { // unclosed
		return open + ">" + strings.Join(kids, "")
	}
	return open + ">" + strings.Join(kids, "") + "</" + tag + ">"
}

func genHTML(r *hx.Rand) []byte {
	head := ""
	if r.Chance(1, 3) {
		head += `<base href="` + hx.Pick(r, genIRIs) + `">`
	}
	if r.Chance(1, 2) {
		head += `<script type="application/ld+json">` + string(genJSONLD(r)) + `</script>`
	}
	if r.Chance(1, 6) {
		head += `<script type="application/ld+json">` + hx.Pick(r, []string{"", "[", "{\"@context\": 5}", "null", "<!-- {} -->"}) + `</script>`
	}
	body := ""
	for i, n := 0, 1+r.Intn(3); i < n; i++ {
		body += genHTMLElem(r, 3)
	}
	htmlAttrs := hx.Pick(r, []string{"", ` lang="en"`, ` prefix="e: http://e/ns#"`, ` vocab="http://v/"`, ` xmlns="http://www.w3.org/1999/xhtml"`})
	return []byte("<!DOCTYPE html><html" + htmlAttrs + "><head>" + head + "</head><body>" + body + "</body></html>")
}

func genStructured(r *hx.Rand, decoder string) []byte {
	switch decoder {
	case "rdfjson":
		return genRDFJSON(r)
	case "rdfxml":
		return genRDFXML(r)
	case "jsonld":
		return genJSONLD(r)
	case "htmlrdfa", "htmlmicrodata", "htmljsonld", "htmldefaults":
		return genHTML(r)
	}
	return nil
}

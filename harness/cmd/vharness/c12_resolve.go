package main

import (
	"fmt"
	"strings"
	"unicode/utf8"

	"github.com/dpb587/rdfkit-go/iri"
	"verifharness/hx"
)

func init() {
	families["c12-resolve"] = c12Resolve
	families["c12-parseprint"] = c12ParsePrint
}

var c12Schemes = []string{"http", "https", "urn", "foo", "file", "HTTP", "tag"}
var c12Auths = []string{"\x00", "", "a", "example.org", "u@h:8", "[::1]", "h:80", "é.example", "EXAMPLE.org", "a%41"}
var c12Segs = []string{"", ".", "..", "a", "b", "%2F", "%2f", "a:b", "c;p=1", "..a", "a.", "é", "%C3%A9", "~x", "a@b", "..."}
var c12QF = []string{"\x00", "", "q", "a=1&b=/../x", "é", "?/#"}

// genIRIRef builds a syntactically valid RFC 3987 IRI (abs=true) or IRI reference.
func c12Gen(r *hx.Rand, abs bool) (string, string) { return c12GenF(r, abs, true) }

// c12GenF: withFrag=false yields an RFC 3987 absolute-IRI (no fragment), the form a base has after RFC 3986 section 5.1.
func c12GenF(r *hx.Rand, abs bool, withFrag bool) (string, string) {
	var sb strings.Builder
	cls := []string{}
	hasScheme := abs || r.Chance(1, 4)
	if hasScheme {
		s := hx.Pick(r, c12Schemes)
		sb.WriteString(s + ":")
		cls = append(cls, "scheme")
	}
	auth := "\x00"
	if r.Chance(3, 5) == hasScheme || r.Chance(1, 6) {
		auth = hx.Pick(r, c12Auths)
	}
	if auth != "\x00" {
		sb.WriteString("//" + auth)
		cls = append(cls, "auth")
	}
	nseg := r.Intn(5)
	var segs []string
	for i := 0; i < nseg; i++ {
		segs = append(segs, hx.Pick(r, c12Segs))
	}
	path := strings.Join(segs, "/")
	if nseg > 0 && (auth != "\x00" || r.Chance(1, 2)) {
		path = "/" + path
	}
	if auth == "\x00" {
		// path-absolute may not begin with "//"; path-noscheme may not have ':' in first segment
		for strings.HasPrefix(path, "//") {
			path = path[1:]
		}
		if !hasScheme {
			first, _, _ := strings.Cut(path, "/")
			if strings.Contains(first, ":") {
				path = "./" + path
			}
		}
	}
	sb.WriteString(path)
	if path == "" {
		cls = append(cls, "emptypath")
	} else if strings.Contains("/"+path+"/", "/./") || strings.Contains("/"+path+"/", "/../") {
		cls = append(cls, "dots")
	}
	if q := hx.Pick(r, c12QF); q != "\x00" && r.Chance(1, 2) {
		q = strings.ReplaceAll(q, "#", "")
		sb.WriteString("?" + q)
		cls = append(cls, "query")
	}
	if f := hx.Pick(r, c12QF); withFrag && f != "\x00" && r.Chance(1, 2) {
		sb.WriteString("#" + strings.ReplaceAll(f, "#", ""))
		cls = append(cls, "frag")
	}
	return sb.String(), strings.Join(cls, "+")
}

func c12Impl(base, ref string) string {
	defer func() { recover() }()
	b, err := iri.ParseIRI(base)
	if err != nil {
		return "!base:" + errClass(err)
	}
	res, err := b.Parse(ref)
	if err != nil {
		return "!ref:" + errClass(err)
	}
	return hx.X(res.String())
}

func errClass(err error) string {
	s := err.Error()
	switch {
	case strings.Contains(s, "invalid URL escape"):
		return "escape"
	case strings.Contains(s, "invalid host"), strings.Contains(s, "invalid character"):
		return "host"
	case strings.Contains(s, "invalid port"):
		return "port"
	case strings.Contains(s, "first path segment in URL cannot contain colon"):
		return "colon"
	case strings.Contains(s, "missing protocol scheme"):
		return "scheme"
	case strings.Contains(s, "control character"):
		return "ctl"
	}
	return "other"
}

var c12Corpus = [][2]string{
	{"http://a/b/c/d;p?q", "g:h"}, {"http://a/b/c/d;p?q", "g"}, {"http://a/b/c/d;p?q", "./g"}, {"http://a/b/c/d;p?q", "g/"},
	{"http://a/b/c/d;p?q", "/g"}, {"http://a/b/c/d;p?q", "//g"}, {"http://a/b/c/d;p?q", "?y"}, {"http://a/b/c/d;p?q", "g?y"},
	{"http://a/b/c/d;p?q", "#s"}, {"http://a/b/c/d;p?q", "g#s"}, {"http://a/b/c/d;p?q", "g?y#s"}, {"http://a/b/c/d;p?q", ";x"},
	{"http://a/b/c/d;p?q", "g;x"}, {"http://a/b/c/d;p?q", "g;x?y#s"}, {"http://a/b/c/d;p?q", ""}, {"http://a/b/c/d;p?q", "."},
	{"http://a/b/c/d;p?q", "./"}, {"http://a/b/c/d;p?q", ".."}, {"http://a/b/c/d;p?q", "../"}, {"http://a/b/c/d;p?q", "../g"},
	{"http://a/b/c/d;p?q", "../.."}, {"http://a/b/c/d;p?q", "../../"}, {"http://a/b/c/d;p?q", "../../g"},
	{"http://a/b/c/d;p?q", "../../../g"}, {"http://a/b/c/d;p?q", "../../../../g"}, {"http://a/b/c/d;p?q", "/./g"},
	{"http://a/b/c/d;p?q", "/../g"}, {"http://a/b/c/d;p?q", "g."}, {"http://a/b/c/d;p?q", ".g"}, {"http://a/b/c/d;p?q", "g.."},
	{"http://a/b/c/d;p?q", "..g"}, {"http://a/b/c/d;p?q", "./../g"}, {"http://a/b/c/d;p?q", "./g/."}, {"http://a/b/c/d;p?q", "g/./h"},
	{"http://a/b/c/d;p?q", "g/../h"}, {"http://a/b/c/d;p?q", "g;x=1/./y"}, {"http://a/b/c/d;p?q", "g;x=1/../y"},
	{"http://a/b/c/d;p?q", "g?y/./x"}, {"http://a/b/c/d;p?q", "g?y/../x"}, {"http://a/b/c/d;p?q", "g#s/./x"},
	{"http://a/b/c/d;p?q", "g#s/../x"}, {"http://a/b/c/d;p?q", "http:g"},
	{"http://a", "b"}, {"http://a", "?q"}, {"http://a?x", ""}, {"http://a/b", "#"}, {"http://a/b?", "c"},
	{"urn:a:b", "c"}, {"urn:a:b", "#f"}, {"foo:/a/b", "c"}, {"foo:a/b", "../c"}, {"tag:x,2020:/a/../b", "tag:x,2020:/a/../b"},
	{"file:///a/b", "c"}, {"http://a/b/", "//c/d/../e"},
}

func c12Resolve(r *hx.Rand, n int, out *hx.Out, _ []string) {
	emit := func(base, ref, cls string) {
		impl := c12Impl(base, ref)
		out.Emit(hx.Case{
			Kind: "K/C12/resolve", Spec: true,
			Line:   "res\t" + hx.X(base) + "\t" + hx.X(ref),
			Impl:   impl,
			Class:  cls,
			NonTri: ref != "" && ref != base,
			In:     []string{base, ref},
			Desc:   fmt.Sprintf("base=%q ref=%q", base, ref),
		})
	}
	for _, c := range c12Corpus {
		emit(c[0], c[1], "rfc-5.4+corpus")
	}
	for i := 0; i < n; i++ {
		rr := r.Fork()
		base, bc := c12GenF(rr, true, false)
		var ref, rc string
		switch rr.Intn(8) {
		case 0: // absolute IRI without dot segments must come back unchanged
			ref, rc = c12Gen(rr, true)
			rc = "abs:" + rc
		case 1: // reference equal to or derived from the base
			ref = base
			if rr.Bool() && len(ref) > 0 {
				ref = ref[:rr.Intn(len(ref)+1)]
				if _, _, ok := strings.Cut(ref, ":"); !ok || !utf8.ValidString(ref) || strings.Count(ref, "[") != strings.Count(ref, "]") || strings.HasSuffix(ref, "%") || strings.HasSuffix(ref[:len(ref)-1], "%") {
					ref = base
				}
			}
			rc = "frombase"
		default:
			ref, rc = c12Gen(rr, false)
		}
		emit(base, ref, "b["+bc+"] r["+rc+"]")
	}
}

// parse + print must be the identity on every IRI reference
func c12ParsePrint(r *hx.Rand, n int, out *hx.Out, _ []string) {
	for i := 0; i < n; i++ {
		rr := r.Fork()
		s, cls := c12Gen(rr, rr.Chance(2, 3))
		impl := func() string {
			defer func() { recover() }()
			p, err := iri.ParseIRI(s)
			if err != nil {
				return "!" + errClass(err)
			}
			return hx.X(p.String())
		}()
		out.Emit(hx.Case{
			Kind: "K/C12/parseprint", Spec: true,
			Line:   "p5\t" + hx.X(s),
			Impl:   impl, // compared by the driver against the last field of the model output
			Class:  cls,
			NonTri: len(s) > 8,
			In:     []string{s},
			Desc:   fmt.Sprintf("iri=%q", s),
		})
	}
}

package main

// c11_html.go — C11: JSON-LD in script elements (c11-script) and the combined HTML decoder (c11-combined).
//
// c11-script: datasets are written as JSON-LD by the C10 writer and embedded in script elements (head or body, one or
// several, among other scripts); the htmljsonld decoder must give the union of the datasets, blank node labels scoped
// per script. A document with a single script is also read by the Coq model of JSON-LD.
//
// c11-combined: documents carrying RDFa, Microdata and JSON-LD at once; the combined decoder must give the disjoint
// union of what the three decoders give on the same document: nothing lost, nothing added, and no blank node of one
// syntax identified with a blank node of another (also when they carry the same label).

import (
	"fmt"
	"sort"
	"strings"

	"verifharness/hx"
)

func init() {
	families["c11-script"] = c11Script
	families["c11-combined"] = c11Combined
}

// c11JSONLD draws a dataset and its JSON-LD text (no "</" or "<!--" inside: the text sits in a script element).
func c11JSONLD(rr *hx.Rand) (text string, want []hx.Q, tokens string, feats []string) {
	for {
		g := &c10GenT{r: rr, feat: map[string]int{}}
		d := g.data()
		w := &c10Writer{g: g, r: rr, refs: map[string]int{}, gnames: map[string]bool{}, nsubj: map[string]int{}, written: map[*c10Node]bool{}, nonPrefix: map[string]bool{}}
		w.count(d)
		doc := w.document(d)
		if w.unwritable {
			continue
		}
		var sb strings.Builder
		doc.text(rr, &sb)
		text = sb.String()
		if strings.Contains(text, "</") || strings.Contains(text, "<!--") {
			continue
		}
		var tk strings.Builder
		if doc.tokens(&tk) {
			tokens = strings.TrimSuffix(tk.String(), ",")
		}
		for k := range g.feat {
			feats = append(feats, k)
		}
		sort.Strings(feats)
		return text, d.quads(), tokens, feats
	}
}

func renameApart(qs []hx.Q, tag string) []hx.Q {
	r := func(t string) string {
		if strings.HasPrefix(t, "_:") {
			return "_:" + tag + t[2:]
		}
		return t
	}
	out := make([]hx.Q, len(qs))
	for i, q := range qs {
		out[i] = hx.Q{S: r(q.S), P: q.P, O: r(q.O), G: r(q.G)}
	}
	return out
}

func c11Script(r *hx.Rand, n int, out *hx.Out, _ []string) {
	for c := 0; c < n; c++ {
		rr := r.Fork()
		k := 1
		if rr.Chance(1, 3) {
			k = 2 + rr.Intn(2)
		}
		var want []hx.Q
		var scripts []string
		line := ""
		var feats []string
		for i := 0; i < k; i++ {
			text, qs, tokens, fs := c11JSONLD(rr)
			want = append(want, renameApart(qs, fmt.Sprintf("s%d", i))...)
			scripts = append(scripts, text)
			feats = fs
			if k == 1 && tokens != "" {
				line = "jsonld\t" + hx.X(c10Base) + "\t" + tokens
			}
		}
		typeAttr := "application/ld+json"
		variant := "plain"
		if rr.Chance(1, 6) {
			variant = hx.Pick(rr, []string{"upper-case", "parameter", "padded"})
			switch variant {
			case "upper-case":
				typeAttr = "Application/LD+JSON"
			case "parameter":
				typeAttr = "application/ld+json;profile=\"http://www.w3.org/ns/json-ld#expanded\""
			case "padded":
				typeAttr = " application/ld+json "
			}
		}
		var sb strings.Builder
		sb.WriteString("<!DOCTYPE html><html><head><title>T</title>")
		location := c10Base
		if rr.Chance(1, 3) {
			// the document sits elsewhere; a base element gives the base the scripts were written against
			location = "http://example.org/elsewhere/deep/page.html"
			sb.WriteString("<base href=\"" + hx.Pick(rr, []string{c10Base, "../../dir/doc", "/dir/doc#top"}) + "\">")
		}
		if rr.Chance(1, 4) {
			sb.WriteString("<script>var x = {\"@id\": \"http://not.data/\"};</script>")
		}
		if rr.Chance(1, 5) {
			sb.WriteString("<script type=\"application/json\">{\"@id\": \"http://not.jsonld/\", \"http://e/p\": 1}</script>")
		}
		inHead := rr.Bool()
		emit := func(i int) {
			q := hx.Pick(rr, []string{"\"", "'"})
			ta := typeAttr
			if q == "'" {
				ta = strings.ReplaceAll(ta, "\"", "&quot;")
			} else {
				ta = strings.ReplaceAll(ta, "\"", "&quot;")
			}
			sb.WriteString("<script " + hx.Pick(rr, []string{"type", "TYPE"}) + "=" + q + ta + q + hx.Pick(rr, []string{"", " id=\"data\"", " class=x"}) + ">" + hx.Pick(rr, []string{"", "\n", "  "}) + scripts[i] + hx.Pick(rr, []string{"", "\n"}) + "</script>")
		}
		if inHead {
			for i := range scripts {
				emit(i)
			}
		}
		sb.WriteString("</head><body><p>text</p>")
		if !inHead {
			for i := range scripts {
				emit(i)
				sb.WriteString("<div>between</div>")
			}
		}
		sb.WriteString("</body></html>")
		doc := sb.String()
		res := zooRun("htmljsonld", []byte(doc), zooOpts{base: location})
		impl, oracle := "!doc", ""
		switch res.verdict {
		case "ok":
			impl = c10ImplString(res)
			if why := hx.IsoSetsWhy(lowerLang(zooQuadsQ(res.quads)), lowerLang(want)); why != "" {
				oracle = fmt.Sprintf("the embedded JSON-LD (%d script elements, type attribute %q) does not decode to the datasets written: %s", k, typeAttr, why)
			}
		case "error":
			oracle = "the decoder rejects the document: " + res.detail
		default:
			oracle = res.verdict + ": " + res.detail
		}
		if variant != "plain" {
			line = "" // what the type attribute may look like is not part of the JSON-LD model
		}
		cls := fmt.Sprintf("%d script(s), %s, type %s", k, map[bool]string{true: "head", false: "body"}[inHead], variant)
		sig := ""
		if oracle != "" && variant != "plain" {
			sig = "C11_SCRIPT_TYPE_" + strings.ToUpper(strings.ReplaceAll(variant, "-", "_"))
		}
		out.Emit(hx.Case{Kind: "K/C11/script/iso", Line: line, Impl: impl, Class: cls, NonTri: len(want) >= 2, Oracle: oracle, Sig: sig, Spec: true,
			Desc: fmt.Sprintf("location=%q features=%v document: %s", location, feats, doc)})
	}
}

func c11Combined(r *hx.Rand, n int, out *hx.Out, _ []string) {
	for c := 0; c < n; c++ {
		rr := r.Fork()
		// the RDFa part decides the skeleton; Microdata items and a script are added to the body
		g := &c11Gen{r: rr, feat: map[string]int{}}
		root := g.document()
		body := root.kids[1]
		md := &c11MD{r: rr, feat: map[string]int{}}
		for i, k := 0, 1+rr.Intn(2); i < k; i++ {
			var e *xn
			for try := 0; try < 8; try++ {
				e = md.element(1, false, false, false)
				if hasAttr(e, "itemscope") {
					break
				}
			}
			body.kids = append(body.kids, e)
		}
		// blank node labels which occur in the RDFa part as well
		text, _, _, _ := c11JSONLD(rr)
		var sb strings.Builder
		htmlWrite(rr, &sb, root)
		doc := sb.String()
		script := "<script type=\"application/ld+json\">" + text + "</script>"
		if rr.Bool() {
			doc = strings.Replace(doc, "</body>", script+"</body>", 1)
		} else {
			doc = strings.Replace(doc, "</title>", "</title>"+script, 1)
		}
		doc = "<!DOCTYPE html>" + doc
		parts := map[string]zooResult{
			"rdfa":      zooRun("htmlrdfa", []byte(doc), zooOpts{base: c11Location}),
			"microdata": zooRun("htmlmicrodata", []byte(doc), zooOpts{base: c11Location, itemtypeVocab: true}),
			"jsonld":    zooRun("htmljsonld", []byte(doc), zooOpts{base: c11Location}),
		}
		var want []hx.Q
		skip := ""
		for _, name := range []string{"rdfa", "microdata", "jsonld"} {
			p := parts[name]
			if p.verdict != "ok" {
				skip = name + ": " + p.verdict + " " + p.detail
				break
			}
			want = append(want, renameApart(zooQuadsQ(p.quads), name[:1])...)
		}
		if skip != "" {
			out.Emit(hx.Case{Kind: "K/C11/combined-skip", Impl: "skip", Class: "a part does not decode", Desc: skip})
			continue
		}
		res := zooRun("htmldefaults", []byte(doc), zooOpts{base: c11Location})
		impl, oracle := "!doc", ""
		switch res.verdict {
		case "ok":
			impl = fmt.Sprintf("%d statements", len(res.quads))
			if why := hx.IsoWhy(lowerLang(hx.Dedup(zooQuadsQ(res.quads))), lowerLang(hx.Dedup(want))); why != "" {
				oracle = "the combined decoder does not give the disjoint union of the RDFa, Microdata and JSON-LD decoders' results: " + why
			}
		case "error":
			oracle = "the combined decoder rejects a document its parts decode: " + res.detail
		default:
			oracle = res.verdict + ": " + res.detail
		}
		cls := fmt.Sprintf("rdfa=%d microdata=%d jsonld=%d", min(len(parts["rdfa"].quads), 3), min(len(parts["microdata"].quads), 3), min(len(parts["jsonld"].quads), 3))
		out.Emit(hx.Case{Kind: "K/C11/combined", Impl: impl, Class: cls, NonTri: len(parts["rdfa"].quads) > 0 && len(parts["microdata"].quads) > 0 && len(parts["jsonld"].quads) > 0, Oracle: oracle,
			Desc: fmt.Sprintf("location=%q document: %s", c11Location, doc)})
	}
}

func hasAttr(n *xn, k string) bool {
	for _, a := range n.attrs {
		if a[0] == k {
			return true
		}
	}
	for _, c := range n.kids {
		if hasAttr(c, k) {
			return true
		}
	}
	return false
}

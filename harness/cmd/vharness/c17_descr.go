package main

import (
	"context"
	"fmt"
	"sort"
	"strings"

	"github.com/dpb587/rdfkit-go/rdf"
	"github.com/dpb587/rdfkit-go/rdfdescription"
	"verifharness/hx"
)

func init() {
	families["c17-graph"] = c17Graph
	families["c17-dataset"] = c17Dataset
	families["c17-exhaustive"] = c17Exhaustive
}

type c17U struct {
	iris   []rdf.IRI
	blanks []rdf.BlankNode
	lits   []rdf.Literal
}

func c17Universe(nb int) *c17U {
	u := &c17U{}
	for i := 0; i < 3; i++ {
		u.iris = append(u.iris, rdf.IRI(fmt.Sprintf("http://e/i%d", i)))
	}
	f := rdf.NewBlankNodeFactory()
	for i := 0; i < nb; i++ {
		u.blanks = append(u.blanks, f.NewBlankNode())
	}
	for i := 0; i < 2; i++ {
		u.lits = append(u.lits, rdf.Literal{Datatype: "http://www.w3.org/2001/XMLSchema#string", LexicalForm: fmt.Sprintf("l%d", i)})
	}
	return u
}

func (u *c17U) enc(t rdf.Term) string {
	switch t := t.(type) {
	case rdf.IRI:
		for i, x := range u.iris {
			if x == t {
				return fmt.Sprintf("i%d", i)
			}
		}
	case rdf.BlankNode:
		for i, x := range u.blanks {
			if x.TermEquals(t) {
				return fmt.Sprintf("b%d", i)
			}
		}
		return "b?"
	case rdf.Literal:
		for i, x := range u.lits {
			if x.TermEquals(t) {
				return fmt.Sprintf("l%d", i)
			}
		}
	}
	return "?"
}

func (u *c17U) stmts(sl rdfdescription.StatementList) string {
	var parts []string
	for _, s := range sl {
		switch s := s.(type) {
		case rdfdescription.ObjectStatement:
			parts = append(parts, u.enc(s.Predicate)+">"+u.enc(s.Object))
		case rdfdescription.AnonResourceStatement:
			parts = append(parts, u.enc(s.Predicate)+">["+u.stmts(s.AnonResource.Statements)+"]")
		default:
			parts = append(parts, fmt.Sprintf("?%T", s))
		}
	}
	return strings.Join(parts, " ")
}

func (u *c17U) resource(r rdfdescription.Resource) string {
	switch r := r.(type) {
	case rdfdescription.SubjectResource:
		return "R" + u.enc(r.Subject) + "(" + u.stmts(r.Statements) + ")"
	case rdfdescription.AnonResource:
		return "A(" + u.stmts(r.Statements) + ")"
	}
	return fmt.Sprintf("?%T", r)
}

func c17Opts(k int) (rdfdescription.ExportResourceOptions, string) {
	o := rdfdescription.ExportResourceOptions{UseAnonResource: k&1 != 0, Inline: k&2 != 0}
	b := func(x bool) string {
		if x {
			return "1"
		}
		return "0"
	}
	return o, b(o.UseAnonResource) + b(o.Inline)
}

// export under a deadline-free but recursion-safe regime: ExportResources on a self-referencing node used to
// overflow the stack (fatal, not recoverable); run it only through the guarded helper below.
func c17Run(u *c17U, ts []rdf.Triple, o rdfdescription.ExportResourceOptions) (impl string, oracle string) {
	defer func() {
		if p := recover(); p != nil {
			impl, oracle = "!panic", fmt.Sprintf("export panicked: %v", p)
		}
	}()
	rb := rdfdescription.NewResourceListBuilder()
	rb.Add(ts...)
	var rl rdfdescription.ResourceList
	var strs []string
	for r := range rb.ExportResources(o) {
		rl = append(rl, r)
		strs = append(strs, u.resource(r))
	}
	sort.Strings(strs)
	impl = strings.Join(strs, ";")
	na, nb := hx.NewNamer(), hx.NewNamer()
	var a, b []hx.Q
	for _, t := range ts {
		a = append(a, na.Triple(t))
	}
	for _, t := range rl.NewTriples() {
		b = append(b, nb.Triple(t))
	}
	if why := hx.IsoWhy(a, b); why != "" {
		oracle = fmt.Sprintf("flattened export is not isomorphic to the input (%d triples in, %d out): %s", len(a), len(b), why)
	}
	return
}

func (u *c17U) genTriple(rr *hx.Rand, nb int, blankBias int) rdf.Triple {
	var s rdf.SubjectValue
	if rr.Chance(blankBias, 10) {
		s = u.blanks[rr.Intn(nb)]
	} else {
		s = hx.Pick(rr, u.iris)
	}
	p := hx.Pick(rr, u.iris[:2])
	var o rdf.ObjectValue
	switch k := rr.Intn(10); {
	case k < blankBias:
		o = u.blanks[rr.Intn(nb)]
	case k < 9:
		o = hx.Pick(rr, u.iris)
	default:
		o = hx.Pick(rr, u.lits)
	}
	return rdf.Triple{Subject: s, Predicate: p, Object: o}
}

func c17Emit(out *hx.Out, u *c17U, ts []rdf.Triple, k int, cls string) {
	o, oe := c17Opts(k)
	impl, oracle := c17Run(u, ts, o)
	var enc []string
	blanksUsed := map[string]bool{}
	for _, t := range ts {
		enc = append(enc, u.enc(t.Subject)+","+u.enc(t.Predicate)+","+u.enc(t.Object))
		if _, ok := t.Object.(rdf.BlankNode); ok {
			blanksUsed[u.enc(t.Object)] = true
		}
	}
	out.Emit(hx.Case{Kind: "K/C17/export", Line: "descr\t" + oe + "\t" + strings.Join(enc, ";"), Impl: impl,
		Class: cls + " opts=" + oe, NonTri: len(blanksUsed) >= 2, Oracle: oracle, Desc: "opts=" + oe + " triples=" + strings.Join(enc, ";")})
}

var c17Corpus = [][][3]string{
	{{"b0", "i0", "b1"}, {"b1", "i0", "b0"}},                                         // two-cycle, each referenced once
	{{"b0", "i0", "b0"}},                                                             // self reference
	{{"b0", "i0", "b1"}, {"b1", "i0", "b2"}, {"b2", "i0", "b0"}},                     // three-cycle
	{{"b0", "i0", "b1"}, {"b1", "i0", "b0"}, {"b0", "i1", "b2"}, {"b2", "i0", "l0"}}, // tail hanging off a cycle
	{{"i0", "i0", "b0"}, {"b0", "i0", "b1"}, {"b1", "i0", "b2"}, {"b2", "i1", "l0"}}, // chain from a root
	{{"i0", "i0", "b0"}, {"i1", "i0", "b0"}, {"b0", "i0", "l0"}},                     // shared node
	{{"i0", "i0", "b0"}}, // referenced once, never described
	{{"b0", "i0", "l0"}}, // unreferenced blank subject
	{{"i0", "i0", "b0"}, {"i0", "i0", "b0"}, {"b0", "i0", "l0"}}, // the same triple twice
	{{"b0", "i0", "b1"}, {"b1", "i0", "b1"}},                     // chain into a self loop
}

func (u *c17U) dec(s string) rdf.Term {
	var n int
	fmt.Sscanf(s[1:], "%d", &n)
	switch s[0] {
	case 'i':
		return u.iris[n]
	case 'b':
		return u.blanks[n]
	}
	return u.lits[n]
}

func c17Graph(r *hx.Rand, n int, out *hx.Out, _ []string) {
	for _, c := range c17Corpus {
		u := c17Universe(4)
		var ts []rdf.Triple
		for _, t := range c {
			ts = append(ts, rdf.Triple{Subject: u.dec(t[0]).(rdf.SubjectValue), Predicate: u.dec(t[1]).(rdf.PredicateValue), Object: u.dec(t[2]).(rdf.ObjectValue)})
		}
		for k := 0; k < 4; k++ {
			c17Emit(out, u, ts, k, "corpus")
		}
	}
	for c := 0; c < n; c++ {
		rr := r.Fork()
		if c%20 == 19 { // deep structures: long chains / lists / long cycles of singly referenced nodes, with a few extras
			nb := 10 + rr.Intn(50)
			u := c17Universe(nb)
			var ts []rdf.Triple
			shape := rr.Intn(3)
			if shape != 2 {
				ts = append(ts, rdf.Triple{Subject: u.iris[0], Predicate: u.iris[0], Object: u.blanks[0]})
			}
			for i := 0; i+1 < nb; i++ {
				ts = append(ts, rdf.Triple{Subject: u.blanks[i], Predicate: u.iris[1], Object: u.blanks[i+1]})
				if shape == 1 {
					ts = append(ts, rdf.Triple{Subject: u.blanks[i], Predicate: u.iris[0], Object: hx.Pick(rr, u.lits)})
				}
			}
			if shape == 2 { // close the cycle
				ts = append(ts, rdf.Triple{Subject: u.blanks[nb-1], Predicate: u.iris[1], Object: u.blanks[0]})
			} else {
				ts = append(ts, rdf.Triple{Subject: u.blanks[nb-1], Predicate: u.iris[1], Object: u.iris[2]})
			}
			for i, k := 0, rr.Intn(3); i < k; i++ {
				ts = append(ts, u.genTriple(rr, nb, 5))
			}
			c17Emit(out, u, ts, rr.Intn(4), fmt.Sprintf("deep shape=%d", shape))
			continue
		}
		nb := 1 + rr.Intn(6)
		u := c17Universe(nb)
		nt := 1 + rr.Intn(12)
		bias := 3 + rr.Intn(6)
		var ts []rdf.Triple
		for i := 0; i < nt; i++ {
			ts = append(ts, u.genTriple(rr, nb, bias))
		}
		c17Emit(out, u, ts, rr.Intn(4), fmt.Sprintf("random nb=%d", nb))
	}
}

// c17Exhaustive: every digraph on nb blank nodes (edge set as bitmask, one predicate), each node additionally
// optionally referenced from an IRI, x 4 option combinations. args: nb (default 3).
func c17Exhaustive(r *hx.Rand, n int, out *hx.Out, args []string) {
	nb := 3
	if len(args) > 0 {
		fmt.Sscanf(args[0], "%d", &nb)
	}
	edges := nb * nb
	for mask := 0; mask < 1<<edges; mask++ {
		for ext := 0; ext < 1<<nb; ext++ {
			if n > 0 && (mask*(1<<nb)+ext)%n != 0 && n < 1<<20 { // n acts as a stride (1 = everything)
				continue
			}
			u := c17Universe(nb)
			var ts []rdf.Triple
			for e := 0; e < edges; e++ {
				if mask&(1<<e) != 0 {
					ts = append(ts, rdf.Triple{Subject: u.blanks[e/nb], Predicate: u.iris[0], Object: u.blanks[e%nb]})
				}
			}
			for b := 0; b < nb; b++ {
				if ext&(1<<b) != 0 {
					ts = append(ts, rdf.Triple{Subject: u.iris[1], Predicate: u.iris[0], Object: u.blanks[b]})
				}
			}
			if len(ts) == 0 {
				continue
			}
			for k := 0; k < 4; k++ {
				c17Emit(out, u, ts, k, fmt.Sprintf("digraph nb=%d", nb))
			}
		}
	}
}

type c17Collector struct {
	rs []rdfdescription.DatasetResource
}

func (c *c17Collector) AddDatasetResource(_ context.Context, r rdfdescription.DatasetResource) error {
	c.rs = append(c.rs, r)
	return nil
}

func c17Dataset(r *hx.Rand, n int, out *hx.Out, _ []string) {
	ctx := context.Background()
	for c := 0; c < n; c++ {
		rr := r.Fork()
		nb := 1 + rr.Intn(5)
		u := c17Universe(nb)
		gnames := []rdf.GraphNameValue{nil, u.iris[2]}
		if rr.Bool() {
			gnames = append(gnames, u.blanks[rr.Intn(nb)])
		}
		nq := 1 + rr.Intn(10)
		bias := 3 + rr.Intn(6)
		var qs []rdf.Quad
		var enc []string
		for i := 0; i < nq; i++ {
			t := u.genTriple(rr, nb, bias)
			g := hx.Pick(rr, gnames)
			qs = append(qs, rdf.Quad{Triple: t, GraphName: g})
			ge := "-"
			if g != nil {
				ge = u.enc(g.(rdf.Term))
			}
			enc = append(enc, u.enc(t.Subject)+","+u.enc(t.Predicate)+","+u.enc(t.Object)+","+ge)
		}
		o, oe := c17Opts(rr.Intn(4))
		impl, oracle := func() (impl string, oracle string) {
			defer func() {
				if p := recover(); p != nil {
					impl, oracle = "!panic", fmt.Sprintf("export panicked: %v", p)
				}
			}()
			b := rdfdescription.NewDatasetResourceListBuilder()
			if rr.Bool() {
				b.Add(qs...)
			} else { // through AddDatasetResource
				for _, q := range qs {
					b.AddDatasetResource(ctx, rdfdescription.DatasetResource{GraphName: q.GraphName,
						Resource: rdfdescription.SubjectResource{Subject: q.Triple.Subject, Statements: rdfdescription.StatementList{
							rdfdescription.ObjectStatement{Predicate: q.Triple.Predicate, Object: q.Triple.Object}}}})
				}
			}
			col := &c17Collector{}
			if err := b.ToDatasetResourceWriter(ctx, col, o); err != nil {
				return "!err", err.Error()
			}
			var strs []string
			nbk := hx.NewNamer()
			var got []hx.Q
			for _, dr := range col.rs {
				ge := "-"
				if dr.GraphName != nil {
					ge = u.enc(dr.GraphName.(rdf.Term))
				}
				strs = append(strs, ge+"|"+u.resource(dr.Resource))
				for _, q := range dr.NewQuads() {
					got = append(got, nbk.Quad(q))
				}
			}
			sort.Strings(strs)
			na := hx.NewNamer()
			var want []hx.Q
			for _, q := range qs {
				want = append(want, na.Quad(q))
			}
			if why := hx.IsoWhy(want, got); why != "" {
				oracle = fmt.Sprintf("flattened dataset export is not isomorphic to the input (%d quads in, %d out): %s", len(want), len(got), why)
			}
			return strings.Join(strs, ";"), oracle
		}()
		out.Emit(hx.Case{Kind: "K/C17/dataset", Line: "descrd\t" + oe + "\t" + strings.Join(enc, ";"), Impl: impl,
			Class: fmt.Sprintf("graphs=%d opts=%s", len(gnames), oe), NonTri: nq >= 3, Oracle: oracle, Desc: "opts=" + oe + " quads=" + strings.Join(enc, ";")})
	}
}

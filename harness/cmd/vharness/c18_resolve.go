package main

import (
	"fmt"
	"io"
	"sort"
	"strings"

	"github.com/dpb587/rdfkit-go/encoding"
	"github.com/dpb587/rdfkit-go/rdf"
	"github.com/dpb587/rdfkit-go/rdfio"
	"github.com/dpb587/rdfkit-go/rdfio/rdfiotypes"
	"verifharness/hx"
)

func init() { families["c18-resolve"] = c18Resolve }

type stubResource struct {
	name    *string
	media   *encoding.ContentMediaType
	magic   []byte
	isMagic bool
}

func (s stubResource) GetIRI() rdf.IRI { return "file:///stub" }
func (s stubResource) GetFileName() (string, bool) {
	if s.name == nil {
		return "", false
	}
	return *s.name, true
}
func (s stubResource) Read([]byte) (int, error)    { return 0, io.EOF }
func (s stubResource) Write(p []byte) (int, error) { return len(p), nil }
func (s stubResource) Close() error                { return nil }
func (s stubResource) AddTee(io.Writer)            {}
func (s stubResource) GetMediaType() (encoding.ContentMediaType, bool) {
	if s.media == nil {
		return encoding.ContentMediaType{}, false
	}
	return *s.media, true
}
func (s stubResource) GetMagicBytes() ([]byte, bool) { return s.magic, s.isMagic }

func regTable(m map[string]encoding.ContentTypeIdentifier) string {
	var ks []string
	for k := range m {
		ks = append(ks, k)
	}
	sort.Strings(ks)
	var out []string
	for _, k := range ks {
		out = append(out, hx.X(k)+"="+hx.X(string(m[k])))
	}
	return strings.Join(out, ",")
}

func regKeys[T any](m map[encoding.ContentTypeIdentifier]T) string {
	var ks []string
	for k := range m {
		ks = append(ks, string(k))
	}
	sort.Strings(ks)
	var out []string
	for _, k := range ks {
		out = append(out, hx.X(k))
	}
	return strings.Join(out, ",")
}

func optX(s *string) string {
	if s == nil {
		return "-"
	}
	return hx.X(*s)
}

func c18Resolve(r *hx.Rand, n int, out *hx.Out, _ []string) {
	reg := rdfio.NewRegistry(rdfio.RegistryOptions{})
	tables := regTable(reg.Aliases) + "\t" + regKeys(reg.DecoderManagers) + "\t" + regKeys(reg.EncoderManagers) + "\t" + regTable(reg.MediaTypes) + "\t" + regTable(reg.FileExts)
	// the live extension table must be consistent: the model's predicate is the specification here
	out.Emit(hx.Case{Kind: "K/C18/exts-consistent", Line: "reg\t" + tables + "\tok", Impl: "1", Class: "registry tables", NonTri: true, Spec: true,
		Desc: "no registered file extension ends another one that is registered for a different type"})
	var aliases, medias, exts, ids []string
	for k := range reg.Aliases {
		aliases = append(aliases, k)
	}
	for k := range reg.MediaTypes {
		medias = append(medias, k)
	}
	for k := range reg.FileExts {
		exts = append(exts, k)
	}
	for k := range reg.DecoderManagers {
		ids = append(ids, string(k))
	}
	sort.Strings(aliases)
	sort.Strings(medias)
	sort.Strings(exts)
	sort.Strings(ids)
	heads := []string{"", "<html><body>", "<?xml version=\"1.0\"?><rdf:RDF xmlns:rdf=\"http://www.w3.org/1999/02/22-rdf-syntax-ns#\">", "{\"@context\":{}}", "{\"http://e/s\":{\"http://e/p\":[{\"type\":\"uri\",\"value\":\"http://e/o\"}]}}",
		"<http://e/s> <http://e/p> \"<p vocab=\\\"x\\\">\" .", "[{\"@id\":\"x\"}]", "<div itemscope>", "@prefix : <x> ."}
	for c := 0; c < n; c++ {
		rr := r.Fork()
		var t string
		switch rr.Intn(5) {
		case 0:
			t = hx.Pick(rr, aliases)
		case 1:
			t = hx.Pick(rr, ids)
		case 2:
			t = hx.Pick(rr, []string{"unknown", "NQ", "text/turtle", ".ttl", "org.w3.turtle "})
		}
		res := stubResource{}
		if rr.Bool() {
			mt := hx.Pick(rr, medias)
			if rr.Chance(1, 4) {
				mt = hx.Pick(rr, []string{"text/plain", "application/json", "TEXT/TURTLE", "Application/RDF+XML", "text/html"})
			}
			parts := strings.SplitN(mt, "/", 2)
			if rr.Chance(1, 5) {
				parts[0] = strings.ToUpper(parts[0])
			}
			res.media = &encoding.ContentMediaType{Type: parts[0], Subtype: parts[1]}
		}
		if rr.Chance(2, 3) {
			nm := hx.Pick(rr, []string{"doc", "a.b", "dir.d/file", "x"}) + hx.Pick(rr, append(append([]string{}, exts...), "", ".txt", ".TTL", ".Html", ".json", ".nt.bak", ".tar.nq", ".xhtml", "."))
			res.name = &nm
		}
		var magic *string
		if rr.Bool() {
			res.magic, res.isMagic = []byte(hx.Pick(rr, heads)), true
			for _, mr := range reg.MagicBytesResolvers {
				if cti, ok := mr.ResolveMagicBytes(res.magic); ok {
					s := string(cti)
					magic = &s
					break
				}
			}
		}
		var media *string
		if res.media != nil {
			s := res.media.Type + "/" + res.media.Subtype
			media = &s
		}
		impl := "-"
		if cti, ok := reg.ResolveDecoderType(res, t); ok {
			impl = string(cti)
		}
		out.Emit(hx.Case{Kind: "K/C18/resolve-decoder", Line: "reg\t" + tables + "\tdec\t" + hx.X(t) + "\t" + optX(media) + "\t" + optX(res.name) + "\t" + optX(magic), Impl: impl,
			Class: fmt.Sprintf("dec type=%v media=%v name=%v magic=%v", t != "", media != nil, res.name != nil, magic != nil), NonTri: true,
			Desc: fmt.Sprintf("ResolveDecoderType type=%q media=%v name=%v magic=%v", t, optS(media), optS(res.name), optS(magic))})
		implE := "-"
		if cti, ok := reg.ResolveEncoderType(rdfiotypes.Writer(res), t); ok {
			implE = string(cti)
		}
		out.Emit(hx.Case{Kind: "K/C18/resolve-encoder", Line: "reg\t" + tables + "\tenc\t" + hx.X(t) + "\t" + optX(res.name), Impl: implE,
			Class: fmt.Sprintf("enc type=%v name=%v", t != "", res.name != nil), NonTri: true, Desc: fmt.Sprintf("ResolveEncoderType type=%q name=%v", t, optS(res.name))})
	}
}

func optS(s *string) string {
	if s == nil {
		return "none"
	}
	return fmt.Sprintf("%q", *s)
}

package main

import (
	"fmt"
	"sort"
	"strings"

	"verifharness/hx"
)

func init() {
	families["c08-turtle"] = c08Turtle
	families["c07-subset"] = c07Subset
}

// lowerLang lower-cases the language tags of canonical literal strings (language tags compare case-insensitively).
func lowerLang(qs []hx.Q) []hx.Q {
	out := make([]hx.Q, len(qs))
	for i, q := range qs {
		if j := strings.LastIndex(q.O, "\"@"); j >= 0 && strings.HasPrefix(q.O, "\"") {
			if k := strings.Index(q.O[j:], "^^<"); k >= 0 {
				q.O = q.O[:j] + strings.ToLower(q.O[j:j+k]) + q.O[j+k:]
			}
		}
		out[i] = q
	}
	return out
}

func featClass(feat map[string]int) string {
	var ks []string
	for k := range feat {
		ks = append(ks, k)
	}
	sort.Strings(ks)
	if len(ks) > 6 {
		// the distribution report wants few classes: bucket by the rarer productions present
		var rare []string
		for _, k := range ks {
			switch k {
			case "collection-subject", "bnode-property-list-subject", "pname-escape", "long-inner-quote", "prefix-redefined", "BASE", "@base", "block-without-final-dot", "semicolon-repeated", "collection-empty", "GRAPH":
				rare = append(rare, k)
			}
		}
		if len(rare) > 3 {
			rare = rare[:3]
		}
		return "rich:" + strings.Join(rare, "+")
	}
	return strings.Join(ks, "+")
}

// c08Turtle: the decoder yields exactly the dataset the generated document denotes, up to blank node renaming.
func c08Turtle(r *hx.Rand, n int, out *hx.Out, args []string) {
	maxSt := 5
	if len(args) > 0 {
		fmt.Sscan(args[0], &maxSt)
	}
	for c := 0; c < n; c++ {
		rr := r.Fork()
		trig := c%2 == 1
		name := "turtle"
		if trig {
			name = "trig"
		}
		base := ""
		if rr.Chance(2, 3) {
			base = "http://example.org/dir/doc"
		}
		doc, want, feat := genTurtleDoc(rr, trig, base, maxSt)
		res := zooRun(name, []byte(doc), zooOpts{base: base})
		oracle := ""
		switch res.verdict {
		case "ok":
			if why := hx.IsoSetsWhy(lowerLang(zooQuadsQ(res.quads)), lowerLang(want)); why != "" {
				oracle = "the decoded dataset is not the one the document denotes: " + why
			}
		default:
			oracle = fmt.Sprintf("grammatical document rejected: %s %s", res.verdict, res.detail)
		}
		cs := hx.Case{Kind: "K/C08/" + name, Impl: fmt.Sprintf("%s stmts=%d", res.verdict, len(res.quads)), Class: featClass(feat),
			NonTri: len(want) >= 2, Oracle: oracle, Desc: fmt.Sprintf("%s base=%q: %q", name, base, doc)}
		if oracle != "" {
			cs.In = []string{name, fmt.Sprintf("%x", doc), "base=" + base}
		}
		out.Emit(cs)
	}
}

func graphsOf(qs []hx.Q) string {
	for _, q := range qs {
		if q.G != "" {
			return q.G
		}
	}
	return ""
}

// c07Subset: N-Triples documents through all four text decoders, Turtle documents through Turtle and TriG.
func c07Subset(r *hx.Rand, n int, out *hx.Out, _ []string) {
	var ntSeeds, ttlSeeds []seedFile
	for _, s := range seeds("nt") {
		if !strings.Contains(s.path, "bad") && len(s.data) < 20000 {
			ntSeeds = append(ntSeeds, s)
		}
	}
	for _, s := range seeds("ttl") {
		if !strings.Contains(s.path, "bad") && !strings.Contains(s.path, "error") && !strings.Contains(s.path, "manifest") && len(s.data) < 20000 {
			ttlSeeds = append(ttlSeeds, s)
		}
	}
	for c := 0; c < n; c++ {
		rr := r.Fork()
		var doc []byte
		var kind string
		nt := c%2 == 0
		base := ""
		switch {
		case nt && len(ntSeeds) > 0 && rr.Chance(1, 5):
			doc, kind = hx.Pick(rr, ntSeeds).data, "nt-seed"
		case nt && rr.Chance(1, 4):
			// the repository's own encoder
			qs := nqGenDataset(rr, false, 5)
			for i := range qs {
				qs[i].GraphName = nil
			}
			d, err := nqEncodeImpl(qs, nqEncOpts{nq: false, ascii: rr.Bool()})
			if err != nil {
				continue
			}
			doc, kind = d, "nt-encoder"
		case nt:
			doc, kind = c15GenNQDoc(rr, false), "nt-generated"
		case len(ttlSeeds) > 0 && rr.Chance(1, 4):
			s := hx.Pick(rr, ttlSeeds)
			doc, kind = s.data, "ttl-seed"
			base = "http://www.w3.org/2013/TurtleTests/" + s.path[strings.LastIndex(s.path, "/")+1:]
		default:
			if rr.Chance(2, 3) {
				base = "http://example.org/dir/doc"
			}
			d, _, _ := genTurtleDoc(rr, false, base, 5)
			doc, kind = []byte(d), "ttl-generated"
		}
		decs := []string{"turtle", "trig"}
		if nt {
			decs = []string{"ntriples", "nquads", "turtle", "trig"}
		}
		first := zooRun(decs[0], doc, zooOpts{base: base})
		if first.verdict != "ok" {
			if strings.HasSuffix(kind, "-seed") {
				// not a grammatical document of the smaller language (negative or unsupported archive file): outside the quantifier
				out.Emit(hx.Case{Kind: "K/C07/skip", Impl: first.verdict, Class: kind + " rejected by " + decs[0], Desc: kind})
				continue
			}
			// the writers produce grammatical documents only
			out.Emit(hx.Case{Kind: "K/C07/" + decs[0], Impl: first.verdict, Class: kind, NonTri: true,
				Oracle: fmt.Sprintf("%s rejects a grammatical document: %s", decs[0], first.detail), Desc: fmt.Sprintf("%s base=%q: %q", kind, base, string(doc)),
				In: []string{decs[0], fmt.Sprintf("%x", doc), "base=" + base}})
			continue
		}
		ref := zooQuadsQ(first.quads)
		oracle := ""
		if g := graphsOf(ref); g != "" {
			oracle = decs[0] + " yields a statement in graph " + g
		}
		for _, d := range decs[1:] {
			res := zooRun(d, doc, zooOpts{base: base})
			if res.verdict != "ok" {
				oracle = fmt.Sprintf("%s accepts the document, %s rejects it: %s", decs[0], d, res.detail)
				continue
			}
			got := zooQuadsQ(res.quads)
			if g := graphsOf(got); g != "" {
				oracle = d + " yields a statement in graph " + g
			}
			if why := hx.IsoSetsWhy(lowerLang(got), lowerLang(ref)); why != "" {
				oracle = fmt.Sprintf("%s and %s decode different triples: %s", decs[0], d, why)
			} else if len(got) != len(ref) {
				oracle = fmt.Sprintf("%s yields %d statements, %s yields %d", decs[0], len(ref), d, len(got))
			}
		}
		sample := string(doc)
		if len(sample) > 400 {
			sample = sample[:400] + "..."
		}
		cs := hx.Case{Kind: "K/C07/" + decs[0], Impl: fmt.Sprintf("ok stmts=%d", len(ref)), Class: kind, NonTri: len(ref) >= 1, Oracle: oracle,
			Desc: fmt.Sprintf("%s base=%q: %q", kind, base, sample)}
		if oracle != "" {
			cs.In = []string{decs[0], fmt.Sprintf("%x", doc), "base=" + base}
		}
		// model-backed: the N-Triples document through both decoder models (the NT-in-NQ theorem's two sides)
		if nt && len(doc) < 3000 {
			simple := true
			for _, ch := range string(doc) {
				if ch == 0xfffd {
					simple = false
				}
			}
			if simple {
				cs.Line = nqDecLine(doc, nqDecodeOpts{nq: true})
				cs.Impl = nqDecodeImpl(doc, nqDecodeOpts{nq: true}).String()
			}
		}
		out.Emit(cs)
	}
}

module verifharness

go 1.25.5

require github.com/dpb587/rdfkit-go v0.0.0

replace github.com/dpb587/rdfkit-go => /repo

package hx

import (
	"fmt"

	"github.com/dpb587/rdfkit-go/rdf"
)

// Namer gives every distinct blank node identifier (Go equality on the identifier value, which is what the
// library's own maps use) a small integer, in order of first appearance.
type Namer struct {
	ids  map[rdf.BlankNodeIdentifier]int
	list []rdf.BlankNode
}

func NewNamer() *Namer { return &Namer{ids: map[rdf.BlankNodeIdentifier]int{}} }

func (n *Namer) Name(b rdf.BlankNode) string {
	if b.Identifier == nil {
		return "_:nil"
	}
	// linear scan with EqualsBlankNodeIdentifier semantics first (RDF term equality), then remember
	if id, ok := n.ids[b.Identifier]; ok {
		return fmt.Sprintf("_:n%d", id)
	}
	for i, k := range n.list {
		if k.TermEquals(b) {
			n.ids[b.Identifier] = i
			return fmt.Sprintf("_:n%d", i)
		}
	}
	n.ids[b.Identifier] = len(n.list)
	n.list = append(n.list, b)
	return fmt.Sprintf("_:n%d", len(n.list)-1)
}

// TermStr renders a term canonically ("" for nil).
func (n *Namer) TermStr(t rdf.Term) string {
	switch t := t.(type) {
	case nil:
		return ""
	case rdf.IRI:
		return "<" + string(t) + ">"
	case rdf.BlankNode:
		return n.Name(t)
	case rdf.Literal:
		s := fmt.Sprintf("%q", t.LexicalForm)
		switch tag := t.Tag.(type) {
		case rdf.LanguageLiteralTag:
			return s + "@" + tag.Language + "^^<" + string(t.Datatype) + ">"
		case rdf.DirectionalLanguageLiteralTag:
			return s + "@" + tag.Language + "--" + string(tag.BaseDirection) + "^^<" + string(t.Datatype) + ">"
		case nil:
			return s + "^^<" + string(t.Datatype) + ">"
		default:
			return s + "@?^^<" + string(t.Datatype) + ">"
		}
	}
	return fmt.Sprintf("?%T", t)
}

func (n *Namer) Triple(t rdf.Triple) Q {
	return Q{S: n.TermStr(t.Subject), P: n.TermStr(t.Predicate), O: n.TermStr(t.Object)}
}

func (n *Namer) Quad(q rdf.Quad) Q {
	r := n.Triple(q.Triple)
	if q.GraphName != nil {
		r.G = n.TermStr(q.GraphName.(rdf.Term))
	}
	return r
}

// LiteralString renders a literal the way TermStr does (lang "" = no language tag).
func LiteralString(lex, dt, lang string) string {
	s := fmt.Sprintf("%q", lex)
	if lang != "" {
		return s + "@" + lang + "^^<" + dt + ">"
	}
	return s + "^^<" + dt + ">"
}

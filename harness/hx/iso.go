package hx

import (
	"fmt"
	"hash/fnv"
	"sort"
	"strings"
)

// Q is a statement in canonical text form: IRIs as <..>, literals as N-Quads literals, blank nodes as "_:<id>";
// G is "" for the default graph.
type Q struct{ S, P, O, G string }

func (q Q) String() string { return q.S + " " + q.P + " " + q.O + " " + q.G }

func IsBlank(t string) bool { return strings.HasPrefix(t, "_:") }

func blanksOf(qs []Q) []string {
	seen := map[string]bool{}
	var out []string
	for _, q := range qs {
		for _, t := range []string{q.S, q.O, q.G} {
			if IsBlank(t) && !seen[t] {
				seen[t] = true
				out = append(out, t)
			}
		}
	}
	return out
}

func h64(s string) uint64 {
	h := fnv.New64a()
	h.Write([]byte(s))
	return h.Sum64()
}

// colors refines blank node colours for a fixed number of rounds.
func colors(qs []Q) map[string]uint64 {
	col := map[string]uint64{}
	for _, b := range blanksOf(qs) {
		col[b] = 1
	}
	name := func(t string) string {
		if IsBlank(t) {
			return fmt.Sprintf("_:%x", col[t])
		}
		return t
	}
	classes := 0
	for round := 0; round < len(col)+2; round++ {
		sig := map[string][]string{}
		for _, q := range qs {
			ts := [3]string{q.S, q.O, q.G}
			for i, t := range ts {
				if !IsBlank(t) {
					continue
				}
				parts := []string{fmt.Sprint(i), q.P}
				for j, u := range ts {
					if j == i {
						continue
					}
					if u == t {
						parts = append(parts, "self")
					} else {
						parts = append(parts, name(u))
					}
				}
				sig[t] = append(sig[t], strings.Join(parts, "\x00"))
			}
		}
		next := map[string]uint64{}
		for b := range col {
			s := sig[b]
			sort.Strings(s)
			next[b] = h64(fmt.Sprintf("%x|%s", col[b], strings.Join(s, "\x01")))
		}
		col = next
		distinct := map[uint64]bool{}
		for _, c := range col {
			distinct[c] = true
		}
		if len(distinct) == classes && round >= 3 {
			break
		}
		classes = len(distinct)
	}
	return col
}

func renameKey(q Q, m map[string]string) string {
	r := func(t string) string {
		if IsBlank(t) {
			if v, ok := m[t]; ok {
				return v
			}
			return "_:?"
		}
		return t
	}
	return r(q.S) + "\x00" + q.P + "\x00" + r(q.O) + "\x00" + r(q.G)
}

// Iso decides whether two statement multisets are equal up to a bijective renaming of blank nodes.
// It returns (true, "") or (false, reason). Search is bounded; on exhaustion it reports "undecided".
func Iso(a, b []Q) (bool, string) {
	if len(a) != len(b) {
		return false, fmt.Sprintf("%d statements vs %d", len(a), len(b))
	}
	ba, bb := blanksOf(a), blanksOf(b)
	if len(ba) != len(bb) {
		return false, fmt.Sprintf("%d blank nodes vs %d", len(ba), len(bb))
	}
	ca, cb := colors(a), colors(b)
	classB := map[uint64][]string{}
	for _, x := range bb {
		classB[cb[x]] = append(classB[cb[x]], x)
	}
	classCountA := map[uint64]int{}
	for _, x := range ba {
		classCountA[ca[x]]++
	}
	for c, n := range classCountA {
		if len(classB[c]) != n {
			return false, "blank node neighbourhoods differ"
		}
	}
	target := map[string]int{}
	ident := map[string]string{}
	for _, x := range bb {
		ident[x] = x
	}
	for _, q := range b {
		target[renameKey(q, ident)]++
	}
	sort.Slice(ba, func(i, j int) bool {
		ci, cj := classCountA[ca[ba[i]]], classCountA[ca[ba[j]]]
		if ci != cj {
			return ci < cj
		}
		return ba[i] < ba[j]
	})
	// visit blank nodes so that each one (after the first of its component) shares a statement with an earlier one
	adj := map[string][]string{}
	for _, q := range a {
		var bs []string
		for _, t := range []string{q.S, q.O, q.G} {
			if IsBlank(t) {
				bs = append(bs, t)
			}
		}
		for _, x := range bs {
			for _, y := range bs {
				if x != y {
					adj[x] = append(adj[x], y)
				}
			}
		}
	}
	{
		var order []string
		done := map[string]bool{}
		for _, start := range ba {
			if done[start] {
				continue
			}
			queue := []string{start}
			done[start] = true
			for len(queue) > 0 {
				x := queue[0]
				queue = queue[1:]
				order = append(order, x)
				for _, y := range adj[x] {
					if !done[y] {
						done[y] = true
						queue = append(queue, y)
					}
				}
			}
		}
		ba = order
	}
	m := map[string]string{}
	used := map[string]bool{}
	steps := 0
	var verify func() bool
	verify = func() bool {
		got := map[string]int{}
		for _, q := range a {
			got[renameKey(q, m)]++
		}
		if len(got) != len(target) {
			return false
		}
		for k, v := range got {
			if target[k] != v {
				return false
			}
		}
		return true
	}
	// partial consistency: every statement of a whose blanks are all mapped must exist in b
	partialOK := func() bool {
		need := map[string]int{}
		for _, q := range a {
			ok := true
			for _, t := range []string{q.S, q.O, q.G} {
				if IsBlank(t) {
					if _, has := m[t]; !has {
						ok = false
					}
				}
			}
			if ok {
				k := renameKey(q, m)
				need[k]++
				if need[k] > target[k] {
					return false
				}
			}
		}
		return true
	}
	var rec func(i int) (bool, bool)
	rec = func(i int) (bool, bool) {
		if i == len(ba) {
			return verify(), true
		}
		x := ba[i]
		for _, y := range classB[ca[x]] {
			if used[y] {
				continue
			}
			steps++
			if steps > 200000 {
				return false, false
			}
			m[x], used[y] = y, true
			if partialOK() {
				if ok, decided := rec(i + 1); ok || !decided {
					return ok, decided
				}
			}
			delete(m, x)
			used[y] = false
		}
		return false, true
	}
	ok, decided := rec(0)
	if !decided {
		return false, "undecided"
	}
	if !ok {
		return false, "no blank node bijection maps one statement multiset onto the other"
	}
	return true, ""
}

// Dedup returns the statement set (duplicates removed, order kept).
func Dedup(qs []Q) []Q {
	seen := map[Q]bool{}
	var out []Q
	for _, q := range qs {
		if !seen[q] {
			seen[q] = true
			out = append(out, q)
		}
	}
	return out
}

// IsoSets compares as sets (duplicates ignored).
func IsoSets(a, b []Q) (bool, string) { return Iso(Dedup(a), Dedup(b)) }

// IsoWhy returns "" when a and b are isomorphic (as multisets) or when the bounded search could not decide,
// and the reason otherwise. Undecided comparisons are counted in Undecided, never reported as failures.
var Undecided int

func IsoWhy(a, b []Q) string {
	ok, why := Iso(a, b)
	if ok {
		return ""
	}
	if why == "undecided" {
		Undecided++
		return ""
	}
	return why
}

func IsoSetsWhy(a, b []Q) string { return IsoWhy(Dedup(a), Dedup(b)) }

// Package hx holds what every harness family shares: the single PRNG, the
// case record written for the check driver, and the protocol field encoders.
package hx

import (
	"bufio"
	"encoding/hex"
	"encoding/json"
	"fmt"
	"os"
	"strings"
)

// Rand is splitmix64; every random choice of a run derives from one state.
type Rand struct{ s uint64 }

func NewRand(seed uint64) *Rand { return &Rand{s: seed} }

func (r *Rand) U64() uint64 {
	r.s += 0x9e3779b97f4a7c15
	z := r.s
	z = (z ^ (z >> 30)) * 0xbf58476d1ce4e5b9
	z = (z ^ (z >> 27)) * 0x94d049bb133111eb
	return z ^ (z >> 31)
}

// Intn returns a value in [0,n).
func (r *Rand) Intn(n int) int {
	if n <= 0 {
		return 0
	}
	return int(r.U64() % uint64(n))
}

func (r *Rand) Bool() bool { return r.U64()&1 == 1 }

// Chance is true with probability num/den.
func (r *Rand) Chance(num, den int) bool { return r.Intn(den) < num }

func Pick[T any](r *Rand, xs []T) T { return xs[r.Intn(len(xs))] }

// Fork derives an independent stream (used per case so that cases replay alone).
func (r *Rand) Fork() *Rand { return NewRand(r.U64()) }

// Case is one line of the harness output.
type Case struct {
	ID     string   `json:"id"`
	Kind   string   `json:"k"`                // correspondence name, e.g. K/C13/prefix
	Line   string   `json:"line,omitempty"`   // protocol line for the model driver ("" = oracle only)
	Impl   string   `json:"impl"`             // observable of the implementation
	Class  string   `json:"cls"`              // input class (distribution report)
	NonTri bool     `json:"nt"`               // non-trivial by the property's rule
	Oracle string   `json:"oracle,omitempty"` // "" = end-to-end oracle held; else what failed
	Sig    string   `json:"sig,omitempty"`    // classifier signature proposed by the harness for a failure
	Desc   string   `json:"desc,omitempty"`   // human readable rendering
	In     []string `json:"in,omitempty"`     // raw inputs (for classifiers and replay)
	Spec   bool     `json:"spec,omitempty"`   // the model side of this correspondence is the property's own specification: a disagreement is a concrete violation
}

type Out struct {
	w *bufio.Writer
	n int
}

func NewOut() *Out { return &Out{w: bufio.NewWriterSize(os.Stdout, 1<<20)} }

func (o *Out) Emit(c Case) {
	if c.ID == "" {
		c.ID = fmt.Sprintf("%s#%d", c.Kind, o.n)
	}
	o.n++
	b, err := json.Marshal(c)
	if err != nil {
		panic(err)
	}
	o.w.Write(b)
	o.w.WriteByte('\n')
}

func (o *Out) Close() { o.w.Flush() }

// X encodes a byte string as a protocol field.
func X(s string) string { return "x" + hex.EncodeToString([]byte(s)) }

func Join(sep string, xs ...string) string { return strings.Join(xs, sep) }

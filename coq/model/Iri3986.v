(* Iri3986.v — RFC 3986 appendix B split, section 5.3 recomposition and the
   section 5.2 reference-resolution algorithm (strict), transcribed literally.
   This is the property's own oracle: the model *is* the specification. *)
From RK Require Import Base.

Record comps := Comps {
  c_scheme : option bytes;
  c_auth : option bytes;
  c_path : bytes;
  c_query : option bytes;
  c_frag : option bytes
}.

(* longest prefix of characters satisfying p, and the rest *)
Fixpoint span (p : N -> bool) (l : bytes) : bytes * bytes :=
  match l with
  | [] => ([], [])
  | c :: l' => if p c then let '(a, b) := span p l' in (c :: a, b) else ([], l)
  end.

Definition is_gen4 (c : N) : bool := N.eqb c 58 || N.eqb c 47 || N.eqb c 63 || N.eqb c 35. (* : / ? # *)
Definition is_auth_end (c : N) : bool := N.eqb c 47 || N.eqb c 63 || N.eqb c 35.           (* / ? # *)
Definition is_path_end (c : N) : bool := N.eqb c 63 || N.eqb c 35.                          (* ? # *)
Definition is_hash (c : N) : bool := N.eqb c 35.

(* optional scheme: non-empty run without ":/?#" followed by ":" *)
Definition split_scheme (s : bytes) : option bytes * bytes :=
  match span (fun c => negb (is_gen4 c)) s with
  | ((_ :: _) as sch, 58%N :: rest) => (Some sch, rest)
  | _ => (None, s)
  end.

(* optional "//" authority, up to the next "/", "?" or "#" *)
Definition split_auth (s : bytes) : option bytes * bytes :=
  match s with
  | 47%N :: 47%N :: rest => let '(a, r) := span (fun c => negb (is_auth_end c)) rest in (Some a, r)
  | _ => (None, s)
  end.

Definition split_query (s : bytes) : option bytes * bytes :=
  match s with
  | 63%N :: rest => let '(q, r) := span (fun c => negb (is_hash c)) rest in (Some q, r)
  | _ => (None, s)
  end.

Definition split_frag (s : bytes) : option bytes :=
  match s with
  | 35%N :: rest => Some rest
  | _ => None
  end.

Definition parse5 (s : bytes) : comps :=
  let '(sch, r1) := split_scheme s in
  let '(au, r2) := split_auth r1 in
  let '(p, r3) := span (fun c => negb (is_path_end c)) r2 in
  let '(q, r4) := split_query r3 in
  Comps sch au p q (split_frag r4).

(* section 5.3 *)
Definition recompose (c : comps) : bytes :=
  (match c_scheme c with Some s => s ++ [58%N] | None => [] end) ++
  (match c_auth c with Some a => [47%N; 47%N] ++ a | None => [] end) ++
  c_path c ++
  (match c_query c with Some q => 63%N :: q | None => [] end) ++
  (match c_frag c with Some f => 35%N :: f | None => [] end).

(* ---------- 5.2.4 remove_dot_segments ---------- *)
Definition not_slash (c : N) : bool := negb (N.eqb c 47).

(* step E: first path segment including an initial "/" *)
Definition first_seg (i : bytes) : bytes * bytes :=
  match i with
  | c :: r => if N.eqb c 47 then let '(a, b) := span not_slash r in (c :: a, b) else span not_slash i
  | [] => ([], [])
  end.

(* one iteration of the loop of 5.2.4; out is the reversed list of moved chunks *)
Definition rds_step (i : bytes) (out : list bytes) : bytes * list bytes :=
  if is_prefix [46%N; 46%N; 47%N] i then (skipn 3 i, out)            (* A "../" *)
  else if is_prefix [46%N; 47%N] i then (skipn 2 i, out)             (* A "./"  *)
  else if is_prefix [47%N; 46%N; 47%N] i then (skipn 2 i, out)       (* B "/./" *)
  else if beq i [47%N; 46%N] then ([47%N], out)                      (* B "/."  *)
  else if is_prefix [47%N; 46%N; 46%N; 47%N] i then (skipn 3 i, tl out) (* C "/../" *)
  else if beq i [47%N; 46%N; 46%N] then ([47%N], tl out)             (* C "/.." *)
  else if beq i [46%N] || beq i [46%N; 46%N] then ([], out)          (* D *)
  else let '(s, r) := first_seg i in (r, s :: out).                  (* E *)

Fixpoint rds_loop (fuel : nat) (i : bytes) (out : list bytes) : list bytes :=
  match fuel with
  | O => out
  | S f =>
      match i with
      | [] => out
      | _ => let '(i', out') := rds_step i out in rds_loop f i' out'
      end
  end.

Definition remove_dot_segments (p : bytes) : bytes :=
  concat (rev (rds_loop (S (length p)) p [])).

(* ---------- 5.2.3 merge ---------- *)
Fixpoint drop_last_seg (p : bytes) : bytes :=
  (* everything up to and including the right-most "/" ; [] if none *)
  match p with
  | [] => []
  | c :: p' =>
      let r := drop_last_seg p' in
      if N.eqb c 47 then c :: r
      else match r with [] => [] | _ => c :: r end
  end.

Definition merge (b : comps) (rpath : bytes) : bytes :=
  match c_auth b, c_path b with
  | Some _, [] => 47%N :: rpath
  | _, bp => drop_last_seg bp ++ rpath
  end.

(* ---------- 5.2.2 transform references (strict) ---------- *)
Definition resolve_comps (b r : comps) : comps :=
  match c_scheme r with
  | Some _ => Comps (c_scheme r) (c_auth r) (remove_dot_segments (c_path r)) (c_query r) (c_frag r)
  | None =>
      match c_auth r with
      | Some _ => Comps (c_scheme b) (c_auth r) (remove_dot_segments (c_path r)) (c_query r) (c_frag r)
      | None =>
          match c_path r with
          | [] => Comps (c_scheme b) (c_auth b) (c_path b)
                        (match c_query r with Some q => Some q | None => c_query b end) (c_frag r)
          | 47%N :: _ => Comps (c_scheme b) (c_auth b) (remove_dot_segments (c_path r)) (c_query r) (c_frag r)
          | _ => Comps (c_scheme b) (c_auth b) (remove_dot_segments (merge b (c_path r))) (c_query r) (c_frag r)
          end
      end
  end.

Definition resolve (base ref : bytes) : bytes :=
  recompose (resolve_comps (parse5 base) (parse5 ref)).

(* segments of a path, for stating "no dot segments" *)
Definition segments (p : bytes) : list bytes := split_on 47 p.
Definition is_dot_seg (s : bytes) : bool := beq s [46%N] || beq s [46%N; 46%N].
Definition no_dot_segments (p : bytes) : bool := negb (existsb is_dot_seg (segments p)).
Definition has_scheme (s : bytes) : bool := match c_scheme (parse5 s) with Some _ => true | None => false end.

(* Prefix.v — executable model of iri.PrefixManager (iri/prefix_manager.go).
   State mirrors the Go struct: [ordered] (slice) and [byp] (the map, as an
   association list keyed by prefix).  slices.SortFunc is modelled by a stable
   insertion sort on descending namespace length; the correspondence check only
   compares observables that do not depend on the order among equal lengths. *)
From RK Require Import Base.

Record mapping := Mk { pfx : bytes; ns : bytes }.

Record pm := PM { ordered : list mapping; byp : list mapping }.

Definition pm_empty : pm := PM [] [].

Fixpoint lookup (k : bytes) (l : list mapping) : option mapping :=
  match l with
  | [] => None
  | m :: l' => if beq (pfx m) k then Some m else lookup k l'
  end.

(* map assignment: replace the binding for the key or append *)
Fixpoint assoc_set (m : mapping) (l : list mapping) : list mapping :=
  match l with
  | [] => [m]
  | x :: l' => if beq (pfx x) (pfx m) then m :: l' else x :: assoc_set m l'
  end.

Fixpoint assoc_del (k : bytes) (l : list mapping) : list mapping :=
  match l with
  | [] => []
  | x :: l' => if beq (pfx x) k then l' else x :: assoc_del k l'
  end.

(* for i, existing := range ordered { if existing.Prefix == mapping.Prefix { ordered[i] = mapping; break } } *)
Fixpoint replace_first (m : mapping) (l : list mapping) : list mapping :=
  match l with
  | [] => []
  | x :: l' => if beq (pfx x) (pfx m) then m :: l' else x :: replace_first m l'
  end.

Definition add_one (st : pm * bool) (m : mapping) : pm * bool :=
  let '(p, added) := st in
  match lookup (pfx m) (byp p) with
  | Some prev =>
      if beq (ns prev) (ns m) then (p, added)
      else (PM (replace_first m (ordered p)) (assoc_set m (byp p)), true)
  | None => (PM (ordered p ++ [m]) (assoc_set m (byp p)), true)
  end.

Definition len_ge (a b : mapping) : bool := Nat.leb (length (ns b)) (length (ns a)).

Definition pm_add (p : pm) (ms : list mapping) : pm :=
  let '(p', added) := fold_left add_one ms (p, false) in
  if added then PM (isort len_ge (ordered p')) (byp p') else p'.

Definition del_one (st : list mapping * bool) (k : bytes) : list mapping * bool :=
  let '(b, deleted) := st in
  match lookup k b with
  | Some _ => (assoc_del k b, true)
  | None => (b, deleted)
  end.

Definition pm_del (p : pm) (ks : list bytes) : pm :=
  let '(b', deleted) := fold_left del_one ks (byp p, false) in
  if deleted
  then PM (filter (fun m => match lookup (pfx m) b' with Some _ => true | None => false end) (ordered p)) b'
  else p.

Fixpoint compact_in (l : list mapping) (v : bytes) : option (mapping * bytes) :=
  match l with
  | [] => None
  | m :: l' => if is_prefix (ns m) v then Some (m, skipn (length (ns m)) v) else compact_in l' v
  end.

(* CompactPrefix: (prefix, reference) *)
Definition pm_compact (p : pm) (v : bytes) : option (bytes * bytes) :=
  match compact_in (ordered p) v with
  | Some (m, r) => Some (pfx m, r)
  | None => None
  end.

Definition pm_expand (p : pm) (k r : bytes) : option bytes :=
  match lookup k (byp p) with
  | Some m => Some (ns m ++ r)
  | None => None
  end.

(* ---- histories over several managers (Clone creates a new one) ---- *)
Inductive pop :=
| OAdd (i : nat) (ms : list mapping)
| ODel (i : nat) (ks : list bytes)
| OClone (i : nat).

Fixpoint upd {A} (i : nat) (f : A -> A) (l : list A) : list A :=
  match l, i with
  | [], _ => []
  | x :: l', O => f x :: l'
  | x :: l', S j => x :: upd j f l'
  end.

Definition pstep (s : list pm) (o : pop) : list pm :=
  match o with
  | OAdd i ms => upd i (fun p => pm_add p ms) s
  | ODel i ks => upd i (fun p => pm_del p ks) s
  | OClone i => match nth_error s i with Some p => s ++ [p] | None => s end
  end.

Definition prun (ops : list pop) : list pm := fold_left pstep ops [pm_empty].

(* ---- abstract specification: last write wins, per manager ---- *)
Definition smap := bytes -> option bytes.
Definition sm_empty : smap := fun _ => None.
Definition sm_set (s : smap) (m : mapping) : smap :=
  fun k => if beq (pfx m) k then Some (ns m) else s k.
Definition sm_del (s : smap) (k0 : bytes) : smap :=
  fun k => if beq k0 k then None else s k.
Definition sstep (s : list smap) (o : pop) : list smap :=
  match o with
  | OAdd i ms => upd i (fun p => fold_left sm_set ms p) s
  | ODel i ks => upd i (fun p => fold_left sm_del ks p) s
  | OClone i => match nth_error s i with Some p => s ++ [p] | None => s end
  end.
Definition srun (ops : list pop) : list smap := fold_left sstep ops [sm_empty].

(* observable used by the correspondence check: sorted (prefix, ns) pairs *)
Definition mapping_le (a b : mapping) : bool :=
  match bcmp (pfx a) (pfx b) with
  | Lt => true | Gt => false | Eq => bleb (ns a) (ns b)
  end.
Definition pm_dump (p : pm) : list mapping := isort mapping_le (ordered p).
Definition ordered_lens (p : pm) : list nat := map (fun m => length (ns m)) (ordered p).

(* Relativize.v — model of iri.BaseIRI (iri/base_iri.go): index bookkeeping of
   NewBaseIRI and RelativizeIRI as coded, with Iri3986.resolve as the expander.
   Go's -1 sentinel is [None]. *)
From RK Require Import Base Iri3986.

Record base := Base {
  b_orig : bytes;
  b_root : option nat;       (* rootIndex *)
  b_dir : nat;               (* directoryIndex (meaningful when b_root is Some) *)
  b_res : nat;               (* resourceIndex *)
  b_query : option nat;      (* queryIndex *)
  b_frag : option nat        (* fragmentIndex *)
}.

Definition new_base (v : bytes) : base :=
  let '(bfrag, fo) := cut 35 v in
  let '(bquery, qo) := cut 63 bfrag in
  let abs := has_scheme v in
  Base v
       (if abs then Some (length (resolve v [47%N])) else None)
       (if abs then length (resolve v [46%N; 47%N]) else O)
       (length bquery)
       (match qo with Some _ => Some (length bquery) | None => None end)
       (match fo with Some _ => Some (length bfrag) | None => None end).

Definition byte_at (v : bytes) (i : nat) : option N := nth_error v i.
Definition is_byte (o : option N) (c : N) : bool := match o with Some x => N.eqb x c | None => false end.

(* relativizeIRI: the candidate spelling *)
Definition relativize_candidate (b : base) (v : bytes) : option bytes :=
  let lo := length (b_orig b) in
  if Nat.ltb lo (length v) && (match b_frag b with None => true | Some _ => false end) && is_byte (byte_at v lo) 35
  then Some (skipn lo v)
  else if Nat.ltb lo (length v) && (match b_query b with None => true | Some _ => false end) && is_byte (byte_at v lo) 63
  then Some (skipn lo v)
  else
    match b_root b with
    | None => None
    | Some root =>
        if Nat.ltb (length v) root || Nat.ltb lo root || negb (beq (firstn root (b_orig b)) (firstn root v)) then None
        else if beq (b_orig b) v then Some []
        else if Nat.ltb (b_res b) (length v) && is_byte (byte_at v (b_res b)) 35 then Some (skipn (b_dir b) v)
        else if Nat.ltb (b_res b) (length v) && is_byte (byte_at v (b_res b)) 63 then Some (skipn (b_res b) v)
        else if Nat.leb (b_dir b) (length v) && beq (firstn (b_dir b) (b_orig b)) (firstn (b_dir b) v)
        then Some (skipn (b_dir b) v)
        else Some (skipn (root - 1) v)
    end.

(* How the library expands a reference against this base (BaseIRI.Parse): RFC 3986
   resolution, except that the empty reference names the base itself including its
   fragment (RFC 3986 5.1 expects a base stripped of its fragment; BaseIRI keeps it). *)
Definition expand (b r : bytes) : bytes :=
  match r with [] => b | _ => resolve b r end.

(* RelativizeIRI: offer the candidate only if it resolves back to exactly v *)
Definition relativize (b : base) (v : bytes) : option bytes :=
  match relativize_candidate b v with
  | Some r => if beq (expand (b_orig b) r) v then Some r else None
  | None => None
  end.

(* RdfXml.v — the mapping RDF 1.1 XML Syntax (section 7) defines from an XML element tree to triples: node elements,
   property elements (resource, literal, empty, parseType Resource and Collection), property attributes, rdf:type,
   rdf:ID / rdf:nodeID / rdf:about with xml:base, xml:lang inheritance, rdf:datatype, rdf:li numbering, reification.
   The tree is namespace-resolved (names are namespace IRI ++ local name); XML tokenisation is not modelled.
   rdf:parseType="Literal" is outside this model. *)
From RK Require Import Base Iri3986.

Inductive xnode := XE (name : bytes) (attrs : list (bytes * bytes)) (children : list xnode) | XT (text : bytes).

Inductive rterm := RI (iri : bytes) | RB (gen : bool) (label : bytes) | RL (lex dt lang : bytes).   (* lang [] = none *)
Definition rtriple := (rterm * bytes * rterm)%type.

Definition RDFNS : bytes := s2b "http://www.w3.org/1999/02/22-rdf-syntax-ns#".
Definition XMLNS : bytes := s2b "http://www.w3.org/XML/1998/namespace".
Definition rdf (l : String.string) : bytes := RDFNS ++ s2b l.
Arguments rdf l%string.
Definition xsd_string_dt : bytes := s2b "http://www.w3.org/2001/XMLSchema#string".
Definition lang_string_dt : bytes := rdf "langString".

Fixpoint attr (k : bytes) (l : list (bytes * bytes)) : option bytes :=
  match l with [] => None | (a, v) :: t => if beq a k then Some v else attr k t end.

Record ctx := Ctx { c_base : bytes; c_lang : bytes }.

(* resolve a reference against the in-scope base (RFC 3986 5.2, model/Iri3986.v); the empty reference drops the fragment *)
Definition resolve (base ref : bytes) : bytes :=
  match base with [] => ref | _ => Iri3986.resolve base ref end.

Definition scope (c : ctx) (attrs : list (bytes * bytes)) : ctx :=
  let b := match attr (XMLNS ++ s2b "base") attrs with Some v => resolve (c_base c) v | None => c_base c end in
  let l := match attr (XMLNS ++ s2b "lang") attrs with Some v => v | None => c_lang c end in
  Ctx b l.

Definition lit (c : ctx) (lex : bytes) : rterm :=
  match c_lang c with [] => RL lex xsd_string_dt [] | l => RL lex lang_string_dt l end.

Definition is_ws (s : bytes) : bool := forallb (fun c => N.eqb c 32 || N.eqb c 9 || N.eqb c 10 || N.eqb c 13) s.

(* attributes which are syntax, not properties *)
Definition syntax_attr (k : bytes) : bool :=
  is_prefix XMLNS k || existsb (beq k) [rdf "about"; rdf "ID"; rdf "nodeID"; rdf "resource"; rdf "parseType"; rdf "datatype"; rdf "type"] ||
  is_prefix (s2b "xmlns") k.

Definition prop_attr_triples (c : ctx) (s : rterm) (attrs : list (bytes * bytes)) : list rtriple :=
  flat_map (fun kv =>
    if beq (fst kv) (rdf "type") then [(s, rdf "type", RI (resolve (c_base c) (snd kv)))]
    else if syntax_attr (fst kv) then []
    else [(s, fst kv, lit c (snd kv))]) attrs.

Definition has_prop_attrs (attrs : list (bytes * bytes)) : bool :=
  existsb (fun kv => beq (fst kv) (rdf "type") || negb (syntax_attr (fst kv))) attrs.

Definition elems (l : list xnode) : list xnode := filter (fun n => match n with XE _ _ _ => true | XT _ => false end) l.
Definition text_of (l : list xnode) : bytes := flat_map (fun n => match n with XT t => t | XE _ _ _ => [] end) l.

Definition gen_label (n : nat) : bytes := dec_print (N.of_nat n).

Definition reify (c : ctx) (attrs : list (bytes * bytes)) (s : rterm) (p : bytes) (o : rterm) : list rtriple :=
  match attr (rdf "ID") attrs with
  | Some id => let r := RI (resolve (c_base c) (35%N :: id)) in
               [(r, rdf "type", RI (rdf "Statement")); (r, rdf "subject", s); (r, rdf "predicate", RI p); (r, rdf "object", o)]
  | None => []
  end.

(* the property elements of one subject, in document order: pe is the property element production for that subject;
   li is the next rdf:li number, k the number of generated blank nodes so far *)
Fixpoint fold_props (pe : xnode -> nat -> nat -> option (list rtriple * nat * nat)) (l : list xnode) (li k : nat) (acc : list rtriple)
  : option (list rtriple * nat * nat) :=
  match l with
  | [] => Some (acc, li, k)
  | XT _ :: t => fold_props pe t li k acc
  | (XE _ _ _ as e) :: t =>
      match pe e li k with
      | Some (ts, li', k') => fold_props pe t li' k' (acc ++ ts)
      | None => None
      end
  end.

(* the node elements of a collection *)
Fixpoint fold_nodes (ne : xnode -> nat -> option (rterm * list rtriple * nat)) (l : list xnode) (k : nat) (subjects : list rterm) (acc : list rtriple)
  : option (list rterm * list rtriple * nat) :=
  match l with
  | [] => Some (subjects, acc, k)
  | XT _ :: t => fold_nodes ne t k subjects acc
  | (XE _ _ _ as e) :: t =>
      match ne e k with
      | Some (ns, ts, k') => fold_nodes ne t k' (subjects ++ [ns]) (acc ++ ts)
      | None => None
      end
  end.

Fixpoint link_cells (cs ss : list rterm) : list rtriple :=
  match cs, ss with
  | c1 :: ct, s1 :: st =>
      (c1, rdf "first", s1) :: (c1, rdf "rest", match ct with [] => RI (rdf "nil") | c2 :: _ => c2 end) :: link_cells ct st
  | _, _ => []
  end.

(* state: number of generated blank nodes so far *)
Section Map.

(* node element: returns its subject, the triples, the counter *)
Fixpoint node_elt (fuel : nat) (c0 : ctx) (n : xnode) (k : nat) : option (rterm * list rtriple * nat) :=
  match fuel with
  | O => None
  | S f =>
      match n with
      | XT _ => None
      | XE name attrs children =>
          let c := scope c0 attrs in
          let '(s, k1) :=
            match attr (rdf "ID") attrs, attr (rdf "nodeID") attrs, attr (rdf "about") attrs with
            | Some id, _, _ => (RI (resolve (c_base c) (35%N :: id)), k)
            | None, Some l, _ => (RB false l, k)
            | None, None, Some a => (RI (resolve (c_base c) a), k)
            | None, None, None => (RB true (gen_label k), S k)
            end in
          let typed := if beq name (rdf "Description") then [] else [(s, rdf "type", RI name)] in
          let pa := prop_attr_triples c s attrs in
          (* property elements, rdf:li counter from 1 *)
          match fold_props (prop_elt f c s) children 1 k1 [] with
          | Some (ts, _, k') => Some (s, typed ++ pa ++ ts, k')
          | None => None
          end
      end
  end
(* property element of subject s: returns triples, the next rdf:li number, the counter *)
with prop_elt (fuel : nat) (c0 : ctx) (s : rterm) (e : xnode) (li : nat) (k : nat) : option (list rtriple * nat * nat) :=
  match fuel with
  | O => None
  | S f =>
      match e with
      | XT _ => None
      | XE name attrs children =>
          let c := scope c0 attrs in
          let '(p, li') := if beq name (rdf "li") then (RDFNS ++ 95%N :: dec_print (N.of_nat li), S li) else (name, li) in
          match attr (rdf "parseType") attrs with
          | Some pt =>
              if beq pt (s2b "Resource") then
                let b := RB true (gen_label k) in
                match fold_props (prop_elt f c b) children 1 (S k) [] with
                | Some (ts, _, k') => Some ((s, p, b) :: reify c attrs s p b ++ ts, li', k')
                | None => None
                end
              else if beq pt (s2b "Collection") then
                match fold_nodes (node_elt f c) children k [] [] with
                | Some (subjects, ts, k') =>
                    (* cells: one fresh blank node per item, allocated after the items *)
                    let cells := map (fun i => RB true (gen_label (k' + i))) (seq 0 (length subjects)) in
                    let head := match cells with [] => RI (rdf "nil") | h :: _ => h end in
                    Some ((s, p, head) :: reify c attrs s p head ++ ts ++ link_cells cells subjects, li', k' + length subjects)
                | None => None
                end
              else None     (* parseType="Literal" and unknown values: outside this model *)
          | None =>
              match elems children with
              | [ne] =>
                  (* resourcePropertyElt *)
                  match node_elt f c ne k with
                  | Some (o, ts, k') => Some ((s, p, o) :: reify c attrs s p o ++ ts, li', k')
                  | None => None
                  end
              | _ :: _ :: _ => None
              | [] =>
                  let txt := text_of children in
                  match txt, has_prop_attrs attrs || (match attr (rdf "datatype") attrs with Some _ => true | None => false end),
                        attr (rdf "resource") attrs, attr (rdf "nodeID") attrs with
                  | [], false, None, None =>
                      (* 7.2.21: no attributes, or only rdf:ID: the empty literal with the language in scope *)
                      let o := lit c [] in
                      Some ((s, p, o) :: reify c attrs s p o, li', k)
                  | [], _, res, nid =>
                      (* 7.2.21 otherwise (also with rdf:datatype alone, by the letter of the production): a resource *)
                      (* emptyPropertyElt *)
                      let '(o, k') := match res, nid with
                                      | Some r, _ => (RI (resolve (c_base c) r), k)
                                      | None, Some l => (RB false l, k)
                                      | None, None => (RB true (gen_label k), S k)
                                      end in
                      Some ((s, p, o) :: reify c attrs s p o ++ prop_attr_triples c o attrs, li', k')
                  | _, _, _, _ =>
                      (* literalPropertyElt *)
                      let o := match attr (rdf "datatype") attrs with Some dt => RL txt dt [] | None => lit c txt end in
                      Some ((s, p, o) :: reify c attrs s p o, li', k)
                  end
              end
          end
      end
  end.

End Map.

Fixpoint xsize (n : xnode) : nat :=
  match n with
  | XT _ => 1
  | XE _ _ ch => S (fold_right (fun c a => xsize c + a) 0 ch)
  end.

(* the document: rdf:RDF with node elements, or a single node element *)
Definition rdfxml_doc (base : bytes) (root : xnode) : option (list rtriple) :=
  let c := Ctx base [] in
  let fuel := S (xsize root) in
  match root with
  | XE name attrs children =>
      if beq name (rdf "RDF") then
        let c' := scope c attrs in
        match fold_nodes (node_elt fuel c') children 0 [] [] with
        | Some (_, ts, _) => Some ts
        | None => None
        end
      else match node_elt fuel c root 0 with Some (_, ts, _) => Some ts | None => None end
  | XT _ => None
  end.

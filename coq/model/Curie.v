(* Curie.v — model of iri/curie: ParseCURIE, MappingScope.CompactCURIE / ExpandCURIE *)
From RK Require Import Base Prefix.

Record curie := Curie { cu_safe : bool; cu_default : bool; cu_prefix : bytes; cu_ref : bytes }.

Record scope := Scope { sc_safe : bool; sc_default : bytes; sc_default_empty : bool; sc_pm : pm }.

Fixpoint last_opt (l : bytes) : option N :=
  match l with [] => None | [x] => Some x | _ :: l' => last_opt l' end.

Definition parse_curie (v : bytes) : option curie :=
  match v with
  | [] => None
  | c :: _ =>
      let '(safe, body) :=
        if N.eqb c 91 && (match last_opt v with Some 93%N => true | _ => false end)
        then (true, removelast (tl v)) else (false, v) in
      match cut 58 body with
      | (p, Some r) => Some (Curie safe false p r)
      | (p, None) => Some (Curie safe true [] p)
      end
  end.

Definition compact_curie (s : scope) (v : bytes) : curie :=
  match pm_compact (sc_pm s) v with
  | None => Curie (sc_safe s) false [] v
  | Some (p, r) =>
      if beq p (sc_default s) && (negb (Nat.eqb (length p) 0) || sc_default_empty s)
      then Curie (sc_safe s) true [] r
      else Curie (sc_safe s) false p r
  end.

Definition expand_curie (s : scope) (c : curie) : option bytes :=
  let p := if cu_default c && (negb (Nat.eqb (length (sc_default s)) 0) || sc_default_empty s)
           then sc_default s else cu_prefix c in
  pm_expand (sc_pm s) p (cu_ref c).

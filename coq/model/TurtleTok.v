(* TurtleTok.v — the token level of the Turtle encoder and decoder, over runes:
   - format_PN_LOCAL (encoding/turtle/format_prefix_local_name.go) and the PN_LOCAL part of
     producePrefixedName (decoder_produce_PrefixedName.go),
   - formatLiteralLexicalForm (format_literal.go) and produceString (decoder_produce_string.go),
   - literalShorthandDatatype (format_literal.go) and produceNumericLiteral (decoder_produce_NumericLiteral.go),
   - formatIRI (format_iri.go) and produceIRIREF (decoder_produce_iriref.go).
   A lexer takes the runes after the token's first delimiter and returns the decoded value and the unread rest
   (None = syntax error or input ended inside the token). *)
From RK Require Import Base Utf8 Runes NQ.

Definition memN (r : N) (l : list N) : bool := existsb (N.eqb r) l.

(* ---------- character classes (encoding/turtle/internal/rune_util.go) ---------- *)
Definition pn_chars_u (r : N) : bool := pn_chars_base r || N.eqb r 95.
Definition pn_chars (r : N) : bool :=
  pn_chars_u r || N.eqb r 45 || is_digit r || N.eqb r 183 || rng 768 879 r || rng 8255 8256 r.
Definition is_hex (r : N) : bool := match hexv r with Some _ => true | None => false end.

(* PN_LOCAL_ESC as the decoder accepts it:  _ ~ . - ! $ & ' ( ) * + , ; = / ? # @ %  *)
Definition local_esc (r : N) : bool := memN r [95; 126; 46; 45; 33; 36; 38; 39; 40; 41; 42; 43; 44; 59; 61; 47; 63; 35; 64; 37]%N.
(* the characters the encoder escapes wherever they stand:  ~ ! $ & ' ( ) * + , ; = / ? # @ %  *)
Definition fmt_esc_set (r : N) : bool := memN r [126; 33; 36; 38; 39; 40; 41; 42; 43; 44; 59; 61; 47; 63; 35; 64; 37]%N.

(* ---------- format_PN_LOCAL ---------- *)
Inductive lmode := LNone | LEsc | LPct | LInvalid.

(* prefixLocalNameMustEscapeRune(r, pos, length) with first := pos == 0, last := pos == length-1 *)
Definition local_mode (r : N) (first last : bool) : lmode :=
  if N.eqb r 46 then (if first || last then LEsc else LNone)
  else if N.eqb r 58 || pn_chars_u r || is_digit r then LNone
  else if N.eqb r 45 then (if first then LEsc else LNone)
  else if pn_chars r then (if first then LInvalid else LNone)
  else if fmt_esc_set r then LEsc
  else if N.eqb r 91 || N.eqb r 93 then LInvalid
  else if (127 <? r)%N then LInvalid
  else LPct.

Definition local_unit_of (r : N) (m : lmode) : list N :=
  match m with
  | LNone => [r]
  | LEsc => [92; r]%N
  | LPct => [37%N; hex_upper ((r / 16) mod 16); hex_upper (r mod 16)]
  | LInvalid => []
  end.

Fixpoint fmt_local_go (l : list N) (first : bool) : option (list N) :=
  match l with
  | [] => Some []
  | c :: t =>
      let last := match t with [] => true | _ => false end in
      match local_mode c first last with
      | LInvalid => None
      | m => match fmt_local_go t false with
             | Some e => Some (local_unit_of c m ++ e)
             | None => None
             end
      end
  end.
Definition fmt_local (l : list N) : option (list N) := fmt_local_go l true.

(* ---------- PN_LOCAL in producePrefixedName ---------- *)
Inductive lstep := SEnd | SErr | SOne (dec raw rest : list N).

Definition local_unit (first : bool) (inp : list N) : lstep :=
  match inp with
  | [] => SEnd
  | c :: r =>
      if (if first then pn_chars_u c || N.eqb c 58 || is_digit c else pn_chars c || N.eqb c 46 || N.eqb c 58)
      then SOne [c] [c] r
      else if N.eqb c 37 then
        match r with
        | h1 :: h2 :: r' => if is_hex h1 && is_hex h2 then SOne [c; h1; h2] [c; h1; h2] r' else SErr
        | _ => SErr
        end
      else if N.eqb c 92 then
        match r with
        | e :: r' => if local_esc e then SOne [e] [c; e] r' else SErr
        | [] => SErr
        end
      else SEnd
  end.

(* decoded and raw runes are accumulated in reverse *)
Fixpoint local_loop (fuel : nat) (first : bool) (inp dec raw : list N) : option (list N * list N * list N) :=
  match fuel with
  | O => None
  | S f =>
      match local_unit first inp with
      | SEnd => Some (dec, raw, inp)
      | SErr => None
      | SOne d w r => local_loop f false r (rev d ++ dec) (rev w ++ raw)
      end
  end.

(* PN_LOCAL_DONE: trailing unescaped '.' are handed back *)
Fixpoint local_trim (fuel : nat) (dec raw rest : list N) : list N * list N * list N :=
  match fuel with
  | O => (dec, raw, rest)
  | S f =>
      match raw with
      | c :: raw' =>
          if N.eqb c 46 then
            match raw' with
            | p :: _ => if N.eqb p 92 then (dec, raw, rest) else local_trim f (tl dec) raw' (46%N :: rest)
            | [] => local_trim f (tl dec) raw' (46%N :: rest)
            end
          else (dec, raw, rest)
      | [] => (dec, raw, rest)
      end
  end.

Definition lex_local (inp : list N) : option (list N * list N) :=
  match local_loop (S (length inp)) true inp [] [] with
  | None => None
  | Some (d, w, r) => let '(d', _, r') := local_trim (length w) d w r in Some (rev d', r')
  end.

(* ---------- formatLiteralLexicalForm ---------- *)
Definition str_mode (r : N) (ascii : bool) : emode :=
  if N.eqb r 34 || N.eqb r 92 || N.eqb r 10 || N.eqb r 13 then EEchar
  else if ascii then (if (65535 <? r)%N then EU8 else if (127 <? r)%N then EU4 else ENone)
  else ENone.

Definition str_echar (r : N) : N :=
  if N.eqb r 9 then 116 else if N.eqb r 8 then 98 else if N.eqb r 10 then 110 else if N.eqb r 13 then 114
  else if N.eqb r 12 then 102 else r.

Definition fmt_str_rune (ascii : bool) (r : N) : list N :=
  match str_mode r ascii with
  | ENone => [r]
  | EEchar => [92%N; str_echar r]
  | EU4 => uchar4 r
  | EU8 => uchar8 r
  end.

(* the text between and including the quotes *)
Definition fmt_string (ascii : bool) (s : list N) : list N := 34%N :: flat_map (fmt_str_rune ascii) s ++ [34%N].

(* ---------- decodeUCHAR4 / decodeUCHAR8 over plain runes ---------- *)
Definition uchar4_n (inp : list N) : option (N * list N) :=
  match inp with
  | a :: b :: c :: d :: rest =>
      match hexv a, hexv b, hexv c, hexv d with
      | Some x, Some y, Some z, Some w => Some ((x * 4096 + y * 256 + z * 16 + w)%N, rest)
      | _, _, _, _ => None
      end
  | _ => None
  end.

Definition uchar8_n (inp : list N) : option (N * list N) :=
  match inp with
  | a :: b :: c :: d :: e :: f :: g :: h :: rest =>
      match hexv a, hexv b, hexv c, hexv d, hexv e, hexv f, hexv g, hexv h with
      | Some x0, Some x1, Some x2, Some x3, Some x4, Some x5, Some x6, Some x7 =>
          if N.eqb x0 0 && N.eqb x1 0 && (x2 <=? 1)%N
          then Some ((x2 * 1048576 + x3 * 65536 + x4 * 4096 + x5 * 256 + x6 * 16 + x7)%N, rest)
          else None
      | _, _, _, _, _, _, _, _ => None
      end
  | _ => None
  end.

(* ---------- produceString: q is the quote rune (34 or 39), the runes follow the first quote ---------- *)
Definition echar_val (r : N) : option N :=
  if N.eqb r 116 then Some 9%N else if N.eqb r 98 then Some 8%N else if N.eqb r 110 then Some 10%N
  else if N.eqb r 114 then Some 13%N else if N.eqb r 102 then Some 12%N
  else if N.eqb r 34 || N.eqb r 39 || N.eqb r 92 then Some r else None.

Fixpoint str_body (fuel : nat) (q : N) (triple : bool) (inp dec : list N) : option (list N * list N) :=
  match fuel with
  | O => None
  | S f =>
      match inp with
      | [] => None
      | c :: r =>
          if N.eqb c q then
            if negb triple then Some (rev dec, r)
            else match r with
                 | c1 :: r1 =>
                     if N.eqb c1 q then
                       match r1 with
                       | c2 :: r2 => if N.eqb c2 q then Some (rev dec, r2) else str_body f q triple r (c :: dec)
                       | [] => None
                       end
                     else str_body f q triple r (c :: dec)
                 | [] => None
                 end
          else if N.eqb c 34 || N.eqb c 39 then str_body f q triple r (c :: dec)
          else if N.eqb c 92 then
            match r with
            | [] => None
            | e :: r' =>
                if N.eqb e 117 then match uchar4_n r' with Some (v, r'') => str_body f q triple r'' (sanitize v :: dec) | None => None end
                else if N.eqb e 85 then match uchar8_n r' with Some (v, r'') => str_body f q triple r'' (sanitize v :: dec) | None => None end
                else match echar_val e with Some v => str_body f q triple r' (v :: dec) | None => None end
            end
          else str_body f q triple r (c :: dec)
      end
  end.

(* after the opening quote: "" followed by a third quote opens a long string; "" followed by anything else, or by
   the end of input, is the empty string *)
Definition lex_string (q : N) (inp : list N) : option (list N * list N) :=
  match inp with
  | [] => None
  | c :: r =>
      if N.eqb c q then
        match r with
        | [] => Some ([], [])
        | c1 :: r1 => if N.eqb c1 q then str_body (S (length r1)) q true r1 [] else Some ([], r)
        end
      else str_body (S (length inp)) q false inp []
  end.

(* ---------- literalShorthandDatatype ---------- *)
Inductive numkind := KInteger | KDecimal | KDouble.

Fixpoint span_digits (l : list N) : list N * list N :=
  match l with
  | c :: r => if is_digit c then let '(d, r') := span_digits r in (c :: d, r') else ([], l)
  | [] => ([], [])
  end.

Definition is_sign (c : N) : bool := N.eqb c 43 || N.eqb c 45.
Definition is_e (c : N) : bool := N.eqb c 101 || N.eqb c 69.

Definition shorthand_kind (l : list N) : option numkind :=
  let l1 := match l with c :: r => if is_sign c then r else l | [] => l end in
  let '(ds, l2) := span_digits l1 in
  let '(hasdot, fs, l3) := match l2 with
                           | c :: r => if N.eqb c 46 then let '(f, r') := span_digits r in (true, f, r') else (false, [], l2)
                           | [] => (false, [], l2)
                           end in
  match l3 with
  | c :: r =>
      if is_e c then
        let r1 := match r with s :: r' => if is_sign s then r' else r | [] => r end in
        let '(es, r2) := span_digits r1 in
        match es, r2 with
        | _ :: _, [] => match ds, fs with [], [] => None | _, _ => Some KDouble end
        | _, _ => None
        end
      else None
  | [] =>
      if hasdot then match fs with [] => None | _ => Some KDecimal end
      else match ds with [] => None | _ => Some KInteger end
  end.

(* ---------- produceNumericLiteral: the state machine, then the final checks ---------- *)
Inductive nstate := NSign | NInt | NExpSign | NExp.

(* scan: returns the consumed runes (reversed), the grammar token so far, the rest; None = error *)
Fixpoint num_scan (st : nstate) (k : option numkind) (inp acc : list N) {struct inp} : option (list N * option numkind * list N) :=
  match inp with
  | [] => match st with NExpSign => None | _ => Some (acc, k, []) end
  | c :: r =>
      match st with
      | NSign =>      (* SIGN_DONE: digits of the integer part *)
          if is_digit c then num_scan NSign k r (c :: acc)
          else if N.eqb c 46 then num_scan NInt (Some KDecimal) r (c :: acc)
          else if is_e c then num_scan NExpSign (Some KDouble) r (c :: acc)
          else Some (acc, k, inp)
      | NInt =>       (* INTEGER_DONE: digits of the fraction *)
          if is_digit c then num_scan NInt k r (c :: acc)
          else if is_e c then num_scan NExpSign (Some KDouble) r (c :: acc)
          else Some (acc, k, inp)
      | NExpSign =>   (* DECIMAL_DONE: a sign or a digit must follow the 'e' *)
          if is_sign c || is_digit c then num_scan NExp k r (c :: acc) else None
      | NExp =>       (* EXPONENT_SIGN_DONE *)
          if is_digit c then num_scan NExp k r (c :: acc) else Some (acc, k, inp)
      end
  end.

(* r0 is the first rune; inp the runes after it *)
Definition lex_numeric (r0 : N) (inp : list N) : option (numkind * list N * list N) :=
  let start :=
    if is_sign r0 || is_digit r0 then num_scan NSign None inp [r0]
    else if N.eqb r0 46 then num_scan NInt (Some KDecimal) inp [r0]
    else None in
  match start with
  | None => None
  | Some (acc, k, rest) =>
      match acc with
      | [] => None
      | c :: acc' =>
          let '(acc1, k1, rest1, ok) :=
            if N.eqb c 46 then (acc', Some KInteger, 46%N :: rest, true)
            else if is_sign c || is_e c then (acc, k, rest, false)
            else (acc, k, rest, true) in
          if negb ok then None
          else
            let k2 := match k1 with None => KInteger | Some x => x end in
            let tok := rev acc1 in
            match shorthand_kind tok with      (* isNumericLiteralLexicalForm *)
            | Some _ => Some (k2, tok, rest1)
            | None => None
            end
      end
  end.

(* ---------- formatIRI / produceIRIREF ---------- *)
Definition iri_mode_t (r : N) (ascii : bool) : emode :=
  if (r <=? 32)%N then EU4
  else if memN r [60; 62; 34; 123; 125; 124; 94; 96; 92]%N then EU4
  else if ascii then (if (65535 <? r)%N then EU8 else if (127 <? r)%N then EU4 else ENone)
  else ENone.

Definition fmt_iri_rune (ascii : bool) (r : N) : list N :=
  match iri_mode_t r ascii with
  | EU4 => uchar4 r
  | EU8 => uchar8 r
  | _ => [r]
  end.

(* the text between the angle brackets *)
Definition fmt_iri (ascii : bool) (s : list N) : list N := flat_map (fmt_iri_rune ascii) s.

(* after '<' *)
Fixpoint iriref_body (fuel : nat) (inp dec : list N) : option (list N * list N) :=
  match fuel with
  | O => None
  | S f =>
      match inp with
      | [] => None
      | c :: r =>
          if N.eqb c 62 then Some (rev dec, r)
          else if N.eqb c 92 then
            match r with
            | [] => None
            | e :: r' =>
                if N.eqb e 117 then match uchar4_n r' with Some (v, r'') => iriref_body f r'' (sanitize v :: dec) | None => None end
                else if N.eqb e 85 then match uchar8_n r' with Some (v, r'') => iriref_body f r'' (sanitize v :: dec) | None => None end
                else None
            end
          else if (c <=? 32)%N || memN c [60; 34; 123; 125; 124; 94; 96]%N then None
          else iriref_body f r (c :: dec)
      end
  end.
Definition lex_iriref (inp : list N) : option (list N * list N) := iriref_body (S (length inp)) inp [].

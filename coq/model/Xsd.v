(* Xsd.v — ontology/xsd: white space processing (xsdutil.WhiteSpaceCollapse), and the mapping functions of the
   boolean, integer-family and binary datatypes (xsdtype.MapBoolean, MapInteger .. MapUnsignedByte, MapHexBinary)
   with Go's strconv.ParseInt / ParseUint written out, including their 64-bit overflow guards.
   Strings are byte lists. *)
From RK Require Import Base.

(* ---------- xsdutil.WhiteSpaceCollapse ---------- *)
Definition ws_replace (s : bytes) : bytes :=
  map (fun c => if N.eqb c 9 || N.eqb c 10 || N.eqb c 13 then 32%N else c) s.

(* regexp ` +` -> " " *)
Fixpoint squeeze (s : bytes) : bytes :=
  match s with
  | c :: t =>
      if N.eqb c 32 then
        match t with
        | c2 :: _ => if N.eqb c2 32 then squeeze t else c :: squeeze t
        | [] => [c]
        end
      else c :: squeeze t
  | [] => []
  end.

Fixpoint trim_left (s : bytes) : bytes :=
  match s with c :: t => if N.eqb c 32 then trim_left t else s | [] => [] end.
Definition trim_right (s : bytes) : bytes := rev (trim_left (rev s)).

Definition ws_collapse (s : bytes) : bytes := trim_right (trim_left (squeeze (ws_replace s))).

(* ---------- strconv.ParseUint(s, 10, bitSize) ---------- *)
Definition is_dig (c : N) : bool := (48 <=? c)%N && (c <=? 57)%N.
Definition two64 : N := 18446744073709551616.
Definition cutoff64 : N := 1844674407370955162.    (* maxUint64/10 + 1 *)

Inductive perr := ESyntax | ERange.

(* the loop over the digits; n is the value so far *)
Fixpoint parse_uint_loop (maxval : N) (ds : bytes) (n : N) : N + perr :=
  match ds with
  | [] => inl n
  | c :: t =>
      if negb (is_dig c) then inr ESyntax
      else if (cutoff64 <=? n)%N then inr ERange              (* n*base overflows *)
      else
        let m := (n * 10)%N in
        let n1 := ((m + (c - 48)) mod two64)%N in             (* uint64 addition wraps *)
        if (n1 <? m)%N || (maxval <? n1)%N then inr ERange
        else parse_uint_loop maxval t n1
  end.

(* Go reports a syntax error found anywhere in the string in preference to a range error found earlier? No: it
   returns at the first offending character, whichever kind. Both are errors for the callers modelled here. *)
Definition parse_uint (bits : N) (s : bytes) : N + perr :=
  match s with
  | [] => inr ESyntax
  | _ => parse_uint_loop (2 ^ bits - 1)%N s 0%N
  end.

(* strconv.ParseInt(s, 10, bitSize) *)
Definition parse_int (bits : N) (s : bytes) : Z + perr :=
  match s with
  | [] => inr ESyntax
  | c :: t =>
      let neg := N.eqb c 45 in
      let body := if N.eqb c 43 || N.eqb c 45 then t else s in
      match parse_uint bits body with
      | inr e => inr e
      | inl un =>
          let cutoff := (2 ^ (bits - 1))%N in
          if negb neg && (cutoff <=? un)%N then inr ERange
          else if neg && (cutoff <? un)%N then inr ERange
          else inl (if neg then (- Z.of_N un)%Z else Z.of_N un)
      end
  end.

(* ---------- the Map functions ---------- *)
Definition map_signed (bits : N) (s : bytes) : option Z :=
  match parse_int bits (ws_collapse s) with inl v => Some v | inr _ => None end.
Definition map_unsigned (bits : N) (s : bytes) : option Z :=
  match parse_uint bits (ws_collapse s) with inl v => Some (Z.of_N v) | inr _ => None end.

(* strconv.FormatInt / FormatUint, base 10 *)
Definition canon_int (v : Z) : bytes := decz_print v.

Definition map_boolean (s : bytes) : option bool :=
  let c := ws_collapse s in
  if beq c (s2b "true") || beq c (s2b "1") then Some true
  else if beq c (s2b "false") || beq c (s2b "0") then Some false
  else None.
Definition canon_boolean (b : bool) : bytes := if b then s2b "true" else s2b "false".

Definition is_hexdig (c : N) : bool := is_dig c || ((65 <=? c)%N && (c <=? 70)%N) || ((97 <=? c)%N && (c <=? 102)%N).
Fixpoint hex_pairs (s : bytes) : bool :=
  match s with
  | [] => true
  | a :: b :: t => is_hexdig a && is_hexdig b && hex_pairs t
  | [_] => false
  end.
(* the value keeps the collapsed lexical form *)
Definition map_hexbinary (s : bytes) : option bytes :=
  let c := ws_collapse s in if hex_pairs c then Some c else None.

(* ---------- the lexical spaces, as the XML Schema grammar states them ---------- *)
Definition all_digits_b (s : bytes) : bool := match s with [] => false | _ => forallb is_dig s end.

(* [+-]?[0-9]+ *)
Definition int_lexical (s : bytes) : bool :=
  match s with
  | c :: t => if N.eqb c 43 || N.eqb c 45 then all_digits_b t else all_digits_b s
  | [] => false
  end.

Fixpoint digits_value (s : bytes) (acc : N) : N :=
  match s with c :: t => digits_value t (acc * 10 + (c - 48))%N | [] => acc end.

Definition int_value (s : bytes) : Z :=
  match s with
  | c :: t => if N.eqb c 45 then (- Z.of_N (digits_value t 0))%Z
              else if N.eqb c 43 then Z.of_N (digits_value t 0) else Z.of_N (digits_value s 0)
  | [] => 0%Z
  end.

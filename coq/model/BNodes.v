(* BNodes.v — blank node factories, string factories, label providers and mappers
   (rdf/blank_node*.go, rdf/blanknodes/*.go) as a state machine of atomic steps.
   One step = one critical section (mutex.Lock..Unlock) or one atomic.Int64.Add, so
   an execution of N goroutines is a list of steps in some interleaved order. *)
From RK Require Import Base.

(* identifier values: bnDefault{v}, bn{v, s}, bnString{v, s}; the scope pointer is
   the index of the owning factory *)
Inductive bid :=
| BDef (v : N)
| BFac (f : nat) (v : N)
| BStr (sf : nat) (l : bytes).

Definition bid_eqb (a b : bid) : bool :=
  match a, b with
  | BDef v, BDef w => N.eqb v w
  | BFac f v, BFac g w => Nat.eqb f g && N.eqb v w
  | BStr f l, BStr g m => Nat.eqb f g && beq l m
  | _, _ => false
  end.

Record provider := Prov { p_known : list (bid * N); p_next : N }.
Record uprovider := UProv { u_known : list (bid * nat); u_draws : nat }.  (* value = k-th UUID drawn from this provider's reader *)
Record mapper := Mapper { m_fac : nat; m_known : list (bid * bid) }.

Record world := World {
  w_def : N;                 (* counter of DefaultBlankNodeFactory *)
  w_facs : list N;           (* counters of NewBlankNodeFactory() instances *)
  w_sfacs : list nat;        (* string factory -> index of its anonymous factory *)
  w_provs : list provider;
  w_uprovs : list uprovider;
  w_maps : list mapper;
  w_nodes : list bid         (* every node handed out so far, in order *)
}.

Definition world0 : world := World 0 [] [] [] [] [] [].

(* factory reference: None = the default factory *)
Inductive op :=
| ONewFactory
| ONewStringFactory
| ONewProvider
| ONewUProvider
| ONewMapper (f : option nat)
| OBlank (f : option nat)
| OStrBlank (sf : nat) (l : bytes)   (* NewStringBlankNode *)
| OStrAnon (sf : nat)                (* StringFactory.NewBlankNode *)
| OGet (p : nat) (k : nat)           (* GetBlankNodeString of the k-th node handed out *)
| OGetU (p : nat) (k : nat)
| OMap (m : nat) (k : nat).

Inductive out :=
| RNone
| RNode (b : bid)
| RLabel (n : N)
| RUuid (k : nat)
| RBad.                               (* reference to something that does not exist *)

Fixpoint assoc_bid {A} (k : bid) (l : list (bid * A)) : option A :=
  match l with
  | [] => None
  | (k', v) :: l' => if bid_eqb k' k then Some v else assoc_bid k l'
  end.

Fixpoint set_nth {A} (i : nat) (x : A) (l : list A) : list A :=
  match l, i with
  | [], _ => []
  | _ :: l', O => x :: l'
  | y :: l', S j => y :: set_nth j x l'
  end.

Definition give (w : world) (b : bid) : world :=
  World (w_def w) (w_facs w) (w_sfacs w) (w_provs w) (w_uprovs w) (w_maps w) (w_nodes w ++ [b]).

(* atomic.Int64.Add(1) on a factory *)
Definition fresh (w : world) (f : option nat) : option (world * bid) :=
  match f with
  | None =>
      let v := (w_def w + 1)%N in
      Some (give (World v (w_facs w) (w_sfacs w) (w_provs w) (w_uprovs w) (w_maps w) (w_nodes w)) (BDef v), BDef v)
  | Some i =>
      match nth_error (w_facs w) i with
      | None => None
      | Some c =>
          let v := (c + 1)%N in
          Some (give (World (w_def w) (set_nth i v (w_facs w)) (w_sfacs w) (w_provs w) (w_uprovs w) (w_maps w) (w_nodes w)) (BFac i v),
                BFac i v)
      end
  end.

Definition step (w : world) (o : op) : world * out :=
  match o with
  | ONewFactory =>
      (World (w_def w) (w_facs w ++ [0%N]) (w_sfacs w) (w_provs w) (w_uprovs w) (w_maps w) (w_nodes w), RNone)
  | ONewStringFactory =>
      (World (w_def w) (w_facs w ++ [0%N]) (w_sfacs w ++ [length (w_facs w)]) (w_provs w) (w_uprovs w) (w_maps w) (w_nodes w), RNone)
  | ONewProvider =>
      (World (w_def w) (w_facs w) (w_sfacs w) (w_provs w ++ [Prov [] 0]) (w_uprovs w) (w_maps w) (w_nodes w), RNone)
  | ONewUProvider =>
      (World (w_def w) (w_facs w) (w_sfacs w) (w_provs w) (w_uprovs w ++ [UProv [] 0]) (w_maps w) (w_nodes w), RNone)
  | ONewMapper f =>
      match f with
      | Some i => if Nat.ltb i (length (w_facs w))
                  then (World (w_def w) (w_facs w) (w_sfacs w) (w_provs w) (w_uprovs w) (w_maps w ++ [Mapper (S i) []]) (w_nodes w), RNone)
                  else (w, RBad)
      | None => (World (w_def w) (w_facs w) (w_sfacs w) (w_provs w) (w_uprovs w) (w_maps w ++ [Mapper O []]) (w_nodes w), RNone)
      end
  | OBlank f =>
      match fresh w f with Some (w', b) => (w', RNode b) | None => (w, RBad) end
  | OStrAnon sf =>
      match nth_error (w_sfacs w) sf with
      | Some a => match fresh w (Some a) with Some (w', b) => (w', RNode b) | None => (w, RBad) end
      | None => (w, RBad)
      end
  | OStrBlank sf l =>
      match nth_error (w_sfacs w) sf with
      | Some a =>
          match l with
          | [] => match fresh w (Some a) with Some (w', b) => (w', RNode b) | None => (w, RBad) end
          | _ => (give w (BStr sf l), RNode (BStr sf l))
          end
      | None => (w, RBad)
      end
  | OGet p k =>
      match nth_error (w_provs w) p, nth_error (w_nodes w) k with
      | Some pr, Some b =>
          match assoc_bid b (p_known pr) with
          | Some n => (w, RLabel n)
          | None =>
              let pr' := Prov ((b, p_next pr) :: p_known pr) (p_next pr + 1)%N in
              (World (w_def w) (w_facs w) (w_sfacs w) (set_nth p pr' (w_provs w)) (w_uprovs w) (w_maps w) (w_nodes w), RLabel (p_next pr))
          end
      | _, _ => (w, RBad)
      end
  | OGetU p k =>
      match nth_error (w_uprovs w) p, nth_error (w_nodes w) k with
      | Some pr, Some b =>
          match assoc_bid b (u_known pr) with
          | Some n => (w, RUuid n)
          | None =>
              let pr' := UProv ((b, u_draws pr) :: u_known pr) (S (u_draws pr)) in
              (World (w_def w) (w_facs w) (w_sfacs w) (w_provs w) (set_nth p pr' (w_uprovs w)) (w_maps w) (w_nodes w), RUuid (u_draws pr))
          end
      | _, _ => (w, RBad)
      end
  | OMap m k =>
      match nth_error (w_maps w) m, nth_error (w_nodes w) k with
      | Some mp, Some b =>
          match assoc_bid b (m_known mp) with
          | Some b' => (give w b', RNode b')
          | None =>
              let f := match m_fac mp with O => None | S i => Some i end in
              match fresh w f with
              | Some (w', b') =>
                  let mp' := Mapper (m_fac mp) ((b, b') :: m_known mp) in
                  (World (w_def w') (w_facs w') (w_sfacs w') (w_provs w') (w_uprovs w') (set_nth m mp' (w_maps w')) (w_nodes w'), RNode b')
              | None => (w, RBad)
              end
          end
      | _, _ => (w, RBad)
      end
  end.

Fixpoint run_from (w : world) (ops : list op) : world * list out :=
  match ops with
  | [] => (w, [])
  | o :: ops' =>
      let '(w', r) := step w o in
      let '(w'', rs) := run_from w' ops' in
      (w'', r :: rs)
  end.

Definition run (ops : list op) : world * list out := run_from world0 ops.

(* ---------- stringIdentifierProvider (StringFactory.GetStringProvider(fallback)) ----------
   A stateless wrapper: a node of its own string factory keeps its label, any other node gets the label of the
   fallback provider (here the p-th UUID provider, as the command line tool configures it). *)
Inductive sop := XBase (o : op) | XGetS (sf p k : nat).
Inductive sout := YBase (r : out) | YStr (l : bytes).

Definition own_label (sf : nat) (b : bid) : option bytes :=
  match b with
  | BStr sf' l => if Nat.eqb sf' sf then Some l else None
  | _ => None
  end.

Definition xstep (w : world) (x : sop) : world * sout :=
  match x with
  | XBase o => let '(w', r) := step w o in (w', YBase r)
  | XGetS sf p k =>
      match option_map (own_label sf) (nth_error (w_nodes w) k) with
      | Some (Some l) => (w, YStr l)
      | _ => let '(w', r) := step w (OGetU p k) in (w', YBase r)
      end
  end.

Fixpoint xrun_from (w : world) (xs : list sop) : world * list sout :=
  match xs with
  | [] => (w, [])
  | x :: xs' =>
      let '(w', r) := xstep w x in
      let '(w'', rs) := xrun_from w' xs' in
      (w'', r :: rs)
  end.

Definition xrun (xs : list sop) : world * list sout := xrun_from world0 xs.

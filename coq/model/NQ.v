(* NQ.v — N-Triples / N-Quads: writers (write_iri.go, write_literal.go, encoder.go) and
   streaming decoder (decoder.go, decoder_capture_*.go, decoder_scan_uchar.go), rune by rune.
   The decoder consumes (rune, byte size) pairs as bufio.Reader.ReadRune delivers them and
   records every commit to the offset tracker as a trace, from which text offsets are computed. *)
From RK Require Import Base Utf8 Runes.

Definition runes := list N.
Definition drune := (N * nat)%type.                 (* decoded rune with its size in bytes *)
Inductive terminal := TEof | TFail.                 (* how the reader ended: io.EOF or another error *)

(* ---------- terms ---------- *)
Inductive term :=
| TIri (i : runes)
| TBlank (label : runes)
| TLit (lex : runes) (dt : runes) (lang : option runes).

Record quad := Quad { q_s : term; q_p : term; q_o : term; q_g : option term }.

Definition xsd_string : runes := s2b "http://www.w3.org/2001/XMLSchema#string".
Definition rdf_langString : runes := s2b "http://www.w3.org/1999/02/22-rdf-syntax-ns#langString".
Definition rdf_dirLangString : runes := s2b "http://www.w3.org/1999/02/22-rdf-syntax-ns#dirLangString".

(* ---------- writers ---------- *)
Inductive emode := ENone | EEchar | EU4 | EU8.

(* iriMustEscapeRune *)
Definition iri_mode (r : N) (ascii : bool) : emode :=
  if (r <=? 32)%N then EU4
  else if N.eqb r 60 || N.eqb r 62 || N.eqb r 34 || N.eqb r 123 || N.eqb r 125 || N.eqb r 124 ||
          N.eqb r 94 || N.eqb r 96 || N.eqb r 92 then EU4
  else if ascii then (if (65535 <? r)%N then EU8 else if (127 <? r)%N then EU4 else ENone)
  else ENone.

(* literalStringMustEscapeRune *)
(* the canonical N-Triples / N-Quads form: ECHAR for BS HT LF FF CR quote backslash, UCHAR for the other control
   characters, DEL and the non-characters U+FFFE U+FFFF *)
Definition lit_mode (r : N) (ascii : bool) : emode :=
  if N.eqb r 8 || N.eqb r 9 || N.eqb r 10 || N.eqb r 12 || N.eqb r 13 || N.eqb r 34 || N.eqb r 92 then EEchar
  else if (r <=? 31)%N || N.eqb r 127 || N.eqb r 65534 || N.eqb r 65535 then EU4
  else if ascii then (if (65535 <? r)%N then EU8 else if (127 <? r)%N then EU4 else ENone)
  else ENone.

Definition hexd (r : N) (shift : N) : N := hex_upper ((r / shift) mod 16).

Definition uchar4 (r : N) : runes := [92%N; 117%N; hexd r 4096; hexd r 256; hexd r 16; hexd r 1].
Definition uchar8 (r : N) : runes :=
  [92%N; 85%N; hex_upper ((r / 268435456) mod 8); hexd r 16777216; hexd r 1048576; hexd r 65536;
   hexd r 4096; hexd r 256; hexd r 16; hexd r 1].

Definition echar_of (r : N) : runes :=
  if N.eqb r 9 then [92%N; 116%N] else if N.eqb r 8 then [92%N; 98%N] else if N.eqb r 10 then [92%N; 110%N]
  else if N.eqb r 13 then [92%N; 114%N] else if N.eqb r 12 then [92%N; 102%N] else if N.eqb r 34 then [92%N; 34%N]
  else if N.eqb r 39 then [92%N; 39%N] else if N.eqb r 92 then [92%N; 92%N] else [92%N; 0%N].

Definition esc_iri_rune (ascii : bool) (r : N) : runes :=
  match iri_mode r ascii with EU4 => uchar4 r | EU8 => uchar8 r | _ => [r] end.
Definition esc_lit_rune (ascii : bool) (r : N) : runes :=
  match lit_mode r ascii with EEchar => echar_of r | EU4 => uchar4 r | EU8 => uchar8 r | ENone => [r] end.

Definition write_iri (ascii : bool) (i : runes) : runes := 60%N :: flat_map (esc_iri_rune ascii) i ++ [62%N].

Definition write_literal (ascii : bool) (lex dt : runes) (lang : option runes) : runes :=
  34%N :: flat_map (esc_lit_rune ascii) lex ++ [34%N] ++
  (if beq dt xsd_string then []
   else if beq dt rdf_langString then (match lang with Some l => 64%N :: l | None => [] end)
   else [94%N; 94%N] ++ write_iri ascii dt).

Definition write_term (ascii : bool) (t : term) : runes :=
  match t with
  | TIri i => write_iri ascii i
  | TBlank l => 95%N :: 58%N :: l
  | TLit lex dt lang => write_literal ascii lex dt lang
  end.

(* AddQuad; for N-Triples the graph slot is always None *)
Definition write_quad (ascii : bool) (q : quad) : runes :=
  write_term ascii (q_s q) ++ [32%N] ++ write_term ascii (q_p q) ++ [32%N] ++ write_term ascii (q_o q) ++
  (match q_g q with Some g => 32%N :: write_term ascii g | None => [] end) ++ [32%N; 46%N; 10%N].

Definition encode (ascii : bool) (qs : list quad) : runes := flat_map (write_quad ascii) qs.

(* ---------- decoder ---------- *)
(* commit trace: plain commits, and the commits made while reading one term: its parts in
   order, flagged when the part is a token whose range counts (the term's reported range runs
   from the start of its first token part to the end of its last one) *)
Definition part := (bool * list drune)%type.
Inductive cev := CPlain (rs : list drune) | CTerm (ps : list part).

Inductive pres (A : Type) :=                 (* result of an open_* scanner: value, parts, rest *)
| POk (a : A) (ps : list part) (rest : list drune)
| PEof
| PBad.
Arguments POk {A}. Arguments PEof {A}. Arguments PBad {A}.

Inductive res (A : Type) :=
| Ok (a : A) (tr : list cev) (rest : list drune)
| Eof                                   (* the reader ended here *)
| Bad                                   (* syntax error *)
| Fuel.                                 (* the model's recursion budget ran out (never happens: NQProofs) *)
Arguments Ok {A}. Arguments Eof {A}. Arguments Bad {A}. Arguments Fuel {A}.

Definition hexv (r : N) : option N :=
  if rng 48 57 r then Some (r - 48)%N else if rng 65 70 r then Some (r - 55)%N else if rng 97 102 r then Some (r - 87)%N else None.

(* runes that string([]rune) turns into U+FFFD *)
Definition sanitize (r : N) : N := if is_scalar r then r else RuneError.

(* decodeUCHAR4: the four hex digits after "\u" *)
Definition uchar4_dec (inp : list drune) : res (N * list drune) :=
  match inp with
  | a :: b :: c :: d :: rest =>
      match hexv (fst a), hexv (fst b), hexv (fst c), hexv (fst d) with
      | Some x, Some y, Some z, Some w => Ok ((x * 4096 + y * 256 + z * 16 + w)%N, [a; b; c; d]) [] rest
      | _, _, _, _ => Bad
      end
  | _ => match inp with
         | [] => Eof
         | a :: r1 => match hexv (fst a) with None => Bad | Some _ =>
             match r1 with [] => Eof | b :: r2 => match hexv (fst b) with None => Bad | Some _ =>
               match r2 with [] => Eof | c :: r3 => match hexv (fst c) with None => Bad | Some _ => Eof end end end end end
         end
  end.

(* decodeUCHAR8: first two digits must be 0, the third at most 1 *)
Definition uchar8_dec (inp : list drune) : res (N * list drune) :=
  match inp with
  | a :: b :: c :: d :: e :: f :: g :: h :: rest =>
      match hexv (fst a), hexv (fst b), hexv (fst c), hexv (fst d), hexv (fst e), hexv (fst f), hexv (fst g), hexv (fst h) with
      | Some x0, Some x1, Some x2, Some x3, Some x4, Some x5, Some x6, Some x7 =>
          if N.eqb x0 0 && N.eqb x1 0 && (x2 <=? 1)%N
          then Ok ((x2 * 1048576 + x3 * 65536 + x4 * 4096 + x5 * 256 + x6 * 16 + x7)%N, [a; b; c; d; e; f; g; h]) [] rest
          else Bad
      | _, _, _, _, _, _, _, _ => Bad
      end
  | _ =>
      (* fewer than eight runes left: the first offending digit decides between a syntax error and the end of input *)
      (fix go (k : nat) (l : list drune) : res (N * list drune) :=
         match l with
         | [] => Eof
         | x :: l' => match hexv (fst x) with
                      | None => Bad
                      | Some v => if (match k with 0 | 1 => negb (N.eqb v 0) | 2 => (1 <? v)%N | _ => false end) then Bad else go (S k) l'
                      end
         end) O inp
  end.

(* captureOpenIRI after '<': decoded runes, consumed runes (for the commit), rest *)
Fixpoint iri_body (inp : list drune) (dec : runes) (raw : list drune) : res (runes * list drune) :=
  match inp with
  | [] => Eof
  | r0 :: rest =>
      if N.eqb (fst r0) 62 then Ok (rev dec, rev (r0 :: raw)) [] rest
      else if N.eqb (fst r0) 92 then
        match rest with
        | [] => Eof
        | r1 :: rest1 =>
            if N.eqb (fst r1) 117 then
              match rest1 with
              | a :: b :: c :: d :: rest2 =>
                  match hexv (fst a), hexv (fst b), hexv (fst c), hexv (fst d) with
                  | Some x, Some y, Some z, Some w =>
                      iri_body rest2 ((x * 4096 + y * 256 + z * 16 + w)%N :: dec) (d :: c :: b :: a :: r1 :: r0 :: raw)
                  | _, _, _, _ => Bad
                  end
              | _ => match uchar4_dec rest1 with Eof => Eof | _ => Bad end
              end
            else if N.eqb (fst r1) 85 then
              match rest1 with
              | a :: b :: c :: d :: e :: f :: g :: h :: rest2 =>
                  match uchar8_dec [a; b; c; d; e; f; g; h] with
                  | Ok (v, _) _ _ => iri_body rest2 (v :: dec) (h :: g :: f :: e :: d :: c :: b :: a :: r1 :: r0 :: raw)
                  | _ => Bad
                  end
              | _ => match uchar8_dec rest1 with Eof => Eof | _ => Bad end
              end
            else Bad
        end
      else if (fst r0 <=? 32)%N || N.eqb (fst r0) 60 || N.eqb (fst r0) 34 || N.eqb (fst r0) 123 || N.eqb (fst r0) 125 ||
              N.eqb (fst r0) 124 || N.eqb (fst r0) 94 || N.eqb (fst r0) 96 then Bad
      else iri_body rest (fst r0 :: dec) (r0 :: raw)
  end.

(* iri.IsAbsolute on the decoded string (bytes of the scheme are ASCII, so runes suffice) *)
Fixpoint is_absolute_aux (first : bool) (l : runes) : bool :=
  match l with
  | [] => false
  | c :: l' =>
      if is_alpha c then is_absolute_aux false l'
      else if is_digit c || N.eqb c 43 || N.eqb c 45 || N.eqb c 46 then (if first then false else is_absolute_aux false l')
      else if N.eqb c 58 then negb first
      else false
  end.
Definition is_absolute (l : runes) : bool := is_absolute_aux true l.

(* captureOpenIRI: '<' already read (lt) *)
Definition open_iri (lt : drune) (inp : list drune) : pres runes :=
  match iri_body inp [] [lt] with
  | Ok (dec, raw) _ rest =>
      let s := map sanitize dec in
      if is_absolute s then POk s [(true, raw)] rest else PBad
  | Eof => PEof
  | Bad => PBad
  | Fuel => PBad
  end.

(* string body after the opening double quote *)
Fixpoint lit_body (inp : list drune) (dec : runes) (raw : list drune) : res (runes * list drune) :=
  match inp with
  | [] => Eof
  | r0 :: rest =>
      if N.eqb (fst r0) 34 then Ok (rev dec, rev (r0 :: raw)) [] rest
      else if N.eqb (fst r0) 92 then
        match rest with
        | [] => Eof
        | r1 :: rest1 =>
            let c := fst r1 in
            if N.eqb c 117 then
              match rest1 with
              | a :: b :: c4 :: d :: rest2 =>
                  match hexv (fst a), hexv (fst b), hexv (fst c4), hexv (fst d) with
                  | Some x, Some y, Some z, Some w =>
                      lit_body rest2 ((x * 4096 + y * 256 + z * 16 + w)%N :: dec) (d :: c4 :: b :: a :: r1 :: r0 :: raw)
                  | _, _, _, _ => Bad
                  end
              | _ => match uchar4_dec rest1 with Eof => Eof | _ => Bad end
              end
            else if N.eqb c 85 then
              match rest1 with
              | a :: b :: c4 :: d :: e :: f :: g :: h :: rest2 =>
                  match uchar8_dec [a; b; c4; d; e; f; g; h] with
                  | Ok (v, _) _ _ => lit_body rest2 (v :: dec) (h :: g :: f :: e :: d :: c4 :: b :: a :: r1 :: r0 :: raw)
                  | _ => Bad
                  end
              | _ => match uchar8_dec rest1 with Eof => Eof | _ => Bad end
              end
            else
              let one (v : N) := lit_body rest1 (v :: dec) (r1 :: r0 :: raw) in
              if N.eqb c 116 then one 9%N else if N.eqb c 98 then one 8%N else if N.eqb c 110 then one 10%N
              else if N.eqb c 114 then one 13%N else if N.eqb c 102 then one 12%N else if N.eqb c 34 then one 34%N
              else if N.eqb c 39 then one 39%N else if N.eqb c 92 then one 92%N else Bad
        end
      else lit_body rest (fst r0 :: dec) (r0 :: raw)
  end.

(* scanOpenLangtag after '@': primary letters, then ('-' alnum+)* ; returns the tag runes *)
Fixpoint lang_secondary (inp : list drune) (acc : list drune) : res (list drune) :=
  match inp with
  | [] => Eof
  | r0 :: rest =>
      if is_alnum (fst r0) then lang_secondary rest (r0 :: acc)
      else if N.eqb (fst r0) 45 then
        (match acc with
         | last :: _ => if N.eqb (fst last) 45 then Bad else lang_secondary rest (r0 :: acc)
         | [] => Bad
         end)
      else Ok (rev acc) [] inp
  end.

Fixpoint lang_primary (inp : list drune) (acc : list drune) : res (list drune) :=
  match inp with
  | [] => Eof
  | r0 :: rest =>
      if is_alpha (fst r0) then lang_primary rest (r0 :: acc)
      else if N.eqb (fst r0) 45 then (match acc with [] => Bad | _ => lang_secondary rest (r0 :: acc) end)
      else Ok (rev acc) [] inp
  end.

Definition last_is_dash (l : list drune) : bool :=
  match rev l with x :: _ => N.eqb (fst x) 45 | [] => false end.

(* the '@' was read (at); commits '@' alone, then the tag as a range *)
Definition open_langtag (at_ : drune) (inp : list drune) : pres runes :=
  match lang_primary inp [] with
  | Ok tag _ rest =>
      match tag with
      | [] => PBad
      | _ => if last_is_dash tag then PBad else POk (map fst tag) [(false, [at_]); (true, tag)] rest
      end
  | Eof => PEof
  | Bad => PBad
  | Fuel => PBad
  end.

(* captureOpenLiteral: the opening double quote already read (qt) *)
Definition open_literal (qt : drune) (inp : list drune) (t : terminal) : pres term :=
  match lit_body inp [] [qt] with
  | Ok (dec, raw) _ rest =>
      let lex := map sanitize dec in
      match rest with
      | [] => match t with
              | TEof => POk (TLit lex xsd_string None) [(true, raw)] []
              | TFail => PEof
              end
      | r0 :: rest1 =>
          if N.eqb (fst r0) 64 then
            match open_langtag r0 rest1 with
            | POk tag ps rest2 => POk (TLit lex rdf_langString (Some tag)) ((true, raw) :: ps) rest2
            | PEof => PEof
            | PBad => PBad
            end
          else if N.eqb (fst r0) 94 then
            match rest1 with
            | [] => PEof
            | r1 :: rest2 =>
                if negb (N.eqb (fst r1) 94) then PBad
                else match rest2 with
                     | [] => PEof
                     | r2 :: rest3 =>
                         if negb (N.eqb (fst r2) 60) then PBad
                         else match open_iri r2 rest3 with
                              | POk dt ps rest4 =>
                                  if beq dt rdf_langString || beq dt rdf_dirLangString then PBad
                                  else POk (TLit lex dt None) ((true, raw) :: (false, [r0; r1]) :: ps) rest4
                              | PEof => PEof
                              | PBad => PBad
                              end
                     end
            end
          else POk (TLit lex xsd_string None) [(true, raw)] rest
      end
  | Eof => PEof
  | Bad => PBad
  | Fuel => PBad
  end.

(* captureOpenBlankNode: underscore and colon already read *)
Fixpoint bnode_rest (inp : list drune) (acc : list drune) (t : terminal) : res (list drune) :=
  match inp with
  | [] => match t with TEof => Ok (rev acc) [] [] | TFail => Eof end    (* the label may end with the input *)
  | r0 :: rest =>
      if pn_chars_nt (fst r0) || N.eqb (fst r0) 46 then bnode_rest rest (r0 :: acc) t
      else Ok (rev acc) [] inp
  end.

Definition open_bnode (us colon : drune) (inp : list drune) (t : terminal) : pres term :=
  match inp with
  | [] => PEof
  | r0 :: rest =>
      if pn_chars_u_nt (fst r0) || is_digit (fst r0) then
        match bnode_rest rest [r0] t with
        | Ok lab _ rest1 =>
            (* len(uncommitted) > 3 means more than one label rune *)
            match rev lab with
            | lastr :: before =>
                match before with
                | [] => POk (TBlank (map fst lab)) [(true, us :: colon :: lab)] rest1
                | _ =>
                    let '(lab', rest') := if N.eqb (fst lastr) 46 then (rev before, lastr :: rest1) else (lab, rest1) in
                    match rev lab' with
                    | l2 :: _ => if pn_chars_nt (fst l2) then POk (TBlank (map fst lab')) [(true, us :: colon :: lab')] rest'
                                 else PBad
                    | [] => PBad
                    end
                end
            | [] => PBad
            end
        | Eof => PEof
        | Bad => PBad
        | Fuel => PBad
        end
      else PBad
  end.

(* drainLine: the rest of a comment up to and including the first LF or CR (EOL ::= [#xD#xA]+); at the end of input the
   comment is committed only on io.EOF *)
Fixpoint drain_line (inp : list drune) (acc : list drune) : list drune * option (list drune) :=
  match inp with
  | [] => (rev acc, None)
  | r0 :: rest => if N.eqb (fst r0) 10 || N.eqb (fst r0) 13 then (rev (r0 :: acc), Some rest) else drain_line rest (r0 :: acc)
  end.

Inductive pos_kind := KSubject | KPredicate | KObject | KGraph.

(* captureSubjectOrGraphValue / capturePredicate / captureObject: skip blanks and comments, then one term *)
Fixpoint capture (fuel : nat) (k : pos_kind) (inp : list drune) (t : terminal) (tr : list cev) : res term :=
  match fuel with
  | O => Fuel
  | S f =>
      match inp with
      | [] => Eof
      | r0 :: rest =>
          let c := fst r0 in
          if N.eqb c 60 then
            match open_iri r0 rest with POk i ps rest' => Ok (TIri i) (tr ++ [CTerm ps]) rest' | PEof => Eof | PBad => Bad end
          else if N.eqb c 95 && negb (match k with KPredicate => true | _ => false end) then
            match rest with
            | [] => Eof
            | r1 :: rest1 =>
                if N.eqb (fst r1) 58 then
                  match open_bnode r0 r1 rest1 t with POk b ps rest' => Ok b (tr ++ [CTerm ps]) rest' | PEof => Eof | PBad => Bad end
                else Bad
            end
          else if N.eqb c 34 && (match k with KObject => true | _ => false end) then
            match open_literal r0 rest t with POk l ps rest' => Ok l (tr ++ [CTerm ps]) rest' | PEof => Eof | PBad => Bad end
          else if N.eqb c 35 then
            match drain_line rest [r0] with
            | (cm, Some rest') => capture f k rest' t (tr ++ [CPlain cm])
            | (_, None) => Eof
            end
          else if is_space c then capture f k rest t (tr ++ [CPlain [r0]])
          else Bad
      end
  end.

(* what follows the object: optional graph label (N-Quads), then '.' *)
Fixpoint after_object (fuel : nat) (nq : bool) (have_graph : bool) (inp : list drune) (t : terminal) (tr : list cev)
  : res (option term) :=
  match fuel with
  | O => Fuel
  | S f =>
      match inp with
      | [] => Eof
      | r0 :: rest =>
          let c := fst r0 in
          if N.eqb c 46 then Ok None (tr ++ [CPlain [r0]]) rest
          else if N.eqb c 35 then
            match drain_line rest [r0] with
            | (cm, Some rest') => after_object f nq have_graph rest' t (tr ++ [CPlain cm])
            | (_, None) => Eof
            end
          else if is_space c then after_object f nq have_graph rest t (tr ++ [CPlain [r0]])
          else if nq && negb have_graph then
            match capture (S (length inp)) KGraph inp t [] with
            | Ok g tr' rest' =>
                match after_object f nq true rest' t (tr ++ tr') with
                | Ok _ tr'' rest'' => Ok (Some g) tr'' rest''
                | Eof => Eof
                | Bad => Bad
                | Fuel => Fuel
                end
            | Eof => Eof
            | Bad => Bad
            | Fuel => Fuel
            end
          else Bad
      end
  end.

(* between statements: after a statement only blanks up to an end of line or a comment may follow *)
Inductive gap := GStart (tr : list cev) (rest : list drune) | GEnd (tr : list cev) | GErr | GIo | GFuel.

Fixpoint after_statement (fuel : nat) (inp : list drune) (t : terminal) (tr : list cev) : gap :=
  match fuel with
  | O => GFuel
  | S f =>
      match inp with
      | [] => match t with TEof => GEnd tr | TFail => GIo end
      | r0 :: rest =>
          let c := fst r0 in
          if N.eqb c 35 then
            match drain_line rest [r0] with
            | (cm, Some rest') => GStart (tr ++ [CPlain cm]) rest'
            | (cm, None) => match t with TEof => GEnd (tr ++ [CPlain cm]) | TFail => GIo end
            end
          else if N.eqb c 13 || N.eqb c 10 then GStart (tr ++ [CPlain [r0]]) rest
          else if is_space c then after_statement f rest t (tr ++ [CPlain [r0]])
          else GErr
      end
  end.

(* in front of a statement: blanks and comments; the input may end cleanly here *)
Fixpoint before_statement (fuel : nat) (inp : list drune) (t : terminal) (tr : list cev) : gap :=
  match fuel with
  | O => GFuel
  | S f =>
      match inp with
      | [] => match t with TEof => GEnd tr | TFail => GIo end
      | r0 :: rest =>
          let c := fst r0 in
          if N.eqb c 35 then
            match drain_line rest [r0] with
            | (cm, Some rest') => before_statement f rest' t (tr ++ [CPlain cm])
            | (cm, None) => match t with TEof => GEnd (tr ++ [CPlain cm]) | TFail => GIo end
            end
          else if is_space c then before_statement f rest t (tr ++ [CPlain [r0]])
          else GStart tr inp
      end
  end.

Inductive verdict := VOk | VSyntax | VIo | VFuel.

Record stmt := Stmt { st_quad : quad; st_trace : list cev }.   (* the trace committed while reading it *)

(* one statement: subject predicate object [graph] '.' *)
Definition statement (nq : bool) (inp : list drune) (t : terminal) (tr0 : list cev) : res quad :=
  let fuel := S (length inp) in
  match capture fuel KSubject inp t tr0 with
  | Ok s tr1 r1 =>
      match capture fuel KPredicate r1 t tr1 with
      | Ok p tr2 r2 =>
          match capture fuel KObject r2 t tr2 with
          | Ok o tr3 r3 =>
              match after_object fuel nq false r3 t tr3 with
              | Ok g tr4 r4 => Ok (Quad s p o g) tr4 r4
              | Eof => Eof | Bad => Bad | Fuel => Fuel
              end
          | Eof => Eof | Bad => Bad | Fuel => Fuel
          end
      | Eof => Eof | Bad => Bad | Fuel => Fuel
      end
  | Eof => Eof | Bad => Bad | Fuel => Fuel
  end.

(* the Next() loop over the whole document *)
Fixpoint decode_loop (fuel : nat) (nq : bool) (first : bool) (inp : list drune) (t : terminal) : list stmt * verdict :=
  match fuel with
  | O => ([], VFuel)
  | S f =>
      let g1 := if first then GStart [] inp else after_statement (S (length inp)) inp t [] in
      match g1 with
      | GEnd _ => ([], VOk)
      | GErr => ([], VSyntax)
      | GIo => ([], VIo)
      | GFuel => ([], VFuel)
      | GStart tr1 r1 =>
          match before_statement (S (length r1)) r1 t tr1 with
          | GEnd _ => ([], VOk)
          | GErr => ([], VSyntax)
          | GIo => ([], VIo)
          | GFuel => ([], VFuel)
          | GStart tr2 r2 =>
              match statement nq r2 t tr2 with
              | Ok q tr3 r3 => let '(l, v) := decode_loop f nq false r3 t in (Stmt q tr3 :: l, v)
              | Eof => ([], match t with TEof => VSyntax | TFail => VIo end)
              | Bad => ([], VSyntax)
              | Fuel => ([], VFuel)
              end
          end
      end
  end.

Definition decode (nq : bool) (inp : list drune) (t : terminal) : list stmt * verdict :=
  decode_loop (S (length inp)) nq true inp t.

Definition decode_bytes (nq : bool) (bs : bytes) (t : terminal) : list stmt * verdict :=
  decode nq (utf8_decode bs) t.

(* ---------- text offsets from the commit trace (cursorio.TextWriter.write) ---------- *)
Record pos := Pos { p_byte : N; p_line : N; p_col : N }.

(* one write call: LF and CR LF end a line, a lone CR is hidden, every other rune is one column
   (valid for code points that are grapheme clusters on their own) *)
Fixpoint write_runes (p : pos) (rs : list drune) : pos :=
  match rs with
  | [] => p
  | (c, n) :: rest =>
      let b := (p_byte p + N.of_nat n)%N in
      if N.eqb c 10 then write_runes (Pos b (p_line p + 1) 0) rest
      else if N.eqb c 13 then
        match rest with
        | (c2, n2) :: rest2 =>
            if N.eqb c2 10 then write_runes (Pos (b + N.of_nat n2) (p_line p + 1) 0) rest2
            else write_runes (Pos b (p_line p) (p_col p)) rest
        | [] => write_runes (Pos b (p_line p) (p_col p)) rest
        end
      else write_runes (Pos b (p_line p) (p_col p + 1)) rest
  end.

(* position after writing all parts; start of the first token part; end of the last token part *)
Fixpoint term_range (p : pos) (ps : list part) (from : option pos) (until : pos) : option pos * pos * pos :=
  match ps with
  | [] => (from, until, p)
  | (tok, rs) :: ps' =>
      let p' := write_runes p rs in
      if tok then term_range p' ps' (match from with Some f => Some f | None => Some p end) p'
      else term_range p' ps' from until
  end.

(* ranges of the terms of a trace, in order, and the final position *)
Fixpoint ranges (p : pos) (tr : list cev) : list (pos * pos) * pos :=
  match tr with
  | [] => ([], p)
  | CPlain rs :: tr' => ranges (write_runes p rs) tr'
  | CTerm ps :: tr' =>
      let '(from, until, p') := term_range p ps None p in
      let '(l, pe) := ranges p' tr' in
      ((match from with Some f => f | None => p end, until) :: l, pe)
  end.

(* the ranges of the statements of a document: the position runs on from statement to statement *)
Fixpoint stmt_ranges (p : pos) (l : list stmt) : list (list (pos * pos)) :=
  match l with
  | [] => []
  | s :: l' => let '(rs, p') := ranges p (st_trace s) in rs :: stmt_ranges p' l'
  end.

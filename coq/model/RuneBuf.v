(* RuneBuf.v — how the text decoders obtain runes from an io.Reader: cursorioutil.RuneBuffer.NextRune
   calls bufio.Reader.ReadRune, which keeps the unread bytes and asks the reader for one more chunk
   (one Read call) as long as the buffered bytes are not a full rune (utf8.FullRune) and the reader
   has not ended; then it decodes one rune from the buffered bytes (utf8.DecodeRune; an incomplete or
   invalid sequence is (U+FFFD, 1)).  The reader is a list of chunks, one per Read call. *)
From RK Require Import Base Utf8.

(* utf8.FullRune *)
Definition full_rune (bs : bytes) : bool :=
  match bs with
  | [] => false
  | b0 :: r0 =>
      if (b0 <? 194)%N then true
      else if (b0 <? 224)%N then
        match r0 with _ :: _ => true | [] => false end
      else if (b0 <? 240)%N then
        match r0 with
        | _ :: _ :: _ => true
        | [b1] =>
            let lo := if N.eqb b0 224 then 160%N else 128%N in
            let hi := if N.eqb b0 237 then 159%N else 191%N in
            negb (in_rng lo hi b1)
        | [] => false
        end
      else if (b0 <? 245)%N then
        match r0 with
        | _ :: _ :: _ :: _ => true
        | [b1; b2] =>
            let lo := if N.eqb b0 240 then 144%N else 128%N in
            let hi := if N.eqb b0 244 then 143%N else 191%N in
            negb (in_rng lo hi b1) || negb (cont b2)
        | [b1] =>
            let lo := if N.eqb b0 240 then 144%N else 128%N in
            let hi := if N.eqb b0 244 then 143%N else 191%N in
            negb (in_rng lo hi b1)
        | [] => false
        end
      else true
  end.

(* bufio.Reader.ReadRune's fill loop: [buf] are the unread buffered bytes *)
Fixpoint pull (buf : bytes) (chunks : list bytes) : bytes * list bytes :=
  match chunks with
  | [] => (buf, [])
  | c :: cs => if full_rune buf then (buf, chunks) else pull (buf ++ c) cs
  end.

(* all runes NextRune returns until the reader ends *)
Fixpoint read_runes (fuel : nat) (buf : bytes) (chunks : list bytes) : list (N * nat) :=
  match fuel with
  | O => []
  | S f =>
      let '(buf', chunks') := pull buf chunks in
      match decode_rune buf' with
      | None => []
      | Some (r, n, rest) => (r, n) :: read_runes f rest chunks'
      end
  end.

Definition read_all (chunks : list bytes) : list (N * nat) :=
  read_runes (S (length (concat chunks))) [] chunks.

(* the reader hands out the bytes in pieces of the given sizes (cycling; a size of 0 counts as 1) *)
Fixpoint chunk_fuel (fuel : nat) (sizes all : list nat) (bs : bytes) : list bytes :=
  match fuel with
  | O => [bs]
  | S f =>
      match bs with
      | [] => []
      | _ =>
          match sizes with
          | [] => match all with [] => [bs] | _ => chunk_fuel f all all bs end
          | k :: ks => let k' := match k with O => 1 | _ => k end in
                       firstn k' bs :: chunk_fuel f ks all (skipn k' bs)
          end
      end
  end.
Definition chunk (sizes : list nat) (bs : bytes) : list bytes :=
  chunk_fuel (2 * length bs + 2) sizes sizes bs.

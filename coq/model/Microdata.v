(* Microdata.v — the triples HTML Microdata markup denotes: items (itemscope) with itemid / itemtype, properties
   (itemprop) found by crawling the item's subtree and the subtrees named by itemref without entering nested items,
   the element-specific value rules (meta content; audio embed iframe img source track video src; a area link href;
   object data; data value; everything else text content), nested items as values. Property names are absolute IRIs
   or names resolved against the vocabulary of the first item type (the type up to its last "/"). An item is expanded
   once however often it is reached; every item it is a property of gets the linking triple. Outside: time / meter
   typing, language, items without type using short names. Elements with itemscope carry a unique data-n attribute
   (written by the harness) which stands for the identity of the element. *)
From RK Require Import Base Iri3986 RdfXml.

Record mst := MSt { m_k : nat; m_memo : list (bytes * rterm); m_out : list rtriple }.

Definition mtokens (l : bytes) : list bytes :=
  filter (fun t => match t with [] => false | _ => true end)
         (fold_right (fun c acc => if N.eqb c 32 || N.eqb c 9 || N.eqb c 10 || N.eqb c 13 || N.eqb c 12
                                   then [] :: acc
                                   else match acc with [] => [[c]] | h :: t => (c :: h) :: t end) [[]] l).

Definition mresolve (base ref : bytes) : bytes := match base with [] => ref | _ => Iri3986.resolve base ref end.

Fixpoint mtext (fuel : nat) (n : xnode) : bytes :=
  match fuel with
  | O => []
  | S f => match n with XT t => t | XE _ _ ch => flat_map (mtext f) ch end
  end.

Definition in_names (name : bytes) (l : list String.string) : bool := existsb (fun s => beq name (s2b s)) l.

Definition str_lit (s : bytes) : rterm := RL s xsd_string_dt [].

(* the value of a property element which is not an item *)
Definition mvalue (fuel : nat) (base : bytes) (n : xnode) : rterm :=
  match n with
  | XT _ => str_lit []
  | XE name attrs _ =>
      let url (k : String.string) := match attr (s2b k) attrs with Some v => RI (mresolve base v) | None => str_lit [] end in
      let str (k : String.string) := match attr (s2b k) attrs with Some v => str_lit v | None => str_lit [] end in
      if beq name (s2b "meta") then str "content"%string
      else if in_names name ["audio"; "embed"; "iframe"; "img"; "source"; "track"; "video"]%string then url "src"%string
      else if in_names name ["a"; "area"; "link"]%string then url "href"%string
      else if beq name (s2b "object") then url "data"%string
      else if beq name (s2b "data") then str "value"%string
      else str_lit (mtext fuel n)
  end.

(* vocabulary of a type: up to and including the last "/" *)
Definition vocab_of (ty : bytes) : bytes :=
  match last_index_of 47 ty with Some i => firstn (S i) ty | None => ty end.

Definition prop_iri (types : list bytes) (p : bytes) : option bytes :=
  if has_scheme p then Some p
  else match types with
       | ty :: _ => Some (vocab_of ty ++ p)
       | [] => None
       end.

Definition prop_iris (types : list bytes) (v : bytes) : list bytes :=
  flat_map (fun p => match prop_iri types p with Some i => [i] | None => [] end) (nodup_b beq (mtokens v)).

(* the first element with the given id, in document order *)
Fixpoint by_id (fuel : nat) (id : bytes) (n : xnode) : option xnode :=
  match fuel with
  | O => None
  | S f =>
      match n with
      | XT _ => None
      | XE _ attrs ch =>
          match attr (s2b "id") attrs with
          | Some v => if beq v id then Some n else fold_left (fun acc c => match acc with Some x => Some x | None => by_id f id c end) ch None
          | None => fold_left (fun acc c => match acc with Some x => Some x | None => by_id f id c end) ch None
          end
      end
  end.

Fixpoint lookupb_m (k : bytes) (l : list (bytes * rterm)) : option rterm :=
  match l with [] => None | (a, v) :: t => if beq a k then Some v else lookupb_m k t end.

Fixpoint xdepth_m (n : xnode) : nat :=
  match n with XT _ => 1 | XE _ _ ch => S (fold_right (fun c a => Nat.max (xdepth_m c) a) 0 ch) end.

Section MD.
Variable base : bytes.
Variable root : xnode.
Variable idfuel : nat.

(* walk fuel cur refs n st: cur = the item the element may be a property of (subject, types); refs = ids being
   followed (itemref recursion guard) *)
Fixpoint walk (fuel : nat) (cur : option (rterm * list bytes)) (refs : list bytes) (n : xnode) (st : mst) : mst :=
  match fuel with
  | O => st
  | S f =>
      match n with
      | XT _ => st
      | XE name attrs ch =>
          let props := match attr (s2b "itemprop") attrs, cur with
                       | Some v, Some (_, types) => prop_iris types v
                       | _, _ => []
                       end in
          match attr (s2b "itemscope") attrs with
          | Some _ =>
              let nid := match attr (s2b "data-n") attrs with Some v => v | None => [] end in
              let types := match attr (s2b "itemtype") attrs with Some v => mtokens v | None => [] end in
              let '(subj, known, st) :=
                match lookupb_m nid (m_memo st) with
                | Some s => (s, true, st)
                | None =>
                    let '(s, k') := match attr (s2b "itemid") attrs with
                                    | Some ((_ :: _) as v) => (RI (mresolve base v), m_k st)
                                    | _ => (RB true (dec_print (N.of_nat (m_k st))), S (m_k st))
                                    end in
                    (s, false, MSt k' ((nid, s) :: m_memo st) (m_out st))
                end in
              (* the linking triples *)
              let st := match cur with
                        | Some (cs, _) => MSt (m_k st) (m_memo st) (m_out st ++ map (fun p => (cs, p, subj)) props)
                        | None => st
                        end in
              if known then st else
              let st := MSt (m_k st) (m_memo st) (m_out st ++ map (fun t => (subj, rdf "type", RI t)) types) in
              let st := fold_left (fun st c => walk f (Some (subj, types)) refs c st) ch st in
              (* itemref *)
              match attr (s2b "itemref") attrs with
              | None => st
              | Some rv =>
                  fold_left (fun st id =>
                               if existsb (beq id) refs then st else
                               match by_id idfuel id root with
                               | Some target => walk f (Some (subj, types)) (id :: refs) target st
                               | None => st
                               end) (mtokens rv) st
              end
          | None =>
              let st := match cur, props with
                        | Some (cs, _), _ :: _ =>
                            let v := mvalue idfuel base n in
                            MSt (m_k st) (m_memo st) (m_out st ++ map (fun p => (cs, p, v)) props)
                        | _, _ => st
                        end in
              fold_left (fun st c => walk f cur refs c st) ch st
          end
      end
  end.
End MD.

Fixpoint xsize_m (n : xnode) : nat :=
  match n with XT _ => 1 | XE _ _ ch => S (fold_right (fun c a => xsize_m c + a) 0 ch) end.

(* a path of the walk descends or follows an itemref not followed before: its length is bounded by depth x ids *)
Definition microdata_doc (location : bytes) (root : xnode) : list rtriple :=
  let d := S (xdepth_m root) in
  m_out (walk location root d (d * S (xsize_m root)) None [] root (MSt 0 [] [])).

(* Descr.v — model of rdfdescription.ResourceListBuilder / DatasetResourceListBuilder:
   reference counting, the only-referrer chain test (isInlined), nested export and
   flattening.  Terms are abstract: IRIs, blank nodes and literals by number. *)
From RK Require Import Base.

Inductive node := NIri (n : nat) | NBlank (n : nat) | NLit (n : nat).

Definition node_eqb (a b : node) : bool :=
  match a, b with
  | NIri x, NIri y | NBlank x, NBlank y | NLit x, NLit y => Nat.eqb x y
  | _, _ => false
  end.

Definition triple := (node * node * node)%type.
Definition t_s (t : triple) : node := fst (fst t).
Definition t_p (t : triple) : node := snd (fst t).
Definition t_o (t : triple) : node := snd t.

Definition graph := list triple.                 (* insertion order *)

Definition is_ref (b : nat) (t : triple) : bool := node_eqb (t_o t) (NBlank b).

(* blankNodeReferences[b] *)
Definition refs (g : graph) (b : nat) : nat := length (filter (is_ref b) g).

(* blankNodeReferrer[b]: subject of the most recent statement with object b *)
Definition referrer (g : graph) (b : nat) : option node :=
  match rev (filter (is_ref b) g) with
  | t :: _ => Some (t_s t)
  | [] => None
  end.

Definition memn (x : nat) (l : list nat) : bool := existsb (Nat.eqb x) l.

(* the loop of isInlined: follow only-referrers until a resource that is exported on its own;
   [seen] detects a cycle.  Fuel exhaustion answers "not inlined". *)
Fixpoint chain_ok (fuel : nat) (g : graph) (pinned : list nat) (seen : list nat) (cur : option node) : bool :=
  match fuel with
  | O => false
  | S f =>
      match cur with
      | Some (NBlank r) =>
          if Nat.eqb (refs g r) 1 && negb (memn r pinned)
          then if memn r seen then false else chain_ok f g pinned (r :: seen) (referrer g r)
          else true
      | _ => true
      end
  end.

Definition inlined (g : graph) (pinned : list nat) (b : nat) : bool :=
  Nat.eqb (refs g b) 1 && negb (memn b pinned) && chain_ok (S (length g)) g pinned [b] (referrer g b).

Record opts := Opts { use_anon : bool; inline : bool }.

Inductive stmt :=
| SObj (p o : node)
| SAnon (p : node) (origin : nat) (sub : list stmt)    (* origin: ghost, the blank node that was nested *)
| SOut.                                                (* the model ran out of fuel (Go: unbounded recursion) *)

Inductive resource :=
| RSubj (s : node) (sts : list stmt)
| RAnon (origin : nat) (sts : list stmt).

Definition stmts_of (g : graph) (s : node) : list triple := filter (fun t => node_eqb (t_s t) s) g.

(* ExportResourceStatements *)
Fixpoint export_statements (fuel : nat) (g : graph) (pinned : list nat) (o : opts) (s : node) : list stmt :=
  match fuel with
  | O => [SOut]
  | S f =>
      map (fun t =>
             match t_o t with
             | NBlank b =>
                 if inline o && inlined g pinned b
                 then SAnon (t_p t) b (export_statements f g pinned o (NBlank b))
                 else SObj (t_p t) (t_o t)
             | _ => SObj (t_p t) (t_o t)
             end) (stmts_of g s)
  end.

Fixpoint subjects_aux (g : graph) (seen : list node) : list node :=
  match g with
  | [] => []
  | t :: g' => if existsb (node_eqb (t_s t)) seen then subjects_aux g' seen
               else t_s t :: subjects_aux g' (t_s t :: seen)
  end.
Definition subjects (g : graph) : list node := subjects_aux g [].

(* ExportResource *)
Definition export_resource (g : graph) (pinned : list nat) (o : opts) (s : node) : resource :=
  let sts := export_statements (S (S (length g))) g pinned o s in
  match s with
  | NBlank b => if use_anon o && Nat.eqb (refs g b) 0 && negb (memn b pinned) then RAnon b sts else RSubj s sts
  | _ => RSubj s sts
  end.

(* ExportResources *)
Definition export (g : graph) (pinned : list nat) (o : opts) : list resource :=
  flat_map (fun s =>
              match s with
              | NBlank b => if inline o && inlined g pinned b then [] else [export_resource g pinned o s]
              | _ => [export_resource g pinned o s]
              end) (subjects g).

(* NewTriples with the ghost origins put back (the renaming the real fresh nodes realise) *)
Fixpoint flatten_stmt (s : node) (st : stmt) : list triple :=
  match st with
  | SObj p o => [(s, p, o)]
  | SAnon p b sub =>
      (fix go (l : list stmt) : list triple :=
         match l with [] => [] | x :: r => flatten_stmt (NBlank b) x ++ go r end) sub ++ [(s, p, NBlank b)]
  | SOut => []
  end.
Definition flatten_stmts (s : node) (sts : list stmt) : list triple := flat_map (flatten_stmt s) sts.

Definition flatten_resource (r : resource) : list triple :=
  match r with
  | RSubj s sts => flatten_stmts s sts
  | RAnon b sts => flatten_stmts (NBlank b) sts
  end.

Definition flatten (rs : list resource) : list triple := flat_map flatten_resource rs.

(* the blank nodes that lost their name (were replaced by fresh nodes when flattened for real) *)
Fixpoint anon_origins_stmt (st : stmt) : list nat :=
  match st with
  | SObj _ _ => []
  | SAnon _ b sub =>
      b :: (fix go (l : list stmt) : list nat :=
              match l with [] => [] | x :: r => anon_origins_stmt x ++ go r end) sub
  | SOut => []
  end.

(* did the export hit the model's fuel limit anywhere? *)
Fixpoint out_of_fuel_stmt (st : stmt) : bool :=
  match st with
  | SObj _ _ => false
  | SAnon _ _ sub => (fix go (l : list stmt) : bool := match l with [] => false | x :: r => out_of_fuel_stmt x || go r end) sub
  | SOut => true
  end.
Definition out_of_fuel (rs : list resource) : bool :=
  existsb (fun r => match r with RSubj _ sts | RAnon _ sts => existsb out_of_fuel_stmt sts end) rs.
Definition anon_origins_stmts (sts : list stmt) : list nat := flat_map anon_origins_stmt sts.
Definition anon_origins (rs : list resource) : list nat :=
  flat_map (fun r => match r with
                     | RSubj _ sts => anon_origins_stmts sts
                     | RAnon b sts => b :: anon_origins_stmts sts
                     end) rs.

(* ---------- dataset builder ---------- *)
Definition gname := option node.
Definition gname_eqb (a b : gname) : bool :=
  match a, b with
  | None, None => true
  | Some x, Some y => node_eqb x y
  | _, _ => false
  end.
Definition quad := (triple * gname)%type.

(* graphByBlankNode / sharedBlankNodes after adding all quads in order *)
Definition track (st : list (nat * gname) * list nat) (g : gname) (t : node) : list (nat * gname) * list nat :=
  match t with
  | NBlank b =>
      let '(first, shared) := st in
      match find (fun e => Nat.eqb (fst e) b) first with
      | None => (first ++ [(b, g)], shared)
      | Some (_, g0) => if gname_eqb g0 g then st else (first, b :: shared)
      end
  | _ => st
  end.

Definition track_quad (st : list (nat * gname) * list nat) (q : quad) : list (nat * gname) * list nat :=
  let '(t, g) := q in
  let st1 := track (track st g (t_s t)) g (t_o t) in
  match g with
  | Some (NBlank b) => (fst st1, b :: snd st1)
  | _ => st1
  end.

Definition shared_of (qs : list quad) : list nat := snd (fold_left track_quad qs ([], [])).

Fixpoint gnames_aux (qs : list quad) (seen : list gname) : list gname :=
  match qs with
  | [] => []
  | (_, g) :: qs' => if existsb (gname_eqb g) seen then gnames_aux qs' seen else g :: gnames_aux qs' (g :: seen)
  end.

Definition graph_of (qs : list quad) (g : gname) : graph :=
  map fst (filter (fun q => gname_eqb (snd q) g) qs).

Definition export_dataset (qs : list quad) (o : opts) : list (gname * list resource) :=
  let pinned := shared_of qs in
  map (fun g => (g, export (graph_of qs g) pinned o)) (gnames_aux qs []).

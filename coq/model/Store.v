(* Store.v — model of x/storage/inmemory (Dataset, Graph, iterators) and of the
   term / triple / quad matchers of rdf/terms, rdf/triples, rdf/quads.
   The Go structure is mirrored: graphs (a map keyed by graph name) each holding
   buckets keyed by the interned subject node, each bucket a list of statements.
   Interning makes node identity coincide with key equality; keys are modelled by
   structural term equality (see [lit_key] for the literal key's preimage). *)
From RK Require Import Base.

Inductive term :=
| TIri (i : bytes)
| TBlank (f : N) (v : N)
| TLit (dt : bytes) (lex : bytes) (lang : option bytes) (dir : option bytes).

Definition opt_beq (a b : option bytes) : bool :=
  match a, b with
  | None, None => true
  | Some x, Some y => beq x y
  | _, _ => false
  end.

Definition term_eqb (a b : term) : bool :=
  match a, b with
  | TIri x, TIri y => beq x y
  | TBlank f v, TBlank g w => N.eqb f g && N.eqb v w
  | TLit d l t r, TLit d' l' t' r' => beq d d' && beq l l' && opt_beq t t' && opt_beq r r'
  | _, _ => false
  end.

Definition gname := option term.
Definition gname_eqb (a b : gname) : bool :=
  match a, b with
  | None, None => true
  | Some x, Some y => term_eqb x y
  | _, _ => false
  end.

Record quad := Quad { q_s : term; q_p : term; q_o : term; q_g : gname }.
Definition quad_eqb (a b : quad) : bool :=
  term_eqb (q_s a) (q_s b) && term_eqb (q_p a) (q_p b) && term_eqb (q_o a) (q_o b) && gname_eqb (q_g a) (q_g b).

(* the preimage hashed for nodesByLiteral: datatype LF [lang="..." [; dir="..."] LF] lexical *)
Definition quote_go (s : bytes) : bytes := 34%N :: s ++ [34%N].   (* %q on strings without specials *)
Definition lit_key (t : term) : bytes :=
  match t with
  | TLit d l tg dr =>
      d ++ [10%N] ++
      (match tg, dr with
       | Some lg, None => s2b "lang=" ++ quote_go lg ++ [10%N]
       | Some lg, Some di => s2b "lang=" ++ quote_go lg ++ s2b "; dir=" ++ quote_go di ++ [10%N]
       | None, _ => []
       end) ++ l
  | _ => []
  end.

(* ---------- the store ---------- *)
Definition bucket := (term * list (term * term))%type.          (* subject node -> statements (p, o) *)
Definition graph := (gname * list bucket)%type.
Definition store := list graph.

Definition store0 : store := [(None, [])].                      (* NewDataset creates the default graph *)

(* Go map access by key, as association lists (first binding wins; one binding per key is an invariant) *)
Fixpoint afind {K V} (eqb : K -> K -> bool) (k : K) (l : list (K * V)) : option V :=
  match l with
  | [] => None
  | (n, v) :: l' => if eqb n k then Some v else afind eqb k l'
  end.

Fixpoint aset {K V} (eqb : K -> K -> bool) (k : K) (v : V) (l : list (K * V)) : list (K * V) :=
  match l with
  | [] => [(k, v)]
  | (n, old) :: l' => if eqb n k then (n, v) :: l' else (n, old) :: aset eqb k v l'
  end.

Definition find_graph (g : gname) (st : store) : option (list bucket) := afind gname_eqb g st.
Definition set_graph (g : gname) (bs : list bucket) (st : store) : store := aset gname_eqb g bs st.
Definition find_bucket (s : term) (bs : list bucket) : list (term * term) :=
  match afind term_eqb s bs with Some l => l | None => [] end.
Definition set_bucket (s : term) (l : list (term * term)) (bs : list bucket) : list bucket := aset term_eqb s l bs.

Definition po_eqb (a b : term * term) : bool := term_eqb (fst a) (fst b) && term_eqb (snd a) (snd b).

(* d.graphs[g], creating the graph when missing (AddQuad, DeleteQuad, GetGraph) *)
Definition ensure_graph (g : gname) (st : store) : store :=
  match find_graph g st with Some _ => st | None => set_graph g [] st end.

Definition add_quad (st : store) (q : quad) : store :=
  let st1 := ensure_graph (q_g q) st in
  let bs := match find_graph (q_g q) st1 with Some b => b | None => [] end in
  let l := find_bucket (q_s q) bs in
  if existsb (po_eqb (q_p q, q_o q)) l then st1
  else set_graph (q_g q) (set_bucket (q_s q) (l ++ [(q_p q, q_o q)]) bs) st1.

Definition del_quad (st : store) (q : quad) : store :=
  let st1 := ensure_graph (q_g q) st in
  let bs := match find_graph (q_g q) st1 with Some b => b | None => [] end in
  let l := find_bucket (q_s q) bs in
  if existsb (po_eqb (q_p q, q_o q)) l
  then set_graph (q_g q) (set_bucket (q_s q) (filter (fun x => negb (po_eqb (q_p q, q_o q) x)) l) bs) st1
  else st1.

Definition has_quad (st : store) (q : quad) : bool :=
  match find_graph (q_g q) st with
  | None => false
  | Some bs => existsb (po_eqb (q_p q, q_o q)) (find_bucket (q_s q) bs)
  end.

(* ---------- matchers ---------- *)
Inductive tmatch :=
| MEq (t : term)
| MOneOf (ts : list term)
| MIsIri | MIsBlank | MIsLit
| MLitDt (m : tmatch)
| MAnd (l : list tmatch)
| MOr (l : list tmatch)
| MNot (m : tmatch).

(* MatchTerm; [None] is the nil term handed in for the default graph's name *)
Fixpoint tmatches (m : tmatch) (t : option term) {struct m} : bool :=
  match m with
  | MEq e => match t with Some x => term_eqb e x | None => false end
  | MOneOf es => match t with Some x => existsb (fun e => term_eqb e x) es | None => false end
  | MIsIri => match t with Some (TIri _) => true | _ => false end
  | MIsBlank => match t with Some (TBlank _ _) => true | _ => false end
  | MIsLit => match t with Some (TLit _ _ _ _) => true | _ => false end
  | MLitDt d => match t with Some (TLit dt _ _ _) => tmatches d (Some (TIri dt)) | _ => false end
  | MAnd l => (fix all (l : list tmatch) : bool := match l with [] => true | x :: l' => tmatches x t && all l' end) l
  | MOr l => (fix any (l : list tmatch) : bool := match l with [] => false | x :: l' => tmatches x t || any l' end) l
  | MNot x => negb (tmatches x t)
  end.

Inductive trmatch := TS (m : tmatch) | TP (m : tmatch) | TO (m : tmatch).
Inductive qmatch := QS (m : tmatch) | QP (m : tmatch) | QO (m : tmatch) | QG (m : tmatch) | QT (m : trmatch).

Definition trmatches (m : trmatch) (s p o : term) : bool :=
  match m with
  | TS x => tmatches x (Some s)
  | TP x => tmatches x (Some p)
  | TO x => tmatches x (Some o)
  end.

Definition qmatches (m : qmatch) (q : quad) : bool :=
  match m with
  | QS x => tmatches x (Some (q_s q))
  | QP x => tmatches x (Some (q_p q))
  | QO x => tmatches x (Some (q_o q))
  | QG x => tmatches x (q_g q)
  | QT x => trmatches x (q_s q) (q_p q) (q_o q)
  end.

(* ---------- iteration as coded (fast path for exactly one subject matcher) ---------- *)
Definition graph_quads (g : gname) (bs : list bucket) : list quad :=
  flat_map (fun '(s, l) => map (fun '(p, o) => Quad s p o g) l) bs.

Definition split_subject_q (ms : list qmatch) : list tmatch * list qmatch :=
  fold_right (fun m '(ss, os) => match m with QT (TS x) => (x :: ss, os) | _ => (ss, m :: os) end) ([], []) ms.

Definition graph_iter_q (g : gname) (bs : list bucket) (ms : list qmatch) : list quad :=
  match ms with
  | [] => graph_quads g bs
  | _ =>
      match split_subject_q ms with
      | ([sm], others) =>
          flat_map (fun '(s, l) =>
                      if tmatches sm (Some s)
                      then filter (fun q => forallb (fun m => qmatches m q) others) (map (fun '(p, o) => Quad s p o g) l)
                      else []) bs
      | _ => filter (fun q => forallb (fun m => qmatches m q) ms) (graph_quads g bs)
      end
  end.

Definition iter_quads (st : store) (ms : list qmatch) : list quad :=
  flat_map (fun '(g, bs) => graph_iter_q g bs ms) st.

Definition split_subject_t (ms : list trmatch) : list tmatch * list trmatch :=
  fold_right (fun m '(ss, os) => match m with TS x => (x :: ss, os) | _ => (ss, m :: os) end) ([], []) ms.

Definition graph_iter_t (g : gname) (bs : list bucket) (ms : list trmatch) : list quad :=
  match ms with
  | [] => graph_quads g bs
  | _ =>
      match split_subject_t ms with
      | ([sm], others) =>
          flat_map (fun '(s, l) =>
                      if tmatches sm (Some s)
                      then filter (fun q => forallb (fun m => trmatches m (q_s q) (q_p q) (q_o q)) others)
                                  (map (fun '(p, o) => Quad s p o g) l)
                      else []) bs
      | _ => filter (fun q => forallb (fun m => trmatches m (q_s q) (q_p q) (q_o q)) ms) (graph_quads g bs)
      end
  end.

(* GetGraph(g).NewTripleIterator(ms): GetGraph creates the graph when missing *)
Definition iter_triples (st : store) (g : gname) (ms : list trmatch) : list quad :=
  match find_graph g st with Some bs => graph_iter_t g bs ms | None => [] end.

Definition all_quads (st : store) : list quad := flat_map (fun '(g, bs) => graph_quads g bs) st.

(* ---------- histories ---------- *)
Inductive sop :=
| SAdd (q : quad) | SDel (q : quad) | SHas (q : quad) | SIter (ms : list qmatch)
| SGetGraph (g : gname) | SGIter (g : gname) (ms : list trmatch).

Inductive sout := SUnit | SBool (b : bool) | SQuads (l : list quad).

Definition sstep (st : store) (o : sop) : store * sout :=
  match o with
  | SAdd q => (add_quad st q, SUnit)
  | SDel q => (del_quad st q, SUnit)
  | SHas q => (st, SBool (has_quad st q))
  | SIter ms => (st, SQuads (iter_quads st ms))
  | SGetGraph g => (ensure_graph g st, SUnit)
  | SGIter g ms => let st' := ensure_graph g st in (st', SQuads (iter_triples st' g ms))
  end.

Fixpoint srun_from (st : store) (ops : list sop) : store * list sout :=
  match ops with
  | [] => (st, [])
  | o :: ops' => let '(st', r) := sstep st o in let '(st'', rs) := srun_from st' ops' in (st'', r :: rs)
  end.

(* ---------- the abstract specification: a duplicate-free list used as a set ---------- *)
Definition qset := list quad.
Definition qmem (q : quad) (s : qset) : bool := existsb (quad_eqb q) s.
Definition spec_step (s : qset) (o : sop) : qset * sout :=
  match o with
  | SAdd q => (if qmem q s then s else s ++ [q], SUnit)
  | SDel q => (filter (fun x => negb (quad_eqb q x)) s, SUnit)
  | SHas q => (s, SBool (qmem q s))
  | SIter ms => (s, SQuads (filter (fun q => forallb (fun m => qmatches m q) ms) s))
  | SGetGraph _ => (s, SUnit)
  | SGIter g ms => (s, SQuads (filter (fun q => gname_eqb (q_g q) g && forallb (fun m => trmatches m (q_s q) (q_p q) (q_o q)) ms) s))
  end.
Fixpoint spec_run_from (s : qset) (ops : list sop) : qset * list sout :=
  match ops with
  | [] => (s, [])
  | o :: ops' => let '(s', r) := spec_step s o in let '(s'', rs) := spec_run_from s' ops' in (s'', r :: rs)
  end.

(* Registry.v — rdfio/rdfiotypes/registry.go: how the decoder and encoder type of a resource is resolved from an
   explicit type (alias or identifier), the media type, the file name and the first bytes. The Go maps are association
   lists; iteration over the file extension map happens in an arbitrary order, so the list order stands for it. *)
From RK Require Import Base.

Fixpoint lookup_b (k : bytes) (l : list (bytes * bytes)) : option bytes :=
  match l with [] => None | (a, b) :: t => if beq a k then Some b else lookup_b k t end.
Definition mem_b (k : bytes) (l : list bytes) : bool := existsb (beq k) l.

(* strings.ToLower on ASCII *)
Definition lower (s : bytes) : bytes := map (fun c => if (65 <=? c)%N && (c <=? 90)%N then (c + 32)%N else c) s.

(* strings.HasSuffix *)
Definition ends_with (s e : bytes) : bool := is_prefix (rev e) (rev s).

Record registry := Registry {
  r_aliases : list (bytes * bytes);
  r_decoders : list bytes;
  r_encoders : list bytes;
  r_media : list (bytes * bytes);
  r_exts : list (bytes * bytes)
}.

Definition explicit (r : registry) (managers : list bytes) (t : bytes) : option bytes :=
  match t with
  | [] => None
  | _ => match lookup_b t (r_aliases r) with
         | Some c => Some c
         | None => if mem_b t managers then Some t else None
         end
  end.

(* the first extension, in iteration order, which ends the lower-cased file name *)
Fixpoint by_ext (exts : list (bytes * bytes)) (name : bytes) : option bytes :=
  match exts with
  | [] => None
  | (e, c) :: t => if ends_with name e then Some c else by_ext t name
  end.

(* ResolveDecoderType: explicit type, media type, file extension, magic bytes (the verdict of the resolvers, run in
   their registered order, is an input here) *)
Definition resolve_decoder (r : registry) (t : bytes) (media : option bytes) (fname : option bytes) (magic : option bytes) : option bytes :=
  match explicit r (r_decoders r) t with
  | Some c => Some c
  | None =>
      match (match media with Some m => lookup_b (lower m) (r_media r) | None => None end) with
      | Some c => Some c
      | None =>
          match (match fname with Some n => by_ext (r_exts r) (lower n) | None => None end) with
          | Some c => Some c
          | None => magic
          end
      end
  end.

(* filepath.Ext: from the last dot of the last path element *)
Fixpoint ext_scan (s : bytes) (cur : option bytes) : option bytes :=
  match s with
  | [] => cur
  | c :: t => if N.eqb c 47 then ext_scan t None
              else if N.eqb c 46 then ext_scan t (Some s)
              else ext_scan t cur
  end.
Definition file_ext (name : bytes) : bytes := match ext_scan name None with Some e => e | None => [] end.

(* ResolveEncoderType: explicit type, then the exact extension *)
Definition resolve_encoder (r : registry) (t : bytes) (fname : option bytes) : option bytes :=
  match explicit r (r_encoders r) t with
  | Some c => Some c
  | None => match fname with Some n => lookup_b (file_ext n) (r_exts r) | None => None end
  end.

(* no registered extension ends another one registered for a different type: then the iteration order cannot matter *)
Definition exts_consistent (exts : list (bytes * bytes)) : bool :=
  forallb (fun a => forallb (fun b => negb (ends_with (fst a) (fst b)) || beq (snd a) (snd b)) exts) exts.

(* Protocol.v — the Next/Err iterator protocols as coded, over an abstract parse outcome.
   Shape A: parse everything on the first Next, then index (rdfjson, jsonld, htmlrdfa, htmlmicrodata).
   Shape B: the same with an early return when the parse failed (rdfxml after its fix).
   Shape C: streaming with an error latch (ntriples, nquads; turtle and trig have the same latch). *)
From RK Require Import Base.

(* outcome of the one-shot parse: number of statements collected, and whether it failed *)
Record outcome := Outcome { o_n : nat; o_failed : bool }.

Record istate := IState { i_err : bool; i_parsed : bool; i_idx : nat; i_n : nat }.
Definition istate0 : istate := IState false false 0 0.

(* Shape A:  if err {return false}; if idx == -1 {err = parse()}; idx++; return idx < len(statements)
   (i_idx counts idx+1 so that it stays a natural number) *)
Definition next_a (o : outcome) (s : istate) : bool * istate :=
  if i_err s then (false, s)
  else
    let s1 := if i_parsed s then s else IState (o_failed o) true 0 (o_n o) in
    let idx := S (i_idx s1) in
    (Nat.ltb (i_idx s1) (i_n s1), IState (i_err s1) true idx (i_n s1)).

(* Shape B:  if err {return false}; if idx == -1 {parse(); if err {return false}}; idx++; return idx < len *)
Definition next_b (o : outcome) (s : istate) : bool * istate :=
  if i_err s then (false, s)
  else
    let s1 := if i_parsed s then s else IState (o_failed o) true 0 (o_n o) in
    if i_err s1 then (false, s1)
    else (Nat.ltb (i_idx s1) (i_n s1), IState false true (S (i_idx s1)) (i_n s1)).

(* Shape C: streaming; each Next reads on from where the last one stopped; after the clean end the
   reader keeps answering EOF *)
Inductive ev := EStmt | EEnd | EFail.
Record cstate := CState { c_err : bool; c_rest : list ev }.
Definition next_c (s : cstate) : bool * cstate :=
  if c_err s then (false, s)
  else match c_rest s with
       | EStmt :: r => (true, CState false r)
       | EFail :: r => (false, CState true r)
       | EEnd :: _ | [] => (false, CState false [])    (* clean end; the reader stays at EOF *)
       end.

(* k calls of Next: the answers and the error flag after each call *)
Fixpoint calls {S} (next : S -> bool * S) (err : S -> bool) (k : nat) (s : S) : list (bool * bool) :=
  match k with
  | O => []
  | S k' => let '(b, s') := next s in (b, err s') :: calls next err k' s'
  end.

(* once Next has answered false, every later answer is false and the error flag no longer changes *)
Fixpoint latched (l : list (bool * bool)) : Prop :=
  match l with
  | [] => True
  | (true, _) :: l' => latched l'
  | (false, e) :: l' => Forall (fun be => be = (false, e)) l'
  end.

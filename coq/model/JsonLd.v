(* JsonLd.v — the dataset a JSON-LD 1.1 document denotes (JSON-LD 1.1 API: context processing 4.1, create term
   definition 4.2, IRI expansion 5.2, expansion 5.1, value expansion 5.3, deserialize to RDF 8), for the part of the
   language the property names: inline contexts with prefixes, simple and expanded term definitions (@id, @type,
   @language, @container @list / @set), keyword aliases, @vocab, @base, @language; node objects, @type, value objects,
   typed and language-tagged values, native booleans and integers, @list, @set, @graph named graphs, embedded nodes.
   Everything else (remote contexts, scoped contexts, @reverse, @nest, @included, @index, @json, @direction, non-integer
   numbers, protected terms) is outside: the model answers None there and the correspondence skips the case.
   Expansion and RDF conversion are done in one pass over the JSON tree; the JSON text itself is not modelled. *)
From RK Require Import Base Iri3986.

Inductive json :=
| JNull | JBool (b : bool) | JInt (z : Z) | JStr (s : bytes) | JArr (l : list json) | JObj (m : list (bytes * json)).

Inductive jterm := TI (iri : bytes) | TB (gen : bool) (label : bytes) | TL (lex dt lang : bytes).   (* lang [] = none *)
Definition jquad := (jterm * bytes * jterm * option jterm)%type.

Definition RDFNS : bytes := s2b "http://www.w3.org/1999/02/22-rdf-syntax-ns#".
Definition XSDNS : bytes := s2b "http://www.w3.org/2001/XMLSchema#".
Definition rdf (l : String.string) : bytes := RDFNS ++ s2b l.
Definition xsd (l : String.string) : bytes := XSDNS ++ s2b l.
Arguments rdf l%string.
Arguments xsd l%string.

Inductive tmap := TyNone | TyId | TyVocab | TyIri (i : bytes).
Inductive lmap := LgUnset | LgNull | LgTag (l : bytes).
Record termdef := TD { td_iri : bytes; td_type : tmap; td_lang : lmap; td_list : bool; td_prefix : bool }.

Record actx := ACtx { a_base : bytes; a_vocab : option bytes; a_lang : option bytes; a_terms : list (bytes * option termdef) }.

Fixpoint lookup {A} (k : bytes) (l : list (bytes * A)) : option A :=
  match l with [] => None | (a, v) :: t => if beq a k then Some v else lookup k t end.
Definition mem (k : bytes) (l : list bytes) : bool := existsb (beq k) l.

Definition keywords : list bytes :=
  map s2b ["@id"; "@type"; "@value"; "@language"; "@list"; "@set"; "@graph"; "@context"; "@base"; "@vocab"; "@container";
           "@reverse"; "@index"; "@nest"; "@included"; "@json"; "@none"; "@direction"; "@version"; "@import"; "@prefix";
           "@propagate"; "@protected"]%string.
Definition is_keyword (s : bytes) : bool := mem s keywords.
Definition at_form (s : bytes) : bool := match s with 64%N :: _ => true | _ => false end.

(* prefix:suffix at the first colon, which is not the first character *)
Definition split_colon (s : bytes) : option (bytes * bytes) :=
  match s with
  | [] => None
  | 58%N :: _ => None
  | _ => match cut 58 s with (p, Some sfx) => Some (p, sfx) | _ => None end
  end.

Definition is_gen_delim (c : N) : bool :=
  N.eqb c 58 || N.eqb c 47 || N.eqb c 63 || N.eqb c 35 || N.eqb c 91 || N.eqb c 93 || N.eqb c 64.
Definition ends_gen_delim (s : bytes) : bool := match rev s with c :: _ => is_gen_delim c | [] => false end.
Definition is_bnode_id (s : bytes) : bool := is_prefix (s2b "_:") s.
Definition has_slash (s : bytes) : bool := existsb (N.eqb 47) s.

Definition resolve_base (base ref : bytes) : bytes :=
  match base with [] => ref | _ => Iri3986.resolve base ref end.

(* 5.2 IRI expansion. mk defines a term of the local context which is not defined yet (context processing only);
   lc are the keys of that local context, dn the terms already defined. *)
Definition expand_with (mk : actx -> list bytes -> bytes -> option (actx * list bytes))
           (lc : list bytes) (a : actx) (dn : list bytes) (v : bytes) (vocab docrel : bool)
  : option (option bytes * actx * list bytes) :=
  if is_keyword v then Some (Some v, a, dn)
  else if at_form v then None
  else
    let dep (t : bytes) (a : actx) (dn : list bytes) := if mem t lc && negb (mem t dn) then mk a dn t else Some (a, dn) in
    match dep v a dn with
    | None => None
    | Some (a, dn) =>
        match (match lookup v (a_terms a) with
               | Some (Some td) => if is_keyword (td_iri td) || vocab then Some (Some td) else None
               | Some None => if vocab then Some None else None
               | None => None
               end) with
        | Some (Some td) => Some (Some (td_iri td), a, dn)
        | Some None => Some (None, a, dn)
        | None =>
            let fallback (a : actx) (dn : list bytes) :=
              match vocab, a_vocab a with
              | true, Some voc => Some (Some (voc ++ v), a, dn)
              | _, _ => if docrel then Some (Some (resolve_base (a_base a) v), a, dn) else Some (Some v, a, dn)
              end in
            match split_colon v with
            | Some (p, sfx) =>
                if beq p (s2b "_") || is_prefix (s2b "//") sfx then Some (Some v, a, dn)
                else match dep p a dn with
                     | None => None
                     | Some (a, dn) =>
                         match lookup p (a_terms a) with
                         | Some (Some td) => if td_prefix td then Some (Some (td_iri td ++ sfx), a, dn)
                                             else if has_scheme v then Some (Some v, a, dn) else fallback a dn
                         | _ => if has_scheme v then Some (Some v, a, dn) else fallback a dn
                         end
                     end
            | None => fallback a dn
            end
        end
    end.

Definition expand_iri (a : actx) (v : bytes) (vocab docrel : bool) : option (option bytes) :=
  match expand_with (fun a dn _ => Some (a, dn)) [] a [] v vocab docrel with
  | Some (r, _, _) => Some r
  | None => None
  end.

(* characters an IRI cannot hold: statements with such IRIs are dropped by the conversion to RDF; the model declines *)
Definition iri_chars_ok (s : bytes) : bool :=
  forallb (fun c => negb ((c <=? 32)%N || N.eqb c 60 || N.eqb c 62 || N.eqb c 34 || N.eqb c 123 || N.eqb c 125 || N.eqb c 124 || N.eqb c 92 || N.eqb c 94 || N.eqb c 96)) s.
Definition lang_chars_ok (l : bytes) : bool := forallb (fun c => (32 <? c)%N) l.

Definition is_abs (s : bytes) : bool := has_scheme s && negb (is_bnode_id s) && iri_chars_ok s.

(* 4.2 create term definition *)
Fixpoint create_term (fuel : nat) (lc : list (bytes * json)) (a : actx) (dn : list bytes) (term : bytes)
  : option (actx * list bytes) :=
  match fuel with
  | O => None
  | S f =>
      if mem term dn then Some (a, dn)
      else if is_keyword term || at_form term || match term with [] => true | _ => false end then None
      else
        let keys := map fst lc in
        (* a previous definition of the term is removed first *)
        let a := ACtx (a_base a) (a_vocab a) (a_lang a) (filter (fun kv => negb (beq (fst kv) term)) (a_terms a)) in
        let ex := expand_with (create_term f lc) keys in
        let finish (a : actx) (dn : list bytes) (d : option termdef) := Some (ACtx (a_base a) (a_vocab a) (a_lang a) ((term, d) :: a_terms a), term :: dn) in
        let body (simple : bool) (m : list (bytes * json)) :=
          if negb (forallb (fun kv => mem (fst kv) (map s2b ["@id"; "@type"; "@language"; "@container"; "@prefix"]%string)) m) then None
          else if (match lookup (s2b "@prefix") m with Some (JBool _) | None => false | Some _ => true end) then None
          else if (match lookup (s2b "@prefix") m, split_colon term with Some _, Some _ => true | _, _ => has_slash term && (match lookup (s2b "@prefix") m with Some _ => true | None => false end) end) then None
          else
            (* type mapping *)
            match (match lookup (s2b "@type") m with
                   | None => Some (TyNone, a, dn)
                   | Some (JStr t) =>
                       match ex a dn t true false with
                       | Some (Some r, a, dn) =>
                           if beq r (s2b "@id") then Some (TyId, a, dn)
                           else if beq r (s2b "@vocab") then Some (TyVocab, a, dn)
                           else if is_abs r then Some (TyIri r, a, dn) else None
                       | _ => None
                       end
                   | Some _ => None
                   end) with
            | None => None
            | Some (ty, a, dn) =>
                (* IRI mapping *)
                match (match lookup (s2b "@id") m with
                       | Some (JStr i) =>
                           if beq i term then None   (* falls to the other branches in the specification; not generated *)
                           else
                             match ex a dn i true false with
                             | Some (Some r, a, dn) =>
                                 if is_keyword r then (if beq r (s2b "@context") then None else Some (r, simple, a, dn))
                                 else if is_abs r || is_bnode_id r then
                                   match split_colon term with
                                   | Some _ =>
                                       (* 14.2.4: a term which looks like a compact IRI must expand to its own mapping *)
                                       match ex a (term :: dn) term false false with
                                       | Some (Some r', _, _) => if beq r r' then Some (r, false, a, dn) else None
                                       | _ => None
                                       end
                                   | None =>
                                       if has_slash term then None
                                       else Some (r, simple && (ends_gen_delim r || is_bnode_id r), a, dn)
                                   end
                                 else None
                             | _ => None
                             end
                       | Some _ => None
                       | None =>
                           match split_colon term with
                           | Some (p, sfx) =>
                               match (if mem p keys && negb (mem p dn) then create_term f lc a dn p else Some (a, dn)) with
                               | None => None
                               | Some (a, dn) =>
                                   match lookup p (a_terms a) with
                                   | Some (Some td) => Some (td_iri td ++ sfx, false, a, dn)
                                   | Some None => None
                                   | None => if is_abs term || is_bnode_id term then Some (term, false, a, dn) else None
                                   end
                               end
                           | None =>
                               if has_slash term then None
                               else match a_vocab a with
                                    | Some voc => Some (voc ++ term, false, a, dn)
                                    | None => None
                                    end
                           end
                       end) with
                | None => None
                | Some (iri, pfx, a, dn) =>
                    match (match lookup (s2b "@container") m with
                           | None => Some false
                           | Some (JStr c) | Some (JArr [JStr c]) =>
                               if beq c (s2b "@list") then Some true else if beq c (s2b "@set") then Some false else None
                           | Some _ => None
                           end) with
                    | None => None
                    | Some lst =>
                        match (match lookup (s2b "@language") m, ty with
                               | None, _ => Some LgUnset
                               | Some _, (TyId | TyVocab | TyIri _) => Some LgUnset
                               | Some JNull, TyNone => Some LgNull
                               | Some (JStr l), TyNone => if lang_chars_ok l then Some (LgTag l) else None
                               | Some _, TyNone => None
                               end) with
                        | None => None
                        | Some lg =>
                            let pfx := match lookup (s2b "@prefix") m with Some (JBool b) => b | _ => pfx end in
                            finish a dn (Some (TD iri ty lg lst pfx))
                        end
                    end
                end
            end in
        match lookup term lc with
        | Some JNull => finish a dn None
        | Some (JStr s) => body true [(s2b "@id", JStr s)]
        | Some (JObj m) =>
            match lookup (s2b "@id") m with
            | Some JNull => None
            | _ => body false m
            end
        | _ => None
        end
  end.

(* 4.1 context processing, one context object *)
Definition ctx_keywords : list bytes := map s2b ["@base"; "@vocab"; "@language"]%string.

Definition process_obj (a : actx) (lc : list (bytes * json)) : option actx :=
  (* no key twice *)
  if negb (Nat.eqb (length (nodup_b beq (map fst lc))) (length lc)) then None else
  match (match lookup (s2b "@base") lc with
         | None => Some a
         | Some (JStr b) => Some (ACtx (if has_scheme b then b else resolve_base (a_base a) b) (a_vocab a) (a_lang a) (a_terms a))
         | Some _ => None
         end) with
  | None => None
  | Some a =>
      match (match lookup (s2b "@vocab") lc with
             | None => Some a
             | Some (JStr []) => None
             | Some (JStr v) =>
                 match expand_iri a v true true with
                 | Some (Some r) => if is_abs r || is_bnode_id r then Some (ACtx (a_base a) (Some r) (a_lang a) (a_terms a)) else None
                 | _ => None
                 end
             | Some JNull => Some (ACtx (a_base a) None (a_lang a) (a_terms a))
             | Some _ => None
             end) with
      | None => None
      | Some a =>
          match (match lookup (s2b "@language") lc with
                 | None => Some a
                 | Some (JStr l) => if lang_chars_ok l then Some (ACtx (a_base a) (a_vocab a) (Some l) (a_terms a)) else None
                 | Some JNull => Some (ACtx (a_base a) (a_vocab a) None (a_terms a))
                 | Some _ => None
                 end) with
          | None => None
          | Some a =>
              let fuel := S (S (length lc)) in
              match fold_left (fun st kv =>
                                 match st with
                                 | None => None
                                 | Some (a, dn) => if mem (fst kv) ctx_keywords then Some (a, dn) else create_term fuel lc a dn (fst kv)
                                 end) lc (Some (a, [])) with
              | Some (a, _) => Some a
              | None => None
              end
          end
      end
  end.

Definition process_ctx (base0 : bytes) (a : actx) (c : json) : option actx :=
  let one (a : option actx) (c : json) :=
    match a, c with
    | None, _ => None
    | Some _, JNull => Some (ACtx base0 None None [])
    | Some a, JObj lc => process_obj a lc
    | Some _, _ => None
    end in
  match c with
  | JArr l => fold_left one l (Some a)
  | _ => one (Some a) c
  end.

(* ---------- values ---------- *)

Definition classify (s : bytes) : option jterm :=
  if is_bnode_id s then Some (TB false (skipn 2 s)) else if has_scheme s && iri_chars_ok s then Some (TI s) else None.

Definition big21 : Z := 1000000000000000000000%Z.

Definition native_dt (td : option termdef) (dflt : bytes) : option bytes :=
  match td with
  | Some (TD _ (TyIri dt) _ _ _) => if beq dt (xsd "double") || beq dt (xsd "float") then None else Some dt
  | _ => Some dflt
  end.

Definition scalar_lit (a : actx) (td : option termdef) (v : json) : option (option jterm) :=
  match v with
  | JBool b => option_map (fun dt => Some (TL (s2b (if b then "true" else "false")%string) dt [])) (native_dt td (xsd "boolean"))
  | JInt z => if (Z.abs z <? big21)%Z then option_map (fun dt => Some (TL (decz_print z) dt [])) (native_dt td (xsd "integer")) else None
  | _ => None
  end.

Definition lang_lit (s : bytes) (l : option bytes) : jterm :=
  match l with Some ((_ :: _) as l) => TL s (rdf "langString") l | _ => TL s (xsd "string") [] end.

Definition str_value (a : actx) (td : option termdef) (s : bytes) : option jterm :=
  match td with
  | Some (TD _ TyId _ _ _) => match expand_iri a s false true with Some (Some r) => classify r | _ => None end
  | Some (TD _ TyVocab _ _ _) => match expand_iri a s true true with Some (Some r) => classify r | _ => None end
  | Some (TD _ (TyIri dt) _ _ _) => Some (TL s dt [])
  | Some (TD _ TyNone (LgTag l) _ _) => Some (lang_lit s (Some l))
  | Some (TD _ TyNone LgNull _ _) => Some (lang_lit s None)
  | _ => Some (lang_lit s (a_lang a))
  end.

(* the entries of an object with their keys expanded (vocab = true): (expanded key, original key, value) *)
Fixpoint expand_keys (a : actx) (m : list (bytes * json)) : option (list (option bytes * bytes * json)) :=
  match m with
  | [] => Some []
  | (k, v) :: t =>
      match expand_iri a k true false, expand_keys a t with
      | Some r, Some l => Some ((r, k, v) :: l)
      | _, _ => None
      end
  end.

Definition ek_lookup (kw : String.string) (l : list (option bytes * bytes * json)) : option json :=
  let k := s2b kw in
  match filter (fun e => match fst (fst e) with Some r => beq r k | None => false end) l with
  | [] => None
  | e :: _ => Some (snd e)
  end.
Definition ek_count (kw : String.string) (l : list (option bytes * bytes * json)) : nat :=
  let k := s2b kw in length (filter (fun e => match fst (fst e) with Some r => beq r k | None => false end) l).

Arguments ek_lookup kw%string l.
Arguments ek_count kw%string l.

Definition as_list (v : json) : list json := match v with JArr l => l | _ => [v] end.

Fixpoint link_list (cells objs : list jterm) (g : option jterm) : list jquad :=
  match cells, objs with
  | c1 :: ct, o1 :: ot =>
      (c1, rdf "first", o1, g) :: (c1, rdf "rest", match ct with [] => TI (rdf "nil") | c2 :: _ => c2 end, g) :: link_list ct ot g
  | _, _ => []
  end.

Definition gen_label (n : nat) : bytes := dec_print (N.of_nat n).

(* an element of a graph (top level, @graph) which is a value object or a list object is free-floating: it is dropped with
   everything in it *)
Definition free_floating (base0 : bytes) (a : actx) (v : json) : option bool :=
  match v with
  | JObj m =>
      match (match lookup (s2b "@context") m with Some c => process_ctx base0 a c | None => Some a end) with
      | None => None
      | Some a' => match expand_keys a' m with
                   | Some ek => Some (Nat.ltb 0 (ek_count "@value" ek) || Nat.ltb 0 (ek_count "@list" ek))
                   | None => None
                   end
      end
  | _ => Some false
  end.

Section Eval.
Variable base0 : bytes.

(* value object: its literal *)
Definition value_object (a : actx) (ek : list (option bytes * bytes * json)) : option (option jterm) :=
  if negb (forallb (fun e => match fst (fst e) with
                             | Some r => mem r (map s2b ["@value"; "@type"; "@language"; "@context"]%string)
                             | None => false end) ek) then None
  else if negb (Nat.eqb (ek_count "@value" ek) 1) || Nat.ltb 1 (ek_count "@type" ek) || Nat.ltb 1 (ek_count "@language" ek) then None
  else
    match ek_lookup "@type" ek, ek_lookup "@language" ek with
    | Some _, Some _ => None
    | Some (JStr t), None =>
        match expand_iri a t true true with
        | Some (Some dt) =>
            if is_abs dt then
              match ek_lookup "@value" ek with
              | Some (JStr s) => Some (Some (TL s dt []))
              | Some JNull => Some None
              | Some v => scalar_lit a (Some (TD [] (TyIri dt) LgUnset false false)) v
              | None => None
              end
            else None
        | _ => None
        end
    | Some _, None => None
    | None, Some (JStr l) =>
        if negb (lang_chars_ok l) then None else
        match ek_lookup "@value" ek with
        | Some (JStr s) => Some (Some (lang_lit s (Some l)))
        | Some JNull => Some None
        | _ => None
        end
    | None, Some JNull | None, None =>
        match ek_lookup "@value" ek with
        | Some (JStr s) => Some (Some (lang_lit s None))
        | Some JNull => Some None
        | Some v => scalar_lit a None v
        | None => None
        end
    | None, Some _ => None
    end.

Definition valuefn := actx -> option jterm -> option termdef -> json -> nat -> option (list jterm * list jquad * nat).
Definition nodefn := actx -> option jterm -> list (option bytes * bytes * json) -> nat -> option (jterm * list jquad * nat).

(* one level of a value: the objects it denotes under term definition td, the quads of embedded nodes, the counter;
   valuef and nodef evaluate the values and node objects below it *)
Definition value_step (valuef : valuefn) (nodef : nodefn) (a : actx) (g : option jterm) (td : option termdef) (v : json) (k : nat)
  : option (list jterm * list jquad * nat) :=
      let values (a : actx) (td : option termdef) (l : list json) (k : nat) :=
        fold_left (fun st v => match st with
                               | None => None
                               | Some (os, qs, k) =>
                                   match valuef a g td v k with
                                   | Some (os', qs', k') => Some (os ++ os', qs ++ qs', k')
                                   | None => None
                                   end
                               end) l (Some ([], [], k)) in
      let mklist (a : actx) (td : option termdef) (l : list json) (k : nat) :=
        (* no arrays directly inside a list: nested lists are written as list objects *)
        if existsb (fun v => match v with JArr _ => true | _ => false end) l then None else
        match values a td l k with
        | Some (os, qs, k') =>
            let cells := map (fun i => TB true (gen_label (k' + i))) (seq 0 (length os)) in
            Some ([match cells with [] => TI (rdf "nil") | h :: _ => h end], qs ++ link_list cells os g, k' + length os)
        | None => None
        end in
      match v with
      | JNull => Some ([], [], k)
      | JStr s => match str_value a td s with Some o => Some ([o], [], k) | None => None end
      | JBool _ | JInt _ => match scalar_lit a td v with Some (Some o) => Some ([o], [], k) | _ => None end
      | JArr l => values a td l k
      | JObj m =>
          match (match lookup (s2b "@context") m with Some c => process_ctx base0 a c | None => Some a end) with
          | None => None
          | Some a' =>
              match expand_keys a' m with
              | None => None
              | Some ek =>
                  if Nat.ltb 0 (ek_count "@value" ek) then
                    match value_object a' ek with
                    | Some (Some o) => Some ([o], [], k)
                    | Some None => Some ([], [], k)
                    | None => None
                    end
                  else if Nat.ltb 0 (ek_count "@list" ek) then
                    if negb (forallb (fun e => match fst (fst e) with Some r => beq r (s2b "@list") || beq r (s2b "@context") | None => false end) ek)
                       || negb (Nat.eqb (ek_count "@list" ek) 1) then None
                    else match ek_lookup "@list" ek with
                         | Some lv => mklist a' td (as_list lv) k
                         | None => None
                         end
                  else if Nat.ltb 0 (ek_count "@set" ek) then
                    if negb (forallb (fun e => match fst (fst e) with Some r => beq r (s2b "@set") || beq r (s2b "@context") | None => false end) ek)
                       || negb (Nat.eqb (ek_count "@set" ek) 1) then None
                    else match ek_lookup "@set" ek with
                         | Some sv => values a' td (as_list sv) k
                         | None => None
                         end
                  else
                    match nodef a' g ek k with
                    | Some (s, qs, k') => Some ([s], qs, k')
                    | None => None
                    end
              end
          end
      end
.

(* one level of a node object given by its expanded entries, in graph g: subject, quads, counter *)
Definition node_step (valuef : valuefn) (a : actx) (g : option jterm) (ek : list (option bytes * bytes * json)) (k : nat)
  : option (jterm * list jquad * nat) :=
      if Nat.ltb 1 (ek_count "@id" ek) || Nat.ltb 1 (ek_count "@graph" ek) then None else
      match (match ek_lookup "@id" ek with
             | None => Some (TB true (gen_label k), S k)
             | Some (JStr i) =>
                 match expand_iri a i false true with
                 | Some (Some r) => match classify r with Some s => Some (s, k) | None => None end
                 | _ => None
                 end
             | Some _ => None
             end) with
      | None => None
      | Some (s, k1) =>
          fold_left (fun st e =>
            match st with
            | None => None
            | Some (s, qs, k) =>
                let '(r, key, v) := e in
                match r with
                | None => Some (s, qs, k)                (* term mapped to null: dropped *)
                | Some r =>
                    if beq r (s2b "@id") || beq r (s2b "@context") then Some (s, qs, k)
                    else if beq r (s2b "@type") then
                      match opt_map_all (fun t => match t with
                                                  | JStr t => match expand_iri a t true true with
                                                              | Some (Some x) => classify x
                                                              | _ => None
                                                              end
                                                  | _ => None
                                                  end) (as_list v) with
                      | Some ts => Some (s, qs ++ map (fun t => (s, rdf "type", t, g)) ts, k)
                      | None => None
                      end
                    else if beq r (s2b "@graph") then
                      (* a named graph; its node objects are evaluated with the subject as the graph name *)
                      match g with
                      | Some _ => None       (* graphs inside graphs: not generated *)
                      | None =>
                          fold_left (fun st v =>
                            match st, v with
                            | Some (s, qs, k), JObj _ =>
                                match free_floating base0 a v with
                                | None => None
                                | Some true => Some (s, qs, k)
                                | Some false =>
                                    match valuef a (Some s) None v k with
                                    | Some (_, qs', k') => Some (s, qs ++ qs', k')
                                    | None => None
                                    end
                                end
                            | _, _ => None
                            end) (as_list v) (Some (s, qs, k))
                      end
                    else if is_keyword r then None
                    else if is_bnode_id r then None
                    else if negb (has_scheme r) then (if existsb (N.eqb 58) r then None else Some (s, qs, k))
                    else if negb (iri_chars_ok r) then None
                    else
                      let td := match lookup key (a_terms a) with Some d => d | None => None end in
                      let is_list_obj := match v with JObj _ => false | _ => true end in
                      match (match td with
                             | Some (TD _ _ _ true _) =>
                                 if is_list_obj then valuef a g td (JObj [(s2b "@list", JArr (as_list v))]) k else None
                             | _ => valuef a g td v k
                             end) with
                      | Some (os, qs', k') => Some (s, qs ++ qs' ++ map (fun o => (s, r, o, g)) os, k')
                      | None => None
                      end
                end
            end) ek (Some (s, [], k1))
      end.

(* the recursive calls are wrapped in closures so that eager evaluation (vm_compute, OCaml) descends only where
   the document does *)
Fixpoint value (fuel : nat) (a : actx) (g : option jterm) (td : option termdef) (v : json) (k : nat) {struct fuel}
  : option (list jterm * list jquad * nat) :=
  match fuel with
  | O => None
  | S f => value_step (fun a g td v k => value f a g td v k) (fun a g ek k => node f a g ek k) a g td v k
  end
with node (fuel : nat) (a : actx) (g : option jterm) (ek : list (option bytes * bytes * json)) (k : nat) {struct fuel}
  : option (jterm * list jquad * nat) :=
  match fuel with
  | O => None
  | S f => node_step (fun a g td v k => value f a g td v k) a g ek k
  end.

End Eval.

Fixpoint jsize (v : json) : nat :=
  match v with
  | JArr l => S (fold_right (fun c n => jsize c + n) 0 l)
  | JObj m => S (fold_right (fun c n => jsize (snd c) + n) 0 m)
  | _ => 1
  end.

(* the document: one node object, an object holding only @context and @graph (the default graph), or an array *)
Definition jsonld_doc (base : bytes) (doc : json) : option (list jquad) :=
  let a0 := ACtx base None None [] in
  let fuel := 2 * S (jsize doc) in
  let top (st : option (list jquad * nat)) (v : json) :=
    match st, v with
    | Some (qs, k), JObj _ =>
        match free_floating base a0 v with
        | None => None
        | Some true => Some (qs, k)
        | Some false =>
            match value base fuel a0 None None v k with
            | Some (_, qs', k') => Some (qs ++ qs', k')
            | None => None
            end
        end
    | _, _ => None
    end in
  match doc with
  | JObj m =>
      match (match lookup (s2b "@context") m with Some c => process_ctx base a0 c | None => Some a0 end) with
      | None => None
      | Some a =>
          match expand_keys a m with
          | None => None
          | Some ek =>
              if forallb (fun e => match fst (fst e) with Some r => beq r (s2b "@graph") || beq r (s2b "@context") | None => false end) ek
                 && Nat.eqb (ek_count "@graph" ek) 1 then
                match ek_lookup "@graph" ek with
                | Some gv =>
                    option_map fst
                      (fold_left (fun st v =>
                         match st, v with
                         | Some (qs, k), JObj _ =>
                             match free_floating base a v with
                             | None => None
                             | Some true => Some (qs, k)
                             | Some false =>
                                 match value base fuel a None None v k with
                                 | Some (_, qs', k') => Some (qs ++ qs', k')
                                 | None => None
                                 end
                             end
                         | _, _ => None
                         end) (as_list gv) (Some ([], 0)))
                | None => None
                end
              else option_map fst (top (Some ([], 0)) doc)
          end
      end
  | JArr l => option_map fst (fold_left top l (Some ([], 0)))
  | _ => None
  end.

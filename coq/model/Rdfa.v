(* Rdfa.v — the triples an HTML5 document with RDFa attributes denotes: the processing sequence of RDFa Core 1.1
   section 7.5 (new subject, current object resource, typed resource, incomplete triples, list mappings, skip element)
   with the HTML+RDFa 1.1 rules for head / body, base, lang and for terms in @rel next to @property, over an element
   tree as the HTML parser builds it. CURIE / term / IRI resolution follows section 7.4. Outside the model (the
   generator stays away): XMLLiteral / HTML literals, @datetime and the time element, rdfa:copy patterns, xmlns:
   prefixes, the full initial context (only the prefixes and terms listed below), vocabulary expansion. *)
From RK Require Import Base Iri3986 RdfXml.

Definition XHV : bytes := s2b "http://www.w3.org/1999/xhtml/vocab#".
Definition RDFA_USES : bytes := s2b "http://www.w3.org/ns/rdfa#usesVocabulary".

(* https://www.w3.org/2011/rdfa-context/rdfa-1.1: the prefixes of the RDFa 1.1 initial context *)
Definition initial_prefixes : list (bytes * bytes) :=
  [(s2b "as", s2b "https://www.w3.org/ns/activitystreams#");
   (s2b "csvw", s2b "http://www.w3.org/ns/csvw#");
   (s2b "dcat", s2b "http://www.w3.org/ns/dcat#");
   (s2b "dqv", s2b "http://www.w3.org/ns/dqv#");
   (s2b "duv", s2b "https://www.w3.org/ns/duv#");
   (s2b "grddl", s2b "http://www.w3.org/2003/g/data-view#");
   (s2b "jsonld", s2b "http://www.w3.org/ns/json-ld#");
   (s2b "ldp", s2b "http://www.w3.org/ns/ldp#");
   (s2b "ma", s2b "http://www.w3.org/ns/ma-ont#");
   (s2b "oa", s2b "http://www.w3.org/ns/oa#");
   (s2b "odrl", s2b "http://www.w3.org/ns/odrl/2/");
   (s2b "org", s2b "http://www.w3.org/ns/org#");
   (s2b "owl", s2b "http://www.w3.org/2002/07/owl#");
   (s2b "prov", s2b "http://www.w3.org/ns/prov#");
   (s2b "qb", s2b "http://purl.org/linked-data/cube#");
   (s2b "rdf", s2b "http://www.w3.org/1999/02/22-rdf-syntax-ns#");
   (s2b "rdfa", s2b "http://www.w3.org/ns/rdfa#");
   (s2b "rdfs", s2b "http://www.w3.org/2000/01/rdf-schema#");
   (s2b "rif", s2b "http://www.w3.org/2007/rif#");
   (s2b "rr", s2b "http://www.w3.org/ns/r2rml#");
   (s2b "sd", s2b "http://www.w3.org/ns/sparql-service-description#");
   (s2b "skos", s2b "http://www.w3.org/2004/02/skos/core#");
   (s2b "skosxl", s2b "http://www.w3.org/2008/05/skos-xl#");
   (s2b "ssn", s2b "http://www.w3.org/ns/ssn/");
   (s2b "sosa", s2b "http://www.w3.org/ns/sosa/");
   (s2b "time", s2b "http://www.w3.org/2006/time#");
   (s2b "void", s2b "http://rdfs.org/ns/void#");
   (s2b "wdr", s2b "http://www.w3.org/2007/05/powder#");
   (s2b "wdrs", s2b "http://www.w3.org/2007/05/powder-s#");
   (s2b "xhv", s2b "http://www.w3.org/1999/xhtml/vocab#");
   (s2b "xml", s2b "http://www.w3.org/XML/1998/namespace");
   (s2b "xsd", s2b "http://www.w3.org/2001/XMLSchema#");
   (s2b "cc", s2b "http://creativecommons.org/ns#");
   (s2b "ctag", s2b "http://commontag.org/ns#");
   (s2b "dc", s2b "http://purl.org/dc/terms/");
   (s2b "dcterms", s2b "http://purl.org/dc/terms/");
   (s2b "dc11", s2b "http://purl.org/dc/elements/1.1/");
   (s2b "foaf", s2b "http://xmlns.com/foaf/0.1/");
   (s2b "gr", s2b "http://purl.org/goodrelations/v1#");
   (s2b "ical", s2b "http://www.w3.org/2002/12/cal/icaltzd#");
   (s2b "og", s2b "http://ogp.me/ns#");
   (s2b "rev", s2b "http://purl.org/stuff/rev#");
   (s2b "sioc", s2b "http://rdfs.org/sioc/ns#");
   (s2b "v", s2b "http://rdf.data-vocabulary.org/#");
   (s2b "vcard", s2b "http://www.w3.org/2006/vcard/ns#");
   (s2b "schema", s2b "http://schema.org/")].
Definition initial_terms : list (bytes * bytes) :=
  [(s2b "describedby", s2b "http://www.w3.org/2007/05/powder-s#describedby");
   (s2b "license", XHV ++ s2b "license"); (s2b "role", XHV ++ s2b "role")].

Inductive dir := Fwd | Rev | InList (lid : nat).
Record itriple := IT { it_pred : bytes; it_dir : dir }.

Record rctx := RCtx {
  r_base : bytes; r_psubj : rterm; r_pobj : option rterm;
  r_inc : list itriple; r_map : nat;
  r_lang : bytes; r_pfx : list (bytes * bytes); r_vocab : option bytes }.

(* global state: blank node counter, list store (list id -> items), list mappings (mapping id -> predicate -> list id),
   triples *)
Record rst := RSt { s_k : nat; s_lists : list (nat * list rterm); s_maps : list (nat * list (bytes * nat)); s_out : list rtriple }.

Fixpoint lookupn {A} (k : nat) (l : list (nat * A)) : option A :=
  match l with [] => None | (a, v) :: t => if Nat.eqb a k then Some v else lookupn k t end.
Fixpoint updn {A} (k : nat) (v : A) (l : list (nat * A)) : list (nat * A) :=
  match l with [] => [(k, v)] | (a, w) :: t => if Nat.eqb a k then (a, v) :: t else (a, w) :: updn k v t end.
Fixpoint lookupb {A} (k : bytes) (l : list (bytes * A)) : option A :=
  match l with [] => None | (a, v) :: t => if beq a k then Some v else lookupb k t end.

Definition emit (st : rst) (ts : list rtriple) : rst := RSt (s_k st) (s_lists st) (s_maps st) (s_out st ++ ts).
Definition fresh (st : rst) : rterm * rst := (RB true (dec_print (N.of_nat (s_k st))), RSt (S (s_k st)) (s_lists st) (s_maps st) (s_out st)).

Definition is_sp (c : N) : bool := N.eqb c 32 || N.eqb c 9 || N.eqb c 10 || N.eqb c 13 || N.eqb c 12.
Fixpoint tokens_aux (l : bytes) (cur : bytes) : list bytes :=
  match l with
  | [] => match cur with [] => [] | _ => [rev cur] end
  | c :: t => if is_sp c then (match cur with [] => tokens_aux t [] | _ => rev cur :: tokens_aux t [] end) else tokens_aux t (c :: cur)
  end.
Definition tokens (l : bytes) : list bytes := tokens_aux l [].

Definition lower (l : bytes) : bytes := map (fun c => if (65 <=? c)%N && (c <=? 90)%N then (c + 32)%N else c) l.

Definition resolve (base ref : bytes) : bytes := match base with [] => ref | _ => Iri3986.resolve base ref end.

(* 7.4: a CURIE; None when it is not one under the mappings *)
Definition curie (c : rctx) (v : bytes) : option rterm :=
  match cut 58 v with
  | (_, None) => None
  | (p, Some ref) =>
      if beq p (s2b "_") then Some (RB false ref)
      else if is_prefix (s2b "//") ref then None
      else match p with
           | [] => Some (RI (XHV ++ ref))
           | _ => match lookupb (lower p) (r_pfx c) with
                  | Some ns => Some (RI (ns ++ ref))
                  | None => None
                  end
           end
  end.

(* @about, @resource: SafeCURIEorCURIEorIRI; None = ignored *)
Definition safe_curie_or_iri (c : rctx) (v : bytes) : option rterm :=
  match v, rev v with
  | 91%N :: t, 93%N :: _ => match removelast t with [] => None | inner => curie c inner end
  | _, _ => match curie c v with
            | Some t => Some t
            | None => Some (RI (resolve (r_base c) v))
            end
  end.

Definition has_colon (v : bytes) : bool := existsb (N.eqb 58) v.

(* @property, @rel, @rev, @typeof, @datatype: TERMorCURIEorAbsIRI, one token *)
Definition term_curie_absiri (c : rctx) (v : bytes) : option rterm :=
  if has_colon v then
    match curie c v with
    | Some t => Some t
    | None => if has_scheme v then Some (RI v) else None
    end
  else
    match r_vocab c with
    | Some voc => Some (RI (voc ++ v))
    | None =>
        match lookupb v initial_terms, lookupb (lower v) initial_terms with
        | Some i, _ => Some (RI i)
        | None, Some i => Some (RI i)
        | None, None => None
        end
    end.

Definition iris_of (c : rctx) (v : bytes) : list bytes :=
  flat_map (fun t => match term_curie_absiri c t with Some (RI i) => [i] | _ => [] end) (tokens v).
Definition resources_of (c : rctx) (v : bytes) : list rterm :=
  flat_map (fun t => match term_curie_absiri c t with Some (RL _ _ _) | None => [] | Some r => [r] end) (tokens v).

Fixpoint text_content (fuel : nat) (n : xnode) : bytes :=
  match fuel with
  | O => []
  | S f => match n with XT t => t | XE _ _ ch => flat_map (text_content f) ch end
  end.

Definition plain (lang : bytes) (lex : bytes) : rterm :=
  match lang with [] => RL lex xsd_string_dt [] | l => RL lex lang_string_dt l end.

Definition first_some {A} (l : list (option A)) : option A :=
  fold_right (fun o acc => match o with Some x => Some x | None => acc end) None l.

(* @prefix: "p: iri p2: iri2"; prefixes are lower-cased; "_" cannot be declared *)
Fixpoint prefix_pairs (l : list bytes) (acc : list (bytes * bytes)) : list (bytes * bytes) :=
  match l with
  | p :: rest =>
      match rest with
      | i :: t =>
          match rev p with
          | 58%N :: rp => let name := lower (rev rp) in
                          if beq name (s2b "_") then prefix_pairs t acc else prefix_pairs t ((name, i) :: acc)
          | _ => prefix_pairs rest acc
          end
      | [] => acc
      end
  | [] => acc
  end.

Definition add_to_list (st : rst) (lid : nat) (x : rterm) : rst :=
  let items := match lookupn lid (s_lists st) with Some l => l | None => [] end in
  RSt (s_k st) (updn lid (items ++ [x]) (s_lists st)) (s_maps st) (s_out st).

(* the list for predicate p in mapping m, created when missing *)
Definition list_for (st : rst) (m : nat) (p : bytes) : nat * rst :=
  let mp := match lookupn m (s_maps st) with Some l => l | None => [] end in
  match lookupb p mp with
  | Some lid => (lid, st)
  | None =>
      let lid := length (s_lists st) in
      (lid, RSt (s_k st) (s_lists st ++ [(lid, [])]) (updn m (mp ++ [(p, lid)]) (s_maps st)) (s_out st))
  end.

Fixpoint list_triples (cells items : list rterm) : list rtriple :=
  match cells, items with
  | c1 :: ct, i1 :: it =>
      (c1, rdf "first", i1) :: (c1, rdf "rest", match ct with [] => RI (rdf "nil") | c2 :: _ => c2 end) :: list_triples ct it
  | _, _ => []
  end.

Definition is_elem (name : bytes) (n : bytes) : bool := beq name n.

Fixpoint element (fuel : nat) (root : bool) (c : rctx) (n : xnode) (st : rst) : option rst :=
  match fuel with
  | O => None
  | S f =>
      match n with
      | XT _ => Some st
      | XE name attrs children =>
          let at_ (k : String.string) := attr (s2b k) attrs in
          (* 2: @vocab *)
          let '(vocab, st) :=
            match at_ "vocab"%string with
            | Some [] => (None, st)
            | Some v => let vi := resolve (r_base c) v in (Some vi, emit st [(RI (r_base c), RDFA_USES, RI vi)])
            | None => (r_vocab c, st)
            end in
          (* 3: @prefix *)
          let pfx := match at_ "prefix"%string with Some v => prefix_pairs (tokens v) [] ++ r_pfx c | None => r_pfx c end in
          (* 4: language *)
          let lang := match at_ "lang"%string with Some l => l | None => r_lang c end in
          let c1 := RCtx (r_base c) (r_psubj c) (r_pobj c) (r_inc c) (r_map c) lang pfx vocab in
          let about := match at_ "about"%string with Some v => safe_curie_or_iri c1 v | None => None end in
          let resource := match at_ "resource"%string with Some v => safe_curie_or_iri c1 v | None => None end in
          let href := match at_ "href"%string with Some v => Some (RI (resolve (r_base c) v)) | None => None end in
          let src := match at_ "src"%string with Some v => Some (RI (resolve (r_base c) v)) | None => None end in
          let has (k : String.string) := match at_ k with Some _ => true | None => false end in
          let is_hb := beq name (s2b "head") || beq name (s2b "body") in
          (* HTML+RDFa: terms in @rel / @rev are ignored next to @property; an attribute left empty is absent *)
          let relrev (k : String.string) : option bytes :=
            match at_ k with
            | None => None
            | Some v => if has "property"%string then
                          match filter has_colon (tokens v) with [] => None | l => Some (join [32%N] l) end
                        else Some v
            end in
          let rel := relrev "rel"%string in
          let rev_ := relrev "rev"%string in
          let has_rel := match rel with Some _ => true | None => false end in
          let has_rev := match rev_ with Some _ => true | None => false end in
          let typeof := has "typeof"%string in
          let base_t := RI (r_base c) in
          (* 5, 6: new subject, current object resource, typed resource, skip *)
          let '(nsubj, cobj, tres, skip, st) :=
            if negb has_rel && negb has_rev then
              if has "property"%string && negb (has "content"%string) && negb (has "datatype"%string) then
                (* 5.1 *)
                let ns := match about with
                          | Some a => Some a
                          | None => if root then Some base_t else r_pobj c
                          end in
                if typeof then
                  match about with
                  | Some a => (ns, None, Some a, false, st)
                  | None =>
                      if root then (ns, None, Some base_t, false, st)
                      else match first_some [resource; href; src] with
                           | Some r => (ns, Some r, Some r, false, st)
                           | None => let '(b, st') := fresh st in (ns, Some b, Some b, false, st')
                           end
                  end
                else (ns, None, None, false, st)
              else
                (* 5.2 *)
                match first_some [about; resource; href; src] with
                | Some r => (Some r, None, (if typeof then Some r else None), false, st)
                | None =>
                    if root then (Some base_t, None, (if typeof then Some base_t else None), false, st)
                    else if is_hb then (r_pobj c, None, (if typeof then r_pobj c else None), false, st)
                    else if typeof then let '(b, st') := fresh st in (Some b, None, Some b, false, st')
                    else (r_pobj c, None, None, negb (has "property"%string), st)
                end
            else
              (* 6 *)
              let ns := match about with
                        | Some a => Some a
                        | None => if root then Some base_t else r_pobj c
                        end in
              match first_some [resource; href; src] with
              | Some r => (ns, Some r, (if typeof then match about with Some a => Some a | None => Some r end else None), false, st)
              | None =>
                  if typeof then
                    match about with
                    | Some a => (ns, None, Some a, false, st)
                    | None => let '(b, st') := fresh st in (ns, Some b, Some b, false, st')
                    end
                  else (ns, None, None, false, st)
              end in
          (* 7: types *)
          let st := match tres, at_ "typeof"%string with
                    | Some t, Some v => emit st (map (fun ty => (t, rdf "type", ty)) (resources_of c1 v))
                    | _, _ => st
                    end in
          (* 8: list mapping *)
          let same_as_pobj := match nsubj, r_pobj c with
                              | Some a, Some b => match a, b with
                                                  | RI x, RI y => beq x y
                                                  | RB g1 x, RB g2 y => Bool.eqb g1 g2 && beq x y
                                                  | _, _ => false
                                                  end
                              | _, _ => false
                              end in
          let '(lmap, st) :=
            match nsubj with
            | Some _ => if same_as_pobj then (r_map c, st)
                        else let m := length (s_maps st) in (m, RSt (s_k st) (s_lists st) (s_maps st ++ [(m, [])]) (s_out st))
            | None => (r_map c, st)
            end in
          let rels := match rel with Some v => iris_of c1 v | None => [] end in
          let revs := match rev_ with Some v => iris_of c1 v | None => [] end in
          let inlist := has "inlist"%string in
          match nsubj with
          | None => (* no subject at all (no parent object): children see the same context *)
              fold_left (fun st ch => match st with Some st => element f false c1 ch st | None => None end) children (Some st)
          | Some ns =>
          (* 9, 10 *)
          let '(cobj, inc, st) :=
            match cobj with
            | Some o =>
                let st := if inlist && has_rel
                          then fold_left (fun st p => let '(lid, st) := list_for st lmap p in add_to_list st lid o) rels st
                          else emit st (map (fun p => (ns, p, o)) rels) in
                let st := emit st (map (fun p => (o, p, ns)) revs) in
                (Some o, [], st)
            | None =>
                if has_rel || has_rev then
                  let '(b, st) := fresh st in
                  let '(inc1, st) :=
                    if inlist
                    then fold_left (fun acc p => let '(l, st) := acc in let '(lid, st) := list_for st lmap p in (l ++ [IT p (InList lid)], st)) rels ([], st)
                    else (map (fun p => IT p Fwd) rels, st) in
                  (Some b, inc1 ++ map (fun p => IT p Rev) revs, st)
                else (None, [], st)
            end in
          (* 11: property *)
          let st :=
            match at_ "property"%string with
            | None => Some st
            | Some pv =>
                let txt := text_content (S f) n in
                let value : option rterm :=
                  (* a @datatype which does not resolve to an IRI is ignored (rdfa.info test 0197) *)
                  match (match at_ "datatype"%string with
                         | Some ((_ :: _) as dv) => match term_curie_absiri c1 dv with Some (RI dt) => Some (Some dt) | _ => None end
                         | Some [] => Some None
                         | None => None
                         end) with
                  | Some (Some dt) => Some (RL (match at_ "content"%string with Some cv => cv | None => txt end) dt [])
                  | Some None => Some (plain lang (match at_ "content"%string with Some cv => cv | None => txt end))
                  | None =>
                      match at_ "content"%string with
                      | Some cv => Some (plain lang cv)
                      | None =>
                          if negb has_rel && negb has_rev then
                            match first_some [resource; href; src] with
                            | Some r => Some r
                            | None => if typeof && negb (has "about"%string) then tres else Some (plain lang txt)
                            end
                          else if typeof && negb (has "about"%string) then tres else Some (plain lang txt)
                      end
                  end in
                match value with
                | None => None
                | Some v =>
                    let ps := iris_of c1 pv in
                    Some (if inlist
                          then fold_left (fun st p => let '(lid, st) := list_for st lmap p in add_to_list st lid v) ps st
                          else emit st (map (fun p => (ns, p, v)) ps))
                end
            end in
          match st with
          | None => None
          | Some st =>
              (* 12: complete the incomplete triples of the context *)
              let st := if skip then st else
                fold_left (fun st it =>
                             match it_dir it with
                             | Fwd => emit st [(r_psubj c, it_pred it, ns)]
                             | Rev => emit st [(ns, it_pred it, r_psubj c)]
                             | InList lid => add_to_list st lid ns
                             end) (r_inc c) st in
              (* 13: children *)
              let c' := if skip then RCtx (r_base c) (r_psubj c) (r_pobj c) (r_inc c) (r_map c) lang pfx vocab
                        else RCtx (r_base c) ns (Some (match cobj with Some o => o | None => ns end)) inc lmap lang pfx vocab in
              match fold_left (fun st ch => match st with Some st => element f false c' ch st | None => None end) children (Some st) with
              | None => None
              | Some st =>
                  (* 14: the lists of a mapping created here *)
                  if Nat.eqb lmap (r_map c) then Some st else
                  let mp := match lookupn lmap (s_maps st) with Some l => l | None => [] end in
                  Some (fold_left (fun st pl =>
                                     let items := match lookupn (snd pl) (s_lists st) with Some l => l | None => [] end in
                                     let cells := map (fun i => RB true (dec_print (N.of_nat (s_k st + i)))) (seq 0 (length items)) in
                                     let head := match cells with [] => RI (rdf "nil") | h :: _ => h end in
                                     RSt (s_k st + length items) (s_lists st) (s_maps st)
                                         (s_out st ++ (ns, fst pl, head) :: list_triples cells items)) mp st)
              end
          end
          end
      end
  end.

Fixpoint xdepth (n : xnode) : nat :=
  match n with XT _ => 1 | XE _ _ ch => S (fold_right (fun c a => Nat.max (xdepth c) a) 0 ch) end.

(* the first base element with an href, in document order *)
Fixpoint find_base (fuel : nat) (n : xnode) : option bytes :=
  match fuel with
  | O => None
  | S f =>
      match n with
      | XT _ => None
      | XE name attrs ch =>
          if beq name (s2b "base") then attr (s2b "href") attrs
          else first_some (map (find_base f) ch)
      end
  end.

Definition drop_frag (s : bytes) : bytes := fst (cut 35 s).

Definition rdfa_doc (location : bytes) (root : xnode) : option (list rtriple) :=
  let fuel := S (xdepth root) in
  let base := match find_base fuel root with Some h => drop_frag (resolve location h) | None => location end in
  let c := RCtx base (RI base) None [] 0 [] initial_prefixes None in
  match element fuel true c root (RSt 0 [] [(0, [])] []) with
  | Some st => Some (s_out st)
  | None => None
  end.

(* Canon.v — rdfcanon: RDFC-1.0 (W3C RDF Dataset Canonicalization), step by step as the Go code has it
   (algorithm_canonicalization.go 4.4.3, algorithm_hash_first_degree_quads.go 4.6.3, algorithm_hash_related_blank_node.go
   4.7.3, algorithm_hash_n_degree_quads.go 4.8.3), parametric in the hash function.
   Terms other than blank nodes arrive already in canonical N-Quads form (the writers are model/NQ.v); a blank node is
   its label. Go map iteration order is replaced by first-occurrence order; permutations come in the order of
   github.com/cespare/permute (Heap's algorithm, iterative). *)
From RK Require Import Base.

Section Canon.
Variable H : bytes -> bytes.     (* hex digest of a byte string *)

(* a component: blank node label, or encoded text *)
Inductive comp := CB (label : bytes) | CT (text : bytes).
Record cquad := CQ { q_s : comp; q_p : bytes; q_o : comp; q_g : option comp }.

Definition is_bn (n : bytes) (c : comp) : bool := match c with CB l => beq l n | CT _ => false end.
Definition is_bn_o (n : bytes) (c : option comp) : bool := match c with Some c' => is_bn n c' | None => false end.

(* ---------- identifier issuer (4.5) ---------- *)
Record issuer := Issuer { i_prefix : bytes; i_issued : list (bytes * bytes) }.   (* (existing, issued), in issue order *)

Fixpoint assoc (k : bytes) (l : list (bytes * bytes)) : option bytes :=
  match l with
  | [] => None
  | (a, b) :: t => if beq a k then Some b else assoc k t
  end.

Definition lookup (i : issuer) (n : bytes) : option bytes := assoc n (i_issued i).
Definition issue (i : issuer) (n : bytes) : bytes * issuer :=
  match lookup i n with
  | Some id => (id, i)
  | None => let id := i_prefix i ++ dec_print (N.of_nat (length (i_issued i))) in
            (id, Issuer (i_prefix i) (i_issued i ++ [(n, id)]))
  end.

(* ---------- blank node to quads map (4.4.3 step 2) ---------- *)
(* the Go code appends the quad once per position that names the blank node *)
Definition refs (n : bytes) (q : cquad) : list cquad :=
  (if is_bn n (q_s q) then [q] else []) ++ (if is_bn n (q_o q) then [q] else []) ++ (if is_bn_o n (q_g q) then [q] else []).
Definition quads_of (qs : list cquad) (n : bytes) : list cquad := flat_map (refs n) qs.

Definition comp_labels (c : comp) : list bytes := match c with CB l => [l] | CT _ => [] end.
Definition quad_labels (q : cquad) : list bytes :=
  comp_labels (q_s q) ++ comp_labels (q_o q) ++ match q_g q with Some g => comp_labels g | None => [] end.
Definition bnodes (qs : list cquad) : list bytes := nodup_b beq (flat_map quad_labels qs).

(* ---------- serialisation ---------- *)
Definition SP : bytes := [32%N].
Definition EOL : bytes := s2b " ." ++ [10%N].

Definition ser_quad (f : bytes -> bytes) (q : cquad) : bytes :=
  let c x := match x with CB l => s2b "_:" ++ f l | CT t => t end in
  c (q_s q) ++ SP ++ q_p q ++ SP ++ c (q_o q) ++ (match q_g q with Some g => SP ++ c g | None => [] end) ++ EOL.

(* ---------- 4.6 Hash First Degree Quads ---------- *)
Definition hash_first_degree (qs : list cquad) (n : bytes) : bytes :=
  let lines := map (ser_quad (fun l => if beq l n then s2b "a" else s2b "z")) (quads_of qs n) in
  H (concat (isort bleb lines)).

(* ---------- 4.7 Hash Related Blank Node ---------- *)
Definition hash_related (qs : list cquad) (canon : issuer) (related : bytes) (q : cquad) (iss : issuer) (pos : bytes) : bytes :=
  let input := pos ++ (if beq pos (s2b "g") then [] else q_p q) in
  let id := match lookup canon related with
            | Some id => s2b "_:" ++ id
            | None => match lookup iss related with
                      | Some id => s2b "_:" ++ id
                      | None => hash_first_degree qs related
                      end
            end in
  H (input ++ id).

(* ---------- permutations: github.com/cespare/permute, Permuter.Permute ---------- *)
Fixpoint set_nth {A} (l : list A) (i : nat) (x : A) : list A :=
  match l, i with
  | [], _ => []
  | _ :: t, O => x :: t
  | h :: t, S i' => h :: set_nth t i' x
  end.
Definition swap_nth {A} (d : A) (l : list A) (i j : nat) : list A :=
  set_nth (set_nth l i (nth j l d)) j (nth i l d).

(* one call of Permute after the first: the inner loop; None = finished *)
Fixpoint heap_step {A} (d : A) (fuel : nat) (arr : list A) (c : list nat) (i : nat) : option (list A * list nat) :=
  match fuel with
  | O => None
  | S f =>
      if Nat.leb (length arr) i then None
      else
        let ci := nth i c 0 in
        if Nat.ltb ci i then
          let c0 := if Nat.even i then 0 else ci in
          Some (swap_nth d arr c0 i, set_nth c i (S ci))          (* and i := 0 *)
        else heap_step d f arr (set_nth c i 0) (S i)
  end.

(* ---------- 4.8 Hash N-Degree Quads ---------- *)
Inductive nres := NOk (hash : bytes) (iss : issuer) | NErrPerm | NErrDepth | NFuel.

(* group related blank nodes by their hash, in encounter order: assoc list hash -> labels *)
Fixpoint add_group (h : bytes) (l : bytes) (m : list (bytes * list bytes)) : list (bytes * list bytes) :=
  match m with
  | [] => [(h, [l])]
  | (k, v) :: t => if beq k h then (k, v ++ [l]) :: t else (k, v) :: add_group h l t
  end.

Definition related_of (qs : list cquad) (canon : issuer) (n : bytes) (iss : issuer) : list (bytes * list bytes) :=
  fold_left (fun m q =>
    let one c pos m := match c with
                       | CB l => if beq l n then m else add_group (hash_related qs canon l q iss pos) l m
                       | CT _ => m
                       end in
    let m1 := one (q_s q) (s2b "s") m in
    let m2 := one (q_o q) (s2b "o") m1 in
    match q_g q with Some g => one g (s2b "g") m2 | None => m2 end)
  (quads_of qs n) [].

(* len(chosen) > 0 && len(path) >= len(chosen) && path > chosen *)
Definition worse (path chosen : bytes) : bool :=
  match chosen with [] => false | _ => Nat.leb (length chosen) (length path) && bltb chosen path end.

Definition max_permutations : nat := 4096.

Section NDegree.
  Variable qs : list cquad.
  Variable canon : issuer.
  (* the recursive call, one level deeper *)
  Variable rec : bytes -> issuer -> nres.

  (* 5.4.4 – 5.4.4.3: the path over the related nodes; None = skip this permutation *)
  Fixpoint path_first (p : list bytes) (ic : issuer) (path : bytes) (rl : list bytes) (chosen : bytes)
    : option (bytes * issuer * list bytes) :=
    match p with
    | [] => Some (path, ic, rl)
    | related :: t =>
        let '(path', ic', rl') :=
          match lookup canon related with
          | Some id => (path ++ s2b "_:" ++ id, ic, rl)
          | None =>
              let rl1 := match lookup ic related with Some _ => rl | None => rl ++ [related] end in
              let '(id, ic1) := issue ic related in
              (path ++ s2b "_:" ++ id, ic1, rl1)
          end in
        if worse path' chosen then None else path_first t ic' path' rl' chosen
    end.

  (* 5.4.5: recursion over the recursion list *)
  Inductive pres := POk (path : bytes) (ic : issuer) | PSkip | PErr (e : nres).
  Fixpoint path_rec (rl : list bytes) (ic : issuer) (path : bytes) (chosen : bytes) : pres :=
    match rl with
    | [] => POk path ic
    | related :: t =>
        match rec related ic with
        | NOk h ic' =>
            let '(id, ic1) := issue ic related in     (* the Go code issues on the copy, then replaces it by the result's issuer *)
            let path' := path ++ s2b "_:" ++ id ++ s2b "<" ++ h ++ s2b ">" in
            if worse path' chosen then PSkip else path_rec t ic' path' chosen
        | e => PErr e
        end
    end.

  (* 5.4: all permutations of one group; k counts Permute calls *)
  Fixpoint perm_loop (fuel : nat) (k : nat) (arr : list bytes) (c : list nat) (iss : issuer) (chosen : bytes) (chosen_i : issuer) : nres :=
    match fuel with
    | O => NFuel
    | S f =>
        if Nat.ltb max_permutations k then NErrPerm
        else
          let after (chosen' : bytes) (ci' : issuer) :=
            match heap_step ([] : bytes) (S (length arr)) arr c 0 with
            | None => NOk chosen' ci'                 (* abusing NOk: (chosen path, chosen issuer) *)
            | Some (arr', c') => perm_loop f (S k) arr' c' iss chosen' ci'
            end in
          match path_first arr iss [] [] chosen with
          | None => after chosen chosen_i
          | Some (path, ic, rl) =>
              match path_rec rl ic path chosen with
              | PErr e => e
              | PSkip => after chosen chosen_i
              | POk path' ic' =>
                  if (match chosen with [] => true | _ => bltb path' chosen end) then after path' ic' else after chosen chosen_i
              end
          end
    end.

  Fixpoint groups_loop (gs : list (bytes * list bytes)) (iss : issuer) (data : bytes) : nres :=
    match gs with
    | [] => NOk (H data) iss
    | (h, l) :: t =>
        match perm_loop (S (S max_permutations)) 1 l (map (fun _ => 0) l) iss [] iss with
        | NOk chosen ci => groups_loop t ci (data ++ h ++ chosen)
        | e => e
        end
    end.
End NDegree.

Fixpoint hash_n_degree (depth : nat) (qs : list cquad) (canon : issuer) (n : bytes) (iss : issuer) : nres :=
  match depth with
  | O => NErrDepth
  | S d =>
      let gs := isort (fun a b => bleb (fst a) (fst b)) (related_of qs canon n iss) in
      groups_loop canon (hash_n_degree d qs canon) gs iss []
  end.

Definition max_depth : nat := 513.   (* maxRecursionDepth 512: depths 512..0 are allowed *)

(* ---------- 4.4 Canonicalization ---------- *)
Fixpoint group_all (l : list (bytes * bytes)) (m : list (bytes * list bytes)) : list (bytes * list bytes) :=
  match l with [] => m | (h, n) :: t => group_all t (add_group h n m) end.

Inductive cres := COk (lines : list (nat * bytes)) (canon : issuer) | CErrPerm | CErrDepth | CFuel.

Definition by_hash (a b : bytes * list bytes) : bool := bleb (fst a) (fst b).

(* step 5 for one hash group *)
Fixpoint step5_nodes (qs : list cquad) (canon : issuer) (l : list bytes) (acc : list (bytes * issuer)) : list (bytes * issuer) + nres :=
  match l with
  | [] => inl acc
  | n :: t =>
      match lookup canon n with
      | Some _ => step5_nodes qs canon t acc
      | None =>
          let '(_, tmp) := issue (Issuer (s2b "b") []) n in
          match hash_n_degree max_depth qs canon n tmp with
          | NOk h i => step5_nodes qs canon t (acc ++ [(h, i)])
          | e => inr e
          end
      end
  end.

Definition issue_all (canon : issuer) (l : list bytes) : issuer := fold_left (fun c n => snd (issue c n)) l canon.

Fixpoint step5 (qs : list cquad) (gs : list (bytes * list bytes)) (canon : issuer) : issuer + nres :=
  match gs with
  | [] => inl canon
  | (_, l) :: t =>
      match step5_nodes qs canon l [] with
      | inr e => inr e
      | inl results =>
          let sorted := isort (fun a b => bleb (fst a) (fst b)) results in
          let canon' := fold_left (fun c r => issue_all c (map fst (i_issued (snd r)))) sorted canon in
          step5 qs t canon'
      end
  end.

Definition canonicalize (qs : list cquad) : cres :=
  let ns := bnodes qs in
  (* 3 *) let m := group_all (map (fun n => (hash_first_degree qs n, n)) ns) [] in
  let sorted := isort by_hash m in
  (* 4 *) let canon1 := fold_left (fun c g => match snd g with [n] => snd (issue c n) | _ => c end) sorted (Issuer (s2b "c14n") []) in
  let rest := filter (fun g => match snd g with [_] => false | _ => true end) sorted in
  (* 5 *) match step5 qs rest canon1 with
  | inr NErrPerm => CErrPerm
  | inr NErrDepth => CErrDepth
  | inr _ => CFuel
  | inl canon2 =>
      (* 7: the Go code issues for any blank node still without an identifier while serialising *)
      let canon3 := issue_all canon2 (flat_map quad_labels qs) in
      let f l := match lookup canon3 l with Some id => id | None => [] end in
      let lines := combine (seq 0 (length qs)) (map (ser_quad f) qs) in
      COk (isort (fun a b => bleb (snd a) (snd b)) lines) canon3
  end.

End Canon.

(* ---------- FNV-1a, 64 bit, hex (hash/fnv New64a + hex.EncodeToString of Sum) ---------- *)
Definition fnv_offset : N := 14695981039346656037.
Definition fnv_prime : N := 1099511628211.
Definition two64c : N := 18446744073709551616.
Definition fnv1a (s : bytes) : N := fold_left (fun h b => ((N.lxor h b) * fnv_prime) mod two64c)%N s fnv_offset.

Fixpoint be_bytes (k : nat) (n : N) : bytes :=
  match k with O => [] | S k' => be_bytes k' (n / 256)%N ++ [(n mod 256)%N] end.
Definition fnv_hex (s : bytes) : bytes := hex_encode (be_bytes 8 (fnv1a s)).

(* Utf8.v — Go's UTF-8 encoding (utf8.EncodeRune / string(rune)) and decoding
   (utf8.DecodeRune as used by bufio.Reader.ReadRune): invalid input decodes to
   (U+FFFD, size 1).  Arithmetic (/, mod) rather than bit operations. *)
From RK Require Import Base.

Definition RuneError : N := 65533.

Definition is_scalar (r : N) : bool :=
  (r <? 55296)%N || ((57344 <=? r)%N && (r <=? 1114111)%N).

Definition encode_rune (r : N) : bytes :=
  if (r <? 128)%N then [r]
  else if (r <? 2048)%N then [(192 + r / 64)%N; (128 + r mod 64)%N]
  else if negb (is_scalar r) then [239%N; 191%N; 189%N]
  else if (r <? 65536)%N then [(224 + r / 4096)%N; (128 + (r / 64) mod 64)%N; (128 + r mod 64)%N]
  else [(240 + r / 262144)%N; (128 + (r / 4096) mod 64)%N; (128 + (r / 64) mod 64)%N; (128 + r mod 64)%N].

Definition utf8_encode (l : list N) : bytes := flat_map encode_rune l.

Definition cont (b : N) : bool := (128 <=? b)%N && (b <=? 191)%N.
Definition in_rng (lo hi b : N) : bool := (lo <=? b)%N && (b <=? hi)%N.

(* one rune: (value, size in bytes, rest) *)
Definition decode_rune (bs : bytes) : option (N * nat * bytes) :=
  match bs with
  | [] => None
  | b0 :: r0 =>
      if (b0 <? 128)%N then Some (b0, 1, r0)
      else if (b0 <? 194)%N then Some (RuneError, 1, r0)
      else if (b0 <? 224)%N then
        match r0 with
        | b1 :: r1 => if cont b1 then Some (((b0 mod 32) * 64 + b1 mod 64)%N, 2, r1) else Some (RuneError, 1, r0)
        | _ => Some (RuneError, 1, r0)
        end
      else if (b0 <? 240)%N then
        match r0 with
        | b1 :: b2 :: r2 =>
            let lo := if N.eqb b0 224 then 160%N else 128%N in
            let hi := if N.eqb b0 237 then 159%N else 191%N in
            if in_rng lo hi b1 && cont b2
            then Some (((b0 mod 16) * 4096 + (b1 mod 64) * 64 + b2 mod 64)%N, 3, r2)
            else Some (RuneError, 1, r0)
        | _ => Some (RuneError, 1, r0)
        end
      else if (b0 <? 245)%N then
        match r0 with
        | b1 :: b2 :: b3 :: r3 =>
            let lo := if N.eqb b0 240 then 144%N else 128%N in
            let hi := if N.eqb b0 244 then 143%N else 191%N in
            if in_rng lo hi b1 && cont b2 && cont b3
            then Some (((b0 mod 8) * 262144 + (b1 mod 64) * 4096 + (b2 mod 64) * 64 + b3 mod 64)%N, 4, r3)
            else Some (RuneError, 1, r0)
        | _ => Some (RuneError, 1, r0)
        end
      else Some (RuneError, 1, r0)
  end.

(* the whole byte string as (rune, size) pairs *)
Fixpoint utf8_decode_fuel (fuel : nat) (bs : bytes) : list (N * nat) :=
  match fuel with
  | O => []
  | S f => match decode_rune bs with
           | None => []
           | Some (r, n, rest) => (r, n) :: utf8_decode_fuel f rest
           end
  end.
Definition utf8_decode (bs : bytes) : list (N * nat) := utf8_decode_fuel (length bs) bs.

Definition rune_size (r : N) : nat := length (encode_rune r).

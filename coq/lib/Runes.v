(* Runes.v — character classes used by the N-Triples family grammars *)
From RK Require Import Base.

Definition rng (lo hi r : N) : bool := (lo <=? r)%N && (r <=? hi)%N.

(* unicode.IsSpace *)
Definition is_space (r : N) : bool :=
  rng 9 13 r || N.eqb r 32 || N.eqb r 133 || N.eqb r 160 || N.eqb r 5760 || rng 8192 8202 r ||
  N.eqb r 8232 || N.eqb r 8233 || N.eqb r 8239 || N.eqb r 8287 || N.eqb r 12288.

(* PN_CHARS_BASE of the W3C grammars *)
Definition pn_chars_base (r : N) : bool :=
  rng 65 90 r || rng 97 122 r || rng 192 214 r || rng 216 246 r || rng 248 767 r || rng 880 893 r ||
  rng 895 8191 r || rng 8204 8205 r || rng 8304 8591 r || rng 11264 12271 r || rng 12289 55295 r ||
  rng 63744 64975 r || rng 65008 65533 r || rng 65536 983039 r.

(* N-Triples / N-Quads: PN_CHARS_U ::= PN_CHARS_BASE | '_' | ':' *)
Definition pn_chars_u_nt (r : N) : bool := pn_chars_base r || N.eqb r 95 || N.eqb r 58.
Definition pn_chars_nt (r : N) : bool :=
  pn_chars_u_nt r || N.eqb r 45 || rng 48 57 r || N.eqb r 183 || rng 768 879 r || rng 8255 8256 r.

Definition is_digit (r : N) : bool := rng 48 57 r.
Definition is_alpha (r : N) : bool := rng 65 90 r || rng 97 122 r.
Definition is_alnum (r : N) : bool := is_alpha r || is_digit r.

Definition hex_upper (v : N) : N := if (v <? 10)%N then (48 + v)%N else (55 + v)%N.

(* Base.v — shared executable vocabulary: byte strings as [list N], hex/decimal
   codecs of the case line protocol, list utilities.  No proofs here. *)
From Coq Require Export List NArith ZArith Bool Arith Lia.
Export ListNotations.

Definition bytes := list N.

(* ---------- equality on byte strings ---------- *)
Fixpoint beq (a b : bytes) : bool :=
  match a, b with
  | [], [] => true
  | x :: a', y :: b' => N.eqb x y && beq a' b'
  | _, _ => false
  end.

(* lexicographic comparison, as Go's strings.Compare on byte strings *)
Fixpoint bcmp (a b : bytes) : comparison :=
  match a, b with
  | [], [] => Eq
  | [], _ => Lt
  | _, [] => Gt
  | x :: a', y :: b' =>
      match N.compare x y with
      | Eq => bcmp a' b'
      | c => c
      end
  end.

Definition bltb (a b : bytes) : bool :=
  match bcmp a b with Lt => true | _ => false end.
Definition bleb (a b : bytes) : bool :=
  match bcmp a b with Gt => false | _ => true end.

(* [is_prefix p s]: s starts with p (Go: len(s) >= len(p) && s[:len(p)] == p) *)
Fixpoint is_prefix (p s : bytes) : bool :=
  match p, s with
  | [], _ => true
  | x :: p', y :: s' => N.eqb x y && is_prefix p' s'
  | _ :: _, [] => false
  end.

Fixpoint is_suffix_aux (fuel : nat) (p s : bytes) : bool :=
  match fuel with
  | O => beq p s
  | S f => match s with
           | [] => beq p s
           | _ :: s' => if Nat.eqb (length p) (length s) then beq p s else is_suffix_aux f p s'
           end
  end.
Definition is_suffix (p s : bytes) : bool := is_suffix_aux (length s) p s.

(* ---------- generic list helpers ---------- *)
Fixpoint split_on (sep : N) (l : bytes) : list bytes :=
  match l with
  | [] => [[]]
  | c :: l' =>
      if N.eqb c sep then [] :: split_on sep l'
      else match split_on sep l' with
           | [] => [[c]]
           | h :: t => (c :: h) :: t
           end
  end.

Fixpoint join (sep : bytes) (ls : list bytes) : bytes :=
  match ls with
  | [] => []
  | [x] => x
  | x :: rest => x ++ sep ++ join sep rest
  end.

Fixpoint index_of (c : N) (l : bytes) : option nat :=
  match l with
  | [] => None
  | x :: l' => if N.eqb x c then Some O
               else match index_of c l' with Some i => Some (S i) | None => None end
  end.

Fixpoint last_index_of_aux (c : N) (l : bytes) (i : nat) (acc : option nat) : option nat :=
  match l with
  | [] => acc
  | x :: l' => last_index_of_aux c l' (S i) (if N.eqb x c then Some i else acc)
  end.
Definition last_index_of (c : N) (l : bytes) : option nat := last_index_of_aux c l O None.

(* cut at first occurrence of c: (before, Some after) or (l, None) *)
Fixpoint cut (c : N) (l : bytes) : bytes * option bytes :=
  match l with
  | [] => ([], None)
  | x :: l' => if N.eqb x c then ([], Some l')
               else let '(a, b) := cut c l' in (x :: a, b)
  end.

Fixpoint insert_sorted {A} (le : A -> A -> bool) (x : A) (l : list A) : list A :=
  match l with
  | [] => [x]
  | y :: l' => if le x y then x :: l else y :: insert_sorted le x l'
  end.
Definition isort {A} (le : A -> A -> bool) (l : list A) : list A :=
  fold_right (insert_sorted le) [] l.

Fixpoint nodup_b {A} (eqb : A -> A -> bool) (l : list A) : list A :=
  match l with
  | [] => []
  | x :: l' => if existsb (eqb x) l' then nodup_b eqb l' else x :: nodup_b eqb l'
  end.

Definition opt_bind {A B} (o : option A) (f : A -> option B) : option B :=
  match o with Some x => f x | None => None end.

Fixpoint opt_map_all {A B} (f : A -> option B) (l : list A) : option (list B) :=
  match l with
  | [] => Some []
  | x :: l' => match f x, opt_map_all f l' with
               | Some y, Some ys => Some (y :: ys)
               | _, _ => None
               end
  end.

(* ---------- hex ---------- *)
Definition hexval (c : N) : option N :=
  if (48 <=? c)%N && (c <=? 57)%N then Some (c - 48)%N
  else if (97 <=? c)%N && (c <=? 102)%N then Some (c - 87)%N
  else if (65 <=? c)%N && (c <=? 70)%N then Some (c - 55)%N
  else None.

Definition hexdig (v : N) : N := if (v <? 10)%N then (48 + v)%N else (87 + v)%N.
Definition hexdig_upper (v : N) : N := if (v <? 10)%N then (48 + v)%N else (55 + v)%N.

Fixpoint hex_decode (l : bytes) : option bytes :=
  match l with
  | [] => Some []
  | a :: b :: l' =>
      match hexval a, hexval b, hex_decode l' with
      | Some x, Some y, Some r => Some ((x * 16 + y)%N :: r)
      | _, _, _ => None
      end
  | _ => None
  end.

Fixpoint hex_encode (l : bytes) : bytes :=
  match l with
  | [] => []
  | b :: l' => hexdig (b / 16)%N :: hexdig (b mod 16)%N :: hex_encode l'
  end.

(* ---------- decimal ---------- *)
Fixpoint dec_parse_aux (l : bytes) (acc : N) : option N :=
  match l with
  | [] => Some acc
  | c :: l' => if (48 <=? c)%N && (c <=? 57)%N then dec_parse_aux l' (acc * 10 + (c - 48))%N else None
  end.
Definition dec_parse (l : bytes) : option N :=
  match l with [] => None | _ => dec_parse_aux l 0%N end.

Definition decz_parse (l : bytes) : option Z :=
  match l with
  | 45%N :: l' => option_map (fun n => (- Z.of_N n)%Z) (dec_parse l')
  | _ => option_map Z.of_N (dec_parse l)
  end.

Fixpoint dec_print_aux (fuel : nat) (n : N) (acc : bytes) : bytes :=
  match fuel with
  | O => acc
  | S f => if (n <? 10)%N then (48 + n)%N :: acc
           else dec_print_aux f (n / 10)%N ((48 + n mod 10)%N :: acc)
  end.
Definition dec_print (n : N) : bytes := dec_print_aux (S (N.size_nat n)) n [].
Definition decz_print (z : Z) : bytes :=
  match z with
  | Zneg p => 45%N :: dec_print (Npos p)
  | _ => dec_print (Z.to_N z)
  end.

Definition bool_byte (b : bool) : bytes := if b then [49%N] else [48%N].

(* ASCII literal helper for readable constants inside models *)
Require Coq.Strings.String Coq.Strings.Ascii.
Export Coq.Strings.String.StringSyntax.
Delimit Scope string_scope with string.
Fixpoint s2b (s : String.string) : bytes :=
  match s with
  | String.EmptyString => []
  | String.String a s' => Ascii.N_of_ascii a :: s2b s'
  end.
Arguments s2b s%string.

(* BaseFacts.v — lemmas about Base.v *)
From RK Require Import Base.
From Coq Require Import Permutation Sorted.

Lemma beq_refl a : beq a a = true.
Proof. induction a as [|x a IH]; simpl; [reflexivity|]. now rewrite N.eqb_refl, IH. Qed.

Lemma beq_true_iff a b : beq a b = true <-> a = b.
Proof.
  split.
  - revert b; induction a as [|x a IH]; intros [|y b] H; simpl in H; try discriminate; [reflexivity|].
    apply andb_true_iff in H as [H1 H2]. apply N.eqb_eq in H1. f_equal; auto.
  - intros ->. apply beq_refl.
Qed.

Lemma beq_false_iff a b : beq a b = false <-> a <> b.
Proof.
  split.
  - intros H E. apply beq_true_iff in E. congruence.
  - intros H. destruct (beq a b) eqn:E; [|reflexivity]. apply beq_true_iff in E. contradiction.
Qed.

Lemma beq_sym a b : beq a b = beq b a.
Proof.
  destruct (beq a b) eqn:E.
  - apply beq_true_iff in E. subst. symmetry. apply beq_refl.
  - symmetry. apply beq_false_iff. apply beq_false_iff in E. congruence.
Qed.

Lemma is_prefix_app p s : is_prefix p s = true -> p ++ skipn (length p) s = s.
Proof.
  revert s; induction p as [|x p IH]; intros s H; simpl in *; [reflexivity|].
  destruct s as [|y s]; [discriminate|]. apply andb_true_iff in H as [H1 H2].
  apply N.eqb_eq in H1. subst. simpl. f_equal. auto.
Qed.

Lemma is_prefix_length p s : is_prefix p s = true -> length p <= length s.
Proof.
  revert s; induction p as [|x p IH]; intros s H; simpl in *; [lia|].
  destruct s as [|y s]; [discriminate|]. apply andb_true_iff in H as [_ H2].
  apply IH in H2. simpl. lia.
Qed.

Lemma is_prefix_app_r p r : is_prefix p (p ++ r) = true.
Proof. induction p as [|x p IH]; simpl; [reflexivity|]. now rewrite N.eqb_refl, IH. Qed.

(* ---- insertion sort ---- *)
Section ISort.
  Context {A : Type} (le : A -> A -> bool).

  Lemma insert_sorted_perm x l : Permutation (x :: l) (insert_sorted le x l).
  Proof.
    induction l as [|y l IH]; simpl; [reflexivity|].
    destruct (le x y); [reflexivity|].
    rewrite perm_swap. now apply perm_skip.
  Qed.

  Lemma isort_perm l : Permutation l (isort le l).
  Proof.
    induction l as [|x l IH]; simpl; [reflexivity|].
    etransitivity; [apply perm_skip, IH|]. apply insert_sorted_perm.
  Qed.

  Hypothesis le_total : forall a b, le a b = true \/ le b a = true.
  Hypothesis le_trans : forall a b c, le a b = true -> le b c = true -> le a c = true.

  Lemma insert_sorted_sorted x l :
    StronglySorted (fun a b => le a b = true) l ->
    StronglySorted (fun a b => le a b = true) (insert_sorted le x l).
  Proof.
    induction 1 as [|y l Hs IH Hf]; simpl; [repeat constructor|].
    destruct (le x y) eqn:E.
    - constructor; [constructor; assumption|].
      constructor; [assumption|].
      eapply Forall_impl; [|exact Hf]. intros z Hz. eapply le_trans; eauto.
    - constructor; [assumption|].
      assert (Hyx : le y x = true) by (destruct (le_total x y); congruence).
      eapply Permutation_Forall; [apply insert_sorted_perm|].
      constructor; assumption.
  Qed.

  Lemma isort_sorted l : StronglySorted (fun a b => le a b = true) (isort le l).
  Proof. induction l as [|x l IH]; simpl; [constructor|]. now apply insert_sorted_sorted. Qed.
End ISort.

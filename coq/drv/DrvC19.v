(* DrvC19.v — protocol front end for Store *)
From RK Require Import Base Proto Store.

(* term := I<x..> | B<f>.<v> | L<xdt>,<xlex>,<xlang|->,<xdir|->     gname := - | term
   quad := s|p|o|g *)
Definition xopt (l : bytes) : option (option bytes) :=
  match l with
  | [45%N] => Some None
  | _ => option_map Some (xstr l)
  end.

Definition parse_term (l : bytes) : option term :=
  match l with
  | 73%N :: r => option_map TIri (xstr r)
  | 66%N :: r =>
      match split_on 46 r with
      | [a; b] => match dec_parse a, dec_parse b with Some f, Some v => Some (TBlank f v) | _, _ => None end
      | _ => None
      end
  | 76%N :: r =>
      match split_on 44 r with
      | [d; x; t; di] =>
          match xstr d, xstr x, xopt t, xopt di with
          | Some d', Some x', Some t', Some di' => Some (TLit d' x' t' di')
          | _, _, _, _ => None
          end
      | _ => None
      end
  | _ => None
  end.

Definition parse_gname (l : bytes) : option gname :=
  match l with
  | [45%N] => Some None
  | _ => option_map Some (parse_term l)
  end.

Definition parse_quad (l : bytes) : option quad :=
  match split_on 124 l with
  | [s; p; o; g] =>
      match parse_term s, parse_term p, parse_term o, parse_gname g with
      | Some s', Some p', Some o', Some g' => Some (Quad s' p' o' g')
      | _, _, _, _ => None
      end
  | _ => None
  end.

Definition xo (o : option bytes) : bytes := match o with Some b => xout b | None => NONE end.
Definition term_out (t : term) : bytes :=
  match t with
  | TIri i => 73%N :: xout i
  | TBlank f v => 66%N :: dec_print f ++ [46%N] ++ dec_print v
  | TLit d x t di => 76%N :: xout d ++ [44%N] ++ xout x ++ [44%N] ++ xo t ++ [44%N] ++ xo di
  end.
Definition gname_out (g : gname) : bytes := match g with Some t => term_out t | None => NONE end.
Definition quad_out (q : quad) : bytes :=
  term_out (q_s q) ++ [124%N] ++ term_out (q_p q) ++ [124%N] ++ term_out (q_o q) ++ [124%N] ++ gname_out (q_g q).

(* matchers in prefix notation over space-separated tokens:
   E <term> | O <n> <term>*n | i | b | l | D <m> | A <n> <m>*n | R <n> <m>*n | N <m> *)
Fixpoint take_terms (n : nat) (toks : list bytes) : option (list term * list bytes) :=
  match n with
  | O => Some ([], toks)
  | S n' => match toks with
            | t :: r => match parse_term t, take_terms n' r with
                        | Some t', Some (ts, r') => Some (t' :: ts, r')
                        | _, _ => None
                        end
            | [] => None
            end
  end.

Fixpoint parse_tm (fuel : nat) (toks : list bytes) : option (tmatch * list bytes) :=
  match fuel with
  | O => None
  | S f =>
      match toks with
      | [69%N] :: t :: r => option_map (fun t' => (MEq t', r)) (parse_term t)
      | [79%N] :: n :: r =>
          match nat_parse n with
          | Some n' => option_map (fun '(ts, r') => (MOneOf ts, r')) (take_terms n' r)
          | None => None
          end
      | [105%N] :: r => Some (MIsIri, r)
      | [98%N] :: r => Some (MIsBlank, r)
      | [108%N] :: r => Some (MIsLit, r)
      | [68%N] :: r => option_map (fun '(m, r') => (MLitDt m, r')) (parse_tm f r)
      | [78%N] :: r => option_map (fun '(m, r') => (MNot m, r')) (parse_tm f r)
      | [65%N] :: n :: r =>
          match nat_parse n with
          | Some n' => option_map (fun '(ms, r') => (MAnd ms, r'))
                         ((fix many (k : nat) (toks : list bytes) : option (list tmatch * list bytes) :=
                             match k with
                             | O => Some ([], toks)
                             | S k' => match parse_tm f toks with
                                       | Some (m, r1) => match many k' r1 with
                                                         | Some (ms, r2) => Some (m :: ms, r2)
                                                         | None => None
                                                         end
                                       | None => None
                                       end
                             end) n' r)
          | None => None
          end
      | [82%N] :: n :: r =>
          match nat_parse n with
          | Some n' => option_map (fun '(ms, r') => (MOr ms, r'))
                         ((fix many (k : nat) (toks : list bytes) : option (list tmatch * list bytes) :=
                             match k with
                             | O => Some ([], toks)
                             | S k' => match parse_tm f toks with
                                       | Some (m, r1) => match many k' r1 with
                                                         | Some (ms, r2) => Some (m :: ms, r2)
                                                         | None => None
                                                         end
                                       | None => None
                                       end
                             end) n' r)
          | None => None
          end
      | _ => None
      end
  end.

Definition parse_tm_all (l : bytes) : option tmatch :=
  match parse_tm 64 (split_on 32 l) with
  | Some (m, []) => Some m
  | _ => None
  end.

(* qmatch := qs <m> | qp <m> | qo <m> | qg <m> | ts <m> | tp <m> | to <m>  (first token, then the matcher) *)
Definition parse_qm (l : bytes) : option qmatch :=
  match l with
  | a :: b :: 32%N :: r =>
      match parse_tm_all r with
      | Some m =>
          if beq [a; b] (s2b "qs") then Some (QS m)
          else if beq [a; b] (s2b "qp") then Some (QP m)
          else if beq [a; b] (s2b "qo") then Some (QO m)
          else if beq [a; b] (s2b "qg") then Some (QG m)
          else if beq [a; b] (s2b "ts") then Some (QT (TS m))
          else if beq [a; b] (s2b "tp") then Some (QT (TP m))
          else if beq [a; b] (s2b "to") then Some (QT (TO m))
          else None
      | None => None
      end
  | _ => None
  end.

Definition parse_trm (l : bytes) : option trmatch :=
  match parse_qm l with
  | Some (QT m) => Some m
  | _ => None
  end.

Definition parse_sop (l : bytes) : option sop :=
  match l with
  | 97%N :: r => option_map SAdd (parse_quad r)
  | 100%N :: r => option_map SDel (parse_quad r)
  | 104%N :: r => option_map SHas (parse_quad r)
  | 105%N :: r => option_map SIter (opt_map_all parse_qm (items 38 r))
  | 71%N :: r => option_map SGetGraph (parse_gname r)
  | 116%N :: r =>
      match split_on 126 r with
      | [g; ms] => match parse_gname g, opt_map_all parse_trm (items 38 ms) with
                   | Some g', Some ms' => Some (SGIter g' ms')
                   | _, _ => None
                   end
      | _ => None
      end
  | _ => None
  end.

Definition sout_out (o : sout) : bytes :=
  match o with
  | SUnit => NONE
  | SBool b => bool_byte b
  | SQuads l => 91%N :: join [43%N] (isort bleb (map quad_out l)) ++ [93%N]
  end.

Definition run_store (args : list bytes) : bytes :=
  match args with
  | [ops] => match opt_map_all parse_sop (items 59 ops) with
             | Some ops' => join [59%N] (map sout_out (snd (srun_from store0 ops')))
             | None => ERR
             end
  | _ => ERR
  end.

(* tm <matcher> <terms ';'-separated, '-' = the nil term>: one bit per term *)
Definition run_tm (args : list bytes) : bytes :=
  match args with
  | [m; ts] =>
      match parse_tm_all m, opt_map_all parse_gname (items 59 ts) with
      | Some m', Some ts' => flat_map (fun t => bool_byte (tmatches m' t)) ts'
      | _, _ => ERR
      end
  | _ => ERR
  end.

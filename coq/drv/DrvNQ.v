(* DrvNQ.v — protocol front end for the N-Triples / N-Quads model *)
From RK Require Import Base Proto Utf8 NQ RuneBuf.

Definition runes_of (bs : bytes) : runes := map fst (utf8_decode bs).

(* encoder input terms: I<x> | b<id> | L<xlex>,<xdt>,<xlang|-> ; quad := s|p|o|g, g := - | term *)
Inductive eterm := EIri (i : runes) | EBlank (id : nat) | ELit (lex dt : runes) (lang : option runes).

Definition parse_eterm (l : bytes) : option eterm :=
  match l with
  | 73%N :: r => option_map (fun b => EIri (runes_of b)) (xstr r)
  | 98%N :: r => option_map EBlank (nat_parse r)
  | 76%N :: r =>
      match split_on 44 r with
      | [x; d; g] =>
          match xstr x, xstr d with
          | Some x', Some d' =>
              match g with
              | [45%N] => Some (ELit (runes_of x') (runes_of d') None)
              | _ => option_map (fun g' => ELit (runes_of x') (runes_of d') (Some (runes_of g'))) (xstr g)
              end
          | _, _ => None
          end
      | _ => None
      end
  | _ => None
  end.

Definition parse_equad (l : bytes) : option (eterm * eterm * eterm * option eterm) :=
  match split_on 124 l with
  | [s; p; o; g] =>
      match parse_eterm s, parse_eterm p, parse_eterm o with
      | Some s', Some p', Some o' =>
          match g with
          | [45%N] => Some (s', p', o', None)
          | _ => option_map (fun g' => (s', p', o', Some g')) (parse_eterm g)
          end
      | _, _, _ => None
      end
  | _ => None
  end.

(* Int64StringProvider with format prefix%dsuffix: labels by first use *)
Definition label_of (pre suf : runes) (known : list nat) (id : nat) : list nat * runes :=
  let fix idx (l : list nat) (i : nat) : option nat :=
      match l with [] => None | x :: l' => if Nat.eqb x id then Some i else idx l' (S i) end in
  match idx known O with
  | Some i => (known, pre ++ dec_print (N.of_nat i) ++ suf)
  | None => (known ++ [id], pre ++ dec_print (N.of_nat (length known)) ++ suf)
  end.

Definition conv_term (pre suf : runes) (known : list nat) (t : eterm) : list nat * term :=
  match t with
  | EIri i => (known, TIri i)
  | EBlank id => let '(k, l) := label_of pre suf known id in (k, TBlank l)
  | ELit x d g => (known, TLit x d g)
  end.

Fixpoint conv_quads (pre suf : runes) (known : list nat) (qs : list (eterm * eterm * eterm * option eterm)) : list quad :=
  match qs with
  | [] => []
  | (s, p, o, g) :: r =>
      let '(k1, s') := conv_term pre suf known s in
      let '(k2, p') := conv_term pre suf k1 p in
      let '(k3, o') := conv_term pre suf k2 o in
      let '(k4, g') := match g with Some x => let '(k, x') := conv_term pre suf k3 x in (k, Some x') | None => (k3, None) end in
      Quad s' p' o' g' :: conv_quads pre suf k4 r
  end.

Definition parse_bool' (l : bytes) : option bool :=
  match l with [49%N] => Some true | [48%N] => Some false | _ => None end.

(* nqenc <ascii> <xprefix> <xsuffix> <quads> *)
Definition run_nqenc (args : list bytes) : bytes :=
  match args with
  | [a; pre; suf; qs] =>
      match parse_bool' a, xstr pre, xstr suf, opt_map_all parse_equad (items 59 qs) with
      | Some a', Some pre', Some suf', Some qs' =>
          xout (utf8_encode (encode a' (conv_quads (runes_of pre') (runes_of suf') [] qs')))
      | _, _, _, _ => ERR
      end
  | _ => ERR
  end.

(* ---- decoder ---- *)
Definition rx (l : runes) : bytes := xout (utf8_encode l).

Definition term_out (t : term) : bytes :=
  match t with
  | TIri i => 73%N :: rx i
  | TBlank l => 66%N :: rx l
  | TLit x d g => 76%N :: rx x ++ [44%N] ++ rx d ++ [44%N] ++ (match g with Some g' => rx g' | None => NONE end)
  end.

Definition pos_out (p : pos) : bytes :=
  dec_print (p_byte p) ++ [46%N] ++ dec_print (p_line p) ++ [46%N] ++ dec_print (p_col p).

Definition range_out (r : pos * pos) : bytes := pos_out (fst r) ++ [45%N] ++ pos_out (snd r).

Definition quad_out (q : quad) : bytes :=
  term_out (q_s q) ++ [124%N] ++ term_out (q_p q) ++ [124%N] ++ term_out (q_o q) ++ [124%N] ++
  (match q_g q with Some g => term_out g | None => NONE end).

Definition verdict_out (v : verdict) : bytes :=
  match v with VOk => s2b "ok" | VSyntax => s2b "syntax" | VIo => s2b "io" | VFuel => s2b "!fuel" end.

(* statements with the ranges of their terms (subject, predicate, object[, graph]) *)
Definition stmts_out (p : pos) (l : list stmt) (with_ranges : bool) : list bytes :=
  map (fun sr : stmt * list (pos * pos) =>
         quad_out (st_quad (fst sr)) ++ (if with_ranges then 64%N :: join [44%N] (map range_out (snd sr)) else []))
      (combine l (stmt_ranges p l)).

Definition parse_pos (l : bytes) : option pos :=
  match split_on 46 l with
  | [a; b; c] => match dec_parse a, dec_parse b, dec_parse c with
                 | Some x, Some y, Some z => Some (Pos x y z)
                 | _, _, _ => None
                 end
  | _ => None
  end.

(* nqdec <nq 0/1> <E|F> <ranges 0/1> <initial pos b.l.c> <xbytes> *)
Definition run_nqdec (args : list bytes) : bytes :=
  match args with
  | [nq; t; wr; p0; bs] =>
      match parse_bool' nq, parse_bool' wr, parse_pos p0, xstr bs with
      | Some nq', Some wr', Some p0', Some bs' =>
          let t' := match t with [70%N] => TFail | _ => TEof end in
          let '(sts, v) := decode_bytes nq' bs' t' in
          verdict_out v ++ [59%N] ++ join [59%N] (stmts_out p0' sts wr')
      | _, _, _, _ => ERR
      end
  | _ => ERR
  end.

(* runes <sizes n,n,..> <xbytes>: the (rune, size) pairs the rune buffer hands out when the reader returns the bytes in chunks *)
Definition run_runes (args : list bytes) : bytes :=
  match args with
  | [sz; bs] =>
      match opt_map_all dec_parse (split_on 44 sz), xstr bs with
      | Some sizes, Some bs' =>
          join [44%N] (map (fun rn : N * nat => dec_print (fst rn) ++ [46%N] ++ dec_print (N.of_nat (snd rn)))
                           (read_all (chunk (map N.to_nat sizes) bs')))
      | _, _ => ERR
      end
  | _ => ERR
  end.

(* DrvC14.v — protocol front end for BNodes *)
From RK Require Import Base Proto BNodes.

(* ops (';'-separated): F S P U M<f|d> b<f|d> s<sf>:<xlabel> a<sf> g<p>:<k> u<p>:<k> m<m>:<k> t<sf>:<p>:<k> *)
Definition parse_fac (l : bytes) : option (option nat) :=
  match l with
  | [100%N] => Some None
  | _ => option_map Some (nat_parse l)
  end.

Definition two_nats (l : bytes) : option (nat * nat) :=
  match split_on 58 l with
  | [a; b] => match nat_parse a, nat_parse b with Some x, Some y => Some (x, y) | _, _ => None end
  | _ => None
  end.

Definition parse_bop (l : bytes) : option op :=
  match l with
  | [70%N] => Some ONewFactory
  | [83%N] => Some ONewStringFactory
  | [80%N] => Some ONewProvider
  | [85%N] => Some ONewUProvider
  | 77%N :: r => option_map ONewMapper (parse_fac r)
  | 98%N :: r => option_map OBlank (parse_fac r)
  | 97%N :: r => option_map OStrAnon (nat_parse r)
  | 115%N :: r =>
      match split_on 58 r with
      | [a; b] => match nat_parse a, xstr b with Some sf, Some lb => Some (OStrBlank sf lb) | _, _ => None end
      | _ => None
      end
  | 103%N :: r => option_map (fun '(a, b) => OGet a b) (two_nats r)
  | 117%N :: r => option_map (fun '(a, b) => OGetU a b) (two_nats r)
  | 109%N :: r => option_map (fun '(a, b) => OMap a b) (two_nats r)
  | _ => None
  end.

Definition bid_out (b : bid) : bytes :=
  match b with
  | BDef v => 100%N :: dec_print v
  | BFac f v => 102%N :: nat_print f ++ [46%N] ++ dec_print v
  | BStr f l => 115%N :: nat_print f ++ [46%N] ++ xout l
  end.

Definition out_out (o : out) : bytes :=
  match o with
  | RNone => NONE
  | RNode b => bid_out b
  | RLabel n => 76%N :: dec_print n
  | RUuid k => 85%N :: nat_print k
  | RBad => [33%N]
  end.

Definition parse_sop (l : bytes) : option sop :=
  match l with
  | 116%N :: r =>
      match split_on 58 r with
      | [a; b; c] => match nat_parse a, nat_parse b, nat_parse c with
                     | Some sf, Some p, Some k => Some (XGetS sf p k)
                     | _, _, _ => None
                     end
      | _ => None
      end
  | _ => option_map XBase (parse_bop l)
  end.

Definition sout_out (o : sout) : bytes :=
  match o with
  | YBase r => out_out r
  | YStr l => 84%N :: xout l
  end.

Definition run_bn (args : list bytes) : bytes :=
  match args with
  | [ops] => match opt_map_all parse_sop (items 59 ops) with
             | Some ops' => join [59%N] (map sout_out (snd (xrun ops')))
             | None => ERR
             end
  | _ => ERR
  end.

(* Driver.v — single entry point [run_line] evaluated by the extracted OCaml
   driver and, on a slice of every correspondence run, by vm_compute in Coq. *)
From RK Require Import Base Proto DrvC13 DrvC12 DrvC14 DrvC19 DrvC17 DrvNQ DrvTtl DrvXsd DrvCanon DrvReg DrvRdfXml DrvJsonLd DrvRdfa.

Definition run_line (l : bytes) : bytes :=
  match fields l with
  | kind :: args =>
      if beq kind (s2b "pfx") then run_pfx args
      else if beq kind (s2b "rel") then run_rel args
      else if beq kind (s2b "cur") then run_cur args
      else if beq kind (s2b "pcur") then run_pcur args
      else if beq kind (s2b "bn") then run_bn args
      else if beq kind (s2b "store") then run_store args
      else if beq kind (s2b "tm") then run_tm args
      else if beq kind (s2b "descr") then run_descr args
      else if beq kind (s2b "descrd") then run_descrd args
      else if beq kind (s2b "nqenc") then run_nqenc args
      else if beq kind (s2b "nqdec") then run_nqdec args
      else if beq kind (s2b "runes") then run_runes args
      else if beq kind (s2b "ttok") then run_ttok args
      else if beq kind (s2b "xsd") then run_xsd args
      else if beq kind (s2b "canon") then run_canon args
      else if beq kind (s2b "reg") then run_reg args
      else if beq kind (s2b "rdfxml") then run_rdfxml args
      else if beq kind (s2b "rdfxmlq") then run_rdfxmlq args
      else if beq kind (s2b "jsonld") then run_jsonld args
      else if beq kind (s2b "jsonldq") then run_jsonldq args
      else if beq kind (s2b "rdfa") then run_rdfa args
      else if beq kind (s2b "mdata") then run_mdata args
      else if beq kind (s2b "res") then run_res args
      else if beq kind (s2b "p5") then run_p5 args
      else if beq kind (s2b "rds") then run_rds args
      else s2b "!kind"
  | [] => s2b "!empty"
  end.

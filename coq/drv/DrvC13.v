(* DrvC13.v — line-protocol front end for the Prefix / Relativize / Curie models *)
From RK Require Import Base Proto Prefix.

(* op syntax (ops separated by ';'):
     A<i>:<xp>=<xns>,...   D<i>:<xp>,...   C<i>
     c<i>:<xv>   e<i>:<xp>=<xref>   g<i>                (queries) *)
Definition parse_mapping (l : bytes) : option mapping :=
  match split_on 61 l with
  | [a; b] => match xstr a, xstr b with Some p, Some n => Some (Mk p n) | _, _ => None end
  | _ => None
  end.

Definition idx_arg (l : bytes) : option (nat * bytes) :=
  match split_on 58 l with
  | [i] => option_map (fun n => (n, [])) (nat_parse i)
  | [i; a] => option_map (fun n => (n, a)) (nat_parse i)
  | _ => None
  end.

Definition mapping_out (m : mapping) : bytes := xout (pfx m) ++ [61%N] ++ xout (ns m).

Definition q_compact (p : pm) (v : bytes) : bytes :=
  match pm_compact p v with
  | None => NONE
  | Some (k, r) =>
      nat_print (length r) ++ [44%N] ++
      bool_byte (match pm_expand p k r with Some v' => beq v v' | None => false end)
  end.

Definition q_dump (p : pm) : bytes :=
  join [44%N] (map mapping_out (pm_dump p)) ++ [47%N] ++
  join [44%N] (map nat_print (ordered_lens p)).

(* returns the new state and an optional output *)
Definition pfx_op (s : list pm) (o : bytes) : option (list pm * option bytes) :=
  match o with
  | [] => None
  | c :: rest =>
      match idx_arg rest with
      | None => None
      | Some (i, a) =>
          if N.eqb c 65 (* A *) then
            option_map (fun ms => (pstep s (OAdd i ms), None)) (opt_map_all parse_mapping (items 44 a))
          else if N.eqb c 68 (* D *) then
            option_map (fun ks => (pstep s (ODel i ks), None)) (opt_map_all xstr (items 44 a))
          else if N.eqb c 67 (* C *) then Some (pstep s (OClone i), None)
          else match nth_error s i with
               | None => Some (s, Some (s2b "!idx"))
               | Some p =>
                   if N.eqb c 99 (* c *) then option_map (fun v => (s, Some (q_compact p v))) (xstr a)
                   else if N.eqb c 101 (* e *) then
                     match split_on 61 a with
                     | [k; r] => match xstr k, xstr r with
                                 | Some k', Some r' => Some (s, Some (opt_out xout (pm_expand p k' r')))
                                 | _, _ => None
                                 end
                     | _ => None
                     end
                   else if N.eqb c 103 (* g *) then Some (s, Some (q_dump p))
                   else None
               end
      end
  end.

Fixpoint pfx_ops (s : list pm) (ops : list bytes) (acc : list bytes) : option (list bytes) :=
  match ops with
  | [] => Some (rev acc)
  | o :: ops' =>
      match pfx_op s o with
      | None => None
      | Some (s', out) => pfx_ops s' ops' (match out with Some b => b :: acc | None => acc end)
      end
  end.

Definition run_pfx (args : list bytes) : bytes :=
  match args with
  | [ops] => match pfx_ops [pm_empty] (items 59 ops) [] with
             | Some outs => join [59%N] outs
             | None => ERR
             end
  | _ => ERR
  end.

(* ---- relativize / curie front ends ---- *)
From RK Require Import Iri3986 Relativize Curie.

Definition run_rel (args : list bytes) : bytes :=
  match args with
  | [b; v] => match xstr b, xstr v with
              | Some b', Some v' => opt_out xout (relativize (new_base b') v')
              | _, _ => ERR
              end
  | _ => ERR
  end.

Definition curie_out (c : curie) : bytes :=
  bool_byte (cu_safe c) ++ [44%N] ++ bool_byte (cu_default c) ++ [44%N] ++ xout (cu_prefix c) ++ [44%N] ++ xout (cu_ref c).

Definition parse_bool (l : bytes) : option bool :=
  match l with [49%N] => Some true | [48%N] => Some false | _ => None end.

(* cur <safe> <xdefault> <defaultEmpty> <mappings> <xv> *)
Definition run_cur (args : list bytes) : bytes :=
  match args with
  | [sf; d; de; ms; v] =>
      match parse_bool sf, xstr d, parse_bool de, opt_map_all parse_mapping (items 44 ms), xstr v with
      | Some sf', Some d', Some de', Some ms', Some v' =>
          let s := Scope sf' d' de' (pm_add pm_empty ms') in
          let c := compact_curie s v' in
          bool_byte (cu_safe c) ++ [44%N] ++ bool_byte (cu_default c) ++ [44%N] ++ xout (cu_ref c)
            ++ [124%N] ++ opt_out xout (expand_curie s c)
      | _, _, _, _, _ => ERR
      end
  | _ => ERR
  end.

Definition run_pcur (args : list bytes) : bytes :=
  match args with
  | [v] => match xstr v with Some v' => opt_out curie_out (parse_curie v') | None => ERR end
  | _ => ERR
  end.

(* DrvCanon.v — canon <hash: fnv> <quads: xS,xP,xO,xG;...> -> x<canonical document> | !perm | !depth | !fuel
   A component starting with "_:" is a blank node (the rest is its label); an empty graph field is the default graph;
   anything else is canonical N-Quads text. *)
From RK Require Import Base Proto Canon.

Definition comp_in (b : bytes) : comp :=
  match b with
  | 95%N :: 58%N :: l => CB l
  | _ => CT b
  end.

Definition quad_in (f : bytes) : option cquad :=
  match opt_map_all xstr (split_on 44 f) with
  | Some [s; p; o; g] => Some (CQ (comp_in s) p (comp_in o) (match g with [] => None | _ => Some (comp_in g) end))
  | _ => None
  end.

Definition run_canon (args : list bytes) : bytes :=
  match args with
  | [h; qsf] =>
      match opt_map_all quad_in (items 59 qsf) with
      | None => ERR
      | Some qs =>
          if beq h (s2b "fnv") then
            match canonicalize fnv_hex qs with
            | COk lines _ => xout (concat (map snd lines))
            | CErrPerm => s2b "!perm"
            | CErrDepth => s2b "!depth"
            | CFuel => s2b "!fuel"
            end
          else ERR
      end
  | _ => ERR
  end.

(* DrvC12.v — protocol front end for Iri3986 *)
From RK Require Import Base Proto Iri3986.

Definition run_res (args : list bytes) : bytes :=
  match args with
  | [b; r] => match xstr b, xstr r with
              | Some b', Some r' => xout (resolve b' r')
              | _, _ => ERR
              end
  | _ => ERR
  end.

Definition run_p5 (args : list bytes) : bytes :=
  match args with
  | [s] => match xstr s with Some s' => xout (recompose (parse5 s')) | None => ERR end
  | _ => ERR
  end.

Definition run_rds (args : list bytes) : bytes :=
  match args with
  | [s] => match xstr s with Some s' => xout (remove_dot_segments s') | None => ERR end
  | _ => ERR
  end.

(* DrvTtl.v — protocol front end for the Turtle token models. Strings travel as UTF-8 bytes. *)
From RK Require Import Base Proto Utf8 NQ TurtleTok.

Definition runes_in (bs : bytes) : list N := map fst (utf8_decode bs).
Definition runes_x (l : list N) : bytes := xout (utf8_encode l).

Definition kind_out (k : numkind) : bytes := match k with KInteger => s2b "I" | KDecimal => s2b "D" | KDouble => s2b "B" end.

(* the harness observes a string token through the statement it is the object of: that statement is yielded as soon as
   the literal is complete, which after '@' or '^' needs a well-formed suffix (the harness writes these two) *)
Definition string_observable (rest : list N) : bool :=
  match rest with
  | c :: _ => if N.eqb c 64 || N.eqb c 94 then existsb (beq rest) [s2b "@en ."; s2b "^^<http://e/d> ."] else true
  | [] => false
  end.

(* ttok <op> <args..> *)
Definition run_ttok (args : list bytes) : bytes :=
  match args with
  | [op; a] =>
      match xstr a with
      | None => ERR
      | Some bs =>
          let rs := runes_in bs in
          if beq op (s2b "fl") then match fmt_local rs with Some e => s2b "S" ++ runes_x e | None => s2b "N" end
          else if beq op (s2b "ll") then match lex_local rs with Some (d, _) => s2b "S" ++ runes_x d | None => s2b "E" end
          else if beq op (s2b "sk") then match shorthand_kind rs with Some k => kind_out k | None => s2b "N" end
          else if beq op (s2b "ln") then
            match rs with
            | r0 :: r => match lex_numeric r0 r with Some (k, tok, _) => kind_out k ++ runes_x tok | None => s2b "E" end
            | [] => s2b "E"
            end
          else if beq op (s2b "li") then match lex_iriref rs with Some (d, _) => s2b "S" ++ runes_x d | None => s2b "E" end
          else if beq op (s2b "ls") then
            match rs with
            | q :: r => match lex_string q r with
                        | Some (d, rest) =>
                            if string_observable rest then s2b "S" ++ runes_x d
                            else match rest with
                                 | _ :: _ => s2b "!skip"   (* a language tag or datatype other than the two the harness writes: whether the literal is complete is not modelled *)
                                 | [] => s2b "E"
                                 end
                        | None => s2b "E"
                        end
            | [] => s2b "E"
            end
          else ERR
      end
  | [op; fl; a] =>
      match xstr a with
      | None => ERR
      | Some bs =>
          let rs := runes_in bs in
          let ascii := beq fl (s2b "1") in
          if beq op (s2b "fs") then runes_x (fmt_string ascii rs)
          else if beq op (s2b "fi") then runes_x (fmt_iri ascii rs)
          else ERR
      end
  | _ => ERR
  end.

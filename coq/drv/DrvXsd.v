(* DrvXsd.v — protocol front end for the XSD mapping model: xsd <datatype> <xbytes> -> V<x canonical lexical form> | E *)
From RK Require Import Base Proto Xsd.

Definition vout (l : bytes) : bytes := 86%N :: xout l.
Definition E : bytes := [69%N].

Definition run_xsd (args : list bytes) : bytes :=
  match args with
  | [ty; a] =>
      match xstr a with
      | None => ERR
      | Some s =>
          let sg bits := match map_signed bits s with Some v => vout (canon_int v) | None => E end in
          let us bits := match map_unsigned bits s with Some v => vout (canon_int v) | None => E end in
          if beq ty (s2b "boolean") then match map_boolean s with Some b => vout (canon_boolean b) | None => E end
          else if beq ty (s2b "integer") then sg 64%N      (* the Go type is an int64 *)
          else if beq ty (s2b "long") then sg 64%N
          else if beq ty (s2b "int") then sg 32%N
          else if beq ty (s2b "short") then sg 16%N
          else if beq ty (s2b "byte") then sg 8%N
          else if beq ty (s2b "unsignedLong") then us 64%N
          else if beq ty (s2b "unsignedInt") then us 32%N
          else if beq ty (s2b "unsignedShort") then us 16%N
          else if beq ty (s2b "unsignedByte") then us 8%N
          else if beq ty (s2b "hexBinary") then match map_hexbinary s with Some c => vout c | None => E end
          else if beq ty (s2b "ws") then vout (ws_collapse s)
          else ERR
      end
  | _ => ERR
  end.

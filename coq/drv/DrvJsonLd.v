(* DrvJsonLd.v — jsonld <xbase> <json tokens, comma separated> -> quads "S P O[ G]" joined by ";" | !doc
   json: N | T | F | I,<decimal> | S,<xstr> | A,<n>,<items> | O,<n>,(<xkey>,<value>)* *)
From RK Require Import Base Proto JsonLd.

Fixpoint parse_json (fuel : nat) (toks : list bytes) : option (json * list bytes) :=
  match fuel with
  | O => None
  | S f =>
      match toks with
      | tag :: t =>
          if beq tag (s2b "N") then Some (JNull, t)
          else if beq tag (s2b "T") then Some (JBool true, t)
          else if beq tag (s2b "F") then Some (JBool false, t)
          else if beq tag (s2b "I") then
            match t with x :: r => match decz_parse x with Some z => Some (JInt z, r) | None => None end | [] => None end
          else if beq tag (s2b "S") then
            match t with x :: r => match xstr x with Some s => Some (JStr s, r) | None => None end | [] => None end
          else if beq tag (s2b "A") then
            match t with
            | n :: r =>
                match nat_parse n with
                | Some k =>
                    (fix items (k : nat) (toks : list bytes) (acc : list json) {struct k} : option (json * list bytes) :=
                       match k with
                       | O => Some (JArr (rev acc), toks)
                       | S k' => match parse_json f toks with
                                 | Some (c, r') => items k' r' (c :: acc)
                                 | None => None
                                 end
                       end) k r []
                | None => None
                end
            | [] => None
            end
          else if beq tag (s2b "O") then
            match t with
            | n :: r =>
                match nat_parse n with
                | Some k =>
                    (fix items (k : nat) (toks : list bytes) (acc : list (bytes * json)) {struct k} : option (json * list bytes) :=
                       match k with
                       | O => Some (JObj (rev acc), toks)
                       | S k' => match toks with
                                 | key :: r' =>
                                     match xstr key, parse_json f r' with
                                     | Some ks, Some (c, r'') => items k' r'' ((ks, c) :: acc)
                                     | _, _ => None
                                     end
                                 | [] => None
                                 end
                       end) k r []
                | None => None
                end
            | [] => None
            end
          else None
      | [] => None
      end
  end.

Definition jterm_out (t : jterm) : bytes :=
  match t with
  | TI i => 60%N :: i ++ [62%N]
  | TB true l => s2b "_:g" ++ l
  | TB false l => s2b "_:n" ++ hex_encode l
  | TL lex dt lang => s2b "L" ++ hex_encode lex ++ s2b "^" ++ dt ++ s2b "@" ++ lang
  end.

Definition jquad_out (q : jquad) : bytes :=
  let '(s, p, o, g) := q in
  jterm_out s ++ [32%N] ++ (60%N :: p ++ [62%N]) ++ [32%N] ++ jterm_out o ++
  match g with Some g => 32%N :: jterm_out g | None => [] end.

Definition run_jsonld (args : list bytes) : bytes :=
  match args with
  | [b; tree] =>
      match xstr b, parse_json (S (length tree)) (split_on 44 tree) with
      | Some base, Some (doc, []) =>
          match jsonld_doc base doc with
          | Some qs => join [59%N] (map jquad_out qs)
          | None => s2b "!doc"
          end
      | _, _ => ERR
      end
  | _ => ERR
  end.

(* jsonldq: the same for documents not written by the harness: !skip where the document leaves the modelled part *)
Definition run_jsonldq (args : list bytes) : bytes :=
  match args with
  | [b; tree] =>
      match xstr b, parse_json (S (length tree)) (split_on 44 tree) with
      | Some base, Some (doc, []) =>
          match jsonld_doc base doc with
          | Some qs => join [59%N] (map jquad_out qs)
          | None => s2b "!skip"
          end
      | _, _ => ERR
      end
  | _ => ERR
  end.

(* DrvReg.v — reg <aliases k=v,..> <decoders a,b,..> <encoders> <media k=v,..> <exts k=v,..> <op> <args..>
   op dec: <xtype> <xmedia|-> <xfilename|-> <xmagic|->  -> resolved identifier or "-"
   op enc: <xtype> <xfilename|->                       -> resolved identifier or "-"
   op ok:                                               -> 1 if the extension table is consistent, else 0
   keys and values inside the tables are x-hex encoded. *)
From RK Require Import Base Proto Registry.

Definition pair_in (f : bytes) : option (bytes * bytes) :=
  match split_on 61 f with
  | [k; v] => match xstr k, xstr v with Some k', Some v' => Some (k', v') | _, _ => None end
  | _ => None
  end.
Definition table_in (f : bytes) : option (list (bytes * bytes)) := opt_map_all pair_in (items 44 f).
Definition list_in (f : bytes) : option (list bytes) := opt_map_all xstr (items 44 f).
Definition opt_in (f : bytes) : option (option bytes) :=
  if beq f (s2b "-") then Some None else match xstr f with Some v => Some (Some v) | None => None end.
Definition res_out (o : option bytes) : bytes := match o with Some c => c | None => s2b "-" end.

Definition run_reg (args : list bytes) : bytes :=
  match args with
  | al :: de :: en :: me :: ex :: op :: rest =>
      match table_in al, list_in de, list_in en, table_in me, table_in ex with
      | Some al', Some de', Some en', Some me', Some ex' =>
          let r := Registry al' de' en' me' ex' in
          if beq op (s2b "dec") then
            match rest with
            | [t; m; f; g] =>
                match xstr t, opt_in m, opt_in f, opt_in g with
                | Some t', Some m', Some f', Some g' => res_out (resolve_decoder r t' m' f' g')
                | _, _, _, _ => ERR
                end
            | _ => ERR
            end
          else if beq op (s2b "enc") then
            match rest with
            | [t; f] => match xstr t, opt_in f with Some t', Some f' => res_out (resolve_encoder r t' f') | _, _ => ERR end
            | _ => ERR
            end
          else if beq op (s2b "ok") then bool_byte (exts_consistent ex')
          else ERR
      | _, _, _, _, _ => ERR
      end
  | _ => ERR
  end.

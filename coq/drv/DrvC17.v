(* DrvC17.v — protocol front end for Descr *)
From RK Require Import Base Proto Descr.

(* node := i<n> | b<n> | l<n> ; triple := s,p,o ; quad := s,p,o,g with g := - | node *)
Definition parse_node (l : bytes) : option node :=
  match l with
  | 105%N :: r => option_map NIri (nat_parse r)
  | 98%N :: r => option_map NBlank (nat_parse r)
  | 108%N :: r => option_map NLit (nat_parse r)
  | _ => None
  end.

Definition node_out (n : node) : bytes :=
  match n with
  | NIri k => 105%N :: nat_print k
  | NBlank k => 98%N :: nat_print k
  | NLit k => 108%N :: nat_print k
  end.

Definition parse_triple (l : bytes) : option triple :=
  match split_on 44 l with
  | [s; p; o] => match parse_node s, parse_node p, parse_node o with
                 | Some s', Some p', Some o' => Some (s', p', o')
                 | _, _, _ => None
                 end
  | _ => None
  end.

Definition parse_quad4 (l : bytes) : option quad :=
  match split_on 44 l with
  | [s; p; o; g] =>
      match parse_node s, parse_node p, parse_node o with
      | Some s', Some p', Some o' =>
          match g with
          | [45%N] => Some ((s', p', o'), None)
          | _ => option_map (fun g' => ((s', p', o'), Some g')) (parse_node g)
          end
      | _, _, _ => None
      end
  | _ => None
  end.

Definition parse_opts (l : bytes) : option opts :=
  match l with
  | [a; b] => Some (Opts (N.eqb a 49) (N.eqb b 49))
  | _ => None
  end.

(* canonical printing, without the ghost origins: p>o  |  p>[ ... ] *)
Fixpoint stmts_out (fuel : nat) (sts : list stmt) : bytes :=
  match fuel with
  | O => s2b "!fuel"
  | S f =>
      join [32%N] (map (fun st => match st with
                                  | SObj p o => node_out p ++ [62%N] ++ node_out o
                                  | SAnon p _ sub => node_out p ++ [62%N; 91%N] ++ stmts_out f sub ++ [93%N]
                                  | SOut => s2b "!outoffuel"
                                  end) sts)
  end.

Definition resource_out (fuel : nat) (r : resource) : bytes :=
  match r with
  | RSubj s sts => 82%N :: node_out s ++ [40%N] ++ stmts_out fuel sts ++ [41%N]
  | RAnon _ sts => 65%N :: [40%N] ++ stmts_out fuel sts ++ [41%N]
  end.

Definition run_descr (args : list bytes) : bytes :=
  match args with
  | [o; ts] =>
      match parse_opts o, opt_map_all parse_triple (items 59 ts) with
      | Some o', Some g =>
          join [59%N] (isort bleb (map (resource_out (S (S (S (length g))))) (export g [] o')))
      | _, _ => ERR
      end
  | _ => ERR
  end.

Definition gname_out (g : gname) : bytes := match g with Some n => node_out n | None => NONE end.

Definition run_descrd (args : list bytes) : bytes :=
  match args with
  | [o; qs] =>
      match parse_opts o, opt_map_all parse_quad4 (items 59 qs) with
      | Some o', Some qs' =>
          join [59%N] (isort bleb
            (flat_map (fun '(g, rs) => map (fun r => gname_out g ++ [124%N] ++ resource_out (S (S (S (length qs')))) r) rs)
                      (export_dataset qs' o')))
      | _, _ => ERR
      end
  | _ => ERR
  end.

(* DrvRdfXml.v — rdfxml <xbase> <tree tokens, comma separated> -> triples "S P O" joined by ";" | !doc
   tree: E,<xname>,<n attrs>,(<xname>,<xvalue>)*,<n children>,<children>   or   T,<xtext> *)
From RK Require Import Base Proto RdfXml.

Fixpoint take_attrs (n : nat) (toks : list bytes) : option (list (bytes * bytes) * list bytes) :=
  match n with
  | O => Some ([], toks)
  | S n' =>
      match toks with
      | k :: v :: t =>
          match xstr k, xstr v, take_attrs n' t with
          | Some k', Some v', Some (l, r) => Some ((k', v') :: l, r)
          | _, _, _ => None
          end
      | _ => None
      end
  end.

Fixpoint parse_node (fuel : nat) (toks : list bytes) : option (xnode * list bytes) :=
  match fuel with
  | O => None
  | S f =>
      match toks with
      | tag :: t =>
          if beq tag (s2b "T") then
            match t with x :: r => match xstr x with Some s => Some (XT s, r) | None => None end | [] => None end
          else if beq tag (s2b "E") then
            match t with
            | nm :: na :: r =>
                match xstr nm, nat_parse na with
                | Some name, Some n =>
                    match take_attrs n r with
                    | Some (attrs, nc :: r2) =>
                        match nat_parse nc with
                        | Some k =>
                            (fix kids (k : nat) (toks : list bytes) (acc : list xnode) {struct k} : option (xnode * list bytes) :=
                               match k with
                               | O => Some (XE name attrs (rev acc), toks)
                               | S k' => match parse_node f toks with
                                         | Some (c, r3) => kids k' r3 (c :: acc)
                                         | None => None
                                         end
                               end) k r2 []
                        | None => None
                        end
                    | _ => None
                    end
                | _, _ => None
                end
            | _ => None
            end
          else None
      | [] => None
      end
  end.

Definition term_out (t : rterm) : bytes :=
  match t with
  | RI i => 60%N :: i ++ [62%N]
  | RB true l => s2b "_:g" ++ l
  | RB false l => s2b "_:n" ++ hex_encode l
  | RL lex dt lang => s2b "L" ++ hex_encode lex ++ s2b "^" ++ dt ++ s2b "@" ++ lang
  end.

Definition triple_out (t : rtriple) : bytes :=
  let '(s, p, o) := t in term_out s ++ [32%N] ++ (60%N :: p ++ [62%N]) ++ [32%N] ++ term_out o.

Definition run_rdfxml (args : list bytes) : bytes :=
  match args with
  | [b; tree] =>
      match xstr b, parse_node (S (length tree)) (split_on 44 tree) with
      | Some base, Some (root, []) =>
          match rdfxml_doc base root with
          | Some ts => join [59%N] (map triple_out ts)
          | None => s2b "!doc"
          end
      | _, _ => ERR
      end
  | _ => ERR
  end.

(* rdfxmlq: the same for documents not written by the harness: !skip where the document leaves the modelled part *)
Definition run_rdfxmlq (args : list bytes) : bytes :=
  match args with
  | [b; tree] =>
      match xstr b, parse_node (S (length tree)) (split_on 44 tree) with
      | Some base, Some (root, []) =>
          match rdfxml_doc base root with
          | Some ts => join [59%N] (map triple_out ts)
          | None => s2b "!skip"
          end
      | _, _ => ERR
      end
  | _ => ERR
  end.

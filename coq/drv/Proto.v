(* Proto.v — field codecs of the case line protocol (shared by all drivers).
   A line is TAB-separated fields; a string is 'x' followed by hex bytes;
   numbers are decimal. *)
From RK Require Import Base.

Definition TAB : N := 9.
Definition fields (l : bytes) : list bytes := split_on TAB l.

(* split, but the empty field denotes the empty list *)
Definition items (sep : N) (l : bytes) : list bytes :=
  match l with [] => [] | _ => split_on sep l end.

Definition xstr (l : bytes) : option bytes :=
  match l with
  | 120%N :: h => hex_decode h
  | _ => None
  end.
Definition xout (l : bytes) : bytes := 120%N :: hex_encode l.

Definition nat_parse (l : bytes) : option nat := option_map N.to_nat (dec_parse l).
Definition nat_print (n : nat) : bytes := dec_print (N.of_nat n).

Definition ERR : bytes := s2b "!parse".
Definition NONE : bytes := s2b "-".

Definition opt_out {A} (f : A -> bytes) (o : option A) : bytes :=
  match o with Some x => f x | None => NONE end.

(* DrvRdfa.v — rdfa <xlocation> <tree tokens> -> triples joined by ";" | !doc   (tree tokens as in DrvRdfXml.v)
              mdata <xlocation> <tree tokens> -> triples of the Microdata model *)
From RK Require Import Base Proto RdfXml DrvRdfXml Rdfa Microdata.

Definition run_rdfa (args : list bytes) : bytes :=
  match args with
  | [b; tree] =>
      match xstr b, parse_node (S (length tree)) (split_on 44 tree) with
      | Some base, Some (root, []) =>
          match rdfa_doc base root with
          | Some ts => join [59%N] (map triple_out ts)
          | None => s2b "!doc"
          end
      | _, _ => ERR
      end
  | _ => ERR
  end.

Definition run_mdata (args : list bytes) : bytes :=
  match args with
  | [b; tree] =>
      match xstr b, parse_node (S (length tree)) (split_on 44 tree) with
      | Some base, Some (root, []) => join [59%N] (map triple_out (microdata_doc base root))
      | _, _ => ERR
      end
  | _ => ERR
  end.

(* C03 — Canonical form depends only on the dataset, not on labels or order: the structural half.
   For every hash function and every dataset on which the algorithm finishes within its work limits. *)
From RK Require Import Base BaseFacts Canon CanonProofs.
From Coq Require Import Permutation Sorted.

(* the issued identifiers are c14n0, c14n1, ... in issue order, every blank node of the dataset has one; the lines
   are sorted; the lines are exactly the input quads rewritten with the issued identifiers, each paired with the
   position of its original quad (a permutation of the input: nothing lost, nothing invented) *)
Theorem C03_structure : forall H qs lines canon,
  canonicalize H qs = COk lines canon ->
  issuer_wf canon /\ i_prefix canon = s2b "c14n" /\
  (forall l, In l (flat_map quad_labels qs) -> lookup canon l <> None) /\
  StronglySorted (fun a b => bleb (snd a) (snd b) = true) lines /\
  Permutation lines (combine (seq 0 (length qs)) (map (ser_quad (id_of canon)) qs)).
Proof. exact canonicalize_structure. Qed.
Print Assumptions C03_structure.

(* the renaming is one-to-one: two blank nodes never share a canonical identifier *)
Theorem C03_issued_injective : forall c x y v, issuer_wf c -> lookup c x = Some v -> lookup c y = Some v -> x = y.
Proof. exact (issued_injective (fun x => x)). Qed.
Print Assumptions C03_issued_injective.

(* the work limits end in an error value, never in an answer: the result type has no other outcomes *)
Theorem C03_outcomes : forall H qs, match canonicalize H qs with COk _ _ | CErrPerm | CErrDepth | CFuel => True end.
Proof. intros H qs. destruct (canonicalize H qs); exact I. Qed.

(* NOT PROVED (stated only): invariance under blank node renaming and quad order. It is the correctness of RDFC-1.0
   itself modulo hash collisions; it is decided by exploration (isomorphic copies of generated datasets). *)
Definition C03_iso_invariance_statement : Prop :=
  forall H (qs qs' : list cquad) lines lines' c c',
    (* qs' is qs with blank nodes renamed one-to-one and quads reordered *)
    (exists f, (forall a b, f a = f b -> a = b) /\
       Permutation qs' (map (fun q => CQ (match q_s q with CB l => CB (f l) | x => x end) (q_p q)
                                         (match q_o q with CB l => CB (f l) | x => x end)
                                         (match q_g q with Some (CB l) => Some (CB (f l)) | x => x end)) qs)) ->
    canonicalize H qs = COk lines c -> canonicalize H qs' = COk lines' c' -> map snd lines = map snd lines'.

(* non-vacuity: a two-cycle with a marked node, under FNV-1a *)
Example C03_example :
  match canonicalize fnv_hex
    [CQ (CB (s2b "x")) (s2b "<p>") (CB (s2b "y")) None; CQ (CB (s2b "y")) (s2b "<p>") (CB (s2b "x")) None; CQ (CB (s2b "y")) (s2b "<q>") (CT (s2b "<o>")) None] with
  | COk lines c => map fst lines = [1; 1; 1] -> False
  | _ => False
  end.
Proof. vm_compute. discriminate. Qed.

(* C03 — Canonical form depends only on the dataset, not on labels or order.
   For every hash function and every dataset on which the algorithm finishes within its work limits. *)
From RK Require Import Base BaseFacts Canon CanonProofs CanonInvariance.
From Coq Require Import Permutation Sorted.

(* the issued identifiers are c14n0, c14n1, ... in issue order, every blank node of the dataset has one; the lines
   are sorted; the lines are exactly the input quads rewritten with the issued identifiers, each paired with the
   position of its original quad (a permutation of the input: nothing lost, nothing invented) *)
Theorem C03_structure : forall H qs lines canon,
  canonicalize H qs = COk lines canon ->
  issuer_wf canon /\ i_prefix canon = s2b "c14n" /\
  (forall l, In l (flat_map quad_labels qs) -> lookup canon l <> None) /\
  StronglySorted (fun a b => bleb (snd a) (snd b) = true) lines /\
  Permutation lines (combine (seq 0 (length qs)) (map (ser_quad (id_of canon)) qs)).
Proof. exact canonicalize_structure. Qed.
Print Assumptions C03_structure.

(* the renaming is one-to-one: two blank nodes never share a canonical identifier *)
Theorem C03_issued_injective : forall c x y v, issuer_wf c -> lookup c x = Some v -> lookup c y = Some v -> x = y.
Proof. exact (issued_injective (fun x => x)). Qed.
Print Assumptions C03_issued_injective.

(* the work limits end in an error value, never in an answer: the result type has no other outcomes *)
Theorem C03_outcomes : forall H qs, match canonicalize H qs with COk _ _ | CErrPerm | CErrDepth | CFuel => True end.
Proof. intros H qs. destruct (canonicalize H qs); exact I. Qed.

(* ---------- invariance under blank node renaming and quad order ---------- *)
(* [renamed f q] (CanonInvariance.v): q with every blank node label l replaced by f l, in subject, object and graph
   position *)

(* 4.6: the first-degree hash of a blank node is the same in every relabelled, reordered copy of the dataset
   (every hash function, every dataset) *)
Theorem C03_first_degree_invariant : forall H f qs qs' n,
  (forall a b, f a = f b -> a = b) -> Permutation qs' (map (renamed f) qs) ->
  hash_first_degree H qs' (f n) = hash_first_degree H qs n.
Proof. exact first_degree_invariant_spelled. Qed.
Print Assumptions C03_first_degree_invariant.

(* datasets in which the first-degree hashes tell all blank nodes apart (the N-degree step 5 has nothing to do):
   the algorithm succeeds, and every relabelled and reordered copy gets the same canonical document, with
   corresponding identifiers — for every hash function *)
Theorem C03_simple_invariant_partial : forall H f qs qs',
  (forall a b, f a = f b -> a = b) ->
  NoDup (map (hash_first_degree H qs) (bnodes qs)) ->
  Permutation qs' (map (renamed f) qs) ->
  exists lines c lines' c',
    canonicalize H qs = COk lines c /\ canonicalize H qs' = COk lines' c' /\
    map snd lines = map snd lines' /\ (forall l, lookup c' (f l) = lookup c l).
Proof. exact simple_invariant_spelled. Qed.
Print Assumptions C03_simple_invariant_partial.

(* NOT PROVED (stated only): the same for datasets which need the N-degree step. As written, for every function H,
   it is not even true (a constant H makes the result depend on the input order); it is the correctness of RDFC-1.0
   itself for a collision-free hash, and is decided by exploration (isomorphic copies of generated datasets). *)
Definition C03_iso_invariance_statement : Prop :=
  forall H (qs qs' : list cquad) lines lines' c c',
    (* qs' is qs with blank nodes renamed one-to-one and quads reordered *)
    (exists f, (forall a b, f a = f b -> a = b) /\ Permutation qs' (map (renamed f) qs)) ->
    canonicalize H qs = COk lines c -> canonicalize H qs' = COk lines' c' -> map snd lines = map snd lines'.

(* non-vacuity of the premise of C03_simple_invariant_partial: the dataset of C03_example under FNV-1a *)
Example C03_simple_example :
  let qs := [CQ (CB (s2b "x")) (s2b "<p>") (CB (s2b "y")) None; CQ (CB (s2b "y")) (s2b "<p>") (CB (s2b "x")) None; CQ (CB (s2b "y")) (s2b "<q>") (CT (s2b "<o>")) None] in
  length (bnodes qs) = 2 /\ NoDup (map (hash_first_degree fnv_hex qs) (bnodes qs)).
Proof.
  split; [vm_compute; reflexivity|].
  match goal with |- NoDup ?l => let v := eval vm_compute in l in change (NoDup v) end.
  constructor; [|constructor; [intros []|constructor]].
  intros [E|[]]. revert E. vm_compute. discriminate.
Qed.

(* non-vacuity: a two-cycle with a marked node, under FNV-1a *)
Example C03_example :
  match canonicalize fnv_hex
    [CQ (CB (s2b "x")) (s2b "<p>") (CB (s2b "y")) None; CQ (CB (s2b "y")) (s2b "<p>") (CB (s2b "x")) None; CQ (CB (s2b "y")) (s2b "<q>") (CT (s2b "<o>")) None] with
  | COk lines c => map fst lines = [1; 1; 1] -> False
  | _ => False
  end.
Proof. vm_compute. discriminate. Qed.

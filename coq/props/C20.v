(* C20 — XSD literal mapping accepts only valid lexical forms, canonicalises stably: boolean and the integer family. *)
From RK Require Import Base Xsd XsdProofs.

(* strconv.ParseInt as written out in the model (digit loop with the uint64 overflow guards, sign, bit-size cut-offs)
   accepts exactly the strings of the integer lexical space [+-]?[0-9]+ whose value fits the bit size, and returns
   that value; hence MapLong/MapInt/MapShort/MapByte (64/32/16/8 bits) succeed only inside the lexical space *)
Theorem C20_signed_accepts : forall bits s v, (1 <= bits <= 64)%N ->
  (map_signed bits s = Some v <->
   int_lexical (ws_collapse s) = true /\ int_value (ws_collapse s) = v /\ (- Z.of_N (2 ^ (bits - 1)) <= v <= Z.of_N (2 ^ (bits - 1)) - 1)%Z).
Proof. exact signed_accepts. Qed.
Print Assumptions C20_signed_accepts.

Theorem C20_parse_uint_spec : forall bits s r, (bits <= 64)%N ->
  (parse_uint bits s = inl r <-> all_digits_b s = true /\ digits_value s 0 = r /\ (r <= 2 ^ bits - 1)%N).
Proof. exact parse_uint_spec. Qed.
Print Assumptions C20_parse_uint_spec.

(* every value the Go type represents: its canonical lexical form is accepted and maps to the same value, so
   canonicalisation is idempotent (mapping the produced literal again gives an equal value and the same literal) *)
Theorem C20_signed_canonical : forall bits v, (1 <= bits <= 64)%N ->
  (- Z.of_N (2 ^ (bits - 1)) <= v <= Z.of_N (2 ^ (bits - 1)) - 1)%Z -> map_signed bits (canon_int v) = Some v.
Proof. exact signed_canonical. Qed.
Print Assumptions C20_signed_canonical.

Theorem C20_unsigned_canonical : forall bits v, (bits <= 64)%N -> (0 <= v <= Z.of_N (2 ^ bits - 1))%Z -> map_unsigned bits (canon_int v) = Some v.
Proof. exact unsigned_canonical. Qed.
Print Assumptions C20_unsigned_canonical.

Theorem C20_boolean : forall b, map_boolean (canon_boolean b) = Some b.
Proof. exact boolean_canonical. Qed.
Print Assumptions C20_boolean.

Theorem C20_boolean_accepts : forall s b, map_boolean s = Some b ->
  (b = true /\ (ws_collapse s = s2b "true" \/ ws_collapse s = s2b "1")) \/ (b = false /\ (ws_collapse s = s2b "false" \/ ws_collapse s = s2b "0")).
Proof. exact boolean_accepts. Qed.
Print Assumptions C20_boolean_accepts.

(* non-vacuity; the 64-bit edge; white space *)
Example C20_example :
  map_signed 64 (s2b "  -9223372036854775808 ") = Some (-9223372036854775808)%Z /\
  map_signed 64 (s2b "9223372036854775808") = None /\
  map_unsigned 64 (s2b "18446744073709551615") = Some 18446744073709551615%Z /\
  map_unsigned 64 (s2b "18446744073709551616") = None /\
  map_signed 16 (s2b "+007") = Some 7%Z /\ map_signed 8 (s2b "1 2") = None /\
  canon_int (-42) = s2b "-42" /\ ws_collapse ([9; 32] ++ s2b "a  b" ++ [10])%N = s2b "a b".
Proof. vm_compute. repeat split; reflexivity. Qed.

(* C04 — Canonicalization output is exactly the RDFC-1.0 canonical N-Quads.
   model/Canon.v is a step-by-step reading of RDFC-1.0 4.4-4.8 (as the Go code is); the theorems here fix what the
   output is made of; equality with the specification's published results is decided on the W3C vectors. *)
From RK Require Import Base BaseFacts Runes NQ Canon CanonProofs.
From Coq Require Import Permutation Sorted.

(* for any substituted hash function: same structure (the algorithm uses the hash only as a function on strings) *)
Theorem C04_structure_any_hash : forall H qs lines canon,
  canonicalize H qs = COk lines canon ->
  issuer_wf canon /\ i_prefix canon = s2b "c14n" /\
  (forall l, In l (flat_map quad_labels qs) -> lookup canon l <> None) /\
  StronglySorted (fun a b => bleb (snd a) (snd b) = true) lines /\
  Permutation lines (combine (seq 0 (length qs)) (map (ser_quad (id_of canon)) qs)).
Proof. exact canonicalize_structure. Qed.
Print Assumptions C04_structure_any_hash.

(* canonical escaping of literals (nquads.WriteLiteral, plain mode), every code point: ECHAR for BS HT LF FF CR, the double quote and the backslash,
   \uXXXX (upper-case hex) for the other C0 controls, DEL, U+FFFE and U+FFFF, everything else raw *)
Definition canonical_literal_rune (r : N) : runes :=
  if existsb (N.eqb r) [8; 9; 10; 12; 13; 34; 92]%N then echar_of r
  else if (r <=? 31)%N || existsb (N.eqb r) [127; 65534; 65535]%N then uchar4 r
  else [r].

Theorem C04_literal_escaping : forall r, esc_lit_rune false r = canonical_literal_rune r.
Proof.
  intros r. unfold esc_lit_rune, lit_mode, canonical_literal_rune. cbn [existsb].
  rewrite !orb_false_r, !orb_assoc.
  destruct (N.eqb r 8 || N.eqb r 9 || N.eqb r 10 || N.eqb r 12 || N.eqb r 13 || N.eqb r 34 || N.eqb r 92); [reflexivity|].
  destruct ((r <=? 31)%N || N.eqb r 127 || N.eqb r 65534 || N.eqb r 65535); reflexivity.
Qed.
Print Assumptions C04_literal_escaping.

(* a copy of an issuer is a value: issuing in the copy leaves the original as it was (RDFC-1.0 4.8.3 5.4.4.1) *)
Theorem C04_issuer_copies_are_independent : forall i n, let copy := snd (issue i n) in i_issued i = i_issued i /\ (lookup i n = None -> lookup copy n <> None /\ lookup i n = None).
Proof. intros i n copy. split; [reflexivity|]. intros Hn. split; [apply issue_knows|exact Hn]. Qed.

Example C04_example :
  flat_map (esc_lit_rune false) [97; 9; 8; 12; 0; 31; 127; 39; 34; 92; 65534; 233]%N = s2b "a\t\b\f\u0000\u001F\u007F'\""\\\uFFFE" ++ [233%N].
Proof. vm_compute. reflexivity. Qed.

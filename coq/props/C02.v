(* C02 — Turtle encoder output decodes back to the same graph: the token level.
   Every term the encoder writes is one of four token kinds; for each, what the encoder's formatter writes is read
   back by the decoder's scanner as the value that was written, consuming exactly the token. *)
From RK Require Import Base Utf8 Runes NQ TurtleTok TurtleLocalProofs TurtleNumProofs TurtleStrProofs.

(* prefixed names: if format_PN_LOCAL accepts the local part l (it refuses what has no prefixed-name form, and the IRI
   is then written as an IRIREF), the PN_LOCAL scanner reads the written text back as l, for every following delimiter *)
Theorem C02_prefixed_name_roundtrip : forall l e rest,
  fmt_local l = Some e -> no_pct l -> local_delim rest -> lex_local (e ++ rest) = Some (l, rest).
Proof. exact local_roundtrip. Qed.
Print Assumptions C02_prefixed_name_roundtrip.

(* string literals, plain and ASCII mode: every sequence of Unicode scalar values *)
Theorem C02_string_roundtrip : forall ascii s rest,
  scalars s -> str_delim rest ->
  match fmt_string ascii s with
  | q :: body => lex_string q (body ++ rest) = Some (s, rest)
  | [] => False
  end.
Proof. exact string_roundtrip. Qed.
Print Assumptions C02_string_roundtrip.

(* IRI references, plain and ASCII mode *)
Theorem C02_iriref_roundtrip : forall ascii s rest, scalars s -> lex_iriref (fmt_iri ascii s ++ 62%N :: rest) = Some (s, rest).
Proof. exact iriref_roundtrip. Qed.
Print Assumptions C02_iriref_roundtrip.

(* literal shorthands: a lexical form is written bare only if literalShorthandDatatype gives the literal's datatype;
   the numeric scanner then yields that very kind and lexical form *)
Theorem C02_shorthand_roundtrip : forall tok k rest r0 t,
  shorthand_kind tok = Some k -> tok = r0 :: t -> num_delim rest -> lex_numeric r0 (t ++ rest) = Some (k, tok, rest).
Proof. exact numeric_roundtrip. Qed.
Print Assumptions C02_shorthand_roundtrip.

(* non-vacuity, and the shapes that used to go wrong: "-a" and "a." need an escape, a local part starting with U+00B7
   or containing U+00D7 has no prefixed-name form, "+1." and "5" typed xsd:decimal are not shorthands of their datatype *)
Example C02_example :
  fmt_local (s2b "-a.b.") = Some (s2b "\-a.b\.") /\ lex_local (s2b "\-a.b\. .") = Some (s2b "-a.b.", s2b " .") /\
  fmt_local [183; 97]%N = None /\ fmt_local [97; 215; 98]%N = None /\
  shorthand_kind (s2b "+1.") = None /\ shorthand_kind (s2b "5") = Some KInteger /\ shorthand_kind (s2b "-.5e-07") = Some KDouble /\
  lex_numeric 53 (s2b ". ") = Some (KInteger, s2b "5", s2b ". ") /\
  lex_string 34 (s2b """ .") = Some ([], s2b " .") /\
  fmt_string true [233; 10; 128512]%N = s2b """\u00E9\n\U0001F600""".
Proof. vm_compute. repeat split; reflexivity. Qed.

(* C12 — Reference resolution follows RFC 3986 section 5.2 without normalisation.
   The model (model/Iri3986.v) is a literal transcription of RFC 3986 appendix B,
   5.2.2 (strict), 5.2.3, 5.2.4 and 5.3: it is the property's own oracle, and the
   correspondence check compares iri.ParsedIRI with it directly. *)
From RK Require Import Base Iri3986 Iri3986Proofs.

(* parsing an IRI reference and printing it again is the identity, for every string *)
Theorem C12_recompose_parse : forall s, recompose (parse5 s) = s.
Proof. exact recompose_parse5. Qed.
Print Assumptions C12_recompose_parse.

(* a path without "." / ".." segments is left alone by remove_dot_segments *)
Theorem C12_remove_dots_identity : forall p, no_dot_segments p = true -> remove_dot_segments p = p.
Proof. exact rds_nodots. Qed.
Print Assumptions C12_remove_dots_identity.

(* an absolute IRI without dot segments is returned unchanged, whatever the base *)
Theorem C12_abs_nodots_identity : forall b r,
  has_scheme r = true -> no_dot_segments (c_path (parse5 r)) = true -> resolve b r = r.
Proof. exact resolve_abs_nodots. Qed.
Print Assumptions C12_abs_nodots_identity.

(* resolving against an absolute base gives an absolute result *)
Theorem C12_resolve_abs : forall b r, c_scheme b <> None -> c_scheme (resolve_comps b r) <> None.
Proof. exact resolve_comps_abs. Qed.
Print Assumptions C12_resolve_abs.

(* the fragment of the result is the reference's fragment: no normalisation, none inherited *)
Theorem C12_resolve_fragment : forall b r, c_frag (resolve_comps b r) = c_frag r.
Proof. exact resolve_comps_fragment. Qed.
Print Assumptions C12_resolve_fragment.

(* the 42 examples of RFC 3986 section 5.4 (a test of the transcription, not a proof of it) *)
Definition rfc54 : list (bytes * bytes) :=
   [(s2b "g:h", s2b "g:h");
    (s2b "g", s2b "http://a/b/c/g");
    (s2b "./g", s2b "http://a/b/c/g");
    (s2b "g/", s2b "http://a/b/c/g/");
    (s2b "/g", s2b "http://a/g");
    (s2b "//g", s2b "http://g");
    (s2b "?y", s2b "http://a/b/c/d;p?y");
    (s2b "g?y", s2b "http://a/b/c/g?y");
    (s2b "#s", s2b "http://a/b/c/d;p?q#s");
    (s2b "g#s", s2b "http://a/b/c/g#s");
    (s2b "g?y#s", s2b "http://a/b/c/g?y#s");
    (s2b ";x", s2b "http://a/b/c/;x");
    (s2b "g;x", s2b "http://a/b/c/g;x");
    (s2b "g;x?y#s", s2b "http://a/b/c/g;x?y#s");
    (s2b "", s2b "http://a/b/c/d;p?q");
    (s2b ".", s2b "http://a/b/c/");
    (s2b "./", s2b "http://a/b/c/");
    (s2b "..", s2b "http://a/b/");
    (s2b "../", s2b "http://a/b/");
    (s2b "../g", s2b "http://a/b/g");
    (s2b "../..", s2b "http://a/");
    (s2b "../../", s2b "http://a/");
    (s2b "../../g", s2b "http://a/g");
    (s2b "../../../g", s2b "http://a/g");
    (s2b "../../../../g", s2b "http://a/g");
    (s2b "/./g", s2b "http://a/g");
    (s2b "/../g", s2b "http://a/g");
    (s2b "g.", s2b "http://a/b/c/g.");
    (s2b ".g", s2b "http://a/b/c/.g");
    (s2b "g..", s2b "http://a/b/c/g..");
    (s2b "..g", s2b "http://a/b/c/..g");
    (s2b "./../g", s2b "http://a/b/g");
    (s2b "./g/.", s2b "http://a/b/c/g/");
    (s2b "g/./h", s2b "http://a/b/c/g/h");
    (s2b "g/../h", s2b "http://a/b/c/h");
    (s2b "g;x=1/./y", s2b "http://a/b/c/g;x=1/y");
    (s2b "g;x=1/../y", s2b "http://a/b/c/y");
    (s2b "g?y/./x", s2b "http://a/b/c/g?y/./x");
    (s2b "g?y/../x", s2b "http://a/b/c/g?y/../x");
    (s2b "g#s/./x", s2b "http://a/b/c/g#s/./x");
    (s2b "g#s/../x", s2b "http://a/b/c/g#s/../x");
    (s2b "http:g", s2b "http:g")].
Example C12_examples :
  forallb (fun '(r, e) => beq (resolve (s2b "http://a/b/c/d;p?q") r) e) rfc54 = true.
Proof. vm_compute. reflexivity. Qed.

(* non-vacuity of C12_abs_nodots_identity and no case/percent normalisation in the model *)
Example C12_abs_example :
  resolve (s2b "http://a/b") (s2b "HTTP://EX%41mple/%7e/a%2fb?Q#") = s2b "HTTP://EX%41mple/%7e/a%2fb?Q#".
Proof. vm_compute. reflexivity. Qed.

(* C05 — Decoders are total: any input ends in statements or an error, never a crash. *)
From RK Require Import Base NQ NQTotal Protocol ProtocolProofs.

(* N-Triples and N-Quads: on every input (any rune sequence, any reader ending) the decoder model
   terminates with a verdict; its recursion budget, linear in the input, is never exhausted *)
Theorem C05_nq_total : forall nq inp t, snd (decode nq inp t) <> VFuel.
Proof. exact decode_total. Qed.
Print Assumptions C05_nq_total.

(* iterator protocol of the three decoder shapes, as coded, for every parse outcome and any number
   of calls: once Next has returned false it keeps returning false and Err no longer changes *)
Theorem C05_protocol_index_iterators : forall o k s, latched (calls (next_a o) i_err k s).
Proof. exact protocol_a. Qed.
Print Assumptions C05_protocol_index_iterators.

Theorem C05_protocol_rdfxml : forall o k s, latched (calls (next_b o) i_err k s).
Proof. exact protocol_b. Qed.
Print Assumptions C05_protocol_rdfxml.

Theorem C05_protocol_streaming : forall k s, latched (calls next_c c_err k s).
Proof. exact protocol_c. Qed.
Print Assumptions C05_protocol_streaming.

(* the shape the RDF/XML decoder had before its fix: a second parse attempt changes Err *)
Example C05_rdfxml_old_unstable_refuted :
  calls (next_rdfxml_old [true; false]) snd 2 (0, false) = [(false, true); (false, false)].
Proof. exact rdfxml_old_unstable. Qed.

Example C05_example :
  snd (decode_bytes true (s2b "<http://e/s> <http://e/p> ""x""@en-Latn-US <http://e/g> . # c") TEof) = VOk /\
  snd (decode_bytes true (s2b "<http://e/s> <http://e/p> ""x""@en <http://e/") TEof) = VSyntax /\
  snd (decode_bytes false (s2b "<http://e/s> <http://e/p> ""x") TFail) = VIo.
Proof. vm_compute. repeat split; reflexivity. Qed.

(* C09 — RDF/XML decoding of any grammatical document yields the graph it denotes.
   model/RdfXml.v is the mapping of RDF 1.1 XML Syntax section 7 on namespace-resolved element trees; the decoder is
   compared with it on every generated document (the model is the denotation). Theorems: facts of the mapping that
   hold for documents of any size. *)
From RK Require Import Base Iri3986 RdfXml RdfXmlProofs RdfXmlRoundTrip.

(* every graph has a document which denotes it: one rdf:Description with one property element per triple
   (rdf:about / rdf:nodeID, rdf:resource, rdf:datatype, xml:lang), mapped back, gives the triples in order, under any
   base *)
Theorem C09_flat_document_denotes : forall base ts,
  forallb triple_ok ts = true -> rdfxml_doc base (flat_rdfxml ts) = Some ts.
Proof. exact flat_rdfxml_roundtrip. Qed.
Print Assumptions C09_flat_document_denotes.

Example C09_triples_ok :
  forallb triple_ok
    [(RI (s2b "http://e/s"), s2b "http://e/p", RL (s2b "x") xsd_string_dt []);
     (RB false (s2b "b0"), s2b "urn:x:p", RL (s2b "chat") lang_string_dt (s2b "fr"));
     (RI (s2b "http://e/s"), rdf "type", RB false (s2b "b0"));
     (RI (s2b "http://e/s"), s2b "http://e/q", RL (s2b "5") (s2b "http://www.w3.org/2001/XMLSchema#integer") [])] = true.
Proof. vm_compute. reflexivity. Qed.

(* container membership: the i-th rdf:li of an element becomes rdf:_i, for every number of items and whatever the
   starting state *)
Theorem C09_li_numbering : forall f c s texts li k acc, Forall (fun t => t <> []) texts ->
  fold_props (prop_elt (S f) c s) (map li_elt texts) li k acc = Some (acc ++ li_triples s c li texts, li + length texts, k).
Proof. exact li_numbering. Qed.
Print Assumptions C09_li_numbering.

Theorem C09_li_item : forall s c texts li i t, nth_error texts i = Some t ->
  nth_error (li_triples s c li texts) i = Some (s, li_pred (li + i), lit c t).
Proof. exact li_triples_nth. Qed.
Print Assumptions C09_li_item.

(* xml:lang and xml:base: the innermost declaration is the one in scope, at any nesting depth *)
Theorem C09_language_scope : forall c attrs,
  c_lang (scope c attrs) = match attr (XMLNS ++ s2b "lang") attrs with Some v => v | None => c_lang c end.
Proof. exact scope_lang. Qed.

Theorem C09_base_scope : forall c attrs,
  c_base (scope c attrs) = match attr (XMLNS ++ s2b "base") attrs with Some v => resolve (c_base c) v | None => c_base c end.
Proof. exact scope_base. Qed.

(* non-vacuity: typed node, rdf:ID under xml:base on the property element, language inheritance through a property
   element, an empty property element, a collection *)
Example C09_example :
  rdfxml_doc (s2b "http://example.org/dir/doc")
    (XE (rdf "RDF") []
       [XE (s2b "http://e/C") [(rdf "about", s2b "s")]
          [XE (s2b "http://e/p") [(XMLNS ++ s2b "base", s2b "http://b.example/x/y"); (XMLNS ++ s2b "lang", s2b "de")]
              [XE (rdf "Description") [(rdf "ID", s2b "i"); (s2b "http://e/q", s2b "v")] []];
           XE (rdf "li") [(XMLNS ++ s2b "lang", s2b "fr")] [];
           XE (s2b "http://e/l") [(rdf "parseType", s2b "Collection")] [XE (rdf "Description") [] []]]])
  = Some [(RI (s2b "http://example.org/dir/s"), rdf "type", RI (s2b "http://e/C"));
          (RI (s2b "http://example.org/dir/s"), s2b "http://e/p", RI (s2b "http://b.example/x/y#i"));
          (RI (s2b "http://b.example/x/y#i"), s2b "http://e/q", RL (s2b "v") lang_string_dt (s2b "de"));
          (RI (s2b "http://example.org/dir/s"), rdf "_1", RL [] lang_string_dt (s2b "fr"));
          (RI (s2b "http://example.org/dir/s"), s2b "http://e/l", RB true (s2b "1"));
          (RB true (s2b "1"), rdf "first", RB true (s2b "0"));
          (RB true (s2b "1"), rdf "rest", RI (rdf "nil"))].
Proof. vm_compute. reflexivity. Qed.

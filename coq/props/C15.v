(* C15 — Decoding ignores read chunking; truncation and I/O errors are reported. *)
From RK Require Import Base Utf8 NQ NQTotal NQOffsets RuneBuf RuneBufProofs NQTruncate.

(* every partition of the byte stream into Read calls: the rune buffer (model of bufio.Reader.ReadRune under
   cursorioutil.RuneBuffer: refill while the buffered bytes are not a full rune) hands the decoder the runes of the
   whole byte string, also where a multi-byte rune or an invalid sequence straddles Read boundaries *)
Theorem C15_runes_ignore_chunking : forall chunks, read_all chunks = utf8_decode (concat chunks).
Proof. exact read_all_chunking. Qed.
Print Assumptions C15_runes_ignore_chunking.

(* hence statements and verdict of the N-Triples / N-Quads decoder model are the same for every chunking *)
Theorem C15_nq_ignores_chunking : forall nq sizes bs t, decode nq (read_all (chunk sizes bs)) t = decode_bytes nq bs t.
Proof. intros. unfold decode_bytes. rewrite read_chunked. reflexivity. Qed.
Print Assumptions C15_nq_ignores_chunking.

(* a reader that fails is never reported as a clean end, wherever it fails *)
Theorem C15_nq_io_error_reported : forall nq inp, snd (decode nq inp TFail) <> VOk.
Proof. exact decode_io_error_reported. Qed.
Print Assumptions C15_nq_io_error_reported.

(* truncation: cut the input anywhere, let the reader fail there; the statements delivered are the first statements of
   the whole input, however that one ends: nothing is invented or altered by a cut *)
Theorem C15_nq_truncated_prefix : forall nq inp rest t,
  exists more, fst (decode nq (inp ++ rest) t) = fst (decode nq inp TFail) ++ more.
Proof. exact decode_truncated_prefix. Qed.
Print Assumptions C15_nq_truncated_prefix.

(* non-vacuity: a rune split over three Read calls; input stopping inside a statement; failing reader *)
Example C15_example :
  read_all [[60%N; 226%N]; [130%N]; [172%N; 62%N]] = [(60%N, 1); (8364%N, 3); (62%N, 1)] /\
  snd (decode_bytes false (s2b "<http://e/s> <http://e/p> <http://e/o>") TEof) = VSyntax /\
  snd (decode_bytes false (s2b "<http://e/s> <http://e/p> <http://e/o> .") TFail) = VIo /\
  length (fst (decode_bytes false (s2b "<http://e/s> <http://e/p> <http://e/o> .") TFail)) = 1.
Proof. vm_compute. repeat split; reflexivity. Qed.

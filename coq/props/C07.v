(* C07 — Every N-Triples document is N-Quads (and Turtle; every Turtle document is TriG). *)
From RK Require Import Base Utf8 NQ NQSubset.

(* every document the N-Triples decoder accepts is decoded by the N-Quads decoder to the same statements, in the same
   order, all in the default graph, with the same text ranges (the commit traces are equal); for every reader ending *)
Theorem C07_nt_subset_nq : forall inp t,
  snd (decode false inp t) = VOk ->
  decode true inp t = decode false inp t /\ Forall (fun s => q_g (st_quad s) = None) (fst (decode false inp t)).
Proof. exact nt_subset_nq. Qed.
Print Assumptions C07_nt_subset_nq.

(* the converse does not hold, as it should not: a graph label is N-Quads only *)
Example C07_nq_only :
  snd (decode_bytes true (s2b "<a:s> <a:p> <a:o> <a:g> .") TEof) = VOk /\
  snd (decode_bytes false (s2b "<a:s> <a:p> <a:o> <a:g> .") TEof) = VSyntax.
Proof. vm_compute. split; reflexivity. Qed.

(* non-vacuity *)
Example C07_example :
  snd (decode_bytes false (s2b "<a:s> <a:p> ""x""@en . # c") TEof) = VOk /\
  decode_bytes true (s2b "<a:s> <a:p> ""x""@en . # c") TEof = decode_bytes false (s2b "<a:s> <a:p> ""x""@en . # c") TEof.
Proof. vm_compute. split; reflexivity. Qed.

(* C07 — Every N-Triples document is N-Quads (and Turtle; every Turtle document is TriG). *)
From RK Require Import Base Utf8 NQ NQSubset TurtleTok NQTurtleTok.

(* every document the N-Triples decoder accepts is decoded by the N-Quads decoder to the same statements, in the same
   order, all in the default graph, with the same text ranges (the commit traces are equal); for every reader ending *)
Theorem C07_nt_subset_nq : forall inp t,
  snd (decode false inp t) = VOk ->
  decode true inp t = decode false inp t /\ Forall (fun s => q_g (st_quad s) = None) (fst (decode false inp t)).
Proof. exact nt_subset_nq. Qed.
Print Assumptions C07_nt_subset_nq.

(* the terminals N-Triples shares with Turtle, across the two scanner families (separate code in the library):
   an IRIREF which captureOpenIRI (N-Triples, N-Quads) accepts is read by produceIRIREF (Turtle, TriG) as the same
   characters, ending at the same '>' — raw characters, \u and \U escapes alike; for every input *)
Theorem C07_iriref_same_in_turtle : forall lt inp v ps rest,
  dscalars inp -> open_iri lt inp = POk v ps rest -> lex_iriref (map fst inp) = Some (v, map fst rest).
Proof. exact nt_iriref_is_turtle. Qed.
Print Assumptions C07_iriref_same_in_turtle.

(* the same for STRING_LITERAL_QUOTE (raw characters, ECHAR, UCHAR): what captureOpenLiteral accepts after the opening
   quote, produceString reads as the same characters and stops after the same closing quote. An empty string directly
   followed by a third quote is excluded: it opens a long string in Turtle and is a syntax error in N-Triples *)
Theorem C07_string_same_in_turtle : forall inp raw0 d rw tr rest,
  dscalars inp -> lit_body inp [] raw0 = Ok (d, rw) tr rest ->
  (d = [] -> match rest with r :: _ => fst r <> 34%N | [] => True end) ->
  lex_string 34 (map fst inp) = Some (map sanitize d, map fst rest).
Proof. exact nt_string_is_turtle. Qed.
Print Assumptions C07_string_same_in_turtle.

(* the premise on the runes holds for whatever the UTF-8 reader delivers (invalid bytes arrive as U+FFFD) *)
Theorem C07_reader_runes_scalar : forall bs, dscalars (utf8_decode bs).
Proof. exact utf8_decode_scalars. Qed.
Print Assumptions C07_reader_runes_scalar.

(* the converse does not hold, as it should not: a graph label is N-Quads only *)
Example C07_nq_only :
  snd (decode_bytes true (s2b "<a:s> <a:p> <a:o> <a:g> .") TEof) = VOk /\
  snd (decode_bytes false (s2b "<a:s> <a:p> <a:o> <a:g> .") TEof) = VSyntax.
Proof. vm_compute. split; reflexivity. Qed.

(* non-vacuity *)
Example C07_example :
  snd (decode_bytes false (s2b "<a:s> <a:p> ""x""@en . # c") TEof) = VOk /\
  decode_bytes true (s2b "<a:s> <a:p> ""x""@en . # c") TEof = decode_bytes false (s2b "<a:s> <a:p> ""x""@en . # c") TEof.
Proof. vm_compute. split; reflexivity. Qed.

Example C07_tokens_example :
  open_iri (60%N, 1) (utf8_decode (s2b "a:\u00e9x> .")) = POk (s2b "a:" ++ [233; 120]%N) [(true, utf8_decode (s2b "<a:\u00e9x>"))] (utf8_decode (s2b " .")) /\
  lex_iriref (s2b "a:\u00e9x> .") = Some (s2b "a:" ++ [233; 120]%N, s2b " .") /\
  lex_string 34 (s2b "a\tb\u0041"" .") = Some (s2b "a" ++ [9; 98; 65]%N, s2b " .").
Proof. vm_compute. repeat split; reflexivity. Qed.

(* C16 — Captured text offsets point at the text the term was read from. *)
From RK Require Import Base Utf8 NQ NQTotal NQOffsets NQRanges.

(* commit discipline: for every input and reader ending, the runes committed to the offset tracker while reading the
   statements are the consumed input itself, each rune once and in order (a prefix of the input) *)
Theorem C16_nq_commit_discipline : forall nq inp t, exists rest, inp = committed (fst (decode nq inp t)) ++ rest.
Proof. exact decode_committed. Qed.
Print Assumptions C16_nq_commit_discipline.

(* every reported range of every statement of every document (complete, truncated or malformed), for every initial
   offset: it starts at or after the initial offset, does not end before it starts, and ends inside the document *)
Theorem C16_nq_ranges_inside : forall nq bs t p0,
  Forall (Forall (fun r => (p_byte p0 <= p_byte (fst r))%N /\ (p_byte (fst r) <= p_byte (snd r))%N /\
                           (p_byte (snd r) <= p_byte p0 + N.of_nat (length bs))%N))
         (stmt_ranges p0 (fst (decode_bytes nq bs t))).
Proof. exact decode_ranges_inside. Qed.
Print Assumptions C16_nq_ranges_inside.

(* the byte offset advances by exactly the bytes written, whatever the line structure *)
Theorem C16_bytes_exact : forall rs p, p_byte (write_runes p rs) = (p_byte p + bsize rs)%N.
Proof. exact write_runes_byte. Qed.
Print Assumptions C16_bytes_exact.

(* non-vacuity: second statement on a second line after CR LF, graph name, initial offset 100/7/3 *)
Example C16_example :
  stmt_ranges (Pos 100 7 3) (fst (decode_bytes true (s2b "<a:s> <a:p> ""x"" <a:g> ." ++ [13%N; 10%N] ++ s2b "_:b <a:p> <a:o> .") TEof))
  = [[(Pos 100 7 3, Pos 105 7 8); (Pos 106 7 9, Pos 111 7 14); (Pos 112 7 15, Pos 115 7 18); (Pos 116 7 19, Pos 121 7 24)];
     [(Pos 125 8 0, Pos 128 8 3); (Pos 129 8 4, Pos 134 8 9); (Pos 135 8 10, Pos 140 8 15)]].
Proof. vm_compute. reflexivity. Qed.

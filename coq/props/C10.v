(* C10 — JSON-LD documents decode to the dataset they denote; encoder output round-trips.
   model/JsonLd.v is the mapping JSON-LD 1.1 (context processing, IRI expansion, expansion, deserialisation to RDF)
   defines on JSON trees, for the constructs the property names; the decoder is compared with it on every generated
   document and on every document the encoder writes (the model is the denotation). Theorems: facts of the mapping
   which hold for documents and datasets of any size. *)
From RK Require Import Base Iri3986 JsonLd JsonLdProofs JsonLdRoundTrip.

(* every dataset has a document which denotes it: writing the quads one node object each (graph objects for named
   graphs, value objects for literals) and mapping the document back gives the quads, in order *)
Theorem C10_flat_document_denotes : forall base qs,
  forallb quad_ok qs = true -> jsonld_doc base (flat_doc qs) = Some qs.
Proof. exact flat_roundtrip. Qed.
Print Assumptions C10_flat_document_denotes.

(* coercion precedence for a bare string: a type mapping beats any language; a null language on the term beats the
   default language; the default language applies where the term says nothing *)
Theorem C10_type_beats_language : forall a iri dt lg lst pfx s,
  str_value a (Some (TD iri (TyIri dt) lg lst pfx)) s = Some (TL s dt []).
Proof. exact coerce_type_beats_language. Qed.

Theorem C10_null_language_beats_default : forall a iri lst pfx s,
  str_value a (Some (TD iri TyNone LgNull lst pfx)) s = Some (TL s (xsd "string") []).
Proof. exact term_null_language_beats_default. Qed.

Theorem C10_default_language_applies : forall base voc terms s c l,
  str_value (ACtx base voc (Some (c :: l)) terms) None s = Some (TL s (rdf "langString") (c :: l)).
Proof. exact default_language_applies. Qed.

(* @list: the i-th cell points at the i-th item and at the next cell, the last one at rdf:nil, for lists of any length *)
Theorem C10_list_links : forall cells objs g i c o,
  nth_error cells i = Some c -> nth_error objs i = Some o ->
  nth_error (link_list cells objs g) (i + i) = Some (c, rdf "first", o, g) /\
  nth_error (link_list cells objs g) (S (i + i)) =
    Some (c, rdf "rest", match nth_error cells (S i) with Some c' => c' | None => TI (rdf "nil") end, g).
Proof. exact link_list_nth. Qed.
Print Assumptions C10_list_links.

(* what no context can rewrite: scheme://... and blank node identifiers are returned as they are *)
Theorem C10_absolute_untouched : forall a v p rest vocab docrel,
  plain_ident v -> lookup v (a_terms a) = None ->
  split_colon v = Some (p, 47%N :: 47%N :: rest) ->
  expand_iri a v vocab docrel = Some (Some v).
Proof. exact expand_slashes_untouched. Qed.

Theorem C10_blank_node_untouched : forall a l vocab docrel,
  lookup (95%N :: 58%N :: l) (a_terms a) = None ->
  expand_iri a (95%N :: 58%N :: l) vocab docrel = Some (Some (95%N :: 58%N :: l)).
Proof. exact expand_bnode_untouched. Qed.

(* non-vacuity of the round trip hypothesis: IRIs, a labelled blank node, typed and language-tagged literals, a named
   graph *)
Example C10_quads_ok :
  forallb quad_ok
    [(TI (s2b "http://e/s"), s2b "http://e/p", TL (s2b "x") (xsd "string") [], None);
     (TB false (s2b "b0"), s2b "urn:x:p", TL (s2b "chat") (rdf "langString") (s2b "fr"), Some (TI (s2b "http://e/g")));
     (TI (s2b "http://e/s"), rdf "type", TB false (s2b "b0"), Some (TB false (s2b "g")))] = true.
Proof. vm_compute. reflexivity. Qed.

(* a compacted document: prefix, @vocab, type coercion, default language cleared per term, list container, keyword
   alias, native values, embedded anonymous node, named graph *)
Example C10_example :
  jsonld_doc (s2b "http://example.org/dir/doc")
    (JObj [(s2b "@context", JObj [(s2b "ex", JStr (s2b "http://e/")); (s2b "@vocab", JStr (s2b "http://v/"));
                                  (s2b "@language", JStr (s2b "en")); (s2b "id", JStr (s2b "@id"));
                                  (s2b "knows", JObj [(s2b "@id", JStr (s2b "ex:knows")); (s2b "@type", JStr (s2b "@id"))]);
                                  (s2b "code", JObj [(s2b "@language", JNull)]);
                                  (s2b "items", JObj [(s2b "@container", JStr (s2b "@list"))])]);
           (s2b "id", JStr (s2b "a"));
           (s2b "@type", JStr (s2b "Person"));
           (s2b "name", JStr (s2b "Ann"));
           (s2b "code", JStr (s2b "x1"));
           (s2b "knows", JArr [JStr (s2b "ex:b"); JStr (s2b "_:c")]);
           (s2b "age", JInt 42);
           (s2b "items", JArr [JBool true; JObj [(s2b "ex:p", JStr (s2b "q"))]]);
           (s2b "@graph", JArr [JObj [(s2b "id", JStr (s2b "#me")); (s2b "ex:q", JObj [(s2b "@value", JStr (s2b "1")); (s2b "@type", JStr (s2b "ex:dt"))])]])])
  = Some [(TI (s2b "http://example.org/dir/a"), rdf "type", TI (s2b "http://v/Person"), None);
          (TI (s2b "http://example.org/dir/a"), s2b "http://v/name", TL (s2b "Ann") (rdf "langString") (s2b "en"), None);
          (TI (s2b "http://example.org/dir/a"), s2b "http://v/code", TL (s2b "x1") (xsd "string") [], None);
          (TI (s2b "http://example.org/dir/a"), s2b "http://e/knows", TI (s2b "http://e/b"), None);
          (TI (s2b "http://example.org/dir/a"), s2b "http://e/knows", TB false (s2b "c"), None);
          (TI (s2b "http://example.org/dir/a"), s2b "http://v/age", TL (s2b "42") (xsd "integer") [], None);
          (TB true (s2b "0"), s2b "http://e/p", TL (s2b "q") (rdf "langString") (s2b "en"), None);
          (TB true (s2b "1"), rdf "first", TL (s2b "true") (xsd "boolean") [], None);
          (TB true (s2b "1"), rdf "rest", TB true (s2b "2"), None);
          (TB true (s2b "2"), rdf "first", TB true (s2b "0"), None);
          (TB true (s2b "2"), rdf "rest", TI (rdf "nil"), None);
          (TI (s2b "http://example.org/dir/a"), s2b "http://v/items", TB true (s2b "1"), None);
          (TI (s2b "http://example.org/dir/doc#me"), s2b "http://e/q", TL (s2b "1") (s2b "http://e/dt") [], Some (TI (s2b "http://example.org/dir/a")))].
Proof. vm_compute. reflexivity. Qed.

(* C14 — Blank nodes keep identity: fresh nodes unique, labels stable and injective.
   A schedule is a list of atomic steps (one critical section or one atomic Add each);
   every theorem quantifies over all schedules, i.e. over all interleavings. *)
From RK Require Import Base BNodes BNodesProofs BNodesPass.

(* every reachable world satisfies the freshness, provider and mapper invariants *)
Theorem C14_invariants : forall sched,
  WF (fst (run sched)) /\ PInv (fst (run sched)) /\ MInv (fst (run sched)).
Proof. exact run_invariants. Qed.
Print Assumptions C14_invariants.

(* a node obtained from a factory (NewBlankNode of any factory, the empty string label, a
   mapper's first answer) differs from every node handed out before it, by any factory *)
Theorem C14_fresh_unique : forall w o w' b,
  WF w -> is_fresh_out w o = true -> step w o = (w', RNode b) -> ~ In b (w_nodes w).
Proof. exact fresh_step_new. Qed.
Print Assumptions C14_fresh_unique.

(* string factory: equal exactly for equal labels of the same factory *)
Theorem C14_string_factory : forall f l f' l',
  bid_eqb (BStr f l) (BStr f' l') = true <-> f = f' /\ l = l'.
Proof. exact string_factory_eq. Qed.
Print Assumptions C14_string_factory.

(* label provider: over every schedule, two lookups return the same label exactly when they
   were asked about the same node, from the first call on *)
Theorem C14_provider_function_injective : forall sched w log p k1 k2 n1 n2 b1 b2,
  run_log world0 sched [] = (w, log) ->
  In (OGet p k1, RLabel n1) log -> In (OGet p k2, RLabel n2) log ->
  nth_error (w_nodes w) k1 = Some b1 -> nth_error (w_nodes w) k2 = Some b2 ->
  (n1 = n2 <-> b1 = b2).
Proof. exact provider_function_injective. Qed.
Print Assumptions C14_provider_function_injective.

(* UUID provider: injective relative to an injective source of UUIDs (explicit premise) *)
Theorem C14_uuid_labels_injective : forall (U : Type) (gen : nat -> nat -> U),
  (forall p k k', gen p k = gen p k' -> k = k') ->
  forall w p b b' k k', PInv w -> ulabel_of w p b = Some k -> ulabel_of w p b' = Some k' -> gen p k = gen p k' -> b = b'.
Proof. exact uuid_labels_injective. Qed.
Print Assumptions C14_uuid_labels_injective.

(* mapper: answers are recorded and distinct nodes are sent to distinct nodes *)
Theorem C14_mapper_recorded : forall w m k w' x,
  step w (OMap m k) = (w', RNode x) -> exists b, nth_error (w_nodes w) k = Some b /\ mapped_of w' m b = Some x.
Proof. exact mapper_recorded. Qed.
Print Assumptions C14_mapper_recorded.

Theorem C14_mapper_injective : forall w m b b' x,
  MInv w -> mapped_of w m b = Some x -> mapped_of w m b' = Some x -> b = b'.
Proof. exact mapper_injective. Qed.
Print Assumptions C14_mapper_injective.

(* the label pass-through provider of a string factory (StringFactory.GetStringProvider(fallback), the provider the
   decode/encode pipe installs): the invariants hold over every schedule that also uses it; its answer for a node of
   its own factory is that node's label; and different nodes never get the same label - own labels against each other,
   against the fallback's (relative to the premise that a document label is not one of the fallback's UUIDs: they are
   values of different kinds here), and the fallback's among themselves *)
Theorem C14_pass_through_invariants : forall xs,
  WF (fst (xrun xs)) /\ PInv (fst (xrun xs)) /\ MInv (fst (xrun xs)).
Proof. exact xrun_invariants. Qed.
Print Assumptions C14_pass_through_invariants.

Theorem C14_pass_through_recorded : forall w sf p k w' l,
  xstep w (XGetS sf p k) = (w', YStr l) ->
  w' = w /\ exists b, nth_error (w_nodes w) k = Some b /\ slabel_of w sf p b = Some (inl l).
Proof. exact pass_through_recorded. Qed.
Print Assumptions C14_pass_through_recorded.

Theorem C14_pass_through_injective : forall w sf p b b' v,
  PInv w -> slabel_of w sf p b = Some v -> slabel_of w sf p b' = Some v -> b = b'.
Proof. exact pass_through_injective. Qed.
Print Assumptions C14_pass_through_injective.

Example C14_pass_through_example :
  snd (xrun [XBase ONewStringFactory; XBase ONewStringFactory; XBase ONewUProvider;
             XBase (OStrBlank 0 (s2b "x")); XBase (OStrBlank 1 (s2b "x")); XBase (OStrBlank 0 []);
             XGetS 0 0 0; XGetS 0 0 1; XGetS 0 0 2; XGetS 0 0 1; XGetS 1 0 1])
  = [YBase RNone; YBase RNone; YBase RNone; YBase (RNode (BStr 0 (s2b "x"))); YBase (RNode (BStr 1 (s2b "x")));
     YBase (RNode (BFac 0 1)); YStr (s2b "x"); YBase (RUuid 0); YBase (RUuid 1); YBase (RUuid 0); YStr (s2b "x")].
Proof. vm_compute. reflexivity. Qed.

(* non-vacuity: a schedule exercising every kind of step *)
Example C14_example :
  snd (run [ONewFactory; ONewStringFactory; ONewProvider; ONewMapper (Some 0); OBlank None; OBlank (Some 0);
            OStrBlank 0 (s2b "a"); OStrBlank 0 []; OGet 0 0; OGet 0 1; OGet 0 0; OMap 0 2; OMap 0 2; OMap 0 0])
  = [RNone; RNone; RNone; RNone; RNode (BDef 1); RNode (BFac 0 1); RNode (BStr 0 (s2b "a")); RNode (BFac 1 1);
     RLabel 0; RLabel 1; RLabel 0; RNode (BFac 0 2); RNode (BFac 0 2); RNode (BFac 0 3)].
Proof. vm_compute. reflexivity. Qed.

(* C13 — Shortened IRIs always expand back to the original IRI.
   Only statements closed by [exact]; proofs live in proofs/. *)
From RK Require Import Base Prefix PrefixProofs.
From Coq Require Import Sorted.

(* every reachable state of every manager satisfies the structural invariant:
   the slice and the map hold the same bindings, one per prefix, and the slice
   is sorted by descending namespace length *)
Theorem C13_prefix_inv : forall ops, Forall Inv (prun ops).
Proof. exact prun_Inv. Qed.
Print Assumptions C13_prefix_inv.

(* refinement: after any history of Add/Delete/Clone each manager denotes
   exactly the last-write-wins map of the history *)
Theorem C13_prefix_refines_map : forall ops, Forall2 refines (prun ops) (srun ops).
Proof. exact prun_refines. Qed.
Print Assumptions C13_prefix_refines_map.

(* GetPrefixMappings is exactly that map: nothing stale, nothing missing *)
Theorem C13_prefix_mappings_exact : forall p s, refines p s ->
  forall k n, (exists m, In m (ordered p) /\ pfx m = k /\ ns m = n) <-> s k = Some n.
Proof. exact ordered_is_map. Qed.
Print Assumptions C13_prefix_mappings_exact.

(* compaction expands back to the original and used the longest namespace *)
Theorem C13_compact_longest : forall p v k r,
  Inv p -> pm_compact p v = Some (k, r) ->
  pm_expand p k r = Some v /\
  forall m', In m' (ordered p) -> is_prefix (ns m') v = true -> length (ns m') + length r <= length v.
Proof. exact compact_expand. Qed.
Print Assumptions C13_compact_longest.

(* "says so": no match is reported only when no namespace is a prefix *)
Theorem C13_compact_none_honest : forall p v,
  pm_compact p v = None -> forall m, In m (ordered p) -> is_prefix (ns m) v = false.
Proof. exact compact_none_honest. Qed.
Print Assumptions C13_compact_none_honest.

(* non-vacuity: a reachable state with nested namespaces and a replaced prefix *)
Example C13_prefix_example :
  let s := prun [OAdd 0 [Mk (s2b "a") (s2b "http://a/"); Mk (s2b "b") (s2b "http://a/b/")];
                 OAdd 0 [Mk (s2b "a") (s2b "http://a/b/c#")]; OClone 0; ODel 0 [s2b "b"]] in
  map (fun p => pm_compact p (s2b "http://a/b/c#d")) s =
    [Some (s2b "a", s2b "d"); Some (s2b "a", s2b "d")] /\
  map (fun p => pm_compact p (s2b "http://a/b/x")) s = [None; Some (s2b "b", s2b "x")].
Proof. vm_compute. split; reflexivity. Qed.

(* ---------- relative references ---------- *)
From RK Require Import Iri3986 Relativize Curie RelCurieProofs.

(* whenever RelativizeIRI offers a spelling, expanding it against the same base gives
   back exactly the IRI ([expand] = RFC 3986 resolution; the empty reference names the base) *)
Theorem C13_relativize_sound : forall b v r, relativize b v = Some r -> expand (b_orig b) r = v.
Proof. exact relativize_sound. Qed.
Print Assumptions C13_relativize_sound.

Theorem C13_relativize_sound_rfc : forall b v r, relativize b v = Some r -> r <> [] -> resolve (b_orig b) r = v.
Proof. exact relativize_sound_rfc. Qed.
Print Assumptions C13_relativize_sound_rfc.

(* near misses of the index arithmetic are withheld, not returned *)
Theorem C13_relativize_none_honest : forall b v c,
  relativize_candidate b v = Some c -> expand (b_orig b) c <> v -> relativize b v = None.
Proof. exact relativize_none_honest. Qed.
Print Assumptions C13_relativize_none_honest.

(* the five near-miss classes of the candidate computation are all caught (non-vacuity of the guard) *)
Example C13_relativize_near_misses :
  let b := new_base (s2b "http://a/b/c?q") in
  map (relativize_candidate b) [s2b "http://a/b/"; s2b "http://a/b/d?x"; s2b "http://a/b/x:y"; s2b "http://a/b//d"; s2b "http://a/b/../d"]
    = [Some []; Some (s2b "?x"); Some (s2b "x:y"); Some (s2b "/d"); Some (s2b "../d")] /\
  map (relativize b) [s2b "http://a/b/"; s2b "http://a/b/d?x"; s2b "http://a/b/x:y"; s2b "http://a/b//d"; s2b "http://a/b/../d"]
    = [None; None; None; None; None] /\
  relativize b (s2b "http://a/b/c?q#f") = Some (s2b "#f") /\ relativize b (s2b "http://a/x/y") = Some (s2b "/x/y").
Proof. vm_compute. repeat split; reflexivity. Qed.

(* ---------- CURIEs ---------- *)
(* a CURIE produced by compaction from a matching namespace expands back in the same scope *)
Theorem C13_curie_roundtrip : forall s v,
  Inv (sc_pm s) -> pm_compact (sc_pm s) v <> None -> expand_curie s (compact_curie s v) = Some v.
Proof. exact curie_roundtrip. Qed.
Print Assumptions C13_curie_roundtrip.

(* current code, known finding F27: when nothing matches CompactCURIE still returns a CURIE
   (empty prefix), and that one expands through a mapping of the empty prefix to another IRI *)
Theorem C13_curie_near_miss_refuted : exists s v w,
  Inv (sc_pm s) /\ pm_compact (sc_pm s) v = None /\ expand_curie s (compact_curie s v) = Some w /\ w <> v.
Proof.
  exists (Scope false [] false (pm_add pm_empty [Mk [] (s2b "http://a/")])), (s2b "urn:x"), (s2b "http://a/urn:x").
  split; [apply pm_add_Inv, Inv_empty|]. vm_compute. repeat split; try reflexivity. discriminate.
Qed.
Print Assumptions C13_curie_near_miss_refuted.

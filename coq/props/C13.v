(* C13 — Shortened IRIs always expand back to the original IRI.
   Only statements closed by [exact]; proofs live in proofs/. *)
From RK Require Import Base Prefix PrefixProofs.
From Coq Require Import Sorted.

(* every reachable state of every manager satisfies the structural invariant:
   the slice and the map hold the same bindings, one per prefix, and the slice
   is sorted by descending namespace length *)
Theorem C13_prefix_inv : forall ops, Forall Inv (prun ops).
Proof. exact prun_Inv. Qed.
Print Assumptions C13_prefix_inv.

(* refinement: after any history of Add/Delete/Clone each manager denotes
   exactly the last-write-wins map of the history *)
Theorem C13_prefix_refines_map : forall ops, Forall2 refines (prun ops) (srun ops).
Proof. exact prun_refines. Qed.
Print Assumptions C13_prefix_refines_map.

(* GetPrefixMappings is exactly that map: nothing stale, nothing missing *)
Theorem C13_prefix_mappings_exact : forall p s, refines p s ->
  forall k n, (exists m, In m (ordered p) /\ pfx m = k /\ ns m = n) <-> s k = Some n.
Proof. exact ordered_is_map. Qed.
Print Assumptions C13_prefix_mappings_exact.

(* compaction expands back to the original and used the longest namespace *)
Theorem C13_compact_longest : forall p v k r,
  Inv p -> pm_compact p v = Some (k, r) ->
  pm_expand p k r = Some v /\
  forall m', In m' (ordered p) -> is_prefix (ns m') v = true -> length (ns m') + length r <= length v.
Proof. exact compact_expand. Qed.
Print Assumptions C13_compact_longest.

(* "says so": no match is reported only when no namespace is a prefix *)
Theorem C13_compact_none_honest : forall p v,
  pm_compact p v = None -> forall m, In m (ordered p) -> is_prefix (ns m) v = false.
Proof. exact compact_none_honest. Qed.
Print Assumptions C13_compact_none_honest.

(* non-vacuity: a reachable state with nested namespaces and a replaced prefix *)
Example C13_prefix_example :
  let s := prun [OAdd 0 [Mk (s2b "a") (s2b "http://a/"); Mk (s2b "b") (s2b "http://a/b/")];
                 OAdd 0 [Mk (s2b "a") (s2b "http://a/b/c#")]; OClone 0; ODel 0 [s2b "b"]] in
  map (fun p => pm_compact p (s2b "http://a/b/c#d")) s =
    [Some (s2b "a", s2b "d"); Some (s2b "a", s2b "d")] /\
  map (fun p => pm_compact p (s2b "http://a/b/x")) s = [None; Some (s2b "b", s2b "x")].
Proof. vm_compute. split; reflexivity. Qed.

(* C17 — Resource descriptions built from triples flatten back to the same graph. *)
From RK Require Import Base Descr DescrProofs DescrInline DescrDataset.
From Coq Require Import Permutation.

(* The full statement for every graph, pinned set and option combination: flattening the export
   (with the anonymised blank nodes put back) is a permutation of the input triples — nothing dropped,
   nothing duplicated —, every anonymised blank node is anonymised exactly once (so the fresh nodes the
   real flattening draws realise an injective renaming: no merge, no split), and the recursion never
   exceeds the model's fuel (length g + 2 levels: building is bounded by the size of the graph). *)
Definition C17_export_flatten_iso_statement : Prop :=
  forall g pinned o,
    Permutation (flatten (export g pinned o)) g /\
    NoDup (anon_origins (export g pinned o)) /\
    out_of_fuel (export g pinned o) = false.

Theorem C17_export_flatten_iso : C17_export_flatten_iso_statement.
Proof. exact export_flatten_iso. Qed.
Print Assumptions C17_export_flatten_iso.

(* per graph of a dataset (blank nodes shared between graphs, or used as graph names, are pinned):
   each graph's resources flatten back to exactly that graph's triples *)
Theorem C17_export_dataset_flatten : forall qs o gn rs,
  In (gn, rs) (export_dataset qs o) ->
  Permutation (flatten rs) (graph_of qs gn) /\ NoDup (anon_origins rs) /\ out_of_fuel rs = false.
Proof. exact export_dataset_flatten. Qed.
Print Assumptions C17_export_dataset_flatten.

(* the dataset builder hands every quad to exactly one graph's builder *)
Theorem C17_quads_by_graph : forall qs,
  Permutation qs (flat_map (fun gn => map (fun t => (t, gn)) (graph_of qs gn)) (gnames_aux qs [])).
Proof. exact quads_by_graph. Qed.
Print Assumptions C17_quads_by_graph.

(* a blank node that occurs in two graphs keeps its name in every graph's export (it is pinned: never nested, never
   anonymous), so the fresh nodes drawn per graph cannot split it *)
Theorem C17_shared_never_anonymous : forall qs o gn rs t1 g1 t2 g2 b,
  In (gn, rs) (export_dataset qs o) ->
  In (t1, g1) qs -> In (t2, g2) qs -> mentions b t1 -> mentions b t2 -> g1 <> g2 ->
  ~ In b (anon_origins rs).
Proof. exact shared_never_anonymous. Qed.
Print Assumptions C17_shared_never_anonymous.

(* a blank node that names a graph is pinned as well *)
Theorem C17_graph_name_pinned : forall qs t b, In (t, Some (NBlank b)) qs -> memn b (shared_of qs) = true.
Proof. exact graph_name_pinned. Qed.
Print Assumptions C17_graph_name_pinned.

(* every triple belongs to exactly one subject's statement list *)
Theorem C17_graph_by_subject : forall g, Permutation g (flat_map (stmts_of g) (subjects g)).
Proof. exact graph_by_subject. Qed.
Print Assumptions C17_graph_by_subject.

(* Inline = false (UseAnonResource on or off): the export flattens back to exactly the input triples *)
Theorem C17_export_flatten_noinline : forall g pinned o,
  inline o = false -> Permutation (flatten (export g pinned o)) g.
Proof. exact export_flatten_noinline. Qed.
Print Assumptions C17_export_flatten_noinline.

(* only blank nodes with exactly one reference that are not pinned are ever nested *)
Theorem C17_inlined_single_ref : forall g pinned b,
  inlined g pinned b = true -> refs g b = 1 /\ memn b pinned = false.
Proof. exact inlined_single_ref. Qed.
Print Assumptions C17_inlined_single_ref.

(* a blank node whose only referrer is itself is not nested: ExportResource does not recurse into it
   (formerly: unbounded recursion) *)
Theorem C17_self_reference_not_inlined : forall g pinned b,
  referrer g b = Some (NBlank b) -> inlined g pinned b = false.
Proof. exact self_reference_not_inlined. Qed.
Print Assumptions C17_self_reference_not_inlined.

(* the defect shapes of the unfixed code, on the fixed model: two-cycle, self reference, three-cycle,
   tail hanging off a cycle, chain from a root — all four option combinations flatten back exactly *)
Fixpoint count_t (t : triple) (l : list triple) : nat :=
  match l with [] => 0 | x :: r => (if node_eqb (t_s x) (t_s t) && node_eqb (t_p x) (t_p t) && node_eqb (t_o x) (t_o t) then 1 else 0) + count_t t r end.
Definition same_multiset (a b : list triple) : bool :=
  Nat.eqb (length a) (length b) && forallb (fun t => Nat.eqb (count_t t a) (count_t t b)) a.
Definition roundtrip_ok (g : graph) : bool :=
  forallb (fun o => same_multiset (flatten (export g [] o)) g && negb (out_of_fuel (export g [] o)))
          [Opts false false; Opts true false; Opts false true; Opts true true].
Example C17_defect_shapes :
  let b := NBlank in let i := NIri in
  forallb roundtrip_ok
    [ [(b 0, i 0, b 1); (b 1, i 0, b 0)];
      [(b 0, i 0, b 0)];
      [(b 0, i 0, b 1); (b 1, i 0, b 2); (b 2, i 0, b 0)];
      [(b 0, i 0, b 1); (b 1, i 0, b 0); (b 0, i 1, b 2); (b 2, i 0, NLit 0)];
      [(i 0, i 0, b 0); (b 0, i 0, b 1); (b 1, i 0, b 2); (b 2, i 1, NLit 0)] ] = true
  /\ export [(i 0, i 0, b 0); (b 0, i 0, b 1); (b 1, i 1, NLit 0)] [] (Opts true true)
     = [RSubj (i 0) [SAnon (i 0) 0 [SAnon (i 0) 1 [SObj (i 1) (NLit 0)]]]].
Proof. vm_compute. split; reflexivity. Qed.

(* C11 — RDFa, Microdata and embedded JSON-LD in HTML decode to the data they mark up.
   model/Rdfa.v is the RDFa Core 1.1 processing sequence (with the HTML+RDFa rules) over the element tree,
   model/Microdata.v the Microdata item model, model/JsonLd.v reads script elements; the decoders are compared with
   them on every generated document (the models are the denotation). Theorems: facts of the models which hold for
   every document: the markup around the data and the order of attributes do not matter. *)
From RK Require Import Base Iri3986 RdfXml Rdfa Microdata RdfaProofs MicrodataProofs.
From Coq Require Import Permutation.

(* attribute order: an element whose attributes are permuted (names distinct, as the HTML parser guarantees) is
   evaluated alike in every context and state, whatever its children *)
Theorem C11_rdfa_attribute_order : forall f root c name attrs attrs' ch st,
  Permutation attrs attrs' -> NoDup (map fst attrs) ->
  element (S f) root c (XE name attrs ch) st = element (S f) root c (XE name attrs' ch) st.
Proof. intros f root c name attrs attrs' ch st P ND. apply element_attrs_ext. intros k. apply attr_perm; assumption. Qed.
Print Assumptions C11_rdfa_attribute_order.

Theorem C11_microdata_attribute_order : forall base root idfuel f cur refs name attrs attrs' ch st,
  Permutation attrs attrs' -> NoDup (map fst attrs) ->
  walk base root idfuel (S f) cur refs (XE name attrs ch) st = walk base root idfuel (S f) cur refs (XE name attrs' ch) st.
Proof. intros. apply walk_attrs_ext. intros k. apply attr_perm; assumption. Qed.
Print Assumptions C11_microdata_attribute_order.

(* surrounding markup: an element without RDFa attributes (not head / body), below an element which set a parent
   object, contributes nothing and hands the context to its children unchanged; likewise for Microdata an element which
   is neither an item nor a property *)
Theorem C11_rdfa_plain_markup_transparent : forall f c name attrs ch st o,
  no_rdfa attrs = true -> beq name (s2b "head") = false -> beq name (s2b "body") = false ->
  r_pobj c = Some o -> is_node o = true ->
  element (S f) false c (XE name attrs ch) st =
  fold_left (fun st ch => match st with Some st => element f false c ch st | None => None end) ch (Some st).
Proof. exact plain_element_transparent. Qed.
Print Assumptions C11_rdfa_plain_markup_transparent.

Theorem C11_microdata_plain_markup_transparent : forall base root idfuel f cur refs name attrs ch st,
  attr (s2b "itemscope") attrs = None -> attr (s2b "itemprop") attrs = None ->
  walk base root idfuel (S f) cur refs (XE name attrs ch) st =
  fold_left (fun st c => walk base root idfuel f cur refs c st) ch st.
Proof. exact md_plain_element_transparent. Qed.

(* non-vacuity and a picture of the models: chaining with rel / typeof, a list, a safe CURIE, a term under @vocab *)
Example C11_rdfa_example :
  rdfa_doc (s2b "http://example.org/dir/page.html")
    (XE (s2b "html") [(s2b "prefix", s2b "ex: http://e/")]
       [XE (s2b "head") [] [XE (s2b "title") [] [XT (s2b "T")]];
        XE (s2b "body") []
          [XE (s2b "div") [(s2b "about", s2b "#me"); (s2b "typeof", s2b "ex:Person"); (s2b "vocab", s2b "http://v/")]
             [XE (s2b "span") [(s2b "class", s2b "x")] [XE (s2b "span") [(s2b "property", s2b "name"); (s2b "lang", s2b "en")] [XT (s2b "Ann")]];
              XE (s2b "a") [(s2b "rel", s2b "ex:knows"); (s2b "href", s2b "http://o/b")] [XE (s2b "span") [(s2b "property", s2b "ex:nick")] [XT (s2b "Bob")]];
              XE (s2b "span") [(s2b "property", s2b "ex:l"); (s2b "inlist", []); (s2b "resource", s2b "[ex:i1]")] [];
              XE (s2b "span") [(s2b "property", s2b "ex:l"); (s2b "inlist", [])] [XT (s2b "two")]]]])
  = Some [(RI (s2b "http://example.org/dir/page.html"), RDFA_USES, RI (s2b "http://v/"));
          (RI (s2b "http://example.org/dir/page.html#me"), rdf "type", RI (s2b "http://e/Person"));
          (RI (s2b "http://example.org/dir/page.html#me"), s2b "http://v/name", RL (s2b "Ann") lang_string_dt (s2b "en"));
          (RI (s2b "http://example.org/dir/page.html#me"), s2b "http://e/knows", RI (s2b "http://o/b"));
          (RI (s2b "http://o/b"), s2b "http://e/nick", RL (s2b "Bob") xsd_string_dt []);
          (RI (s2b "http://example.org/dir/page.html#me"), s2b "http://e/l", RB true (s2b "0"));
          (RB true (s2b "0"), rdf "first", RI (s2b "http://e/i1"));
          (RB true (s2b "0"), rdf "rest", RB true (s2b "1"));
          (RB true (s2b "1"), rdf "first", RL (s2b "two") xsd_string_dt []);
          (RB true (s2b "1"), rdf "rest", RI (rdf "nil"))].
Proof. vm_compute. reflexivity. Qed.

Example C11_microdata_example :
  microdata_doc (s2b "http://example.org/dir/page.html")
    (XE (s2b "html") []
       [XE (s2b "body") []
          [XE (s2b "div") [(s2b "id", s2b "r1")] [XE (s2b "img") [(s2b "itemprop", s2b "image"); (s2b "src", s2b "pic.png")] []];
           XE (s2b "div") [(s2b "itemscope", []); (s2b "data-n", s2b "1"); (s2b "itemtype", s2b "http://schema.org/Person"); (s2b "itemref", s2b "r1")]
             [XE (s2b "span") [(s2b "itemprop", s2b "name")] [XT (s2b "Ann")];
              XE (s2b "div") [(s2b "itemprop", s2b "knows http://e/p"); (s2b "itemscope", []); (s2b "data-n", s2b "2"); (s2b "itemid", s2b "#bob")]
                 [XE (s2b "meta") [(s2b "itemprop", s2b "http://e/q"); (s2b "content", s2b "c")] []]]]])
  = [(RB true (s2b "0"), rdf "type", RI (s2b "http://schema.org/Person"));
     (RB true (s2b "0"), s2b "http://schema.org/name", RL (s2b "Ann") xsd_string_dt []);
     (RB true (s2b "0"), s2b "http://schema.org/knows", RI (s2b "http://example.org/dir/page.html#bob"));
     (RB true (s2b "0"), s2b "http://e/p", RI (s2b "http://example.org/dir/page.html#bob"));
     (RI (s2b "http://example.org/dir/page.html#bob"), s2b "http://e/q", RL (s2b "c") xsd_string_dt []);
     (RB true (s2b "0"), s2b "http://schema.org/image", RI (s2b "http://example.org/dir/pic.png"))].
Proof. vm_compute. reflexivity. Qed.

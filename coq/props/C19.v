(* C19 — The in-memory dataset behaves as a mathematical set of quads. *)
From RK Require Import Base Store StoreProofs.

(* Refinement over every history of AddQuad / DeleteQuad / HasQuad / NewQuadIterator / GetGraph /
   per-graph NewTripleIterator with arbitrary matcher lists: the store stays related to a plain
   duplicate-free set, membership answers are equal, iterations return exactly the members that
   satisfy all matchers (no duplicates, nothing lost). *)
Theorem C19_refines_set : forall ops,
  R (fst (srun_from store0 ops)) (fst (spec_run_from [] ops)) /\
  Forall2 out_equiv (snd (srun_from store0 ops)) (snd (spec_run_from [] ops)).
Proof. intros ops. exact (run_refines ops store0 [] R0). Qed.
Print Assumptions C19_refines_set.

(* single steps: what Add / Delete do to the contents (in particular deleting an absent quad is a no-op) *)
Theorem C19_add_spec : forall st q x,
  SInv st -> SInv (add_quad st q) /\ (In x (all_quads (add_quad st q)) <-> x = q \/ In x (all_quads st)).
Proof. exact add_quad_spec. Qed.
Print Assumptions C19_add_spec.

Theorem C19_delete_spec : forall st q x,
  SInv st -> SInv (del_quad st q) /\ (In x (all_quads (del_quad st q)) <-> x <> q /\ In x (all_quads st)).
Proof. exact del_quad_spec. Qed.
Print Assumptions C19_delete_spec.

Theorem C19_has_spec : forall st q, SInv st -> (has_quad st q = true <-> In q (all_quads st)).
Proof. exact has_quad_spec. Qed.
Print Assumptions C19_has_spec.

Theorem C19_no_duplicates : forall st, SInv st -> NoDup (all_quads st).
Proof. exact all_quads_NoDup. Qed.
Print Assumptions C19_no_duplicates.

(* iteration with any matcher list = filter of the contents; the single-subject-matcher fast path
   of the Go code computes the same list as the general path *)
Theorem C19_iterator_filter : forall st ms,
  iter_quads st ms = filter (fun q => forallb (fun m => qmatches m q) ms) (all_quads st).
Proof. exact iter_quads_filter. Qed.
Print Assumptions C19_iterator_filter.

Theorem C19_triple_iterator_filter : forall g bs ms,
  graph_iter_t g bs ms = filter (fun q => forallb (fun m => trmatches m (q_s q) (q_p q) (q_o q)) ms) (graph_quads g bs).
Proof. exact graph_iter_t_filter. Qed.
Print Assumptions C19_triple_iterator_filter.

(* the term matchers agree with term equality *)
Theorem C19_matchers_agree : forall t u ts,
  tmatches (MEq t) (Some u) = term_eqb t u /\ tmatches (MOneOf ts) (Some u) = existsb (fun e => term_eqb e u) ts /\
  (term_eqb t u = true <-> t = u).
Proof. intros t u ts. exact (conj (matcher_equals t u) (conj (matcher_oneof ts u) (term_eqb_eq t u))). Qed.
Print Assumptions C19_matchers_agree.

(* the preimage of the literal node key is injective on well-formed literals
   (datatype IRIs contain no LF, language tags no quote) *)
Theorem C19_lit_key_injective : forall d l g d' l' g',
  no_byte 10 d = true -> no_byte 10 d' = true -> no_byte 34 g = true -> no_byte 34 g' = true ->
  lit_key (TLit d l (Some g) None) = lit_key (TLit d' l' (Some g') None) -> d = d' /\ g = g' /\ l = l'.
Proof. exact lit_key_injective_lang. Qed.
Print Assumptions C19_lit_key_injective.

Theorem C19_lit_key_injective_plain : forall d l d' l',
  no_byte 10 d = true -> no_byte 10 d' = true ->
  lit_key (TLit d l None None) = lit_key (TLit d' l' None None) -> d = d' /\ l = l'.
Proof. exact lit_key_injective_plain. Qed.
Print Assumptions C19_lit_key_injective_plain.

(* non-vacuity *)
Example C19_example :
  let a := TIri (s2b "http://e/a") in let l := TLit (s2b "http://e/dt") (s2b "x") None None in
  snd (srun_from store0 [SAdd (Quad a a l None); SAdd (Quad a a l None); SAdd (Quad a a a (Some a)); SHas (Quad a a l None);
                         SDel (Quad a a a None); SIter [QT (TS (MEq a)); QO MIsLit]; SDel (Quad a a l None); SHas (Quad a a l None)])
  = [SUnit; SUnit; SUnit; SBool true; SUnit; SQuads [Quad a a l None]; SUnit; SBool false].
Proof. vm_compute. reflexivity. Qed.

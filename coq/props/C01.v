(* C01 — N-Triples, N-Quads (and RDF/JSON) encoders round-trip every dataset. *)
From RK Require Import Base Utf8 Runes NQ NQProofs NQRoundTrip Utf8Proofs.

(* ASCII option: every byte of the encoded document is below 0x80, for all datasets; the parts the
   writers copy verbatim from the caller (blank node labels of a custom labeller, language tags) are
   required to be ASCII themselves — N-Triples has no escape syntax for them *)
Theorem C01_ascii : forall qs,
  Forall (fun q => verbatim_ascii (q_s q) /\ verbatim_ascii (q_p q) /\ verbatim_ascii (q_o q) /\
                   match q_g q with Some g => verbatim_ascii g | None => True end) qs ->
  Forall (fun b => (b < 128)%N) (utf8_encode (encode true qs)).
Proof. exact encode_ascii. Qed.
Print Assumptions C01_ascii.

Example C01_ascii_example :
  utf8_encode (encode true [Quad (TIri (s2b "http://e/" ++ [233%N])) (TIri (s2b "http://e/p"))
                                 (TLit [233%N; 10%N; 34%N; 128512%N] xsd_string None) None])
  = s2b "<http://e/\u00E9> <http://e/p> ""\u00E9\n\""\U0001F600"" ." ++ [10%N].
Proof. vm_compute. reflexivity. Qed.

(* the round trip: for every list of well-formed quads (absolute IRIs of scalar code points, blank node labels of the
   N-Triples grammar, literals which are plain, language-tagged with a well-formed tag, or typed with an IRI other than
   the two language datatypes; a graph name only in N-Quads), the decoder reads the written text back as exactly those
   quads, in order, and ends without an error — with the ASCII option on and off, for documents of any length. The
   text is taken as the runes the reader delivers (dr pairs a rune with its UTF-8 size). *)
Theorem C01_decode_encode : forall ascii nq qs, Forall (quad_ok nq) qs ->
  exists stmts, decode nq (drs (encode ascii qs)) TEof = (stmts, VOk) /\ map st_quad stmts = qs.
Proof. exact decode_encode. Qed.
Print Assumptions C01_decode_encode.

(* the same on bytes: the written runes, UTF-8 encoded, read rune by rune as bufio.Reader.ReadRune delivers them *)
Theorem C01_bytes_roundtrip : forall ascii nq qs, Forall (quad_ok nq) qs ->
  exists stmts, decode_bytes nq (utf8_encode (encode ascii qs)) TEof = (stmts, VOk) /\ map st_quad stmts = qs.
Proof. exact decode_bytes_encode. Qed.
Print Assumptions C01_bytes_roundtrip.

(* non-vacuity: an IRI with a non-ASCII code point, a blank node, a language-tagged and a typed literal, a graph name *)
Example C01_quads_ok :
  Forall (quad_ok true)
    [Quad (TIri (s2b "http://e/" ++ [233%N])) (TIri (s2b "http://e/p")) (TLit [233%N; 10%N; 34%N; 128512%N] xsd_string None) None;
     Quad (TBlank (s2b "b.0")) (TIri (s2b "urn:x:p")) (TLit (s2b "chat") rdf_langString (Some (s2b "fr-CA"))) (Some (TIri (s2b "http://e/g")));
     Quad (TIri (s2b "http://e/s")) (TIri (s2b "http://e/p")) (TLit (s2b "5") (s2b "http://www.w3.org/2001/XMLSchema#integer") None) (Some (TBlank (s2b "g")))].
Proof.
  assert (S : forall l, forallb is_scalar l = true -> scalars l).
  { intros l H. unfold scalars. apply Forall_forall. intros x Hx. rewrite forallb_forall in H. apply H. exact Hx. }
  repeat (apply Forall_cons); try apply Forall_nil.
  - unfold quad_ok, term_ok, iri_ok, lit_ok. cbn [q_s q_p q_o q_g is_lit is_iri].
    repeat split; try (apply S; reflexivity); try reflexivity. left. split; reflexivity.
  - unfold quad_ok, term_ok, iri_ok, lit_ok. cbn [q_s q_p q_o q_g is_lit is_iri].
    repeat split; try (apply S; reflexivity); try reflexivity.
    right. left. split; [reflexivity|]. eexists. split; reflexivity.
  - unfold quad_ok, term_ok, iri_ok, lit_ok. cbn [q_s q_p q_o q_g is_lit is_iri].
    repeat split; try (apply S; reflexivity); try reflexivity.
    right. right. repeat split; try reflexivity. apply S. reflexivity.
Qed.

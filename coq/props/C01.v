(* C01 — N-Triples, N-Quads (and RDF/JSON) encoders round-trip every dataset. *)
From RK Require Import Base Utf8 NQ NQProofs.

(* ASCII option: every byte of the encoded document is below 0x80, for all datasets; the parts the
   writers copy verbatim from the caller (blank node labels of a custom labeller, language tags) are
   required to be ASCII themselves — N-Triples has no escape syntax for them *)
Theorem C01_ascii : forall qs,
  Forall (fun q => verbatim_ascii (q_s q) /\ verbatim_ascii (q_p q) /\ verbatim_ascii (q_o q) /\
                   match q_g q with Some g => verbatim_ascii g | None => True end) qs ->
  Forall (fun b => (b < 128)%N) (utf8_encode (encode true qs)).
Proof. exact encode_ascii. Qed.
Print Assumptions C01_ascii.

Example C01_ascii_example :
  utf8_encode (encode true [Quad (TIri (s2b "http://e/" ++ [233%N])) (TIri (s2b "http://e/p"))
                                 (TLit [233%N; 10%N; 34%N; 128512%N] xsd_string None) None])
  = s2b "<http://e/\u00E9> <http://e/p> ""\u00E9\n\""\U0001F600"" ." ++ [10%N].
Proof. vm_compute. reflexivity. Qed.

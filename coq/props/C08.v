(* C08 — Turtle/TriG decoding of any grammatical document yields the dataset it denotes: the terminal productions.
   For every way of spelling an IRIREF, a short string literal, a local name and a numeric literal, the scanners of the
   decoder model return the characters (and the numeric kind) the spelling denotes, and stop exactly at its end. *)
From RK Require Import Base Utf8 Runes NQ TurtleTok TurtleLocalProofs TurtleNumProofs TurtleStrProofs TurtleSpellProofs.

(* IRIREF: every character raw (where the grammar allows) or as \uXXXX or \UXXXXXXXX, in either hex case *)
Theorem C08_iriref_every_spelling : forall up us rest,
  forallb iri_spell_ok us = true ->
  lex_iriref (flat_map (write_spell up) us ++ 62%N :: rest) = Some (map denote us, rest).
Proof. exact iriref_every_spelling. Qed.
Print Assumptions C08_iriref_every_spelling.

(* STRING_LITERAL_QUOTE and STRING_LITERAL_SINGLE_QUOTE: raw characters, ECHAR, UCHAR in any mix *)
Theorem C08_short_string_every_spelling : forall up q us rest,
  (q = 34 \/ q = 39)%N -> forallb (str_spell_ok q) us = true ->
  (us = [] -> match rest with c :: _ => c <> q | [] => True end) ->
  lex_string q (flat_map (write_spell up) us ++ q :: rest) = Some (map denote us, rest).
Proof. exact short_string_every_spelling. Qed.
Print Assumptions C08_short_string_every_spelling.

(* PN_LOCAL: raw characters where the production allows them, any PN_LOCAL_ESC character escaped, PLX kept as written,
   inner and repeated dots; the name ends before a following '.' only if that dot is not part of it *)
Theorem C08_local_name_every_spelling : forall us rest,
  lspells_ok true us = true -> last_not_raw_dot us -> local_delim rest ->
  lex_local (flat_map write_l us ++ rest) = Some (flat_map denote_l us, rest).
Proof. exact local_every_spelling. Qed.
Print Assumptions C08_local_name_every_spelling.

(* INTEGER, DECIMAL, DOUBLE: every token of the three productions is scanned as itself with its kind *)
Theorem C08_numeric_every_token : forall tok k rest r0 t,
  shorthand_kind tok = Some k -> tok = r0 :: t -> num_delim rest -> lex_numeric r0 (t ++ rest) = Some (k, tok, rest).
Proof. exact numeric_roundtrip. Qed.
Print Assumptions C08_numeric_every_token.

Example C08_example :
  lex_iriref (s2b "http://e/\u00e9\U0001F600x> .") = Some (s2b "http://e/" ++ [233; 128512; 120]%N, s2b " .") /\
  lex_string 39 (s2b "a\'\tA""' .") = Some ([97; 39; 9; 65; 34]%N, s2b " .") /\
  lex_local (s2b "a.b\.c%4A..:d. ") = Some (s2b "a.b.c%4A..:d", s2b ". ") /\
  lex_numeric 46 (s2b "5e+1,") = Some (KDouble, s2b ".5e+1", s2b ",") /\
  lex_numeric 46 (s2b "e1") = None.
Proof. vm_compute. repeat split; reflexivity. Qed.

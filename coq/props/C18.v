(* C18 — Converting between formats through the registry/CLI preserves the dataset: how the type is resolved. *)
From RK Require Import Base Registry RegistryProofs NQ NQProofs NQRoundTrip NQPipe.
From Coq Require Import Permutation.

(* the decoder type found for a resource does not depend on the order in which Go iterates the file extension map,
   for every registry whose extension table is consistent (checked on the live registry on every run) *)
Theorem C18_type_resolution_order_independent : forall r exts' t media fname magic,
  exts_consistent (r_exts r) = true -> Permutation (r_exts r) exts' ->
  resolve_decoder (Registry (r_aliases r) (r_decoders r) (r_encoders r) (r_media r) exts') t media fname magic
  = resolve_decoder r t media fname magic.
Proof. exact resolve_decoder_order_independent. Qed.
Print Assumptions C18_type_resolution_order_independent.

(* a type given by alias is the type used, whatever the media type, the file name or the content suggest *)
Theorem C18_alias_wins : forall r t c media fname magic,
  t <> [] -> lookup_b t (r_aliases r) = Some c -> resolve_decoder r t media fname magic = Some c.
Proof. exact explicit_alias_wins. Qed.
Print Assumptions C18_alias_wins.

(* a registered file extension is not overridden by content sniffing (literals may contain markup or JSON) *)
Theorem C18_extension_beats_sniffing : forall r name c magic,
  by_ext (r_exts r) (lower name) = Some c -> resolve_decoder r [] None (Some name) magic = Some c.
Proof. exact extension_beats_sniffing. Qed.
Print Assumptions C18_extension_beats_sniffing.

Example C18_example :
  let r := Registry [(s2b "nq", s2b "org.w3.n-quads")] [s2b "org.w3.n-quads"; s2b "public.html"] [] [(s2b "text/html", s2b "public.html")]
                    [(s2b ".html", s2b "public.html"); (s2b ".xhtml", s2b "public.html"); (s2b ".nq", s2b "org.w3.n-quads")] in
  exts_consistent (r_exts r) = true /\
  resolve_decoder r [] None (Some (s2b "A.XHTML")) (Some (s2b "org.w3.n-quads")) = Some (s2b "public.html") /\
  resolve_decoder r (s2b "nq") (Some (s2b "Text/HTML")) (Some (s2b "a.html")) None = Some (s2b "org.w3.n-quads") /\
  resolve_decoder r (s2b "unknown") (Some (s2b "Text/HTML")) None None = Some (s2b "public.html") /\
  exts_consistent [(s2b ".ld", s2b "a"); (s2b ".jsonld", s2b "b"); (s2b "ld", s2b "c")] = false /\
  file_ext (s2b "dir.d/file.tar.gz") = s2b ".gz" /\ file_ext (s2b "dir.d/file") = [].
Proof. vm_compute. repeat split; reflexivity. Qed.

(* the conversions among N-Triples and N-Quads, over ALL inputs: decode any text (whatever the reader's end, also up to
   a syntax error), write the statements again with either setting of the ASCII option — as N-Quads, or as N-Triples
   when the input was read as N-Triples —, decode that: exactly the same quads, and no error *)
Theorem C18_nt_nq_conversion_preserves : forall nq nq' ascii inp t, (nq = true -> nq' = true) ->
  let qs := map st_quad (fst (decode nq inp t)) in
  exists stmts, decode nq' (drs (encode ascii qs)) TEof = (stmts, VOk) /\ map st_quad stmts = qs.
Proof. exact pipe_preserves. Qed.
Print Assumptions C18_nt_nq_conversion_preserves.

(* C06 — Every decoded statement is a well-formed RDF triple or quad. *)
From RK Require Import Base NQ NQProofs NQTotal NQRoundTrip NQPipe.

(* N-Triples / N-Quads, for every input and every reader ending, including the statements emitted
   before an error: the subject is an absolute IRI or a labelled blank node, the predicate an
   absolute IRI, the object an absolute IRI, a labelled blank node or a literal whose datatype is an
   absolute IRI and which carries a non-empty language tag exactly when its datatype is
   rdf:langString (never rdf:langString / rdf:dirLangString without one); a graph name only from
   N-Quads, an absolute IRI or a labelled blank node *)
Theorem C06_nq_wf : forall nq inp t, Forall (fun s => wf_quad nq (st_quad s)) (fst (decode nq inp t)).
Proof. exact decode_wf. Qed.
Print Assumptions C06_nq_wf.

(* stronger: every decoded statement satisfies the hypotheses of the writer round trip (scalar code points, blank node
   labels and language tags of the grammar), so it can be written and read again unchanged (C18_nt_nq_conversion_preserves) *)
Theorem C06_nq_rewritable : forall nq inp t, Forall (quad_ok nq) (map st_quad (fst (decode nq inp t))).
Proof. exact decode_ok. Qed.
Print Assumptions C06_nq_rewritable.

(* non-vacuity: statements before an error are emitted and are covered by the theorem *)
Example C06_example :
  map st_quad (fst (decode_bytes true (s2b "_:a <http://e/p> ""x""@en <http://e/g> ." ++ [10%N] ++ s2b "<http://e/s> <rel> <http://e/o> .") TEof))
  = [Quad (TBlank (s2b "a")) (TIri (s2b "http://e/p")) (TLit (s2b "x") rdf_langString (Some (s2b "en"))) (Some (TIri (s2b "http://e/g")))].
Proof. vm_compute. reflexivity. Qed.

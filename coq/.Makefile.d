lib/Base.vo lib/Base.glob lib/Base.v.beautified lib/Base.required_vo: lib/Base.v 
lib/Base.vio: lib/Base.v 
lib/Base.vos lib/Base.vok lib/Base.required_vos: lib/Base.v 
lib/BaseFacts.vo lib/BaseFacts.glob lib/BaseFacts.v.beautified lib/BaseFacts.required_vo: lib/BaseFacts.v lib/Base.vo
lib/BaseFacts.vio: lib/BaseFacts.v lib/Base.vio
lib/BaseFacts.vos lib/BaseFacts.vok lib/BaseFacts.required_vos: lib/BaseFacts.v lib/Base.vos
model/Prefix.vo model/Prefix.glob model/Prefix.v.beautified model/Prefix.required_vo: model/Prefix.v lib/Base.vo
model/Prefix.vio: model/Prefix.v lib/Base.vio
model/Prefix.vos model/Prefix.vok model/Prefix.required_vos: model/Prefix.v lib/Base.vos
proofs/PrefixProofs.vo proofs/PrefixProofs.glob proofs/PrefixProofs.v.beautified proofs/PrefixProofs.required_vo: proofs/PrefixProofs.v lib/Base.vo lib/BaseFacts.vo model/Prefix.vo
proofs/PrefixProofs.vio: proofs/PrefixProofs.v lib/Base.vio lib/BaseFacts.vio model/Prefix.vio
proofs/PrefixProofs.vos proofs/PrefixProofs.vok proofs/PrefixProofs.required_vos: proofs/PrefixProofs.v lib/Base.vos lib/BaseFacts.vos model/Prefix.vos
props/C13.vo props/C13.glob props/C13.v.beautified props/C13.required_vo: props/C13.v lib/Base.vo model/Prefix.vo proofs/PrefixProofs.vo
props/C13.vio: props/C13.v lib/Base.vio model/Prefix.vio proofs/PrefixProofs.vio
props/C13.vos props/C13.vok props/C13.required_vos: props/C13.v lib/Base.vos model/Prefix.vos proofs/PrefixProofs.vos
drv/Proto.vo drv/Proto.glob drv/Proto.v.beautified drv/Proto.required_vo: drv/Proto.v lib/Base.vo
drv/Proto.vio: drv/Proto.v lib/Base.vio
drv/Proto.vos drv/Proto.vok drv/Proto.required_vos: drv/Proto.v lib/Base.vos
drv/DrvC13.vo drv/DrvC13.glob drv/DrvC13.v.beautified drv/DrvC13.required_vo: drv/DrvC13.v lib/Base.vo drv/Proto.vo model/Prefix.vo
drv/DrvC13.vio: drv/DrvC13.v lib/Base.vio drv/Proto.vio model/Prefix.vio
drv/DrvC13.vos drv/DrvC13.vok drv/DrvC13.required_vos: drv/DrvC13.v lib/Base.vos drv/Proto.vos model/Prefix.vos
drv/Driver.vo drv/Driver.glob drv/Driver.v.beautified drv/Driver.required_vo: drv/Driver.v lib/Base.vo drv/Proto.vo drv/DrvC13.vo
drv/Driver.vio: drv/Driver.v lib/Base.vio drv/Proto.vio drv/DrvC13.vio
drv/Driver.vos drv/Driver.vok drv/Driver.required_vos: drv/Driver.v lib/Base.vos drv/Proto.vos drv/DrvC13.vos

(* RdfaProofs.v — facts of the RDFa processing model (model/Rdfa.v): the evaluation of an element does not depend on
   the order of its attributes, and an element without RDFa attributes is transparent. *)
From RK Require Import Base BaseFacts Iri3986 RdfXml Rdfa.
From Coq Require Import Permutation.

(* attribute lookup does not depend on the order of attributes with distinct names *)
Lemma attr_perm k (l l' : list (bytes * bytes)) :
  Permutation l l' -> NoDup (map fst l) -> attr k l = attr k l'.
Proof.
  intros P. induction P as [|[a v] l l' P IH|[a v] [b w] l|l l' l'' P1 IH1 P2 IH2]; intros ND.
  - reflexivity.
  - cbn [attr]. inversion ND; subst. destruct (beq a k); [reflexivity|]. apply IH; assumption.
  - cbn [attr]. destruct (beq b k) eqn:Eb, (beq a k) eqn:Ea; try reflexivity.
    apply beq_true_iff in Eb, Ea. subst. inversion ND as [|x xs Hn _]; subst. exfalso. apply Hn. cbn. left. reflexivity.
  - rewrite IH1 by assumption. apply IH2.
    eapply Permutation_NoDup; [|exact ND]. apply Permutation_map. exact P1.
Qed.

Lemma element_attrs_ext f root c name attrs attrs' ch st :
  (forall k, attr k attrs = attr k attrs') ->
  element (S f) root c (XE name attrs ch) st = element (S f) root c (XE name attrs' ch) st.
Proof.
  intros H. cbn [element text_content]. rewrite !H. reflexivity.
Qed.

(* ---------- elements without RDFa attributes are transparent ---------- *)
Definition rdfa_attr_names : list String.string :=
  ["vocab"; "prefix"; "lang"; "about"; "resource"; "href"; "src"; "typeof"; "property"; "rel"; "rev"; "content"; "datatype"; "inlist"]%string.

Definition no_rdfa (attrs : list (bytes * bytes)) : bool :=
  forallb (fun k => match attr (s2b k) attrs with None => true | Some _ => false end) rdfa_attr_names.

Lemma no_rdfa_none attrs (k : String.string) : no_rdfa attrs = true -> In k rdfa_attr_names -> attr (s2b k) attrs = None.
Proof.
  unfold no_rdfa. intros H Hin. rewrite forallb_forall in H. specialize (H k Hin).
  destruct (attr (s2b k) attrs); [discriminate|reflexivity].
Qed.

Definition is_node (o : rterm) : bool := match o with RL _ _ _ => false | _ => true end.

Lemma beq_self a : beq a a = true. Proof. apply beq_true_iff. reflexivity. Qed.

Theorem plain_element_transparent f c name attrs ch st o :
  no_rdfa attrs = true -> beq name (s2b "head") = false -> beq name (s2b "body") = false ->
  r_pobj c = Some o -> is_node o = true ->
  element (S f) false c (XE name attrs ch) st =
  fold_left (fun st ch => match st with Some st => element f false c ch st | None => None end) ch (Some st).
Proof.
  intros Hn Hh Hb Ho Hnode.
  cbn [element].
  rewrite (no_rdfa_none attrs "vocab"%string Hn), (no_rdfa_none attrs "prefix"%string Hn), (no_rdfa_none attrs "lang"%string Hn),
          (no_rdfa_none attrs "about"%string Hn), (no_rdfa_none attrs "resource"%string Hn), (no_rdfa_none attrs "href"%string Hn),
          (no_rdfa_none attrs "src"%string Hn), (no_rdfa_none attrs "typeof"%string Hn), (no_rdfa_none attrs "property"%string Hn),
          (no_rdfa_none attrs "rel"%string Hn), (no_rdfa_none attrs "rev"%string Hn)
    by (cbn; tauto).
  rewrite Hh, Hb. cbn [first_some fold_right negb andb orb].
  destruct c as [base psubj pobj inc mp lang pfx vocab]. cbn [r_pobj r_map r_base r_psubj r_inc r_lang r_pfx r_vocab] in *.
  subst pobj.
  destruct o as [i|g l|lex dt lg]; [| |discriminate].
  - rewrite beq_self. rewrite Nat.eqb_refl.
    match goal with |- match ?x with _ => _ end = _ => destruct x; reflexivity end.
  - rewrite Bool.eqb_reflx, beq_self. cbn [andb]. rewrite Nat.eqb_refl.
    match goal with |- match ?x with _ => _ end = _ => destruct x; reflexivity end.
Qed.

(* NQProofs.v — writer / scanner round trips for the N-Triples family model *)
From RK Require Import Base BaseFacts Utf8 Runes NQ.
From Coq Require Import ZifyN ZifyNat ZifyBool.
Ltac Zify.zify_post_hook ::= Z.div_mod_to_equations.

Ltac elems Hx := simpl in Hx; repeat (match type of Hx with _ \/ _ => destruct Hx as [Hx|Hx]; [subst|] end); try contradiction.

Definition dr (r : N) : drune := (r, rune_size r).
Definition drs (l : runes) : list drune := map dr l.

Lemma hexv_hex_upper v : (v < 16)%N -> hexv (hex_upper v) = Some v.
Proof.
  intros H. unfold hexv, hex_upper, rng.
  destruct (v <? 10)%N eqn:E.
  - assert (Hr : ((48 <=? 48 + v) && (48 + v <=? 57))%N = true) by lia. rewrite Hr. f_equal. lia.
  - assert (Hr1 : ((48 <=? 55 + v) && (55 + v <=? 57))%N = false) by lia. rewrite Hr1.
    assert (Hr2 : ((65 <=? 55 + v) && (55 + v <=? 70))%N = true) by lia. rewrite Hr2. f_equal. lia.
Qed.

Lemma hexd_lt r s : (hexd r s < 128)%N.
Proof. unfold hexd, hex_upper. destruct (_ <? 10)%N eqn:E; lia. Qed.

Lemma hex_upper_lt v : (v < 16)%N -> (hex_upper v < 128)%N.
Proof. unfold hex_upper. intros. destruct (v <? 10)%N; lia. Qed.

(* ---------- ASCII option ---------- *)
Lemma esc_iri_rune_ascii r x : In x (esc_iri_rune true r) -> (x < 128)%N.
Proof.
  unfold esc_iri_rune, iri_mode.
  destruct (r <=? 32)%N eqn:E1.
  { unfold uchar4. intros Hx. elems Hx; try lia; apply hexd_lt. }
  destruct (N.eqb r 60 || N.eqb r 62 || N.eqb r 34 || N.eqb r 123 || N.eqb r 125 || N.eqb r 124 || N.eqb r 94 || N.eqb r 96 || N.eqb r 92) eqn:E2.
  { unfold uchar4. intros Hx. elems Hx; try lia; apply hexd_lt. }
  destruct (65535 <? r)%N eqn:E3.
  { unfold uchar8. intros Hx. elems Hx; try lia; try apply hexd_lt. apply hex_upper_lt. lia. }
  destruct (127 <? r)%N eqn:E4.
  { unfold uchar4. intros Hx. elems Hx; try lia; apply hexd_lt. }
  intros Hx. elems Hx. lia.
Qed.

Lemma esc_lit_rune_ascii r x : In x (esc_lit_rune true r) -> (x < 128)%N.
Proof.
  unfold esc_lit_rune, lit_mode.
  destruct (N.eqb r 8 || N.eqb r 9 || N.eqb r 10 || N.eqb r 12 || N.eqb r 13 || N.eqb r 34 || N.eqb r 92) eqn:E1.
  { unfold echar_of.
    repeat match goal with |- context [if N.eqb r ?c then _ else _] => destruct (N.eqb r c) end;
      intros Hx; elems Hx; lia. }
  destruct ((r <=? 31)%N || N.eqb r 127 || N.eqb r 65534 || N.eqb r 65535) eqn:E2.
  { unfold uchar4. intros Hx. elems Hx; try lia; apply hexd_lt. }
  destruct (65535 <? r)%N eqn:E3.
  { unfold uchar8. intros Hx. elems Hx; try lia; try apply hexd_lt. apply hex_upper_lt. lia. }
  destruct (127 <? r)%N eqn:E4.
  { unfold uchar4. intros Hx. elems Hx; try lia; apply hexd_lt. }
  intros Hx. elems Hx. lia.
Qed.

Definition all_lt128 (l : runes) : Prop := Forall (fun x => (x < 128)%N) l.

Lemma write_iri_ascii i : all_lt128 (write_iri true i).
Proof.
  unfold write_iri, all_lt128. constructor; [lia|]. apply Forall_app. split; [|constructor; [lia|constructor]].
  apply Forall_forall. intros x Hx. apply in_flat_map in Hx as (r & _ & Hx). eapply esc_iri_rune_ascii; eauto.
Qed.

Lemma write_literal_ascii lex dt lang :
  (match lang with Some l => all_lt128 l | None => True end) -> all_lt128 (write_literal true lex dt lang).
Proof.
  intros Hl. unfold write_literal, all_lt128. constructor; [lia|]. apply Forall_app. split.
  - apply Forall_forall. intros x Hx. apply in_flat_map in Hx as (r & _ & Hx). eapply esc_lit_rune_ascii; eauto.
  - constructor; [lia|]. destruct (beq dt xsd_string); [constructor|].
    destruct (beq dt rdf_langString).
    + destruct lang; [constructor; [lia|exact Hl]|constructor].
    + constructor; [lia|]. constructor; [lia|]. apply write_iri_ascii.
Qed.

(* with the ASCII option every byte of a written term is below 0x80, provided the caller-supplied
   parts that are written verbatim (blank node labels, language tags) are ASCII themselves *)
Definition verbatim_ascii (t : term) : Prop :=
  match t with
  | TBlank l => all_lt128 l
  | TLit _ _ (Some l) => all_lt128 l
  | _ => True
  end.

Lemma write_term_ascii t : verbatim_ascii t -> all_lt128 (write_term true t).
Proof.
  destruct t as [i|l|lex dt lang]; simpl; intros H.
  - apply write_iri_ascii.
  - constructor; [lia|]. constructor; [lia|exact H].
  - apply write_literal_ascii. destruct lang; auto.
Qed.

Lemma utf8_ascii l : all_lt128 l -> utf8_encode l = l /\ Forall (fun b => (b < 128)%N) (utf8_encode l).
Proof.
  induction 1 as [|x l Hx Hl [IH1 IH2]]; simpl; [split; constructor|].
  assert (Ex : encode_rune x = [x]) by (unfold encode_rune; assert (E : (x <? 128)%N = true) by lia; now rewrite E).
  rewrite Ex. simpl. split; [now rewrite IH1|constructor; assumption].
Qed.

Lemma write_quad_ascii q :
  verbatim_ascii (q_s q) -> verbatim_ascii (q_p q) -> verbatim_ascii (q_o q) ->
  (match q_g q with Some g => verbatim_ascii g | None => True end) -> all_lt128 (write_quad true q).
Proof.
  intros Hs Hp Ho Hg. unfold write_quad, all_lt128.
  repeat (apply Forall_app; split); try (now apply write_term_ascii); try (repeat constructor; lia).
  destruct (q_g q) as [g|]; [|constructor]. constructor; [lia|]. now apply write_term_ascii.
Qed.

Theorem encode_ascii qs :
  Forall (fun q => verbatim_ascii (q_s q) /\ verbatim_ascii (q_p q) /\ verbatim_ascii (q_o q) /\
                   match q_g q with Some g => verbatim_ascii g | None => True end) qs ->
  Forall (fun b => (b < 128)%N) (utf8_encode (encode true qs)).
Proof.
  intros H. apply utf8_ascii. unfold encode, all_lt128.
  induction H as [|q qs (Hs & Hp & Ho & Hg) Hqs IH]; simpl; [constructor|].
  apply Forall_app. split; [now apply write_quad_ascii|exact IH].
Qed.

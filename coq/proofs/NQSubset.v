(* NQSubset.v — every document the N-Triples decoder model accepts is decoded by the N-Quads decoder model to the
   same statements (all in the default graph), with the same commit traces. *)
From RK Require Import Base BaseFacts Utf8 Runes NQ.

Lemma after_object_nt_nq fuel : forall hg inp t tr v tr' rest,
  after_object fuel false hg inp t tr = Ok v tr' rest -> after_object fuel true hg inp t tr = Ok v tr' rest.
Proof.
  induction fuel as [|f IH]; intros hg inp t tr v tr' rest H; [discriminate|].
  cbn [after_object] in *. destruct inp as [|r0 r]; [discriminate|].
  destruct (N.eqb (fst r0) 46); [exact H|].
  destruct (N.eqb (fst r0) 35).
  { destruct (drain_line r [r0]) as [cm [rest'|]]; [apply IH; exact H|discriminate]. }
  destruct (is_space (fst r0)); [apply IH; exact H|].
  cbn [andb] in H. discriminate.
Qed.

Lemma after_object_nt_none fuel : forall hg inp t tr v tr' rest,
  after_object fuel false hg inp t tr = Ok v tr' rest -> v = None.
Proof.
  induction fuel as [|f IH]; intros hg inp t tr v tr' rest H; [discriminate|].
  cbn [after_object] in *. destruct inp as [|r0 r]; [discriminate|].
  destruct (N.eqb (fst r0) 46); [congruence|].
  destruct (N.eqb (fst r0) 35).
  { destruct (drain_line r [r0]) as [cm [rest'|]]; [eapply IH; exact H|discriminate]. }
  destruct (is_space (fst r0)); [eapply IH; exact H|].
  cbn [andb] in H. discriminate.
Qed.

Lemma statement_nt_nq inp t tr q tr' rest :
  statement false inp t tr = Ok q tr' rest -> statement true inp t tr = Ok q tr' rest /\ q_g q = None.
Proof.
  unfold statement.
  destruct (capture (S (length inp)) KSubject inp t tr) as [s tr1 r1| | |]; try discriminate.
  destruct (capture (S (length inp)) KPredicate r1 t tr1) as [p tr2 r2| | |]; try discriminate.
  destruct (capture (S (length inp)) KObject r2 t tr2) as [o tr3 r3| | |]; try discriminate.
  destruct (after_object (S (length inp)) false false r3 t tr3) as [g tr4 r4| | |] eqn:E; try discriminate.
  intros H. pose proof (after_object_nt_none _ _ _ _ _ _ _ _ E) as ->.
  apply after_object_nt_nq in E. rewrite E. split; [exact H|]. inversion H; reflexivity.
Qed.

Lemma decode_loop_nt_nq fuel : forall first inp t,
  snd (decode_loop fuel false first inp t) = VOk ->
  decode_loop fuel true first inp t = decode_loop fuel false first inp t /\
  Forall (fun s => q_g (st_quad s) = None) (fst (decode_loop fuel false first inp t)).
Proof.
  induction fuel as [|f IH]; intros first inp t H; [discriminate|].
  cbn [decode_loop] in *.
  destruct (if first then GStart [] inp else after_statement (S (length inp)) inp t []) as [tr1 r1| | | |];
    try (split; [reflexivity|constructor]).
  destruct (before_statement (S (length r1)) r1 t tr1) as [tr2 r2| | | |];
    try (split; [reflexivity|constructor]).
  destruct (statement false r2 t tr2) as [q tr3 r3| | |] eqn:E.
  - apply statement_nt_nq in E. destruct E as [E Hg]. rewrite E.
    specialize (IH false r3 t).
    destruct (decode_loop f false false r3 t) as [l v] eqn:D. cbn [snd fst] in *.
    destruct (IH H) as [IH1 IH2]. rewrite IH1. split; [reflexivity|]. constructor; [exact Hg|exact IH2].
  - cbn [snd] in H. destruct t; discriminate.
  - discriminate.
  - discriminate.
Qed.

(* every grammatical N-Triples document is an N-Quads document with the same triples, in the default graph *)
Theorem nt_subset_nq inp t :
  snd (decode false inp t) = VOk ->
  decode true inp t = decode false inp t /\ Forall (fun s => q_g (st_quad s) = None) (fst (decode false inp t)).
Proof. apply decode_loop_nt_nq. Qed.

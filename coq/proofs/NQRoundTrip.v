(* NQRoundTrip.v — the N-Triples / N-Quads decoder model reads back what the writer model writes: for every list of
   well-formed quads, decode (encode qs) gives exactly qs and ends without an error, for the ASCII option on and off. *)
From RK Require Import Base BaseFacts Utf8 Runes NQ NQProofs.
From Coq Require Import ZifyN ZifyNat ZifyBool.
Ltac Zify.zify_post_hook ::= Z.div_mod_to_equations.

Definition scalars (s : runes) : Prop := Forall (fun r => is_scalar r = true) s.

Lemma sanitize_scalar r : is_scalar r = true -> sanitize r = r.
Proof. unfold sanitize. intros ->. reflexivity. Qed.

Lemma map_sanitize s : scalars s -> map sanitize s = s.
Proof. induction 1 as [|r s Hr _ IH]; cbn; [reflexivity|]. now rewrite sanitize_scalar, IH. Qed.

Lemma hexd_dec r s : hexv (hexd r s) = Some ((r / s) mod 16)%N.
Proof. unfold hexd. apply hexv_hex_upper. apply N.mod_lt. discriminate. Qed.

Lemma scalar_lt r : is_scalar r = true -> (r < 1114112)%N.
Proof. unfold is_scalar. lia. Qed.

Lemma drs_app a b : drs (a ++ b) = drs a ++ drs b.
Proof. unfold drs. apply map_app. Qed.

(* ---------- IRI bodies ---------- *)
Lemma iri_unit ascii r X dec raw : is_scalar r = true ->
  exists raw', iri_body (drs (esc_iri_rune ascii r) ++ X) dec raw = iri_body X (r :: dec) raw'.
Proof.
  intros Hs. pose proof (scalar_lt r Hs) as Hlt. unfold esc_iri_rune, iri_mode.
  assert (U4 : (r < 65536)%N -> exists raw', iri_body (drs (uchar4 r) ++ X) dec raw = iri_body X (r :: dec) raw').
  { intros H. eexists. unfold uchar4, drs, dr. cbn [map app iri_body fst].
    change (N.eqb 92 62) with false. change (N.eqb 92 92) with true. change (N.eqb 117 117) with true. cbv iota.
    rewrite !hexd_dec.
    replace ((r / 4096) mod 16 * 4096 + (r / 256) mod 16 * 256 + (r / 16) mod 16 * 16 + (r / 1) mod 16)%N with r by lia.
    reflexivity. }
  assert (U8 : exists raw', iri_body (drs (uchar8 r) ++ X) dec raw = iri_body X (r :: dec) raw').
  { eexists. unfold uchar8, drs, dr. cbn [map app iri_body fst].
    change (N.eqb 92 62) with false. change (N.eqb 92 92) with true. change (N.eqb 85 117) with false. change (N.eqb 85 85) with true. cbv iota.
    unfold uchar8_dec. cbn [fst]. rewrite !hexd_dec.
    rewrite hexv_hex_upper by (assert ((r / 268435456) mod 8 < 8)%N by (apply N.mod_lt; discriminate); lia).
    assert (((r / 268435456) mod 8 =? 0)%N = true) as -> by lia.
    assert (((r / 16777216) mod 16 =? 0)%N = true) as -> by lia.
    assert (((r / 1048576) mod 16 <=? 1)%N = true) as -> by lia.
    cbn [andb].
    replace ((r / 1048576) mod 16 * 1048576 + (r / 65536) mod 16 * 65536 + (r / 4096) mod 16 * 4096 + (r / 256) mod 16 * 256 + (r / 16) mod 16 * 16 + (r / 1) mod 16)%N with r by lia.
    reflexivity. }
  destruct (r <=? 32)%N eqn:E1; [apply U4; lia|].
  destruct (N.eqb r 60 || N.eqb r 62 || N.eqb r 34 || N.eqb r 123 || N.eqb r 125 || N.eqb r 124 || N.eqb r 94 || N.eqb r 96 || N.eqb r 92) eqn:E2; [apply U4; lia|].
  assert (Plain : exists raw', iri_body (drs [r] ++ X) dec raw = iri_body X (r :: dec) raw').
  { eexists. unfold drs, dr. cbn [map app iri_body fst].
    assert (N.eqb r 62 = false) as -> by lia. assert (N.eqb r 92 = false) as -> by lia.
    assert (((r <=? 32)%N || N.eqb r 60 || N.eqb r 34 || N.eqb r 123 || N.eqb r 125 || N.eqb r 124 || N.eqb r 94 || N.eqb r 96) = false) as -> by lia.
    reflexivity. }
  destruct ascii; [|exact Plain].
  destruct (65535 <? r)%N eqn:E3; [exact U8|].
  destruct (127 <? r)%N eqn:E4; [apply U4; lia|exact Plain].
Qed.

Lemma iri_units ascii : forall i X dec raw n, scalars i ->
  exists raw', iri_body (drs (flat_map (esc_iri_rune ascii) i) ++ (62%N, n) :: X) dec raw = Ok (rev dec ++ i, raw') [] X.
Proof.
  induction i as [|r i IH]; intros X dec raw n Hs.
  - eexists. cbn [flat_map drs map app iri_body fst]. change (N.eqb 62 62) with true. cbv iota. rewrite app_nil_r. reflexivity.
  - inversion Hs as [|? ? Hr Hs']; subst.
    cbn [flat_map]. rewrite drs_app, <- app_assoc.
    destruct (iri_unit ascii r (drs (flat_map (esc_iri_rune ascii) i) ++ (62%N, n) :: X) dec raw Hr) as (raw1 & E1).
    rewrite E1. destruct (IH X (r :: dec) raw1 n Hs') as (raw2 & E2). exists raw2. rewrite E2.
    cbn [rev]. rewrite <- app_assoc. reflexivity.
Qed.

Definition iri_ok (i : runes) : Prop := scalars i /\ is_absolute i = true.

Lemma open_iri_roundtrip ascii i lt n X : iri_ok i ->
  exists ps, open_iri lt (drs (flat_map (esc_iri_rune ascii) i) ++ (62%N, n) :: X) = POk i ps X.
Proof.
  intros [Hs Ha]. unfold open_iri.
  destruct (iri_units ascii i X [] [lt] n Hs) as (raw & E). rewrite E. cbn [rev app].
  rewrite map_sanitize by exact Hs. rewrite Ha. eexists. reflexivity.
Qed.

(* ---------- string bodies ---------- *)
Lemma lit_unit ascii r X dec raw : is_scalar r = true ->
  exists raw', lit_body (drs (esc_lit_rune ascii r) ++ X) dec raw = lit_body X (r :: dec) raw'.
Proof.
  intros Hs. pose proof (scalar_lt r Hs) as Hlt. unfold esc_lit_rune, lit_mode.
  assert (U4 : (r < 65536)%N -> exists raw', lit_body (drs (uchar4 r) ++ X) dec raw = lit_body X (r :: dec) raw').
  { intros H. eexists. unfold uchar4, drs, dr. cbn [map app lit_body fst N.eqb Pos.eqb].
    change (N.eqb 92 34) with false. change (N.eqb 92 92) with true. change (N.eqb 117 117) with true. cbv iota.
    rewrite !hexd_dec.
    replace ((r / 4096) mod 16 * 4096 + (r / 256) mod 16 * 256 + (r / 16) mod 16 * 16 + (r / 1) mod 16)%N with r by lia.
    reflexivity. }
  assert (U8 : exists raw', lit_body (drs (uchar8 r) ++ X) dec raw = lit_body X (r :: dec) raw').
  { eexists. unfold uchar8, drs, dr. cbn [map app lit_body fst N.eqb Pos.eqb].
    change (N.eqb 92 34) with false. change (N.eqb 92 92) with true. change (N.eqb 85 117) with false. change (N.eqb 85 85) with true. cbv iota.
    unfold uchar8_dec. cbn [fst]. rewrite !hexd_dec.
    rewrite hexv_hex_upper by (assert ((r / 268435456) mod 8 < 8)%N by (apply N.mod_lt; discriminate); lia).
    assert (((r / 268435456) mod 8 =? 0)%N = true) as -> by lia.
    assert (((r / 16777216) mod 16 =? 0)%N = true) as -> by lia.
    assert (((r / 1048576) mod 16 <=? 1)%N = true) as -> by lia.
    cbn [andb].
    replace ((r / 1048576) mod 16 * 1048576 + (r / 65536) mod 16 * 65536 + (r / 4096) mod 16 * 4096 + (r / 256) mod 16 * 256 + (r / 16) mod 16 * 16 + (r / 1) mod 16)%N with r by lia.
    reflexivity. }
  destruct (N.eqb r 8 || N.eqb r 9 || N.eqb r 10 || N.eqb r 12 || N.eqb r 13 || N.eqb r 34 || N.eqb r 92) eqn:E1.
  { clear U4 U8 Hlt Hs.
    destruct (N.eqb_spec r 8) as [->|N8]; [eexists; unfold echar_of, drs, dr; cbn [map app lit_body fst N.eqb Pos.eqb]; reflexivity|].
    destruct (N.eqb_spec r 9) as [->|N9]; [eexists; unfold echar_of, drs, dr; cbn [map app lit_body fst N.eqb Pos.eqb]; reflexivity|].
    destruct (N.eqb_spec r 10) as [->|N10]; [eexists; unfold echar_of, drs, dr; cbn [map app lit_body fst N.eqb Pos.eqb]; reflexivity|].
    destruct (N.eqb_spec r 12) as [->|N12]; [eexists; unfold echar_of, drs, dr; cbn [map app lit_body fst N.eqb Pos.eqb]; reflexivity|].
    destruct (N.eqb_spec r 13) as [->|N13]; [eexists; unfold echar_of, drs, dr; cbn [map app lit_body fst N.eqb Pos.eqb]; reflexivity|].
    destruct (N.eqb_spec r 34) as [->|N34]; [eexists; unfold echar_of, drs, dr; cbn [map app lit_body fst N.eqb Pos.eqb]; reflexivity|].
    destruct (N.eqb_spec r 92) as [->|N92]; [eexists; unfold echar_of, drs, dr; cbn [map app lit_body fst N.eqb Pos.eqb]; reflexivity|].
    cbn in E1. discriminate. }
  destruct ((r <=? 31)%N || N.eqb r 127 || N.eqb r 65534 || N.eqb r 65535) eqn:E2; [apply U4; lia|].
  assert (Plain : exists raw', lit_body (drs [r] ++ X) dec raw = lit_body X (r :: dec) raw').
  { eexists. unfold drs, dr. cbn [map app lit_body fst].
    assert (N.eqb r 34 = false) as -> by lia. assert (N.eqb r 92 = false) as -> by lia. reflexivity. }
  destruct ascii; [|exact Plain].
  destruct (65535 <? r)%N eqn:E3; [exact U8|].
  destruct (127 <? r)%N eqn:E4; [apply U4; lia|exact Plain].
Qed.

Lemma lit_units ascii : forall s X dec raw n, scalars s ->
  exists raw', lit_body (drs (flat_map (esc_lit_rune ascii) s) ++ (34%N, n) :: X) dec raw = Ok (rev dec ++ s, raw') [] X.
Proof.
  induction s as [|r s IH]; intros X dec raw n Hs.
  - eexists. cbn [flat_map drs map app lit_body fst]. change (N.eqb 34 34) with true. cbv iota. rewrite app_nil_r. reflexivity.
  - inversion Hs as [|? ? Hr Hs']; subst.
    cbn [flat_map]. rewrite drs_app, <- app_assoc.
    destruct (lit_unit ascii r (drs (flat_map (esc_lit_rune ascii) s) ++ (34%N, n) :: X) dec raw Hr) as (raw1 & E1).
    rewrite E1. destruct (IH X (r :: dec) raw1 n Hs') as (raw2 & E2). exists raw2. rewrite E2.
    cbn [rev]. rewrite <- app_assoc. reflexivity.
Qed.

(* ---------- language tags ---------- *)
Fixpoint sec_ok (prevdash : bool) (tag : runes) : bool :=
  match tag with
  | [] => true
  | c :: t => if is_alnum c then sec_ok false t else if N.eqb c 45 then negb prevdash && sec_ok true t else false
  end.
Fixpoint prim_ok (empty : bool) (tag : runes) : bool :=
  match tag with
  | [] => negb empty
  | c :: t => if is_alpha c then prim_ok false t else if N.eqb c 45 then negb empty && sec_ok true t else false
  end.
Definition lang_ok (tag : runes) : bool :=
  prim_ok true tag && match rev tag with c :: _ => negb (N.eqb c 45) | [] => false end.

Lemma fst_dr c : fst (dr c) = c. Proof. reflexivity. Qed.

Lemma sec_scan : forall tag (a : drune) (acc : list drune) (X : list drune), sec_ok (N.eqb (fst a) 45) tag = true ->
  lang_secondary (drs tag ++ dr 32 :: X) (a :: acc) = Ok (rev (a :: acc) ++ drs tag) [] (dr 32 :: X).
Proof.
  induction tag as [|c t IH]; intros a acc X H.
  - cbn [drs map app lang_secondary]. rewrite fst_dr. change (is_alnum 32) with false. change (N.eqb 32 45) with false. cbv iota.
    rewrite app_nil_r. reflexivity.
  - cbn [sec_ok] in H. cbn [drs map app lang_secondary]. rewrite !fst_dr.
    destruct (is_alnum c) eqn:Ea.
    + assert (Hc : N.eqb c 45 = false) by (unfold is_alnum, is_alpha, is_digit, rng in Ea; lia).
      change (map dr t) with (drs t).
      pose proof (IH (dr c) (a :: acc) X) as E. rewrite fst_dr, Hc in E. rewrite (E H).
      cbn [rev]. rewrite <- !app_assoc. reflexivity.
    + destruct (N.eqb c 45) eqn:Ed; [|discriminate]. apply andb_prop in H as [Hp H]. apply negb_true_iff in Hp. rewrite Hp.
      change (map dr t) with (drs t).
      pose proof (IH (dr c) (a :: acc) X) as E. rewrite fst_dr, Ed in E. rewrite (E H).
      cbn [rev]. rewrite <- !app_assoc. reflexivity.
Qed.

Lemma prim_scan : forall tag (acc : list drune) (X : list drune), prim_ok (match acc with [] => true | _ => false end) tag = true ->
  lang_primary (drs tag ++ dr 32 :: X) acc = Ok (rev acc ++ drs tag) [] (dr 32 :: X).
Proof.
  induction tag as [|c t IH]; intros acc X H.
  - cbn [drs map app lang_primary]. rewrite fst_dr. change (is_alpha 32) with false. change (N.eqb 32 45) with false. cbv iota.
    rewrite app_nil_r. reflexivity.
  - cbn [prim_ok] in H. cbn [drs map app lang_primary]. rewrite !fst_dr.
    destruct (is_alpha c) eqn:Ea.
    + change (map dr t) with (drs t). rewrite (IH (dr c :: acc) X) by exact H. cbn [rev]. rewrite <- !app_assoc. reflexivity.
    + destruct (N.eqb c 45) eqn:Ed; [|discriminate]. apply andb_prop in H as [Hp H].
      destruct acc as [|a acc]; [discriminate|].
      change (map dr t) with (drs t).
      pose proof (sec_scan t (dr c) (a :: acc) X) as E. rewrite fst_dr, Ed in E. rewrite (E H).
      cbn [rev]. rewrite <- !app_assoc. reflexivity.
Qed.

Lemma map_fst_drs l : map fst (drs l) = l.
Proof. unfold drs, dr. rewrite map_map. cbn. apply map_id. Qed.

Lemma langtag_roundtrip tag at_ X : lang_ok tag = true ->
  exists ps, open_langtag at_ (drs tag ++ dr 32 :: X) = POk tag ps (dr 32 :: X).
Proof.
  unfold lang_ok. intros H. apply andb_prop in H as [Hp Hl]. unfold open_langtag.
  rewrite (prim_scan tag [] X Hp). cbn [rev app].
  destruct tag as [|c t]; [discriminate|].
  assert (Hd : last_is_dash (drs (c :: t)) = false).
  { unfold last_is_dash, drs. rewrite <- map_rev. destruct (rev (c :: t)) as [|x xs]; [discriminate|].
    cbn [map]. unfold dr. cbn [fst]. apply negb_true_iff in Hl. exact Hl. }
  change (drs (c :: t)) with (dr c :: drs t) at 1. cbv iota.
  change (dr c :: drs t) with (drs (c :: t)). rewrite Hd. rewrite map_fst_drs. eexists. reflexivity.
Qed.

(* ---------- blank node labels ---------- *)
Definition bn_ok (l : runes) : bool :=
  match l with
  | [] => false
  | c :: rest => (pn_chars_u_nt c || is_digit c) && forallb (fun x => pn_chars_nt x || N.eqb x 46) rest &&
                 match rev rest with [] => true | z :: _ => pn_chars_nt z end
  end.

Lemma bnode_rest_scan : forall rest (acc : list drune) (X : list drune) t,
  forallb (fun x => pn_chars_nt x || N.eqb x 46) rest = true ->
  bnode_rest (drs rest ++ dr 32 :: X) acc t = Ok (rev acc ++ drs rest) [] (dr 32 :: X).
Proof.
  induction rest as [|c r IH]; intros acc X t H.
  - cbn [drs map app bnode_rest]. rewrite fst_dr. change (pn_chars_nt 32 || N.eqb 32 46) with false. cbv iota.
    rewrite app_nil_r. reflexivity.
  - cbn [forallb] in H. apply andb_prop in H as [Hc H].
    cbn [drs map app bnode_rest]. rewrite fst_dr, Hc. change (map dr r) with (drs r).
    rewrite (IH (dr c :: acc) X t H). cbn [rev]. rewrite <- !app_assoc. reflexivity.
Qed.

Lemma pn_not_dot z : pn_chars_nt z = true -> N.eqb z 46 = false.
Proof. intros H. destruct (N.eqb_spec z 46) as [->|]; [vm_compute in H; discriminate|reflexivity]. Qed.

Lemma bnode_roundtrip l us colon X t : bn_ok l = true ->
  exists ps, open_bnode us colon (drs l ++ dr 32 :: X) t = POk (TBlank l) ps (dr 32 :: X).
Proof.
  destruct l as [|c rest]; [discriminate|]. cbn [bn_ok]. intros H.
  apply andb_prop in H as [H Hlast]. apply andb_prop in H as [Hc Hrest].
  unfold open_bnode. cbn [drs map app]. rewrite fst_dr, Hc. change (map dr rest) with (drs rest).
  rewrite (bnode_rest_scan rest [dr c] X t Hrest). cbn [rev app].
  change (dr c :: drs rest) with (drs (c :: rest)).
  destruct rest as [|r1 rs].
  - cbn [drs map rev app]. eexists. reflexivity.
  - unfold drs at 1. rewrite <- map_rev. fold drs.
    destruct (rev (r1 :: rs)) as [|z w] eqn:E2; [cbn [rev] in E2; destruct (rev rs); discriminate|].
    cbn [map app]. destruct (map dr w ++ [dr c]) as [|b1 bs] eqn:Eb; [destruct (map dr w); discriminate|].
    rewrite fst_dr, (pn_not_dot z Hlast).
    unfold drs at 1. rewrite <- map_rev. cbn [rev]. change (rev rs ++ [r1]) with (rev (r1 :: rs)). rewrite E2.
    cbn [app map]. rewrite fst_dr, Hlast. rewrite map_fst_drs. eexists. reflexivity.
Qed.

(* ---------- literals ---------- *)
Definition lit_ok (lex dt : runes) (lang : option runes) : Prop :=
  scalars lex /\
  ((dt = xsd_string /\ lang = None) \/
   (dt = rdf_langString /\ exists l, lang = Some l /\ lang_ok l = true) \/
   (beq dt xsd_string = false /\ beq dt rdf_langString = false /\ beq dt rdf_dirLangString = false /\ lang = None /\ iri_ok dt)).

Ltac rw_lit E := match type of E with _ = ?r => match goal with |- context [lit_body ?a ?b ?c] => replace (lit_body a b c) with r by (symmetry; exact E) end end.
Ltac rw_tag E := match type of E with _ = ?r => match goal with |- context [open_langtag ?a ?b] => replace (open_langtag a b) with r by (symmetry; exact E) end end.
Ltac rw_iri E := match type of E with _ = ?r => match goal with |- context [open_iri ?a ?b] => replace (open_iri a b) with r by (symmetry; exact E) end end.

Lemma literal_roundtrip ascii lex dt lang qt X t : lit_ok lex dt lang ->
  exists ps, open_literal qt (drs (tl (write_literal ascii lex dt lang)) ++ dr 32 :: X) t = POk (TLit lex dt lang) ps (dr 32 :: X).
Proof.
  intros [Hs Hk]. unfold write_literal. cbn [tl]. unfold open_literal.
  rewrite !drs_app, <- !app_assoc. cbn [drs map app]. fold (drs).
  change (dr 34) with (34%N, rune_size 34).
  destruct Hk as [[-> ->]|[[-> (l & -> & Hl)]|(N1 & N2 & N3 & -> & Hdt)]].
  - change (beq xsd_string xsd_string) with true. cbv iota. cbn [drs map app].
    destruct (lit_units ascii lex (dr 32 :: X) [] [qt] (rune_size 34) Hs) as (raw & E). rw_lit E. cbn [rev app].
    rewrite map_sanitize by exact Hs. rewrite fst_dr. change (N.eqb 32 64) with false. change (N.eqb 32 94) with false. cbv iota.
    eexists. reflexivity.
  - change (beq rdf_langString xsd_string) with false. change (beq rdf_langString rdf_langString) with true. cbv iota.
    cbn [drs map app]. change (map dr l) with (drs l).
    destruct (lit_units ascii lex (dr 64 :: drs l ++ dr 32 :: X) [] [qt] (rune_size 34) Hs) as (raw & E). rw_lit E. cbn [rev app].
    rewrite map_sanitize by exact Hs. rewrite fst_dr. change (N.eqb 64 64) with true. cbv iota.
    destruct (langtag_roundtrip l (dr 64) X Hl) as (ps & E2). rw_tag E2. eexists. reflexivity.
  - rewrite N1, N2. unfold write_iri. cbn [app drs map]. rewrite !map_app. cbn [map]. change (map dr) with drs. rewrite <- !app_assoc. cbn [app].
    destruct (lit_units ascii lex (dr 94 :: dr 94 :: dr 60 :: drs (flat_map (esc_iri_rune ascii) dt) ++ dr 62 :: dr 32 :: X) [] [qt] (rune_size 34) Hs) as (raw & E).
    rw_lit E. cbn [rev app]. rewrite map_sanitize by exact Hs.
    rewrite !fst_dr. change (N.eqb 94 64) with false. change (N.eqb 94 94) with true. change (N.eqb 60 60) with true. cbn [negb]. cbv iota.
    change (dr 62) with (62%N, rune_size 62).
    destruct (open_iri_roundtrip ascii dt (dr 60) (rune_size 62) (dr 32 :: X) Hdt) as (ps & E2). rw_iri E2.
    rewrite N2, N3. cbn [orb]. eexists. reflexivity.
Qed.

(* ---------- terms ---------- *)
Definition term_ok (t : term) : Prop :=
  match t with TIri i => iri_ok i | TBlank l => bn_ok l = true | TLit lex dt lang => lit_ok lex dt lang end.
Definition is_lit (t : term) : bool := match t with TLit _ _ _ => true | _ => false end.
Definition is_iri (t : term) : bool := match t with TIri _ => true | _ => false end.

Definition kind_ok (k : pos_kind) (t : term) : Prop :=
  match k with
  | KPredicate => is_iri t = true
  | KObject => True
  | _ => is_lit t = false
  end.

Ltac rw_bn E := match type of E with _ = ?r => match goal with |- context [open_bnode ?a ?b ?c ?d] => replace (open_bnode a b c d) with r by (symmetry; exact E) end end.
Ltac rw_olit E := match type of E with _ = ?r => match goal with |- context [open_literal ?a ?b ?c] => replace (open_literal a b c) with r by (symmetry; exact E) end end.

Lemma capture_term ascii k t f X tr : term_ok t -> kind_ok k t ->
  exists ps, capture (S f) k (drs (write_term ascii t) ++ dr 32 :: X) TEof tr = Ok t (tr ++ [CTerm ps]) (dr 32 :: X).
Proof.
  intros Hok Hk. destruct t as [i|l|lex dt lang]; cbn [term_ok write_term] in *.
  - unfold write_iri. cbn [drs map app]. rewrite map_app. cbn [map]. change (map dr) with drs. rewrite <- app_assoc. cbn [app].
    cbn [capture]. rewrite fst_dr. change (N.eqb 60 60) with true. cbv iota.
    change (dr 62) with (62%N, rune_size 62).
    destruct (open_iri_roundtrip ascii i (dr 60) (rune_size 62) (dr 32 :: X) Hok) as (ps & E). rw_iri E.
    exists ps. reflexivity.
  - cbn [drs map app]. cbn [capture]. rewrite !fst_dr. change (N.eqb 95 60) with false. change (N.eqb 95 95) with true.
    assert (Hp : negb (match k with KPredicate => true | _ => false end) = true) by (destruct k; cbn in Hk; try reflexivity; discriminate).
    rewrite Hp. cbn [andb]. change (N.eqb 58 58) with true. cbv iota. change (map dr l) with (drs l).
    destruct (bnode_roundtrip l (dr 95) (dr 58) X TEof Hok) as (ps & E). rw_bn E. exists ps. reflexivity.
  - assert (Hkk : k = KObject) by (destruct k; cbn in Hk; try reflexivity; discriminate). subst k.
    destruct (literal_roundtrip ascii lex dt lang (dr 34) X TEof Hok) as (ps & E).
    unfold write_literal in *. cbn [tl] in E. cbn [drs map app]. cbn [capture]. rewrite fst_dr.
    change (N.eqb 34 60) with false. change (N.eqb 34 95) with false. change (N.eqb 34 34) with true. cbn [andb]. cbv iota.
    change (map dr) with drs. rw_olit E. exists ps. reflexivity.
Qed.

Lemma capture_space k f X tr : capture (S f) k (dr 32 :: X) TEof tr = capture f k X TEof (tr ++ [CPlain [dr 32]]).
Proof. cbn [capture]. rewrite fst_dr. reflexivity. Qed.

(* ---------- statements ---------- *)
Definition quad_ok (nq : bool) (q : quad) : Prop :=
  term_ok (q_s q) /\ is_lit (q_s q) = false /\ term_ok (q_p q) /\ is_iri (q_p q) = true /\ term_ok (q_o q) /\
  match q_g q with
  | None => True
  | Some g => nq = true /\ term_ok g /\ is_lit g = false
  end.

Ltac rw_cap E := match type of E with _ = ?r => match goal with |- context [capture ?a ?b ?c ?d ?e] => replace (capture a b c d e) with r by (symmetry; exact E) end end.

Lemma after_object_plain f nq hg Y tr :
  exists tr', after_object (S (S f)) nq hg (dr 32 :: dr 46 :: Y) TEof tr = Ok None tr' Y.
Proof. eexists. cbn [after_object]. rewrite !fst_dr. reflexivity. Qed.

Lemma first_rune_term ascii t : is_lit t = false -> term_ok t ->
  exists c rest, write_term ascii t = c :: rest /\ (c = 60 \/ c = 95)%N.
Proof.
  destruct t as [i|l|? ? ?]; cbn; intros H Hok; try discriminate.
  - eexists _, _. split; [reflexivity|left; reflexivity].
  - eexists _, _. split; [reflexivity|right; reflexivity].
Qed.

Lemma after_object_graph ascii f g Y tr : term_ok g -> is_lit g = false ->
  exists tr', after_object (S (S (S (S f)))) true false (dr 32 :: drs (write_term ascii g) ++ dr 32 :: dr 46 :: Y) TEof tr = Ok (Some g) tr' Y.
Proof.
  intros Hok Hl.
  destruct (first_rune_term ascii g Hl Hok) as (c & rest & Ew & Hc).
  cbn [after_object]. rewrite fst_dr. change (N.eqb 32 46) with false. change (N.eqb 32 35) with false. change (is_space 32) with true. cbv iota.
  rewrite Ew. cbn [drs map app]. rewrite fst_dr.
  assert (N.eqb c 46 = false) as -> by (destruct Hc; subst; reflexivity).
  assert (N.eqb c 35 = false) as -> by (destruct Hc; subst; reflexivity).
  assert (is_space c = false) as -> by (destruct Hc; subst; reflexivity).
  cbn [andb negb]. cbv iota.
  change (dr c :: map dr rest ++ dr 32 :: dr 46 :: Y) with (drs (c :: rest) ++ dr 32 :: dr 46 :: Y). rewrite <- Ew.
  destruct (capture_term ascii KGraph g (length (drs (write_term ascii g) ++ dr 32 :: dr 46 :: Y)) (dr 46 :: Y) [] Hok Hl) as (ps & E).
  rw_cap E. cbn [after_object]. rewrite !fst_dr.
  change (N.eqb 32 46) with false. change (N.eqb 32 35) with false. change (is_space 32) with true. change (N.eqb 46 46) with true. cbv iota.
  eexists. reflexivity.
Qed.

Ltac rw_ao E := match type of E with _ = ?r => match goal with |- context [after_object ?a ?b ?c ?d ?e ?f] => replace (after_object a b c d e f) with r by (symmetry; exact E) end end.

Lemma quad_layout ascii q Y :
  drs (write_quad ascii q) ++ Y =
  drs (write_term ascii (q_s q)) ++ dr 32 :: drs (write_term ascii (q_p q)) ++ dr 32 :: drs (write_term ascii (q_o q)) ++
  match q_g q with Some g => dr 32 :: drs (write_term ascii g) ++ dr 32 :: dr 46 :: dr 10 :: Y | None => dr 32 :: dr 46 :: dr 10 :: Y end.
Proof.
  unfold write_quad. rewrite !drs_app. cbn [drs map]. rewrite <- !app_assoc. cbn [app].
  destruct (q_g q); cbn [drs map app]; rewrite <- ?app_assoc; reflexivity.
Qed.

Lemma statement_roundtrip ascii nq q Y tr0 : quad_ok nq q ->
  exists tr', statement nq (drs (write_quad ascii q) ++ Y) TEof tr0 = Ok q tr' (dr 10 :: Y).
Proof.
  intros (Hs & Hsl & Hp & Hpi & Ho & Hg).
  unfold statement. rewrite quad_layout.
  set (tail := match q_g q with Some g => dr 32 :: drs (write_term ascii g) ++ dr 32 :: dr 46 :: dr 10 :: Y | None => dr 32 :: dr 46 :: dr 10 :: Y end).
  assert (Hlen : exists f, length (drs (write_term ascii (q_s q)) ++ dr 32 :: drs (write_term ascii (q_p q)) ++ dr 32 :: drs (write_term ascii (q_o q)) ++ tail) = S (S (S (S f)))).
  { assert (Ht : 3 <= length tail).
    { unfold tail. destruct (q_g q); cbn [length]; [rewrite app_length; cbn [length]|]; lia. }
    match goal with |- exists f, length ?L = _ => assert (H4 : 4 <= length L) end.
    { rewrite app_length. cbn [length]. rewrite app_length. cbn [length]. rewrite app_length. lia. }
    match goal with |- exists f, ?n = _ => destruct n as [|[|[|[|f]]]]; try lia; exists f; reflexivity end. }
  destruct Hlen as (f & ->).
  destruct (capture_term ascii KSubject (q_s q) (S (S (S (S f)))) (drs (write_term ascii (q_p q)) ++ dr 32 :: drs (write_term ascii (q_o q)) ++ tail) tr0 Hs Hsl) as (ps1 & E1).
  rw_cap E1.
  rewrite capture_space.
  destruct (capture_term ascii KPredicate (q_p q) (S (S (S f))) (drs (write_term ascii (q_o q)) ++ tail) ((tr0 ++ [CTerm ps1]) ++ [CPlain [dr 32]]) Hp Hpi) as (ps2 & E2).
  rw_cap E2.
  rewrite capture_space.
  assert (Htail : exists X, tail = dr 32 :: X) by (unfold tail; destruct (q_g q); eauto).
  destruct Htail as (X & EX). rewrite EX.
  destruct (capture_term ascii KObject (q_o q) (S (S (S f))) X ((((tr0 ++ [CTerm ps1]) ++ [CPlain [dr 32]]) ++ [CTerm ps2]) ++ [CPlain [dr 32]]) Ho I) as (ps3 & E3).
  rw_cap E3. rewrite <- EX. unfold tail.
  destruct q as [s p o [g|]]; cbn [q_g q_s q_p q_o] in *.
  - destruct Hg as (-> & Hgok & Hgl).
    destruct (after_object_graph ascii (S f) g (dr 10 :: Y) (((((tr0 ++ [CTerm ps1]) ++ [CPlain [dr 32]]) ++ [CTerm ps2]) ++ [CPlain [dr 32]]) ++ [CTerm ps3]) Hgok Hgl) as (tr' & E4).
    rw_ao E4. exists tr'. reflexivity.
  - destruct (after_object_plain (S (S (S f))) nq false (dr 10 :: Y) (((((tr0 ++ [CTerm ps1]) ++ [CPlain [dr 32]]) ++ [CTerm ps2]) ++ [CPlain [dr 32]]) ++ [CTerm ps3])) as (tr' & E4).
    rw_ao E4. exists tr'. reflexivity.
Qed.

(* ---------- documents ---------- *)
Definition from_gstart (f : nat) (nq : bool) (tr1 : list cev) (r1 : list drune) : list stmt * verdict :=
  match before_statement (S (length r1)) r1 TEof tr1 with
  | GEnd _ => ([], VOk)
  | GErr => ([], VSyntax)
  | GIo => ([], VIo)
  | GFuel => ([], VFuel)
  | GStart tr2 r2 =>
      match statement nq r2 TEof tr2 with
      | Ok q tr3 r3 => let '(l, v) := decode_loop f nq false r3 TEof in (Stmt q tr3 :: l, v)
      | Eof => ([], VSyntax)
      | Bad => ([], VSyntax)
      | Fuel => ([], VFuel)
      end
  end.

Lemma loop_first f nq inp : decode_loop (S f) nq true inp TEof = from_gstart f nq [] inp.
Proof. reflexivity. Qed.

Lemma loop_next f nq r : decode_loop (S f) nq false (dr 10 :: r) TEof = from_gstart f nq ([] ++ [CPlain [dr 10]]) r.
Proof. cbn [decode_loop after_statement]. rewrite fst_dr. reflexivity. Qed.

Ltac rw_st E := match type of E with _ = ?r => match goal with |- context [statement ?a ?b ?c ?d] => replace (statement a b c d) with r by (symmetry; exact E) end end.

Lemma before_statement_term ascii q Y f tr : quad_ok false q \/ quad_ok true q ->
  before_statement (S f) (drs (write_quad ascii q) ++ Y) TEof tr = GStart tr (drs (write_quad ascii q) ++ Y).
Proof.
  intros H. assert (Hs : term_ok (q_s q) /\ is_lit (q_s q) = false) by (destruct H as [H|H]; destruct H as (? & ? & _); auto).
  destruct Hs as [Hs Hl]. destruct (first_rune_term ascii (q_s q) Hl Hs) as (c & rest & Ew & Hc).
  unfold write_quad. rewrite Ew. cbn [app drs map]. cbn [before_statement]. rewrite fst_dr.
  assert (N.eqb c 35 = false) as -> by (destruct Hc; subst; reflexivity).
  assert (is_space c = false) as -> by (destruct Hc; subst; reflexivity).
  reflexivity.
Qed.

Theorem from_gstart_roundtrip ascii nq : forall qs f tr1, length qs <= f -> Forall (quad_ok nq) qs ->
  exists stmts, from_gstart f nq tr1 (drs (encode ascii qs)) = (stmts, VOk) /\ map st_quad stmts = qs.
Proof.
  induction qs as [|q qs IH]; intros f tr1 Hf Hok.
  - exists []. split; reflexivity.
  - inversion Hok as [|? ? Hq Hqs]; subst.
    cbn [encode flat_map]. rewrite drs_app. unfold from_gstart.
    rewrite (before_statement_term ascii q (drs (flat_map (write_quad ascii) qs)) _ tr1) by (destruct nq; auto).
    destruct (statement_roundtrip ascii nq q (drs (flat_map (write_quad ascii) qs)) tr1 Hq) as (tr' & E). rw_st E.
    destruct f as [|f]; [cbn in Hf; lia|].
    rewrite loop_next.
    destruct (IH f ([] ++ [CPlain [dr 10]]) ltac:(cbn in Hf; lia) Hqs) as (stmts & E2 & E3).
    fold (encode ascii qs). rewrite E2. exists (Stmt q tr' :: stmts). split; [reflexivity|]. cbn [map st_quad]. rewrite E3. reflexivity.
Qed.

Lemma encode_length ascii qs : length qs <= length (encode ascii qs).
Proof.
  induction qs as [|q qs IH]; [cbn; lia|]. cbn [encode flat_map length]. rewrite app_length.
  assert (1 <= length (write_quad ascii q)).
  { unfold write_quad. rewrite !app_length. destruct (q_g q); cbn [length]; lia. }
  fold (encode ascii qs). lia.
Qed.

(* decode (encode qs) = qs, and the document ends without an error *)
Theorem decode_encode ascii nq qs : Forall (quad_ok nq) qs ->
  exists stmts, decode nq (drs (encode ascii qs)) TEof = (stmts, VOk) /\ map st_quad stmts = qs.
Proof.
  intros Hok. unfold decode. rewrite loop_first.
  apply from_gstart_roundtrip; [|exact Hok].
  unfold drs. rewrite map_length. apply encode_length.
Qed.

(* NQTurtleTok.v — the terminals N-Triples shares with Turtle, across the two scanner families:
   whatever the N-Triples / N-Quads scanners (captureOpenIRI, captureOpenLiteral) accept, the Turtle / TriG scanners
   (produceIRIREF, produceString) read as the same characters and stop at the same place. *)
From RK Require Import Base BaseFacts Utf8 Runes NQ NQProofs TurtleTok TurtleStrProofs.
From Coq Require Import ZifyN ZifyNat ZifyBool Lia.
Ltac Zify.zify_post_hook ::= Z.div_mod_to_equations.

Definition dscalars (inp : list drune) : Prop := Forall (fun r => is_scalar (fst r) = true) inp.

(* ---------- UTF-8 decoding only produces scalar values ---------- *)
Lemma decode_rune_scalar bs r n rest : decode_rune bs = Some (r, n, rest) -> is_scalar r = true.
Proof.
  unfold decode_rune. destruct bs as [|b0 r0]; [discriminate|].
  assert (HE : is_scalar RuneError = true) by reflexivity.
  destruct (b0 <? 128)%N eqn:E1; [intros [= <- _ _]; unfold is_scalar; lia|].
  destruct (b0 <? 194)%N eqn:E2; [intros [= <- _ _]; exact HE|].
  destruct (b0 <? 224)%N eqn:E3.
  { destruct r0 as [|b1 r1]; [intros [= <- _ _]; exact HE|].
    destruct (cont b1); intros [= <- _ _]; [unfold is_scalar; lia|exact HE]. }
  destruct (b0 <? 240)%N eqn:E4.
  { destruct r0 as [|b1 [|b2 r2]]; try (intros [= <- _ _]; exact HE).
    destruct (in_rng _ _ b1 && cont b2) eqn:Ec; intros [= <- _ _]; [|exact HE].
    unfold in_rng, cont in Ec. unfold is_scalar.
    destruct (N.eqb b0 224) eqn:Ea, (N.eqb b0 237) eqn:Eb; lia. }
  destruct (b0 <? 245)%N eqn:E5; [|intros [= <- _ _]; exact HE].
  destruct r0 as [|b1 [|b2 [|b3 r3]]]; try (intros [= <- _ _]; exact HE).
  destruct (in_rng _ _ b1 && cont b2 && cont b3) eqn:Ec; intros [= <- _ _]; [|exact HE].
  unfold in_rng, cont in Ec. unfold is_scalar.
  destruct (N.eqb b0 240) eqn:Ea, (N.eqb b0 244) eqn:Eb; lia.
Qed.

Lemma utf8_decode_fuel_scalars f : forall bs, dscalars (utf8_decode_fuel f bs).
Proof.
  induction f as [|f IH]; intros bs; cbn [utf8_decode_fuel]; [constructor|].
  destruct (decode_rune bs) as [[[r n] rest]|] eqn:E; [|constructor].
  constructor; [eapply decode_rune_scalar; exact E|apply IH].
Qed.

Lemma utf8_decode_scalars bs : dscalars (utf8_decode bs).
Proof. apply utf8_decode_fuel_scalars. Qed.

(* ---------- the escape decoders agree ---------- *)
Lemma uchar8_agree a b c d e f g h v x y z (rest2 : list drune) :
  uchar8_dec [a; b; c; d; e; f; g; h] = Ok (v, x) y z ->
  uchar8_n (fst a :: fst b :: fst c :: fst d :: fst e :: fst f :: fst g :: fst h :: map fst rest2) = Some (v, map fst rest2).
Proof.
  unfold uchar8_dec, uchar8_n.
  destruct (hexv (fst a)), (hexv (fst b)), (hexv (fst c)), (hexv (fst d)), (hexv (fst e)), (hexv (fst f)), (hexv (fst g)), (hexv (fst h));
    try discriminate.
  destruct (_ && _ && _); [|discriminate]. intros [= <- _ _ _]. reflexivity.
Qed.

Lemma not_ok_guard {A B} (r : res A) (v : B) tr rest : (match r with Eof => Eof | _ => Bad end : res B) = Ok v tr rest -> False.
Proof. destruct r; discriminate. Qed.

(* ---------- IRIREF ---------- *)
Lemma iri_sim n : forall inp dec raw d rw tr rest f,
  length inp <= n -> n < f -> dscalars inp ->
  iri_body inp dec raw = Ok (d, rw) tr rest ->
  iriref_body f (map fst inp) (map sanitize dec) = Some (map sanitize d, map fst rest).
Proof.
  induction n as [|n IH]; intros inp dec raw d rw tr rest f Hl Hf Hsc H.
  - destruct inp; [discriminate|simpl in Hl; lia].
  - destruct inp as [|r0 rest0]; [discriminate|]. destruct f as [|f]; [lia|].
    cbn [iri_body] in H. cbn [map iriref_body]. simpl in Hl.
    pose proof (Forall_inv Hsc) as Hs0. cbn beta in Hs0.
    destruct (N.eqb (fst r0) 62) eqn:E62.
    { injection H as <- _ _ <-. now rewrite map_rev. }
    destruct (N.eqb (fst r0) 92) eqn:E92.
    { destruct rest0 as [|r1 rest1]; [discriminate|]. cbn [map]. simpl in Hl.
      destruct (N.eqb (fst r1) 117) eqn:Eu.
      { destruct rest1 as [|a [|b [|c [|dd rest2]]]]; try (exfalso; revert H; clear; destruct (uchar4_dec _); discriminate).
        destruct (hexv (fst a)) eqn:Ha, (hexv (fst b)) eqn:Hb, (hexv (fst c)) eqn:Hc, (hexv (fst dd)) eqn:Hd; try discriminate.
        cbn [map uchar4_n]. rewrite Ha, Hb, Hc, Hd.
        apply (IH rest2 _ _ d rw tr rest f) in H; [exact H|simpl in Hl; lia|lia|].
        repeat apply Forall_inv_tail in Hsc. exact Hsc. }
      destruct (N.eqb (fst r1) 85) eqn:EU; [|discriminate].
      destruct rest1 as [|a [|b [|c [|dd [|e [|ff [|g [|h rest2]]]]]]]]; try (exfalso; revert H; clear; destruct (uchar8_dec _); discriminate).
      destruct (uchar8_dec [a; b; c; dd; e; ff; g; h]) as [[v x] y z| | |] eqn:E8; try discriminate.
      cbn [map]. rewrite (uchar8_agree _ _ _ _ _ _ _ _ _ _ _ _ rest2 E8).
      apply (IH rest2 _ _ d rw tr rest f) in H; [exact H|simpl in Hl; lia|lia|].
      repeat apply Forall_inv_tail in Hsc. exact Hsc. }
    match type of H with (if ?c then _ else _) = _ => destruct c eqn:Ebad end; [discriminate|].
    assert (Et : ((fst r0 <=? 32)%N || memN (fst r0) [60; 34; 123; 125; 124; 94; 96]%N) = false).
    { unfold memN. cbn [existsb]. lia. }
    rewrite Et.
    apply (IH rest0 _ _ d rw tr rest f) in H; [|lia|lia|now apply Forall_inv_tail in Hsc].
    cbn [map] in H. rewrite (sanitize_scalar _ Hs0) in H. exact H.
Qed.

(* captureOpenIRI accepts => produceIRIREF reads the same characters up to the same '>' *)
Theorem nt_iriref_is_turtle lt inp v ps rest :
  dscalars inp -> open_iri lt inp = POk v ps rest ->
  lex_iriref (map fst inp) = Some (v, map fst rest).
Proof.
  intros Hsc. unfold open_iri. destruct (iri_body inp [] [lt]) as [[dec raw] tr r| | |] eqn:E; try discriminate.
  destruct (is_absolute (map sanitize dec)); [|discriminate]. intros [= <- _ <-].
  unfold lex_iriref. apply (iri_sim (length inp) inp [] [lt] dec raw tr r); [apply le_n|rewrite map_length; apply le_n|exact Hsc|exact E].
Qed.

(* ---------- STRING_LITERAL_QUOTE ---------- *)
Lemma lit_sim n : forall inp dec raw d rw tr rest f,
  length inp <= n -> n < f -> dscalars inp ->
  lit_body inp dec raw = Ok (d, rw) tr rest ->
  str_body f 34 false (map fst inp) (map sanitize dec) = Some (map sanitize d, map fst rest).
Proof.
  induction n as [|n IH]; intros inp dec raw d rw tr rest f Hl Hf Hsc H.
  - destruct inp; [discriminate|simpl in Hl; lia].
  - destruct inp as [|r0 rest0]; [discriminate|]. destruct f as [|f]; [lia|].
    cbn [lit_body] in H. cbn [map str_body]. simpl in Hl.
    pose proof (Forall_inv Hsc) as Hs0. cbn beta in Hs0.
    destruct (N.eqb (fst r0) 34) eqn:E34.
    { injection H as <- _ _ <-. cbn [negb]. now rewrite map_rev. }
    cbn [orb].
    destruct (N.eqb (fst r0) 39) eqn:E39.
    { assert (E92 : N.eqb (fst r0) 92 = false) by lia. rewrite E92 in H.
      apply (IH rest0 _ _ d rw tr rest f) in H; [|lia|lia|now apply Forall_inv_tail in Hsc].
      cbn [map] in H. rewrite (sanitize_scalar _ Hs0) in H. exact H. }
    destruct (N.eqb (fst r0) 92) eqn:E92.
    { destruct rest0 as [|r1 rest1]; [discriminate|]. cbn [map]. simpl in Hl. cbv zeta in H.
      destruct (N.eqb (fst r1) 117) eqn:Eu.
      { destruct rest1 as [|a [|b [|c [|dd rest2]]]]; try (exfalso; revert H; clear; destruct (uchar4_dec _); discriminate).
        destruct (hexv (fst a)) eqn:Ha, (hexv (fst b)) eqn:Hb, (hexv (fst c)) eqn:Hc, (hexv (fst dd)) eqn:Hd; try discriminate.
        cbn [map uchar4_n]. rewrite Ha, Hb, Hc, Hd.
        apply (IH rest2 _ _ d rw tr rest f) in H; [exact H|simpl in Hl; lia|lia|].
        repeat apply Forall_inv_tail in Hsc. exact Hsc. }
      destruct (N.eqb (fst r1) 85) eqn:EU.
      { destruct rest1 as [|a [|b [|c [|dd [|e [|ff [|g [|h rest2]]]]]]]]; try (exfalso; revert H; clear; destruct (uchar8_dec _); discriminate).
        destruct (uchar8_dec [a; b; c; dd; e; ff; g; h]) as [[v x] y z| | |] eqn:E8; try discriminate.
        cbn [map]. rewrite (uchar8_agree _ _ _ _ _ _ _ _ _ _ _ _ rest2 E8).
        apply (IH rest2 _ _ d rw tr rest f) in H; [exact H|simpl in Hl; lia|lia|].
        repeat apply Forall_inv_tail in Hsc. exact Hsc. }
      assert (Hs1 : dscalars rest1) by (repeat apply Forall_inv_tail in Hsc; exact Hsc).
      unfold echar_val.
      destruct (N.eqb (fst r1) 116) eqn:E1; [apply (IH rest1 _ _ d rw tr rest f) in H; [exact H|lia|lia|exact Hs1]|].
      destruct (N.eqb (fst r1) 98) eqn:E2; [apply (IH rest1 _ _ d rw tr rest f) in H; [exact H|lia|lia|exact Hs1]|].
      destruct (N.eqb (fst r1) 110) eqn:E3; [apply (IH rest1 _ _ d rw tr rest f) in H; [exact H|lia|lia|exact Hs1]|].
      destruct (N.eqb (fst r1) 114) eqn:E4; [apply (IH rest1 _ _ d rw tr rest f) in H; [exact H|lia|lia|exact Hs1]|].
      destruct (N.eqb (fst r1) 102) eqn:E5; [apply (IH rest1 _ _ d rw tr rest f) in H; [exact H|lia|lia|exact Hs1]|].
      destruct (N.eqb (fst r1) 34) eqn:E6.
      { cbn [orb]. apply (IH rest1 _ _ d rw tr rest f) in H; [|lia|lia|exact Hs1].
        cbn [map] in H. change (sanitize 34) with 34%N in H. apply N.eqb_eq in E6. rewrite E6. exact H. }
      destruct (N.eqb (fst r1) 39) eqn:E7.
      { cbn [orb]. apply (IH rest1 _ _ d rw tr rest f) in H; [|lia|lia|exact Hs1].
        cbn [map] in H. change (sanitize 39) with 39%N in H. apply N.eqb_eq in E7. rewrite E7. exact H. }
      destruct (N.eqb (fst r1) 92) eqn:E8; [|discriminate].
      cbn [orb]. apply (IH rest1 _ _ d rw tr rest f) in H; [|lia|lia|exact Hs1].
      cbn [map] in H. change (sanitize 92) with 92%N in H. apply N.eqb_eq in E8. rewrite E8. exact H. }
    apply (IH rest0 _ _ d rw tr rest f) in H; [|lia|lia|now apply Forall_inv_tail in Hsc].
    cbn [map] in H. rewrite (sanitize_scalar _ Hs0) in H. exact H.
Qed.

(* the string body captureOpenLiteral accepts (after the opening quote) is read by produceString as the same
   characters, stopping after the same closing quote; an empty string followed by a third quote is excluded: that is
   the opening of a long string in Turtle and a syntax error in N-Triples *)
Theorem nt_string_is_turtle inp raw0 d rw tr rest :
  dscalars inp -> lit_body inp [] raw0 = Ok (d, rw) tr rest ->
  (d = [] -> match rest with r :: _ => fst r <> 34%N | [] => True end) ->
  lex_string 34 (map fst inp) = Some (map sanitize d, map fst rest).
Proof.
  intros Hsc H Hq. unfold lex_string. destruct inp as [|r0 rest0]; [discriminate|]. cbn [map].
  destruct (N.eqb (fst r0) 34) eqn:E34.
  - cbn [lit_body] in H. rewrite E34 in H. injection H as <- _ _ <-. cbn [rev map].
    specialize (Hq eq_refl). destruct rest0 as [|r1 rest1]; [reflexivity|]. cbn [map].
    destruct (N.eqb (fst r1) 34) eqn:E; [apply N.eqb_eq in E; contradiction|reflexivity].
  - change (fst r0 :: map fst rest0) with (map fst (r0 :: rest0)).
    apply (lit_sim (length (r0 :: rest0)) (r0 :: rest0) [] raw0 d rw tr rest); [apply le_n|rewrite map_length; apply le_n|exact Hsc|exact H].
Qed.

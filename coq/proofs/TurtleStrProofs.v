(* TurtleStrProofs.v — the string and IRIREF tokens the Turtle encoder writes are read back by the decoder's
   produceString / produceIRIREF as the same rune sequence, for ascii mode on and off. *)
From RK Require Import Base BaseFacts Utf8 Runes NQ NQProofs TurtleTok.
From Coq Require Import ZifyN ZifyNat ZifyBool.
Ltac Zify.zify_post_hook ::= Z.div_mod_to_equations.

Definition scalars (s : list N) : Prop := Forall (fun r => is_scalar r = true) s.

Lemma sanitize_scalar r : is_scalar r = true -> sanitize r = r.
Proof. unfold sanitize. intros ->. reflexivity. Qed.

Lemma hexd_dec r s : hexv (hexd r s) = Some ((r / s) mod 16)%N.
Proof. unfold hexd. apply hexv_hex_upper. apply N.mod_lt. discriminate. Qed.

Lemma uchar4_roundtrip r X : (r < 65536)%N ->
  uchar4_n ([hexd r 4096; hexd r 256; hexd r 16; hexd r 1] ++ X) = Some (r, X).
Proof.
  intros H. cbn [app uchar4_n]. rewrite !hexd_dec. f_equal. f_equal. lia.
Qed.

Lemma uchar8_roundtrip r X : (r < 1114112)%N ->
  uchar8_n ([hex_upper ((r / 268435456) mod 8); hexd r 16777216; hexd r 1048576; hexd r 65536; hexd r 4096; hexd r 256; hexd r 16; hexd r 1] ++ X) = Some (r, X).
Proof.
  intros H. cbn [app uchar8_n]. rewrite !hexd_dec.
  rewrite hexv_hex_upper by (assert ((r / 268435456) mod 8 < 8)%N by (apply N.mod_lt; discriminate); lia).
  assert (((r / 268435456) mod 8 =? 0)%N = true) as -> by lia.
  assert (((r / 16777216) mod 16 =? 0)%N = true) as -> by lia.
  assert (((r / 1048576) mod 16 <=? 1)%N = true) as -> by lia.
  cbn [andb]. f_equal. f_equal. lia.
Qed.

Lemma scalar_lt r : is_scalar r = true -> (r < 1114112)%N.
Proof. unfold is_scalar. lia. Qed.

(* ---------- strings ---------- *)
Lemma str_unit ascii r X dec f : is_scalar r = true ->
  str_body (S f) 34 false (fmt_str_rune ascii r ++ X) dec = str_body f 34 false X (r :: dec).
Proof.
  intros Hs. unfold fmt_str_rune, str_mode.
  destruct (N.eqb r 34 || N.eqb r 92 || N.eqb r 10 || N.eqb r 13) eqn:E.
  - (* ECHAR *)
    assert (r = 34 \/ r = 92 \/ r = 10 \/ r = 13)%N as [->|[->|[->| ->]]] by lia; reflexivity.
  - assert (r <> 34 /\ r <> 92)%N as [N34 N92] by lia.
    destruct ascii.
    + destruct (65535 <? r)%N eqn:E8.
      * cbn [app str_body uchar8]. cbn [N.eqb]. 
        change (N.eqb 92 34) with false. change (N.eqb 92 34 || N.eqb 92 39) with false. change (N.eqb 92 92) with true.
        change (N.eqb 85 117) with false. change (N.eqb 85 85) with true. cbn [negb].
        change (hex_upper ((r / 268435456) mod 8) :: hexd r 16777216 :: hexd r 1048576 :: hexd r 65536 :: hexd r 4096 :: hexd r 256 :: hexd r 16 :: hexd r 1 :: X)
          with ([hex_upper ((r / 268435456) mod 8); hexd r 16777216; hexd r 1048576; hexd r 65536; hexd r 4096; hexd r 256; hexd r 16; hexd r 1] ++ X).
        rewrite uchar8_roundtrip by (apply scalar_lt; exact Hs). rewrite sanitize_scalar by exact Hs. reflexivity.
      * destruct (127 <? r)%N eqn:E4.
        -- cbn [app str_body uchar4].
           change (N.eqb 92 34) with false. change (N.eqb 92 34 || N.eqb 92 39) with false. change (N.eqb 92 92) with true.
           change (N.eqb 117 117) with true. cbn [negb].
           change (hexd r 4096 :: hexd r 256 :: hexd r 16 :: hexd r 1 :: X) with ([hexd r 4096; hexd r 256; hexd r 16; hexd r 1] ++ X).
           rewrite uchar4_roundtrip by lia. rewrite sanitize_scalar by exact Hs. reflexivity.
        -- cbn [app str_body]. rewrite (proj2 (N.eqb_neq _ _) N34), (proj2 (N.eqb_neq _ _) N92). cbn [orb negb].
           destruct (N.eqb r 39); reflexivity.
    + cbn [app str_body]. rewrite (proj2 (N.eqb_neq _ _) N34), (proj2 (N.eqb_neq _ _) N92). cbn [orb negb].
      destruct (N.eqb r 39); reflexivity.
Qed.

Lemma str_units ascii : forall s X dec f, scalars s -> length s < f ->
  str_body f 34 false (flat_map (fmt_str_rune ascii) s ++ 34%N :: X) dec = Some (rev dec ++ s, X).
Proof.
  induction s as [|r s IH]; intros X dec f Hs Hf.
  - destruct f; [cbn in Hf; lia|]. cbn [flat_map app str_body]. change (N.eqb 34 34) with true. cbn [negb]. now rewrite app_nil_r.
  - inversion Hs as [|? ? Hr Hs']; subst. destruct f; [cbn in Hf; lia|].
    cbn [flat_map]. rewrite <- app_assoc. rewrite str_unit by exact Hr.
    rewrite IH by (assumption || (cbn [length] in Hf; lia)). cbn [rev]. rewrite <- app_assoc. reflexivity.
Qed.

Lemma fmt_rune_len ascii r : 1 <= length (fmt_str_rune ascii r).
Proof. unfold fmt_str_rune. destruct (str_mode r ascii); cbn; lia. Qed.

Lemma flat_len ascii s : length s <= length (flat_map (fmt_str_rune ascii) s).
Proof. induction s as [|r s IH]; cbn [flat_map length]; [lia|]. rewrite app_length. pose proof (fmt_rune_len ascii r). lia. Qed.

(* what may follow a string token: anything but a further double quote right after an empty string *)
Definition str_delim (rest : list N) : Prop := match rest with c :: _ => c <> 34%N | [] => True end.

Theorem string_roundtrip ascii s rest :
  scalars s -> str_delim rest ->
  match fmt_string ascii s with
  | q :: body => lex_string q (body ++ rest) = Some (s, rest)
  | [] => False
  end.
Proof.
  intros Hs Hd. unfold fmt_string. rewrite <- app_assoc. cbn [app].
  destruct s as [|r s].
  - cbn [flat_map app lex_string]. change (N.eqb 34 34) with true.
    destruct rest as [|c rest']; [reflexivity|]. cbn in Hd. rewrite (proj2 (N.eqb_neq _ _) Hd). reflexivity.
  - unfold lex_string.
    destruct (flat_map (fmt_str_rune ascii) (r :: s) ++ 34%N :: rest) as [|c0 r0] eqn:E.
    { apply (f_equal (@length N)) in E. rewrite app_length in E. cbn in E. lia. }
    assert (N.eqb c0 34 = false) as C0.
    { inversion Hs as [|? ? Hr _]; subst. cbn [flat_map] in E. unfold fmt_str_rune, str_mode in E.
      destruct (N.eqb r 34 || N.eqb r 92 || N.eqb r 10 || N.eqb r 13) eqn:X.
      - cbn [app] in E. inversion E. reflexivity.
      - assert (r <> 34)%N by lia.
        destruct ascii; [destruct (65535 <? r)%N; [|destruct (127 <? r)%N]|]; cbn [app uchar4 uchar8] in E; inversion E; subst; try reflexivity; apply N.eqb_neq; assumption. }
    rewrite C0. rewrite <- E.
    rewrite str_units; [reflexivity|exact Hs|].
    rewrite app_length. pose proof (flat_len ascii (r :: s)). cbn [length] in *. lia.
Qed.

(* ---------- IRIREF ---------- *)
Lemma iri_unit ascii r X dec f : is_scalar r = true ->
  iriref_body (S f) (fmt_iri_rune ascii r ++ X) dec = iriref_body f X (r :: dec).
Proof.
  intros Hs. unfold fmt_iri_rune, iri_mode_t.
  destruct (r <=? 32)%N eqn:E32.
  { cbn [app iriref_body uchar4]. change (N.eqb 92 62) with false. change (N.eqb 92 92) with true. change (N.eqb 117 117) with true.
    change (hexd r 4096 :: hexd r 256 :: hexd r 16 :: hexd r 1 :: X) with ([hexd r 4096; hexd r 256; hexd r 16; hexd r 1] ++ X).
    rewrite uchar4_roundtrip by lia. rewrite sanitize_scalar by exact Hs. reflexivity. }
  destruct (memN r [60; 62; 34; 123; 125; 124; 94; 96; 92]%N) eqn:EM.
  { assert (r < 65536)%N as L.
    { unfold memN in EM. cbn [existsb] in EM. lia. }
    cbn [app iriref_body uchar4]. change (N.eqb 92 62) with false. change (N.eqb 92 92) with true. change (N.eqb 117 117) with true.
    change (hexd r 4096 :: hexd r 256 :: hexd r 16 :: hexd r 1 :: X) with ([hexd r 4096; hexd r 256; hexd r 16; hexd r 1] ++ X).
    rewrite uchar4_roundtrip by exact L. rewrite sanitize_scalar by exact Hs. reflexivity. }
  assert (N.eqb r 62 = false /\ N.eqb r 92 = false /\ memN r [60; 34; 123; 125; 124; 94; 96]%N = false) as (N62 & N92 & NM).
  { unfold memN in *. cbn [existsb] in *. repeat split; lia. }
  destruct ascii.
  - destruct (65535 <? r)%N eqn:E8.
    + cbn [app iriref_body uchar8]. change (N.eqb 92 62) with false. change (N.eqb 92 92) with true.
      change (N.eqb 85 117) with false. change (N.eqb 85 85) with true.
      change (hex_upper ((r / 268435456) mod 8) :: hexd r 16777216 :: hexd r 1048576 :: hexd r 65536 :: hexd r 4096 :: hexd r 256 :: hexd r 16 :: hexd r 1 :: X)
        with ([hex_upper ((r / 268435456) mod 8); hexd r 16777216; hexd r 1048576; hexd r 65536; hexd r 4096; hexd r 256; hexd r 16; hexd r 1] ++ X).
      rewrite uchar8_roundtrip by (apply scalar_lt; exact Hs). rewrite sanitize_scalar by exact Hs. reflexivity.
    + destruct (127 <? r)%N eqn:E4.
      * cbn [app iriref_body uchar4]. change (N.eqb 92 62) with false. change (N.eqb 92 92) with true. change (N.eqb 117 117) with true.
        change (hexd r 4096 :: hexd r 256 :: hexd r 16 :: hexd r 1 :: X) with ([hexd r 4096; hexd r 256; hexd r 16; hexd r 1] ++ X).
        rewrite uchar4_roundtrip by lia. rewrite sanitize_scalar by exact Hs. reflexivity.
      * cbn [app iriref_body]. rewrite N62, N92, E32, NM. reflexivity.
  - cbn [app iriref_body]. rewrite N62, N92, E32, NM. reflexivity.
Qed.

Lemma iri_units ascii : forall s X dec f, scalars s -> length s < f ->
  iriref_body f (fmt_iri ascii s ++ 62%N :: X) dec = Some (rev dec ++ s, X).
Proof.
  unfold fmt_iri. induction s as [|r s IH]; intros X dec f Hs Hf.
  - destruct f; [cbn in Hf; lia|]. cbn [flat_map app iriref_body]. change (N.eqb 62 62) with true. now rewrite app_nil_r.
  - inversion Hs as [|? ? Hr Hs']; subst. destruct f; [cbn in Hf; lia|].
    cbn [flat_map]. rewrite <- app_assoc. rewrite iri_unit by exact Hr.
    rewrite IH by (assumption || (cbn [length] in Hf; lia)). cbn [rev]. rewrite <- app_assoc. reflexivity.
Qed.

Lemma fmt_iri_len ascii s : length s <= length (fmt_iri ascii s).
Proof.
  unfold fmt_iri. induction s as [|r s IH]; cbn [flat_map length]; [lia|]. rewrite app_length.
  assert (1 <= length (fmt_iri_rune ascii r)) by (unfold fmt_iri_rune; destruct (iri_mode_t r ascii); cbn; lia). lia.
Qed.

Theorem iriref_roundtrip ascii s rest :
  scalars s -> lex_iriref (fmt_iri ascii s ++ 62%N :: rest) = Some (s, rest).
Proof.
  intros Hs. unfold lex_iriref. rewrite iri_units; [reflexivity|exact Hs|].
  rewrite app_length. pose proof (fmt_iri_len ascii s). cbn [length]. lia.
Qed.

(* JsonLdProofs.v — facts about the JSON-LD mapping of model/JsonLd.v. *)
From RK Require Import Base BaseFacts Iri3986 JsonLd.

(* ---------- coercion precedence for a string value ---------- *)

Lemma coerce_type_beats_language a iri dt lg lst pfx s :
  str_value a (Some (TD iri (TyIri dt) lg lst pfx)) s = Some (TL s dt []).
Proof. reflexivity. Qed.

Lemma term_null_language_beats_default a iri lst pfx s :
  str_value a (Some (TD iri TyNone LgNull lst pfx)) s = Some (TL s (xsd "string") []).
Proof. reflexivity. Qed.

Lemma term_language_beats_default a iri lst pfx s c l :
  str_value a (Some (TD iri TyNone (LgTag (c :: l)) lst pfx)) s = Some (TL s (rdf "langString") (c :: l)).
Proof. reflexivity. Qed.

Lemma default_language_applies base voc terms s c l :
  str_value (ACtx base voc (Some (c :: l)) terms) None s = Some (TL s (rdf "langString") (c :: l)).
Proof. reflexivity. Qed.

Lemma no_language_plain_string base voc terms s :
  str_value (ACtx base voc None terms) None s = Some (TL s (xsd "string") []).
Proof. reflexivity. Qed.

(* ---------- lists ---------- *)

Lemma link_list_length cells objs g :
  length cells = length objs -> length (link_list cells objs g) = 2 * length objs.
Proof.
  revert objs. induction cells as [|c cs IH]; intros [|o os] H; simpl in *; try discriminate; auto.
  rewrite IH by lia. lia.
Qed.

(* the i-th cell points at the i-th object and at the next cell, the last one at rdf:nil *)
Lemma link_list_nth cells objs g i c o :
  nth_error cells i = Some c -> nth_error objs i = Some o ->
  nth_error (link_list cells objs g) (i + i) = Some (c, rdf "first", o, g) /\
  nth_error (link_list cells objs g) (S (i + i)) =
    Some (c, rdf "rest", match nth_error cells (S i) with Some c' => c' | None => TI (rdf "nil") end, g).
Proof.
  revert objs i. induction cells as [|c1 cs IH]; intros objs i Hc Ho.
  - destruct i; discriminate.
  - destruct objs as [|o1 os]; [destruct i; discriminate|].
    destruct i as [|i].
    + cbn in Hc, Ho. inversion Hc; inversion Ho; subst. split; [reflexivity|].
      destruct cs; reflexivity.
    + cbn [nth_error] in Hc, Ho.
      replace (S i + S i) with (S (S (i + i))) by lia.
      cbn [link_list nth_error].
      destruct (IH os i Hc Ho) as [H1 H2].
      split; [exact H1|exact H2].
Qed.

(* ---------- IRI expansion: what a context can never rewrite ---------- *)

Definition plain_ident (v : bytes) : Prop := is_keyword v = false /\ at_form v = false.

(* scheme://... is returned as it is whatever prefixes the context defines, unless the whole string is a term *)
Lemma expand_slashes_untouched a v p rest vocab docrel :
  plain_ident v -> lookup v (a_terms a) = None ->
  split_colon v = Some (p, 47%N :: 47%N :: rest) ->
  expand_iri a v vocab docrel = Some (Some v).
Proof.
  intros [Hk Ha] Hl Hs. unfold expand_iri, expand_with. rewrite Hk, Ha. simpl mem. simpl andb. cbv iota.
  rewrite Hl, Hs.
  replace (is_prefix (s2b "//") (47%N :: 47%N :: rest)) with true by reflexivity.
  rewrite orb_true_r. reflexivity.
Qed.

(* a blank node identifier is returned as it is *)
Lemma expand_bnode_untouched a l vocab docrel :
  lookup (95%N :: 58%N :: l) (a_terms a) = None ->
  expand_iri a (95%N :: 58%N :: l) vocab docrel = Some (Some (95%N :: 58%N :: l)).
Proof.
  intros Hl. unfold expand_iri, expand_with.
  replace (is_keyword (95%N :: 58%N :: l)) with false by reflexivity.
  replace (at_form (95%N :: 58%N :: l)) with false by reflexivity.
  simpl mem. simpl andb. cbv iota. rewrite Hl.
  replace (split_colon (95%N :: 58%N :: l)) with (Some ([95%N], l)) by reflexivity.
  reflexivity.
Qed.

Lemma classify_bnode l : classify (95%N :: 58%N :: l) = Some (TB false l).
Proof. reflexivity. Qed.

(* DescrInline.v — the nested export (Inline on or off) flattens back to the input graph.
   The nested structure is unfolded level by level: level 0 holds the resources exported on their own,
   level k+1 the blank nodes nested directly under a level-k resource.  Every subject sits on exactly one
   level, and no level beyond length g + 1 is inhabited, so the model's fuel is never exhausted. *)
From RK Require Import Base BaseFacts Descr DescrProofs.
From Coq Require Import Permutation Lia.

(* ---------- counting ---------- *)
Definition cnt (s : node) (l : list node) : nat := length (filter (node_eqb s) l).
Definition cntn (b : nat) (l : list nat) : nat := length (filter (Nat.eqb b) l).

Lemma cnt_app s a b : cnt s (a ++ b) = cnt s a + cnt s b.
Proof. unfold cnt. now rewrite filter_app, app_length. Qed.
Lemma cnt_cons s x l : cnt s (x :: l) = (if node_eqb s x then 1 else 0) + cnt s l.
Proof. unfold cnt. simpl. destruct (node_eqb s x); reflexivity. Qed.
Lemma cntn_app s a b : cntn s (a ++ b) = cntn s a + cntn s b.
Proof. unfold cntn. now rewrite filter_app, app_length. Qed.
Lemma cntn_cons s x l : cntn s (x :: l) = (if Nat.eqb s x then 1 else 0) + cntn s l.
Proof. unfold cntn. simpl. destruct (Nat.eqb s x); reflexivity. Qed.

Lemma cnt_In s l : In s l <-> cnt s l <> 0.
Proof.
  induction l as [|x l IH]; [unfold cnt; simpl; tauto|].
  rewrite cnt_cons. simpl. destruct (node_eqb s x) eqn:E.
  - apply node_eqb_eq in E. subst. split; [lia|auto].
  - apply node_eqb_neq in E. rewrite IH. split; [intros [H|H]; [congruence|lia]|intros H; right; lia].
Qed.

Lemma cnt_NoDup s l : NoDup l -> cnt s l = if existsb (node_eqb s) l then 1 else 0.
Proof.
  induction 1 as [|x l Hn Hnd IH]; [reflexivity|].
  rewrite cnt_cons. simpl. destruct (node_eqb s x) eqn:E; simpl; [|exact IH].
  apply node_eqb_eq in E. subst x.
  destruct (Nat.eq_dec (cnt s l) 0) as [H0|H0]; [lia|]. apply cnt_In in H0. contradiction.
Qed.

Lemma cnt_filter s h l : cnt s (filter h l) = if h s then cnt s l else 0.
Proof.
  induction l as [|x l IH]; simpl; [destruct (h s); reflexivity|].
  destruct (h x) eqn:Ex; rewrite ?cnt_cons, IH; destruct (node_eqb s x) eqn:E; destruct (h s) eqn:Es; try reflexivity;
    apply node_eqb_eq in E; congruence.
Qed.

Lemma NoDup_cntn l : (forall b, cntn b l <= 1) -> NoDup l.
Proof.
  induction l as [|a l IH]; intros H; constructor.
  - intros Hi. specialize (H a). rewrite cntn_cons, Nat.eqb_refl in H.
    assert (Hc : cntn a l <> 0).
    { clear -Hi. induction l as [|x l IH]; [destruct Hi|]. rewrite cntn_cons. destruct Hi as [->|Hi]; [rewrite Nat.eqb_refl; lia|].
      specialize (IH Hi). lia. }
    lia.
  - apply IH. intros b. specialize (H b). rewrite cntn_cons in H. lia.
Qed.

Lemma filter_comm {A} (f h : A -> bool) l : filter f (filter h l) = filter h (filter f l).
Proof.
  induction l as [|x l IH]; simpl; [reflexivity|].
  destruct (h x) eqn:Eh, (f x) eqn:Ef; simpl; rewrite ?Eh, ?Ef, IH; reflexivity.
Qed.

Lemma flat_map_flat_map {A B C} (f : B -> list C) (k : A -> list B) l :
  flat_map f (flat_map k l) = flat_map (fun x => flat_map f (k x)) l.
Proof. induction l as [|x l IH]; simpl; [reflexivity|]. now rewrite flat_map_app, IH. Qed.

Lemma perm_4 {A} (a b c d : list A) : Permutation ((a ++ b) ++ (c ++ d)) ((a ++ c) ++ (b ++ d)).
Proof.
  rewrite <- !app_assoc. apply Permutation_app_head. rewrite !app_assoc. apply Permutation_app_tail.
  apply Permutation_app_comm.
Qed.

(* lists with the same multiplicities on the keys that matter flat_map to permutations *)
Lemma flat_map_cnt_perm {B} (h : node -> list B) l1 : forall l2,
  (forall s, h s <> [] -> cnt s l1 = cnt s l2) -> Permutation (flat_map h l1) (flat_map h l2).
Proof.
  induction l1 as [|a l1 IH]; intros l2 H.
  - simpl. assert (E0 : flat_map h l2 = []).
    { induction l2 as [|x l2 IH2]; [reflexivity|]. simpl. destruct (h x) eqn:E.
      - simpl. apply IH2. intros s Hs. specialize (H s Hs). rewrite cnt_cons in H. unfold cnt in *. simpl in *. lia.
      - exfalso. assert (Hx : h x <> []) by (rewrite E; discriminate). specialize (H x Hx).
        rewrite cnt_cons, node_eqb_refl in H. unfold cnt in H. simpl in H. lia. }
    rewrite E0. constructor.
  - simpl. destruct (h a) eqn:E.
    + simpl. apply IH. intros s Hs. rewrite <- (H s Hs), cnt_cons.
      destruct (node_eqb s a) eqn:E2; [apply node_eqb_eq in E2; subst; congruence|reflexivity].
    + assert (Ha : h a <> []) by (rewrite E; discriminate).
      assert (Hin : In a l2).
      { apply cnt_In. rewrite <- (H a Ha), cnt_cons, node_eqb_refl. lia. }
      apply in_split in Hin as (x1 & x2 & ->).
      rewrite flat_map_app. cbn [flat_map]. rewrite E.
      eapply perm_trans; [apply (Permutation_app_head (b :: l)), (IH (x1 ++ x2))|].
      * intros s Hs. specialize (H s Hs). rewrite cnt_cons, cnt_app, cnt_cons in H. rewrite cnt_app. lia.
      * rewrite flat_map_app. apply Permutation_app_swap_app.
Qed.

Section Inline.
Variables (g : graph) (pinned : list nat) (o : opts).

(* nested under its only referrer? *)
Definition inl (s : node) : bool :=
  match s with NBlank b => inline o && inlined g pinned b | _ => false end.
Definition parent (s : node) : option node :=
  match s with NBlank b => referrer g b | _ => None end.
Definition kid_of (t : triple) : list node := if inl (t_o t) then [t_o t] else [].
Definition kids (s : node) : list node := flat_map kid_of (stmts_of g s).

Lemma refs_one b : refs g b = 1 -> exists t0, filter (is_ref b) g = [t0] /\ referrer g b = Some (t_s t0) /\ In t0 g.
Proof.
  unfold refs, referrer. intros H. destruct (filter (is_ref b) g) as [|t0 [|t1 r]] eqn:E; try discriminate.
  exists t0. simpl. repeat split; try reflexivity.
  assert (Hi : In t0 (filter (is_ref b) g)) by (rewrite E; now left). now apply filter_In in Hi.
Qed.

Lemma inl_blank s : inl s = true -> exists b, s = NBlank b /\ inline o = true /\ inlined g pinned b = true.
Proof. destruct s; simpl; try discriminate. rewrite andb_true_iff. eauto. Qed.

Lemma cnt_kid_of s b l : s = NBlank b -> inl s = true ->
  cnt s (flat_map kid_of l) = length (filter (is_ref b) l).
Proof.
  intros -> Hi. induction l as [|t l IH]; [reflexivity|].
  simpl. rewrite cnt_app, IH. unfold kid_of, is_ref at 2.
  destruct (node_eqb (t_o t) (NBlank b)) eqn:E.
  - apply node_eqb_eq in E. rewrite E, Hi. rewrite cnt_cons, node_eqb_refl. reflexivity.
  - assert (E' : node_eqb (NBlank b) (t_o t) = false).
    { apply node_eqb_neq. apply node_eqb_neq in E. congruence. }
    destruct (inl (t_o t)); [rewrite cnt_cons, E'|]; reflexivity.
Qed.

Lemma kids_inl x y : In y (kids x) -> inl y = true.
Proof.
  unfold kids. rewrite in_flat_map. intros (t & _ & Hy). unfold kid_of in Hy.
  destruct (inl (t_o t)) eqn:E; [destruct Hy as [<-|[]]; exact E|destruct Hy].
Qed.

Lemma cnt_kids s x :
  cnt s (kids x) = if inl s then match parent s with Some p => if node_eqb p x then 1 else 0 | None => 0 end else 0.
Proof.
  destruct (inl s) eqn:Ei.
  - destruct (inl_blank s Ei) as (b & -> & Ho & Hb).
    unfold kids. rewrite (cnt_kid_of (NBlank b) b) by (reflexivity || assumption).
    apply inlined_single_ref in Hb as [Hr _]. destruct (refs_one b Hr) as (t0 & Ef & Ep & _).
    unfold stmts_of. rewrite filter_comm, Ef. simpl. rewrite Ep.
    destruct (node_eqb (t_s t0) x); reflexivity.
  - destruct (Nat.eq_dec (cnt s (kids x)) 0) as [H0|H0]; [exact H0|].
    apply cnt_In in H0. apply kids_inl in H0. congruence.
Qed.

Lemma cnt_flat_map_kids s l :
  cnt s (flat_map kids l) = if inl s then match parent s with Some p => cnt p l | None => 0 end else 0.
Proof.
  induction l as [|x l IH]; simpl.
  - destruct (inl s), (parent s); reflexivity.
  - rewrite cnt_app, IH, cnt_kids. destruct (inl s); [|reflexivity]. destruct (parent s); [|reflexivity].
    now rewrite cnt_cons.
Qed.

(* ---------- levels ---------- *)
Fixpoint lvl (k : nat) (s : node) : bool :=
  match k with
  | 0 => negb (inl s) && existsb (node_eqb s) (subjects g)
  | S k' => inl s && match parent s with Some p => lvl k' p | None => false end
  end.

Fixpoint U (k : nat) : list node :=
  match k with
  | 0 => filter (fun s => negb (inl s)) (subjects g)
  | S k' => flat_map kids (U k')
  end.

Lemma cnt_U k : forall s, cnt s (U k) = if lvl k s then 1 else 0.
Proof.
  induction k as [|k IH]; intros s; simpl.
  - rewrite cnt_filter, (cnt_NoDup _ _ (subjects_NoDup g)). destruct (inl s); reflexivity.
  - rewrite cnt_flat_map_kids. destruct (inl s); [|reflexivity]. destruct (parent s) as [p|]; [|reflexivity].
    simpl. apply IH.
Qed.

Lemma lvl_unique j : forall k s, lvl j s = true -> lvl k s = true -> j = k.
Proof.
  induction j as [|j IH]; intros [|k] s; simpl; rewrite ?andb_true_iff, ?negb_true_iff; intros [H1 H2] [H3 H4];
    try congruence.
  destruct (parent s) as [p|]; [|discriminate]. f_equal. eapply IH; eassumption.
Qed.

Lemma chain_lvl f : forall seen c,
  chain_ok f g pinned seen (Some c) = true -> In c (subjects g) -> exists k, k < f /\ lvl k c = true.
Proof.
  induction f as [|f IH]; intros seen c H Hin; [discriminate|].
  destruct (inl c) eqn:Ei.
  - destruct (inl_blank c Ei) as (r & -> & Ho & Hr).
    destruct (inlined_single_ref _ _ _ Hr) as [H1 H2].
    simpl in H. rewrite H1, H2 in H. simpl in H.
    destruct (memn r seen); [discriminate|].
    destruct (refs_one r H1) as (t0 & _ & Ep & Ht0).
    rewrite Ep in H. apply IH in H as (k & Hk & Hl).
    + exists (S k). split; [lia|]. simpl lvl. cbn [inl parent]. rewrite Ho, Hr, Ep. exact Hl.
    + apply subjects_In. eauto.
  - exists 0. split; [lia|]. simpl. rewrite Ei. simpl. now apply existsb_node_In.
Qed.

Lemma lvl_exists s :
  In s (subjects g) \/ inl s = true -> exists k, k < S (S (length g)) /\ lvl k s = true.
Proof.
  intros H. destruct (inl s) eqn:Ei.
  - destruct (inl_blank s Ei) as (b & -> & Ho & Hb).
    pose proof Hb as Hb'. unfold inlined in Hb'. rewrite !andb_true_iff in Hb'. destruct Hb' as [[H1 _] Hc].
    apply Nat.eqb_eq in H1. destruct (refs_one b H1) as (t0 & _ & Ep & Ht0).
    rewrite Ep in Hc. apply chain_lvl in Hc as (k & Hk & Hl); [|apply subjects_In; eauto].
    exists (S k). split; [lia|]. simpl lvl. cbn [inl parent]. rewrite Ho, Hb, Ep. exact Hl.
  - destruct H as [H|H]; [|discriminate]. exists 0. split; [lia|]. simpl. rewrite Ei. simpl. now apply existsb_node_In.
Qed.

Lemma lvl_bound k s : lvl k s = true -> k < S (S (length g)).
Proof.
  intros H. destruct k as [|k]; [lia|].
  assert (Hi : inl s = true) by (simpl in H; now apply andb_true_iff in H).
  destruct (lvl_exists s (or_intror Hi)) as (k' & Hk & Hl).
  now rewrite (lvl_unique _ _ _ H Hl).
Qed.

Lemma U_top_empty : U (S (S (length g))) = [].
Proof.
  destruct (U (S (S (length g)))) as [|s l] eqn:E; [reflexivity|].
  assert (Hc : cnt s (U (S (S (length g)))) <> 0) by (apply cnt_In; rewrite E; now left).
  rewrite cnt_U in Hc. destruct (lvl (S (S (length g))) s) eqn:El; [|congruence].
  apply lvl_bound in El. lia.
Qed.

(* the resources of levels j, j+1, ..., j+f-1 *)
Fixpoint levels (l : list node) (f : nat) : list node :=
  match f with 0 => [] | S f' => l ++ levels (flat_map kids l) f' end.

Lemma cnt_levels f : forall j s,
  cnt s (levels (U j) f) = if existsb (fun k => lvl k s) (seq j f) then 1 else 0.
Proof.
  induction f as [|f IH]; intros j s; [reflexivity|].
  cbn [levels seq existsb]. rewrite cnt_app, cnt_U. change (flat_map kids (U j)) with (U (S j)). rewrite IH.
  destruct (lvl j s) eqn:El; simpl; [|reflexivity].
  destruct (existsb (fun k => lvl k s) (seq (S j) f)) eqn:Ee; [|reflexivity].
  apply existsb_exists in Ee as (k & Hk & Hl). apply in_seq in Hk.
  pose proof (lvl_unique _ _ _ El Hl). lia.
Qed.

Lemma cnt_levels_le f j s : cnt s (levels (U j) f) <= 1.
Proof. rewrite cnt_levels. destruct (existsb _ _); lia. Qed.

Lemma cnt_levels_subject s :
  In s (subjects g) -> cnt s (levels (U 0) (S (S (length g)))) = 1.
Proof.
  intros H. rewrite cnt_levels.
  destruct (lvl_exists s (or_introl H)) as (k & Hk & Hl).
  assert (E : existsb (fun k => lvl k s) (seq 0 (S (S (length g)))) = true).
  { apply existsb_exists. exists k. split; [apply in_seq; lia|exact Hl]. }
  now rewrite E.
Qed.

(* ---------- the export, level by level ---------- *)
Definition FT (f : nat) (s : node) : list triple := flatten_stmts s (export_statements f g pinned o s).

Lemma flatten_go s sub :
  (fix go (l : list stmt) : list triple :=
     match l with [] => [] | x :: r => flatten_stmt s x ++ go r end) sub = flatten_stmts s sub.
Proof. unfold flatten_stmts. induction sub as [|x r IH]; simpl; [reflexivity|]. now rewrite IH. Qed.

Lemma flatten_stmt_anon s p b sub :
  flatten_stmt s (SAnon p b sub) = flatten_stmts (NBlank b) sub ++ [(s, p, NBlank b)].
Proof. simpl. now rewrite flatten_go. Qed.

Definition nest (f : nat) (t : triple) : stmt :=
  match t_o t with
  | NBlank b =>
      if inline o && inlined g pinned b
      then SAnon (t_p t) b (export_statements f g pinned o (NBlank b))
      else SObj (t_p t) (t_o t)
  | _ => SObj (t_p t) (t_o t)
  end.

Lemma export_statements_S f s : export_statements (S f) g pinned o s = map (nest f) (stmts_of g s).
Proof. reflexivity. Qed.

Lemma triple_eta (t : triple) : (t_s t, t_p t, t_o t) = t.
Proof. destruct t as [[a p] ob]. reflexivity. Qed.

Lemma flatten_nest f s t : t_s t = s ->
  Permutation (flatten_stmt s (nest f t)) (t :: flat_map (FT f) (kid_of t)).
Proof.
  intros Hs. unfold nest, kid_of. destruct (t_o t) as [n|b|n] eqn:Eo; cbn [inl].
  - simpl. rewrite <- Hs, <- Eo, triple_eta. reflexivity.
  - destruct (inline o && inlined g pinned b).
    + rewrite flatten_stmt_anon. simpl. rewrite app_nil_r. fold (FT f (NBlank b)).
      rewrite <- Hs, <- Eo, triple_eta. symmetry. apply Permutation_cons_append.
    + simpl. rewrite <- Hs, <- Eo, triple_eta. reflexivity.
  - simpl. rewrite <- Hs, <- Eo, triple_eta. reflexivity.
Qed.

Lemma FT_step f s : Permutation (FT (S f) s) (stmts_of g s ++ flat_map (FT f) (kids s)).
Proof.
  unfold FT at 1, kids. rewrite export_statements_S.
  assert (H : forall t, In t (stmts_of g s) -> t_s t = s) by (intros t; apply stmts_of_subject).
  induction (stmts_of g s) as [|t l IH]; [constructor|].
  unfold flatten_stmts in *. simpl. rewrite flat_map_app.
  eapply perm_trans; [apply Permutation_app; [apply flatten_nest, H; now left|apply IH; intros; apply H; now right]|].
  simpl. apply perm_skip. apply Permutation_app_swap_app.
Qed.

Lemma FTl_step f l :
  Permutation (flat_map (FT (S f)) l) (flat_map (stmts_of g) l ++ flat_map (FT f) (flat_map kids l)).
Proof.
  induction l as [|s l IH]; simpl; [constructor|].
  rewrite flat_map_app. eapply perm_trans; [apply Permutation_app; [apply FT_step|apply IH]|]. apply perm_4.
Qed.

Lemma FT_levels f : forall l, Permutation (flat_map (FT f) l) (flat_map (stmts_of g) (levels l f)).
Proof.
  induction f as [|f IH]; intros l.
  - simpl. induction l as [|s l IHl]; simpl; [constructor|exact IHl].
  - eapply perm_trans; [apply FTl_step|]. simpl. rewrite flat_map_app. apply Permutation_app_head, IH.
Qed.

Definition fuel0 : nat := S (S (length g)).

Lemma flatten_export_resource s : flatten_resource (export_resource g pinned o s) = FT fuel0 s.
Proof.
  unfold export_resource, FT, fuel0. destruct s as [n|b|n]; try reflexivity.
  destruct (use_anon o && Nat.eqb (refs g b) 0 && negb (memn b pinned)); reflexivity.
Qed.

Definition sel (s : node) : list resource :=
  match s with
  | NBlank b => if inline o && inlined g pinned b then [] else [export_resource g pinned o s]
  | _ => [export_resource g pinned o s]
  end.

Lemma sel_spec s : sel s = if inl s then [] else [export_resource g pinned o s].
Proof. destruct s; reflexivity. Qed.

Lemma export_sel : export g pinned o = flat_map sel (subjects g).
Proof. reflexivity. Qed.

Lemma flatten_export : flatten (export g pinned o) = flat_map (FT fuel0) (U 0).
Proof.
  rewrite export_sel. unfold flatten. simpl U.
  induction (subjects g) as [|s l IH]; [reflexivity|].
  cbn [flat_map filter]. rewrite flat_map_app, IH, sel_spec. destruct (inl s); simpl; [reflexivity|].
  now rewrite app_nil_r, flatten_export_resource.
Qed.

Theorem export_flatten_perm : Permutation (flatten (export g pinned o)) g.
Proof.
  rewrite flatten_export.
  eapply perm_trans; [apply FT_levels|].
  eapply perm_trans; [|symmetry; apply graph_by_subject].
  apply flat_map_cnt_perm. intros s Hs.
  assert (Hin : In s (subjects g)).
  { destruct (stmts_of g s) as [|t r] eqn:E; [congruence|].
    assert (Ht : In t (stmts_of g s)) by (rewrite E; now left).
    apply subjects_In. exists t. split; [unfold stmts_of in Ht; now apply filter_In in Ht|now apply stmts_of_subject in Ht]. }
  unfold fuel0. rewrite (cnt_levels_subject s Hin), (cnt_NoDup _ _ (subjects_NoDup g)).
  apply existsb_node_In in Hin. now rewrite Hin.
Qed.

(* ---------- the fuel is never exhausted ---------- *)
Definition OF (f : nat) (s : node) : bool := existsb out_of_fuel_stmt (export_statements f g pinned o s).

Lemma oof_go sub :
  (fix go (l : list stmt) : bool := match l with [] => false | x :: r => out_of_fuel_stmt x || go r end) sub
  = existsb out_of_fuel_stmt sub.
Proof. induction sub as [|x r IH]; simpl; [reflexivity|]. now rewrite IH. Qed.

Lemma oof_nest f t : out_of_fuel_stmt (nest f t) = existsb (OF f) (kid_of t).
Proof.
  unfold nest, kid_of. destruct (t_o t) as [n|b|n]; cbn [inl]; try reflexivity.
  destruct (inline o && inlined g pinned b); [|reflexivity].
  simpl. rewrite oof_go, orb_false_r. reflexivity.
Qed.

Lemma OF_step f s : OF (S f) s = existsb (OF f) (kids s).
Proof.
  unfold OF at 1, kids. rewrite export_statements_S.
  induction (stmts_of g s) as [|t l IH]; [reflexivity|].
  simpl. rewrite existsb_app, IH, oof_nest. reflexivity.
Qed.

Lemma OF_levels f : forall j s, In s (U j) -> U (j + f) = [] -> OF f s = false.
Proof.
  induction f as [|f IH]; intros j s Hin He.
  - rewrite Nat.add_0_r in He. rewrite He in Hin. destruct Hin.
  - rewrite OF_step. destruct (existsb (OF f) (kids s)) eqn:E; [|reflexivity].
    apply existsb_exists in E as (x & Hx & Ex).
    rewrite (IH (S j) x) in Ex; [discriminate| |].
    + simpl. apply in_flat_map. eauto.
    + now rewrite Nat.add_succ_comm.
Qed.

Lemma out_of_fuel_export : out_of_fuel (export g pinned o) = existsb (OF fuel0) (U 0).
Proof.
  rewrite export_sel. unfold out_of_fuel. simpl U.
  induction (subjects g) as [|s l IH]; [reflexivity|].
  cbn [flat_map filter]. rewrite existsb_app, IH, sel_spec. destruct (inl s); simpl; [reflexivity|].
  f_equal. unfold export_resource, OF, fuel0. destruct s as [n|b|n]; try (now rewrite orb_false_r).
  destruct (use_anon o && Nat.eqb (refs g b) 0 && negb (memn b pinned)); now rewrite orb_false_r.
Qed.

Theorem export_fuel_sufficient : out_of_fuel (export g pinned o) = false.
Proof.
  rewrite out_of_fuel_export.
  destruct (existsb (OF fuel0) (U 0)) eqn:E; [|reflexivity].
  apply existsb_exists in E as (s & Hs & Es).
  rewrite (OF_levels fuel0 0 s Hs U_top_empty) in Es. discriminate.
Qed.

(* ---------- every nested or anonymous blank node loses its name exactly once ---------- *)
Definition AO (f : nat) (s : node) : list nat := anon_origins_stmts (export_statements f g pinned o s).
Definition blank_of (s : node) : list nat := match s with NBlank b => [b] | _ => [] end.

Lemma ao_go sub :
  (fix go (l : list stmt) : list nat := match l with [] => [] | x :: r => anon_origins_stmt x ++ go r end) sub
  = anon_origins_stmts sub.
Proof. unfold anon_origins_stmts. induction sub as [|x r IH]; simpl; [reflexivity|]. now rewrite IH. Qed.

Lemma ao_nest f t : anon_origins_stmt (nest f t) = flat_map (fun x => blank_of x ++ AO f x) (kid_of t).
Proof.
  unfold nest, kid_of. destruct (t_o t) as [n|b|n]; cbn [inl]; try reflexivity.
  destruct (inline o && inlined g pinned b); [|reflexivity].
  simpl. rewrite ao_go, app_nil_r. reflexivity.
Qed.

Lemma AO_step f s : AO (S f) s = flat_map (fun x => blank_of x ++ AO f x) (kids s).
Proof.
  unfold AO at 1, kids. rewrite export_statements_S. unfold anon_origins_stmts.
  induction (stmts_of g s) as [|t l IH]; [reflexivity|].
  simpl. rewrite flat_map_app, IH, ao_nest. reflexivity.
Qed.

Lemma cntn_blank_of b l : cntn b (flat_map blank_of l) = cnt (NBlank b) l.
Proof.
  induction l as [|x l IH]; [reflexivity|]. simpl. rewrite cntn_app, cnt_cons, IH.
  destruct x as [n|c|n]; simpl; try reflexivity. rewrite cntn_cons. unfold cntn. simpl. lia.
Qed.

Lemma cntn_flat_map_app {A} b (f h : A -> list nat) l :
  cntn b (flat_map (fun x => f x ++ h x) l) = cntn b (flat_map f l) + cntn b (flat_map h l).
Proof. induction l as [|x l IH]; [reflexivity|]. simpl. rewrite !cntn_app, IH. lia. Qed.

Lemma AO_levels f : forall l b,
  cntn b (flat_map (AO f) l) = cnt (NBlank b) (levels (flat_map kids l) f).
Proof.
  induction f as [|f IH]; intros l b.
  - simpl. induction l as [|s l IHl]; [reflexivity|exact IHl].
  - rewrite (flat_map_ext _ _ (AO_step f)). rewrite <- flat_map_flat_map.
    rewrite cntn_flat_map_app, cntn_blank_of, IH. simpl. now rewrite cnt_app.
Qed.

Definition top_anon (s : node) : list nat :=
  match s with
  | NBlank b => if use_anon o && Nat.eqb (refs g b) 0 && negb (memn b pinned) then [b] else []
  | _ => []
  end.

Lemma anon_origins_export :
  anon_origins (export g pinned o) = flat_map (fun s => top_anon s ++ AO fuel0 s) (U 0).
Proof.
  rewrite export_sel. unfold anon_origins. simpl U.
  induction (subjects g) as [|s l IH]; [reflexivity|].
  cbn [flat_map filter]. rewrite flat_map_app, IH, sel_spec. destruct (inl s); simpl; [reflexivity|].
  f_equal. rewrite app_nil_r. unfold export_resource, AO, fuel0, top_anon. destruct s as [n|b|n]; try reflexivity.
  destruct (use_anon o && Nat.eqb (refs g b) 0 && negb (memn b pinned)); reflexivity.
Qed.

Lemma cntn_top_anon b l : cntn b (flat_map top_anon l) <= cnt (NBlank b) l.
Proof.
  induction l as [|x l IH]; [unfold cntn, cnt; simpl; lia|]. simpl. rewrite cntn_app, cnt_cons.
  destruct x as [n|c|n]; simpl.
  - lia.
  - destruct (use_anon o && Nat.eqb (refs g c) 0 && negb (memn c pinned)).
    + rewrite cntn_cons. change (cntn b []) with 0. lia.
    + change (cntn b []) with 0. lia.
  - lia.
Qed.

Theorem export_anon_NoDup : NoDup (anon_origins (export g pinned o)).
Proof.
  apply NoDup_cntn. intros b. rewrite anon_origins_export, cntn_flat_map_app, AO_levels.
  pose proof (cntn_top_anon b (U 0)) as H1.
  pose proof (cnt_levels_le (S fuel0) 0 (NBlank b)) as H2. cbn [levels] in H2. rewrite cnt_app in H2. lia.
Qed.

End Inline.

(* ---------- the whole statement ---------- *)
Theorem export_flatten_iso g pinned o :
  Permutation (flatten (export g pinned o)) g /\
  NoDup (anon_origins (export g pinned o)) /\
  out_of_fuel (export g pinned o) = false.
Proof.
  split; [apply export_flatten_perm|]. split; [apply export_anon_NoDup|apply export_fuel_sufficient].
Qed.

(* per graph of a dataset: each named graph's resources flatten back to that graph's triples *)
Theorem export_dataset_flatten qs o gn rs :
  In (gn, rs) (export_dataset qs o) ->
  Permutation (flatten rs) (graph_of qs gn) /\ NoDup (anon_origins rs) /\ out_of_fuel rs = false.
Proof.
  unfold export_dataset. rewrite in_map_iff. intros (g0 & E & _). inversion E; subst. apply export_flatten_iso.
Qed.

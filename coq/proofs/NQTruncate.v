(* NQTruncate.v — what the N-Triples / N-Quads decoder model delivers before the reader fails is a prefix of what it
   delivers on any longer input: for every input and every continuation, the statements decoded from the truncated input
   (reader ending in an error there) are the first statements decoded from the whole. *)
From RK Require Import Base BaseFacts Utf8 Runes NQ NQTotal.
Arguments uchar8_dec : simpl never.
Arguments uchar4_dec : simpl never.

(* ---------- scanners are monotone in the input: an accepted prefix stays accepted, the rest is extended ---------- *)
Lemma iri_body_mono_n n : forall inp dec raw v rest tr X, length inp <= n ->
  iri_body inp dec raw = Ok v tr rest -> iri_body (inp ++ X) dec raw = Ok v tr (rest ++ X).
Proof.
  induction n as [|n IHn]; intros inp dec raw v rest tr X Hn.
  { destruct inp; [simpl; discriminate|simpl in Hn; lia]. }
  assert (IH : forall inp2 dec2 raw2 v2 rest2 tr2, length inp2 < length inp -> iri_body inp2 dec2 raw2 = Ok v2 tr2 rest2 -> iri_body (inp2 ++ X) dec2 raw2 = Ok v2 tr2 (rest2 ++ X))
    by (intros; eapply IHn; [lia|eassumption]).
  clear IHn. destruct inp as [|r0 inp']; simpl; [discriminate|].
  destruct (N.eqb (fst r0) 62); [intros [= <- <- <-]; reflexivity|].
  destruct (N.eqb (fst r0) 92).
  - destruct inp' as [|r1 rest1]; [discriminate|]. simpl.
    destruct (N.eqb (fst r1) 117).
    + destruct rest1 as [|a [|b [|c [|d rest2]]]]; try (destruct (uchar4_dec _); discriminate). simpl.
      destruct (hexv (fst a)), (hexv (fst b)), (hexv (fst c)), (hexv (fst d)); try discriminate.
      intros H. apply IH in H; [exact H|simpl; lia].
    + destruct (N.eqb (fst r1) 85); [|discriminate].
      destruct rest1 as [|a [|b [|c [|d [|e [|f [|g [|h rest2]]]]]]]]; try (destruct (uchar8_dec _); discriminate). simpl.
      destruct (uchar8_dec [a; b; c; d; e; f; g; h]) as [[v0 ?] ? ?| | |]; try discriminate.
      intros H. apply IH in H; [exact H|simpl; lia].
  - match goal with |- context [if ?c then Bad else iri_body _ _ _] => destruct c end; [discriminate|].
    intros H. apply IH in H; [exact H|simpl; lia].
Qed.
Lemma iri_body_mono inp dec raw v rest tr X : iri_body inp dec raw = Ok v tr rest -> iri_body (inp ++ X) dec raw = Ok v tr (rest ++ X).
Proof. apply (iri_body_mono_n (length inp)). lia. Qed.

Lemma lit_body_mono_n n : forall inp dec raw v rest tr X, length inp <= n ->
  lit_body inp dec raw = Ok v tr rest -> lit_body (inp ++ X) dec raw = Ok v tr (rest ++ X).
Proof.
  induction n as [|n IHn]; intros inp dec raw v rest tr X Hn.
  { destruct inp; [simpl; discriminate|simpl in Hn; lia]. }
  assert (IH : forall inp2 dec2 raw2 v2 rest2 tr2, length inp2 < length inp -> lit_body inp2 dec2 raw2 = Ok v2 tr2 rest2 -> lit_body (inp2 ++ X) dec2 raw2 = Ok v2 tr2 (rest2 ++ X))
    by (intros; eapply IHn; [lia|eassumption]).
  clear IHn. destruct inp as [|r0 inp']; simpl; [discriminate|].
  destruct (N.eqb (fst r0) 34); [intros [= <- <- <-]; reflexivity|].
  destruct (N.eqb (fst r0) 92).
  - destruct inp' as [|r1 rest1]; [discriminate|]. simpl.
    destruct (N.eqb (fst r1) 117).
    + destruct rest1 as [|a [|b [|c [|d rest2]]]]; try (destruct (uchar4_dec _); discriminate). simpl.
      destruct (hexv (fst a)), (hexv (fst b)), (hexv (fst c)), (hexv (fst d)); try discriminate.
      intros H. apply IH in H; [exact H|simpl; lia].
    + destruct (N.eqb (fst r1) 85).
      * destruct rest1 as [|a [|b [|c [|d [|e [|f [|g [|h rest2]]]]]]]]; try (destruct (uchar8_dec _); discriminate). simpl.
        destruct (uchar8_dec [a; b; c; d; e; f; g; h]) as [[v0 ?] ? ?| | |]; try discriminate.
        intros H. apply IH in H; [exact H|simpl; lia].
      * repeat match goal with |- context [if N.eqb (fst r1) ?c then _ else _] => destruct (N.eqb (fst r1) c) end;
          try discriminate; intros H; (apply IH in H; [exact H|simpl; lia]).
  - intros H. apply IH in H; [exact H|simpl; lia].
Qed.
Lemma lit_body_mono inp dec raw v rest tr X : lit_body inp dec raw = Ok v tr rest -> lit_body (inp ++ X) dec raw = Ok v tr (rest ++ X).
Proof. apply (lit_body_mono_n (length inp)). lia. Qed.

Lemma open_iri_mono lt inp v ps rest X : open_iri lt inp = POk v ps rest -> open_iri lt (inp ++ X) = POk v ps (rest ++ X).
Proof.
  unfold open_iri. destruct (iri_body inp [] [lt]) as [[dec raw] tr r| | |] eqn:E; try discriminate.
  rewrite (iri_body_mono _ _ _ _ _ _ X E). destruct (is_absolute _); [|discriminate]. intros [= <- <- <-]. reflexivity.
Qed.

Lemma lang_secondary_mono inp : forall acc v tr rest X, lang_secondary inp acc = Ok v tr rest -> lang_secondary (inp ++ X) acc = Ok v tr (rest ++ X).
Proof.
  induction inp as [|r0 inp IH]; intros acc v tr rest X; simpl; [discriminate|].
  destruct (is_alnum (fst r0)); [apply IH|].
  destruct (N.eqb (fst r0) 45).
  - destruct acc as [|a acc']; [discriminate|]. destruct (N.eqb (fst a) 45); [discriminate|apply IH].
  - intros [= <- <- <-]. reflexivity.
Qed.

Lemma lang_primary_mono inp : forall acc v tr rest X, lang_primary inp acc = Ok v tr rest -> lang_primary (inp ++ X) acc = Ok v tr (rest ++ X).
Proof.
  induction inp as [|r0 inp IH]; intros acc v tr rest X; simpl; [discriminate|].
  destruct (is_alpha (fst r0)); [apply IH|].
  destruct (N.eqb (fst r0) 45).
  - destruct acc; [discriminate|apply lang_secondary_mono].
  - intros [= <- <- <-]. reflexivity.
Qed.

Lemma open_langtag_mono a inp v ps rest X : open_langtag a inp = POk v ps rest -> open_langtag a (inp ++ X) = POk v ps (rest ++ X).
Proof.
  unfold open_langtag. destruct (lang_primary inp []) as [tag tr r| | |] eqn:E; try discriminate.
  rewrite (lang_primary_mono _ _ _ _ _ X E). destruct tag; [discriminate|]. destruct (last_is_dash _); [discriminate|].
  intros [= <- <- <-]. reflexivity.
Qed.

Lemma open_literal_mono qt inp v ps rest X t : open_literal qt inp TFail = POk v ps rest -> open_literal qt (inp ++ X) t = POk v ps (rest ++ X).
Proof.
  unfold open_literal. destruct (lit_body inp [] [qt]) as [[dec raw] tr r| | |] eqn:E; try discriminate.
  rewrite (lit_body_mono _ _ _ _ _ _ X E).
  destruct r as [|r0 rest1]; [discriminate|]. simpl.
  destruct (N.eqb (fst r0) 64).
  - destruct (open_langtag r0 rest1) as [tag ps' rest2| |] eqn:E2; try discriminate.
    rewrite (open_langtag_mono _ _ _ _ _ X E2). intros [= <- <- <-]. reflexivity.
  - destruct (N.eqb (fst r0) 94).
    + destruct rest1 as [|r1 rest2]; [discriminate|]. simpl. destruct (negb (N.eqb (fst r1) 94)); [discriminate|].
      destruct rest2 as [|r2 rest3]; [discriminate|]. simpl. destruct (negb (N.eqb (fst r2) 60)); [discriminate|].
      destruct (open_iri r2 rest3) as [dt ps' rest4| |] eqn:E2; try discriminate.
      rewrite (open_iri_mono _ _ _ _ _ X E2). destruct (beq dt rdf_langString || beq dt rdf_dirLangString); [discriminate|].
      intros [= <- <- <-]. reflexivity.
    + intros [= <- <- <-]. reflexivity.
Qed.

Lemma bnode_rest_mono inp : forall acc v tr rest X t, bnode_rest inp acc TFail = Ok v tr rest -> bnode_rest (inp ++ X) acc t = Ok v tr (rest ++ X).
Proof.
  induction inp as [|r0 inp IH]; intros acc v tr rest X t; simpl; [discriminate|].
  destruct (pn_chars_nt (fst r0) || N.eqb (fst r0) 46); [apply IH|]. intros [= <- <- <-]. reflexivity.
Qed.

Lemma open_bnode_mono us colon inp v ps rest X t : open_bnode us colon inp TFail = POk v ps rest -> open_bnode us colon (inp ++ X) t = POk v ps (rest ++ X).
Proof.
  unfold open_bnode. destruct inp as [|r0 inp']; [discriminate|]. simpl.
  destruct (pn_chars_u_nt (fst r0) || is_digit (fst r0)); [|discriminate].
  destruct (bnode_rest inp' [r0] TFail) as [lab tr rest1| | |] eqn:E; try discriminate.
  rewrite (bnode_rest_mono _ _ _ _ _ X t E).
  destruct (rev lab) as [|lastr before]; [discriminate|].
  destruct before as [|b0 before'].
  - intros [= <- <- <-]. reflexivity.
  - destruct (N.eqb (fst lastr) 46).
    + destruct (rev (rev (b0 :: before'))) as [|l2 ?]; [discriminate|]. destruct (pn_chars_nt (fst l2)); [|discriminate].
      intros [= <- <- <-]. reflexivity.
    + destruct (rev lab) as [|l2 ?]; [discriminate|]. destruct (pn_chars_nt (fst l2)); [|discriminate].
      intros [= <- <- <-]. reflexivity.
Qed.

Lemma drain_line_mono inp : forall acc cm rest X, drain_line inp acc = (cm, Some rest) -> drain_line (inp ++ X) acc = (cm, Some (rest ++ X)).
Proof.
  induction inp as [|r0 inp IH]; intros acc cm rest X; simpl; [discriminate|].
  destruct (N.eqb (fst r0) 10 || N.eqb (fst r0) 13); [intros [= <- <-]; reflexivity|apply IH].
Qed.

Lemma capture_mono f1 : forall f2 k inp t tr v tr' rest X, f1 <= f2 ->
  capture f1 k inp TFail tr = Ok v tr' rest -> capture f2 k (inp ++ X) t tr = Ok v tr' (rest ++ X).
Proof.
  induction f1 as [|f IH]; intros f2 k inp t tr v tr' rest X Hf; [discriminate|].
  destruct f2 as [|g]; [lia|].
  destruct inp as [|r0 rest0]; simpl; [discriminate|].
  destruct (N.eqb (fst r0) 60).
  { destruct (open_iri r0 rest0) as [i ps rest'| |] eqn:E; try discriminate. rewrite (open_iri_mono _ _ _ _ _ X E).
    intros [= <- <- <-]. reflexivity. }
  destruct (N.eqb (fst r0) 95 && negb _).
  { destruct rest0 as [|r1 rest1]; [discriminate|]. simpl. destruct (N.eqb (fst r1) 58); [|discriminate].
    destruct (open_bnode r0 r1 rest1 TFail) as [b ps rest'| |] eqn:E; try discriminate. rewrite (open_bnode_mono _ _ _ _ _ _ X t E).
    intros [= <- <- <-]. reflexivity. }
  destruct (N.eqb (fst r0) 34 && _).
  { destruct (open_literal r0 rest0 TFail) as [l ps rest'| |] eqn:E; try discriminate. rewrite (open_literal_mono _ _ _ _ _ X t E).
    intros [= <- <- <-]. reflexivity. }
  destruct (N.eqb (fst r0) 35).
  { destruct (drain_line rest0 [r0]) as [cm [rest'|]] eqn:E; [|discriminate]. rewrite (drain_line_mono _ _ _ _ X E). apply IH. lia. }
  destruct (is_space (fst r0)); [apply IH; lia|discriminate].
Qed.

Lemma after_object_mono f1 : forall f2 nq hg inp t tr v tr' rest X, f1 <= f2 ->
  after_object f1 nq hg inp TFail tr = Ok v tr' rest -> after_object f2 nq hg (inp ++ X) t tr = Ok v tr' (rest ++ X).
Proof.
  induction f1 as [|f IH]; intros f2 nq hg inp t tr v tr' rest X Hf; [discriminate|].
  destruct f2 as [|g]; [lia|].
  destruct inp as [|r0 rest0]; cbn [after_object app]; [discriminate|].
  destruct (N.eqb (fst r0) 46); [intros [= <- <- <-]; reflexivity|].
  destruct (N.eqb (fst r0) 35).
  { destruct (drain_line rest0 [r0]) as [cm [rest'|]] eqn:E; [|discriminate]. rewrite (drain_line_mono _ _ _ _ X E). apply IH. lia. }
  destruct (is_space (fst r0)); [apply IH; lia|].
  destruct (nq && negb hg); [|discriminate].
  destruct (capture (S (length (r0 :: rest0))) KGraph (r0 :: rest0) TFail []) as [gr tr1 rest1| | |] eqn:E; try discriminate.
  change (r0 :: rest0 ++ X) with ((r0 :: rest0) ++ X).
  assert (Hc : S (length (r0 :: rest0)) <= S (length ((r0 :: rest0) ++ X))) by (rewrite app_length; lia).
  rewrite (capture_mono _ _ _ _ t _ _ _ _ X Hc E).
  destruct (after_object f nq true rest1 TFail (tr ++ tr1)) as [o tr2 rest2| | |] eqn:E2; try discriminate.
  assert (Hfg : f <= g) by lia.
  rewrite (IH g nq true rest1 t (tr ++ tr1) _ _ _ X Hfg E2). intros [= <- <- <-]. reflexivity.
Qed.

Lemma statement_mono nq inp t tr q tr' rest X :
  statement nq inp TFail tr = Ok q tr' rest -> statement nq (inp ++ X) t tr = Ok q tr' (rest ++ X).
Proof.
  unfold statement.
  assert (Hl : S (length inp) <= S (length (inp ++ X))) by (rewrite app_length; lia).
  destruct (capture (S (length inp)) KSubject inp TFail tr) as [s tr1 r1| | |] eqn:E1; try discriminate.
  rewrite (capture_mono _ _ _ _ t _ _ _ _ X Hl E1).
  destruct (capture (S (length inp)) KPredicate r1 TFail tr1) as [p tr2 r2| | |] eqn:E2; try discriminate.
  rewrite (capture_mono _ _ _ _ t _ _ _ _ X Hl E2).
  destruct (capture (S (length inp)) KObject r2 TFail tr2) as [o tr3 r3| | |] eqn:E3; try discriminate.
  rewrite (capture_mono _ _ _ _ t _ _ _ _ X Hl E3).
  destruct (after_object (S (length inp)) nq false r3 TFail tr3) as [g tr4 r4| | |] eqn:E4; try discriminate.
  rewrite (after_object_mono _ _ _ _ _ t _ _ _ _ X Hl E4). intros [= <- <- <-]. reflexivity.
Qed.

Lemma after_statement_mono f1 : forall f2 inp t tr tr' rest X, f1 <= f2 ->
  after_statement f1 inp TFail tr = GStart tr' rest -> after_statement f2 (inp ++ X) t tr = GStart tr' (rest ++ X).
Proof.
  induction f1 as [|f IH]; intros f2 inp t tr tr' rest X Hf; [discriminate|].
  destruct f2 as [|g]; [lia|].
  destruct inp as [|r0 rest0]; simpl; [discriminate|].
  destruct (N.eqb (fst r0) 35).
  { destruct (drain_line rest0 [r0]) as [cm [rest'|]] eqn:E; [|discriminate]. rewrite (drain_line_mono _ _ _ _ X E).
    intros [= <- <-]. reflexivity. }
  destruct (N.eqb (fst r0) 13 || N.eqb (fst r0) 10); [intros [= <- <-]; reflexivity|].
  destruct (is_space (fst r0)); [apply IH; lia|discriminate].
Qed.

Lemma before_statement_mono f1 : forall f2 inp t tr tr' rest X, f1 <= f2 ->
  before_statement f1 inp TFail tr = GStart tr' rest -> before_statement f2 (inp ++ X) t tr = GStart tr' (rest ++ X).
Proof.
  induction f1 as [|f IH]; intros f2 inp t tr tr' rest X Hf; [discriminate|].
  destruct f2 as [|g]; [lia|].
  destruct inp as [|r0 rest0]; simpl; [discriminate|].
  destruct (N.eqb (fst r0) 35).
  { destruct (drain_line rest0 [r0]) as [cm [rest'|]] eqn:E; [|discriminate]. rewrite (drain_line_mono _ _ _ _ X E). apply IH. lia. }
  destruct (is_space (fst r0)); [apply IH; lia|]. intros [= <- <-]. reflexivity.
Qed.

Lemma decode_loop_prefix f1 : forall f2 nq first inp t X, f1 <= f2 ->
  exists more, fst (decode_loop f2 nq first (inp ++ X) t) = fst (decode_loop f1 nq first inp TFail) ++ more.
Proof.
  induction f1 as [|f IH]; intros f2 nq first inp t X Hf; [eexists; reflexivity|].
  destruct f2 as [|g]; [lia|]. cbn [decode_loop].
  assert (Hl : S (length inp) <= S (length (inp ++ X))) by (rewrite app_length; lia).
  destruct (if first then GStart [] inp else after_statement (S (length inp)) inp TFail []) as [tr1 r1| | | |] eqn:G1;
    try (eexists; reflexivity).
  assert (G1' : (if first then GStart [] (inp ++ X) else after_statement (S (length (inp ++ X))) (inp ++ X) t []) = GStart tr1 (r1 ++ X)).
  { destruct first; [injection G1 as <- <-; reflexivity|]. apply (after_statement_mono _ _ _ _ _ _ _ X Hl G1). }
  rewrite G1'.
  destruct (before_statement (S (length r1)) r1 TFail tr1) as [tr2 r2| | | |] eqn:G2; try (eexists; reflexivity).
  assert (Hb : S (length r1) <= S (length (r1 ++ X))) by (rewrite app_length; lia).
  rewrite (before_statement_mono _ _ _ t _ _ _ X Hb G2).
  destruct (statement nq r2 TFail tr2) as [q tr3 r3| | |] eqn:E; try (eexists; reflexivity).
  rewrite (statement_mono _ _ t _ _ _ _ X E).
  assert (Hfg : f <= g) by lia.
  destruct (IH g nq false r3 t X Hfg) as (more & Em).
  destruct (decode_loop g nq false (r3 ++ X) t) as [l v]. destruct (decode_loop f nq false r3 TFail) as [l0 v0].
  cbn [fst] in *. exists more. rewrite Em. reflexivity.
Qed.

(* truncation: what is decoded from a prefix of the input, the reader failing there, is a prefix of what is decoded
   from the whole input, however the reader ends *)
Theorem decode_truncated_prefix nq inp X t :
  exists more, fst (decode nq (inp ++ X) t) = fst (decode nq inp TFail) ++ more.
Proof. unfold decode. apply decode_loop_prefix. rewrite app_length. lia. Qed.

(* RdfXmlProofs.v — facts about the RDF/XML mapping that hold for every document: rdf:li numbering, language and
   base scoping, freshness bookkeeping of generated blank nodes. *)
From RK Require Import Base BaseFacts Iri3986 RdfXml.

Lemma scope_none c : scope c [] = c.
Proof. destruct c; reflexivity. Qed.

(* xml:lang: the innermost declaration wins; xml:lang="" switches the language off *)
Theorem scope_lang c attrs :
  c_lang (scope c attrs) = match attr (XMLNS ++ s2b "lang") attrs with Some v => v | None => c_lang c end.
Proof. reflexivity. Qed.

Theorem scope_base c attrs :
  c_base (scope c attrs) = match attr (XMLNS ++ s2b "base") attrs with Some v => resolve (c_base c) v | None => c_base c end.
Proof. reflexivity. Qed.

Definition li_elt (t : bytes) : xnode := XE (rdf "li") [] [XT t].
Definition li_pred (i : nat) : bytes := RDFNS ++ 95%N :: dec_print (N.of_nat i).

(* one rdf:li with text content *)
Lemma prop_li_literal f c s t li k : t <> [] ->
  prop_elt (S f) c s (li_elt t) li k = Some ([(s, li_pred li, lit c t)], S li, k).
Proof.
  intros Ht. unfold li_elt. cbn [prop_elt]. rewrite scope_none. rewrite beq_refl.
  cbn [attr elems filter text_of flat_map app]. rewrite app_nil_r.
  destruct t as [|x t]; [congruence|]. cbn [has_prop_attrs existsb orb reify attr]. reflexivity.
Qed.

Fixpoint li_triples (s : rterm) (c : ctx) (li : nat) (texts : list bytes) : list rtriple :=
  match texts with [] => [] | t :: ts => (s, li_pred li, lit c t) :: li_triples s c (S li) ts end.

(* the items of a container written with rdf:li are numbered 1, 2, 3, ... in document order, for every number of items *)
Theorem li_numbering f c s : forall texts li k acc, Forall (fun t => t <> []) texts ->
  fold_props (prop_elt (S f) c s) (map li_elt texts) li k acc = Some (acc ++ li_triples s c li texts, li + length texts, k).
Proof.
  induction texts as [|t ts IH]; intros li k acc Hne.
  - cbn. rewrite app_nil_r, Nat.add_0_r. reflexivity.
  - inversion Hne as [|? ? Ht Hts]; subst. cbn [map fold_props li_elt]. fold (li_elt t).
    rewrite prop_li_literal by exact Ht. rewrite IH by exact Hts.
    cbn [length li_triples]. rewrite <- app_assoc. cbn [app]. replace (S li + length ts) with (li + S (length ts)) by lia. reflexivity.
Qed.

Theorem li_triples_nth s c : forall texts li i t, nth_error texts i = Some t ->
  nth_error (li_triples s c li texts) i = Some (s, li_pred (li + i), lit c t).
Proof.
  induction texts as [|x ts IH]; intros li i t H; [destruct i; discriminate|].
  destruct i as [|i]; cbn [nth_error li_triples] in *.
  - inversion H; subst. rewrite Nat.add_0_r. reflexivity.
  - rewrite (IH (S li) i t H). replace (S li + i) with (li + S i) by lia. reflexivity.
Qed.

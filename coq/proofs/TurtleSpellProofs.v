(* TurtleSpellProofs.v — every spelling of an IRIREF and of a short string literal: each character may be written
   raw (where the grammar allows it) or as any of the escapes; the scanners of the decoder model return the
   characters denoted, whatever mix of spellings is chosen. *)
From RK Require Import Base BaseFacts Utf8 Runes NQ NQProofs TurtleTok TurtleStrProofs.
From Coq Require Import ZifyN ZifyNat ZifyBool.
Ltac Zify.zify_post_hook ::= Z.div_mod_to_equations.

(* one character of a token, as written *)
Inductive spell := SRaw (c : N) | SEchar (e : N) | SU4 (c : N) | SU8 (c : N).

(* lower-case hex digits are as good as upper-case ones: the writer may use either *)
Definition hex_lower (v : N) : N := if (v <? 10)%N then (48 + v)%N else (87 + v)%N.
Lemma hexv_hex_lower v : (v < 16)%N -> hexv (hex_lower v) = Some v.
Proof.
  intros H. unfold hexv, hex_lower, rng.
  destruct (v <? 10)%N eqn:E.
  - assert (Hr : ((48 <=? 48 + v) && (48 + v <=? 57))%N = true) by lia. rewrite Hr. f_equal. lia.
  - assert (Hr1 : ((48 <=? 87 + v) && (87 + v <=? 57))%N = false) by lia. rewrite Hr1.
    assert (Hr2 : ((65 <=? 87 + v) && (87 + v <=? 70))%N = false) by lia. rewrite Hr2.
    assert (Hr3 : ((97 <=? 87 + v) && (87 + v <=? 102))%N = true) by lia. rewrite Hr3. f_equal. lia.
Qed.

(* up: which hex digits are written in upper case (one flag per token; mixed case inside one escape is covered by
   the correspondence runs) *)
Definition hx (up : bool) (v : N) : N := if up then hex_upper v else hex_lower v.
Lemma hexv_hx up v : (v < 16)%N -> hexv (hx up v) = Some v.
Proof. destruct up; [apply hexv_hex_upper|apply hexv_hex_lower]. Qed.

Definition dig (up : bool) (c s : N) : N := hx up ((c / s) mod 16).
Lemma hexv_dig up c s : hexv (dig up c s) = Some ((c / s) mod 16)%N.
Proof. apply hexv_hx. apply N.mod_lt. discriminate. Qed.

Definition write_u4 (up : bool) (c : N) : list N := [92%N; 117%N; dig up c 4096; dig up c 256; dig up c 16; dig up c 1].
Definition write_u8 (up : bool) (c : N) : list N :=
  [92%N; 85%N; 48%N; 48%N; dig up c 1048576; dig up c 65536; dig up c 4096; dig up c 256; dig up c 16; dig up c 1].

Lemma u4_dec up c X : (c < 65536)%N -> uchar4_n ([dig up c 4096; dig up c 256; dig up c 16; dig up c 1] ++ X) = Some (c, X).
Proof. intros H. cbn [app uchar4_n]. rewrite !hexv_dig. f_equal. f_equal. lia. Qed.

Lemma u8_dec up c X : (c < 1114112)%N ->
  uchar8_n ([48%N; 48%N; dig up c 1048576; dig up c 65536; dig up c 4096; dig up c 256; dig up c 16; dig up c 1] ++ X) = Some (c, X).
Proof.
  intros H. cbn [app uchar8_n]. rewrite !hexv_dig. change (hexv 48) with (Some 0%N). cbn [N.eqb andb].
  assert (((c / 1048576) mod 16 <=? 1)%N = true) as -> by lia. f_equal. f_equal. lia.
Qed.

(* ---------- IRIREF ---------- *)
Definition iri_raw_ok (c : N) : bool :=
  negb ((c <=? 32)%N || memN c [60; 62; 34; 123; 125; 124; 94; 96; 92]%N).

Definition iri_spell_ok (u : spell) : bool :=
  match u with
  | SRaw c => iri_raw_ok c
  | SEchar _ => false
  | SU4 c => (c <? 65536)%N
  | SU8 c => (c <? 1114112)%N
  end.

Definition write_spell (up : bool) (u : spell) : list N :=
  match u with
  | SRaw c => [c]
  | SEchar e => [92%N; e]
  | SU4 c => write_u4 up c
  | SU8 c => write_u8 up c
  end.

(* the character an escape or a raw rune denotes; code points that are not scalar values come out as U+FFFD *)
Definition denote (u : spell) : N :=
  match u with
  | SRaw c => c
  | SEchar e => match echar_val e with Some v => v | None => 0%N end
  | SU4 c => sanitize c
  | SU8 c => sanitize c
  end.

Lemma iri_spell_unit up u X dec f : iri_spell_ok u = true ->
  iriref_body (S f) (write_spell up u ++ X) dec = iriref_body f X (denote u :: dec).
Proof.
  destruct u as [c|e|c|c]; cbn [iri_spell_ok write_spell denote]; intros H; try discriminate.
  - unfold iri_raw_ok in H. apply negb_true_iff in H. apply orb_false_iff in H. destruct H as [H32 HM].
    assert (N.eqb c 62 = false /\ N.eqb c 92 = false /\ memN c [60; 34; 123; 125; 124; 94; 96]%N = false) as (N62 & N92 & NM).
    { unfold memN in *. cbn [existsb] in *. repeat split; lia. }
    cbn [app iriref_body]. rewrite N62, N92, H32, NM. reflexivity.
  - unfold write_u4. cbn [app iriref_body]. change (N.eqb 92 62) with false. change (N.eqb 92 92) with true. change (N.eqb 117 117) with true.
    change (dig up c 4096 :: dig up c 256 :: dig up c 16 :: dig up c 1 :: X) with ([dig up c 4096; dig up c 256; dig up c 16; dig up c 1] ++ X).
    rewrite u4_dec by lia. reflexivity.
  - unfold write_u8. cbn [app iriref_body]. change (N.eqb 92 62) with false. change (N.eqb 92 92) with true.
    change (N.eqb 85 117) with false. change (N.eqb 85 85) with true.
    change (48%N :: 48%N :: dig up c 1048576 :: dig up c 65536 :: dig up c 4096 :: dig up c 256 :: dig up c 16 :: dig up c 1 :: X)
      with ([48%N; 48%N; dig up c 1048576; dig up c 65536; dig up c 4096; dig up c 256; dig up c 16; dig up c 1] ++ X).
    rewrite u8_dec by lia. reflexivity.
Qed.

Lemma iri_spell_units up : forall us X dec f, forallb iri_spell_ok us = true -> length us < f ->
  iriref_body f (flat_map (write_spell up) us ++ 62%N :: X) dec = Some (rev dec ++ map denote us, X).
Proof.
  induction us as [|u us IH]; intros X dec f H Hf.
  - destruct f; [cbn in Hf; lia|]. cbn [flat_map app iriref_body map]. change (N.eqb 62 62) with true. now rewrite app_nil_r.
  - cbn [forallb] in H. apply andb_true_iff in H. destruct H as [Hu Hus]. destruct f; [cbn in Hf; lia|].
    cbn [flat_map map]. rewrite <- app_assoc. rewrite iri_spell_unit by exact Hu.
    rewrite IH by (assumption || (cbn [length] in Hf; lia)). cbn [rev]. rewrite <- app_assoc. reflexivity.
Qed.

Lemma write_spell_len up u : 1 <= length (write_spell up u).
Proof. destruct u; cbn; lia. Qed.

Lemma flat_spell_len up us : length us <= length (flat_map (write_spell up) us).
Proof. induction us as [|u us IH]; cbn [flat_map length]; [lia|]. rewrite app_length. pose proof (write_spell_len up u). lia. Qed.

(* every spelling of an IRIREF *)
Theorem iriref_every_spelling up us rest :
  forallb iri_spell_ok us = true ->
  lex_iriref (flat_map (write_spell up) us ++ 62%N :: rest) = Some (map denote us, rest).
Proof.
  intros H. unfold lex_iriref. rewrite iri_spell_units; [reflexivity|exact H|].
  rewrite app_length. pose proof (flat_spell_len up us). cbn [length]. lia.
Qed.

(* ---------- short strings, both quote characters ---------- *)
Definition str_spell_ok (q : N) (u : spell) : bool :=
  match u with
  | SRaw c => negb (N.eqb c q) && negb (N.eqb c 92)
  | SEchar e => match echar_val e with Some _ => true | None => false end
  | SU4 c => (c <? 65536)%N
  | SU8 c => (c <? 1114112)%N
  end.

Lemma echar_not_u e v : echar_val e = Some v -> N.eqb e 117 = false /\ N.eqb e 85 = false.
Proof.
  unfold echar_val.
  destruct (N.eqb e 117) eqn:A; [apply N.eqb_eq in A; subst; discriminate|].
  destruct (N.eqb e 85) eqn:B; [apply N.eqb_eq in B; subst; discriminate|]. auto.
Qed.

Lemma str_spell_unit up q u X dec f : (q = 34 \/ q = 39)%N -> str_spell_ok q u = true ->
  str_body (S f) q false (write_spell up u ++ X) dec = str_body f q false X (denote u :: dec).
Proof.
  intros Hq. assert (N.eqb 92 q = false) as Q92 by (destruct Hq; subst; reflexivity).
  assert (N.eqb 92 34 || N.eqb 92 39 = false) as Q2 by reflexivity.
  destruct u as [c|e|c|c]; cbn [str_spell_ok write_spell denote]; intros H.
  - apply andb_true_iff in H. destruct H as [H1 H2]. apply negb_true_iff in H1, H2.
    cbn [app str_body]. rewrite H1, H2. cbn [negb]. destruct (N.eqb c 34 || N.eqb c 39); reflexivity.
  - destruct (echar_val e) as [v|] eqn:E; [|discriminate]. destruct (echar_not_u _ _ E) as [A B].
    cbn [app str_body]. rewrite Q92, Q2. change (N.eqb 92 92) with true. rewrite A, B, E. reflexivity.
  - unfold write_u4. cbn [app str_body]. rewrite Q92, Q2. change (N.eqb 92 92) with true. change (N.eqb 117 117) with true.
    change (dig up c 4096 :: dig up c 256 :: dig up c 16 :: dig up c 1 :: X) with ([dig up c 4096; dig up c 256; dig up c 16; dig up c 1] ++ X).
    rewrite u4_dec by lia. reflexivity.
  - unfold write_u8. cbn [app str_body]. rewrite Q92, Q2. change (N.eqb 92 92) with true.
    change (N.eqb 85 117) with false. change (N.eqb 85 85) with true.
    change (48%N :: 48%N :: dig up c 1048576 :: dig up c 65536 :: dig up c 4096 :: dig up c 256 :: dig up c 16 :: dig up c 1 :: X)
      with ([48%N; 48%N; dig up c 1048576; dig up c 65536; dig up c 4096; dig up c 256; dig up c 16; dig up c 1] ++ X).
    rewrite u8_dec by lia. reflexivity.
Qed.

Lemma str_spell_units up q : (q = 34 \/ q = 39)%N -> forall us X dec f, forallb (str_spell_ok q) us = true -> length us < f ->
  str_body f q false (flat_map (write_spell up) us ++ q :: X) dec = Some (rev dec ++ map denote us, X).
Proof.
  intros Hq. induction us as [|u us IH]; intros X dec f H Hf.
  - destruct f; [cbn in Hf; lia|]. cbn [flat_map app str_body map]. rewrite N.eqb_refl. cbn [negb]. now rewrite app_nil_r.
  - cbn [forallb] in H. apply andb_true_iff in H. destruct H as [Hu Hus]. destruct f; [cbn in Hf; lia|].
    cbn [flat_map map]. rewrite <- app_assoc. rewrite str_spell_unit by assumption.
    rewrite IH by (assumption || (cbn [length] in Hf; lia)). cbn [rev]. rewrite <- app_assoc. reflexivity.
Qed.

(* every spelling of a short string literal, with either quote character *)
Theorem short_string_every_spelling up q us rest :
  (q = 34 \/ q = 39)%N -> forallb (str_spell_ok q) us = true ->
  (us = [] -> match rest with c :: _ => c <> q | [] => True end) ->
  lex_string q (flat_map (write_spell up) us ++ q :: rest) = Some (map denote us, rest).
Proof.
  intros Hq H Hd. destruct us as [|u us].
  - cbn [flat_map app lex_string map]. rewrite N.eqb_refl.
    destruct rest as [|c rest']; [reflexivity|]. specialize (Hd eq_refl). cbn in Hd. rewrite (proj2 (N.eqb_neq _ _) Hd). reflexivity.
  - unfold lex_string.
    destruct (flat_map (write_spell up) (u :: us) ++ q :: rest) as [|c0 r0] eqn:E.
    { apply (f_equal (@length N)) in E. rewrite app_length in E. cbn in E. lia. }
    assert (N.eqb c0 q = false) as C0.
    { cbn [forallb] in H. apply andb_true_iff in H. destruct H as [Hu _].
      cbn [flat_map] in E. destruct u as [c|e|c|c]; cbn [write_spell write_u4 write_u8 app] in E; inversion E; subst;
        try (destruct Hq; subst; reflexivity).
      cbn [str_spell_ok] in Hu. apply andb_true_iff in Hu. destruct Hu as [Hu _]. now apply negb_true_iff in Hu. }
    rewrite C0. rewrite <- E. rewrite str_spell_units; [reflexivity|exact Hq|exact H|].
    rewrite app_length. pose proof (flat_spell_len up (u :: us)). cbn [length] in *. lia.
Qed.

(* ---------- PN_LOCAL: every spelling of a local name ---------- *)
From RK Require Import TurtleLocalProofs.

Inductive lspell := LRaw (c : N) | LEscd (c : N) | LPlx (h1 h2 : N).

Definition write_l (u : lspell) : list N :=
  match u with LRaw c => [c] | LEscd c => [92%N; c] | LPlx h1 h2 => [37%N; h1; h2] end.
Definition denote_l (u : lspell) : list N :=
  match u with LRaw c => [c] | LEscd c => [c] | LPlx h1 h2 => [37%N; h1; h2] end.

Definition lspell_ok (first : bool) (u : lspell) : bool :=
  match u with
  | LRaw c => if first then pn_chars_u c || N.eqb c 58 || is_digit c else pn_chars c || N.eqb c 46 || N.eqb c 58
  | LEscd c => local_esc c
  | LPlx h1 h2 => is_hex h1 && is_hex h2
  end.

Fixpoint lspells_ok (first : bool) (us : list lspell) : bool :=
  match us with
  | [] => true
  | u :: t => lspell_ok first u && lspells_ok false t
  end.

Definition last_not_raw_dot (us : list lspell) : Prop :=
  match rev us with LRaw c :: _ => c <> 46%N | _ => True end.

Lemma lspell_unit first u tail : lspell_ok first u = true ->
  local_unit first (write_l u ++ tail) = SOne (denote_l u) (write_l u) tail.
Proof.
  destruct u as [c|c|h1 h2]; cbn [lspell_ok write_l denote_l app local_unit]; intros H.
  - rewrite H. reflexivity.
  - assert (N.eqb 92 58 = false) by reflexivity. assert (pn_chars_u 92 = false) by reflexivity.
    assert (is_digit 92 = false) by reflexivity. assert (pn_chars 92 = false) by reflexivity.
    rewrite H. destruct first; reflexivity.
  - assert (pn_chars_u 37 = false) by reflexivity. assert (is_digit 37 = false) by reflexivity. assert (pn_chars 37 = false) by reflexivity.
    rewrite H. destruct first; reflexivity.
Qed.

Lemma write_l_len u : 1 <= length (write_l u).
Proof. destruct u; cbn; lia. Qed.

Lemma lspell_loop rest : local_delim rest -> forall us first dec raw fuel,
  lspells_ok first us = true -> length (flat_map write_l us ++ rest) < fuel ->
  local_loop fuel first (flat_map write_l us ++ rest) dec raw =
  Some (rev (flat_map denote_l us) ++ dec, rev (flat_map write_l us) ++ raw, rest).
Proof.
  intros Hd. induction us as [|u t IH]; intros first dec raw fuel H Hf.
  - cbn [flat_map app rev]. destruct fuel; [lia|]. cbn [local_loop]. rewrite (delim_unit _ _ Hd). reflexivity.
  - cbn [lspells_ok] in H. apply andb_true_iff in H. destruct H as [Hu Ht].
    destruct fuel; [lia|]. cbn [flat_map local_loop]. rewrite <- app_assoc. rewrite lspell_unit by exact Hu.
    pose proof (write_l_len u) as L.
    rewrite IH; [|exact Ht|cbn [flat_map] in Hf; rewrite !app_length in *; lia].
    rewrite !rev_app_distr. rewrite <- !app_assoc. reflexivity.
Qed.

Lemma lspell_last_rev : forall r u, 
  (match u with LRaw c => c <> 46%N | _ => True end) ->
  (match u with LPlx h1 h2 => is_hex h2 = true | _ => True end) ->
  match rev (flat_map write_l (rev (u :: r))) with
  | c :: p :: _ => c = 46%N -> p = 92%N
  | [c] => c <> 46%N
  | [] => True
  end.
Proof.
  intros r u Hl Hhex. cbn [rev]. rewrite flat_map_app, rev_app_distr. cbn [flat_map]. rewrite app_nil_r.
  destruct u as [c|c|h1 h2]; cbn [write_l rev app].
  - destruct (rev (flat_map write_l (rev r))); [exact Hl|intros X; congruence].
  - intros _. reflexivity.
  - assert (h2 <> 46%N) as N46 by (intros ->; discriminate).
    intros X; congruence.
Qed.

Lemma lspell_last : forall us, last_not_raw_dot us ->
  (forall u, In u us -> match u with LPlx h1 h2 => is_hex h2 = true | _ => True end) ->
  match rev (flat_map write_l us) with
  | c :: p :: _ => c = 46%N -> p = 92%N
  | [c] => c <> 46%N
  | [] => True
  end.
Proof.
  intros us Hl Hhex. unfold last_not_raw_dot in Hl.
  destruct (rev us) as [|u r] eqn:R.
  - apply (f_equal (@rev lspell)) in R. rewrite rev_involutive in R. subst us. exact I.
  - assert (us = rev (u :: r)) as -> by (rewrite <- R, rev_involutive; reflexivity).
    apply lspell_last_rev.
    + destruct u; auto.
    + apply Hhex. rewrite <- in_rev. left. reflexivity.
Qed.

Lemma lspells_hex : forall us first, lspells_ok first us = true ->
  forall u, In u us -> match u with LPlx h1 h2 => is_hex h2 = true | _ => True end.
Proof.
  induction us as [|v t IH]; intros first H u Hin; [destruct Hin|].
  cbn [lspells_ok] in H. apply andb_true_iff in H. destruct H as [Hv Ht]. destruct Hin as [->|Hin]; [|eapply IH; eauto].
  destruct u; auto. cbn [lspell_ok] in Hv. apply andb_true_iff in Hv. tauto.
Qed.

(* every spelling of a local name: raw characters where PN_LOCAL allows them, any PN_LOCAL_ESC escaped, any PLX *)
Theorem local_every_spelling us rest :
  lspells_ok true us = true -> last_not_raw_dot us -> local_delim rest ->
  lex_local (flat_map write_l us ++ rest) = Some (flat_map denote_l us, rest).
Proof.
  intros H Hl Hd. unfold lex_local.
  rewrite (lspell_loop rest Hd us true [] [] _ H) by lia.
  rewrite !app_nil_r. rewrite trim_keep by (apply lspell_last; [exact Hl|apply (lspells_hex us true H)]).
  rewrite rev_involutive. reflexivity.
Qed.

(* CanonProofs.v — structure of the canonicalization result, for every hash function and every dataset:
   the lines are sorted; line j is the serialisation of the input quad its index names under the issued identifier
   map; the indexes are a permutation of the input positions; the issued map gives every blank node of the dataset
   an identifier prefix ++ k, k = 0, 1, 2, ... in issue order, one-to-one. *)
From RK Require Import Base BaseFacts Xsd XsdProofs Canon.
From Coq Require Import Permutation Sorted.
From Coq Require Import ZifyN ZifyNat ZifyBool.

(* ---------- byte order ---------- *)
Lemma bcmp_refl a : bcmp a a = Eq.
Proof. induction a as [|x a IH]; cbn [bcmp]; [reflexivity|]. now rewrite N.compare_refl. Qed.

Lemma bcmp_antisym : forall a b, bcmp b a = CompOpp (bcmp a b).
Proof.
  induction a as [|x a IH]; destruct b as [|y b]; cbn [bcmp]; try reflexivity.
  rewrite (N.compare_antisym x y). destruct (N.compare x y); cbn [CompOpp]; [apply IH|reflexivity|reflexivity].
Qed.

Lemma bcmp_lt_trans : forall a b c, bcmp a b = Lt -> bcmp b c = Lt -> bcmp a c = Lt.
Proof.
  induction a as [|x a IH]; destruct b as [|y b]; destruct c as [|z c]; cbn [bcmp]; try discriminate; try reflexivity.
  destruct (N.compare x y) eqn:E1; destruct (N.compare y z) eqn:E2; try discriminate; intros H1 H2.
  - apply N.compare_eq in E1, E2. subst. rewrite N.compare_refl. eapply IH; eauto.
  - apply N.compare_eq in E1. subst. now rewrite E2.
  - apply N.compare_eq in E2. subst. now rewrite E1.
  - assert (N.compare x z = Lt) as ->; [|reflexivity]. exact (N.lt_trans x y z E1 E2).
Qed.

Lemma bcmp_eq : forall a b, bcmp a b = Eq -> a = b.
Proof.
  induction a as [|x a IH]; destruct b as [|y b]; cbn [bcmp]; try discriminate; [reflexivity|].
  destruct (N.compare x y) eqn:E; try discriminate. intros H. apply N.compare_eq in E. subst. f_equal. now apply IH.
Qed.

Lemma bleb_total a b : bleb a b = true \/ bleb b a = true.
Proof. unfold bleb. rewrite (bcmp_antisym a b). destruct (bcmp a b); cbn; auto. Qed.

Lemma bleb_trans a b c : bleb a b = true -> bleb b c = true -> bleb a c = true.
Proof.
  unfold bleb. destruct (bcmp a b) eqn:E1; destruct (bcmp b c) eqn:E2; try discriminate; intros _ _.
  - apply bcmp_eq in E1, E2. subst. now rewrite bcmp_refl.
  - apply bcmp_eq in E1. subst. now rewrite E2.
  - apply bcmp_eq in E2. subst. now rewrite E1.
  - now rewrite (bcmp_lt_trans _ _ _ E1 E2).
Qed.

(* ---------- the identifier issuer ---------- *)
(* well-formed: the k-th issued identifier is prefix ++ k, and no blank node was issued twice *)
Definition issuer_wf (i : issuer) : Prop :=
  NoDup (map fst (i_issued i)) /\
  forall k e, nth_error (i_issued i) k = Some e -> snd e = i_prefix i ++ dec_print (N.of_nat k).

Lemma assoc_none k l : assoc k l = None <-> ~ In k (map fst l).
Proof.
  induction l as [|[a b] l IH]; cbn [assoc map fst In]; [tauto|].
  destruct (beq a k) eqn:E.
  - apply beq_true_iff in E. subst. split; [discriminate|intros H; exfalso; apply H; left; reflexivity].
  - apply beq_false_iff in E. rewrite IH. tauto.
Qed.

Lemma assoc_some k l v : assoc k l = Some v -> In (k, v) l.
Proof.
  induction l as [|[a b] l IH]; cbn [assoc]; [discriminate|].
  destruct (beq a k) eqn:E; [apply beq_true_iff in E; subst; intros H; inversion H; left; reflexivity|right; auto].
Qed.

Lemma NoDup_snoc {A} (l : list A) (x : A) : NoDup l -> ~ In x l -> NoDup (l ++ [x]).
Proof.
  intros H Hx. apply (NoDup_Add (a := x) (l := l)); [|split; assumption].
  pose proof (Add_app x l []) as A0. now rewrite app_nil_r in A0.
Qed.

Lemma issue_wf i n : issuer_wf i -> issuer_wf (snd (issue i n)).
Proof.
  intros [Hn Hk]. unfold issue. destruct (lookup i n) as [id|] eqn:L; cbn [snd]; [split; assumption|].
  unfold lookup in L. apply assoc_none in L. split; cbn [i_issued i_prefix].
  - rewrite map_app. cbn [map fst]. apply NoDup_snoc; assumption.
  - intros k e Hke. destruct (Nat.lt_ge_cases k (length (i_issued i))) as [Hlt|Hge].
    + rewrite nth_error_app1 in Hke by exact Hlt. apply Hk; exact Hke.
    + rewrite nth_error_app2 in Hke by exact Hge.
      destruct (k - length (i_issued i)) as [|m] eqn:D; cbn [nth_error] in Hke.
      * inversion Hke; subst. cbn [snd]. replace k with (length (i_issued i)) by lia. reflexivity.
      * destruct m; discriminate.
Qed.

Lemma issue_prefix i n : i_prefix (snd (issue i n)) = i_prefix i.
Proof. unfold issue. destruct (lookup i n); reflexivity. Qed.

(* issuing never forgets: whatever was known stays, with the same identifier *)
Lemma assoc_app_some k l l' v : assoc k l = Some v -> assoc k (l ++ l') = Some v.
Proof. induction l as [|[a b] l IH]; cbn [assoc app]; [discriminate|]. destruct (beq a k); auto. Qed.

Lemma issue_keeps i n x v : lookup i x = Some v -> lookup (snd (issue i n)) x = Some v.
Proof.
  unfold issue, lookup. destruct (assoc n (i_issued i)) eqn:L; cbn [snd i_issued]; [auto|]. apply assoc_app_some.
Qed.

Lemma assoc_app_none k l l' : assoc k l = None -> assoc k (l ++ l') = assoc k l'.
Proof. induction l as [|[a b] l IH]; cbn [assoc app]; [reflexivity|]. destruct (beq a k); [discriminate|auto]. Qed.

Lemma issue_knows i n : lookup (snd (issue i n)) n <> None.
Proof.
  unfold issue. destruct (lookup i n) eqn:L; cbn [snd]; [congruence|].
  unfold lookup in *. cbn [i_issued]. rewrite assoc_app_none by exact L. cbn [assoc]. rewrite beq_refl. discriminate.
Qed.

Lemma issue_all_wf l : forall c, issuer_wf c -> issuer_wf (issue_all c l).
Proof. unfold issue_all. induction l as [|n l IH]; intros c Hc; cbn [fold_left]; [exact Hc|]. apply IH, issue_wf, Hc. Qed.

Lemma issue_all_prefix l : forall c, i_prefix (issue_all c l) = i_prefix c.
Proof. unfold issue_all. induction l as [|n l IH]; intros c; cbn [fold_left]; [reflexivity|]. rewrite IH. apply issue_prefix. Qed.

Lemma issue_all_keeps l : forall c x v, lookup c x = Some v -> lookup (issue_all c l) x = Some v.
Proof. unfold issue_all. induction l as [|n l IH]; intros c x v Hc; cbn [fold_left]; [exact Hc|]. apply IH, issue_keeps, Hc. Qed.

Lemma issue_all_knows l : forall c x, In x l -> lookup (issue_all c l) x <> None.
Proof.
  unfold issue_all. induction l as [|n l IH]; intros c x Hx; [destruct Hx|]. cbn [fold_left]. destruct Hx as [->|Hx]; [|apply IH; exact Hx].
  destruct (lookup (snd (issue c x)) x) as [v|] eqn:L; [|exfalso; eapply issue_knows; exact L].
  fold (issue_all (snd (issue c x)) l). rewrite (issue_all_keeps l _ x v L). discriminate.
Qed.

(* ---------- the canonical issuer stays well-formed through steps 4 and 5 ---------- *)
Section WithHash.
Variable H : bytes -> bytes.

Lemma fold_results_wf (rs : list (bytes * issuer)) : forall c, issuer_wf c -> i_prefix c = s2b "c14n" ->
  let c' := fold_left (fun c r => issue_all c (map fst (i_issued (snd r)))) rs c in issuer_wf c' /\ i_prefix c' = s2b "c14n".
Proof.
  induction rs as [|r rs IH]; intros c Hc Hp; cbn [fold_left]; [split; assumption|].
  apply IH; [apply issue_all_wf; exact Hc|rewrite issue_all_prefix; exact Hp].
Qed.

Lemma step5_wf qs : forall gs c c', issuer_wf c -> i_prefix c = s2b "c14n" -> step5 H qs gs c = inl c' -> issuer_wf c' /\ i_prefix c' = s2b "c14n".
Proof.
  induction gs as [|[h l] gs IH]; intros c c' Hc Hp E; cbn [step5] in E.
  - inversion E; subst. split; assumption.
  - destruct (step5_nodes H qs c l []) as [results|e]; [|discriminate].
    destruct (fold_results_wf (isort (fun a b => bleb (fst a) (fst b)) results) c Hc Hp) as [W P].
    eapply IH; [exact W|exact P|exact E].
Qed.

Lemma step4_wf (sorted : list (bytes * list bytes)) : forall c, issuer_wf c -> i_prefix c = s2b "c14n" ->
  let c' := fold_left (fun c g => match snd g with [n] => snd (issue c n) | _ => c end) sorted c in issuer_wf c' /\ i_prefix c' = s2b "c14n".
Proof.
  induction sorted as [|g gs IH]; intros c Hc Hp; cbn [fold_left]; [split; assumption|].
  destruct (snd g) as [|n [|? ?]]; try (apply IH; assumption).
  apply IH; [apply issue_wf; exact Hc|rewrite issue_prefix; exact Hp].
Qed.

Lemma empty_wf p : issuer_wf (Issuer p []).
Proof. split; cbn; [constructor|]. intros k e Hk. destruct k; discriminate. Qed.

(* ---------- the result ---------- *)
Definition id_of (c : issuer) (l : bytes) : bytes := match lookup c l with Some id => id | None => [] end.

Theorem canonicalize_structure qs lines canon :
  canonicalize H qs = COk lines canon ->
  (* the issued identifiers *)
  issuer_wf canon /\ i_prefix canon = s2b "c14n" /\
  (forall l, In l (flat_map quad_labels qs) -> lookup canon l <> None) /\
  (* the lines: sorted, and exactly the input quads under the issued identifiers, each named by its index *)
  StronglySorted (fun a b => bleb (snd a) (snd b) = true) lines /\
  Permutation lines (combine (seq 0 (length qs)) (map (ser_quad (id_of canon)) qs)).
Proof.
  unfold canonicalize. intros E.
  set (ns := bnodes qs) in *.
  set (sorted := isort by_hash (group_all (map (fun n => (hash_first_degree H qs n, n)) ns) [])) in *.
  set (canon1 := fold_left (fun c g => match snd g with [n] => snd (issue c n) | _ => c end) sorted (Issuer (s2b "c14n") [])) in *.
  destruct (step4_wf sorted (Issuer (s2b "c14n") []) (empty_wf _) eq_refl) as [W1 P1]. fold canon1 in W1, P1.
  destruct (step5 H qs (filter (fun g => match snd g with [_] => false | _ => true end) sorted) canon1) as [canon2|e] eqn:S5.
  2:{ destruct e; discriminate. }
  destruct (step5_wf qs _ canon1 canon2 W1 P1 S5) as [W2 P2].
  inversion E; subst lines canon. clear E.
  split; [apply issue_all_wf; exact W2|].
  split; [rewrite issue_all_prefix; exact P2|].
  split; [intros l Hl; apply issue_all_knows; exact Hl|].
  split.
  - apply isort_sorted.
    + intros a b. apply bleb_total.
    + intros a b c. apply bleb_trans.
  - symmetry. apply isort_perm.
Qed.

(* the identifier map is one-to-one on the blank nodes of the dataset *)
Lemma dec_print_inj a b : dec_print a = dec_print b -> a = b.
Proof. intros E. destruct (dec_print_value a) as [_ A]. destruct (dec_print_value b) as [_ B]. rewrite E in A. congruence. Qed.

Lemma In_nth_error_fst {A B} (l : list (A * B)) x v : In (x, v) l -> exists k, nth_error l k = Some (x, v).
Proof. apply In_nth_error. Qed.

Theorem issued_injective c x y v : issuer_wf c -> lookup c x = Some v -> lookup c y = Some v -> x = y.
Proof.
  intros [Hn Hk] Lx Ly. unfold lookup in *. apply assoc_some in Lx, Ly.
  destruct (In_nth_error _ _ Lx) as [kx Ex]. destruct (In_nth_error _ _ Ly) as [ky Ey].
  pose proof (Hk _ _ Ex) as Vx. pose proof (Hk _ _ Ey) as Vy. cbn [snd] in Vx, Vy.
  assert (kx = ky) as ->.
  { rewrite Vx in Vy. apply app_inv_head in Vy. apply dec_print_inj in Vy. lia. }
  rewrite Ex in Ey. inversion Ey; reflexivity.
Qed.

End WithHash.

(* JsonLdRoundTrip.v — every dataset of well-formed quads is denoted by a JSON-LD document: the flat expanded writer
   (one node object per quad, named graphs as graph objects, value objects for literals) followed by the mapping of
   model/JsonLd.v is the identity, for datasets of any size. *)
From RK Require Import Base BaseFacts Iri3986 JsonLd.

Definition iri_ok (i : bytes) : bool :=
  negb (is_keyword i) && negb (at_form i) && negb (is_bnode_id i) && has_scheme i && iri_chars_ok i &&
  match split_colon i with Some (p, _) => negb (beq p (s2b "_")) | None => false end.

Lemma iri_ok_parts i : iri_ok i = true ->
  is_keyword i = false /\ at_form i = false /\ is_bnode_id i = false /\ has_scheme i = true /\ iri_chars_ok i = true /\
  match split_colon i with Some (p, _) => beq p (s2b "_") = false | None => False end.
Proof.
  unfold iri_ok. intros H.
  apply andb_prop in H as [H Hs]. apply andb_prop in H as [H Hc]. apply andb_prop in H as [H Hsch]. apply andb_prop in H as [H Hb].
  apply andb_prop in H as [Hk Ha]. apply negb_true_iff in Hk, Ha, Hb.
  repeat split; try assumption. destruct (split_colon i) as [[p sfx]|]; [apply negb_true_iff in Hs; exact Hs|discriminate].
Qed.

Lemma expand_plain base i vocab docrel :
  iri_ok i = true -> expand_iri (ACtx base None None []) i vocab docrel = Some (Some i).
Proof.
  intros H. destruct (iri_ok_parts i H) as (Hk & Ha & Hb & Hsch & Hc & Hs).
  unfold expand_iri, expand_with. rewrite Hk, Ha. cbn [mem existsb andb a_terms lookup].
  destruct (split_colon i) as [[p sfx]|] eqn:E; [|contradiction].
  rewrite Hs. cbn [orb].
  destruct (is_prefix (s2b "//") sfx); [reflexivity|].
  rewrite Hsch. reflexivity.
Qed.

(* ---------- the flat writer ---------- *)
Definition id_of (t : jterm) : bytes :=
  match t with TI i => i | TB _ l => 95%N :: 58%N :: l | TL _ _ _ => [] end.

Definition val_of (o : jterm) : json :=
  match o with
  | TL lex dt [] => JObj [(s2b "@value", JStr lex); (s2b "@type", JStr dt)]
  | TL lex _ lang => JObj [(s2b "@value", JStr lex); (s2b "@language", JStr lang)]
  | t => JObj [(s2b "@id", JStr (id_of t))]
  end.

Definition node_of (s : jterm) (p : bytes) (o : jterm) : json :=
  JObj [(s2b "@id", JStr (id_of s)); (p, JArr [val_of o])].

Definition quad_obj (q : jquad) : json :=
  let '(s, p, o, g) := q in
  match g with
  | None => node_of s p o
  | Some g => JObj [(s2b "@id", JStr (id_of g)); (s2b "@graph", JArr [node_of s p o])]
  end.

Definition flat_doc (qs : list jquad) : json := JArr (map quad_obj qs).

Definition node_ok (t : jterm) : bool :=
  match t with TI i => iri_ok i | TB false _ => true | _ => false end.
Definition obj_ok (o : jterm) : bool :=
  match o with
  | TL _ dt [] => iri_ok dt
  | TL _ dt ((_ :: _) as lang) => beq dt (rdf "langString") && lang_chars_ok lang
  | t => node_ok t
  end.
Definition quad_ok (q : jquad) : bool :=
  let '(s, p, o, g) := q in
  node_ok s && iri_ok p && obj_ok o && match g with None => true | Some g => node_ok g end.

Section RT.
Variable base : bytes.
Let a0 := ACtx base None None [].

Lemma expand_id_of t vocab docrel : node_ok t = true ->
  exists r, expand_iri a0 (id_of t) vocab docrel = Some (Some r) /\ classify r = Some t.
Proof.
  destruct t as [i|[|] l|]; cbn [node_ok id_of]; intros H; try discriminate.
  - exists i. unfold a0. rewrite expand_plain by exact H. split; [reflexivity|].
    destruct (iri_ok_parts i H) as (_ & _ & Hb & Hsch & Hc & _).
    unfold classify. rewrite Hb, Hsch, Hc. reflexivity.
  - exists (95%N :: 58%N :: l). split; reflexivity.
Qed.

Lemma kw_id : expand_iri a0 (s2b "@id") true false = Some (Some (s2b "@id")). Proof. reflexivity. Qed.


Lemma kw_exp (k : String.string) : is_keyword (s2b k) = true -> expand_iri a0 (s2b k) true false = Some (Some (s2b k)).
Proof. intros H. unfold expand_iri, expand_with. rewrite H. reflexivity. Qed.

(* a node reference *)
Lemma value_ref valuef f g t k : node_ok t = true ->
  value_step base valuef (node base (S f)) a0 g None (JObj [(s2b "@id", JStr (id_of t))]) k = Some ([t], [], k).
Proof.
  intros H. unfold value_step.
  change (lookup (s2b "@context") [(s2b "@id", JStr (id_of t))]) with (@None json).
  cbn [expand_keys]. rewrite (kw_exp "@id"%string) by reflexivity.
  change (ek_count "@value" [(Some (s2b "@id"), s2b "@id", JStr (id_of t))]) with 0.
  change (ek_count "@list" [(Some (s2b "@id"), s2b "@id", JStr (id_of t))]) with 0.
  change (ek_count "@set" [(Some (s2b "@id"), s2b "@id", JStr (id_of t))]) with 0.
  cbn [Nat.ltb Nat.leb].
  cbn [node]. unfold node_step.
  change (ek_count "@id" [(Some (s2b "@id"), s2b "@id", JStr (id_of t))]) with 1.
  change (ek_count "@graph" [(Some (s2b "@id"), s2b "@id", JStr (id_of t))]) with 0.
  cbn [Nat.ltb Nat.leb orb].
  change (ek_lookup "@id" [(Some (s2b "@id"), s2b "@id", JStr (id_of t))]) with (Some (JStr (id_of t))).
  destruct (expand_id_of t false true H) as (r & E1 & E2).
  rewrite E1, E2. cbn [fold_left].
  change (beq (s2b "@id") (s2b "@id")) with true. cbn [orb]. reflexivity.
Qed.

(* a literal as a value object *)
Lemma value_lit valuef nodef g lex dt lang k : obj_ok (TL lex dt lang) = true ->
  value_step base valuef nodef a0 g None (val_of (TL lex dt lang)) k = Some ([TL lex dt lang], [], k).
Proof.
  intros H. destruct lang as [|c lang]; cbn [obj_ok val_of] in *.
  - unfold value_step.
    change (lookup (s2b "@context") [(s2b "@value", JStr lex); (s2b "@type", JStr dt)]) with (@None json).
    cbn [expand_keys]. rewrite (kw_exp "@value"%string), (kw_exp "@type"%string) by reflexivity.
    set (ek := [(Some (s2b "@value"), s2b "@value", JStr lex); (Some (s2b "@type"), s2b "@type", JStr dt)]).
    change (ek_count "@value" ek) with 1. cbn [Nat.ltb Nat.leb].
    unfold value_object.
    change (forallb _ ek) with true.
    change (ek_count "@value" ek) with 1. change (ek_count "@type" ek) with 1. change (ek_count "@language" ek) with 0.
    cbn [negb Nat.eqb Nat.ltb Nat.leb orb].
    change (ek_lookup "@type" ek) with (Some (JStr dt)). change (ek_lookup "@language" ek) with (@None json).
    change (ek_lookup "@value" ek) with (Some (JStr lex)).
    unfold a0. rewrite expand_plain by exact H.
    destruct (iri_ok_parts dt H) as (_ & _ & Hb & Hsch & Hc & _).
    unfold is_abs. rewrite Hsch, Hb, Hc. reflexivity.
  - unfold value_step.
    change (lookup (s2b "@context") [(s2b "@value", JStr lex); (s2b "@language", JStr (c :: lang))]) with (@None json).
    cbn [expand_keys]. rewrite (kw_exp "@value"%string), (kw_exp "@language"%string) by reflexivity.
    set (ek := [(Some (s2b "@value"), s2b "@value", JStr lex); (Some (s2b "@language"), s2b "@language", JStr (c :: lang))]).
    change (ek_count "@value" ek) with 1. cbn [Nat.ltb Nat.leb].
    unfold value_object.
    change (forallb _ ek) with true.
    change (ek_count "@value" ek) with 1. change (ek_count "@type" ek) with 0. change (ek_count "@language" ek) with 1.
    cbn [negb Nat.eqb Nat.ltb Nat.leb orb].
    change (ek_lookup "@type" ek) with (@None json). change (ek_lookup "@language" ek) with (Some (JStr (c :: lang))).
    change (ek_lookup "@value" ek) with (Some (JStr lex)).
    apply andb_prop in H as [H Hl]. rewrite Hl. cbn [negb lang_lit].
    apply beq_true_iff in H. subst dt. reflexivity.
Qed.

Lemma value_val_of valuef f g o k : obj_ok o = true ->
  value_step base valuef (node base (S f)) a0 g None (val_of o) k = Some ([o], [], k).
Proof.
  intros H. destruct o as [i|gen l|lex dt lang].
  - apply (value_ref valuef f g (TI i) k H).
  - apply (value_ref valuef f g (TB gen l) k H).
  - apply value_lit; exact H.
Qed.

Lemma value_S n : value base (S n) = value_step base (value base n) (node base n). Proof. reflexivity. Qed.
Lemma node_S n : node base (S n) = node_step base (value base n). Proof. reflexivity. Qed.

Lemma not_kw p (kw : String.string) : is_keyword p = false -> is_keyword (s2b kw) = true -> beq p (s2b kw) = false.
Proof.
  intros Hp Hk. destruct (beq p (s2b kw)) eqn:E; [|reflexivity].
  apply beq_true_iff in E. subst p. congruence.
Qed.

Lemma iri_ok_kw p : iri_ok p = true -> is_keyword p = false.
Proof. intros H. apply (iri_ok_parts p H). Qed.
Lemma iri_ok_bn p : iri_ok p = true -> is_bnode_id p = false.
Proof. intros H. apply (iri_ok_parts p H). Qed.
Lemma iri_ok_scheme p : iri_ok p = true -> has_scheme p = true.
Proof. intros H. apply (iri_ok_parts p H). Qed.
Lemma iri_ok_chars p : iri_ok p = true -> iri_chars_ok p = true.
Proof. intros H. apply (iri_ok_parts p H). Qed.

(* the expanded entries of { "@id": i, p: v } *)
Definition ek2 (i : bytes) (p : bytes) (v : json) : list (option bytes * bytes * json) :=
  [(Some (s2b "@id"), s2b "@id", JStr i); (Some p, p, v)].

Lemma ek2_count p i v (kw : String.string) : is_keyword p = false -> is_keyword (s2b kw) = true ->
  ek_count kw (ek2 i p v) = if beq (s2b "@id") (s2b kw) then 1 else 0.
Proof.
  intros Hp Hk. unfold ek_count, ek2. cbn [filter fst snd].
  rewrite (not_kw p kw Hp Hk). destruct (beq (s2b "@id") (s2b kw)); reflexivity.
Qed.

Lemma ff_node_of s p o : iri_ok p = true -> free_floating base a0 (node_of s p o) = Some false.
Proof.
  intros Hp. pose proof (iri_ok_kw p Hp) as Hk. unfold free_floating, node_of.
  cbn [lookup]. change (beq (s2b "@id") (s2b "@context")) with false. rewrite (not_kw p "@context"%string Hk) by reflexivity.
  cbn [expand_keys]. rewrite (kw_exp "@id"%string) by reflexivity.
  unfold a0 at 1. rewrite (expand_plain base p true false Hp).
  fold (ek2 (id_of s) p (JArr [val_of o])).
  rewrite !(ek2_count p _ _ _ Hk) by reflexivity. reflexivity.
Qed.

Lemma ff_quad_obj q : quad_ok q = true -> free_floating base a0 (quad_obj q) = Some false.
Proof.
  destruct q as [[[s p] o] [gn|]]; cbn [quad_ok quad_obj]; intros H.
  - unfold free_floating. cbn [lookup]. change (beq (s2b "@id") (s2b "@context")) with false. change (beq (s2b "@graph") (s2b "@context")) with false.
    cbn [expand_keys]. rewrite (kw_exp "@id"%string), (kw_exp "@graph"%string) by reflexivity. reflexivity.
  - apply andb_prop in H as [H _]. apply andb_prop in H as [H _]. apply andb_prop in H as [_ Hp]. apply ff_node_of. exact Hp.
Qed.

Lemma node_of_eval f g s p o k : node_ok s = true -> iri_ok p = true -> obj_ok o = true ->
  value base (S (S (S (S (S f))))) a0 g None (node_of s p o) k = Some ([s], [(s, p, o, g)], k).
Proof.
  intros Hs Hp Ho.
  pose proof (iri_ok_kw p Hp) as Hk.
  rewrite value_S. unfold value_step at 1. unfold node_of.
  cbn [lookup].
  change (beq (s2b "@id") (s2b "@context")) with false. rewrite (not_kw p "@context"%string Hk) by reflexivity.
  cbn [expand_keys]. rewrite (kw_exp "@id"%string) by reflexivity.
  unfold a0 at 1. rewrite (expand_plain base p true false Hp).
  fold (ek2 (id_of s) p (JArr [val_of o])).
  rewrite !(ek2_count p _ _ _ Hk) by reflexivity.
  change (beq (s2b "@id") (s2b "@value")) with false. change (beq (s2b "@id") (s2b "@list")) with false.
  change (beq (s2b "@id") (s2b "@set")) with false.
  cbn [Nat.ltb Nat.leb].
  rewrite node_S. unfold node_step at 1.
  rewrite !(ek2_count p _ _ _ Hk) by reflexivity.
  change (beq (s2b "@id") (s2b "@id")) with true. change (beq (s2b "@id") (s2b "@graph")) with false.
  cbn [Nat.ltb Nat.leb orb].
  change (ek_lookup "@id" (ek2 (id_of s) p (JArr [val_of o]))) with (Some (JStr (id_of s))).
  destruct (expand_id_of s false true Hs) as (r & E1 & E2).
  rewrite E1, E2. unfold ek2. cbn [fold_left].
  change (beq (s2b "@id") (s2b "@id")) with true. cbn [orb].
  rewrite (not_kw p "@id"%string Hk), (not_kw p "@context"%string Hk), (not_kw p "@type"%string Hk), (not_kw p "@graph"%string Hk) by reflexivity.
  cbn [orb]. rewrite Hk, (iri_ok_bn p Hp), (iri_ok_scheme p Hp), (iri_ok_chars p Hp). cbn [negb a_terms a0 lookup].
  rewrite value_S. unfold value_step at 1.
  cbn [fold_left]. rewrite value_S.
  rewrite (value_val_of _ f g o k Ho).
  reflexivity.
Qed.

Lemma quad_obj_eval f q k : quad_ok q = true ->
  exists os, value base (S (S (S (S (S (S (S f))))))) a0 None None (quad_obj q) k = Some (os, [q], k).
Proof.
  destruct q as [[[s p] o] [gn|]]; cbn [quad_ok quad_obj]; intros H.
  - apply andb_prop in H as [H Hg]. apply andb_prop in H as [H Ho]. apply andb_prop in H as [Hs Hp].
    exists [gn].
    rewrite value_S. unfold value_step at 1.
    cbn [lookup].
    change (beq (s2b "@id") (s2b "@context")) with false. change (beq (s2b "@graph") (s2b "@context")) with false.
    cbn [expand_keys]. rewrite (kw_exp "@id"%string), (kw_exp "@graph"%string) by reflexivity.
    set (ek := [(Some (s2b "@id"), s2b "@id", JStr (id_of gn)); (Some (s2b "@graph"), s2b "@graph", JArr [node_of s p o])]).
    change (ek_count "@value" ek) with 0. change (ek_count "@list" ek) with 0. change (ek_count "@set" ek) with 0.
    cbn [Nat.ltb Nat.leb].
    rewrite node_S. unfold node_step at 1.
    change (ek_count "@id" ek) with 1. change (ek_count "@graph" ek) with 1.
    cbn [Nat.ltb Nat.leb orb].
    change (ek_lookup "@id" ek) with (Some (JStr (id_of gn))).
    destruct (expand_id_of gn false true Hg) as (r & E1 & E2).
    rewrite E1, E2. unfold ek. cbn [fold_left].
    change (beq (s2b "@id") (s2b "@id")) with true. cbn [orb].
    change (beq (s2b "@graph") (s2b "@id")) with false. change (beq (s2b "@graph") (s2b "@context")) with false.
    change (beq (s2b "@graph") (s2b "@type")) with false. change (beq (s2b "@graph") (s2b "@graph")) with true.
    cbn [orb as_list fold_left]. unfold node_of at 1. fold (node_of s p o). rewrite (ff_node_of s p o Hp).
    rewrite (node_of_eval f (Some gn) s p o k Hs Hp Ho).
    reflexivity.
  - apply andb_prop in H as [H _]. apply andb_prop in H as [H Ho]. apply andb_prop in H as [Hs Hp].
    exists [s]. apply (node_of_eval (S (S f)) None s p o k Hs Hp Ho).
Qed.

Lemma fold_quads f qs : forallb quad_ok qs = true -> forall acc k,
  fold_left (fun (st : option (list jquad * nat)) (v : json) =>
               match st, v with
               | Some (qs, k), JObj _ =>
                   match free_floating base a0 v with
                   | None => None
                   | Some true => Some (qs, k)
                   | Some false =>
                       match value base (S (S (S (S (S (S (S f))))))) a0 None None v k with
                       | Some (_, qs', k') => Some (qs ++ qs', k')
                       | None => None
                       end
                   end
               | _, _ => None
               end) (map quad_obj qs) (Some (acc, k)) = Some (acc ++ qs, k).
Proof.
  induction qs as [|q qs IH]; intros H acc k.
  - cbn. rewrite app_nil_r. reflexivity.
  - cbn [forallb] in H. apply andb_prop in H as [Hq H].
    cbn [map fold_left].
    destruct (quad_obj_eval f q k Hq) as (os & E).
    assert (Hobj : exists m, quad_obj q = JObj m).
    { destruct q as [[[s p] o] [gn|]]; cbn [quad_obj]; unfold node_of; eauto. }
    pose proof (ff_quad_obj q Hq) as Hff.
    destruct Hobj as (m & Em). rewrite Em in *. rewrite Hff, E.
    rewrite (IH H). rewrite <- app_assoc. reflexivity.
Qed.
End RT.

Lemma jsize_quad_obj q : 2 <= jsize (quad_obj q).
Proof. destruct q as [[[s p] o] [gn|]]; cbn [quad_obj]; unfold node_of; cbn; lia. Qed.

(* every dataset of well-formed quads is denoted by its flat document *)
Theorem flat_roundtrip base qs : forallb quad_ok qs = true -> jsonld_doc base (flat_doc qs) = Some qs.
Proof.
  intros H. unfold jsonld_doc, flat_doc.
  destruct qs as [|q qs]; [reflexivity|].
  set (doc := JArr (map quad_obj (q :: qs))).
  assert (Hf : exists f, 2 * S (jsize doc) = S (S (S (S (S (S (S f))))))).
  { pose proof (jsize_quad_obj q). unfold doc. cbn [map jsize fold_right].
    exists (2 * S (S (jsize (quad_obj q) + fold_right (fun c n => jsize c + n) 0 (map quad_obj qs))) - 7). lia. }
  destruct Hf as (f & Ef). rewrite Ef. unfold doc.
  rewrite (fold_quads base f (q :: qs) H [] 0). reflexivity.
Qed.

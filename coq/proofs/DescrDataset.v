(* DescrDataset.v — the dataset builder: quads are partitioned by graph name, a blank node which occurs in two
   graphs (or names a graph) is pinned, and a pinned blank node never loses its name in any graph's export. *)
From RK Require Import Base BaseFacts Descr DescrProofs DescrInline.
From Coq Require Import Permutation Lia.

Lemma gname_eqb_eq a b : gname_eqb a b = true <-> a = b.
Proof.
  destruct a as [x|], b as [y|]; simpl; try (split; [discriminate|intros; discriminate]); [|tauto].
  rewrite node_eqb_eq. split; congruence.
Qed.
Lemma gname_eqb_refl a : gname_eqb a a = true.
Proof. now apply gname_eqb_eq. Qed.

(* ---------- a nested or anonymous blank node is not pinned ---------- *)
Section Anon.
Variables (g : graph) (pinned : list nat) (o : opts).

Lemma AO_In f : forall s b, In b (AO g pinned o f s) -> inl g pinned o (NBlank b) = true.
Proof.
  induction f as [|f IH]; intros s b Hb; [destruct Hb|].
  rewrite AO_step in Hb. apply in_flat_map in Hb as (x & Hx & Hb). apply in_app_or in Hb as [Hb|Hb].
  - destruct x as [n|c|n]; simpl in Hb; [destruct Hb| |destruct Hb]. destruct Hb as [->|[]]. now apply kids_inl in Hx.
  - eapply IH; exact Hb.
Qed.

Theorem anon_not_pinned b : In b (anon_origins (export g pinned o)) -> memn b pinned = false.
Proof.
  rewrite anon_origins_export. intros Hb. apply in_flat_map in Hb as (s & _ & Hb). apply in_app_or in Hb as [Hb|Hb].
  - destruct s as [n|c|n]; simpl in Hb; try destruct Hb.
    destruct (use_anon o && Nat.eqb (refs g c) 0 && negb (memn c pinned)) eqn:E; [|destruct Hb].
    destruct Hb as [<-|[]]. apply andb_true_iff in E as [_ E]. now apply negb_true_iff in E.
  - apply AO_In in Hb. simpl in Hb. apply andb_true_iff in Hb as [_ Hb].
    now apply inlined_single_ref in Hb as [_ Hb].
Qed.
End Anon.

(* ---------- blank nodes seen in two graphs are pinned ---------- *)
Definition tstate := (list (nat * gname) * list nat)%type.
Definition first_of (st : tstate) (b : nat) : option (nat * gname) := find (fun e => Nat.eqb (fst e) b) (fst st).

Lemma find_app_some {A} (p : A -> bool) l l' e : find p l = Some e -> find p (l ++ l') = Some e.
Proof. induction l as [|x l IH]; simpl; [discriminate|]. destruct (p x); [auto|exact IH]. Qed.
Lemma find_app_none {A} (p : A -> bool) l l' : find p l = None -> find p (l ++ l') = find p l'.
Proof. induction l as [|x l IH]; simpl; [reflexivity|]. destruct (p x); [discriminate|exact IH]. Qed.

Lemma track_first_mono st gn t c e : first_of st c = Some e -> first_of (track st gn t) c = Some e.
Proof.
  unfold first_of, track. destruct t as [n|b|n]; try tauto. destruct st as [first shared].
  destruct (find (fun e0 => Nat.eqb (fst e0) b) first) as [[x g0]|]; [destruct (gname_eqb g0 gn); tauto|].
  simpl. apply find_app_some.
Qed.
Lemma track_shared_mono st gn t c : memn c (snd st) = true -> memn c (snd (track st gn t)) = true.
Proof.
  unfold track. destruct t as [n|b|n]; try tauto. destruct st as [first shared].
  destruct (find (fun e0 => Nat.eqb (fst e0) b) first) as [[x g0]|]; [|tauto].
  destruct (gname_eqb g0 gn); [tauto|]. simpl. intros ->. now rewrite orb_true_r.
Qed.
Lemma track_records st gn b :
  exists g0, first_of (track st gn (NBlank b)) b = Some (b, g0) /\
             (gname_eqb g0 gn = false -> memn b (snd (track st gn (NBlank b))) = true).
Proof.
  unfold first_of, track. destruct st as [first shared].
  destruct (find (fun e0 => Nat.eqb (fst e0) b) first) as [[x g0]|] eqn:E.
  - assert (x = b) by (apply find_some in E as [_ E]; now apply Nat.eqb_eq in E). subst x.
    exists g0. destruct (gname_eqb g0 gn) eqn:Eg; simpl; rewrite E; (split; [reflexivity|]); [discriminate|].
    intros _. now rewrite Nat.eqb_refl.
  - exists gn. simpl. rewrite (find_app_none _ _ _ E). simpl. rewrite Nat.eqb_refl. split; [reflexivity|].
    now rewrite gname_eqb_refl.
Qed.

Lemma track_quad_first_mono st q c e : first_of st c = Some e -> first_of (track_quad st q) c = Some e.
Proof.
  destruct q as [t gn]. unfold track_quad. intros Hf.
  assert (H1 : first_of (track (track st gn (t_s t)) gn (t_o t)) c = Some e) by now apply track_first_mono, track_first_mono.
  destruct gn as [[n|b|n]|]; exact H1.
Qed.
Lemma track_quad_shared_mono st q c : memn c (snd st) = true -> memn c (snd (track_quad st q)) = true.
Proof.
  destruct q as [t gn]. unfold track_quad. intros Hf.
  assert (H1 : memn c (snd (track (track st gn (t_s t)) gn (t_o t))) = true) by now apply track_shared_mono, track_shared_mono.
  destruct gn as [[n|b|n]|]; try exact H1. simpl. rewrite H1. now rewrite orb_true_r.
Qed.

Definition mentions (b : nat) (t : triple) : Prop := t_s t = NBlank b \/ t_o t = NBlank b.
Definition recorded (st : tstate) (b : nat) (gn : gname) : Prop :=
  exists g0, first_of st b = Some (b, g0) /\ (gname_eqb g0 gn = false -> memn b (snd st) = true).

Lemma recorded_mono st q b gn : recorded st b gn -> recorded (track_quad st q) b gn.
Proof.
  intros (g0 & Hf & Hs). exists g0. split; [now apply track_quad_first_mono|].
  intros E. apply track_quad_shared_mono. auto.
Qed.

Lemma track_quad_records st t gn b : mentions b t -> recorded (track_quad st (t, gn)) b gn.
Proof.
  intros Hm. unfold track_quad.
  assert (H1 : recorded (track (track st gn (t_s t)) gn (t_o t)) b gn).
  { destruct Hm as [Hm|Hm].
    - rewrite Hm. destruct (track_records st gn b) as (g0 & Hf & Hs).
      exists g0. split; [now apply track_first_mono|]. intros E. apply track_shared_mono. auto.
    - rewrite Hm. apply track_records. }
  destruct gn as [[n|c|n]|]; try exact H1.
  destruct H1 as (g0 & Hf & Hs). exists g0. split; [exact Hf|]. intros E. simpl. rewrite (Hs E). now rewrite orb_true_r.
Qed.

Lemma fold_track_records rest : forall st done,
  (forall t gn b, In (t, gn) done -> mentions b t -> recorded st b gn) ->
  forall t gn b, In (t, gn) (done ++ rest) -> mentions b t -> recorded (fold_left track_quad rest st) b gn.
Proof.
  induction rest as [|q rest IH]; intros st done Hd t gn b Hin Hm.
  - rewrite app_nil_r in Hin. simpl. eauto.
  - simpl. apply (IH (track_quad st q) (done ++ [q])) with (t := t).
    + intros t' gn' b' Hin' Hm'. apply in_app_or in Hin' as [Hin'|[->|[]]].
      * apply recorded_mono. eauto.
      * now apply track_quad_records.
    + now rewrite <- app_assoc.
    + exact Hm.
Qed.

(* a blank node which occurs in two different graphs is pinned *)
Theorem shared_between_graphs_pinned qs t1 g1 t2 g2 b :
  In (t1, g1) qs -> In (t2, g2) qs -> mentions b t1 -> mentions b t2 -> g1 <> g2 ->
  memn b (shared_of qs) = true.
Proof.
  intros H1 H2 M1 M2 Hne. unfold shared_of.
  pose proof (fold_track_records qs ([], []) [] (fun _ _ _ F => match F with end)) as R. simpl in R.
  destruct (R t1 g1 b H1 M1) as (g0 & Hf & Hs). destruct (R t2 g2 b H2 M2) as (g0' & Hf' & Hs').
  rewrite Hf in Hf'. inversion Hf'; subst g0'.
  destruct (gname_eqb g0 g1) eqn:E1; [|now apply Hs].
  apply Hs'. destruct (gname_eqb g0 g2) eqn:E2; [|reflexivity].
  apply gname_eqb_eq in E1, E2. congruence.
Qed.

(* so a blank node that occurs in two graphs keeps its name in every graph's export: it is neither nested nor made
   anonymous, and the fresh nodes of the flattening never stand for it (no split across graphs) *)
Theorem shared_never_anonymous qs o gn rs t1 g1 t2 g2 b :
  In (gn, rs) (export_dataset qs o) ->
  In (t1, g1) qs -> In (t2, g2) qs -> mentions b t1 -> mentions b t2 -> g1 <> g2 ->
  ~ In b (anon_origins rs).
Proof.
  unfold export_dataset. rewrite in_map_iff. intros (g0 & E & _) H1 H2 M1 M2 Hne Hb. inversion E; subst.
  apply anon_not_pinned in Hb. rewrite (shared_between_graphs_pinned qs t1 g1 t2 g2 b H1 H2 M1 M2 Hne) in Hb. discriminate.
Qed.

(* ---------- the quads are partitioned by graph name ---------- *)
Lemma gnames_aux_In qs : forall seen gn,
  In gn (gnames_aux qs seen) <-> (exists t, In (t, gn) qs) /\ ~ In gn seen.
Proof.
  assert (Hex : forall x l, existsb (gname_eqb x) l = true <-> In x l).
  { intros x l. rewrite existsb_exists. split; [intros (y & Hy & E); apply gname_eqb_eq in E; now subst|].
    intros Hx. exists x. split; [assumption|apply gname_eqb_refl]. }
  induction qs as [|[t g0] qs IH]; intros seen gn; simpl.
  - split; [tauto|intros [(t & []) _]].
  - destruct (existsb (gname_eqb g0) seen) eqn:E.
    + apply Hex in E. rewrite IH. split.
      * intros [(t' & Ht') Hn]. split; [eauto|assumption].
      * intros [(t' & [Ht'|Ht']) Hn]; [inversion Ht'; subst; contradiction|]. split; [eauto|assumption].
    + assert (Hn0 : ~ In g0 seen) by (intros Hi; apply Hex in Hi; congruence).
      simpl. rewrite IH. split.
      * intros [<-|[(t' & Ht') Hn]]; [split; [eauto|assumption]|]. split; [eauto|]. intros Hi. apply Hn. now right.
      * intros [(t' & [Ht'|Ht']) Hn]; [inversion Ht'; subst; now left|].
        destruct (gname_eqb g0 gn) eqn:E2; [apply gname_eqb_eq in E2; now left|].
        right. split; [eauto|]. intros [Hi|Hi]; [apply gname_eqb_eq in Hi; congruence|contradiction].
Qed.

Lemma gnames_aux_NoDup qs : forall seen, NoDup (gnames_aux qs seen).
Proof.
  induction qs as [|[t g0] qs IH]; intros seen; simpl; [constructor|].
  destruct (existsb (gname_eqb g0) seen); [apply IH|].
  constructor; [|apply IH]. intros Hi. apply gnames_aux_In in Hi as [_ Hn]. apply Hn. now left.
Qed.

Lemma partition_by_gname (qs : list quad) ks :
  NoDup ks ->
  Permutation (filter (fun q => existsb (gname_eqb (snd q)) ks) qs)
              (flat_map (fun gn => filter (fun q => gname_eqb (snd q) gn) qs) ks).
Proof.
  induction ks as [|k ks IH]; intros Hnd; simpl.
  - induction qs; simpl; auto.
  - inversion Hnd as [|? ? Hn Hnd']; subst.
    eapply perm_trans; [apply (filter_or_disjoint (fun q => gname_eqb (snd q) k) (fun q => existsb (gname_eqb (snd q)) ks))|].
    + intros q E. apply gname_eqb_eq in E. destruct (existsb (gname_eqb (snd q)) ks) eqn:E2; [|reflexivity].
      apply existsb_exists in E2 as (y & Hy & Ey). apply gname_eqb_eq in Ey. rewrite <- Ey, E in Hy. contradiction.
    + apply Permutation_app; [reflexivity|now apply IH].
Qed.

(* every quad goes to exactly one graph's builder *)
Theorem quads_by_graph qs :
  Permutation qs (flat_map (fun gn => map (fun t => (t, gn)) (graph_of qs gn)) (gnames_aux qs [])).
Proof.
  assert (E : forall gn, map (fun t => (t, gn)) (graph_of qs gn) = filter (fun q => gname_eqb (snd q) gn) qs).
  { intros gn. unfold graph_of. induction qs as [|[t g0] qs IH]; simpl; [reflexivity|].
    destruct (gname_eqb g0 gn) eqn:Eg; simpl; [apply gname_eqb_eq in Eg; subst; now rewrite IH|exact IH]. }
  rewrite (flat_map_ext _ _ E).
  rewrite <- (filter_all (fun q => existsb (gname_eqb (snd q)) (gnames_aux qs [])) qs) at 1.
  - apply partition_by_gname, gnames_aux_NoDup.
  - intros [t gn] Hq. apply existsb_exists. exists gn. split; [|apply gname_eqb_refl].
    apply gnames_aux_In. split; [eauto|tauto].
Qed.

(* a blank node which names a graph is pinned *)
Lemma fold_shared_mono rest : forall st c, memn c (snd st) = true -> memn c (snd (fold_left track_quad rest st)) = true.
Proof. induction rest as [|q rest IH]; intros st c Hc; simpl; [exact Hc|]. apply IH. now apply track_quad_shared_mono. Qed.

Theorem graph_name_pinned qs t b : In (t, Some (NBlank b)) qs -> memn b (shared_of qs) = true.
Proof.
  intros Hin. apply in_split in Hin as (l1 & l2 & ->). unfold shared_of. rewrite fold_left_app. simpl.
  apply fold_shared_mono. unfold track_quad. simpl. now rewrite Nat.eqb_refl.
Qed.

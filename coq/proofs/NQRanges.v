(* NQRanges.v — byte bookkeeping of the reported ranges: every range starts at or after the initial
   offset, ends at or after its start, and ends at or before the initial offset plus the number of
   input bytes; the byte offset after a trace is the initial one plus exactly the committed bytes. *)
From RK Require Import Base BaseFacts Utf8 Runes NQ NQTotal NQOffsets RuneBuf RuneBufProofs.

Definition bsize (rs : list drune) : N := fold_right (fun x a => (N.of_nat (snd x) + a)%N) 0%N rs.

Lemma bsize_app a b : bsize (a ++ b) = (bsize a + bsize b)%N.
Proof. induction a as [|x a IH]; cbn [bsize fold_right app] in *; [reflexivity|]. fold (bsize (a ++ b)). fold (bsize a). rewrite IH. lia. Qed.

Lemma write_runes_byte_n n : forall rs p, length rs <= n -> p_byte (write_runes p rs) = (p_byte p + bsize rs)%N.
Proof.
  induction n as [|n IH]; intros rs p Hn.
  - destruct rs; [cbn; lia|cbn in Hn; lia].
  - destruct rs as [|[c k] rest]; [cbn; lia|].
    cbn [write_runes]. cbn [bsize fold_right snd]. fold (bsize rest).
    cbn [length] in Hn.
    destruct (N.eqb c 10).
    { rewrite IH by lia. cbn [p_byte]. lia. }
    destruct (N.eqb c 13).
    + destruct rest as [|[c2 k2] rest2].
      * rewrite IH by (cbn; lia). cbn [p_byte bsize fold_right]. lia.
      * cbn [length] in Hn. destruct (N.eqb c2 10).
        -- rewrite IH by lia. cbn [p_byte bsize fold_right snd]. fold (bsize rest2). lia.
        -- rewrite IH by (cbn [length]; lia). cbn [p_byte bsize fold_right snd]. fold (bsize rest2). lia.
    + rewrite IH by lia. cbn [p_byte]. lia.
Qed.

Lemma write_runes_byte rs p : p_byte (write_runes p rs) = (p_byte p + bsize rs)%N.
Proof. apply (write_runes_byte_n (length rs)). lia. Qed.

Definition ble (a b : pos) : Prop := (p_byte a <= p_byte b)%N.

(* term_range: the start (if any) and the end lie between the position before and after the parts *)
Lemma term_range_from : forall ps p x until f u p',
  term_range p ps (Some x) until = (f, u, p') -> f = Some x.
Proof.
  induction ps as [|[tok rs] ps IH]; intros p x until f u p' H; cbn [term_range] in H.
  - inversion H; reflexivity.
  - destruct tok; eapply IH; exact H.
Qed.

Lemma term_range_none : forall ps p until f u p',
  term_range p ps None until = (f, u, p') -> f = None -> u = until.
Proof.
  induction ps as [|[tok rs] ps IH]; intros p until f u p' H Hn; cbn [term_range] in H.
  - inversion H; reflexivity.
  - destruct tok.
    + apply term_range_from in H. congruence.
    + eapply IH; eauto.
Qed.

Lemma term_range_bounds : forall ps p from until f u p',
  term_range p ps from until = (f, u, p') ->
  (forall x, from = Some x -> ble x until) -> ble until p ->
  p_byte p' = (p_byte p + bsize (flat_parts ps))%N /\ ble u p' /\
  (forall x, f = Some x -> ble x u /\ ((from = Some x) \/ (from = None /\ ble p x))).
Proof.
  induction ps as [|[tok rs] ps IH]; intros p from until f u p' H Hf Hu; cbn [term_range] in H.
  - inversion H; subst. unfold flat_parts. cbn. split; [lia|]. split; [exact Hu|].
    intros x Hx. split; [auto|]. left; exact Hx.
  - pose proof (write_runes_byte rs p) as W.
    destruct tok.
    + apply IH in H.
      * destruct H as (H1 & H2 & H3). split.
        { rewrite H1, W. unfold flat_parts. cbn [flat_map snd]. rewrite bsize_app. lia. }
        split; [exact H2|].
        intros x Hx. destruct (H3 x Hx) as [H4 H5]. split; [exact H4|].
        destruct from as [f0|].
        -- destruct H5 as [H5|[H5 _]]; [left; exact H5|discriminate].
        -- right. split; [reflexivity|]. destruct H5 as [H5|[H5 _]]; [|discriminate].
           inversion H5; subst. unfold ble; lia.
      * intros x Hx. destruct from as [f0|].
        -- inversion Hx; subst. specialize (Hf x eq_refl). unfold ble in *. rewrite W. lia.
        -- inversion Hx; subst. unfold ble. rewrite W. lia.
      * unfold ble; lia.
    + apply IH in H.
      * destruct H as (H1 & H2 & H3). split.
        { rewrite H1, W. unfold flat_parts. cbn [flat_map snd]. rewrite bsize_app. lia. }
        split; [exact H2|].
        intros x Hx. destruct (H3 x Hx) as [H4 H5]. split; [exact H4|].
        destruct H5 as [H5|[H5 H6]]; [left; exact H5|right; split; [exact H5|]].
        unfold ble in *. rewrite W in H6. lia.
      * exact Hf.
      * unfold ble in *. rewrite W. lia.
Qed.

(* ranges of one trace *)
Lemma ranges_bounds : forall tr p l pe,
  ranges p tr = (l, pe) ->
  p_byte pe = (p_byte p + bsize (flat_tr tr))%N /\
  Forall (fun r => ble p (fst r) /\ ble (fst r) (snd r) /\ ble (snd r) pe) l.
Proof.
  induction tr as [|e tr IH]; intros p l pe H; cbn [ranges] in H.
  - inversion H; subst. split; [cbn; lia|constructor].
  - destruct e as [rs|ps].
    + apply IH in H. destruct H as [H1 H2]. pose proof (write_runes_byte rs p) as W. split.
      * rewrite H1, W. unfold flat_tr. cbn [flat_map flat_ev]. rewrite bsize_app. lia.
      * eapply Forall_impl; [|exact H2]. intros [a b] (Ha & Hb & Hc). cbn [fst snd] in *. unfold ble in *. rewrite W in Ha. repeat split; lia.
    + destruct (term_range p ps None p) as [[f u] p'] eqn:T.
      destruct (ranges p' tr) as [l' pe'] eqn:R. inversion H; subst. clear H.
      apply IH in R. destruct R as [R1 R2].
      pose proof (term_range_none _ _ _ _ _ _ T) as TN.
      apply term_range_bounds in T; [|discriminate|unfold ble; lia].
      destruct T as (T1 & T2 & T3). split.
      * rewrite R1, T1. unfold flat_tr. cbn [flat_map flat_ev]. rewrite bsize_app. lia.
      * assert (P : ble p' pe) by (unfold ble; rewrite R1; lia).
        constructor.
        -- cbn [fst snd]. destruct f as [x|].
           ++ destruct (T3 x eq_refl) as [A [B|[_ B]]]; [discriminate|]. unfold ble in *. repeat split; lia.
           ++ rewrite (TN eq_refl) in *. unfold ble in *. repeat split; lia.
        -- eapply Forall_impl; [|exact R2]. intros [a b] (Ha & Hb & Hc). cbn [fst snd] in *. unfold ble in *. rewrite T1 in Ha. repeat split; lia.
Qed.

(* all statements of a document *)
Lemma stmt_ranges_bounds : forall l p,
  Forall (Forall (fun r => ble p (fst r) /\ ble (fst r) (snd r) /\ (p_byte (snd r) <= p_byte p + bsize (committed l))%N))
         (stmt_ranges p l).
Proof.
  induction l as [|s l IH]; intros p; cbn [stmt_ranges]; [constructor|].
  destruct (ranges p (st_trace s)) as [rs p'] eqn:R. apply ranges_bounds in R. destruct R as [R1 R2].
  unfold committed. cbn [flat_map]. fold (committed l). rewrite bsize_app.
  constructor.
  - eapply Forall_impl; [|exact R2]. intros [a b] (Ha & Hb & Hc). cbn [fst snd] in *. unfold ble in *. repeat split; lia.
  - specialize (IH p'). eapply Forall_impl; [|exact IH]. intros rs' H.
    eapply Forall_impl; [|exact H]. intros [a b] (Ha & Hb & Hc). cbn [fst snd] in *. unfold ble in *. repeat split; lia.
Qed.

Lemma decode_rune_exact bs r n rest : decode_rune bs = Some (r, n, rest) -> length bs = n + length rest.
Proof.
  destruct bs as [|b0 r0]; [discriminate|]. cbn [decode_rune].
  repeat match goal with
  | |- context [if ?c then _ else _] => destruct c
  | |- context [match ?l with [] => _ | _ :: _ => _ end] => destruct l
  end; intros H; inversion H; subst; cbn [length]; lia.
Qed.

Lemma decode_rune_none bs : decode_rune bs = None -> bs = [].
Proof.
  destruct bs as [|b0 r0]; [reflexivity|]. cbn [decode_rune].
  repeat match goal with
  | |- context [if ?c then _ else _] => destruct c
  | |- context [match ?l with [] => _ | _ :: _ => _ end] => destruct l
  end; discriminate.
Qed.

Lemma utf8_decode_fuel_size : forall fuel bs, length bs <= fuel -> bsize (utf8_decode_fuel fuel bs) = N.of_nat (length bs).
Proof.
  induction fuel as [|f IH]; intros bs H.
  - destruct bs; [reflexivity|cbn in H; lia].
  - cbn [utf8_decode_fuel]. destruct (decode_rune bs) as [[[r n] rest]|] eqn:E.
    + pose proof (decode_rune_exact _ _ _ _ E) as X. pose proof (decode_rune_size _ _ _ _ E) as Y.
      cbn [bsize fold_right snd]. fold (bsize (utf8_decode_fuel f rest)). rewrite IH by lia. lia.
    + apply decode_rune_none in E. subst. reflexivity.
Qed.

Lemma utf8_decode_size bs : bsize (utf8_decode bs) = N.of_nat (length bs).
Proof. apply utf8_decode_fuel_size. lia. Qed.

(* every reported range of every statement of every document, complete or not: inside the document as shifted by
   the initial offset, start not after end *)
Theorem decode_ranges_inside nq bs t p0 :
  Forall (Forall (fun r => (p_byte p0 <= p_byte (fst r))%N /\ (p_byte (fst r) <= p_byte (snd r))%N /\
                           (p_byte (snd r) <= p_byte p0 + N.of_nat (length bs))%N))
         (stmt_ranges p0 (fst (decode_bytes nq bs t))).
Proof.
  unfold decode_bytes.
  destruct (decode_committed nq (utf8_decode bs) t) as [rest Hr].
  pose proof (utf8_decode_size bs) as Hs. rewrite Hr, bsize_app in Hs.
  eapply Forall_impl; [|apply stmt_ranges_bounds]. intros rs H.
  eapply Forall_impl; [|exact H]. intros [a b] (Ha & Hb & Hc). cbn [fst snd] in *. unfold ble in *. repeat split; lia.
Qed.

(* Utf8Proofs.v — decoding the UTF-8 encoding of scalar values gives the values back, each with its size. *)
From RK Require Import Base BaseFacts Utf8 Runes NQ NQProofs.
From Coq Require Import ZifyN ZifyNat ZifyBool.
Ltac Zify.zify_post_hook ::= Z.div_mod_to_equations.

Lemma decode_encode_rune r X : is_scalar r = true ->
  decode_rune (encode_rune r ++ X) = Some (r, rune_size r, X).
Proof.
  intros Hs. unfold rune_size, encode_rune. rewrite Hs. cbn [negb]. unfold is_scalar in Hs.
  destruct (r <? 128)%N eqn:E1.
  { cbn [app decode_rune length]. rewrite E1. reflexivity. }
  destruct (r <? 2048)%N eqn:E2.
  { cbn [app decode_rune length].
    assert ((192 + r / 64 <? 128)%N = false) as -> by lia.
    assert ((192 + r / 64 <? 194)%N = false) as -> by lia.
    assert ((192 + r / 64 <? 224)%N = true) as -> by lia.
    assert (cont (128 + r mod 64) = true) as -> by (unfold cont; lia).
    repeat f_equal. lia. }
  destruct (r <? 65536)%N eqn:E3.
  { cbn [app decode_rune length].
    assert ((224 + r / 4096 <? 128)%N = false) as -> by lia.
    assert ((224 + r / 4096 <? 194)%N = false) as -> by lia.
    assert ((224 + r / 4096 <? 224)%N = false) as -> by lia.
    assert ((224 + r / 4096 <? 240)%N = true) as -> by lia.
    assert (Hc : (in_rng (if N.eqb (224 + r / 4096) 224 then 160 else 128) (if N.eqb (224 + r / 4096) 237 then 159 else 191) (128 + (r / 64) mod 64) && cont (128 + r mod 64)) = true).
    { unfold in_rng, cont. destruct (N.eqb_spec (224 + r / 4096) 224); destruct (N.eqb_spec (224 + r / 4096) 237); lia. }
    rewrite Hc. repeat f_equal. lia. }
  cbn [app decode_rune length].
  assert ((240 + r / 262144 <? 128)%N = false) as -> by lia.
  assert ((240 + r / 262144 <? 194)%N = false) as -> by lia.
  assert ((240 + r / 262144 <? 224)%N = false) as -> by lia.
  assert ((240 + r / 262144 <? 240)%N = false) as -> by lia.
  assert ((240 + r / 262144 <? 245)%N = true) as -> by lia.
  assert (Hc : (in_rng (if N.eqb (240 + r / 262144) 240 then 144 else 128) (if N.eqb (240 + r / 262144) 244 then 143 else 191) (128 + (r / 4096) mod 64) && cont (128 + (r / 64) mod 64) && cont (128 + r mod 64)) = true).
  { unfold in_rng, cont. destruct (N.eqb_spec (240 + r / 262144) 240); destruct (N.eqb_spec (240 + r / 262144) 244); lia. }
  rewrite Hc. repeat f_equal. lia.
Qed.

Lemma utf8_decode_fuel_encode : forall l f, length l <= f -> Forall (fun r => is_scalar r = true) l ->
  utf8_decode_fuel f (utf8_encode l) = drs l.
Proof.
  induction l as [|r l IH]; intros f Hf Hs.
  - destruct f; reflexivity.
  - inversion Hs as [|? ? Hr Hs']; subst. destruct f as [|f]; [cbn in Hf; lia|].
    cbn [utf8_encode flat_map utf8_decode_fuel]. rewrite decode_encode_rune by exact Hr.
    fold (utf8_encode l). rewrite IH by (cbn in Hf; lia || exact Hs'). reflexivity.
Qed.

Lemma encode_rune_nonempty r : 1 <= length (encode_rune r).
Proof. unfold encode_rune. repeat match goal with |- context [if ?c then _ else _] => destruct c end; cbn; lia. Qed.

Lemma utf8_encode_length l : length l <= length (utf8_encode l).
Proof.
  induction l as [|r l IH]; [cbn; lia|]. cbn [utf8_encode flat_map length]. rewrite app_length.
  pose proof (encode_rune_nonempty r). fold (utf8_encode l). lia.
Qed.

Theorem utf8_decode_encode l : Forall (fun r => is_scalar r = true) l -> utf8_decode (utf8_encode l) = drs l.
Proof. intros H. unfold utf8_decode. apply utf8_decode_fuel_encode; [apply utf8_encode_length|exact H]. Qed.

(* ---------- the bytes of an encoded dataset ---------- *)
From RK Require Import NQRoundTrip.

Definition sc (l : runes) : Prop := Forall (fun r => is_scalar r = true) l.

Lemma sc_app a b : sc a -> sc b -> sc (a ++ b). Proof. apply Forall_app_2 || (intros; apply Forall_app; split; assumption). Qed.
Lemma sc_ascii l : Forall (fun x => (x < 128)%N) l -> sc l.
Proof. intros H. eapply Forall_impl; [|exact H]. cbn. intros a Ha. unfold is_scalar. lia. Qed.

Lemma sc_esc_iri ascii r : is_scalar r = true -> sc (esc_iri_rune ascii r).
Proof.
  intros H. unfold esc_iri_rune. destruct (iri_mode r ascii).
  - repeat constructor; exact H.
  - repeat constructor; exact H.
  - apply sc_ascii. unfold uchar4. repeat constructor; try lia; apply hexd_lt.
  - apply sc_ascii. unfold uchar8. repeat constructor; try lia; try apply hexd_lt. apply hex_upper_lt.
    assert ((r / 268435456) mod 8 < 8)%N by (apply N.mod_lt; discriminate). lia.
Qed.

Lemma sc_esc_lit ascii r : is_scalar r = true -> sc (esc_lit_rune ascii r).
Proof.
  intros H. unfold esc_lit_rune. destruct (lit_mode r ascii).
  - repeat constructor; exact H.
  - apply sc_ascii. unfold echar_of.
    repeat match goal with |- context [if N.eqb r ?c then _ else _] => destruct (N.eqb r c) end; repeat constructor; lia.
  - apply sc_ascii. unfold uchar4. repeat constructor; try lia; apply hexd_lt.
  - apply sc_ascii. unfold uchar8. repeat constructor; try lia; try apply hexd_lt. apply hex_upper_lt.
    assert ((r / 268435456) mod 8 < 8)%N by (apply N.mod_lt; discriminate). lia.
Qed.

Lemma sc_flat_map (f : N -> runes) l : (forall r, is_scalar r = true -> sc (f r)) -> sc l -> sc (flat_map f l).
Proof. intros Hf. induction 1 as [|r l Hr _ IH]; cbn [flat_map]; [constructor|]. apply sc_app; [apply Hf; exact Hr|exact IH]. Qed.

Lemma sc_write_iri ascii i : sc i -> sc (write_iri ascii i).
Proof.
  intros H. unfold write_iri. constructor; [reflexivity|]. apply sc_app; [apply sc_flat_map; [apply sc_esc_iri|exact H]|repeat constructor].
Qed.

Lemma pn_scalar x : pn_chars_nt x || N.eqb x 46 = true -> is_scalar x = true.
Proof. unfold pn_chars_nt, pn_chars_u_nt, pn_chars_base, rng, is_scalar. lia. Qed.

Lemma sc_bn l : bn_ok l = true -> sc l.
Proof.
  destruct l as [|c rest]; [discriminate|]. cbn [bn_ok]. intros H. apply andb_prop in H as [H _]. apply andb_prop in H as [Hc Hr].
  constructor.
  - unfold pn_chars_u_nt, pn_chars_base, is_digit, rng in Hc. unfold is_scalar. lia.
  - apply Forall_forall. intros x Hx. rewrite forallb_forall in Hr. apply pn_scalar. apply Hr. exact Hx.
Qed.

Lemma sec_sc : forall l b, sec_ok b l = true -> sc l.
Proof.
  induction l as [|c t IH]; intros b H; [constructor|]. cbn [sec_ok] in H.
  destruct (is_alnum c) eqn:Ea.
  - constructor; [unfold is_alnum, is_alpha, is_digit, rng in Ea; unfold is_scalar; lia|]. eapply IH; exact H.
  - destruct (N.eqb_spec c 45) as [->|]; [|discriminate]. apply andb_prop in H as [_ H]. constructor; [reflexivity|]. eapply IH; exact H.
Qed.

Lemma prim_sc : forall l b, prim_ok b l = true -> sc l.
Proof.
  induction l as [|c t IH]; intros b H; [constructor|]. cbn [prim_ok] in H.
  destruct (is_alpha c) eqn:Ea.
  - constructor; [unfold is_alpha, rng in Ea; unfold is_scalar; lia|]. eapply IH; exact H.
  - destruct (N.eqb_spec c 45) as [->|]; [|discriminate]. apply andb_prop in H as [_ H]. constructor; [reflexivity|]. eapply sec_sc; exact H.
Qed.

Lemma sc_term ascii t : term_ok t -> sc (write_term ascii t).
Proof.
  destruct t as [i|l|lex dt lang]; cbn [term_ok write_term].
  - intros [H _]. apply sc_write_iri. exact H.
  - intros H. constructor; [reflexivity|]. constructor; [reflexivity|]. apply sc_bn. exact H.
  - intros [Hs Hk]. unfold write_literal. constructor; [reflexivity|].
    apply sc_app; [apply sc_flat_map; [apply sc_esc_lit|exact Hs]|].
    apply sc_app; [repeat constructor|].
    destruct Hk as [[-> ->]|[[-> (l & -> & Hl)]|(N1 & N2 & N3 & -> & [Hd _])]].
    + constructor.
    + change (beq rdf_langString xsd_string) with false. change (beq rdf_langString rdf_langString) with true. cbv iota.
      constructor; [reflexivity|]. unfold lang_ok in Hl. apply andb_prop in Hl as [Hl _]. eapply prim_sc; exact Hl.
    + rewrite N1, N2. apply sc_app; [repeat constructor|]. apply sc_write_iri. exact Hd.
Qed.

Lemma sc_quad ascii nq q : quad_ok nq q -> sc (write_quad ascii q).
Proof.
  intros (Hs & _ & Hp & _ & Ho & Hg). unfold write_quad.
  repeat (apply sc_app); try (apply sc_term; assumption); try (repeat constructor).
  destruct (q_g q) as [g|]; [|constructor]. destruct Hg as (_ & Hg & _). constructor; [reflexivity|]. apply sc_term. exact Hg.
Qed.

Lemma sc_encode ascii nq qs : Forall (quad_ok nq) qs -> sc (encode ascii qs).
Proof. induction 1 as [|q qs Hq _ IH]; cbn [encode flat_map]; [constructor|]. apply sc_app; [eapply sc_quad; exact Hq|exact IH]. Qed.

(* the round trip on bytes: writer, UTF-8 encoding, UTF-8 decoding as the reader does it, decoder *)
Theorem decode_bytes_encode ascii nq qs : Forall (quad_ok nq) qs ->
  exists stmts, decode_bytes nq (utf8_encode (encode ascii qs)) TEof = (stmts, VOk) /\ map st_quad stmts = qs.
Proof.
  intros H. unfold decode_bytes. rewrite utf8_decode_encode by (eapply sc_encode; exact H).
  apply decode_encode. exact H.
Qed.
